/- GENERATED on every run by harness/pytolean.py from /repo/src/someip/{config,sd}.py - do not edit.
   Each definition is the translation of the named Python function body (or of the named expression);
   Props/GenEquiv.lean proves it equal to the hand-written model for all arguments. -/
import SomeipModel.Model.Config
import SomeipModel.Model.Session
import SomeipModel.Model.Service
namespace Someip.Gen

def matchesOffer (s : Service) (e : SDEntry) : Except Err Bool :=
  (if (!decide (e.ty = EntryType.offer)) = true then .error .value else (if (!decide (s.sid = e.sid)) = true then .ok (false) else (if ((!decide (s.iid = 65535)) && (!decide (s.iid = e.iid))) = true then .ok (false) else (if ((!decide (s.maj = 255)) && (!decide (s.maj = e.maj))) = true then .ok (false) else (if ((!decide (s.min = 4294967295)) && (!decide (s.min = e.val))) = true then .ok (false) else .ok (true))))))

def matchesFind (s : Service) (e : SDEntry) : Except Err Bool :=
  (if (!decide (e.ty = EntryType.find)) = true then .error .value else (if (!decide (s.sid = e.sid)) = true then .ok (false) else (if ((!decide (e.iid = 65535)) && (!decide (s.iid = e.iid))) = true then .ok (false) else (if ((!decide (e.maj = 255)) && (!decide (s.maj = e.maj))) = true then .ok (false) else (if ((!decide (e.val = 4294967295)) && (!decide (s.min = e.val))) = true then .ok (false) else .ok (true))))))

def matchesSubscribe (s : Service) (e : SDEntry) : Except Err Bool :=
  (if (!decide (e.ty = EntryType.subscribe)) = true then .error .value else (if (!decide (s.sid = e.sid)) = true then .ok (false) else (if ((!decide (s.iid = 65535)) && (!decide (s.iid = e.iid))) = true then .ok (false) else (if ((!decide (s.maj = 255)) && (!decide (s.maj = e.maj))) = true then .ok (false) else .ok (decide (e.eventgroupId ∈ s.eventgroups))))))

def matchesService (s o : Service) : Bool :=
  (if (!decide (s.sid = o.sid)) = true then false else (if ((!decide (s.iid = 65535)) && (!decide (o.iid = 65535)) && (!decide (s.iid = o.iid))) = true then false else (if ((!decide (s.maj = 255)) && (!decide (o.maj = 255)) && (!decide (s.maj = o.maj))) = true then false else (if ((!decide (s.min = 4294967295)) && (!decide (o.min = 4294967295)) && (!decide (s.min = o.min))) = true then false else true))))

def rebootCond (flag oldFlag : Bool) (oldSid sid : Nat) : Bool :=
  (if (flag && ((!oldFlag) || (decide (oldSid > 0) && decide (oldSid ≥ sid)))) = true then true else false)

def nextOutgoing (flag : Bool) (id : Nat) : Bool × Nat :=
  (if decide (id ≥ 65535) = true then (false, 1) else (flag, (id + 1)))

def outgoingDefault : Bool × Nat :=
  (true, 1)

def sdForeign (h : Header) : Bool :=
  ((!decide (h.sid = SD_SERVICE)) || (!decide (h.mid = SD_METHOD)) || (!decide (h.iv = SD_INTERFACE_VERSION)) || (!decide (h.rc = RetCode.ok)) || (!decide (h.mt = MsgType.notification)))

def svcPrecheck (c : SvcCfg) (m : Header) (multicast known : Bool) : Option (Option RetCode) :=
  (if multicast = true then none else (if (!decide (m.sid = c.serviceId)) = true then some (some RetCode.unknownService) else (if (!decide (m.iv = c.versionMajor)) = true then some (some RetCode.wrongInterfaceVersion) else (if (!known) = true then some (some RetCode.unknownMethod) else (if (!(decide (m.mt = MsgType.request) || decide (m.mt = MsgType.requestNoReturn))) = true then some (some RetCode.wrongMessageType) else (if (!decide (m.rc = RetCode.ok)) = true then some (some RetCode.wrongMessageType) else some none))))))

def svcMalformedCode : RetCode :=
  RetCode.malformedMessage

def svcPositive (m : Header) (hasResponse : Bool) : Bool :=
  (hasResponse && decide (m.mt = MsgType.request))

def offerSuppressed (task remote : Option Nat) (canAnswer stop : Bool) : Bool :=
  (((!stop) && task.isNone) || ((!stop) && (!remote.isNone) && (!canAnswer)))

def subscribeRefused (task : Option Nat) (m : Bool) : Bool :=
  (task.isNone || (!m))

def instMatchesFind (canAnswer m : Bool) : Bool :=
  (if (!canAnswer) = true then false else m)

def queueImmediate (coll : Nat) : Bool :=
  decide (coll = 0)

def queueNewWindow (qNone done : Bool) : Bool :=
  (qNone || done)

def offerInitialWindow (lo hi : Nat) : Nat × Nat :=
  (lo, hi)

def offerRepCount (rmax : Nat) : Nat :=
  rmax

def offerRepDelay (i base : Nat) : Nat :=
  ((2 ^ i) * base)

def offerCyclicSleep (cyc : Nat) : Nat :=
  cyc

def findInitialWindow (lo hi : Nat) : Nat × Nat :=
  (lo, hi)

def findRepCount (rmax : Nat) : Nat :=
  rmax

def findRepDelay (i base : Nat) : Nat :=
  ((2 ^ i) * base)

def subscribeSleep (refresh : Nat) : Nat :=
  refresh

def storeArms (ttl : Nat) : Bool :=
  (!decide (ttl = 16777215))

def storeTtlDelay (ttl : Nat) : Nat :=
  ttl

def collectDelay (coll : Nat) : Nat :=
  coll

def answerWindow (lo hi : Nat) : Nat × Nat :=
  (lo, hi)

end Someip.Gen
