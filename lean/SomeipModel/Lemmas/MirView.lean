/-
  C14, the pure part: what a server holds after the Subscribe / StopSubscribe batches it was sent (`held`), the effect
  the subscriber's pending callbacks will have on that (`pend`), and the invariant `MI` that relates both to the set of
  requested pairs - over a *view* of the stack (the components `mpi` projects).  No Stack in this file.
-/
import SomeipModel.Lemmas.MirFrame
namespace Someip
open Stack
set_option linter.unusedSimpArgs false
set_option linter.unusedVariables false

abbrev Req := Eventgroup × Addr
abbrev SubMsg := Addr × Nat × List Eventgroup

/-- a server applies one batch: a Subscribe entry (TTL ≠ 0) for x makes it hold x, a StopSubscribe entry (TTL 0) drops x -/
def heldStep (x : Req) (b : Bool) (m : SubMsg) : Bool := if m.1 = x.2 ∧ x.1 ∈ m.2.2 then decide (m.2.1 ≠ 0) else b
/-- does the server at `x.2` hold eventgroup `x.1` after applying the batches of `log` in the order sent? -/
def held (x : Req) (log : List SubMsg) : Bool := log.foldl (heldStep x) false

/-- what one pending callback of the subscriber will do to that -/
def pendOp (ttl : Nat) (x : Req) (b : Bool) : Cb → Bool
  | .sendStartSubscribe d egs => heldStep x b (d, ttl, egs)
  | .sendStopSubscribe d egs => heldStep x b (d, 0, egs)
  | _ => b
def pend (ttl : Nat) (x : Req) (cbs : List Cb) (b : Bool) : Bool := cbs.foldl (pendOp ttl x) b

theorem held_append (x : Req) (log : List SubMsg) (m : SubMsg) : held x (log ++ [m]) = heldStep x (held x log) m := by
  simp [held, List.foldl_append]
theorem pend_cons (ttl : Nat) (x : Req) (cb : Cb) (r : List Cb) (b : Bool) : pend ttl x (cb :: r) b = pend ttl x r (pendOp ttl x b cb) := rfl
theorem pend_nil (ttl : Nat) (x : Req) (b : Bool) : pend ttl x [] b = b := rfl
theorem pend_append (ttl : Nat) (x : Req) (l l' : List Cb) (b : Bool) : pend ttl x (l ++ l') b = pend ttl x l' (pend ttl x l b) := by
  simp [pend, List.foldl_append]

theorem pendOp_cases (ttl : Nat) (x : Req) (cb : Cb) : (∀ b, pendOp ttl x b cb = b) ∨ (∃ c, ∀ b, pendOp ttl x b cb = c) := by
  cases cb with
  | sendStartSubscribe d egs =>
    simp only [pendOp, heldStep]; split
    · right; exact ⟨_, fun _ => rfl⟩
    · left; intro b; rfl
  | sendStopSubscribe d egs =>
    simp only [pendOp, heldStep]; split
    · right; exact ⟨_, fun _ => rfl⟩
    · left; intro b; rfl
  | _ => left; intro b; rfl

/-- the pending callbacks never turn "held" into "not held" where they would not have done so anyway -/
theorem pend_mono (ttl : Nat) (x : Req) (l : List Cb) (b : Bool) (h : pend ttl x l b = true) : pend ttl x l true = true := by
  induction l generalizing b with
  | nil => rfl
  | cons cb r ih =>
    rw [pend_cons] at h ⊢
    rcases pendOp_cases ttl x cb with h1 | ⟨c, h1⟩
    · rw [h1] at h ⊢; exact ih _ h
    · rw [h1] at h ⊢; exact h

def isStart : Cb → Bool | .sendStartSubscribe _ _ => true | _ => false
theorem pend_noStart_false (ttl : Nat) (x : Req) (l : List Cb) (h : ∀ cb ∈ l, isStart cb = false) : pend ttl x l false = false := by
  induction l with
  | nil => rfl
  | cons cb r ih =>
    rw [pend_cons]
    have h1 : pendOp ttl x false cb = false := by
      have := h cb List.mem_cons_self
      cases cb <;> simp_all [pendOp, heldStep, isStart]
    rw [h1]; exact ih (fun c hc => h c (List.mem_cons_of_mem _ hc))

/-- the StopSubscribe callbacks `stop` queues: one per server -/
def stopCbs (gs : List (Addr × List Eventgroup)) : List Cb := gs.map (fun p => .sendStopSubscribe p.1 p.2)

theorem pend_stopCbs_false (ttl : Nat) (x : Req) (gs : List (Addr × List Eventgroup)) : pend ttl x (stopCbs gs) false = false :=
  pend_noStart_false _ _ _ (fun cb h => by
    simp only [stopCbs, List.mem_map] at h
    obtain ⟨p, _, rfl⟩ := h; rfl)

theorem pend_stopCbs_hit (ttl : Nat) (x : Req) (gs : List (Addr × List Eventgroup)) (b : Bool)
    (h : ∃ l, (x.2, l) ∈ gs ∧ x.1 ∈ l) : pend ttl x (stopCbs gs) b = false := by
  induction gs generalizing b with
  | nil => obtain ⟨l, hl, _⟩ := h; cases hl
  | cons p t ih =>
    simp only [stopCbs, List.map_cons]
    rw [pend_cons]
    obtain ⟨l, hl, hx⟩ := h
    rcases List.mem_cons.mp hl with rfl | hl
    · have : pendOp ttl x b (.sendStopSubscribe x.2 l) = false := by simp [pendOp, heldStep, hx]
      rw [this]; exact pend_stopCbs_false ttl x t
    · exact ih _ ⟨l, hl, hx⟩

/-! ### grouping -/

/-- grouping keeps every requested pair exactly under its own server -/
theorem groupEntries_members (es : List (Eventgroup × Addr)) (g : Eventgroup) (d : Addr) :
    (∃ l, (d, l) ∈ groupEntries es ∧ g ∈ l) ↔ (g, d) ∈ es := by
  unfold groupEntries
  suffices h : ∀ (acc : List (Addr × List Eventgroup)),
      (∃ l, (d, l) ∈ es.foldl (fun acc p =>
          if acc.any (fun q => decide (q.1 = p.2)) then acc.map (fun q => if q.1 = p.2 then (q.1, q.2 ++ [p.1]) else q)
          else acc ++ [(p.2, [p.1])]) acc ∧ g ∈ l) ↔ ((∃ l, (d, l) ∈ acc ∧ g ∈ l) ∨ (g, d) ∈ es) by
    simpa using h []
  induction es with
  | nil => intro acc; simp
  | cons p t ih =>
    intro acc
    rw [List.foldl_cons, ih]
    by_cases hany : acc.any (fun q => decide (q.1 = p.2)) = true
    · simp only [hany, if_true, List.mem_map, List.mem_cons]
      constructor
      · rintro (⟨l, ⟨q, hq, hql⟩, hg⟩ | h)
        · by_cases hq2 : q.1 = p.2
          · simp only [hq2, if_true, Prod.mk.injEq] at hql
            obtain ⟨rfl, rfl⟩ := hql
            simp only [List.mem_append, List.mem_cons, List.not_mem_nil, or_false] at hg
            rcases hg with hg | hg
            · exact Or.inl ⟨q.2, by rw [← hq2]; exact hq, hg⟩
            · subst hg; exact Or.inr (Or.inl rfl)
          · simp only [hq2, if_false] at hql
            subst hql; exact Or.inl ⟨_, hq, hg⟩
        · exact Or.inr (Or.inr h)
      · rintro (⟨l, hl, hg⟩ | h | h)
        · by_cases hd : d = p.2
          · exact Or.inl ⟨l ++ [p.1], ⟨(d, l), hl, by simp [hd]⟩, by simp [hg]⟩
          · exact Or.inl ⟨l, ⟨(d, l), hl, by simp [hd]⟩, hg⟩
        · obtain ⟨rfl, rfl⟩ : g = p.1 ∧ d = p.2 := by cases p; simpa using h
          simp only [List.any_eq_true, decide_eq_true_eq] at hany
          obtain ⟨q, hq, hq2⟩ := hany
          exact Or.inl ⟨q.2 ++ [p.1], ⟨q, hq, by simp [hq2]⟩, by simp⟩
        · exact Or.inr h
    · simp only [hany, Bool.false_eq_true, if_false, List.mem_append, List.mem_cons, List.not_mem_nil, or_false, Prod.mk.injEq]
      constructor
      · rintro (⟨l, (hl | ⟨rfl, rfl⟩), hg⟩ | h)
        · exact Or.inl ⟨l, hl, hg⟩
        · simp at hg; subst hg; exact Or.inr (Or.inl rfl)
        · exact Or.inr (Or.inr h)
      · rintro (⟨l, hl, hg⟩ | h | h)
        · exact Or.inl ⟨l, Or.inl hl, hg⟩
        · obtain ⟨rfl, rfl⟩ : g = p.1 ∧ d = p.2 := by cases p; simpa using h
          exact Or.inl ⟨[p.1], Or.inr ⟨rfl, rfl⟩, by simp⟩
        · exact Or.inr h

/-- the batches of one refresh round -/
def roundMsgs (ttl : Nat) (gs : List (Addr × List Eventgroup)) : List SubMsg := gs.map (fun p => (p.1, ttl, p.2))

theorem held_fold_round (x : Req) (ttl : Nat) (httl : ttl ≠ 0) (gs : List (Addr × List Eventgroup)) (b : Bool) :
    ((∃ l, (x.2, l) ∈ gs ∧ x.1 ∈ l) → (roundMsgs ttl gs).foldl (heldStep x) b = true) ∧
    ((¬ ∃ l, (x.2, l) ∈ gs ∧ x.1 ∈ l) → (roundMsgs ttl gs).foldl (heldStep x) b = b) := by
  induction gs generalizing b with
  | nil => simp [roundMsgs]
  | cons p t ih =>
    simp only [roundMsgs, List.map_cons, List.foldl_cons] at ih ⊢
    by_cases hp : p.1 = x.2 ∧ x.1 ∈ p.2
    · have h1 : heldStep x b (p.1, ttl, p.2) = true := by simp [heldStep, hp, httl]
      have h2 : ∃ l, (x.2, l) ∈ p :: t ∧ x.1 ∈ l := ⟨p.2, by rw [← hp.1]; exact List.mem_cons_self, hp.2⟩
      rw [h1]
      refine ⟨fun _ => ?_, fun h => absurd h2 h⟩
      by_cases ht : ∃ l, (x.2, l) ∈ t ∧ x.1 ∈ l
      · exact (ih true).1 ht
      · exact (ih true).2 ht
    · have h1 : heldStep x b (p.1, ttl, p.2) = b := by simp only [heldStep]; rw [if_neg hp]
      rw [h1]
      have : (∃ l, (x.2, l) ∈ t ∧ x.1 ∈ l) ↔ (∃ l, (x.2, l) ∈ p :: t ∧ x.1 ∈ l) := by
        constructor
        · rintro ⟨l, hl, hx⟩; exact ⟨l, List.mem_cons_of_mem _ hl, hx⟩
        · rintro ⟨l, hl, hx⟩
          rcases List.mem_cons.mp hl with h | h
          · exact absurd ⟨by rw [← h], by rw [← h]; exact hx⟩ hp
          · exact ⟨l, h, hx⟩
      rw [← this]; exact ih b

/-- after a refresh round the server holds everything requested, and otherwise what it held before -/
theorem held_round (x : Req) (ttl : Nat) (httl : ttl ≠ 0) (se : List Req) (log : List SubMsg) :
    held x (log ++ roundMsgs ttl (groupEntries se)) = if x ∈ se then true else held x log := by
  unfold held
  rw [List.foldl_append]
  have hg := groupEntries_members se x.1 x.2
  have := held_fold_round x ttl httl (groupEntries se) (List.foldl (heldStep x) false log)
  by_cases hx : x ∈ se
  · rw [if_pos hx]; exact this.1 (hg.mpr hx)
  · rw [if_neg hx]; exact this.2 (fun h => hx (hg.mp h))

end Someip
