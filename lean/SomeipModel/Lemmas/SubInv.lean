/-
  The subscription-store invariant (C06, whole-run, store level): for every offered instance i, every subscriber address a
  and every subscription key k (keys are compared like the dataclass: ids, counter and the SET of endpoints - `SubKey.same`),
  the listener notifications `subscribed` / `unsubscribed` for (i, k, a) so far alternate beginning with `subscribed`, and
  the last one is `subscribed` exactly when the instance's store holds an entry for k at address a right now.  No two
  entries of one address have the same key.
-/
import SomeipModel.Lemmas.SubFrame
import SomeipModel.Lemmas.StoreInv
namespace Someip
namespace Stack
set_option linter.unusedSimpArgs false
set_option linter.unusedVariables false

/-! ### `same` is an equivalence -/

theorem subset_refl {α} [DecidableEq α] (a : List α) : subset a a = true := by
  simp [subset]
theorem subset_trans {α} [DecidableEq α] {a b c : List α} (h1 : subset a b = true) (h2 : subset b c = true) : subset a c = true := by
  simp only [subset, List.all_eq_true, decide_eq_true_eq] at *
  intro x hx; exact h2 x (h1 x hx)

theorem same_refl (k : SubKey) : k.same k = true := by simp [SubKey.same, subset_refl]
theorem same_symm {a b : SubKey} (h : a.same b = true) : b.same a = true := by
  simp only [SubKey.same, Bool.and_eq_true, decide_eq_true_eq] at *
  obtain ⟨⟨⟨h1, h2, h3, h4, h5⟩, h6⟩, h7⟩ := h
  exact ⟨⟨⟨h1.symm, h2.symm, h3.symm, h4.symm, h5.symm⟩, h7⟩, h6⟩
theorem same_trans {a b c : SubKey} (h1 : a.same b = true) (h2 : b.same c = true) : a.same c = true := by
  simp only [SubKey.same, Bool.and_eq_true, decide_eq_true_eq] at *
  obtain ⟨⟨⟨a1, a2, a3, a4, a5⟩, a6⟩, a7⟩ := h1
  obtain ⟨⟨⟨b1, b2, b3, b4, b5⟩, b6⟩, b7⟩ := h2
  exact ⟨⟨⟨a1.trans b1, a2.trans b2, a3.trans b3, a4.trans b4, a5.trans b5⟩, subset_trans a6 b6⟩, subset_trans b7 a7⟩
theorem same_congr_right {a b c : SubKey} (h : b.same c = true) : a.same b = a.same c := by
  cases h1 : a.same b <;> cases h2 : a.same c <;> try rfl
  · rw [same_trans h2 (same_symm h)] at h1; cases h1
  · rw [same_trans h1 h] at h2; cases h2
theorem same_congr_left {a b c : SubKey} (h : a.same b = true) : a.same c = b.same c := by
  cases h1 : a.same c <;> cases h2 : b.same c <;> try rfl
  · rw [same_trans h h2] at h1; cases h1
  · rw [same_trans (same_symm h) h1] at h2; cases h2

/-! ### keys of one address -/

def hasKey (es : List (TSEntry SubKey)) (k : SubKey) : Bool := es.any (fun e => e.key.same k)
def NoDupSame (es : List (TSEntry SubKey)) : Prop := es.Pairwise (fun x y => x.key.same y.key = false)

theorem findKey_same_none {es : List (TSEntry SubKey)} {k : SubKey} (h : TStore.findKey SubKey.same es k = none) : hasKey es k = false := by
  simp only [TStore.findKey, List.find?_eq_none] at h
  simp only [hasKey, List.any_eq_false]
  intro e he; simpa using h e he
theorem findKey_same_some {es : List (TSEntry SubKey)} {k : SubKey} {e : TSEntry SubKey}
    (h : TStore.findKey SubKey.same es k = some e) : hasKey es k = true := by
  simp only [hasKey, List.any_eq_true]
  unfold TStore.findKey at h
  have h2 := List.find?_some h
  exact ⟨e, List.mem_of_find?_eq_some h, by simpa using h2⟩

theorem hasKey_erase (es : List (TSEntry SubKey)) (k k' : SubKey) :
    hasKey (TStore.eraseKey SubKey.same es k) k' = (hasKey es k' && !k.same k') := by
  induction es with
  | nil => rfl
  | cons e t ih =>
    simp only [TStore.eraseKey, List.filter_cons] at ih ⊢
    cases h1 : e.key.same k
    · simp only [Bool.not_false, if_true, hasKey, List.any_cons] at ih ⊢
      rw [ih]
      cases h2 : e.key.same k'
      · simp
      · have : k.same k' = false := by
          cases h3 : k.same k'
          · rfl
          · rw [same_trans h2 (same_symm h3)] at h1; cases h1
        simp [this]
    · simp only [Bool.not_true, Bool.false_eq_true, if_false, hasKey, List.any_cons] at ih ⊢
      rw [ih]
      have : e.key.same k' = k.same k' := same_congr_left h1
      rw [this]
      cases k.same k' <;> simp

theorem noDup_erase {es : List (TSEntry SubKey)} (k : SubKey) (h : NoDupSame es) : NoDupSame (TStore.eraseKey SubKey.same es k) :=
  List.Pairwise.filter _ h

theorem noDup_append_one {es : List (TSEntry SubKey)} {x : TSEntry SubKey} (h : NoDupSame es) (hx : hasKey es x.key = false) :
    NoDupSame (es ++ [x]) := by
  unfold NoDupSame
  rw [List.pairwise_append]
  refine ⟨h, by simp, ?_⟩
  intro a ha b hb
  simp only [List.mem_singleton] at hb; subst hb
  simp only [hasKey, List.any_eq_false] at hx
  simpa using hx a ha

theorem hasKey_append_one (es : List (TSEntry SubKey)) (x : TSEntry SubKey) (k : SubKey) :
    hasKey (es ++ [x]) k = (hasKey es k || x.key.same k) := by
  simp [hasKey, List.any_append]

/-! ### the log of listener notifications and its tracking automaton -/

abbrev ULog := List (Bool × Nat × SubKey × Addr)

def subLogOf (outs : List (Nat × Out)) : ULog :=
  outs.filterMap (fun o => match o.2 with
    | .subscribed i k a => some (true, i, k, a)
    | .unsubscribed i k a => some (false, i, k, a)
    | _ => none)

def trackU (i : Nat) (k : SubKey) (a : Addr) : Option Bool → ULog → Option Bool
  | st, [] => st
  | none, _ => none
  | some b, (o, i', k', a') :: r =>
    if i' = i ∧ k'.same k = true ∧ a' = a then
      (if o then (if b then none else trackU i k a (some true) r) else (if b then trackU i k a (some false) r else none))
    else trackU i k a (some b) r

@[simp] theorem trackU_none (i : Nat) (k : SubKey) (a : Addr) (l : ULog) : trackU i k a none l = none := by
  cases l <;> simp [trackU]

theorem trackU_append (i : Nat) (k : SubKey) (a : Addr) (st : Option Bool) (l1 l2 : ULog) :
    trackU i k a st (l1 ++ l2) = trackU i k a (trackU i k a st l1) l2 := by
  induction l1 generalizing st with
  | nil => simp [trackU]
  | cons x xs ih =>
    cases st with
    | none => simp
    | some b =>
      obtain ⟨o, i', k', a'⟩ := x
      simp only [List.cons_append, trackU]
      split
      · split
        · split
          · simp
          · exact ih _
        · split
          · exact ih _
          · simp
      · exact ih _

theorem trackU_single (i : Nat) (k : SubKey) (a : Addr) (b o : Bool) (i' : Nat) (k' : SubKey) (a' : Addr) :
    trackU i k a (some b) [(o, i', k', a')] =
      if i' = i ∧ k'.same k = true ∧ a' = a then (if o then (if b then none else some true) else (if b then some false else none)) else some b := by
  simp only [trackU]

/-- a run of `unsubscribed` for pairwise different keys of one instance and address -/
theorem trackU_unsub_map (i i' : Nat) (k : SubKey) (a a' : Addr) (L : List (TSEntry SubKey)) (hnd : NoDupSame L) (b : Bool) :
    trackU i k a (some b) (L.map (fun e => (false, i', e.key, a'))) =
      if i' = i ∧ a' = a ∧ hasKey L k = true then (if b then some false else none) else some b := by
  induction L generalizing b with
  | nil => simp [trackU, hasKey]
  | cons p ps ih =>
    obtain ⟨hp, hps⟩ := List.pairwise_cons.mp hnd
    have hcons : hasKey (p :: ps) k = (p.key.same k || hasKey ps k) := by simp [hasKey]
    simp only [List.map_cons, trackU]
    rw [hcons]
    by_cases h : i' = i ∧ p.key.same k = true ∧ a' = a
    · obtain ⟨rfl, hk, rfl⟩ := h
      have hrest : hasKey ps k = false := by
        simp only [hasKey, List.any_eq_false]
        intro e he
        have h1 := hp e he
        rw [same_congr_left hk] at h1
        intro q
        rw [same_symm q] at h1; cases h1
      rw [if_pos ⟨rfl, hk, rfl⟩]
      cases b
      · simp [hk]
      · simp only [if_true, Bool.false_eq_true, if_false]
        rw [ih hps, hrest, hk]
        simp
    · rw [if_neg h, ih hps]
      by_cases hia : i' = i ∧ a' = a
      · obtain ⟨rfl, rfl⟩ := hia
        have hpk : p.key.same k = false := by
          cases hq : p.key.same k
          · rfl
          · exact absurd ⟨rfl, hq, rfl⟩ h
        simp [hpk]
      · have h1 : ¬ (i' = i ∧ a' = a ∧ (p.key.same k || hasKey ps k) = true) := fun q => hia ⟨q.1, q.2.1⟩
        have h2 : ¬ (i' = i ∧ a' = a ∧ hasKey ps k = true) := fun q => hia ⟨q.1, q.2.1⟩
        rw [if_neg h1, if_neg h2]

theorem trackU_other_inst (i : Nat) (k : SubKey) (a : Addr) (b : Bool) (ext : ULog) (h : ∀ x ∈ ext, x.2.1 ≠ i) :
    trackU i k a (some b) ext = some b := by
  induction ext with
  | nil => rfl
  | cons x t ih =>
    obtain ⟨o, i', k', a'⟩ := x
    have hx : ¬ (i' = i ∧ k'.same k = true ∧ a' = a) := fun q => h (o, i', k', a') (by simp) q.1
    simp only [trackU, hx, if_false]
    exact ih (fun y hy => h y (by simp [hy]))

/-! ### the invariant -/

def subsAt (s : Stack) (i : Nat) : Option (TStore SubKey) := (s.instances.map (·.subs))[i]?

def SubInv (s : Stack) : Prop := ∀ i st, subsAt s i = some st →
  (∀ a, NoDupSame (st.get a)) ∧ ∀ k a, trackU i k a (some false) (subLogOf s.outs) = some (hasKey (st.get a) k)

theorem subLogOf_filter (outs : List (Nat × Out)) : subLogOf (outs.filter (fun o => isSubNote o.2)) = subLogOf outs := by
  induction outs with
  | nil => rfl
  | cons o t ih =>
    obtain ⟨tt, oo⟩ := o
    cases oo <;> simp [subLogOf, List.filter_cons, isSubNote, List.filterMap_cons] at ih ⊢ <;> exact ih

theorem subInv_of_spi {s s' : Stack} (h : spi s' = spi s) (hi : SubInv s) : SubInv s' := by
  have e1 : s'.instances.map (·.subs) = s.instances.map (·.subs) := congrArg (fun p => p.1) h
  have e2 : s'.outs.filter (fun o => isSubNote o.2) = s.outs.filter (fun o => isSubNote o.2) := congrArg (fun p => p.2.1) h
  intro i st hst
  have hst' : subsAt s i = some st := by unfold subsAt at hst ⊢; rw [← e1]; exact hst
  obtain ⟨h1, h2⟩ := hi i st hst'
  refine ⟨h1, fun k a => ?_⟩
  rw [← subLogOf_filter, e2, subLogOf_filter]; exact h2 k a

theorem subsAt_of_getInst {s : Stack} {i : Nat} {x : Instance} (h : s.getInst i = some x) : subsAt s i = some x.subs := by
  unfold subsAt getInst at *
  simp [List.getElem?_map, h]

theorem subsAt_setInst (s : Stack) (i j : Nat) (x x' : Instance) (h : s.getInst i = some x) :
    subsAt (s.setInst i x') j = if j = i then some x'.subs else subsAt s j := by
  unfold subsAt setInst getInst at *
  simp only [List.getElem?_map]
  by_cases hj : j = i
  · subst hj
    have hlt : j < s.instances.length := by
      rcases Nat.lt_or_ge j s.instances.length with q | q
      · exact q
      · rw [List.getElem?_eq_none q] at h; cases h
    simp [List.getElem?_set, hlt]
  · have : ¬ i = j := fun e => hj e.symm
    simp [List.getElem?_set, this, hj]

theorem subLogOf_append (a b : List (Nat × Out)) : subLogOf (a ++ b) = subLogOf a ++ subLogOf b := by
  simp [subLogOf, List.filterMap_append]

/-- one store operation of instance i: the store of i becomes st', the log grows by notifications of instance i only -/
theorem subInv_step (s s' : Stack) (i : Nat) (st st' : TStore SubKey) (ext : ULog) (hi : SubInv s)
    (hst : subsAt s i = some st)
    (hsub : ∀ j, subsAt s' j = if j = i then some st' else subsAt s j)
    (hlog : subLogOf s'.outs = subLogOf s.outs ++ ext) (hext : ∀ x ∈ ext, x.2.1 = i)
    (hnd : ∀ a, NoDupSame (st'.get a))
    (h : ∀ k a, trackU i k a (some (hasKey (st.get a) k)) ext = some (hasKey (st'.get a) k)) : SubInv s' := by
  intro j stj hj
  rw [hsub j] at hj
  by_cases hji : j = i
  · subst hji
    simp only [if_true, Option.some.injEq] at hj
    subst hj
    refine ⟨hnd, fun k a => ?_⟩
    rw [hlog, trackU_append, (hi j st hst).2 k a, h k a]
  · simp only [hji, if_false] at hj
    obtain ⟨h1, h2⟩ := hi j stj hj
    refine ⟨h1, fun k a => ?_⟩
    rw [hlog, trackU_append, h2 k a]
    exact trackU_other_inst j k a _ ext (fun x hx e => hji (e.symm.trans (hext x hx)))

/-! ### helper facts about the primitives -/

theorem instances_armTtl (s : Stack) (ttl : Nat) (cb : Cb) : (s.armTtl ttl cb).1.instances = s.instances := by
  unfold armTtl; split <;> rfl
theorem outs_armTtl (s : Stack) (ttl : Nat) (cb : Cb) : (s.armTtl ttl cb).1.outs = s.outs := by
  unfold armTtl; split <;> rfl
theorem getInst_of_instances {s s' : Stack} (h : s'.instances = s.instances) (i : Nat) : s'.getInst i = s.getInst i := by
  unfold getInst; rw [h]
theorem subsAt_of_instances {s s' : Stack} (h : s'.instances = s.instances) (i : Nat) : subsAt s' i = subsAt s i := by
  unfold subsAt; rw [h]

theorem hasKey_congr {es : List (TSEntry SubKey)} {k k' : SubKey} (h : k.same k' = true) : hasKey es k = hasKey es k' := by
  unfold hasKey
  congr 1
  funext e
  exact same_congr_right h

/-- `TimedStore.stop` / `_expired` on an instance's store: the entry for k disappears, one `unsubscribed` is logged -/
theorem subInv_remove (s s' : Stack) (i : Nat) (x : Instance) (a : Addr) (k : SubKey) (old : TSEntry SubKey) (hi : SubInv s)
    (hx : s.getInst i = some x)
    (hfind : TStore.findKey SubKey.same ((x.subs.touch a).get a) k = some old)
    (hsub : ∀ j, subsAt s' j = if j = i then some ((x.subs.touch a).set a (TStore.eraseKey SubKey.same ((x.subs.touch a).get a) k)) else subsAt s j)
    (hlog : subLogOf s'.outs = subLogOf s.outs ++ [(false, i, k, a)]) : SubInv s' := by
  have hst := subsAt_of_getInst hx
  obtain ⟨hnd0, _⟩ := hi i x.subs hst
  refine subInv_step s s' i x.subs _ [(false, i, k, a)] hi hst hsub hlog (by simp) ?_ ?_
  · intro a'
    by_cases ha : a' = a
    · subst ha; rw [tget_set_same]; exact noDup_erase k (by rw [tget_touch]; exact hnd0 a')
    · rw [tget_set_other _ _ _ _ ha, tget_touch]; exact hnd0 a'
  · intro k' a'
    rw [trackU_single]
    have hhas : hasKey (x.subs.get a) k = true := by
      have := findKey_same_some hfind; rwa [tget_touch] at this
    by_cases h : k.same k' = true ∧ a = a'
    · obtain ⟨hk, rfl⟩ := h
      rw [if_pos ⟨rfl, hk, rfl⟩, tget_set_same, hasKey_erase, hk, ← hasKey_congr hk, hhas]
      simp
    · rw [if_neg (fun q => h ⟨q.2.1, q.2.2⟩)]
      by_cases ha : a' = a
      · subst ha
        have hk : k.same k' = false := by
          cases hq : k.same k'
          · rfl
          · exact absurd ⟨hq, rfl⟩ h
        rw [tget_set_same, hasKey_erase, hk, tget_touch]; simp
      · rw [tget_set_other _ _ _ _ ha, tget_touch]

/-- `TimedStore.refresh`, entry present: the entry is re-stored (new handle), nothing is logged -/
theorem subInv_restore (s s' : Stack) (i : Nat) (x : Instance) (a : Addr) (k : SubKey) (old : TSEntry SubKey) (t : Option Nat)
    (hi : SubInv s) (hx : s.getInst i = some x)
    (hfind : TStore.findKey SubKey.same ((x.subs.touch a).get a) k = some old)
    (hsub : ∀ j, subsAt s' j = if j = i then
        some ((x.subs.touch a).set a (TStore.eraseKey SubKey.same ((x.subs.touch a).get a) k ++ [⟨k, t⟩])) else subsAt s j)
    (hlog : subLogOf s'.outs = subLogOf s.outs) : SubInv s' := by
  have hst := subsAt_of_getInst hx
  obtain ⟨hnd0, _⟩ := hi i x.subs hst
  have hhas : hasKey (x.subs.get a) k = true := by
    have := findKey_same_some hfind; rwa [tget_touch] at this
  refine subInv_step s s' i x.subs _ [] hi hst hsub (by rw [hlog]; simp) (by simp) ?_ ?_
  · intro a'
    by_cases ha : a' = a
    · subst ha
      rw [tget_set_same]
      refine noDup_append_one (noDup_erase k (by rw [tget_touch]; exact hnd0 a')) ?_
      rw [hasKey_erase, same_refl]; simp
    · rw [tget_set_other _ _ _ _ ha, tget_touch]; exact hnd0 a'
  · intro k' a'
    simp only [trackU]
    congr 1
    by_cases ha : a' = a
    · subst ha
      rw [tget_set_same, hasKey_append_one, hasKey_erase, tget_touch]
      cases hk : k.same k'
      · simp
      · rw [← hasKey_congr hk, hhas]; simp
    · rw [tget_set_other _ _ _ _ ha, tget_touch]

/-- `TimedStore.refresh`, new entry accepted by the listener: one `subscribed` is logged, the entry is stored -/
theorem subInv_add (s s' : Stack) (i : Nat) (x : Instance) (a : Addr) (k : SubKey) (t : Option Nat)
    (hi : SubInv s) (hx : s.getInst i = some x)
    (hfind : TStore.findKey SubKey.same ((x.subs.touch a).get a) k = none)
    (hsub : ∀ j, subsAt s' j = if j = i then some ((x.subs.touch a).set a ((x.subs.touch a).get a ++ [⟨k, t⟩])) else subsAt s j)
    (hlog : subLogOf s'.outs = subLogOf s.outs ++ [(true, i, k, a)]) : SubInv s' := by
  have hst := subsAt_of_getInst hx
  obtain ⟨hnd0, _⟩ := hi i x.subs hst
  have hhas : hasKey (x.subs.get a) k = false := by
    have := findKey_same_none hfind; rwa [tget_touch] at this
  refine subInv_step s s' i x.subs _ [(true, i, k, a)] hi hst hsub hlog (by simp) ?_ ?_
  · intro a'
    by_cases ha : a' = a
    · subst ha
      rw [tget_set_same, tget_touch]
      exact noDup_append_one (hnd0 a') hhas
    · rw [tget_set_other _ _ _ _ ha, tget_touch]; exact hnd0 a'
  · intro k' a'
    rw [trackU_single]
    by_cases h : k.same k' = true ∧ a = a'
    · obtain ⟨hk, rfl⟩ := h
      rw [if_pos ⟨rfl, hk, rfl⟩, tget_set_same, hasKey_append_one, tget_touch, ← hasKey_congr hk, hhas, hk]
      simp
    · rw [if_neg (fun q => h ⟨q.2.1, q.2.2⟩)]
      by_cases ha : a' = a
      · subst ha
        have hk : k.same k' = false := by
          cases hq : k.same k'
          · rfl
          · exact absurd ⟨hq, rfl⟩ h
        rw [tget_set_same, hasKey_append_one, tget_touch, hk]; simp
      · rw [tget_set_other _ _ _ _ ha, tget_touch]

/-- the store is only touched (defaultdict lookup): nothing changes -/
theorem subInv_touch (s s' : Stack) (i : Nat) (x : Instance) (a : Addr) (hi : SubInv s) (hx : s.getInst i = some x)
    (hsub : ∀ j, subsAt s' j = if j = i then some (x.subs.touch a) else subsAt s j)
    (hlog : subLogOf s'.outs = subLogOf s.outs) : SubInv s' := by
  have hst := subsAt_of_getInst hx
  obtain ⟨hnd0, _⟩ := hi i x.subs hst
  refine subInv_step s s' i x.subs _ [] hi hst hsub (by rw [hlog]; simp) (by simp) ?_ ?_
  · intro a'; rw [tget_touch]; exact hnd0 a'
  · intro k' a'; simp only [trackU]; rw [tget_touch]

end Stack
end Someip
