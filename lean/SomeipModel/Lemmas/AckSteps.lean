/-
  C11, whole runs: where acknowledgement entries can come from.  `AckTo base ok s`: the acknowledgements queued in `s` are
  `base` followed by entries whose destinations all satisfy `ok`.  Every function of the model other than
  `handle_subscribe` leaves the list alone; `handle_subscribe(entry, addr)` only adds entries addressed to `addr`.
  Same lifting scripts as QSteps.lean.
-/
import SomeipModel.Props.C11Multi
namespace Someip
namespace Stack
set_option linter.unusedSimpArgs false
set_option linter.unusedVariables false

def AckTo (base : List (Dest × SDEntry)) (ok : Dest → Prop) (s : Stack) : Prop :=
  ∃ L, ackOuts s = base ++ L ∧ ∀ p ∈ L, ok p.1

variable {base : List (Dest × SDEntry)} {ok : Dest → Prop}

theorem ackTo_frame {s s' : Stack} (h : qpi s' = qpi s) (hi : AckTo base ok s) : AckTo base ok s' := by
  obtain ⟨L, h1, h2⟩ := hi
  exact ⟨L, by rw [ackOuts_of_qo (qo_of_qpi h)]; exact h1, h2⟩

theorem ackTo_queue_other (s : Stack) (e : SDEntry) (d : Dest) (he : e.ty ≠ .subscribeAck) (hi : AckTo base ok s) :
    AckTo base ok (s.queueSend e d) := by
  obtain ⟨L, h1, h2⟩ := hi
  refine ⟨L, ?_, h2⟩
  rw [ackOuts_append s _ _ (qo_queueSend s e d)]
  simp [ackOf, he, h1]

theorem ackTo_queue_ack (s : Stack) (e : SDEntry) (d : Dest) (hd : ok d) (hi : AckTo base ok s) :
    AckTo base ok (s.queueSend e d) := by
  obtain ⟨L, h1, h2⟩ := hi
  rw [AckTo, ackOuts_append s _ _ (qo_queueSend s e d), h1]
  by_cases he : e.ty = .subscribeAck
  · refine ⟨L ++ [(d, e)], by simp [ackOf, he], ?_⟩
    intro p hp
    rcases List.mem_append.mp hp with hp | hp
    · exact h2 p hp
    · simp at hp; subst hp; exact hd
  · exact ⟨L, by simp [ackOf, he], h2⟩

theorem ackTo_foldl {α : Type} (f : Stack → α → Stack) (h : ∀ s x, AckTo base ok s → AckTo base ok (f s x)) (l : List α) (s : Stack)
    (hi : AckTo base ok s) : AckTo base ok (l.foldl f s) := by
  induction l generalizing s with
  | nil => exact hi
  | cons x t ih => rw [List.foldl_cons]; exact ih _ (h s x hi)

theorem ackTo_sendOffer (s : Stack) (i : Nat) (r : Dest) (b : Bool) (hi : AckTo base ok s) : AckTo base ok (s.sendOffer i r b) := by
  unfold sendOffer
  split
  · exact hi
  · split
    · exact hi
    · exact ackTo_queue_other _ _ _ (by simp [Service.createOfferEntry]) hi


theorem ackTo_stepOffer (s : Stack) (tid : Tid) (t : TaskSt) (i : Nat) (hi : AckTo base ok s) : AckTo base ok (s.stepOffer tid t i) := by
  unfold stepOffer
  simp only []
  have hc : ∀ X : Stack, AckTo base ok X → AckTo base ok (if X.tm.cyclicOfferDelay ≠ 0 then X.sendOffer i none true else X) := by
    intro X hX; split
    · exact ackTo_sendOffer _ _ _ _ hX
    · exact hX
  have hs : ∀ (X : Stack) (x : Instance), AckTo base ok X → AckTo base ok (X.setInst i x) := fun X x hX => ackTo_frame (qpi_setInst _ _ _) hX
  have hsl : ∀ (X : Stack) (t' : TaskSt) (d : Nat) (pc : Pc), AckTo base ok X → AckTo base ok (X.sleepFor tid t' d pc) :=
    fun X t' d pc hX => ackTo_frame (qpi_sleepFor _ _ _ _ _) hX
  have hfin : ∀ (X : Stack) (t' : TaskSt), AckTo base ok X → AckTo base ok (X.finish tid t') := fun X t' hX => ackTo_frame (qpi_finish _ _ _) hX
  have hcancel : ∀ X : Stack, AckTo base ok X → AckTo base ok ((if (match X.getInst i with | some x => X.setInst i { x with canAnswer := false } | none => X).tm.cyclicOfferDelay ≠ 0
      then (match X.getInst i with | some x => X.setInst i { x with canAnswer := false } | none => X).sendOffer i none true
      else (match X.getInst i with | some x => X.setInst i { x with canAnswer := false } | none => X)).finish tid t) := by
    intro X hX
    apply hfin
    apply hc
    split
    · exact hs _ _ hX
    · exact hX
  have hafter : ∀ (X : Stack) (k : Nat), AckTo base ok X → AckTo base ok (if k < X.tm.repetitionsMax then X.sleepFor tid t (pow2 k * X.tm.repetitionsBaseDelay) (.rep k)
      else if X.tm.cyclicOfferDelay = 0 then X.finish tid t else X.sleepFor tid t X.tm.cyclicOfferDelay .cyclic) := by
    intro X k hX
    split
    · exact hsl _ _ _ _ hX
    · split
      · exact hfin _ _ hX
      · exact hsl _ _ _ _ hX
  split
  · split
    · exact hfin _ _ hi
    · exact hsl _ _ _ _ (ackTo_frame (qpi_draw _ _ _) hi)
  · split
    · exact hfin _ _ hi
    · apply hafter
      split
      · exact hs _ _ (ackTo_sendOffer _ _ _ _ hi)
      · exact ackTo_sendOffer _ _ _ _ hi
  · split
    · exact hcancel _ hi
    · exact hafter _ _ (ackTo_sendOffer _ _ _ _ hi)
  · split
    · exact hcancel _ hi
    · exact hsl _ _ _ _ (ackTo_sendOffer _ _ _ _ hi)
  · exact hi

theorem ackTo_instStop (s : Stack) (i : Nat) (hi : AckTo base ok s) : AckTo base ok (s.instStop i) := by
  unfold instStop
  split
  · exact hi
  · split
    · exact ackTo_frame (qpi_emit_raised _ _) hi
    · simp only []
      apply ackTo_frame (qpi_subsStopAll _ _)
      split
      · exact ackTo_sendOffer _ _ _ _ (ackTo_frame ((qpi_setInst _ _ _).trans (qpi_cancelTask _ _)) hi)
      · exact ackTo_frame ((qpi_setInst _ _ _).trans (qpi_cancelTask _ _)) hi

theorem ackTo_instHandleSubscribe (s : Stack) (i : Nat) (e : SDEntry) (a : Addr) (hok : ok (some a)) (hi : AckTo base ok s) :
    AckTo base ok (s.instHandleSubscribe i e a).1 := by
  unfold instHandleSubscribe
  split
  · exact hi
  · split
    · exact hi
    · split
      · split
        · simp only []
          split
          · exact ackTo_frame (qpi_setInst _ _ _) hi
          · exact ackTo_frame ((qpi_emit_unsubscribed _ _ _ _).trans ((qpi_cancelTimer_subFor _ _ _ _ _).trans (qpi_setInst _ _ _))) hi
        · simp only []
          split
          · apply ackTo_queue_ack _ _ _ hok
            exact ackTo_frame ((qpi_setInst _ _ _).trans ((qpi_armTtl_sub _ _ _ _ _).trans (qpi_cancelTimer_subFor _ _ _ _ _))) hi
          · split
            · apply ackTo_queue_ack _ _ _ hok
              exact ackTo_frame (qpi_setInst _ _ _) hi
            · apply ackTo_queue_ack _ _ _ hok
              exact ackTo_frame ((qpi_setInst _ _ _).trans ((qpi_armTtl_sub _ _ _ _ _).trans (qpi_emit_subscribed _ _ _ _))) hi
      · exact hi

theorem ackTo_handleSubscribe (s : Stack) (e : SDEntry) (a : Addr) (hok : ok (some a)) (hi : AckTo base ok s) : AckTo base ok (s.handleSubscribe e a) := by
  unfold handleSubscribe
  simp only []
  have key : ∀ (l : List Nat) (acc : Stack × Bool), AckTo base ok acc.1 →
      AckTo base ok (l.foldl (fun (acc : Stack × Bool) i => ((acc.1.instHandleSubscribe i e a).1, acc.2 || (acc.1.instHandleSubscribe i e a).2)) acc).1 := by
    intro l; induction l with
    | nil => intro acc h; exact h
    | cons x t ih => intro acc h; rw [List.foldl_cons]; exact ih _ (ackTo_instHandleSubscribe _ _ _ _ hok h)
  split
  · exact key _ _ hi
  · exact ackTo_queue_ack _ _ _ hok (key _ _ hi)

theorem ackTo_announcerStop (s : Stack) (hi : AckTo base ok s) : AckTo base ok s.announcerStop := by
  unfold announcerStop
  split
  · exact hi
  · show AckTo base ok { (List.foldl (fun s i => s.instStop i) s s.announceOrder) with started := false }
    exact ackTo_frame (qpi_with_started _ _) (ackTo_foldl _ (fun s i h => ackTo_instStop s i h) _ _ hi)

theorem ackTo_stopAnnounceService (s : Stack) (i : Nat) (b : Bool) (hi : AckTo base ok s) : AckTo base ok (s.stopAnnounceService i b) := by
  unfold stopAnnounceService
  split
  · exact ackTo_frame (qpi_emit_raised _ _) hi
  · simp only []
    split
    · exact ackTo_instStop _ _ (ackTo_frame (qpi_with_announceOrder _ _) hi)
    · exact ackTo_frame (qpi_with_announceOrder _ _) hi

theorem ackTo_sdMessageReceived (s : Stack) (m : SDHeader) (a : Addr) (mc : Bool) (hok : mc = false → ok (some a)) (hi : AckTo base ok s) :
    AckTo base ok (s.sdMessageReceived m a mc) := by
  unfold sdMessageReceived
  split
  · exact hi
  · refine ackTo_foldl _ (fun s e h => ?_) _ _ hi
    split
    · exact ackTo_frame (qpi_handleOffer _ _ _) h
    · exact h
    · exact ackTo_frame (qpi_handleFind _ _ _ _) h
    · split
      · exact h
      · rename_i hmc; exact ackTo_handleSubscribe _ _ _ (hok (by simpa using hmc)) h

theorem ackTo_messageReceived (s : Stack) (h : Header) (a : Addr) (mc : Bool) (hok : mc = false → ok (some a)) (hi : AckTo base ok s) :
    AckTo base ok (s.messageReceived h a mc) := by
  unfold messageReceived
  split
  · exact hi
  · split
    · exact hi
    · rename_i m r hpar
      simp only []
      have h1 : AckTo base ok (if (checkReceived s.incoming a mc m.flagReboot h.sess).1 = true
          then ({ s with incoming := (checkReceived s.incoming a mc m.flagReboot h.sess).2 } : Stack).rebootDetected a
          else ({ s with incoming := (checkReceived s.incoming a mc m.flagReboot h.sess).2 } : Stack)) := by
        split
        · exact ackTo_frame ((qpi_rebootDetected _ _).trans (qpi_with_incoming _ _)) hi
        · exact ackTo_frame (qpi_with_incoming _ _) hi
      split
      · exact ackTo_frame (qpi_emit_raised _ _) h1
      · exact ackTo_sdMessageReceived _ _ _ _ hok h1

theorem ackTo_datagramReceived (s : Stack) (b : Bytes) (a : Addr) (mc : Bool) (hok : mc = false → ok (some a)) (hi : AckTo base ok s) :
    AckTo base ok (s.datagramReceived b a mc) := by
  unfold datagramReceived
  exact ackTo_foldl _ (fun s h hh => ackTo_messageReceived s h a mc hok hh) _ _ hi

theorem ackTo_stop (s : Stack) (hi : AckTo base ok s) : AckTo base ok s.stop := by
  unfold Stack.stop
  exact ackTo_frame (qpi_subscriberStop _ _) (ackTo_announcerStop _ (ackTo_frame (qpi_discoveryStop _) hi))


theorem ackTo_qo {s s' : Stack} (h : qo s' = qo s) (hi : AckTo base ok s) : AckTo base ok s' := by
  obtain ⟨L, h1, h2⟩ := hi
  exact ⟨L, by rw [ackOuts_of_qo h]; exact h1, h2⟩

theorem qo_collectorTimeout (s : Stack) (cid : Nat) : qo (s.collectorTimeout cid) = qo s := by
  unfold collectorTimeout; split; rfl; simp only []; rw [qo_flushTo]; rfl

theorem ackTo_applyInput (s : Stack) (x : Input) (hok : ∀ a b, x = .dgram a false b → ok (some a)) (hi : AckTo base ok s) :
    AckTo base ok (s.applyInput x) := by
  cases x with
  | dgram a mc b =>
    exact ackTo_datagramReceived s b a mc (fun hmc => hok a b (by rw [hmc])) hi
  | stop => exact ackTo_stop s hi
  | stopAnnounce i b => exact ackTo_stopAnnounceService s i b hi
  | announcerStop => exact ackTo_announcerStop s hi
  | start => exact ackTo_frame (qpi_start s) hi
  | connLost => exact ackTo_frame (qpi_connectionLost s) hi
  | watch f l => exact ackTo_frame (qpi_watchService s f l) hi
  | unwatch f l => exact ackTo_frame (qpi_stopWatchService s f l) hi
  | watchAll id => exact ackTo_frame (qpi_watchAllServices s id) hi
  | unwatchAll id => exact ackTo_frame (qpi_stopWatchAllServices s id) hi
  | subscribe g d => exact ackTo_frame (qpi_subscribeEventgroup s g d) hi
  | stopSubscribe g d => exact ackTo_frame (qpi_stopSubscribeEventgroup s g d true) hi
  | announce i => exact ackTo_frame (qpi_announceService s i) hi
  | setNak i egs =>
    simp only [applyInput]
    split
    · exact ackTo_frame (qpi_setInst s i _) hi
    · exact hi
  | draws ds => exact ackTo_frame (s := s) (s' := { s with draws := s.draws ++ ds }) rfl hi
  | announcerStart => exact ackTo_frame (qpi_announcerStart s) hi

theorem ackTo_runCb (s : Stack) (cb : Cb) (hi : AckTo base ok s) : AckTo base ok (s.runCb cb) := by
  cases cb with
  | connLost p =>
    cases p with
    | subscriber => exact ackTo_frame (qpi_subscriberStop s false) hi
    | discovery => exact ackTo_frame (qpi_foundStopAll s) hi
    | announcer => exact ackTo_announcerStop s hi
  | expiredSvc a k => exact ackTo_frame (qpi_expiredSvc s a k) hi
  | expiredSub i a k => exact ackTo_frame (qpi_expiredSub s i a k) hi
  | sendStartSubscribe d egs => exact ackTo_frame (qpi_sendSubscribe s _ d egs) hi
  | sendStopSubscribe d egs => exact ackTo_frame (qpi_sendSubscribe s _ d egs) hi
  | sendOfferTo i a => exact ackTo_sendOffer s i _ _ hi
  | collectorTimeout cid => exact ackTo_qo (qo_collectorTimeout s cid) hi
  | sleepDone tid => exact ackTo_frame (qpi_sleepDone s tid) hi
  | taskStep tid =>
    simp only [runCb]
    split
    · exact hi
    · split
      · exact hi
      · split
        · exact ackTo_stepOffer _ _ _ _ (ackTo_frame (qpi_cancelTimer_sleep _ _ _) hi)
        · exact ackTo_frame ((qpi_stepFind _ _ _).trans (qpi_cancelTimer_sleep _ _ _)) hi
        · exact ackTo_frame ((qpi_stepSubscribe _ _ _).trans (qpi_cancelTimer_sleep _ _ _)) hi

theorem ackTo_loop (s : Stack) (l : Loop Cb) (hi : AckTo base ok s) : AckTo base ok ({ s with loop := l } : Stack) := hi

/-- ONE EVENT: the acknowledgements queued by one event of the loop model all go to the sender of the unicast datagram
that event delivered - any other event queues none -/
theorem ackTo_step (s s' : Stack) (e : Event) (h : s.step e = some s')
    (hok : ∀ a b, e = .input (.dgram a false b) → ok (some a)) (hi : AckTo base ok s) : AckTo base ok s' := by
  cases e with
  | input x =>
    simp only [step, Option.some.injEq] at h; subst h
    exact ackTo_applyInput s x (fun a b hx => hok a b (by rw [hx])) hi
  | run =>
    simp only [step, Loop.pop] at h
    cases hr : s.loop.ready with
    | nil => rw [hr] at h; cases h
    | cons r rest =>
      rw [hr] at h
      simp only [Option.some.injEq] at h
      subst h
      exact ackTo_runCb _ _ (ackTo_loop s _ hi)
  | fire q =>
    simp only [step] at h
    cases hf : s.loop.fire q with
    | none => rw [hf] at h; cases h
    | some l => rw [hf] at h; simp at h; subst h; exact ackTo_loop s l hi
  | adv t =>
    simp only [step] at h
    cases hf : s.loop.adv t with
    | none => rw [hf] at h; cases h
    | some l => rw [hf] at h; simp at h; subst h; exact ackTo_loop s l hi

end Stack
end Someip
