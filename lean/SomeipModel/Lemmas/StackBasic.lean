/-
  Basic simp lemmas about the primitive state updates of the stack model.
-/
import SomeipModel.Model.Stack
namespace Someip
namespace Stack

@[simp] theorem emit_outs (s : Stack) (o : Out) : (s.emit o).outs = s.outs ++ [(s.loop.now, o)] := rfl
@[simp] theorem emit_loop (s : Stack) (o : Out) : (s.emit o).loop = s.loop := rfl
@[simp] theorem emit_tm (s : Stack) (o : Out) : (s.emit o).tm = s.tm := rfl
@[simp] theorem emit_instances (s : Stack) (o : Out) : (s.emit o).instances = s.instances := rfl
@[simp] theorem emit_collectors (s : Stack) (o : Out) : (s.emit o).collectors = s.collectors := rfl
@[simp] theorem emit_outgoing (s : Stack) (o : Out) : (s.emit o).outgoing = s.outgoing := rfl
@[simp] theorem callSoon_outs (s : Stack) (cb : Cb) : (s.callSoon cb).outs = s.outs := rfl
@[simp] theorem callSoon_ready (s : Stack) (cb : Cb) : (s.callSoon cb).loop.ready = s.loop.ready ++ [⟨none, cb⟩] := rfl
@[simp] theorem callSoon_timers (s : Stack) (cb : Cb) : (s.callSoon cb).loop.timers = s.loop.timers := rfl
@[simp] theorem callSoon_subEntries (s : Stack) (cb : Cb) : (s.callSoon cb).subEntries = s.subEntries := rfl
@[simp] theorem callSoon_alive (s : Stack) (cb : Cb) : (s.callSoon cb).alive = s.alive := rfl
@[simp] theorem callLater_outs (s : Stack) (d : Nat) (cb : Cb) : (s.callLater d cb).1.outs = s.outs := rfl
@[simp] theorem callLater_timers (s : Stack) (d : Nat) (cb : Cb) :
    (s.callLater d cb).1.loop.timers = s.loop.timers ++ [⟨s.loop.nextSeq, s.loop.now + d, cb⟩] := rfl
@[simp] theorem callLater_ready (s : Stack) (d : Nat) (cb : Cb) : (s.callLater d cb).1.loop.ready = s.loop.ready := rfl
@[simp] theorem callLater_seq (s : Stack) (d : Nat) (cb : Cb) : (s.callLater d cb).2 = s.loop.nextSeq := rfl

/-- `random.uniform(a, b)` stays inside the window -/
theorem draw_in_window (s : Stack) (a b : Nat) (h : a ≤ b) : a ≤ (s.draw a b).2 ∧ (s.draw a b).2 ≤ b := by
  unfold draw; split <;> simp <;> omega

@[simp] theorem draw_outs (s : Stack) (a b : Nat) : (s.draw a b).1.outs = s.outs := by
  unfold draw; split <;> rfl
@[simp] theorem draw_loop (s : Stack) (a b : Nat) : (s.draw a b).1.loop = s.loop := by
  unfold draw; split <;> rfl

/-- what `send_sd` does with a non-empty entry list: exactly one observable effect, addressed to `remote` -/
theorem sendSd_cases (s : Stack) (es : List SDEntry) (d : Dest) (hne : es ≠ []) :
    ∃ o, (s.sendSd es d).outs = s.outs ++ [(s.loop.now, o)] ∧ (s.sendSd es d).loop = s.loop ∧
      (s.sendSd es d).outgoing = (assignOutgoing s.outgoing d).2 ∧
      ((∃ b, o = .send d b) ∨ (∃ e, o = .raised e)) := by
  unfold sendSd
  have : es.isEmpty = false := by cases es <;> simp_all
  simp only [this, Bool.false_eq_true, if_false]
  split
  · exact ⟨_, rfl, rfl, rfl, Or.inr ⟨_, rfl⟩⟩
  · split
    · exact ⟨_, rfl, rfl, rfl, Or.inr ⟨_, rfl⟩⟩
    · exact ⟨_, rfl, rfl, rfl, Or.inl ⟨_, rfl⟩⟩

@[simp] theorem setInst_tm (s : Stack) (i : Nat) (x : Instance) : (s.setInst i x).tm = s.tm := rfl
@[simp] theorem setInst_outs (s : Stack) (i : Nat) (x : Instance) : (s.setInst i x).outs = s.outs := rfl
@[simp] theorem setInst_loop (s : Stack) (i : Nat) (x : Instance) : (s.setInst i x).loop = s.loop := rfl
@[simp] theorem setTask_tm (s : Stack) (i : Tid) (x : TaskSt) : (s.setTask i x).tm = s.tm := rfl
@[simp] theorem setTask_outs (s : Stack) (i : Tid) (x : TaskSt) : (s.setTask i x).outs = s.outs := rfl
@[simp] theorem setTask_loop (s : Stack) (i : Tid) (x : TaskSt) : (s.setTask i x).loop = s.loop := rfl
@[simp] theorem callSoon_tm (s : Stack) (cb : Cb) : (s.callSoon cb).tm = s.tm := rfl
@[simp] theorem callLater_tm (s : Stack) (d : Nat) (cb : Cb) : (s.callLater d cb).1.tm = s.tm := rfl

@[simp] theorem cancelTimer_tm (s : Stack) (own : Cb → Bool) (t : Option Nat) : (s.cancelTimer own t).tm = s.tm := rfl
@[simp] theorem cancelTimer_outs (s : Stack) (own : Cb → Bool) (t : Option Nat) : (s.cancelTimer own t).outs = s.outs := rfl
@[simp] theorem cancelTimer_now (s : Stack) (own : Cb → Bool) (t : Option Nat) : (s.cancelTimer own t).loop.now = s.loop.now := by
  cases t <;> rfl
@[simp] theorem callLater_now (s : Stack) (d : Nat) (cb : Cb) : (s.callLater d cb).1.loop.now = s.loop.now := rfl
@[simp] theorem callSoon_now (s : Stack) (cb : Cb) : (s.callSoon cb).loop.now = s.loop.now := rfl

@[simp] theorem sendSd_tm (s : Stack) (es : List SDEntry) (d : Dest) : (s.sendSd es d).tm = s.tm := by
  unfold sendSd; split; rfl; simp only []; split; rfl; split <;> rfl

@[simp] theorem flushTo_tm (s : Stack) (es : List SDEntry) (d : Dest) : (s.flushTo es d).tm = s.tm := by
  unfold flushTo; rw [sendSd_tm]

@[simp] theorem queueSend_tm (s : Stack) (e : SDEntry) (d : Dest) : (s.queueSend e d).tm = s.tm := by
  unfold queueSend; simp only []; split
  · simp
  · split
    · split <;> simp [appendCollector, newCollector, callLater, emit]
    · simp [appendCollector, newCollector, callLater, emit]

@[simp] theorem logOffer_tm (s : Stack) (i : Nat) (e : OEv) : (s.logOffer i e).tm = s.tm := rfl
@[simp] theorem logOffer_now (s : Stack) (i : Nat) (e : OEv) : (s.logOffer i e).loop.now = s.loop.now := rfl
@[simp] theorem logOffer_loop (s : Stack) (i : Nat) (e : OEv) : (s.logOffer i e).loop = s.loop := rfl
@[simp] theorem logOffer_getInst (s : Stack) (i : Nat) (e : OEv) (j : Nat) : (s.logOffer i e).getInst j = s.getInst j := rfl
@[simp] theorem logOffer_getTask (s : Stack) (i : Nat) (e : OEv) (t : Tid) : (s.logOffer i e).getTask t = s.getTask t := rfl

@[simp] theorem sendOffer_tm (s : Stack) (i : Nat) (r : Dest) (b : Bool) : (s.sendOffer i r b).tm = s.tm := by
  unfold sendOffer; split; rfl; split; rfl; simp

@[simp] theorem sendSd_nil (s : Stack) (d : Dest) : s.sendSd [] d = s := by simp [sendSd]

end Stack
end Someip
