/-
  Bounds for `_assign_option` / `assign_option_index(es)`: the (index, count) pairs stay inside the shared array,
  the array grows by at most the run, and contains nothing but what was given.  With `SDMsgRT` this shows that
  the message produced by `assign_option_indexes` is one the wire format can carry.
-/
import SomeipModel.Lemmas.SDMsgRT
import SomeipModel.Props.C02
namespace Someip
set_option linter.unusedSimpArgs false
set_option linter.unusedVariables false

theorem assignOption_bounds (run opts : List SDOption) :
    let r := assignOption run opts
    r.1.2 = run.length ∧ r.1.1 + r.1.2 ≤ r.2.length ∧ opts.length ≤ r.2.length ∧ r.2.length ≤ opts.length + run.length ∧
    (∀ o ∈ r.2, o ∈ opts ∨ o ∈ run) ∧ (run = [] → r.1.1 = 0) := by
  have hs := assignOption_spec run opts
  simp only at hs ⊢
  rcases hs with ⟨⟨ext, hext⟩, _, hb⟩ | ⟨hnil, hr⟩
  · unfold assignOption at hext hb ⊢
    by_cases he : run.isEmpty = true
    · have : run = [] := List.isEmpty_iff.mp he
      subst this
      simp
    · simp only [he, Bool.false_eq_true, if_false] at hext hb ⊢
      have hne : run ≠ [] := by simpa using he
      cases hf : bmhFind opts run with
      | some oi =>
        simp only [hf] at hb ⊢
        exact ⟨trivial, hb, Nat.le_refl _, by omega, fun o ho => Or.inl ho, fun h => absurd h hne⟩
      | none =>
        simp only [hf] at hb ⊢
        refine ⟨trivial, hb, by simp, by simp, fun o ho => ?_, fun h => absurd h hne⟩
        simpa using ho
  · rw [hr, hnil]; simp

/-- the wire-relevant scalar fields of an entry, and runs short enough for the 4-bit counts -/
def EntryFields (e : SDEntry) : Prop :=
  e.sid < 65536 ∧ e.iid < 65536 ∧ e.maj < 256 ∧ e.ttl < 16777216 ∧ e.val < 4294967296 ∧
  ¬ (e.ty.isEventgroup = true ∧ e.val / 1048576 % 4096 ≠ 0) ∧ e.opts1.length < 16 ∧ e.opts2.length < 16

theorem EntryWF.mono {n n' : Nat} {e : SDEntry} (h : EntryWF n e) (hn : n ≤ n') : EntryWF n' e := by
  obtain ⟨i, h0, h1, h2, h3, h4, h5, h6, h7, h8, h9, h10, h11, h12, h13, h14⟩ := h
  exact ⟨i, h0, h1, h2, h3, h4, h5, h6, h7, h8, h9, h10, h11, by omega, by omega, h14⟩

theorem assign_entry_bounds (e : SDEntry) (opts : List SDOption) (hres : e.idx = none) (hf : EntryFields e)
    (hcap : (e.assign opts).2.length ≤ 256) :
    let r := e.assign opts
    EntryWF r.2.length r.1 ∧ opts.length ≤ r.2.length ∧ r.2.length ≤ opts.length + e.opts1.length + e.opts2.length ∧
    (∀ o ∈ r.2, o ∈ opts ∨ o ∈ e.opts1 ∨ o ∈ e.opts2) := by
  obtain ⟨f1, f2, f3, f4, f5, f6, f7, f8⟩ := hf
  have b1 := assignOption_bounds e.opts1 opts
  have b2 := assignOption_bounds e.opts2 (assignOption e.opts1 opts).2
  simp only at b1 b2
  obtain ⟨c1, c2, c3, c4, c5, c6⟩ := b1
  obtain ⟨d1, d2, d3, d4, d5, d6⟩ := b2
  simp only [SDEntry.assign, hres] at hcap
  simp only [SDEntry.assign, hres]
  refine ⟨⟨_, rfl, rfl, rfl, ?_, ?_, ?_, ?_, f1, f2, f3, f4, f5, ?_, ?_, f6⟩, by omega, by omega, ?_⟩
  · simp only; omega
  · simp only; omega
  · simp only
    by_cases hn : e.opts1 = []
    · rw [c6 hn]; omega
    · have : 0 < e.opts1.length := List.length_pos_iff.mpr hn
      omega
  · simp only
    by_cases hn : e.opts2 = []
    · rw [d6 hn]; omega
    · have : 0 < e.opts2.length := List.length_pos_iff.mpr hn
      omega
  · simp only; omega
  · simp only; omega
  · intro o ho
    rcases d5 o ho with q | q
    · rcases c5 o q with q' | q'
      · exact Or.inl q'
      · exact Or.inr (Or.inl q')
    · exact Or.inr (Or.inr q)

def runsLen (es : List SDEntry) : Nat := (es.map fun e => e.opts1.length + e.opts2.length).sum

theorem assignAll_bounds (es : List SDEntry) (opts : List SDOption) (hres : ∀ e ∈ es, e.idx = none)
    (hf : ∀ e ∈ es, EntryFields e) (hcap : (assignAll es opts).2.length ≤ 256) :
    let r := assignAll es opts
    (∀ e ∈ r.1, EntryWF r.2.length e) ∧ opts.length ≤ r.2.length ∧ r.2.length ≤ opts.length + runsLen es ∧
    r.1.length = es.length ∧ (∀ o ∈ r.2, o ∈ opts ∨ ∃ e ∈ es, o ∈ e.opts1 ∨ o ∈ e.opts2) := by
  induction es generalizing opts with
  | nil => simp [assignAll, runsLen]
  | cons e t ih =>
    simp only [assignAll] at hcap
    have ht := ih (e.assign opts).2 (fun x hx => hres x (by simp [hx])) (fun x hx => hf x (by simp [hx])) hcap
    simp only at ht
    obtain ⟨t1, t2, t3, t4, t5⟩ := ht
    have hb := assign_entry_bounds e opts (hres e (by simp)) (hf e (by simp)) (by omega)
    simp only at hb
    obtain ⟨a1, a2, a3, a4⟩ := hb
    simp only [assignAll, runsLen, List.map_cons, List.sum_cons]
    refine ⟨?_, by omega, by simp only [runsLen] at t3; omega, by simp [t4], ?_⟩
    · intro x hx
      simp only [List.mem_cons] at hx
      rcases hx with q | q
      · rw [q]; exact a1.mono t2
      · exact t1 x q
    · intro o ho
      rcases t5 o ho with q | ⟨x, hx, q⟩
      · rcases a4 o q with q' | q'
        · exact Or.inl q'
        · exact Or.inr ⟨e, by simp, q'⟩
      · exact Or.inr ⟨x, by simp [hx], q⟩

theorem SDOption.wireLen_le {o : SDOption} (h : o.WF) : o.wireLen ≤ 65538 := by
  cases o with
  | unknown t p => obtain ⟨_, _, hl⟩ := h; simp [SDOption.wireLen]; omega
  | loadBal _ _ => simp [SDOption.wireLen]
  | config items => obtain ⟨_, hl⟩ := h; simp [SDOption.wireLen]; omega
  | ipv4 _ _ _ _ => simp [SDOption.wireLen]
  | ipv6 _ _ _ _ => simp [SDOption.wireLen]

theorem sum_wireLen_le (os : List SDOption) (h : ∀ o ∈ os, o.WF) : (os.map SDOption.wireLen).sum ≤ 65538 * os.length := by
  induction os with
  | nil => simp
  | cons o t ih =>
    have := SDOption.wireLen_le (h o (by simp))
    have := ih (fun x hx => h x (by simp [hx]))
    simp; omega

/-- a RESOLVED message (entries carry their option runs) that `assign_option_indexes` + `build` can put on the wire:
the option array AFTER the assignment (shared and repeated runs stored once) fits the 8-bit index space - exactly the
encoder's own limit, however many options the entries name in total -/
def SDHeader.WFresolved (m : SDHeader) : Prop :=
  m.flagsUnknown < 64 ∧ (∀ e ∈ m.entries, e.idx = none ∧ EntryFields e ∧ (∀ o ∈ e.opts1, o.WF) ∧ ∀ o ∈ e.opts2, o.WF) ∧
  (∀ o ∈ m.options, o.WF) ∧ (assignAll m.entries m.options).2.length ≤ 256 ∧ m.entries.length < 268435456

theorem SDHeader.assign_wf (m : SDHeader) (h : m.WFresolved) : m.assignOptionIndexes.WFwire := by
  obtain ⟨h1, h2, h3, h4, h5⟩ := h
  have hb := assignAll_bounds m.entries m.options (fun e he => (h2 e he).1) (fun e he => (h2 e he).2.1) h4
  simp only at hb
  obtain ⟨b1, b2, b3, b4, b5⟩ := hb
  have hos : ∀ o ∈ (assignAll m.entries m.options).2, o.WF := by
    intro o ho
    rcases b5 o ho with q | ⟨e, he, q | q⟩
    · exact h3 o q
    · exact (h2 e he).2.2.1 o q
    · exact (h2 e he).2.2.2 o q
  refine ⟨h1, hos, b1, ?_, ?_⟩
  · simp only [SDHeader.assignOptionIndexes, b4]; omega
  · have := sum_wireLen_le _ hos
    simp only [SDHeader.assignOptionIndexes]
    omega

/-- a sufficient condition that does not mention the assignment: at most 256 options named in total -/
theorem assignAll_length_le (es : List SDEntry) (opts : List SDOption) :
    (assignAll es opts).2.length ≤ opts.length + runsLen es := by
  induction es generalizing opts with
  | nil => simp [assignAll, runsLen]
  | cons e t ih =>
    have b1 := assignOption_bounds e.opts1 opts
    have b2 := assignOption_bounds e.opts2 (assignOption e.opts1 opts).2
    simp only at b1 b2
    have h := ih (e.assign opts).2
    simp only [assignAll, runsLen, List.map_cons, List.sum_cons] at h ⊢
    have he : (e.assign opts).2.length ≤ opts.length + e.opts1.length + e.opts2.length := by
      unfold SDEntry.assign
      split
      · show opts.length ≤ _; omega
      · show (assignOption e.opts2 (assignOption e.opts1 opts).2).2.length ≤ _; omega
    omega

end Someip
