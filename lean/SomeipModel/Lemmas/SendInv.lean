/-
  The send-log invariant (C08, whole-run): the outgoing session storage is the one the destinations logged so far lead
  to, and every (reboot flag, session id) `send_sd` drew is the one the specification prescribes for that transmission.
  Preserved by `send_sd` (the only function that touches storage and log) and hence - via the frame lemmas of
  SendFrame.lean for everything that does not reach `send_sd` - by every function of the stack model.
-/
import SomeipModel.Lemmas.SendFrame
import SomeipModel.Props.C08
namespace Someip
namespace Stack
open Spec
set_option linter.unusedSimpArgs false
set_option linter.unusedVariables false

def P8c (p : Outgoing × List (Dest × (Bool × Nat))) : Prop :=
  SendInv p.1 (p.2.map (·.1)) ∧ p.2.map (·.2) = expectedSends [] (p.2.map (·.1))

/-- the invariant, as a statement about the projection only: frame lemmas rewrite under it -/
def P8 (s : Stack) : Prop := P8c (pi8 s)

theorem expectedSends_append (hist ds : List Dest) (d : Dest) :
    expectedSends hist (ds ++ [d]) = expectedSends hist ds ++ [(kthFlag (countBefore (hist ++ ds) d), kthId (countBefore (hist ++ ds) d))] := by
  induction ds generalizing hist with
  | nil => simp [expectedSends]
  | cons x r ih => simp only [List.cons_append, expectedSends, ih, List.append_assoc]; rfl

theorem p8_sendSd (s : Stack) (es : List SDEntry) (d : Dest) (hp : P8c (pi8 s)) : P8c (pi8 (s.sendSd es d)) := by
  unfold sendSd
  split
  · exact hp
  · simp only []
    have core : P8c (pi8 ({ s with outgoing := (assignOutgoing s.outgoing d).2, sendLog := s.sendLog ++ [(d, (assignOutgoing s.outgoing d).1)] } : Stack)) := by
      obtain ⟨h1, h2⟩ := hp
      simp only [pi8] at h1 h2
      refine ⟨?_, ?_⟩
      · simp only [pi8, List.map_append, List.map_cons, List.map_nil]
        exact sendInv_step _ _ d h1
      · simp only [pi8, List.map_append, List.map_cons, List.map_nil, h2, expectedSends_append, List.nil_append]
        congr 1
        simp only [assignOutgoing]
        rw [h1 d]
    split
    · exact core
    · split
      · exact core
      · exact core

theorem p8_foldl {α : Type} (f : Stack → α → Stack) (h : ∀ s x, P8c (pi8 s) → P8c (pi8 (f s x))) (l : List α) (s : Stack)
    (hp : P8c (pi8 s)) : P8c (pi8 (l.foldl f s)) := by
  induction l generalizing s with
  | nil => exact hp
  | cons x t ih => rw [List.foldl_cons]; exact ih _ (h s x hp)

theorem p8_flushTo (s : Stack) (es : List SDEntry) (d : Dest) (hp : P8c (pi8 s)) : P8c (pi8 (s.flushTo es d)) := by
  unfold flushTo
  exact p8_sendSd _ _ _ (by simpa using hp)

theorem p8_queueSend (s : Stack) (e : SDEntry) (d : Dest) (hp : P8c (pi8 s)) : P8c (pi8 (s.queueSend e d)) := by
  unfold queueSend
  simp only []
  split
  · exact p8_flushTo _ _ _ (by simpa using hp)
  · split
    · split <;> simpa using hp
    · simpa using hp

theorem p8_collectorTimeout (s : Stack) (c : Nat) (hp : P8c (pi8 s)) : P8c (pi8 (s.collectorTimeout c)) := by
  unfold collectorTimeout
  split
  · exact hp
  · exact p8_flushTo _ _ _ (by simpa using hp)

theorem p8_sendOffer (s : Stack) (i : Nat) (r : Dest) (b : Bool) (hp : P8c (pi8 s)) : P8c (pi8 (s.sendOffer i r b)) := by
  unfold sendOffer
  split
  · exact hp
  · split
    · exact hp
    · exact p8_queueSend _ _ _ hp

theorem p8_sendSubscribe (s : Stack) (ttl : Nat) (d : Addr) (egs : List Eventgroup) (hp : P8c (pi8 s)) :
    P8c (pi8 (s.sendSubscribe ttl d egs)) := p8_sendSd _ _ _ hp

/-- peel frame functions with `simp`, apply the lemmas of the sending functions, split conditionals -/
macro "p8" : tactic => `(tactic| repeat' (first
  | assumption
  | with_reducible apply p8_sendSd
  | with_reducible apply p8_queueSend
  | with_reducible apply p8_sendOffer
  | with_reducible apply p8_collectorTimeout
  | with_reducible apply p8_sendSubscribe
  | with_reducible apply p8_foldl
  | intro _
  | simp
  | split))

theorem p8_stepOffer (s : Stack) (tid : Tid) (t : TaskSt) (i : Nat) (hp : P8c (pi8 s)) : P8c (pi8 (s.stepOffer tid t i)) := by
  unfold stepOffer
  p8
  all_goals (by_cases hc : s.tm.cyclicOfferDelay = 0 <;> simp only [hc, if_true, if_false] <;> p8)

theorem p8_instStop (s : Stack) (i : Nat) (hp : P8c (pi8 s)) : P8c (pi8 (s.instStop i)) := by
  unfold instStop
  p8
  all_goals (rename_i tid _; by_cases hc : ((s.logOffer i .stop).cancelTask (.offer i, tid)).tm.cyclicOfferDelay = 0 <;> simp only [hc, if_true, if_false] <;> p8)

theorem p8_instHandleSubscribe (s : Stack) (i : Nat) (e : SDEntry) (a : Addr) (hp : P8c (pi8 s)) :
    P8c (pi8 (s.instHandleSubscribe i e a).1) := by
  unfold instHandleSubscribe
  p8

theorem p8_handleSubscribe (s : Stack) (e : SDEntry) (a : Addr) (hp : P8c (pi8 s)) : P8c (pi8 (s.handleSubscribe e a)) := by
  unfold handleSubscribe
  simp only []
  have key : ∀ (l : List Nat) (acc : Stack × Bool), P8c (pi8 acc.1) →
      P8c (pi8 (l.foldl (fun (acc : Stack × Bool) i => ((acc.1.instHandleSubscribe i e a).1, acc.2 || (acc.1.instHandleSubscribe i e a).2)) acc).1) := by
    intro l; induction l with
    | nil => intro acc h; exact h
    | cons x t ih => intro acc h; rw [List.foldl_cons]; exact ih _ (p8_instHandleSubscribe _ _ _ _ h)
  split
  · exact key _ _ hp
  · exact p8_queueSend _ _ _ (key _ _ hp)

theorem p8_announcerStop (s : Stack) (hp : P8c (pi8 s)) : P8c (pi8 s.announcerStop) := by
  unfold announcerStop
  split
  · exact hp
  · show P8c (pi8 (List.foldl (fun s i => s.instStop i) s s.announceOrder))
    exact p8_foldl _ (fun s i h => p8_instStop s i h) _ _ hp

theorem p8_stopAnnounceService (s : Stack) (i : Nat) (b : Bool) (hp : P8c (pi8 s)) : P8c (pi8 (s.stopAnnounceService i b)) := by
  unfold stopAnnounceService
  split
  · simpa using hp
  · simp only []
    split
    · exact p8_instStop _ _ (by simpa using hp)
    · simpa using hp

theorem p8_subscriberStop (s : Stack) (b : Bool) (hp : P8c (pi8 s)) : P8c (pi8 (s.subscriberStop b)) := by
  unfold subscriberStop
  p8

theorem p8_stepSubscribe (s : Stack) (tid : Tid) (t : TaskSt) (hp : P8c (pi8 s)) : P8c (pi8 (s.stepSubscribe tid t)) := by
  unfold stepSubscribe
  p8

theorem p8_stepFind (s : Stack) (tid : Tid) (t : TaskSt) (hp : P8c (pi8 s)) : P8c (pi8 (s.stepFind tid t)) := by
  unfold stepFind
  p8

theorem p8_sdMessageReceived (s : Stack) (m : SDHeader) (a : Addr) (mc : Bool) (hp : P8c (pi8 s)) :
    P8c (pi8 (s.sdMessageReceived m a mc)) := by
  unfold sdMessageReceived
  split
  · exact hp
  · refine p8_foldl _ (fun s e h => ?_) _ _ hp
    split
    · simpa using h
    · exact h
    · simpa using h
    · split
      · exact h
      · exact p8_handleSubscribe _ _ _ h

theorem p8_messageReceived (s : Stack) (h : Header) (a : Addr) (mc : Bool) (hp : P8c (pi8 s)) :
    P8c (pi8 (s.messageReceived h a mc)) := by
  unfold messageReceived
  split
  · exact hp
  · split
    · exact hp
    · rename_i m r hpar
      simp only []
      have h1 : P8c (pi8 (if (checkReceived s.incoming a mc m.flagReboot h.sess).1 = true
          then ({ s with incoming := (checkReceived s.incoming a mc m.flagReboot h.sess).2 } : Stack).rebootDetected a
          else ({ s with incoming := (checkReceived s.incoming a mc m.flagReboot h.sess).2 } : Stack))) := by
        split
        · simpa using hp
        · simpa using hp
      split
      · simpa using h1
      · exact p8_sdMessageReceived _ _ _ _ h1

theorem p8_datagramReceived (s : Stack) (b : Bytes) (a : Addr) (mc : Bool) (hp : P8c (pi8 s)) :
    P8c (pi8 (s.datagramReceived b a mc)) := by
  unfold datagramReceived
  exact p8_foldl _ (fun s h hh => p8_messageReceived s h a mc hh) _ _ hp

theorem p8_stop (s : Stack) (hp : P8c (pi8 s)) : P8c (pi8 s.stop) := by
  unfold Stack.stop
  exact p8_subscriberStop _ _ (p8_announcerStop _ (by simpa using hp))

theorem p8_applyInput (s : Stack) (x : Input) (hp : P8c (pi8 s)) : P8c (pi8 (s.applyInput x)) := by
  cases x with
  | dgram a mc b => exact p8_datagramReceived s b a mc hp
  | stop => exact p8_stop s hp
  | stopAnnounce i b => exact p8_stopAnnounceService s i b hp
  | announcerStop => exact p8_announcerStop s hp
  | setNak i egs => simp only [applyInput]; split <;> simpa using hp
  | draws ds => exact hp
  | _ => simpa [applyInput] using hp

theorem p8_runCb (s : Stack) (cb : Cb) (hp : P8c (pi8 s)) : P8c (pi8 (s.runCb cb)) := by
  cases cb with
  | connLost p =>
    cases p with
    | subscriber => exact p8_subscriberStop s false hp
    | discovery => simpa [runCb] using hp
    | announcer => exact p8_announcerStop s hp
  | expiredSvc a k => simpa [runCb] using hp
  | expiredSub i a k => simpa [runCb] using hp
  | sendStartSubscribe d egs => exact p8_sendSubscribe s _ d egs hp
  | sendStopSubscribe d egs => exact p8_sendSubscribe s _ d egs hp
  | sendOfferTo i a => exact p8_sendOffer s i _ _ hp
  | collectorTimeout cid => exact p8_collectorTimeout s cid hp
  | sleepDone tid => simpa [runCb] using hp
  | taskStep tid =>
    simp only [runCb]
    split
    · exact hp
    · split
      · exact hp
      · have h2 : ∀ (X : Stack) (q : Option Nat), P8c (pi8 X) → P8c (pi8 (X.cancelTimer (isSleepFor tid) q)) := fun X q h => by simpa using h
        split
        · exact p8_stepOffer _ _ _ _ (h2 _ _ hp)
        · exact p8_stepFind _ _ _ (h2 _ _ hp)
        · exact p8_stepSubscribe _ _ _ (h2 _ _ hp)

theorem p8_step (s s' : Stack) (e : Event) (h : s.step e = some s') (hp : P8c (pi8 s)) : P8c (pi8 s') := by
  cases e with
  | input x => simp only [step, Option.some.injEq] at h; subst h; exact p8_applyInput s x hp
  | run =>
    simp only [step] at h
    split at h
    · cases h
    · rename_i cb l _
      simp only [Option.some.injEq] at h; subst h
      exact p8_runCb _ cb hp
  | fire q =>
    simp only [step] at h
    cases hf : s.loop.fire q with
    | none => rw [hf] at h; cases h
    | some l => rw [hf] at h; simp at h; subst h; exact hp
  | adv t =>
    simp only [step] at h
    cases hf : s.loop.adv t with
    | none => rw [hf] at h; cases h
    | some l => rw [hf] at h; simp at h; subst h; exact hp

end Stack
end Someip
