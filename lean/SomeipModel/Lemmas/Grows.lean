/-
  The observable history only grows: for the operations on the receive path, the outputs so far are a
  prefix of the outputs afterwards.
-/
import SomeipModel.Lemmas.Frame
namespace Someip
namespace Stack
set_option linter.unusedSimpArgs false

/-- `s'` has all the history of `s`, in the same order, plus possibly more -/
def Grows (s s' : Stack) : Prop := s.outs <+: s'.outs

theorem Grows.refl (s : Stack) : Grows s s := List.prefix_refl _
theorem Grows.trans {a b c : Stack} (h1 : Grows a b) (h2 : Grows b c) : Grows a c := List.IsPrefix.trans h1 h2
theorem Grows.of_eq {s s' : Stack} (h : s'.outs = s.outs) : Grows s s' := by unfold Grows; rw [h]; exact List.prefix_refl _
/-- start from a state with the same history -/
theorem Grows.pre {s s0 s' : Stack} (g : Grows s0 s') (h : s0.outs = s.outs) : Grows s s' := by
  unfold Grows at *; rw [← h]; exact g
theorem grows_emit (s : Stack) (o : Out) : Grows s (s.emit o) := ⟨_, rfl⟩

theorem grows_foldl {α : Type} (f : Stack → α → Stack) (h : ∀ s a, Grows s (f s a)) (l : List α) (s : Stack) :
    Grows s (l.foldl f s) := by
  induction l generalizing s with
  | nil => exact Grows.refl _
  | cons a t ih => rw [List.foldl_cons]; exact (h s a).trans (ih _)

theorem grows_sendSd (s : Stack) (es : List SDEntry) (d : Dest) : Grows s (s.sendSd es d) := by
  by_cases h : es = []
  · subst h; rw [sendSd_nil]; exact Grows.refl _
  · obtain ⟨o, h1, _⟩ := sendSd_cases s es d h
    exact ⟨_, h1.symm⟩

theorem grows_flushTo (s : Stack) (es : List SDEntry) (d : Dest) : Grows s (s.flushTo es d) := by
  unfold flushTo
  exact (Grows.of_eq (s := s) (s' := { s with flushLog := s.flushLog ++ [(d, es)] }) rfl).trans (grows_sendSd _ _ _)

theorem grows_queueSend (s : Stack) (e : SDEntry) (d : Dest) : Grows s (s.queueSend e d) := by
  unfold queueSend; simp only []
  split
  · exact (grows_emit s _).trans (grows_flushTo _ _ _)
  · split
    · split
      · exact ⟨[(s.loop.now, .queued d e)], by simp [appendCollector, newCollector, callLater, emit]⟩
      · exact ⟨[(s.loop.now, .queued d e)], by simp [appendCollector, newCollector, callLater, emit]⟩
    · exact ⟨[(s.loop.now, .queued d e)], by simp [appendCollector, newCollector, callLater, emit]⟩

theorem grows_subscribeEventgroup (s : Stack) (g : Eventgroup) (d : Addr) : Grows s (s.subscribeEventgroup g d) := by
  unfold subscribeEventgroup; simp only []; split <;> exact Grows.of_eq rfl
theorem grows_stopSubscribeEventgroup (s : Stack) (g : Eventgroup) (d : Addr) (b : Bool) :
    Grows s (s.stopSubscribeEventgroup g d b) := by
  unfold stopSubscribeEventgroup; split
  · simp only []; split <;> exact Grows.of_eq rfl
  · exact Grows.refl _

theorem grows_listenerOffered (s : Stack) (l : Listener) (k : SvcKey) (a : Addr) : Grows s (s.listenerOffered l k a) := by
  unfold listenerOffered; split
  · exact grows_emit _ _
  · split
    · exact Grows.refl _
    · exact grows_subscribeEventgroup _ _ _
theorem grows_listenerStopped (s : Stack) (l : Listener) (k : SvcKey) (a : Addr) : Grows s (s.listenerStopped l k a) := by
  unfold listenerStopped; split
  · exact grows_emit _ _
  · split
    · exact Grows.refl _
    · exact grows_stopSubscribeEventgroup _ _ _ _

theorem grows_notifyService (s : Stack) (b : Bool) (k : SvcKey) (a : Addr) : Grows s (s.notifyService b k a) := by
  unfold notifyService; simp only []
  have hf : ∀ (s : Stack) (l : Listener), Grows s (if b = true then s.listenerOffered l k a else s.listenerStopped l k a) := by
    intro s l; split
    · exact grows_listenerOffered _ _ _ _
    · exact grows_listenerStopped _ _ _ _
  refine Grows.trans ?_ (grows_foldl _ (fun s id => hf s _) _ _)
  refine (grows_foldl _ (fun s p => by
    split
    · exact grows_foldl _ (fun s l => hf s l) _ _
    · exact Grows.refl _) _ _).pre rfl

theorem grows_cancelTimer (s : Stack) (own : Cb → Bool) (t : Option Nat) : Grows s (s.cancelTimer own t) := Grows.of_eq rfl
theorem grows_armTtl (s : Stack) (ttl : Nat) (cb : Cb) : Grows s (s.armTtl ttl cb).1 := by
  unfold armTtl; split <;> exact Grows.of_eq rfl

theorem grows_foundStop (s : Stack) (a : Addr) (k : SvcKey) : Grows s (s.foundStop a k) := by
  unfold foundStop; simp only []; split
  · exact Grows.of_eq rfl
  · exact (grows_notifyService _ _ _ _).pre rfl

theorem grows_foundRefresh (s : Stack) (ttl : Nat) (a : Addr) (k : SvcKey) : Grows s (s.foundRefresh ttl a k) := by
  unfold foundRefresh; simp only []
  refine Grows.trans ?_ (Grows.of_eq rfl)
  refine Grows.trans ?_ (grows_armTtl _ _ _)
  split
  · exact Grows.of_eq rfl
  · exact (grows_notifyService _ _ _ _).pre rfl

theorem grows_handleOffer (s : Stack) (e : SDEntry) (a : Addr) : Grows s (s.handleOffer e a) := by
  unfold handleOffer; simp only []
  split
  · split
    · exact grows_foundStop _ _ _
    · exact Grows.refl _
  · split
    · exact grows_foundStop _ _ _
    · exact grows_foundRefresh _ _ _ _

theorem grows_foundStopAllFor (s : Stack) (a : Addr) : Grows s (s.foundStopAllFor a) := by
  unfold foundStopAllFor; simp only []
  refine (grows_foldl _ (fun s e => ?_) _ _).pre rfl
  exact Grows.trans (grows_cancelTimer _ _ _) (grows_notifyService _ _ _ _)

theorem grows_subsStopAllFor (s : Stack) (i : Nat) (a : Addr) : Grows s (s.subsStopAllFor i a) := by
  unfold subsStopAllFor; split
  · exact Grows.refl _
  · simp only []
    refine (grows_foldl _ (fun s e => ?_) _ _).pre rfl
    exact Grows.trans (grows_cancelTimer _ _ _) (grows_emit _ _)

theorem grows_announcerReboot (s : Stack) (a : Addr) : Grows s (s.announcerReboot a) :=
  grows_foldl _ (fun s i => grows_subsStopAllFor s i a) _ _

theorem grows_rebootDetected (s : Stack) (a : Addr) : Grows s (s.rebootDetected a) :=
  (grows_foundStopAllFor s a).trans (grows_announcerReboot _ a)

theorem grows_handleFind (s : Stack) (e : SDEntry) (a : Addr) (mc : Bool) : Grows s (s.handleFind e a mc) := by
  unfold handleFind; simp only []
  split
  · exact Grows.refl _
  · split
    · have h := grows_foldl (fun (st : Stack) (i : Nat) =>
        ((st.logAnswer i a (s.draw s.tm.reqRespDelayMin s.tm.reqRespDelayMax).2).callLater (s.draw s.tm.reqRespDelayMin s.tm.reqRespDelayMax).2 (.sendOfferTo i a)).1) (fun s i => Grows.of_eq rfl)
        (s.answering e) (s.draw s.tm.reqRespDelayMin s.tm.reqRespDelayMax).1
      exact h.pre (draw_outs _ _ _)
    · exact grows_foldl (fun (st : Stack) (i : Nat) => st.callSoon (.sendOfferTo i a)) (fun s i => Grows.of_eq rfl) _ _

theorem grows_instHandleSubscribe (s : Stack) (i : Nat) (e : SDEntry) (a : Addr) : Grows s (s.instHandleSubscribe i e a).1 := by
  unfold instHandleSubscribe
  split
  · exact Grows.refl _
  · split
    · exact Grows.refl _
    · split
      · simp only []
        split
        · split
          · exact Grows.of_eq rfl
          · exact (grows_emit _ _).pre rfl
        · split
          · refine (grows_queueSend _ _ _).pre ?_
            simp only [setInst_outs]
            unfold armTtl; split <;> rfl
          · split
            · exact (grows_queueSend _ _ _).pre rfl
            · refine Grows.trans (grows_emit s (.subscribed i (SubKey.ofEntry e) a)) ((grows_queueSend _ _ _).pre ?_)
              simp only [setInst_outs]
              unfold armTtl; split <;> rfl
      · exact Grows.refl _

theorem grows_handleSubscribe (s : Stack) (e : SDEntry) (a : Addr) : Grows s (s.handleSubscribe e a) := by
  unfold handleSubscribe; simp only []
  have key : ∀ (l : List Nat) (acc : Stack × Bool),
      Grows acc.1 (l.foldl (fun (acc : Stack × Bool) i => ((acc.1.instHandleSubscribe i e a).1, acc.2 || (acc.1.instHandleSubscribe i e a).2)) acc).1 := by
    intro l; induction l with
    | nil => intro acc; exact Grows.refl _
    | cons x t ih =>
      intro acc; rw [List.foldl_cons]
      exact (grows_instHandleSubscribe acc.1 x e a).trans (ih ((acc.1.instHandleSubscribe x e a).1, acc.2 || (acc.1.instHandleSubscribe x e a).2))
  split
  · exact key s.announceOrder (s, false)
  · exact (key s.announceOrder (s, false)).trans (grows_queueSend _ _ _)

theorem grows_sdMessageReceived (s : Stack) (m : SDHeader) (a : Addr) (mc : Bool) : Grows s (s.sdMessageReceived m a mc) := by
  unfold sdMessageReceived; split
  · exact Grows.refl _
  · refine grows_foldl _ (fun s e => ?_) _ _
    split
    · exact grows_handleOffer _ _ _
    · exact Grows.refl _
    · exact grows_handleFind _ _ _ _
    · split
      · exact Grows.refl _
      · exact grows_handleSubscribe _ _ _

end Stack
end Someip
