import SomeipModel.Model.Bytes
namespace Someip

@[simp] theorem allBytes_nil : AllBytes [] := by simp [AllBytes]
@[simp] theorem allBytes_cons (a : Nat) (b : Bytes) : AllBytes (a :: b) ↔ a < 256 ∧ AllBytes b := by
  simp [AllBytes]
@[simp] theorem allBytes_append (a b : Bytes) : AllBytes (a ++ b) ↔ AllBytes a ∧ AllBytes b := by
  simp only [AllBytes, List.mem_append]
  constructor
  · intro h; exact ⟨fun x hx => h x (Or.inl hx), fun x hx => h x (Or.inr hx)⟩
  · rintro ⟨h1, h2⟩ x (hx | hx); exact h1 x hx; exact h2 x hx
theorem allBytes_take {b : Bytes} (n : Nat) (h : AllBytes b) : AllBytes (b.take n) :=
  fun x hx => h x (List.mem_of_mem_take hx)
theorem allBytes_drop {b : Bytes} (n : Nat) (h : AllBytes b) : AllBytes (b.drop n) :=
  fun x hx => h x (List.mem_of_mem_drop hx)

theorem u16_be16 {n : Nat} (h : n < 65536) : u16 (n / 256 % 256) (n % 256) = n := by unfold u16; omega
theorem u24_be24 {n : Nat} (h : n < 16777216) : u24 (n / 65536 % 256) (n / 256 % 256) (n % 256) = n := by
  unfold u24; omega
theorem u32_be32 {n : Nat} (h : n < 4294967296) :
    u32 (n / 16777216 % 256) (n / 65536 % 256) (n / 256 % 256) (n % 256) = n := by unfold u32; omega
theorem be16_u16 {a b : Nat} (ha : a < 256) (hb : b < 256) : be16 (u16 a b) = [a, b] := by
  have e1 : (a * 256 + b) / 256 % 256 = a := by omega
  have e2 : (a * 256 + b) % 256 = b := by omega
  simp [be16, u16, e1, e2]
theorem be24_u24 {a b c : Nat} (ha : a < 256) (hb : b < 256) (hc : c < 256) : be24 (u24 a b c) = [a, b, c] := by
  have e1 : ((a * 256 + b) * 256 + c) / 65536 % 256 = a := by omega
  have e2 : ((a * 256 + b) * 256 + c) / 256 % 256 = b := by omega
  have e3 : ((a * 256 + b) * 256 + c) % 256 = c := by omega
  simp [be24, u24, e1, e2, e3]
theorem be32_u32 {a b c d : Nat} (ha : a < 256) (hb : b < 256) (hc : c < 256) (hd : d < 256) :
    be32 (u32 a b c d) = [a, b, c, d] := by
  have e1 : (((a * 256 + b) * 256 + c) * 256 + d) / 16777216 % 256 = a := by omega
  have e2 : (((a * 256 + b) * 256 + c) * 256 + d) / 65536 % 256 = b := by omega
  have e3 : (((a * 256 + b) * 256 + c) * 256 + d) / 256 % 256 = c := by omega
  have e4 : (((a * 256 + b) * 256 + c) * 256 + d) % 256 = d := by omega
  simp [be32, u32, e1, e2, e3, e4]
theorem u16_lt {a b : Nat} (ha : a < 256) (hb : b < 256) : u16 a b < 65536 := by unfold u16; omega
theorem u24_lt {a b c : Nat} (ha : a < 256) (hb : b < 256) (hc : c < 256) : u24 a b c < 16777216 := by
  unfold u24; omega
theorem u32_lt {a b c d : Nat} (ha : a < 256) (hb : b < 256) (hc : c < 256) (hd : d < 256) :
    u32 a b c d < 4294967296 := by unfold u32; omega

end Someip
