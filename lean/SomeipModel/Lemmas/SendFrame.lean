/-
  Frame lemmas for the session storage of outgoing messages and the (ghost) send log: no function that does not reach
  `send_sd` changes them.  Same proof scripts as Frame.lean (other projection); the functions that do reach `send_sd`
  are treated in SendInv.lean.
-/
import SomeipModel.Lemmas.Frame
namespace Someip
namespace Stack
set_option linter.unusedSimpArgs false

/-- the outgoing session storage and the log of what `send_sd` drew from it -/
def pi8 (s : Stack) : Outgoing × List (Dest × (Bool × Nat)) := (s.outgoing, s.sendLog)

@[simp] theorem pi8_with_tm (s : Stack) (x : Timings) : pi8 { s with tm := x } = pi8 s := rfl
@[simp] theorem pi8_with_loop (s : Stack) (x : Loop Cb) : pi8 { s with loop := x } = pi8 s := rfl
@[simp] theorem pi8_with_outs (s : Stack) (x : List (Nat × Out)) : pi8 { s with outs := x } = pi8 s := rfl
@[simp] theorem pi8_with_tasks (s : Stack) (x : List (Tid × TaskSt)) : pi8 { s with tasks := x } = pi8 s := rfl
@[simp] theorem pi8_with_storeLog (s : Stack) (x : List (Bool × SvcKey × Addr)) : pi8 { s with storeLog := x } = pi8 s := rfl
@[simp] theorem pi8_with_refreshLog (s : Stack) (x : List (Addr × SvcKey × Nat × Nat)) : pi8 { s with refreshLog := x } = pi8 s := rfl
@[simp] theorem pi8_with_armLog (s : Stack) (x : List (Cb × Nat × Nat)) : pi8 { s with armLog := x } = pi8 s := rfl
@[simp] theorem pi8_with_subMarks (s : Stack) (x : List (Option Nat × Nat)) : pi8 { s with subMarks := x } = pi8 s := rfl
@[simp] theorem pi8_markRound (s : Stack) (n : Nat) : pi8 (s.markRound n) = pi8 s := rfl
@[simp] theorem pi8_with_found_refreshLog (s : Stack) (x : TStore SvcKey) (y : List (Addr × SvcKey × Nat × Nat)) : pi8 { s with found := x, refreshLog := y } = pi8 s := rfl
@[simp] theorem pi8_with_instances (s : Stack) (x : List Instance) : pi8 { s with instances := x } = pi8 s := rfl
@[simp] theorem pi8_with_collectors (s : Stack) (x : List Collector) : pi8 { s with collectors := x } = pi8 s := rfl
@[simp] theorem pi8_with_nextCid (s : Stack) (x : Nat) : pi8 { s with nextCid := x } = pi8 s := rfl
@[simp] theorem pi8_with_flushLog (s : Stack) (x : List (Dest × List SDEntry)) : pi8 { s with flushLog := x } = pi8 s := rfl
@[simp] theorem pi8_with_subLog (s : Stack) (x : List (Addr × Nat × List Eventgroup)) : pi8 { s with subLog := x } = pi8 s := rfl
@[simp] theorem pi8_with_findLog (s : Stack) (x : List (Nat × Nat)) : pi8 { s with findLog := x } = pi8 s := rfl
@[simp] theorem pi8_with_findMarks (s : Stack) (x : List (Nat × Nat)) : pi8 { s with findMarks := x } = pi8 s := rfl
@[simp] theorem pi8_with_ansLog (s : Stack) (x : List (Nat × Addr × Nat × Nat)) : pi8 { s with ansLog := x } = pi8 s := rfl
@[simp] theorem pi8_with_lisLog (s : Stack) (x : List (LId × Bool × SvcKey × Addr)) : pi8 { s with lisLog := x } = pi8 s := rfl
@[simp] theorem pi8_logLis (s : Stack) (id : LId) (o : Bool) (k : SvcKey) (a : Addr) : pi8 (s.logLis id o k a) = pi8 s := rfl
@[simp] theorem pi8_with_lisDup (s : Stack) (x : Bool) : pi8 { s with lisDup := x } = pi8 s := rfl
@[simp] theorem pi8_markDup (s : Stack) (d : Bool) : pi8 (s.markDup d) = pi8 s := rfl
@[simp] theorem pi8_logAnswer (s : Stack) (i : Nat) (a : Addr) (d : Nat) : pi8 (s.logAnswer i a d) = pi8 s := rfl
@[simp] theorem pi8_markFind (s : Stack) (n : Nat) : pi8 (s.markFind n) = pi8 s := rfl
@[simp] theorem pi8_with_offLog (s : Stack) (x : List (Nat × OEv × Nat)) : pi8 { s with offLog := x } = pi8 s := rfl
@[simp] theorem pi8_logOffer (s : Stack) (i : Nat) (e : OEv) : pi8 (s.logOffer i e) = pi8 s := rfl
@[simp] theorem pi8_with_subDup (s : Stack) (x : Bool) : pi8 { s with subDup := x } = pi8 s := rfl
@[simp] theorem pi8_with_subLost (s : Stack) (x : Bool) : pi8 { s with subLost := x } = pi8 s := rfl
@[simp] theorem pi8_with_alive_subLost (s : Stack) (x y : Bool) : pi8 { s with alive := x, subLost := y } = pi8 s := rfl
@[simp] theorem pi8_with_subDup_subEntries (s : Stack) (x : Bool) (y : List (Eventgroup × Addr)) : pi8 { s with subDup := x, subEntries := y } = pi8 s := rfl
@[simp] theorem pi8_with_coll_nextCid (s : Stack) (x : List Collector) (y : Nat) : pi8 { s with collectors := x, nextCid := y } = pi8 s := rfl

@[simp] theorem pi8_with_found (s : Stack) (x : TStore SvcKey) : pi8 { s with found := x } = pi8 s := rfl
@[simp] theorem pi8_with_watched (s : Stack) (x : List (Service × List Listener)) : pi8 { s with watched := x } = pi8 s := rfl
@[simp] theorem pi8_with_watchAll (s : Stack) (x : List LId) : pi8 { s with watchAll := x } = pi8 s := rfl
@[simp] theorem pi8_with_alive (s : Stack) (x : Bool) : pi8 { s with alive := x } = pi8 s := rfl
@[simp] theorem pi8_with_subTask (s : Stack) (x : Option Nat) : pi8 { s with subTask := x } = pi8 s := rfl
@[simp] theorem pi8_with_findTask (s : Stack) (x : Option Nat) : pi8 { s with findTask := x } = pi8 s := rfl
@[simp] theorem pi8_with_subEntries (s : Stack) (x : List (Eventgroup × Addr)) : pi8 { s with subEntries := x } = pi8 s := rfl
@[simp] theorem pi8_with_started (s : Stack) (x : Bool) : pi8 { s with started := x } = pi8 s := rfl
@[simp] theorem pi8_with_announceOrder (s : Stack) (x : List Nat) : pi8 { s with announceOrder := x } = pi8 s := rfl
@[simp] theorem pi8_with_incoming (s : Stack) (x : Incoming) : pi8 { s with incoming := x } = pi8 s := rfl
@[simp] theorem pi8_with_draws (s : Stack) (x : List Nat) : pi8 { s with draws := x } = pi8 s := rfl

@[simp] theorem pi8_emit (s : Stack) (o : Out) : pi8 (s.emit o) = pi8 s := rfl
@[simp] theorem pi8_callSoon (s : Stack) (cb : Cb) : pi8 (s.callSoon cb) = pi8 s := rfl
@[simp] theorem pi8_callLater (s : Stack) (d : Nat) (cb : Cb) : pi8 (s.callLater d cb).1 = pi8 s := rfl
@[simp] theorem pi8_cancelTimer (s : Stack) (own : Cb → Bool) (t : Option Nat) : pi8 (s.cancelTimer own t) = pi8 s := by
  cases t <;> rfl
@[simp] theorem pi8_draw (s : Stack) (a b : Nat) : pi8 (s.draw a b).1 = pi8 s := by
  unfold draw; split <;> rfl
@[simp] theorem pi8_armTtl (s : Stack) (ttl : Nat) (cb : Cb) : pi8 (s.armTtl ttl cb).1 = pi8 s := by
  unfold armTtl; split <;> rfl
@[simp] theorem pi8_setInst (s : Stack) (i : Nat) (x : Instance) : pi8 (s.setInst i x) = pi8 s := rfl
@[simp] theorem pi8_setTask (s : Stack) (i : Tid) (x : TaskSt) : pi8 (s.setTask i x) = pi8 s := rfl

@[simp] theorem pi8_newCollector (s : Stack) (d : Dest) : pi8 (s.newCollector d).1 = pi8 s := rfl
@[simp] theorem pi8_appendCollector (s : Stack) (c : Nat) (e : SDEntry) : pi8 (s.appendCollector c e) = pi8 s := rfl

@[simp] theorem pi8_createTask (s : Stack) (k : TaskKind) : pi8 (s.createTask k).1 = pi8 s := rfl
@[simp] theorem pi8_cancelTask (s : Stack) (t : Tid) : pi8 (s.cancelTask t) = pi8 s := by
  unfold cancelTask; split; rfl; split; rfl; split <;> simp
@[simp] theorem pi8_sleepFor (s : Stack) (tid : Tid) (t : TaskSt) (d : Nat) (pc : Pc) : pi8 (s.sleepFor tid t d pc) = pi8 s := by
  unfold sleepFor; split <;> simp
@[simp] theorem pi8_finish (s : Stack) (tid : Tid) (t : TaskSt) : pi8 (s.finish tid t) = pi8 s := rfl
@[simp] theorem pi8_sleepDone (s : Stack) (tid : Tid) : pi8 (s.sleepDone tid) = pi8 s := by
  unfold sleepDone; split; rfl; split <;> simp

@[simp] theorem pi8_instStart (s : Stack) (i : Nat) : pi8 (s.instStart i) = pi8 s := by
  unfold instStart; split; rfl; split; simp; simp only []; split <;> simp

@[simp] theorem pi8_subsStopAllFor (s : Stack) (i : Nat) (a : Addr) : pi8 (s.subsStopAllFor i a) = pi8 s := by
  unfold subsStopAllFor; split; rfl
  simp only []
  rw [foldl_pres pi8 _ (fun s e => by simp)]; rfl

@[simp] theorem pi8_subsStopAll (s : Stack) (i : Nat) : pi8 (s.subsStopAll i) = pi8 s := by
  unfold subsStopAll; split; rfl
  simp only []
  split
  · simp only [pi8_setInst]; rw [foldl_pres pi8 _ (fun s e => by simp)]
  · rw [foldl_pres pi8 _ (fun s e => by simp)]

@[simp] theorem pi8_handleFind (s : Stack) (e : SDEntry) (a : Addr) (mc : Bool) : pi8 (s.handleFind e a mc) = pi8 s := by
  unfold handleFind; simp only []
  split; rfl
  split
  · rw [foldl_pres pi8 _ (fun s i => by simp)]; simp
  · rw [foldl_pres pi8 _ (fun s i => by simp)]

@[simp] theorem pi8_expiredSub (s : Stack) (i : Nat) (a : Addr) (k : SubKey) : pi8 (s.expiredSub i a k) = pi8 s := by
  unfold expiredSub; split; rfl; simp only []; split <;> simp

@[simp] theorem pi8_announcerStart (s : Stack) : pi8 s.announcerStart = pi8 s := by
  unfold announcerStart; simp only []
  show pi8 (List.foldl (fun s i => s.instStart i) s s.announceOrder) = pi8 s
  rw [foldl_pres pi8 _ (fun s i => by simp)]

@[simp] theorem pi8_announcerReboot (s : Stack) (a : Addr) : pi8 (s.announcerReboot a) = pi8 s := by
  unfold announcerReboot; rw [foldl_pres pi8 _ (fun s i => by simp)]

@[simp] theorem pi8_announceService (s : Stack) (i : Nat) : pi8 (s.announceService i) = pi8 s := by
  unfold announceService; simp only []; split
  · show pi8 (s.instStart i) = pi8 s; simp
  · rfl

@[simp] theorem pi8_subscribeEventgroup (s : Stack) (g : Eventgroup) (d : Addr) : pi8 (s.subscribeEventgroup g d) = pi8 s := by
  unfold subscribeEventgroup; simp only []; split <;> rfl

@[simp] theorem pi8_stopSubscribeEventgroup (s : Stack) (g : Eventgroup) (d : Addr) (b : Bool) :
    pi8 (s.stopSubscribeEventgroup g d b) = pi8 s := by
  unfold stopSubscribeEventgroup; split
  · simp only []; split <;> rfl
  · rfl

@[simp] theorem pi8_subscriberStart (s : Stack) : pi8 s.subscriberStart = pi8 s := by
  unfold subscriberStart; split <;> rfl

@[simp] theorem pi8_listenerOffered (s : Stack) (l : Listener) (k : SvcKey) (a : Addr) : pi8 (s.listenerOffered l k a) = pi8 s := by
  unfold listenerOffered; frame_cases
@[simp] theorem pi8_listenerStopped (s : Stack) (l : Listener) (k : SvcKey) (a : Addr) : pi8 (s.listenerStopped l k a) = pi8 s := by
  unfold listenerStopped; frame_cases

@[simp] theorem pi8_notifyService (s : Stack) (b : Bool) (k : SvcKey) (a : Addr) : pi8 (s.notifyService b k a) = pi8 s := by
  unfold notifyService
  simp only []
  have hf : ∀ (s : Stack) (l : Listener), pi8 (if b = true then s.listenerOffered l k a else s.listenerStopped l k a) = pi8 s := by
    intro s l; split <;> simp
  rw [foldl_pres pi8 _ (fun s id => hf s _)]
  rw [foldl_pres pi8 _ (fun s p => by
    split
    · rw [foldl_pres pi8 _ (fun s l => hf s l)]
    · rfl)]
  rfl

@[simp] theorem pi8_foundStop (s : Stack) (a : Addr) (k : SvcKey) : pi8 (s.foundStop a k) = pi8 s := by
  unfold foundStop; frame_cases

@[simp] theorem pi8_foundRefresh (s : Stack) (ttl : Nat) (a : Addr) (k : SvcKey) : pi8 (s.foundRefresh ttl a k) = pi8 s := by
  unfold foundRefresh
  simp only [pi8_with_found, pi8_armTtl]
  split <;> simp

@[simp] theorem pi8_handleOffer (s : Stack) (e : SDEntry) (a : Addr) : pi8 (s.handleOffer e a) = pi8 s := by
  unfold handleOffer; frame_cases

@[simp] theorem pi8_foundStopAllFor (s : Stack) (a : Addr) : pi8 (s.foundStopAllFor a) = pi8 s := by
  unfold foundStopAllFor; simp only []
  rw [foldl_pres pi8 _ (fun s e => by simp)]; rfl

@[simp] theorem pi8_foundStopAll (s : Stack) : pi8 s.foundStopAll = pi8 s := by
  unfold foundStopAll; simp only []
  show pi8 (List.foldl (fun s p => s.foundStopAllFor p.1) s s.found) = pi8 s
  rw [foldl_pres pi8 _ (fun s e => by simp)]

@[simp] theorem pi8_expiredSvc (s : Stack) (a : Addr) (k : SvcKey) : pi8 (s.expiredSvc a k) = pi8 s := by
  unfold expiredSvc; frame_cases

@[simp] theorem pi8_replay (s : Stack) (b : Bool) (f : Option Service) (l : Listener) : pi8 (s.replay b f l) = pi8 s := by
  unfold replay
  rw [foldl_pres pi8 _ (fun s p => by frame_cases)]

@[simp] theorem pi8_watchService (s : Stack) (f : Service) (l : Listener) : pi8 (s.watchService f l) = pi8 s := by
  unfold watchService; simp only []; rw [pi8_markDup, pi8_replay]; rfl
@[simp] theorem pi8_stopWatchService (s : Stack) (f : Service) (l : Listener) : pi8 (s.stopWatchService f l) = pi8 s := by
  unfold stopWatchService; simp only []; split
  · simp
  · rw [pi8_replay]; rfl
@[simp] theorem pi8_watchAllServices (s : Stack) (id : LId) : pi8 (s.watchAllServices id) = pi8 s := by
  unfold watchAllServices; rw [pi8_markDup, pi8_replay]; rfl
@[simp] theorem pi8_stopWatchAllServices (s : Stack) (id : LId) : pi8 (s.stopWatchAllServices id) = pi8 s := by
  unfold stopWatchAllServices; split
  · simp
  · rw [pi8_replay]; rfl

@[simp] theorem pi8_discoveryStart (s : Stack) : pi8 s.discoveryStart = pi8 s := by
  unfold discoveryStart; simp only []
  split
  · split <;> simp
  · simp
@[simp] theorem pi8_discoveryStop (s : Stack) : pi8 s.discoveryStop = pi8 s := by
  unfold discoveryStop; split
  · show pi8 (s.cancelTask _) = pi8 s; simp
  · rfl

@[simp] theorem pi8_rebootDetected (s : Stack) (a : Addr) : pi8 (s.rebootDetected a) = pi8 s := by
  simp [rebootDetected]

@[simp] theorem pi8_start (s : Stack) : pi8 s.start = pi8 s := by simp [start]
@[simp] theorem pi8_connectionLost (s : Stack) : pi8 s.connectionLost = pi8 s := by simp [connectionLost]

end Stack
end Someip
