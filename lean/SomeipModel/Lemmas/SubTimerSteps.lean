/-
  SubTimerInv through the functions that touch the subscription stores, and through inputs, callbacks and loop steps.
-/
import SomeipModel.Lemmas.SubTimerInv
namespace Someip
namespace Stack
set_option linter.unusedSimpArgs false
set_option linter.unusedVariables false

/-- both subscription-store invariants -/
def Inv6 (s : Stack) : Prop := SubInv s ∧ SubTimerInv s

theorem inv6_frame {s s' : Stack} (h : spi s' = spi s) (hi : Inv6 s) : Inv6 s' :=
  ⟨subInv_of_spi h hi.1, subTimerInv_of_spi h hi.2⟩

theorem noDup_of_inv {s : Stack} {i : Nat} {x : Instance} (hi : SubInv s) (hx : s.getInst i = some x) (a : Addr) :
    NoDupSame (x.subs.get a) := (hi i x.subs (subsAt_of_getInst hx)).1 a

theorem subTimer_setInst_same (s : Stack) (i : Nat) (x x' : Instance) (hx : s.getInst i = some x) (hs : x'.subs = x.subs)
    (hi : SubTimerInv s) : SubTimerInv (s.setInst i x') := by
  intro j a k
  have hsub : ∀ j, subsAt (s.setInst i x') j = if j = i then some x.subs else subsAt s j := by
    intro j; rw [subsAt_setInst s i j x x' hx, hs]
  rw [heldU_of_subs hsub]
  have := hi j a k
  by_cases h : j = i
  · subst h; rw [if_pos rfl, ← heldU_eq_of_getInst hx]; exact this
  · rw [if_neg h]; exact this

theorem inv6_setInst_same (s : Stack) (i : Nat) (x x' : Instance) (hx : s.getInst i = some x) (hs : x'.subs = x.subs)
    (hi : Inv6 s) : Inv6 (s.setInst i x') :=
  ⟨subInv_setInst_same s i x x' hx hs hi.1, subTimer_setInst_same s i x x' hx hs hi.2⟩

theorem subTimer_touch (s : Stack) (i : Nat) (x : Instance) (a : Addr) (hx : s.getInst i = some x) (hi : SubTimerInv s) :
    SubTimerInv (s.setInst i { x with subs := x.subs.touch a }) := by
  intro j a' k
  have hsub : ∀ j, subsAt (s.setInst i { x with subs := x.subs.touch a }) j = if j = i then some (x.subs.touch a) else subsAt s j :=
    fun j => subsAt_setInst s i j x _ hx
  rw [heldU_of_subs hsub]
  have := hi j a' k
  by_cases h : j = i
  · subst h; rw [if_pos rfl, tget_touch, ← heldU_eq_of_getInst hx]; exact this
  · rw [if_neg h]; exact this

/-- StopSubscribe for a stored subscription -/
theorem subTimer_stop (s : Stack) (i : Nat) (x : Instance) (a : Addr) (k : SubKey) (old : TSEntry SubKey)
    (hs : SubInv s) (hi : SubTimerInv s) (hx : s.getInst i = some x)
    (hfind : TStore.findKey SubKey.same ((x.subs.touch a).get a) k = some old) :
    SubTimerInv (((s.setInst i { x with subs := (x.subs.touch a).set a (TStore.eraseKey SubKey.same ((x.subs.touch a).get a) k) }).cancelTimer
      (isSubExpiryFor i a old.key) old.timer).emit (.unsubscribed i k a)) := by
  have hnd := noDup_of_inv hs hx a
  have hold : heldU s i a old.key = old.timer := by
    rw [heldU_eq_of_getInst hx]
    rw [tget_touch] at hfind
    exact heldX_of_findKey hnd hfind
  refine subTimer_remove s _ i x a k old hnd hi hx hfind (fun j => subsAt_setInst s i j x _ hx) ?_ ?_
  · intro j a' k' h
    show hTU ((s.setInst i _).cancelTimer (isSubExpiryFor i a old.key) old.timer) j a' k' = _ ∧
      hRU ((s.setInst i _).cancelTimer (isSubExpiryFor i a old.key) old.timer) j a' k' = _
    rw [hTU_cancel, hRU_cancel, if_neg h, if_neg h]
    exact ⟨rfl, rfl⟩
  · show Good none (hTU ((s.setInst i _).cancelTimer (isSubExpiryFor i a old.key) old.timer) i a old.key)
      (hRU ((s.setInst i _).cancelTimer (isSubExpiryFor i a old.key) old.timer) i a old.key)
    rw [hTU_cancel, hRU_cancel, if_pos ⟨rfl, rfl, rfl⟩, if_pos ⟨rfl, rfl, rfl⟩]
    have hg := hi i a old.key
    rw [hold] at hg
    cases ht : old.timer with
    | none => rw [ht] at hg; exact hg
    | some q => rw [ht] at hg; exact good_cancelled hg

theorem find_erase (es : List (TSEntry SubKey)) (k k' : SubKey) :
    (TStore.eraseKey SubKey.same es k).find? (fun e => decide (e.key = k')) =
      if k'.same k = true then none else es.find? (fun e => decide (e.key = k')) := by
  unfold TStore.eraseKey
  induction es with
  | nil => simp
  | cons e t ih =>
    by_cases hek : e.key = k'
    · subst hek
      cases hs : e.key.same k
      · simp [List.filter_cons, hs, List.find?_cons]
      · simp only [List.filter_cons, hs, Bool.not_true, Bool.false_eq_true, if_false, if_true] at ih ⊢
        exact ih
    · have hd : decide (e.key = k') = false := by simp [hek]
      cases hs : e.key.same k
      · simp only [List.filter_cons, hs, Bool.not_false, if_true, List.find?_cons, hd]
        exact ih
      · simp only [List.filter_cons, hs, Bool.not_true, Bool.false_eq_true, if_false, List.find?_cons, hd]
        exact ih

/-- Subscribe for a stored subscription: the old handle is cancelled, a new one armed, the entry re-stored -/
theorem subTimer_refresh (s : Stack) (i : Nat) (x : Instance) (a : Addr) (k : SubKey) (ttl : Nat) (old : TSEntry SubKey)
    (hs : SubInv s) (hi : SubTimerInv s) (hx : s.getInst i = some x)
    (hfind : TStore.findKey SubKey.same ((x.subs.touch a).get a) k = some old) :
    SubTimerInv (((s.cancelTimer (isSubExpiryFor i a old.key) old.timer).armTtl ttl (.expiredSub i a k)).1.setInst i
      { x with subs := (x.subs.touch a).set a (TStore.eraseKey SubKey.same ((x.subs.touch a).get a) k ++
        [⟨k, ((s.cancelTimer (isSubExpiryFor i a old.key) old.timer).armTtl ttl (.expiredSub i a k)).2⟩]) }) := by
  have hnd := noDup_of_inv hs hx a
  have hfind' := hfind
  rw [tget_touch] at hfind'
  obtain ⟨ho, hom⟩ := findKey_same_key hfind'
  have hold : heldU s i a old.key = old.timer := by
    rw [heldU_eq_of_getInst hx]; exact heldX_of_findKey hnd hfind'
  have hcancelled : Good none (hTU (s.cancelTimer (isSubExpiryFor i a old.key) old.timer) i a old.key)
      (hRU (s.cancelTimer (isSubExpiryFor i a old.key) old.timer) i a old.key) := by
    rw [hTU_cancel, hRU_cancel, if_pos ⟨rfl, rfl, rfl⟩, if_pos ⟨rfl, rfl, rfl⟩]
    have hg := hi i a old.key
    rw [hold] at hg
    cases ht : old.timer with
    | none => rw [ht] at hg; exact hg
    | some q => rw [ht] at hg; exact good_cancelled hg
  refine subTimer_store s (s.cancelTimer (isSubExpiryFor i a old.key) old.timer) i x a k ttl _ hi hx hx rfl ?_ ?_ ?_
  · rw [find_erase, if_pos (same_refl k)]
  · intro j a' k' hne
    by_cases hold' : j = i ∧ a' = a ∧ k' = old.key
    · obtain ⟨rfl, rfl, rfl⟩ := hold'
      rw [if_pos ⟨rfl, rfl⟩, tget_touch, heldX_erase, if_pos ho]
      exact hcancelled
    · rw [hTU_cancel, hRU_cancel, if_neg hold', if_neg hold']
      by_cases hja : j = i ∧ a' = a
      · obtain ⟨rfl, rfl⟩ := hja
        rw [if_pos ⟨rfl, rfl⟩, tget_touch, heldX_erase]
        have hk : k' ≠ old.key := fun q => hold' ⟨rfl, rfl, q⟩
        have hg := hi j a' k'
        rw [heldU_eq_of_getInst hx] at hg
        by_cases hsm : k'.same k = true
        · rw [if_pos hsm]
          rw [heldX_same_other hnd hfind' hsm hk] at hg
          exact hg
        · rw [if_neg hsm]; exact hg
      · rw [if_neg hja]; exact hi j a' k'
  · by_cases hk : k = old.key
    · rw [hk]; exact hcancelled
    · rw [hTU_cancel, hRU_cancel]
      have : ¬ (i = i ∧ a = a ∧ k = old.key) := fun q => hk q.2.2
      rw [if_neg this, if_neg this]
      have hg := hi i a k
      rw [heldU_eq_of_getInst hx, heldX_same_other hnd hfind' (same_refl k) hk] at hg
      exact hg

/-- Subscribe for a new subscription the listener accepted -/
theorem subTimer_add (s : Stack) (i : Nat) (x : Instance) (a : Addr) (k : SubKey) (ttl : Nat)
    (hi : SubTimerInv s) (hx : s.getInst i = some x)
    (hfind : TStore.findKey SubKey.same ((x.subs.touch a).get a) k = none) :
    SubTimerInv (((s.emit (.subscribed i k a)).armTtl ttl (.expiredSub i a k)).1.setInst i
      { x with subs := (x.subs.touch a).set a ((x.subs.touch a).get a ++
        [⟨k, ((s.emit (.subscribed i k a)).armTtl ttl (.expiredSub i a k)).2⟩]) }) := by
  have hfind' := hfind
  rw [tget_touch] at hfind'
  have hnone := find_none_of_findKey_none hfind' (same_refl k)
  refine subTimer_store s (s.emit (.subscribed i k a)) i x a k ttl _ hi hx hx rfl ?_ ?_ ?_
  · rw [tget_touch]; exact hnone
  · intro j a' k' _
    by_cases hja : j = i ∧ a' = a
    · obtain ⟨rfl, rfl⟩ := hja
      rw [if_pos ⟨rfl, rfl⟩, tget_touch]
      have hg := hi j a' k'
      rw [heldU_eq_of_getInst hx] at hg
      exact hg
    · rw [if_neg hja]; exact hi j a' k'
  · have hg := hi i a k
    rw [heldU_eq_of_getInst hx] at hg
    have : heldX (x.subs.get a) k = none := by unfold heldX; rw [hnone]; rfl
    rw [this] at hg
    exact hg

theorem inv6_instHandleSubscribe (s : Stack) (i : Nat) (e : SDEntry) (a : Addr) (hi : Inv6 s) :
    Inv6 (s.instHandleSubscribe i e a).1 := by
  refine ⟨subInv_instHandleSubscribe s i e a hi.1, ?_⟩
  unfold instHandleSubscribe
  split
  · exact hi.2
  · rename_i x hx
    split
    · exact hi.2
    · split
      · split
        · simp only []
          split
          · exact subTimer_touch s i x a hx hi.2
          · rename_i old hfind
            exact subTimer_stop s i x a _ old hi.1 hi.2 hx hfind
        · simp only []
          split
          · rename_i old hfind
            apply subTimerInv_of_spi (spi_queueSend _ _ _)
            exact subTimer_refresh s i x a _ e.ttl old hi.1 hi.2 hx hfind
          · rename_i hfind
            split
            · apply subTimerInv_of_spi (spi_queueSend _ _ _)
              exact subTimer_touch s i x a hx hi.2
            · apply subTimerInv_of_spi (spi_queueSend _ _ _)
              exact subTimer_add s i x a _ e.ttl hi.2 hx hfind
      · exact hi.2

/-- the expiry callback of a subscription, popped from the ready queue: it finds the entry it was armed for -/
theorem subTimer_run_expiredSub (s : Stack) (q : Option Nat) (i : Nat) (a : Addr) (k : SubKey) (rest : List (RItem Cb))
    (hr : s.loop.ready = ⟨q, .expiredSub i a k⟩ :: rest) (hs : SubInv s) (hi : SubTimerInv s) :
    (∃ x old, s.getInst i = some x ∧ TStore.findKey SubKey.same (x.subs.get a) k = some old ∧ old.key = k ∧ old.timer = q ∧ q ≠ none) ∧
    SubTimerInv (({ s with loop := { s.loop with ready := rest } } : Stack).expiredSub i a k) := by
  have hfor : isSubExpiryFor i a k (Cb.expiredSub i a k) = true := forU_iff.mpr rfl
  have hRk : hRU s i a k = q :: ((rest.filter (fun r => isSubExpiryFor i a k r.cb)).map (·.seq)) := by
    unfold hRU; rw [hr]; simp [List.filter_cons, hfor]
  have hg := hi i a k
  rw [hRk] at hg
  cases hh : heldU s i a k with
  | none => rw [hh] at hg; exact absurd hg.2 (by simp)
  | some q0 =>
    rw [hh] at hg
    rcases hg with ⟨_, h2⟩ | ⟨h1, h2⟩
    · exact absurd h2 (by simp)
    · simp only [List.cons.injEq, List.map_eq_nil_iff] at h2
      obtain ⟨hq, hrest⟩ := h2
      -- the instance and the entry exist
      unfold heldU at hh
      cases hsa : subsAt s i with
      | none => rw [hsa] at hh; cases hh
      | some st =>
        rw [hsa] at hh
        have hxi : ∃ x, s.getInst i = some x ∧ x.subs = st := by
          unfold subsAt at hsa
          simp only [List.getElem?_map, Option.map_eq_some_iff] at hsa
          obtain ⟨x, hx, rfl⟩ := hsa
          exact ⟨x, hx, rfl⟩
        obtain ⟨x, hx, rfl⟩ := hxi
        have hnd := noDup_of_inv hs hx a
        simp only [] at hh
        unfold heldX at hh
        cases hf : (x.subs.get a).find? (fun e => decide (e.key = k)) with
        | none => rw [hf] at hh; cases hh
        | some old =>
          rw [hf] at hh
          have hok : old.key = k := by simpa using List.find?_some hf
          have hom := List.mem_of_find?_eq_some hf
          have hot : old.timer = some q0 := by simpa using hh
          -- the lookup by `same` returns this very entry
          have hfk : TStore.findKey SubKey.same (x.subs.get a) k = some old := by
            cases hfs : TStore.findKey SubKey.same (x.subs.get a) k with
            | none =>
              have := find_none_of_findKey_none hfs (same_refl k)
              rw [this] at hf; cases hf
            | some o2 =>
              obtain ⟨h21, h22⟩ := findKey_same_key hfs
              have : o2 = old := same_unique hnd h22 hom (by rw [hok]; exact h21)
              rw [this]
          refine ⟨⟨x, old, hx, hfk, hok, by rw [hot, hq], by rw [hq]; simp⟩, ?_⟩
          have hxP : ({ s with loop := { s.loop with ready := rest } } : Stack).getInst i = some x := hx
          unfold expiredSub
          rw [hxP]
          simp only []
          have hfk' : TStore.findKey SubKey.same ((x.subs.touch a).get a) k = some old := by rw [tget_touch]; exact hfk
          rw [hfk']
          simp only []
          have hiP : SubTimerInv s := hi
          refine subTimer_remove s _ i x a k old hnd hi hx hfk' (fun j => subsAt_setInst _ i j x _ hxP) ?_ ?_
          · intro j a' k' hne
            rw [hok] at hne
            constructor
            · rfl
            · show hRU ({ s with loop := { s.loop with ready := rest } } : Stack) j a' k' = hRU s j a' k'
              unfold hRU; rw [hr]
              have : isSubExpiryFor j a' k' (Cb.expiredSub i a k) = false := forU_other hfor hne
              simp [List.filter_cons, this]
          · rw [hok]
            refine ⟨h1, ?_⟩
            show hRU ({ s with loop := { s.loop with ready := rest } } : Stack) i a k = []
            unfold hRU
            simp only [List.map_eq_nil_iff]
            exact hrest

/-! ### flushing an address / a whole store -/

theorem heldX_cons (e : TSEntry SubKey) (t : List (TSEntry SubKey)) (k : SubKey) :
    heldX (e :: t) k = if e.key = k then e.timer else heldX t k := by
  unfold heldX
  by_cases h : e.key = k <;> simp [List.find?_cons, h]

theorem unsub_fold_timers (i : Nat) (a : Addr) : ∀ (es : List (TSEntry SubKey)) (st : Stack), NoDupSame es →
    (∀ k', Good (heldX es k') (hTU st i a k') (hRU st i a k')) →
    (∀ k', Good none (hTU (es.foldl (fun s e => (s.cancelTimer (isSubExpiryFor i a e.key) e.timer).emit (.unsubscribed i e.key a)) st) i a k')
                     (hRU (es.foldl (fun s e => (s.cancelTimer (isSubExpiryFor i a e.key) e.timer).emit (.unsubscribed i e.key a)) st) i a k')) ∧
    (∀ j a' k', ¬ (j = i ∧ a' = a) →
      hTU (es.foldl (fun s e => (s.cancelTimer (isSubExpiryFor i a e.key) e.timer).emit (.unsubscribed i e.key a)) st) j a' k' = hTU st j a' k' ∧
      hRU (es.foldl (fun s e => (s.cancelTimer (isSubExpiryFor i a e.key) e.timer).emit (.unsubscribed i e.key a)) st) j a' k' = hRU st j a' k') := by
  intro es
  induction es with
  | nil =>
    intro st _ h
    exact ⟨fun k' => by simpa [heldX] using h k', fun _ _ _ _ => ⟨rfl, rfl⟩⟩
  | cons e t ih =>
    intro st hnd h
    rw [List.foldl_cons]
    obtain ⟨hp, hps⟩ := List.pairwise_cons.mp hnd
    have hT : ∀ j a' k', hTU ((st.cancelTimer (isSubExpiryFor i a e.key) e.timer).emit (.unsubscribed i e.key a)) j a' k' =
        hTU (st.cancelTimer (isSubExpiryFor i a e.key) e.timer) j a' k' := fun _ _ _ => rfl
    have hR : ∀ j a' k', hRU ((st.cancelTimer (isSubExpiryFor i a e.key) e.timer).emit (.unsubscribed i e.key a)) j a' k' =
        hRU (st.cancelTimer (isSubExpiryFor i a e.key) e.timer) j a' k' := fun _ _ _ => rfl
    have hstep : ∀ k', Good (heldX t k')
        (hTU ((st.cancelTimer (isSubExpiryFor i a e.key) e.timer).emit (.unsubscribed i e.key a)) i a k')
        (hRU ((st.cancelTimer (isSubExpiryFor i a e.key) e.timer).emit (.unsubscribed i e.key a)) i a k') := by
      intro k'
      rw [hT, hR, hTU_cancel, hRU_cancel]
      have hg := h k'
      rw [heldX_cons] at hg
      by_cases hk : k' = e.key
      · subst hk
        rw [if_pos ⟨rfl, rfl, rfl⟩, if_pos ⟨rfl, rfl, rfl⟩]
        have hn : heldX t e.key = none := by
          unfold heldX
          have : t.find? (fun x => decide (x.key = e.key)) = none := by
            simp only [List.find?_eq_none, decide_eq_true_eq]
            intro x hx q
            have := hp x hx
            rw [q, same_refl] at this; cases this
          rw [this]; rfl
        rw [hn]
        simp only [if_true] at hg
        cases ht : e.timer with
        | none => rw [ht] at hg; exact hg
        | some q => rw [ht] at hg; exact good_cancelled hg
      · have : ¬ (i = i ∧ a = a ∧ k' = e.key) := fun q => hk q.2.2
        have hk2 : ¬ e.key = k' := fun q => hk q.symm
        rw [if_neg this, if_neg this]
        rw [if_neg hk2] at hg
        exact hg
    obtain ⟨i1, i2⟩ := ih _ hps hstep
    refine ⟨i1, fun j a' k' hne => ?_⟩
    obtain ⟨e1, e2⟩ := i2 j a' k' hne
    rw [e1, e2, hT, hR, hTU_cancel, hRU_cancel]
    have : ¬ (j = i ∧ a' = a ∧ k' = e.key) := fun q => hne ⟨q.1, q.2.1⟩
    rw [if_neg this, if_neg this]
    exact ⟨rfl, rfl⟩

theorem subTimer_subsStopAllFor (s : Stack) (i : Nat) (a : Addr) (hs : SubInv s) (hi : SubTimerInv s) :
    SubTimerInv (s.subsStopAllFor i a) := by
  unfold subsStopAllFor
  split
  · exact hi
  · rename_i x hx
    simp only []
    have hnd := noDup_of_inv hs hx a
    have h0 : ∀ k', Good (heldX ((x.subs.touch a).get a) k')
        (hTU (s.setInst i { x with subs := (x.subs.touch a).set a [] }) i a k')
        (hRU (s.setInst i { x with subs := (x.subs.touch a).set a [] }) i a k') := by
      intro k'
      rw [tget_touch]
      have := hi i a k'
      rw [heldU_eq_of_getInst hx] at this
      exact this
    obtain ⟨i1, i2⟩ := unsub_fold_timers i a _ (s.setInst i { x with subs := (x.subs.touch a).set a [] }) (by rw [tget_touch]; exact hnd) h0
    obtain ⟨f1, _⟩ := unsub_fold i a ((x.subs.touch a).get a) (s.setInst i { x with subs := (x.subs.touch a).set a [] })
    have hsub : ∀ j, subsAt (((x.subs.touch a).get a).foldl (fun s e => (s.cancelTimer (isSubExpiryFor i a e.key) e.timer).emit (.unsubscribed i e.key a))
        (s.setInst i { x with subs := (x.subs.touch a).set a [] })) j = if j = i then some ((x.subs.touch a).set a []) else subsAt s j := by
      intro j; rw [subsAt_of_instances f1]; exact subsAt_setInst s i j x _ hx
    intro j a' k'
    rw [heldU_of_subs hsub]
    by_cases hja : j = i ∧ a' = a
    · obtain ⟨rfl, rfl⟩ := hja
      rw [if_pos rfl, tget_set_same, heldX_nil]
      exact i1 k'
    · obtain ⟨e1, e2⟩ := i2 j a' k' hja
      rw [e1, e2]
      have := hi j a' k'
      by_cases hj : j = i
      · subst hj
        have ha : a' ≠ a := fun q => hja ⟨rfl, q⟩
        rw [if_pos rfl, tget_set_other _ _ _ _ ha, tget_touch, ← heldU_eq_of_getInst hx]
        exact this
      · rw [if_neg hj]; exact this

theorem inv6_subsStopAllFor (s : Stack) (i : Nat) (a : Addr) (hi : Inv6 s) : Inv6 (s.subsStopAllFor i a) :=
  ⟨subInv_subsStopAllFor s i a hi.1, subTimer_subsStopAllFor s i a hi.1 hi.2⟩

theorem inv6_foldl {α : Type} (f : Stack → α → Stack) (h : ∀ s x, Inv6 s → Inv6 (f s x)) (l : List α) (s : Stack)
    (hi : Inv6 s) : Inv6 (l.foldl f s) := by
  induction l generalizing s with
  | nil => exact hi
  | cons x t ih => rw [List.foldl_cons]; exact ih _ (h s x hi)

theorem inv6_subsStopAll (s : Stack) (i : Nat) (hi : Inv6 s) : Inv6 (s.subsStopAll i) := by
  refine ⟨subInv_subsStopAll s i hi.1, ?_⟩
  unfold subsStopAll
  split
  · exact hi.2
  · rename_i x hx
    simp only []
    have hfold : Inv6 (x.subs.foldl (fun s p => s.subsStopAllFor i p.1) s) :=
      inv6_foldl _ (fun s p h => inv6_subsStopAllFor s i p.1 h) _ _ hi
    have hmap : x.subs.foldl (fun s p => s.subsStopAllFor i p.1) s = (x.subs.map (·.1)).foldl (fun s a => s.subsStopAllFor i a) s := by
      rw [List.foldl_map]
    obtain ⟨x', hx', h1, h2⟩ := stopAll_fold_store i (x.subs.map (·.1)) s x hx
    rw [hmap] at hfold ⊢
    rw [hx']
    simp only []
    have hall : ∀ a, x'.subs.get a = [] := by
      intro a
      by_cases ha : a ∈ x.subs.map (·.1)
      · exact h1 a ha
      · rw [h2 a ha]
        unfold TStore.get
        have : x.subs.find? (fun p => decide (p.1 = a)) = none := by
          simp only [List.find?_eq_none]; intro p hp
          simp only [decide_eq_true_eq]
          intro e; exact ha (List.mem_map.mpr ⟨p, hp, e⟩)
        simp [this]
    intro j a k
    have hsub : ∀ j, subsAt (((x.subs.map (·.1)).foldl (fun s a => s.subsStopAllFor i a) s).setInst i { x' with subs := [] }) j =
        if j = i then some [] else subsAt ((x.subs.map (·.1)).foldl (fun s a => s.subsStopAllFor i a) s) j :=
      fun j => subsAt_setInst _ i j x' _ hx'
    rw [heldU_of_subs hsub]
    have hg := hfold.2 j a k
    show Good _ (hTU ((x.subs.map (·.1)).foldl (fun s a => s.subsStopAllFor i a) s) j a k)
      (hRU ((x.subs.map (·.1)).foldl (fun s a => s.subsStopAllFor i a) s) j a k)
    by_cases hj : j = i
    · subst hj
      rw [if_pos rfl]
      rw [heldU_eq_of_getInst hx', hall a] at hg
      simpa [TStore.get, heldX] using hg
    · rw [if_neg hj]; exact hg

end Stack
end Someip
