/-
  The TTL-handle invariant of the per-instance subscription stores (C09 for subscriptions, whole-run): a stored
  subscription with a finite TTL holds the number of exactly one pending expiry handle armed for its (instance, address,
  key); one stored with the infinite TTL, and anything not stored, has none.  Same structure as TimerInv.lean; the store is
  searched with `SubKey.same` (set equality of endpoints) while a handle carries the exact key it was armed with - the
  "no two entries with the same key" part of SubInv bridges the two.
-/
import SomeipModel.Lemmas.SubSteps
import SomeipModel.Lemmas.TimerInv
namespace Someip
namespace Stack
set_option linter.unusedSimpArgs false
set_option linter.unusedVariables false

theorem forU_iff {i : Nat} {a : Addr} {k : SubKey} {cb : Cb} : isSubExpiryFor i a k cb = true ↔ cb = .expiredSub i a k := by
  cases cb <;> simp [isSubExpiryFor, and_assoc]
theorem forU_sub {i : Nat} {a : Addr} {k : SubKey} {cb : Cb} (h : isSubExpiryFor i a k cb = true) : isSubExpiry cb = true := by
  rw [forU_iff] at h; subst h; rfl
theorem forU_other {i i' : Nat} {a a' : Addr} {k k' : SubKey} {cb : Cb} (h : isSubExpiryFor i a k cb = true)
    (hne : ¬ (i' = i ∧ a' = a ∧ k' = k)) : isSubExpiryFor i' a' k' cb = false := by
  rw [forU_iff] at h; subst h
  cases hq : isSubExpiryFor i' a' k' (Cb.expiredSub i a k)
  · rfl
  · rw [forU_iff] at hq
    simp only [Cb.expiredSub.injEq] at hq
    exact absurd ⟨hq.1.symm, hq.2.1.symm, hq.2.2.symm⟩ hne

def hTU (s : Stack) (i : Nat) (a : Addr) (k : SubKey) : List Nat := (s.loop.timers.filter (fun t => isSubExpiryFor i a k t.cb)).map (·.seq)
def hRU (s : Stack) (i : Nat) (a : Addr) (k : SubKey) : List (Option Nat) := (s.loop.ready.filter (fun r => isSubExpiryFor i a k r.cb)).map (·.seq)
/-- the handle held by the entry whose key is exactly k -/
def heldX (es : List (TSEntry SubKey)) (k : SubKey) : Option Nat := (es.find? (fun e => decide (e.key = k))).bind (·.timer)
def heldU (s : Stack) (i : Nat) (a : Addr) (k : SubKey) : Option Nat :=
  match subsAt s i with
  | some st => heldX (st.get a) k
  | none => none

def SubTimerInv (s : Stack) : Prop := ∀ i a k, Good (heldU s i a k) (hTU s i a k) (hRU s i a k)

theorem filter_forU {α : Type} (cbOf : α → Cb) (l : List α) (i : Nat) (a : Addr) (k : SubKey) :
    (l.filter (fun x => isSubExpiry (cbOf x))).filter (fun x => isSubExpiryFor i a k (cbOf x)) = l.filter (fun x => isSubExpiryFor i a k (cbOf x)) := by
  rw [List.filter_filter]
  apply List.filter_congr
  intro x _
  cases h : isSubExpiryFor i a k (cbOf x)
  · simp
  · simp [forU_sub h]

theorem subTimerInv_of_spi {s s' : Stack} (h : spi s' = spi s) (hi : SubTimerInv s) : SubTimerInv s' := by
  have e1 : s'.instances.map (·.subs) = s.instances.map (·.subs) := congrArg (fun p => p.1) h
  have e3 : s'.loop.timers.filter (fun t => isSubExpiry t.cb) = s.loop.timers.filter (fun t => isSubExpiry t.cb) := congrArg (fun p => p.2.2.1) h
  have e4 : s'.loop.ready.filter (fun t => isSubExpiry t.cb) = s.loop.ready.filter (fun t => isSubExpiry t.cb) := congrArg (fun p => p.2.2.2.1) h
  intro i a k
  have h1 : heldU s' i a k = heldU s i a k := by unfold heldU subsAt; rw [e1]
  have h2 : hTU s' i a k = hTU s i a k := by
    unfold hTU; rw [← filter_forU (·.cb) s'.loop.timers, ← filter_forU (·.cb) s.loop.timers, e3]
  have h3 : hRU s' i a k = hRU s i a k := by
    unfold hRU; rw [← filter_forU (·.cb) s'.loop.ready, ← filter_forU (·.cb) s.loop.ready, e4]
  rw [h1, h2, h3]; exact hi i a k

/-! ### atomic effects on the handle lists -/

theorem hTU_cancel (s : Stack) (i i' : Nat) (a a' : Addr) (k k' : SubKey) (t : Option Nat) :
    hTU (s.cancelTimer (isSubExpiryFor i a k) t) i' a' k' =
      if i' = i ∧ a' = a ∧ k' = k then (match t with | some q => (hTU s i a k).filter (· ≠ q) | none => hTU s i a k) else hTU s i' a' k' := by
  cases t with
  | none =>
    simp only [cancelTimer, Loop.cancelOpt]
    split
    · rename_i h; rw [h.1, h.2.1, h.2.2]
    · rfl
  | some q =>
    simp only [hTU, cancelTimer, Loop.cancelOpt, Loop.cancel, List.filter_filter]
    split
    · rename_i h
      rw [h.1, h.2.1, h.2.2, List.filter_map]
      congr 1
      rw [List.filter_filter]
      apply List.filter_congr
      intro x _
      cases hx : isSubExpiryFor i a k x.cb <;> simp [hx]
    · rename_i h
      congr 1
      apply List.filter_congr
      intro x _
      cases hx : isSubExpiryFor i' a' k' x.cb
      · simp
      · have := forU_other hx (i' := i) (a' := a) (k' := k) (fun e => h ⟨e.1.symm, e.2.1.symm, e.2.2.symm⟩)
        simp [this]

theorem hRU_cancel (s : Stack) (i i' : Nat) (a a' : Addr) (k k' : SubKey) (t : Option Nat) :
    hRU (s.cancelTimer (isSubExpiryFor i a k) t) i' a' k' =
      if i' = i ∧ a' = a ∧ k' = k then (match t with | some q => (hRU s i a k).filter (· ≠ some q) | none => hRU s i a k) else hRU s i' a' k' := by
  cases t with
  | none =>
    simp only [cancelTimer, Loop.cancelOpt]
    split
    · rename_i h; rw [h.1, h.2.1, h.2.2]
    · rfl
  | some q =>
    simp only [hRU, cancelTimer, Loop.cancelOpt, Loop.cancel, List.filter_filter]
    split
    · rename_i h
      rw [h.1, h.2.1, h.2.2, List.filter_map]
      congr 1
      rw [List.filter_filter]
      apply List.filter_congr
      intro x _
      cases hx : isSubExpiryFor i a k x.cb <;> simp [hx]
    · rename_i h
      congr 1
      apply List.filter_congr
      intro x _
      cases hx : isSubExpiryFor i' a' k' x.cb
      · simp
      · have := forU_other hx (i' := i) (a' := a) (k' := k) (fun e => h ⟨e.1.symm, e.2.1.symm, e.2.2.symm⟩)
        simp [this]

theorem hTU_arm (s : Stack) (ttl : Nat) (i i' : Nat) (a a' : Addr) (k k' : SubKey) :
    hTU (s.armTtl ttl (.expiredSub i a k)).1 i' a' k' =
      if i' = i ∧ a' = a ∧ k' = k then hTU s i a k ++ (if ttl ≠ TTL_FOREVER then [s.loop.nextSeq] else []) else hTU s i' a' k' := by
  unfold armTtl
  by_cases hf : ttl ≠ TTL_FOREVER
  · rw [if_pos hf, if_pos hf]
    simp only [hTU, callLater, Loop.callLater, List.filter_append, List.map_append]
    by_cases h : i' = i ∧ a' = a ∧ k' = k
    · have h2 : isSubExpiryFor i a k (Cb.expiredSub i a k) = true := forU_iff.mpr rfl
      rw [if_pos h, h.1, h.2.1, h.2.2]
      simp [List.filter_cons, h2]
    · have : isSubExpiryFor i' a' k' (Cb.expiredSub i a k) = false := forU_other (forU_iff.mpr rfl) h
      rw [if_neg h]
      simp [List.filter_cons, this]
  · rw [if_neg hf, if_neg hf]
    simp only []
    split
    · rename_i h; rw [h.1, h.2.1, h.2.2]; simp [hTU]
    · rfl

theorem hRU_arm (s : Stack) (ttl : Nat) (cb : Cb) (i' : Nat) (a' : Addr) (k' : SubKey) : hRU (s.armTtl ttl cb).1 i' a' k' = hRU s i' a' k' := by
  unfold armTtl; split <;> rfl

/-! ### what a list of entries holds -/

theorem heldX_nil (k : SubKey) : heldX [] k = none := rfl

/-- among pairwise different keys, an entry that is `same` as the key of another one IS that one -/
theorem same_unique {es : List (TSEntry SubKey)} (hnd : NoDupSame es) {x y : TSEntry SubKey} (hx : x ∈ es) (hy : y ∈ es)
    (h : x.key.same y.key = true) : x = y := by
  induction es with
  | nil => cases hx
  | cons e t ih =>
    obtain ⟨hp, hps⟩ := List.pairwise_cons.mp hnd
    rcases List.mem_cons.mp hx with e1 | e1 <;> rcases List.mem_cons.mp hy with e2 | e2
    · rw [e1, e2]
    · subst e1; rw [hp y e2] at h; cases h
    · subst e2
      have := hp x e1
      rw [same_symm h] at this; cases this
    · exact ih hps e1 e2

theorem heldX_erase (es : List (TSEntry SubKey)) (k k' : SubKey) :
    heldX (TStore.eraseKey SubKey.same es k) k' = if k'.same k = true then none else heldX es k' := by
  unfold heldX TStore.eraseKey
  induction es with
  | nil => simp
  | cons e t ih =>
    by_cases hek : e.key = k'
    · subst hek
      cases hs : e.key.same k
      · simp [List.filter_cons, hs, List.find?_cons]
      · simp only [List.filter_cons, hs, Bool.not_true, Bool.false_eq_true, if_false, if_true] at ih ⊢
        exact ih
    · have hd : decide (e.key = k') = false := by simp [hek]
      cases hs : e.key.same k
      · simp only [List.filter_cons, hs, Bool.not_false, if_true, List.find?_cons, hd]
        exact ih
      · simp only [List.filter_cons, hs, Bool.not_true, Bool.false_eq_true, if_false, List.find?_cons, hd]
        exact ih

theorem heldX_append_one (es : List (TSEntry SubKey)) (k k' : SubKey) (t : Option Nat) :
    heldX (es ++ [⟨k, t⟩]) k' = match es.find? (fun e => decide (e.key = k')) with
      | some e => e.timer
      | none => if k = k' then t else none := by
  unfold heldX
  rw [List.find?_append]
  cases h : es.find? (fun e => decide (e.key = k')) with
  | some e => simp
  | none =>
    by_cases hk : k = k' <;> simp [List.find?_cons, hk]

theorem heldX_of_findKey {es : List (TSEntry SubKey)} (hnd : NoDupSame es) {k : SubKey} {old : TSEntry SubKey}
    (h : TStore.findKey SubKey.same es k = some old) : heldX es old.key = old.timer := by
  unfold TStore.findKey at h
  have hm := List.mem_of_find?_eq_some h
  unfold heldX
  cases hf : es.find? (fun e => decide (e.key = old.key)) with
  | none =>
    have := List.find?_eq_none.mp hf old hm
    simp at this
  | some e =>
    have he := List.mem_of_find?_eq_some hf
    have hk : e.key = old.key := by simpa using List.find?_some hf
    have : e = old := same_unique hnd he hm (by rw [hk]; exact same_refl _)
    rw [this]; rfl

theorem heldX_none_of_same {es : List (TSEntry SubKey)} (hnd : NoDupSame es) {k k' : SubKey}
    (hs : k.same k' = true) (h : ∀ e ∈ es, e.key.same k = true → e.key ≠ k') : heldX es k' = none := by
  unfold heldX
  cases hf : es.find? (fun e => decide (e.key = k')) with
  | none => rfl
  | some e =>
    have he := List.mem_of_find?_eq_some hf
    have hk : e.key = k' := by simpa using List.find?_some hf
    exact absurd hk (h e he (by rw [hk]; exact same_symm hs))

theorem find_none_of_findKey_none {es : List (TSEntry SubKey)} {k k' : SubKey} (h : TStore.findKey SubKey.same es k = none)
    (hs : k.same k' = true) : es.find? (fun e => decide (e.key = k')) = none := by
  unfold TStore.findKey at h
  simp only [List.find?_eq_none] at h ⊢
  intro e he hk
  simp only [decide_eq_true_eq] at hk
  have := h e he
  rw [hk, same_symm hs] at this
  exact this rfl

/-! ### heldU under updates of one instance's store -/

theorem heldU_of_subs {s s' : Stack} {i : Nat} {st' : TStore SubKey}
    (hsub : ∀ j, subsAt s' j = if j = i then some st' else subsAt s j) (j : Nat) (a : Addr) (k : SubKey) :
    heldU s' j a k = if j = i then heldX (st'.get a) k else heldU s j a k := by
  unfold heldU
  rw [hsub j]
  by_cases h : j = i
  · simp [h]
  · simp [h]

theorem heldU_eq_of_getInst {s : Stack} {i : Nat} {x : Instance} (hx : s.getInst i = some x) (a : Addr) (k : SubKey) :
    heldU s i a k = heldX (x.subs.get a) k := by
  unfold heldU; rw [subsAt_of_getInst hx]

/-! ### the store operations -/

/-- an entry found by `same` is `same` as the key it was searched with -/
theorem findKey_same_key {es : List (TSEntry SubKey)} {k : SubKey} {old : TSEntry SubKey}
    (h : TStore.findKey SubKey.same es k = some old) : old.key.same k = true ∧ old ∈ es := by
  unfold TStore.findKey at h
  exact ⟨by simpa using List.find?_some h, List.mem_of_find?_eq_some h⟩

/-- keys `same` as k other than the stored one hold nothing -/
theorem heldX_same_other {es : List (TSEntry SubKey)} (hnd : NoDupSame es) {k k' : SubKey} {old : TSEntry SubKey}
    (h : TStore.findKey SubKey.same es k = some old) (hs : k'.same k = true) (hne : k' ≠ old.key) : heldX es k' = none := by
  obtain ⟨ho, hom⟩ := findKey_same_key h
  apply heldX_none_of_same hnd (same_symm hs)
  intro e he hek q
  have : e = old := same_unique hnd he hom (by rw [same_congr_left hek]; exact same_symm ho)
  rw [this] at q; exact hne q.symm

/-- `stop` / `_expired`: the entry found for k leaves the store, its handle is gone (cancelled, or it is the one running) -/
theorem subTimer_remove (s s' : Stack) (i : Nat) (x : Instance) (a : Addr) (k : SubKey) (old : TSEntry SubKey)
    (hnd : NoDupSame (x.subs.get a)) (hi : SubTimerInv s) (hx : s.getInst i = some x)
    (hfind : TStore.findKey SubKey.same ((x.subs.touch a).get a) k = some old)
    (hsub : ∀ j, subsAt s' j = if j = i then some ((x.subs.touch a).set a (TStore.eraseKey SubKey.same ((x.subs.touch a).get a) k)) else subsAt s j)
    (hT : ∀ j a' k', ¬ (j = i ∧ a' = a ∧ k' = old.key) → hTU s' j a' k' = hTU s j a' k' ∧ hRU s' j a' k' = hRU s j a' k')
    (hgone : Good none (hTU s' i a old.key) (hRU s' i a old.key)) : SubTimerInv s' := by
  rw [tget_touch] at hfind
  obtain ⟨ho, hom⟩ := findKey_same_key hfind
  intro j a' k'
  rw [heldU_of_subs hsub]
  by_cases h : j = i ∧ a' = a ∧ k' = old.key
  · obtain ⟨rfl, rfl, rfl⟩ := h
    rw [if_pos rfl, tget_set_same, tget_touch, heldX_erase, if_pos ho]
    exact hgone
  · obtain ⟨e1, e2⟩ := hT j a' k' h
    rw [e1, e2]
    by_cases hj : j = i
    · subst hj
      rw [if_pos rfl]
      by_cases ha : a' = a
      · subst ha
        rw [tget_set_same, tget_touch, heldX_erase]
        have hk : k' ≠ old.key := fun q => h ⟨rfl, rfl, q⟩
        by_cases hs : k'.same k = true
        · rw [if_pos hs]
          have := hi j a' k'
          rw [heldU_eq_of_getInst hx, heldX_same_other hnd hfind hs hk] at this
          exact this
        · rw [if_neg hs]
          have := hi j a' k'
          rw [heldU_eq_of_getInst hx] at this
          exact this
      · rw [tget_set_other _ _ _ _ ha, tget_touch]
        have := hi j a' k'
        rw [heldU_eq_of_getInst hx] at this
        exact this
    · rw [if_neg hj]; exact hi j a' k'

/-- `refresh`: whatever was stored for k is replaced by ⟨k, new handle⟩ -/
theorem subTimer_store (s X : Stack) (i : Nat) (x : Instance) (a : Addr) (k : SubKey) (ttl : Nat) (es' : List (TSEntry SubKey))
    (hi : SubTimerInv s) (hx : s.getInst i = some x) (hXi : X.getInst i = some x)
    (hXinst : X.instances = s.instances)
    (hnone : es'.find? (fun e => decide (e.key = k)) = none)
    (hX : ∀ j a' k', ¬ (j = i ∧ a' = a ∧ k' = k) →
      Good (if j = i ∧ a' = a then heldX es' k' else heldU s j a' k') (hTU X j a' k') (hRU X j a' k'))
    (hXk : Good none (hTU X i a k) (hRU X i a k)) :
    SubTimerInv ((X.armTtl ttl (.expiredSub i a k)).1.setInst i
      { x with subs := (x.subs.touch a).set a (es' ++ [⟨k, (X.armTtl ttl (.expiredSub i a k)).2⟩]) }) := by
  have hx' : (X.armTtl ttl (.expiredSub i a k)).1.getInst i = some x := by
    rw [getInst_of_instances (instances_armTtl _ _ _)]; exact hXi
  have hsub : ∀ j, subsAt ((X.armTtl ttl (.expiredSub i a k)).1.setInst i
      { x with subs := (x.subs.touch a).set a (es' ++ [⟨k, (X.armTtl ttl (.expiredSub i a k)).2⟩]) }) j =
      if j = i then some ((x.subs.touch a).set a (es' ++ [⟨k, (X.armTtl ttl (.expiredSub i a k)).2⟩])) else subsAt s j := by
    intro j
    rw [subsAt_setInst _ i j x _ hx', subsAt_of_instances (instances_armTtl _ _ _), subsAt_of_instances hXinst]
  intro j a' k'
  rw [heldU_of_subs hsub]
  show Good _ (hTU (X.armTtl ttl (.expiredSub i a k)).1 j a' k') (hRU (X.armTtl ttl (.expiredSub i a k)).1 j a' k')
  rw [hTU_arm, hRU_arm]
  by_cases h : j = i ∧ a' = a ∧ k' = k
  · obtain ⟨rfl, rfl, rfl⟩ := h
    rw [if_pos rfl, if_pos ⟨rfl, rfl, rfl⟩, tget_set_same, heldX_append_one, hnone]
    simp only [if_true, snd_arm]
    exact good_armed hXk ttl _
  · rw [if_neg h]
    have hg := hX j a' k' h
    by_cases hj : j = i
    · subst hj
      rw [if_pos rfl]
      by_cases ha : a' = a
      · subst ha
        have hk : k' ≠ k := fun q => h ⟨rfl, rfl, q⟩
        rw [tget_set_same, heldX_append_one]
        simp only [true_and, if_true] at hg
        have hkk : ¬ k = k' := fun q => hk q.symm
        cases hf : es'.find? (fun e => decide (e.key = k')) with
        | some e =>
          simp only []
          have : heldX es' k' = e.timer := by unfold heldX; rw [hf]; rfl
          rw [← this]; exact hg
        | none =>
          simp only [hkk, if_false]
          have : heldX es' k' = none := by unfold heldX; rw [hf]; rfl
          rw [← this]; exact hg
      · rw [tget_set_other _ _ _ _ ha, tget_touch]
        have : ¬ (j = j ∧ a' = a) := fun q => ha q.2
        rw [if_neg this, heldU_eq_of_getInst hx] at hg
        exact hg
    · rw [if_neg hj]
      have : ¬ (j = i ∧ a' = a) := fun q => hj q.1
      rw [if_neg this] at hg
      exact hg

end Stack
end Someip
