/-
  C10: liveness bookkeeping of the offer tasks.  `OQ`: an offer task that is neither finished nor suspended on a sleep has a
  step callback in the ready queue, and a cancelled task that has not finished is not suspended - so at an idle loop no
  cancelled offer task is left: every cancellation handler has run.
-/
import SomeipModel.Lemmas.OQFrame
import SomeipModel.Lemmas.OLSteps
namespace Someip
namespace Stack
set_option linter.unusedSimpArgs false
set_option linter.unusedVariables false

/-- the invariant for all offer tasks but (possibly) one: the task whose step callback has just been taken off the queue -/
structure OQx (s : Stack) (skip : Option Tid) : Prop where
  live : ∀ i n t, some (TaskKind.offer i, n) ≠ skip → otask s i n = some t → t.pc ≠ .done → t.waiting = false →
          ∃ x ∈ s.loop.ready, x.cb = .taskStep (.offer i, n)
  canc : ∀ i n t, otask s i n = some t → t.pc ≠ .done → t.cancelled = true → t.waiting = false

abbrev OQ (s : Stack) : Prop := OQx s none

theorem isOS_offer (i n : Nat) : isOStep (.taskStep (.offer i, n)) = true := rfl

theorem otasks_of_oqi {s s' : Stack} (h : oqi s' = oqi s) : otasks s' = otasks s := congrArg (fun p => p.2) h
theorem mem_ready_of_oqi {s s' : Stack} (h : oqi s' = oqi s) (x : RItem Cb) (hx : x ∈ s.loop.ready) (hc : isOStep x.cb = true) :
    x ∈ s'.loop.ready := by
  have e : s'.loop.ready.filter (fun r => isOStep r.cb) = s.loop.ready.filter (fun r => isOStep r.cb) := congrArg (fun p => p.1) h
  have : x ∈ s.loop.ready.filter (fun r => isOStep r.cb) := List.mem_filter.mpr ⟨hx, hc⟩
  rw [← e] at this; exact (List.mem_filter.mp this).1

theorem oqx_of_oqi {s s' : Stack} {k : Option Tid} (h : oqi s' = oqi s) (hi : OQx s k) : OQx s' k := by
  have e := otasks_of_oqi h
  refine ⟨?_, ?_⟩
  · intro i n t hk ht hpc hw
    have ht' : otask s i n = some t := by unfold otask at ht ⊢; rw [← e]; exact ht
    obtain ⟨x, hx, hcb⟩ := hi.live i n t hk ht' hpc hw
    exact ⟨x, mem_ready_of_oqi h x hx (by rw [hcb]; rfl), hcb⟩
  · intro i n t ht
    have ht' : otask s i n = some t := by unfold otask at ht ⊢; rw [← e]; exact ht
    exact hi.canc i n t ht'

theorem oqx_weaken {s : Stack} {k : Option Tid} (hi : OQ s) : OQx s k :=
  ⟨fun i n t _ => hi.live i n t (by simp), hi.canc⟩

/-- the record of offer task (i, n) is rewritten; the ready queue only grows -/
theorem oqx_update {s X : Stack} {k : Option Tid} (hi : OQx s k) (i n : Nat) (t'' : TaskSt)
    (hskip : ∀ tid, k = some tid → tid = (.offer i, n))
    (hX : otasks X = setT (otasks s) (.offer i, n) t'')
    (hready : ∀ x ∈ s.loop.ready, isOStep x.cb = true → x ∈ X.loop.ready)
    (hnew : t''.pc ≠ .done → t''.waiting = false → ∃ x ∈ X.loop.ready, x.cb = .taskStep (.offer i, n))
    (hcanc : t''.pc ≠ .done → t''.cancelled = true → t''.waiting = false) : OQ X := by
  have hot : ∀ j m, otask X j m = if (TaskKind.offer j, m) = (TaskKind.offer i, n) then (otask s i n).map (fun _ => t'') else otask s j m := by
    intro j m
    unfold otask; rw [hX, alookup_setT]
  refine ⟨?_, ?_⟩
  · intro j m t _ ht hpc hw
    rw [hot] at ht
    by_cases hk : (TaskKind.offer j, m) = (TaskKind.offer i, n)
    · rw [if_pos hk] at ht
      have hj : j = i := by simpa using (Prod.mk.inj hk).1
      have hm : m = n := (Prod.mk.inj hk).2
      subst hj; subst hm
      cases ho : otask s j m with
      | none => rw [ho] at ht; cases ht
      | some t0 => rw [ho] at ht; cases ht; exact hnew hpc hw
    · rw [if_neg hk] at ht
      by_cases hsk : some (TaskKind.offer j, m) = k
      · exact absurd (hskip _ hsk.symm) hk
      · obtain ⟨x, hx, hcb⟩ := hi.live j m t hsk ht hpc hw
        exact ⟨x, hready x hx (by rw [hcb]; rfl), hcb⟩
  · intro j m t ht hpc hc
    rw [hot] at ht
    by_cases hk : (TaskKind.offer j, m) = (TaskKind.offer i, n)
    · rw [if_pos hk] at ht
      cases ho : otask s i n with
      | none => rw [ho] at ht; cases ht
      | some t0 => rw [ho] at ht; cases ht; exact hcanc hpc hc
    · rw [if_neg hk] at ht; exact hi.canc j m t ht hpc hc

theorem oqx_none_of_skip {s : Stack} {i n : Nat} (hi : OQx s (some (.offer i, n)))
    (h : ∀ t, otask s i n = some t → t.pc = .done ∨ t.waiting = true ∨ ∃ x ∈ s.loop.ready, x.cb = .taskStep (.offer i, n)) : OQ s := by
  refine ⟨?_, hi.canc⟩
  intro j m t _ ht hpc hw
  by_cases hk : some (TaskKind.offer j, m) = some (TaskKind.offer i, n)
  · have hk' := Option.some.inj hk
    have hj : j = i := by simpa using (Prod.mk.inj hk').1
    have hm : m = n := (Prod.mk.inj hk').2
    subst hj; subst hm
    rcases h t ht with h1 | h1 | h1
    · exact absurd h1 hpc
    · rw [hw] at h1; cases h1
    · exact h1
  · exact hi.live j m t hk ht hpc hw

theorem otasks_setTask' (X : Stack) (i n : Nat) (t : TaskSt) : otasks (X.setTask (.offer i, n) t) = setT (otasks X) (.offer i, n) t :=
  otasks_setTask X i n t

theorem oq_sleepFor {s : Stack} {k : Option Tid} (hi : OQx s k) (i n : Nat) (hskip : ∀ tid, k = some tid → tid = (.offer i, n))
    (t' : TaskSt) (d : Nat) (pc : Pc) (hc : t'.cancelled = false) : OQ (s.sleepFor (.offer i, n) t' d pc) := by
  unfold sleepFor
  split
  · refine oqx_update hi i n { t' with pc, waiting := false, sleep := none } hskip
      (show otasks _ = _ from otasks_setTask' s i n _) ?_ ?_ ?_
    · intro x hx _; show x ∈ s.loop.ready ++ [_]; exact List.mem_append_left _ hx
    · intro _ _; exact ⟨⟨none, .taskStep (.offer i, n)⟩, List.mem_append_right _ (List.mem_singleton.mpr rfl), rfl⟩
    · intro _ _; rfl
  · simp only []
    refine oqx_update hi i n { t' with pc, waiting := true, sleep := some (s.callLater d (.sleepDone (.offer i, n))).2 } hskip
      (show otasks _ = _ from otasks_setTask' (s.callLater d (.sleepDone (.offer i, n))).1 i n _) ?_ ?_ ?_
    · intro x hx _; exact hx
    · intro _ h; cases h
    · intro _ h; rw [hc] at h; cases h

theorem oq_finish {s : Stack} {k : Option Tid} (hi : OQx s k) (i n : Nat) (hskip : ∀ tid, k = some tid → tid = (.offer i, n))
    (t' : TaskSt) : OQ (s.finish (.offer i, n) t') := by
  unfold finish
  refine oqx_update hi i n _ hskip (show otasks _ = _ from otasks_setTask' s i n _) ?_ ?_ ?_
  · intro x hx _; exact hx
  · intro h; exact absurd rfl h
  · intro h; exact absurd rfl h

theorem oq_sleepDone (s : Stack) (i n : Nat) (hi : OQ s) : OQ (s.sleepDone (.offer i, n)) := by
  unfold sleepDone
  split
  · exact hi
  · rename_i t ht
    split
    · refine oqx_update hi i n { t with waiting := false, sleep := none } (fun _ h => by cases h)
        (show otasks _ = _ from otasks_setTask' s i n _) ?_ ?_ ?_
      · intro x hx _; show x ∈ s.loop.ready ++ [_]; exact List.mem_append_left _ hx
      · intro _ _; exact ⟨⟨none, .taskStep (.offer i, n)⟩, List.mem_append_right _ (List.mem_singleton.mpr rfl), rfl⟩
      · intro _ _; rfl
    · exact hi

theorem oq_cancelTask (s : Stack) (i n : Nat) (hi : OQ s) : OQ (s.cancelTask (.offer i, n)) := by
  unfold cancelTask
  split
  · exact hi
  · rename_i t ht
    rw [getTask_offer] at ht
    split
    · exact hi
    · rename_i hnd
      split
      · refine oqx_update hi i n { t with waiting := false, cancelled := true } (fun _ h => by cases h)
          (show otasks _ = _ from otasks_setTask' s i n _) ?_ ?_ ?_
        · intro x hx _; show x ∈ s.loop.ready ++ [_]; exact List.mem_append_left _ hx
        · intro _ _; exact ⟨⟨none, .taskStep (.offer i, n)⟩, List.mem_append_right _ (List.mem_singleton.mpr rfl), rfl⟩
        · intro _ _; rfl
      · rename_i hw
        have hw' : t.waiting = false := by simpa using hw
        refine oqx_update hi i n { t with cancelled := true } (fun _ h => by cases h)
          (show otasks _ = _ from otasks_setTask' s i n _) ?_ ?_ ?_
        · intro x hx _; exact hx
        · intro _ _; exact hi.live i n t (by simp) ht hnd hw'
        · intro _ _; exact hw'

theorem oq_createTask_offer (s : Stack) (i : Nat) (hi : OQ s) : OQ (s.createTask (.offer i)).1 := by
  have hcnt : s.taskCount (.offer i) = ocount (otasks s) i := ocount_eq_taskCount s i
  have e : otasks (s.createTask (.offer i)).1 = otasks s ++ [((.offer i, s.taskCount (.offer i)), ({} : TaskSt))] := by
    simp [otasks, createTask, callSoon, List.filter_append, isOfferT, isOfferK]
  have hr : (s.createTask (.offer i)).1.loop.ready = s.loop.ready ++ [⟨none, .taskStep (.offer i, s.taskCount (.offer i))⟩] := rfl
  refine ⟨?_, ?_⟩
  · intro j m t _ ht hpc hw
    unfold otask at ht; rw [e, alookup_append] at ht
    rw [hr]
    cases ho : alookup (otasks s) (TaskKind.offer j, m) with
    | some t0 =>
      rw [ho] at ht; cases ht
      obtain ⟨x, hx, hcb⟩ := hi.live j m t (by simp) ho hpc hw
      exact ⟨x, List.mem_append_left _ hx, hcb⟩
    | none =>
      rw [ho] at ht
      simp only [alookup, List.find?_cons, List.find?_nil] at ht
      split at ht
      · rename_i hk
        have hk' : (TaskKind.offer i, s.taskCount (TaskKind.offer i)) = (TaskKind.offer j, m) := by simpa using hk
        exact ⟨⟨none, .taskStep (.offer j, m)⟩, List.mem_append_right _ (List.mem_singleton.mpr (by rw [hk'])), rfl⟩
      · cases ht
  · intro j m t ht hpc hc
    unfold otask at ht; rw [e, alookup_append] at ht
    cases ho : alookup (otasks s) (TaskKind.offer j, m) with
    | some t0 => rw [ho] at ht; cases ht; exact hi.canc j m t ho hpc hc
    | none =>
      rw [ho] at ht
      simp only [alookup, List.find?_cons, List.find?_nil] at ht
      split at ht
      · cases ht; cases hc
      · cases ht

theorem oq_frame {s s' : Stack} (h : oqi s' = oqi s) (hi : OQ s) : OQ s' := oqx_of_oqi h hi

theorem oqi_setInst' (s : Stack) (i : Nat) (x : Instance) : oqi (s.setInst i x) = oqi s := rfl

theorem oq_instStart (s : Stack) (i : Nat) (hi : OQ s) : OQ (s.instStart i) := by
  unfold instStart
  split
  · exact hi
  · split
    · exact oq_frame (oqi_emit _ _) hi
    · simp only []
      split
      · apply oq_frame (oqi_setInst' _ _ _)
        apply oq_createTask_offer
        exact oq_frame (s := s) rfl hi
      · apply oq_createTask_offer
        exact oq_frame (s := s) rfl hi

theorem oq_instStop (s : Stack) (i : Nat) (hi : OQ s) : OQ (s.instStop i) := by
  unfold instStop
  split
  · exact hi
  · split
    · exact oq_frame (oqi_emit _ _) hi
    · rename_i n _
      simp only []
      apply oq_frame (oqi_subsStopAll _ _)
      have h0 : OQ ((s.logOffer i .stop).cancelTask (.offer i, n)) := oq_cancelTask _ i n (oq_frame (s := s) rfl hi)
      split
      · apply oq_frame (oqi_sendOffer _ _ _ _)
        exact oq_frame (oqi_setInst' _ _ _) h0
      · exact oq_frame (oqi_setInst' _ _ _) h0

/-- one step of the offer coroutine, whose callback has just been taken off the queue -/
theorem oq_stepOffer (s : Stack) (i n : Nat) (t' : TaskSt) (hi : OQx s (some (.offer i, n))) (hnd : t'.pc ≠ .done) :
    OQ (s.stepOffer (.offer i, n) t' i) := by
  have hskip : ∀ tid, some (TaskKind.offer i, n) = some tid → tid = (.offer i, n) := fun tid h => (Option.some.inj h).symm
  have hs : ∀ (X : Stack) (d : Nat) (pc : Pc), oqi X = oqi s → t'.cancelled = false → OQ (X.sleepFor (.offer i, n) t' d pc) :=
    fun X d pc hX hc => oq_sleepFor (oqx_of_oqi hX hi) i n hskip t' d pc hc
  have hf : ∀ (X : Stack), oqi X = oqi s → OQ (X.finish (.offer i, n) t') :=
    fun X hX => oq_finish (oqx_of_oqi hX hi) i n hskip t'
  have hX1 : oqi (match s.getInst i with | some x => s.setInst i { x with canAnswer := false } | none => s) = oqi s := by split <;> rfl
  have hcancel : OQ ((if (match s.getInst i with | some x => s.setInst i { x with canAnswer := false } | none => s).tm.cyclicOfferDelay ≠ 0
      then (match s.getInst i with | some x => s.setInst i { x with canAnswer := false } | none => s).sendOffer i none true
      else (match s.getInst i with | some x => s.setInst i { x with canAnswer := false } | none => s)).finish (.offer i, n) t') := by
    apply hf
    generalize (match s.getInst i with | some x => s.setInst i { x with canAnswer := false } | none => s) = X at hX1
    split
    · exact (oqi_sendOffer _ _ _ _).trans hX1
    · exact hX1
  have hafter : ∀ (X : Stack) (k : Nat), oqi X = oqi s → t'.cancelled = false →
      OQ (if k < X.tm.repetitionsMax then X.sleepFor (.offer i, n) t' (pow2 k * X.tm.repetitionsBaseDelay) (.rep k)
          else if X.tm.cyclicOfferDelay = 0 then X.finish (.offer i, n) t' else X.sleepFor (.offer i, n) t' X.tm.cyclicOfferDelay .cyclic) := by
    intro X k hX hc
    split
    · exact hs X _ _ hX hc
    · split
      · exact hf X hX
      · exact hs X _ _ hX hc
  unfold stepOffer
  simp only []
  split
  · split
    · exact hf s rfl
    · rename_i hcc
      exact hs _ _ _ (oqi_draw _ _ _) (by simpa using hcc)
  · split
    · exact hf s rfl
    · rename_i hcc
      have hY : oqi (match (s.sendOffer i none false).getInst i with
          | some x => (s.sendOffer i none false).setInst i { x with canAnswer := true }
          | none => s.sendOffer i none false) = oqi s := by
        split
        · exact (oqi_setInst' _ _ _).trans (oqi_sendOffer _ _ _ _)
        · exact oqi_sendOffer _ _ _ _
      exact hafter _ 0 hY (by simpa using hcc)
  · split
    · exact hcancel
    · rename_i hcc
      exact hafter _ _ (oqi_sendOffer _ _ _ _) (by simpa using hcc)
  · split
    · exact hcancel
    · rename_i hcc
      exact hs _ _ _ (oqi_sendOffer _ _ _ _) (by simpa using hcc)
  · -- not reached: a finished task's step is a no-op in `runCb`
    rename_i hd; exact absurd hd hnd

end Stack
end Someip
