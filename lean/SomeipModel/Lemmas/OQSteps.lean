/-
  C10: the liveness bookkeeping `OQ` of the offer tasks through inputs, callbacks and loop steps.
-/
import SomeipModel.Lemmas.OQInv
namespace Someip
namespace Stack
set_option linter.unusedSimpArgs false
set_option linter.unusedVariables false

@[simp] theorem oqi_sdMessageReceived (s : Stack) (m : SDHeader) (a : Addr) (mc : Bool) :
    oqi (s.sdMessageReceived m a mc) = oqi s := by
  unfold sdMessageReceived; split; rfl
  rw [foldl_pres oqi _ (fun s e => by frame_cases)]

@[simp] theorem oqi_messageReceived (s : Stack) (h : Header) (a : Addr) (mc : Bool) : oqi (s.messageReceived h a mc) = oqi s := by
  unfold messageReceived
  split; rfl
  split; rfl
  simp only []
  split
  · split <;> simp <;> rfl
  · split <;> simp <;> rfl

@[simp] theorem oqi_datagramReceived (s : Stack) (b : Bytes) (a : Addr) (mc : Bool) : oqi (s.datagramReceived b a mc) = oqi s := by
  unfold datagramReceived; rw [foldl_pres oqi _ (fun s h => by simp)]

theorem oq_foldl {α : Type} (f : Stack → α → Stack) (h : ∀ s a, OQ s → OQ (f s a)) (l : List α) (s : Stack)
    (hi : OQ s) : OQ (l.foldl f s) := by
  induction l generalizing s with
  | nil => exact hi
  | cons a t ih => rw [List.foldl_cons]; exact ih _ (h s a hi)

theorem oq_announcerStart (s : Stack) (hi : OQ s) : OQ s.announcerStart := by
  unfold announcerStart; simp only []
  exact oq_frame (oqi_with_started _ _) (oq_foldl _ (fun s i h => oq_instStart s i h) _ _ hi)

theorem oq_announcerStop (s : Stack) (hi : OQ s) : OQ s.announcerStop := by
  unfold announcerStop
  split
  · exact hi
  · show OQ { (List.foldl (fun s i => s.instStop i) s s.announceOrder) with started := false }
    exact oq_frame (oqi_with_started _ _) (oq_foldl _ (fun s i h => oq_instStop s i h) _ _ hi)

theorem oq_announceService (s : Stack) (i : Nat) (hi : OQ s) : OQ (s.announceService i) := by
  unfold announceService; simp only []
  apply oq_frame (oqi_with_announceOrder _ _)
  split
  · exact oq_instStart s i hi
  · exact hi

theorem oq_stopAnnounceService (s : Stack) (i : Nat) (b : Bool) (hi : OQ s) : OQ (s.stopAnnounceService i b) := by
  unfold stopAnnounceService
  split
  · exact oq_frame (oqi_emit _ _) hi
  · simp only []
    split
    · exact oq_instStop _ _ (oq_frame (oqi_with_announceOrder _ _) hi)
    · exact oq_frame (oqi_with_announceOrder _ _) hi

theorem oq_applyInput (s : Stack) (x : Input) (hi : OQ s) : OQ (s.applyInput x) := by
  cases x with
  | dgram a mc b => exact oq_frame (oqi_datagramReceived s b a mc) hi
  | start =>
    show OQ (((s.subscriberStart).announcerStart).discoveryStart)
    exact oq_frame (oqi_discoveryStart _) (oq_announcerStart _ (oq_frame (oqi_subscriberStart _) hi))
  | stop =>
    show OQ (((s.discoveryStop).announcerStop).subscriberStop true)
    exact oq_frame (oqi_subscriberStop _ _) (oq_announcerStop _ (oq_frame (oqi_discoveryStop _) hi))
  | connLost => exact oq_frame (oqi_connectionLost s) hi
  | watch f l => exact oq_frame (oqi_watchService s f l) hi
  | unwatch f l => exact oq_frame (oqi_stopWatchService s f l) hi
  | watchAll id => exact oq_frame (oqi_watchAllServices s id) hi
  | unwatchAll id => exact oq_frame (oqi_stopWatchAllServices s id) hi
  | subscribe g d => exact oq_frame (oqi_subscribeEventgroup s g d) hi
  | stopSubscribe g d => exact oq_frame (oqi_stopSubscribeEventgroup s g d true) hi
  | announce i => exact oq_announceService s i hi
  | stopAnnounce i b => exact oq_stopAnnounceService s i b hi
  | setNak i egs =>
    simp only [applyInput]
    split
    · exact oq_frame (oqi_setInst s i _) hi
    · exact hi
  | draws ds => exact oq_frame (s := s) (s' := { s with draws := s.draws ++ ds }) rfl hi
  | announcerStop => exact oq_announcerStop s hi
  | announcerStart => exact oq_announcerStart s hi

theorem oqi_pop_other (s : Stack) (q : Option Nat) (cb : Cb) (rest : List (RItem Cb)) (hr : s.loop.ready = ⟨q, cb⟩ :: rest)
    (hcb : isOStep cb = false) : oqi ({ s with loop := { s.loop with ready := rest } } : Stack) = oqi s := by
  simp [oqi, hr, List.filter_cons, hcb]

/-- the step callback of offer task (i, n) is taken off the queue: every other task keeps its witness -/
theorem oqx_pop_step (s : Stack) (q : Option Nat) (i n : Nat) (rest : List (RItem Cb)) (hr : s.loop.ready = ⟨q, .taskStep (.offer i, n)⟩ :: rest)
    (hi : OQ s) : OQx ({ s with loop := { s.loop with ready := rest } } : Stack) (some (.offer i, n)) := by
  refine ⟨?_, hi.canc⟩
  intro j m t hk ht hpc hw
  obtain ⟨x, hx, hcb⟩ := hi.live j m t (by simp) ht hpc hw
  rw [hr] at hx
  rcases List.mem_cons.mp hx with rfl | hx
  · simp at hcb
    exact absurd (by rw [hcb.1, hcb.2]) hk
  · exact ⟨x, hx, hcb⟩

theorem oq_step (s s' : Stack) (e : Event) (h : s.step e = some s') (hi : OQ s) : OQ s' := by
  cases e with
  | input x => simp only [step, Option.some.injEq] at h; subst h; exact oq_applyInput s x hi
  | run =>
    simp only [step, Loop.pop] at h
    cases hr : s.loop.ready with
    | nil => rw [hr] at h; cases h
    | cons r0 rest =>
      rw [hr] at h
      simp only [Option.some.injEq] at h
      subst h
      obtain ⟨q, cb⟩ := r0
      have hother : isOStep cb = false → OQ ({ s with loop := { s.loop with ready := rest } } : Stack) :=
        fun hcb => oq_frame (oqi_pop_other s q cb rest hr hcb) hi
      cases cb with
      | connLost p =>
        cases p with
        | subscriber => exact oq_frame (oqi_subscriberStop _ false) (hother rfl)
        | discovery => exact oq_frame (oqi_foundStopAll _) (hother rfl)
        | announcer => exact oq_announcerStop _ (hother rfl)
      | expiredSvc a k => exact oq_frame (oqi_expiredSvc _ a k) (hother rfl)
      | expiredSub i a k => exact oq_frame (oqi_expiredSub _ i a k) (hother rfl)
      | sendStartSubscribe d egs => exact oq_frame (oqi_sendSubscribe _ _ d egs) (hother rfl)
      | sendStopSubscribe d egs => exact oq_frame (oqi_sendSubscribe _ _ d egs) (hother rfl)
      | sendOfferTo i a => exact oq_frame (oqi_sendOffer _ i _ _) (hother rfl)
      | collectorTimeout cid => exact oq_frame (oqi_collectorTimeout _ cid) (hother rfl)
      | sleepDone tid =>
        obtain ⟨k, m⟩ := tid
        cases k with
        | offer i => exact oq_sleepDone _ i m (hother rfl)
        | find => exact oq_frame (oqi_sleepDone _ _ rfl) (hother rfl)
        | subscribe => exact oq_frame (oqi_sleepDone _ _ rfl) (hother rfl)
      | taskStep tid =>
        obtain ⟨k, m⟩ := tid
        cases k with
        | find =>
          have h0 := hother rfl
          simp only [runCb]
          split
          · exact h0
          · split
            · exact h0
            · exact oq_frame ((oqi_stepFind _ _ _ rfl).trans (oqi_cancelTimer_sleep _ _ _)) h0
        | subscribe =>
          have h0 := hother rfl
          simp only [runCb]
          split
          · exact h0
          · split
            · exact h0
            · exact oq_frame ((oqi_stepSubscribe _ _ _ rfl).trans (oqi_cancelTimer_sleep _ _ _)) h0
        | offer i =>
          have hx := oqx_pop_step s q i m rest hr hi
          generalize ({ s with loop := { s.loop with ready := rest } } : Stack) = s0 at hx
          simp only [runCb]
          rw [getTask_offer]
          cases ht : otask s0 i m with
          | none =>
            simp only []
            exact oqx_none_of_skip hx (fun t h => by rw [ht] at h; cases h)
          | some t =>
            simp only []
            split
            · rename_i hd
              exact oqx_none_of_skip hx (fun t' h => by rw [ht] at h; cases h; exact Or.inl hd)
            · rename_i hnd
              exact oq_stepOffer _ i m _ (oqx_of_oqi (oqi_cancelTimer_sleep _ _ _) hx) hnd
  | fire q =>
    simp only [step] at h
    cases hf : s.loop.fire q with
    | none => rw [hf] at h; cases h
    | some l =>
      rw [hf] at h; simp at h; subst h
      unfold Loop.fire at hf
      split at hf
      · cases hf
      · split at hf
        · simp only [Option.some.injEq] at hf; subst hf
          refine ⟨?_, hi.canc⟩
          intro j m t hk ht hpc hw
          obtain ⟨x, hx, hcb⟩ := hi.live j m t hk ht hpc hw
          exact ⟨x, List.mem_append_left _ hx, hcb⟩
        · cases hf
  | adv t =>
    simp only [step] at h
    cases hf : s.loop.adv t with
    | none => rw [hf] at h; cases h
    | some l =>
      rw [hf] at h; simp at h; subst h
      unfold Loop.adv at hf
      split at hf
      · simp only [Option.some.injEq] at hf; subst hf
        exact ⟨hi.live, hi.canc⟩
      · cases hf

end Stack
end Someip
