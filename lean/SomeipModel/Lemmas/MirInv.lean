/-
  C14: the invariant `MI` over the subscriber's view and its preservation by every operation of the subscriber,
  still without Stack (pure list / Boolean reasoning).  `MirSteps.lean` connects it to the model's functions.
-/
import SomeipModel.Lemmas.MirView
namespace Someip
open Stack
set_option linter.unusedSimpArgs false
set_option linter.unusedVariables false

/-- the part of the state the subscription mirror talks about -/
structure MV where
  alive : Bool
  subTask : Option Nat
  se : List Req
  log : List SubMsg
  dup : Bool
  lost : Bool
  ttl : Nat
  rdy : List Cb
  tasks : List (Tid × TaskSt)
  tim : List (Timer Cb)      -- subscriber callbacks among the timers (there are none)

def setT (l : List (Tid × TaskSt)) (k : Tid) (t : TaskSt) : List (Tid × TaskSt) := l.map (fun p => if p.1 = k then (k, t) else p)

namespace MV
def task (v : MV) (n : Nat) : Option TaskSt := alookup v.tasks (.subscribe, n)
/-- what the server at `x.2` will hold of `x.1` once the pending callbacks have run -/
def W (v : MV) (x : Req) : Bool := pend v.ttl x v.rdy (held x v.log)
def isStepOf (n : Nat) : Cb → Bool
  | .taskStep (.subscribe, m) => decide (m = n)
  | _ => false
/-- the pending callbacks behind the first step of subscribe task `n` -/
def afterFirst (n : Nat) : List Cb → List Cb
  | [] => []
  | cb :: r => if isStepOf n cb then r else afterFirst n r
/-- the subscriber was started and the first round of its task `n` is still to come -/
def owed (v : MV) (n : Nat) : Prop := v.subTask = some n ∧ ∃ t, v.task n = some t ∧ t.pc = .created ∧ t.cancelled = false
end MV
open MV

structure MI (v : MV) : Prop where
  ttl : v.ttl ≠ 0
  kind : ∀ p ∈ v.tasks, p.1.1 = .subscribe
  keys : ∀ p ∈ v.tasks, p.1.2 < v.tasks.length
  nd : v.dup = false → v.se.Nodup
  out : ∀ x, x ∉ v.se → v.W x = false
  inA : v.alive = true → v.dup = false → ∀ x ∈ v.se, v.W x = true ∨ ∃ n, v.owed n ∧ pend v.ttl x (afterFirst n v.rdy) true = true
  inD : v.alive = false → v.lost = false → ∀ x ∈ v.se, v.W x = false
  live : ∀ n t, v.task n = some t → t.pc ≠ .done → t.cancelled = false → v.alive = true ∧ v.subTask = some n
  owe : ∀ n, v.owed n → ∃ cb ∈ v.rdy, isStepOf n cb = true
  fresh : ∀ n, (∃ cb ∈ v.rdy, isStepOf n cb = true) → n < v.tasks.length
  notim : v.tim = []

/-! ### helpers -/

@[simp] theorem isStepOf_self (n : Nat) : isStepOf n (.taskStep (.subscribe, n)) = true := by simp [isStepOf]
@[simp] theorem isStepOf_start (n : Nat) (d : Addr) (e : List Eventgroup) : isStepOf n (.sendStartSubscribe d e) = false := rfl
@[simp] theorem isStepOf_stop (n : Nat) (d : Addr) (e : List Eventgroup) : isStepOf n (.sendStopSubscribe d e) = false := rfl
theorem isStepOf_eq {n : Nat} {cb : Cb} (h : isStepOf n cb = true) : cb = .taskStep (.subscribe, n) := by
  cases cb with
  | taskStep t =>
    obtain ⟨k, m⟩ := t
    cases k <;> simp_all [isStepOf]
  | _ => simp [isStepOf] at h
theorem isStepOf_step {n m : Nat} : isStepOf n (.taskStep (.subscribe, m)) = decide (m = n) := rfl
@[simp] theorem pendOp_step (ttl : Nat) (x : Req) (b : Bool) (t : Tid) : pendOp ttl x b (.taskStep t) = b := rfl
theorem pendOp_of_isStepOf {ttl : Nat} {x : Req} {b : Bool} {n : Nat} {cb : Cb} (h : isStepOf n cb = true) : pendOp ttl x b cb = b := by
  rw [isStepOf_eq h]; rfl

theorem afterFirst_cons_other {n : Nat} {cb : Cb} (r : List Cb) (h : isStepOf n cb = false) : afterFirst n (cb :: r) = afterFirst n r := by
  simp [afterFirst, h]
theorem afterFirst_cons_self {n : Nat} {cb : Cb} (r : List Cb) (h : isStepOf n cb = true) : afterFirst n (cb :: r) = r := by
  simp [afterFirst, h]
theorem afterFirst_append_mem (n : Nat) (l l' : List Cb) (h : ∃ cb ∈ l, isStepOf n cb = true) :
    afterFirst n (l ++ l') = afterFirst n l ++ l' := by
  induction l with
  | nil => obtain ⟨cb, hcb, _⟩ := h; cases hcb
  | cons c r ih =>
    cases hc : isStepOf n c
    · rw [List.cons_append, afterFirst_cons_other _ hc, afterFirst_cons_other _ hc]
      apply ih
      obtain ⟨cb, hcb, h1⟩ := h
      rcases List.mem_cons.mp hcb with rfl | hcb
      · rw [hc] at h1; cases h1
      · exact ⟨cb, hcb, h1⟩
    · rw [List.cons_append, afterFirst_cons_self _ hc, afterFirst_cons_self _ hc]
theorem afterFirst_append_fresh (n : Nat) (l : List Cb) (h : ∀ cb ∈ l, isStepOf n cb = false) :
    afterFirst n (l ++ [.taskStep (.subscribe, n)]) = [] := by
  induction l with
  | nil => simp [afterFirst]
  | cons c r ih =>
    rw [List.cons_append, afterFirst_cons_other _ (h c List.mem_cons_self)]
    exact ih (fun cb hcb => h cb (List.mem_cons_of_mem _ hcb))

theorem alookup_mem {κ ν} [DecidableEq κ] {l : List (κ × ν)} {k : κ} {v : ν} (h : alookup l k = some v) : (k, v) ∈ l := by
  unfold alookup at h
  simp only [Option.map_eq_some_iff] at h
  obtain ⟨p, hp, rfl⟩ := h
  have h1 := List.find?_some hp
  have h2 := List.mem_of_find?_eq_some hp
  simp only [decide_eq_true_eq] at h1
  rw [← h1]; exact h2
theorem alookup_none {κ ν} [DecidableEq κ] {l : List (κ × ν)} {k : κ} (h : ∀ p ∈ l, p.1 ≠ k) : alookup l k = none := by
  unfold alookup
  simp only [Option.map_eq_none_iff, List.find?_eq_none, decide_eq_true_eq]
  exact h
theorem alookup_append {κ ν} [DecidableEq κ] (l l' : List (κ × ν)) (k : κ) :
    alookup (l ++ l') k = match alookup l k with | some v => some v | none => alookup l' k := by
  unfold alookup
  rw [List.find?_append]
  cases h : l.find? (fun p => decide (p.1 = k)) <;> simp
theorem alookup_setT (l : List (Tid × TaskSt)) (k k' : Tid) (t : TaskSt) :
    alookup (setT l k t) k' = if k' = k then (alookup l k).map (fun _ => t) else alookup l k' := by
  unfold alookup setT
  induction l with
  | nil => simp
  | cons p r ih =>
    simp only [List.map_cons, List.find?_cons]
    by_cases hp : p.1 = k
    · simp only [hp, if_true]
      by_cases hk : k' = k
      · subst hk; simp
      · have : ¬ (k = k') := fun e => hk e.symm
        simp only [this, decide_false, hk, if_false] 
        simp only [hk, if_false] at ih
        exact ih
    · simp only [hp, if_false]
      by_cases hk : k' = k
      · subst hk
        simp only [hp, decide_false, if_true]
        simp only [if_true] at ih
        exact ih
      · simp only [hk, if_false] at ih ⊢
        by_cases hpk : p.1 = k'
        · simp [hpk]
        · simp only [hpk, decide_false]
          exact ih
@[simp] theorem length_setT (l : List (Tid × TaskSt)) (k : Tid) (t : TaskSt) : (setT l k t).length = l.length := by simp [setT]
theorem mem_setT {l : List (Tid × TaskSt)} {k : Tid} {t : TaskSt} {p : Tid × TaskSt} (h : p ∈ setT l k t) : ∃ q ∈ l, q.1 = p.1 := by
  simp only [setT, List.mem_map] at h
  obtain ⟨q, hq, rfl⟩ := h
  refine ⟨q, hq, ?_⟩
  split
  · rename_i h1; exact h1
  · rfl

/-! ### requests -/

theorem hit_single (g : Eventgroup) (d : Addr) (y : Req) : (d = y.2 ∧ y.1 ∈ [g]) ↔ y = (g, d) := by
  constructor
  · rintro ⟨h1, h2⟩; simp at h2; exact Prod.ext h2 h1.symm
  · rintro rfl; simp

theorem pend_push (ttl : Nat) (y : Req) (l : List Cb) (cb : Cb) (b : Bool) : pend ttl y (l ++ [cb]) b = pendOp ttl y (pend ttl y l b) cb := by
  rw [pend_append, pend_cons, pend_nil]
theorem afterFirst_push {ttl : Nat} {y : Req} {n : Nat} {l : List Cb} (cb : Cb) (h : ∃ c ∈ l, isStepOf n c = true) :
    pend ttl y (afterFirst n (l ++ [cb])) true = pendOp ttl y (pend ttl y (afterFirst n l) true) cb := by
  rw [afterFirst_append_mem n _ _ h, pend_push]

/-- `subscribe_eventgroup` while the subscriber runs -/
theorem MI.subscribeA {v : MV} (h : MI v) (x : Req) (ha : v.alive = true) :
    MI { v with dup := v.dup || decide (x ∈ v.se), se := v.se ++ [x], rdy := v.rdy ++ [.sendStartSubscribe x.2 [x.1]] } := by
  have hop1 : ∀ b, pendOp v.ttl x b (.sendStartSubscribe x.2 [x.1]) = true := by
    intro b; simp [pendOp, heldStep, h.ttl]
  have hop2 : ∀ y b, y ≠ x → pendOp v.ttl y b (.sendStartSubscribe x.2 [x.1]) = b := by
    intro y b hy
    simp only [pendOp, heldStep]
    rw [if_neg]; rw [hit_single]; exact hy
  refine ⟨h.ttl, h.kind, h.keys, ?_, ?_, ?_, ?_, h.live, ?_, ?_, h.notim⟩
  · intro hd
    simp only [Bool.or_eq_false_iff, decide_eq_false_iff_not] at hd
    show (v.se ++ [x]).Nodup
    rw [List.nodup_append]
    refine ⟨h.nd hd.1, by simp, ?_⟩
    intro a ha b hb e; simp at hb; subst hb; subst e; exact hd.2 ha
  · intro y hy
    have hy' : y ∉ v.se ∧ y ≠ x := by
      constructor
      · exact fun e => hy (List.mem_append_left _ e)
      · rintro rfl; exact hy (by simp)
    show pend v.ttl y (v.rdy ++ [.sendStartSubscribe x.2 [x.1]]) (held y v.log) = false
    rw [pend_push, hop2 _ _ hy'.2]; exact h.out y hy'.1
  · intro _ hd y hy
    simp only [Bool.or_eq_false_iff, decide_eq_false_iff_not] at hd
    by_cases hyx : y = x
    · left; subst hyx
      show pend v.ttl y (v.rdy ++ [.sendStartSubscribe y.2 [y.1]]) (held y v.log) = true
      rw [pend_push, hop1]
    · have hyse : y ∈ v.se := by
        rcases List.mem_append.mp hy with h1 | h1
        · exact h1
        · simp at h1; exact absurd h1 hyx
      rcases h.inA ha hd.1 y hyse with h1 | ⟨n, ho, h2⟩
      · left
        show pend v.ttl y (v.rdy ++ [.sendStartSubscribe x.2 [x.1]]) (held y v.log) = true
        rw [pend_push, hop2 _ _ hyx]; exact h1
      · right; refine ⟨n, ho, ?_⟩
        show pend v.ttl y (afterFirst n (v.rdy ++ [.sendStartSubscribe x.2 [x.1]])) true = true
        rw [afterFirst_push _ (h.owe n ho), hop2 _ _ hyx]; exact h2
  · intro ha'; exact absurd (ha.symm.trans ha') (by simp)
  · intro n ho
    obtain ⟨cb, hcb, h1⟩ := h.owe n ho
    exact ⟨cb, List.mem_append_left _ hcb, h1⟩
  · rintro n ⟨cb, hcb, h1⟩
    rcases List.mem_append.mp hcb with hcb | hcb
    · exact h.fresh n ⟨cb, hcb, h1⟩
    · simp at hcb; subst hcb; simp at h1

/-- `subscribe_eventgroup` while the subscriber is stopped: recorded only -/
theorem MI.subscribeD {v : MV} (h : MI v) (x : Req) (ha : v.alive = false) :
    MI { v with dup := v.dup || decide (x ∈ v.se), se := v.se ++ [x] } := by
  refine ⟨h.ttl, h.kind, h.keys, ?_, ?_, ?_, ?_, h.live, h.owe, h.fresh, h.notim⟩
  · intro hd
    simp only [Bool.or_eq_false_iff, decide_eq_false_iff_not] at hd
    show (v.se ++ [x]).Nodup
    rw [List.nodup_append]
    refine ⟨h.nd hd.1, by simp, ?_⟩
    intro a ha b hb e; simp at hb; subst hb; subst e; exact hd.2 ha
  · intro y hy
    exact h.out y (fun e => hy (List.mem_append_left _ e))
  · intro ha'; exact absurd (ha'.symm.trans ha) (by simp)
  · intro _ hl y hy
    by_cases hyse : y ∈ v.se
    · exact h.inD ha hl y hyse
    · exact h.out y hyse

/-- `stop_subscribe_eventgroup` for a requested pair -/
theorem MI.unsubscribe {v : MV} (h : MI v) (x : Req) (hx : x ∈ v.se) :
    MI { v with se := v.se.erase x, rdy := v.rdy ++ [.sendStopSubscribe x.2 [x.1]] } := by
  have hop1 : ∀ b, pendOp v.ttl x b (.sendStopSubscribe x.2 [x.1]) = false := by
    intro b; simp [pendOp, heldStep]
  have hop2 : ∀ y b, y ≠ x → pendOp v.ttl y b (.sendStopSubscribe x.2 [x.1]) = b := by
    intro y b hy
    simp only [pendOp, heldStep]
    rw [if_neg]; rw [hit_single]; exact hy
  have hop3 : ∀ y, pendOp v.ttl y false (.sendStopSubscribe x.2 [x.1]) = false := by
    intro y; simp only [pendOp, heldStep]; split <;> simp
  refine ⟨h.ttl, h.kind, h.keys, ?_, ?_, ?_, ?_, h.live, ?_, ?_, h.notim⟩
  · intro hd; exact (h.nd hd).erase x
  · intro y hy
    show pend v.ttl y (v.rdy ++ [.sendStopSubscribe x.2 [x.1]]) (held y v.log) = false
    rw [pend_push]
    by_cases hyx : y = x
    · subst hyx; exact hop1 _
    · rw [hop2 _ _ hyx]
      exact h.out y (fun e => hy ((List.mem_erase_of_ne hyx).mpr e))
  · intro ha hd y hy
    have hnd := h.nd hd
    have hy' : y ≠ x ∧ y ∈ v.se := by
      have := (List.Nodup.mem_erase_iff hnd).mp hy
      exact this
    rcases h.inA ha hd y hy'.2 with h1 | ⟨n, ho, h2⟩
    · left
      show pend v.ttl y (v.rdy ++ [.sendStopSubscribe x.2 [x.1]]) (held y v.log) = true
      rw [pend_push, hop2 _ _ hy'.1]; exact h1
    · right; refine ⟨n, ho, ?_⟩
      show pend v.ttl y (afterFirst n (v.rdy ++ [.sendStopSubscribe x.2 [x.1]])) true = true
      rw [afterFirst_push _ (h.owe n ho), hop2 _ _ hy'.1]; exact h2
  · intro ha hl y hy
    show pend v.ttl y (v.rdy ++ [.sendStopSubscribe x.2 [x.1]]) (held y v.log) = false
    rw [pend_push]
    have : v.W y = false := h.inD ha hl y (List.mem_of_mem_erase hy)
    unfold MV.W at this
    rw [this]; exact hop3 y
  · intro n ho
    obtain ⟨cb, hcb, h1⟩ := h.owe n ho
    exact ⟨cb, List.mem_append_left _ hcb, h1⟩
  · rintro n ⟨cb, hcb, h1⟩
    rcases List.mem_append.mp hcb with hcb | hcb
    · exact h.fresh n ⟨cb, hcb, h1⟩
    · simp at hcb; subst hcb; simp at h1

/-! ### start and stop -/

theorem pend_steps (ttl : Nat) (y : Req) (l : List Cb) (b : Bool) (h : ∀ cb ∈ l, ∃ t, cb = .taskStep t) : pend ttl y l b = b := by
  induction l generalizing b with
  | nil => rfl
  | cons c r ih =>
    obtain ⟨t, rfl⟩ := h c List.mem_cons_self
    rw [pend_cons, pendOp_step]; exact ih _ (fun cb hcb => h cb (List.mem_cons_of_mem _ hcb))

theorem MI.task_lt {v : MV} (h : MI v) {n : Nat} {t : TaskSt} (ht : v.task n = some t) : n < v.tasks.length :=
  h.keys _ (alookup_mem ht)

/-- `start()`: a new task whose first step is queued -/
theorem MI.start {v : MV} (h : MI v) (ha : v.alive = false) :
    MI { v with alive := true, lost := false, subTask := some v.tasks.length,
                tasks := v.tasks ++ [((.subscribe, v.tasks.length), ({} : TaskSt))],
                rdy := v.rdy ++ [.taskStep (.subscribe, v.tasks.length)] } := by
  have hnone : alookup v.tasks (TaskKind.subscribe, v.tasks.length) = none :=
    alookup_none (fun p hp e => by have := h.keys p hp; rw [e] at this; exact Nat.lt_irrefl _ this)
  have htask : ∀ n, alookup (v.tasks ++ [((TaskKind.subscribe, v.tasks.length), ({} : TaskSt))]) (TaskKind.subscribe, n) =
      if n = v.tasks.length then some ({} : TaskSt) else v.task n := by
    intro n
    rw [alookup_append]
    by_cases hn : n = v.tasks.length
    · subst hn; rw [hnone]; simp [alookup]
    · rw [if_neg hn]
      unfold MV.task
      cases hl : alookup v.tasks (TaskKind.subscribe, n)
      · simp only []
        apply alookup_none
        intro p hp e; simp at hp; subst hp; simp at e; exact hn e.symm
      · rfl
  have hnostep : ∀ cb ∈ v.rdy, isStepOf v.tasks.length cb = false := by
    intro cb hcb
    cases hc : isStepOf v.tasks.length cb
    · rfl
    · exact absurd (h.fresh _ ⟨cb, hcb, hc⟩) (Nat.lt_irrefl _)
  refine ⟨h.ttl, ?_, ?_, h.nd, ?_, ?_, ?_, ?_, ?_, ?_, h.notim⟩
  · intro p hp
    rcases List.mem_append.mp hp with hp | hp
    · exact h.kind p hp
    · simp at hp; subst hp; rfl
  · intro p hp
    show p.1.2 < (v.tasks ++ [((TaskKind.subscribe, v.tasks.length), ({} : TaskSt))]).length
    rw [List.length_append]
    rcases List.mem_append.mp hp with hp | hp
    · exact Nat.lt_of_lt_of_le (h.keys p hp) (Nat.le_add_right _ _)
    · simp at hp; subst hp; simp
  · intro y hy
    show pend v.ttl y (v.rdy ++ [.taskStep (.subscribe, v.tasks.length)]) (held y v.log) = false
    rw [pend_push, pendOp_step]; exact h.out y hy
  · intro _ _ y hy
    right
    refine ⟨v.tasks.length, ⟨rfl, ({} : TaskSt), ?_, rfl, rfl⟩, ?_⟩
    · show alookup (v.tasks ++ [((TaskKind.subscribe, v.tasks.length), ({} : TaskSt))]) (TaskKind.subscribe, v.tasks.length) = _
      rw [htask, if_pos rfl]
    · show pend v.ttl y (afterFirst v.tasks.length (v.rdy ++ [.taskStep (.subscribe, v.tasks.length)])) true = true
      rw [afterFirst_append_fresh _ _ hnostep]; rfl
  · intro ha'; cases ha'
  · intro n t ht hpc hc
    have ht' : (if n = v.tasks.length then some ({} : TaskSt) else v.task n) = some t := by rw [← htask]; exact ht
    by_cases hn : n = v.tasks.length
    · subst hn; exact ⟨rfl, rfl⟩
    · rw [if_neg hn] at ht'
      have := (h.live n t ht' hpc hc).1
      rw [ha] at this; cases this
  · rintro n ⟨hs, _⟩
    have : v.tasks.length = n := by simpa using hs
    subst this
    exact ⟨_, List.mem_append_right _ (List.mem_singleton.mpr rfl), isStepOf_self _⟩
  · rintro n ⟨cb, hcb, h1⟩
    show n < (v.tasks ++ [((TaskKind.subscribe, v.tasks.length), ({} : TaskSt))]).length
    rw [List.length_append]
    rcases List.mem_append.mp hcb with hcb | hcb
    · exact Nat.lt_of_lt_of_le (h.fresh n ⟨cb, hcb, h1⟩) (Nat.le_add_right _ _)
    · simp at hcb; subst hcb
      rw [isStepOf_step] at h1; simp at h1; subst h1; simp

/-- `stop(send_stop_subscribe = b)` in general form: the tasks are all dead afterwards, some task steps may have been queued -/
theorem MI.stop_gen {v : MV} (h : MI v) (b : Bool) (tasks' : List (Tid × TaskSt)) (extra : List Cb)
    (c1 : tasks'.length = v.tasks.length) (c1' : ∀ p ∈ tasks', ∃ q ∈ v.tasks, q.1 = p.1)
    (c2 : ∀ n t, alookup tasks' (TaskKind.subscribe, n) = some t → t.pc = .done ∨ t.cancelled = true)
    (c3 : ∀ cb ∈ extra, ∃ n, cb = .taskStep (.subscribe, n) ∧ n < v.tasks.length) :
    MI { v with alive := false, lost := !b, subTask := none, tasks := tasks',
                rdy := v.rdy ++ extra ++ (if b then stopCbs (groupEntries v.se) else []) } := by
  have hex : ∀ y bb, pend v.ttl y extra bb = bb := fun y bb =>
    pend_steps _ _ _ _ (fun cb hcb => by obtain ⟨n, rfl, _⟩ := c3 cb hcb; exact ⟨_, rfl⟩)
  refine ⟨h.ttl, ?_, ?_, h.nd, ?_, ?_, ?_, ?_, ?_, ?_, h.notim⟩
  · intro p hp
    obtain ⟨q, hq, e⟩ := c1' p hp
    rw [← e]; exact h.kind q hq
  · intro p hp
    obtain ⟨q, hq, e⟩ := c1' p hp
    show p.1.2 < tasks'.length
    rw [c1, ← e]; exact h.keys q hq
  · intro y hy
    show pend v.ttl y (v.rdy ++ extra ++ (if b then stopCbs (groupEntries v.se) else [])) (held y v.log) = false
    rw [pend_append, pend_append, hex]
    have : v.W y = false := h.out y hy
    unfold MV.W at this; rw [this]
    cases b
    · rfl
    · exact pend_stopCbs_false _ _ _
  · intro ha'; cases ha'
  · intro _ hl y hy
    have hb : b = true := by cases b <;> simp_all
    subst hb
    show pend v.ttl y (v.rdy ++ extra ++ stopCbs (groupEntries v.se)) (held y v.log) = false
    rw [pend_append]
    exact pend_stopCbs_hit _ _ _ _ ((groupEntries_members v.se y.1 y.2).mpr hy)
  · intro n t ht hpc hc
    rcases c2 n t ht with h1 | h1
    · exact absurd h1 hpc
    · rw [hc] at h1; cases h1
  · rintro n ⟨hs, _⟩; cases hs
  · rintro n ⟨cb, hcb, h1⟩
    show n < tasks'.length
    rw [c1]
    rcases List.mem_append.mp hcb with hcb | hcb
    · rcases List.mem_append.mp hcb with hcb | hcb
      · exact h.fresh n ⟨cb, hcb, h1⟩
      · obtain ⟨m, rfl, hm⟩ := c3 cb hcb
        rw [isStepOf_step] at h1; simp at h1; subst h1; exact hm
    · cases b
      · cases hcb
      · simp only [if_true, stopCbs, List.mem_map] at hcb
        obtain ⟨p, _, rfl⟩ := hcb; simp at h1

/-- `task.cancel()` on the view -/
def cancelV (tasks : List (Tid × TaskSt)) (n : Nat) : List (Tid × TaskSt) × List Cb :=
  match alookup tasks (.subscribe, n) with
  | none => (tasks, [])
  | some t =>
    if t.pc = .done then (tasks, [])
    else if t.waiting then (setT tasks (.subscribe, n) { t with waiting := false, cancelled := true }, [.taskStep (.subscribe, n)])
    else (setT tasks (.subscribe, n) { t with cancelled := true }, [])

theorem MI.stop {v : MV} (h : MI v) (b : Bool) (ha : v.alive = true) :
    MI { v with alive := false, lost := !b, subTask := none,
                tasks := (match v.subTask with | some n => (cancelV v.tasks n).1 | none => v.tasks),
                rdy := v.rdy ++ (match v.subTask with | some n => (cancelV v.tasks n).2 | none => []) ++
                  (if b then stopCbs (groupEntries v.se) else []) } := by
  apply MI.stop_gen h b
  · cases hs : v.subTask with
    | none => rfl
    | some n => simp only []; unfold cancelV; split; rfl; split; rfl; split <;> simp
  · intro p hp
    cases hs : v.subTask with
    | none => rw [hs] at hp; exact ⟨p, hp, rfl⟩
    | some n =>
      rw [hs] at hp; simp only [] at hp
      unfold cancelV at hp
      split at hp
      · exact ⟨p, hp, rfl⟩
      · split at hp
        · exact ⟨p, hp, rfl⟩
        · split at hp <;> exact mem_setT hp
  · intro m t ht
    cases hs : v.subTask with
    | none =>
      rw [hs] at ht
      by_cases hpc : t.pc = .done
      · exact Or.inl hpc
      · cases hc : t.cancelled
        · have := (h.live m t ht hpc hc).2
          rw [hs] at this; cases this
        · exact Or.inr rfl
    | some n =>
      rw [hs] at ht; simp only [] at ht
      have old : ∀ t, v.task m = some t → m ≠ n → t.pc = .done ∨ t.cancelled = true := by
        intro t ht hmn
        by_cases hpc : t.pc = .done
        · exact Or.inl hpc
        · cases hc : t.cancelled
          · have := (h.live m t ht hpc hc).2
            rw [hs] at this; exact absurd (Option.some.inj this).symm hmn
          · exact Or.inr rfl
      unfold cancelV at ht
      split at ht
      · rename_i hnone
        by_cases hmn : m = n
        · subst hmn; rw [hnone] at ht; cases ht
        · exact old t ht hmn
      · rename_i t0 ht0
        split at ht
        · rename_i hdone
          by_cases hmn : m = n
          · subst hmn; rw [ht0] at ht; cases ht; exact Or.inl hdone
          · exact old t ht hmn
        · split at ht
          · simp only [] at ht; rw [alookup_setT] at ht
            by_cases hmn : m = n
            · subst hmn; simp [ht0] at ht; subst ht; exact Or.inr rfl
            · have : (TaskKind.subscribe, m) ≠ (TaskKind.subscribe, n) := by simpa using hmn
              rw [if_neg this] at ht; exact old t ht hmn
          · simp only [] at ht; rw [alookup_setT] at ht
            by_cases hmn : m = n
            · subst hmn; simp [ht0] at ht; subst ht; exact Or.inr rfl
            · have : (TaskKind.subscribe, m) ≠ (TaskKind.subscribe, n) := by simpa using hmn
              rw [if_neg this] at ht; exact old t ht hmn
  · intro cb hcb
    cases hs : v.subTask with
    | none => rw [hs] at hcb; cases hcb
    | some n =>
      rw [hs] at hcb; simp only [] at hcb
      unfold cancelV at hcb
      split at hcb
      · cases hcb
      · rename_i t0 ht0
        split at hcb
        · cases hcb
        · split at hcb
          · simp at hcb; exact ⟨n, hcb, h.task_lt ht0⟩
          · cases hcb

/-! ### callbacks at the head of the ready queue -/

/-- a queued `_send_start_subscribe` / `_send_stop_subscribe` runs: the batch is appended to the log, the server's
eventual view does not change -/
theorem MI.runSend {v : MV} (h : MI v) (cb : Cb) (rest : List Cb) (m : SubMsg) (hr : v.rdy = cb :: rest)
    (hop : ∀ y b, pendOp v.ttl y b cb = heldStep y b m) (hns : ∀ n, isStepOf n cb = false) :
    MI { v with rdy := rest, log := v.log ++ [m] } := by
  have hW : ∀ y, pend v.ttl y rest (held y (v.log ++ [m])) = v.W y := by
    intro y; unfold MV.W; rw [hr, pend_cons, held_append, hop]
  refine ⟨h.ttl, h.kind, h.keys, h.nd, ?_, ?_, ?_, h.live, ?_, ?_, h.notim⟩
  · intro y hy; show pend v.ttl y rest (held y (v.log ++ [m])) = false; rw [hW]; exact h.out y hy
  · intro ha hd y hy
    rcases h.inA ha hd y hy with h1 | ⟨n, ho, h2⟩
    · left; show pend v.ttl y rest (held y (v.log ++ [m])) = true; rw [hW]; exact h1
    · right; refine ⟨n, ho, ?_⟩
      show pend v.ttl y (afterFirst n rest) true = true
      rw [hr, afterFirst_cons_other _ (hns n)] at h2; exact h2
  · intro ha hl y hy; show pend v.ttl y rest (held y (v.log ++ [m])) = false; rw [hW]; exact h.inD ha hl y hy
  · intro n ho
    obtain ⟨c, hc, h1⟩ := h.owe n ho
    rw [hr] at hc
    rcases List.mem_cons.mp hc with rfl | hc
    · rw [hns] at h1; cases h1
    · exact ⟨c, hc, h1⟩
  · rintro n ⟨c, hc, h1⟩
    exact h.fresh n ⟨c, by rw [hr]; exact List.mem_cons_of_mem _ hc, h1⟩

/-- a step of subscribe task `n` is popped and does nothing (no such task, finished, or not at a round) -/
theorem MI.popNoop {v : MV} (h : MI v) (n : Nat) (rest : List Cb) (hr : v.rdy = .taskStep (.subscribe, n) :: rest)
    (hno : ¬ v.owed n) : MI { v with rdy := rest } := by
  have hW : ∀ y, pend v.ttl y rest (held y v.log) = v.W y := by
    intro y; unfold MV.W; rw [hr, pend_cons, pendOp_step]
  have hne : ∀ n', v.owed n' → isStepOf n' (.taskStep (.subscribe, n)) = false := by
    intro n' ho
    rw [isStepOf_step]; simp only [decide_eq_false_iff_not]
    rintro rfl; exact hno ho
  refine ⟨h.ttl, h.kind, h.keys, h.nd, ?_, ?_, ?_, h.live, ?_, ?_, h.notim⟩
  · intro y hy; show pend v.ttl y rest (held y v.log) = false; rw [hW]; exact h.out y hy
  · intro ha hd y hy
    rcases h.inA ha hd y hy with h1 | ⟨n', ho, h2⟩
    · left; show pend v.ttl y rest (held y v.log) = true; rw [hW]; exact h1
    · right; refine ⟨n', ho, ?_⟩
      show pend v.ttl y (afterFirst n' rest) true = true
      rw [hr, afterFirst_cons_other _ (hne n' ho)] at h2; exact h2
  · intro ha hl y hy; show pend v.ttl y rest (held y v.log) = false; rw [hW]; exact h.inD ha hl y hy
  · intro n' ho
    obtain ⟨c, hc, h1⟩ := h.owe n' ho
    rw [hr] at hc
    rcases List.mem_cons.mp hc with rfl | hc
    · rw [hne n' ho] at h1; cases h1
    · exact ⟨c, hc, h1⟩
  · rintro n' ⟨c, hc, h1⟩
    exact h.fresh n' ⟨c, by rw [hr]; exact List.mem_cons_of_mem _ hc, h1⟩

theorem task_setT (v : MV) (n m : Nat) (t'' : TaskSt) :
    alookup (setT v.tasks (TaskKind.subscribe, n) t'') (TaskKind.subscribe, m) =
      if m = n then (v.task n).map (fun _ => t'') else v.task m := by
  rw [alookup_setT]
  by_cases hmn : m = n
  · subst hmn; simp [MV.task]
  · have : (TaskKind.subscribe, m) ≠ (TaskKind.subscribe, n) := by simpa using hmn
    rw [if_neg this, if_neg hmn]; rfl

/-- a step of a cancelled subscribe task is popped: the task ends, nothing is sent -/
theorem MI.popFinish {v : MV} (h : MI v) (n : Nat) (rest : List Cb) (t'' : TaskSt) (hr : v.rdy = .taskStep (.subscribe, n) :: rest)
    (hno : ¬ v.owed n) (hd : t''.pc = .done) :
    MI { v with rdy := rest, tasks := setT v.tasks (.subscribe, n) t'' } := by
  have h0 := h.popNoop n rest hr hno
  have howed : ∀ n', MV.owed { v with rdy := rest, tasks := setT v.tasks (.subscribe, n) t'' } n' → MV.owed { v with rdy := rest } n' := by
    rintro n' ⟨hs, t, ht, hpc, hc⟩
    have ht' : (if n' = n then (v.task n).map (fun _ => t'') else v.task n') = some t := by rw [← task_setT]; exact ht
    by_cases hn : n' = n
    · subst hn; rw [if_pos rfl] at ht'
      cases hv : v.task n' <;> simp [hv] at ht'
      subst ht'; rw [hd] at hpc; cases hpc
    · rw [if_neg hn] at ht'; exact ⟨hs, t, ht', hpc, hc⟩
  refine ⟨h.ttl, ?_, ?_, h.nd, h0.out, ?_, h0.inD, ?_, ?_, ?_, h.notim⟩
  · intro p hp; obtain ⟨q, hq, e⟩ := mem_setT hp; rw [← e]; exact h.kind q hq
  · intro p hp; obtain ⟨q, hq, e⟩ := mem_setT hp
    show p.1.2 < (setT v.tasks _ _).length
    rw [length_setT, ← e]; exact h.keys q hq
  · intro ha hdp y hy
    rcases h0.inA ha hdp y hy with h1 | ⟨n', ho, h2⟩
    · exact Or.inl h1
    · right
      have hn : n' ≠ n := by rintro rfl; exact hno ho
      refine ⟨n', ⟨ho.1, ?_⟩, h2⟩
      obtain ⟨t, ht, hpc, hc⟩ := ho.2
      refine ⟨t, ?_, hpc, hc⟩
      show alookup (setT v.tasks (TaskKind.subscribe, n) t'') (TaskKind.subscribe, n') = some t
      rw [task_setT, if_neg hn]; exact ht
  · intro m t ht hpc hc
    have ht' : (if m = n then (v.task n).map (fun _ => t'') else v.task m) = some t := by rw [← task_setT]; exact ht
    by_cases hn : m = n
    · subst hn; rw [if_pos rfl] at ht'
      cases hv : v.task m <;> simp [hv] at ht'
      subst ht'; exact absurd hd hpc
    · rw [if_neg hn] at ht'; exact h.live m t ht' hpc hc
  · intro n' ho; exact h0.owe n' (howed n' ho)
  · rintro n' hc
    show n' < (setT v.tasks _ _).length
    rw [length_setT]; exact h0.fresh n' hc

/-- a step of the running subscribe task is popped: one refresh round -/
theorem MI.popRound {v : MV} (h : MI v) (n : Nat) (rest extra : List Cb) (t t'' : TaskSt)
    (hr : v.rdy = .taskStep (.subscribe, n) :: rest) (ht : v.task n = some t) (hpc : t.pc ≠ .done) (hc : t.cancelled = false)
    (hpc'' : t''.pc ≠ .created) (hc'' : t''.cancelled = false)
    (hex : extra = [] ∨ extra = [.taskStep (.subscribe, n)]) :
    MI { v with rdy := rest ++ extra, log := v.log ++ roundMsgs v.ttl (groupEntries v.se),
                tasks := setT v.tasks (.subscribe, n) t'' } := by
  obtain ⟨ha, hsub⟩ := h.live n t ht hpc hc
  have hexid : ∀ y b, pend v.ttl y extra b = b := by
    intro y b; rcases hex with rfl | rfl
    · rfl
    · rfl
  have hWold : ∀ y, v.W y = pend v.ttl y rest (held y v.log) := by
    intro y; unfold MV.W; rw [hr, pend_cons, pendOp_step]
  have hWnew : ∀ y, pend v.ttl y (rest ++ extra) (held y (v.log ++ roundMsgs v.ttl (groupEntries v.se))) =
      pend v.ttl y rest (if y ∈ v.se then true else held y v.log) := by
    intro y; rw [pend_append, hexid, held_round _ _ h.ttl]
  refine ⟨h.ttl, ?_, ?_, h.nd, ?_, ?_, ?_, ?_, ?_, ?_, h.notim⟩
  · intro p hp; obtain ⟨q, hq, e⟩ := mem_setT hp; rw [← e]; exact h.kind q hq
  · intro p hp; obtain ⟨q, hq, e⟩ := mem_setT hp
    show p.1.2 < (setT v.tasks _ _).length
    rw [length_setT, ← e]; exact h.keys q hq
  · intro y hy
    show pend v.ttl y (rest ++ extra) (held y (v.log ++ roundMsgs v.ttl (groupEntries v.se))) = false
    rw [hWnew, if_neg hy, ← hWold]; exact h.out y hy
  · intro _ hd y hy
    left
    show pend v.ttl y (rest ++ extra) (held y (v.log ++ roundMsgs v.ttl (groupEntries v.se))) = true
    rw [hWnew, if_pos hy]
    rcases h.inA ha hd y hy with h1 | ⟨n', ho, h2⟩
    · rw [hWold] at h1; exact pend_mono _ _ _ _ h1
    · have : n' = n := by have := ho.1; rw [hsub] at this; exact (Option.some.inj this).symm
      subst this
      rw [hr, afterFirst_cons_self _ (isStepOf_self _)] at h2; exact h2
  · intro ha'; rw [ha] at ha'; cases ha'
  · intro m tm htm hpcm hcm
    have ht' : (if m = n then (v.task n).map (fun _ => t'') else v.task m) = some tm := by rw [← task_setT]; exact htm
    by_cases hn : m = n
    · subst hn; exact ⟨ha, hsub⟩
    · rw [if_neg hn] at ht'; exact h.live m tm ht' hpcm hcm
  · rintro n' ⟨hs, tm, htm, hpcm, hcm⟩
    have : n' = n := by
      have h1 : v.subTask = some n' := hs
      rw [hsub] at h1; exact (Option.some.inj h1).symm
    subst this
    have ht' : (if n' = n' then (v.task n').map (fun _ => t'') else v.task n') = some tm := by rw [← task_setT]; exact htm
    rw [if_pos rfl, ht] at ht'; simp at ht'; subst ht'
    exact absurd hpcm hpc''
  · rintro n' ⟨c, hcm, h1⟩
    show n' < (setT v.tasks _ _).length
    rw [length_setT]
    rcases List.mem_append.mp hcm with hcm | hcm
    · exact h.fresh n' ⟨c, by rw [hr]; exact List.mem_cons_of_mem _ hcm, h1⟩
    · rcases hex with rfl | rfl
      · cases hcm
      · simp at hcm; subst hcm
        rw [isStepOf_step] at h1; simp at h1; subst h1; exact h.task_lt ht

/-- a sleeping subscribe task is woken (its sleep timer ran): a step is queued, nothing else changes -/
theorem MI.wake {v : MV} (h : MI v) (n : Nat) (t t'' : TaskSt) (ht : v.task n = some t)
    (hpc : t''.pc = t.pc) (hc : t''.cancelled = t.cancelled) :
    MI { v with rdy := v.rdy ++ [.taskStep (.subscribe, n)], tasks := setT v.tasks (.subscribe, n) t'' } := by
  have htask : ∀ m tm, alookup (setT v.tasks (TaskKind.subscribe, n) t'') (TaskKind.subscribe, m) = some tm →
      ∃ t0, v.task m = some t0 ∧ tm.pc = t0.pc ∧ tm.cancelled = t0.cancelled := by
    intro m tm htm
    rw [task_setT] at htm
    by_cases hn : m = n
    · subst hn; rw [if_pos rfl, ht] at htm; simp at htm; subst htm; exact ⟨t, ht, hpc, hc⟩
    · rw [if_neg hn] at htm; exact ⟨tm, htm, rfl, rfl⟩
  have htask' : ∀ m t0, v.task m = some t0 →
      ∃ tm, alookup (setT v.tasks (TaskKind.subscribe, n) t'') (TaskKind.subscribe, m) = some tm ∧ tm.pc = t0.pc ∧ tm.cancelled = t0.cancelled := by
    intro m t0 ht0
    rw [task_setT]
    by_cases hn : m = n
    · subst hn; rw [if_pos rfl, ht]; rw [ht] at ht0; cases ht0; exact ⟨t'', rfl, hpc, hc⟩
    · rw [if_neg hn]; exact ⟨t0, ht0, rfl, rfl⟩
  have howed : ∀ n', MV.owed { v with rdy := v.rdy ++ [.taskStep (.subscribe, n)], tasks := setT v.tasks (.subscribe, n) t'' } n' ↔ v.owed n' := by
    intro n'
    constructor
    · rintro ⟨hs, tm, htm, hpcm, hcm⟩
      obtain ⟨t0, ht0, e1, e2⟩ := htask n' tm htm
      exact ⟨hs, t0, ht0, e1 ▸ hpcm, e2 ▸ hcm⟩
    · rintro ⟨hs, t0, ht0, hpc0, hc0⟩
      obtain ⟨tm, htm, e1, e2⟩ := htask' n' t0 ht0
      exact ⟨hs, tm, htm, e1.trans hpc0, e2.trans hc0⟩
  refine ⟨h.ttl, ?_, ?_, h.nd, ?_, ?_, ?_, ?_, ?_, ?_, h.notim⟩
  · intro p hp; obtain ⟨q, hq, e⟩ := mem_setT hp; rw [← e]; exact h.kind q hq
  · intro p hp; obtain ⟨q, hq, e⟩ := mem_setT hp
    show p.1.2 < (setT v.tasks _ _).length
    rw [length_setT, ← e]; exact h.keys q hq
  · intro y hy
    show pend v.ttl y (v.rdy ++ [.taskStep (.subscribe, n)]) (held y v.log) = false
    rw [pend_push, pendOp_step]; exact h.out y hy
  · intro ha hd y hy
    rcases h.inA ha hd y hy with h1 | ⟨n', ho, h2⟩
    · left
      show pend v.ttl y (v.rdy ++ [.taskStep (.subscribe, n)]) (held y v.log) = true
      rw [pend_push, pendOp_step]; exact h1
    · right; refine ⟨n', (howed n').mpr ho, ?_⟩
      show pend v.ttl y (afterFirst n' (v.rdy ++ [.taskStep (.subscribe, n)])) true = true
      rw [afterFirst_push _ (h.owe n' ho), pendOp_step]; exact h2
  · intro ha hl y hy
    show pend v.ttl y (v.rdy ++ [.taskStep (.subscribe, n)]) (held y v.log) = false
    rw [pend_push, pendOp_step]; exact h.inD ha hl y hy
  · intro m tm htm hpcm hcm
    obtain ⟨t0, ht0, e1, e2⟩ := htask m tm htm
    exact h.live m t0 ht0 (e1 ▸ hpcm) (e2 ▸ hcm)
  · intro n' ho
    obtain ⟨c, hcm, h1⟩ := h.owe n' ((howed n').mp ho)
    exact ⟨c, List.mem_append_left _ hcm, h1⟩
  · rintro n' ⟨c, hcm, h1⟩
    show n' < (setT v.tasks _ _).length
    rw [length_setT]
    rcases List.mem_append.mp hcm with hcm | hcm
    · exact h.fresh n' ⟨c, hcm, h1⟩
    · simp at hcm; subst hcm
      rw [isStepOf_step] at h1; simp at h1; subst h1; exact h.task_lt ht

end Someip
