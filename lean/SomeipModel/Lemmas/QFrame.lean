/-
  Frame lemmas for the send queues of the announcer: the queue requests seen so far (ghost outputs `queued`), the batches
  handed to `send_sd` (ghost `flushLog`), the collectors, and the pending collection-timeout handles are touched by no
  function other than `queue_send` / `_handle_timeout` and their callers.  Same scripts as SvcFrame.lean.
-/
import SomeipModel.Lemmas.SvcFrame
namespace Someip
namespace Stack
set_option linter.unusedSimpArgs false

def isCollTimeout : Cb → Bool | .collectorTimeout _ => true | _ => false
def isQueued : Out → Bool | .queued _ _ => true | _ => false

/-- what the queue invariant depends on -/
def qpi (s : Stack) : List (Nat × Out) × List (Dest × List SDEntry) × List Collector × Nat × Nat × List (Timer Cb) × List (RItem Cb) × Nat :=
  (s.outs.filter (fun o => isQueued o.2), s.flushLog, s.collectors, s.nextCid, s.tm.sendCollectionTimeout,
   s.loop.timers.filter (fun t => isCollTimeout t.cb), s.loop.ready.filter (fun r => isCollTimeout r.cb), s.loop.now)

@[simp] theorem qpi_with_draws (s : Stack) (x : List Nat) : qpi { s with draws := x } = qpi s := rfl
@[simp] theorem qpi_with_incoming (s : Stack) (x : Incoming) : qpi { s with incoming := x } = qpi s := rfl
@[simp] theorem qpi_with_outgoing (s : Stack) (x : Outgoing) : qpi { s with outgoing := x } = qpi s := rfl
@[simp] theorem qpi_with_tasks (s : Stack) (x : List (Tid × TaskSt)) : qpi { s with tasks := x } = qpi s := rfl
@[simp] theorem qpi_with_watched (s : Stack) (x : List (Service × List Listener)) : qpi { s with watched := x } = qpi s := rfl
@[simp] theorem qpi_with_watchAll (s : Stack) (x : List LId) : qpi { s with watchAll := x } = qpi s := rfl
@[simp] theorem qpi_with_found (s : Stack) (x : TStore SvcKey) : qpi { s with found := x } = qpi s := rfl
@[simp] theorem qpi_with_storeLog (s : Stack) (x : List (Bool × SvcKey × Addr)) : qpi { s with storeLog := x } = qpi s := rfl
@[simp] theorem qpi_with_refreshLog (s : Stack) (x : List (Addr × SvcKey × Nat × Nat)) : qpi { s with refreshLog := x } = qpi s := rfl
@[simp] theorem qpi_with_armLog (s : Stack) (x : List (Cb × Nat × Nat)) : qpi { s with armLog := x } = qpi s := rfl
@[simp] theorem qpi_with_subMarks (s : Stack) (x : List (Option Nat × Nat)) : qpi { s with subMarks := x } = qpi s := rfl
@[simp] theorem qpi_markRound (s : Stack) (n : Nat) : qpi (s.markRound n) = qpi s := rfl
@[simp] theorem qpi_with_found_refreshLog (s : Stack) (x : TStore SvcKey) (y : List (Addr × SvcKey × Nat × Nat)) : qpi { s with found := x, refreshLog := y } = qpi s := rfl
@[simp] theorem qpi_with_sendLog (s : Stack) (x : List (Dest × (Bool × Nat))) : qpi { s with sendLog := x } = qpi s := rfl
@[simp] theorem qpi_with_subLog (s : Stack) (x : List (Addr × Nat × List Eventgroup)) : qpi { s with subLog := x } = qpi s := rfl
@[simp] theorem qpi_with_findLog (s : Stack) (x : List (Nat × Nat)) : qpi { s with findLog := x } = qpi s := rfl
@[simp] theorem qpi_with_findMarks (s : Stack) (x : List (Nat × Nat)) : qpi { s with findMarks := x } = qpi s := rfl
@[simp] theorem qpi_with_ansLog (s : Stack) (x : List (Nat × Addr × Nat × Nat)) : qpi { s with ansLog := x } = qpi s := rfl
@[simp] theorem qpi_with_lisLog (s : Stack) (x : List (LId × Bool × SvcKey × Addr)) : qpi { s with lisLog := x } = qpi s := rfl
@[simp] theorem qpi_logLis (s : Stack) (id : LId) (o : Bool) (k : SvcKey) (a : Addr) : qpi (s.logLis id o k a) = qpi s := rfl
@[simp] theorem qpi_with_lisDup (s : Stack) (x : Bool) : qpi { s with lisDup := x } = qpi s := rfl
@[simp] theorem qpi_markDup (s : Stack) (d : Bool) : qpi (s.markDup d) = qpi s := rfl
@[simp] theorem qpi_logAnswer (s : Stack) (i : Nat) (a : Addr) (d : Nat) : qpi (s.logAnswer i a d) = qpi s := rfl
@[simp] theorem qpi_markFind (s : Stack) (n : Nat) : qpi (s.markFind n) = qpi s := rfl
@[simp] theorem qpi_with_offLog (s : Stack) (x : List (Nat × OEv × Nat)) : qpi { s with offLog := x } = qpi s := rfl
@[simp] theorem qpi_logOffer (s : Stack) (i : Nat) (e : OEv) : qpi (s.logOffer i e) = qpi s := rfl
@[simp] theorem qpi_with_subDup (s : Stack) (x : Bool) : qpi { s with subDup := x } = qpi s := rfl
@[simp] theorem qpi_with_subLost (s : Stack) (x : Bool) : qpi { s with subLost := x } = qpi s := rfl
@[simp] theorem qpi_with_alive_subLost (s : Stack) (x y : Bool) : qpi { s with alive := x, subLost := y } = qpi s := rfl
@[simp] theorem qpi_with_subDup_subEntries (s : Stack) (x : Bool) (y : List (Eventgroup × Addr)) : qpi { s with subDup := x, subEntries := y } = qpi s := rfl
@[simp] theorem qpi_with_findTask (s : Stack) (x : Option Nat) : qpi { s with findTask := x } = qpi s := rfl
@[simp] theorem qpi_with_alive (s : Stack) (x : Bool) : qpi { s with alive := x } = qpi s := rfl
@[simp] theorem qpi_with_subTask (s : Stack) (x : Option Nat) : qpi { s with subTask := x } = qpi s := rfl
@[simp] theorem qpi_with_subEntries (s : Stack) (x : List (Eventgroup × Addr)) : qpi { s with subEntries := x } = qpi s := rfl
@[simp] theorem qpi_with_started (s : Stack) (x : Bool) : qpi { s with started := x } = qpi s := rfl
@[simp] theorem qpi_with_instances (s : Stack) (x : List Instance) : qpi { s with instances := x } = qpi s := rfl
@[simp] theorem qpi_with_announceOrder (s : Stack) (x : List Nat) : qpi { s with announceOrder := x } = qpi s := rfl
@[simp] theorem qpi_with_outgoing_sendLog (s : Stack) (x : Outgoing) (y : List (Dest × (Bool × Nat))) : qpi { s with outgoing := x, sendLog := y } = qpi s := rfl

theorem qpi_emit_other (s : Stack) (o : Out) (h : isQueued o = false) : qpi (s.emit o) = qpi s := by
  simp [qpi, emit, List.filter_append, h]
@[simp] theorem qpi_emit_send (s : Stack) (d : Dest) (b : Bytes) : qpi (s.emit (.send d b)) = qpi s := qpi_emit_other _ _ rfl
@[simp] theorem qpi_emit_offered (s : Stack) (l : LId) (k : SvcKey) (a : Addr) : qpi (s.emit (.offered l k a)) = qpi s := qpi_emit_other _ _ rfl
@[simp] theorem qpi_emit_stopped (s : Stack) (l : LId) (k : SvcKey) (a : Addr) : qpi (s.emit (.stopped l k a)) = qpi s := qpi_emit_other _ _ rfl
@[simp] theorem qpi_emit_subscribed (s : Stack) (i : Nat) (k : SubKey) (a : Addr) : qpi (s.emit (.subscribed i k a)) = qpi s := qpi_emit_other _ _ rfl
@[simp] theorem qpi_emit_unsubscribed (s : Stack) (i : Nat) (k : SubKey) (a : Addr) : qpi (s.emit (.unsubscribed i k a)) = qpi s := qpi_emit_other _ _ rfl
@[simp] theorem qpi_emit_raised (s : Stack) (e : Err) : qpi (s.emit (.raised e)) = qpi s := qpi_emit_other _ _ rfl

theorem qpi_callSoon (s : Stack) (cb : Cb) (h : isCollTimeout cb = false) : qpi (s.callSoon cb) = qpi s := by
  simp [qpi, callSoon, Loop.callSoon, List.filter_append, h]
theorem qpi_callLater (s : Stack) (d : Nat) (cb : Cb) (h : isCollTimeout cb = false) : qpi (s.callLater d cb).1 = qpi s := by
  simp [qpi, callLater, Loop.callLater, List.filter_append, h]
@[simp] theorem qpi_callSoon_connLost (s : Stack) (p : Part) : qpi (s.callSoon (.connLost p)) = qpi s := qpi_callSoon _ _ rfl
@[simp] theorem qpi_callLater_connLost (s : Stack) (d : Nat) (p : Part) : qpi (s.callLater d (.connLost p)).1 = qpi s := qpi_callLater _ _ _ rfl
@[simp] theorem qpi_callSoon_expiredSvc (s : Stack) (a : Addr) (k : SvcKey) : qpi (s.callSoon (.expiredSvc a k)) = qpi s := qpi_callSoon _ _ rfl
@[simp] theorem qpi_callLater_expiredSvc (s : Stack) (d : Nat) (a : Addr) (k : SvcKey) : qpi (s.callLater d (.expiredSvc a k)).1 = qpi s := qpi_callLater _ _ _ rfl
@[simp] theorem qpi_callSoon_expiredSub (s : Stack) (i : Nat) (a : Addr) (k : SubKey) : qpi (s.callSoon (.expiredSub i a k)) = qpi s := qpi_callSoon _ _ rfl
@[simp] theorem qpi_callLater_expiredSub (s : Stack) (d : Nat) (i : Nat) (a : Addr) (k : SubKey) : qpi (s.callLater d (.expiredSub i a k)).1 = qpi s := qpi_callLater _ _ _ rfl
@[simp] theorem qpi_callSoon_sendStartSubscribe (s : Stack) (d' : Addr) (e : List Eventgroup) : qpi (s.callSoon (.sendStartSubscribe d' e)) = qpi s := qpi_callSoon _ _ rfl
@[simp] theorem qpi_callLater_sendStartSubscribe (s : Stack) (d : Nat) (d' : Addr) (e : List Eventgroup) : qpi (s.callLater d (.sendStartSubscribe d' e)).1 = qpi s := qpi_callLater _ _ _ rfl
@[simp] theorem qpi_callSoon_sendStopSubscribe (s : Stack) (d' : Addr) (e : List Eventgroup) : qpi (s.callSoon (.sendStopSubscribe d' e)) = qpi s := qpi_callSoon _ _ rfl
@[simp] theorem qpi_callLater_sendStopSubscribe (s : Stack) (d : Nat) (d' : Addr) (e : List Eventgroup) : qpi (s.callLater d (.sendStopSubscribe d' e)).1 = qpi s := qpi_callLater _ _ _ rfl
@[simp] theorem qpi_callSoon_sendOfferTo (s : Stack) (i : Nat) (a : Addr) : qpi (s.callSoon (.sendOfferTo i a)) = qpi s := qpi_callSoon _ _ rfl
@[simp] theorem qpi_callLater_sendOfferTo (s : Stack) (d : Nat) (i : Nat) (a : Addr) : qpi (s.callLater d (.sendOfferTo i a)).1 = qpi s := qpi_callLater _ _ _ rfl
@[simp] theorem qpi_callSoon_taskStep (s : Stack) (t : Tid) : qpi (s.callSoon (.taskStep t)) = qpi s := qpi_callSoon _ _ rfl
@[simp] theorem qpi_callLater_taskStep (s : Stack) (d : Nat) (t : Tid) : qpi (s.callLater d (.taskStep t)).1 = qpi s := qpi_callLater _ _ _ rfl
@[simp] theorem qpi_callSoon_sleepDone (s : Stack) (t : Tid) : qpi (s.callSoon (.sleepDone t)) = qpi s := qpi_callSoon _ _ rfl
@[simp] theorem qpi_callLater_sleepDone (s : Stack) (d : Nat) (t : Tid) : qpi (s.callLater d (.sleepDone t)).1 = qpi s := qpi_callLater _ _ _ rfl

theorem qpi_cancelTimer_other (s : Stack) (own : Cb → Bool) (t : Option Nat) (h : ∀ cb, own cb = true → isCollTimeout cb = false) :
    qpi (s.cancelTimer own t) = qpi s := by
  cases t with
  | none => rfl
  | some q =>
    have e1 : (s.loop.timers.filter (fun t => !(decide (t.seq = q) && own t.cb))).filter (fun t => isCollTimeout t.cb) =
        s.loop.timers.filter (fun t => isCollTimeout t.cb) := by
      rw [List.filter_filter]; apply List.filter_congr; intro x _
      cases h1 : isCollTimeout x.cb
      · simp
      · have : own x.cb = false := by
          cases h2 : own x.cb
          · rfl
          · have := h _ h2; rw [h1] at this; cases this
        simp [this]
    have e2 : (s.loop.ready.filter (fun r => !(decide (r.seq = some q) && own r.cb))).filter (fun r => isCollTimeout r.cb) =
        s.loop.ready.filter (fun r => isCollTimeout r.cb) := by
      rw [List.filter_filter]; apply List.filter_congr; intro x _
      cases h1 : isCollTimeout x.cb
      · simp
      · have : own x.cb = false := by
          cases h2 : own x.cb
          · rfl
          · have := h _ h2; rw [h1] at this; cases this
        simp [this]
    simp only [qpi, cancelTimer, Loop.cancelOpt, Loop.cancel, e1, e2]
@[simp] theorem qpi_cancelTimer_sub (s : Stack) (t : Option Nat) : qpi (s.cancelTimer isSubExpiry t) = qpi s :=
  qpi_cancelTimer_other s _ t (fun cb h => by cases cb <;> simp_all [isSubExpiry, isCollTimeout])
@[simp] theorem qpi_cancelTimer_subFor (s : Stack) (i : Nat) (a : Addr) (k : SubKey) (t : Option Nat) : qpi (s.cancelTimer (isSubExpiryFor i a k) t) = qpi s :=
  qpi_cancelTimer_other s _ t (fun cb h => by cases cb <;> simp_all [isSubExpiryFor, isCollTimeout])
@[simp] theorem qpi_cancelTimer_sleep (s : Stack) (tid : Tid) (t : Option Nat) : qpi (s.cancelTimer (isSleepFor tid) t) = qpi s :=
  qpi_cancelTimer_other s _ t (fun cb h => by cases cb <;> simp_all [isSleepFor, isCollTimeout])
@[simp] theorem qpi_cancelTimer_svcFor (s : Stack) (a : Addr) (k : SvcKey) (t : Option Nat) : qpi (s.cancelTimer (isSvcExpiryFor a k) t) = qpi s :=
  qpi_cancelTimer_other s _ t (fun cb h => by cases cb <;> simp_all [isSvcExpiryFor, isCollTimeout])

@[simp] theorem qpi_draw (s : Stack) (a b : Nat) : qpi (s.draw a b).1 = qpi s := by
  unfold draw; split <;> rfl
@[simp] theorem qpi_armTtl_sub (s : Stack) (ttl i : Nat) (a : Addr) (k : SubKey) : qpi (s.armTtl ttl (.expiredSub i a k)).1 = qpi s := by
  unfold armTtl; split
  · exact qpi_callLater _ _ _ rfl
  · rfl
@[simp] theorem qpi_armTtl_svc (s : Stack) (ttl : Nat) (a : Addr) (k : SvcKey) : qpi (s.armTtl ttl (.expiredSvc a k)).1 = qpi s := by
  unfold armTtl; split
  · exact qpi_callLater _ _ _ rfl
  · rfl
@[simp] theorem qpi_setInst (s : Stack) (i : Nat) (x : Instance) : qpi (s.setInst i x) = qpi s := rfl
@[simp] theorem qpi_setTask (s : Stack) (i : Tid) (x : TaskSt) : qpi (s.setTask i x) = qpi s := rfl

@[simp] theorem qpi_sendSd (s : Stack) (es : List SDEntry) (d : Dest) : qpi (s.sendSd es d) = qpi s := by
  unfold sendSd; split; rfl; simp only []; split
  · exact (qpi_emit_raised _ _).trans rfl
  · split
    · exact (qpi_emit_raised _ _).trans rfl
    · exact (qpi_emit_send _ _ _).trans rfl

@[simp] theorem qpi_createTask (s : Stack) (k : TaskKind) : qpi (s.createTask k).1 = qpi s := by
  unfold createTask; simp
@[simp] theorem qpi_cancelTask (s : Stack) (t : Tid) : qpi (s.cancelTask t) = qpi s := by
  unfold cancelTask; split; rfl; split; rfl; split <;> simp
@[simp] theorem qpi_sleepFor (s : Stack) (tid : Tid) (t : TaskSt) (d : Nat) (pc : Pc) : qpi (s.sleepFor tid t d pc) = qpi s := by
  unfold sleepFor; split <;> simp
@[simp] theorem qpi_finish (s : Stack) (tid : Tid) (t : TaskSt) : qpi (s.finish tid t) = qpi s := rfl
@[simp] theorem qpi_sleepDone (s : Stack) (tid : Tid) : qpi (s.sleepDone tid) = qpi s := by
  unfold sleepDone; split; rfl; split <;> simp

@[simp] theorem qpi_instStart (s : Stack) (i : Nat) : qpi (s.instStart i) = qpi s := by
  unfold instStart; split; rfl; split; simp; simp only []; split <;> simp

@[simp] theorem qpi_subsStopAllFor (s : Stack) (i : Nat) (a : Addr) : qpi (s.subsStopAllFor i a) = qpi s := by
  unfold subsStopAllFor; split; rfl
  simp only []
  rw [foldl_pres qpi _ (fun s e => by simp)]; rfl

@[simp] theorem qpi_subsStopAll (s : Stack) (i : Nat) : qpi (s.subsStopAll i) = qpi s := by
  unfold subsStopAll; split; rfl
  simp only []
  split
  · simp only [qpi_setInst]; rw [foldl_pres qpi _ (fun s e => by simp)]
  · rw [foldl_pres qpi _ (fun s e => by simp)]

@[simp] theorem qpi_handleFind (s : Stack) (e : SDEntry) (a : Addr) (mc : Bool) : qpi (s.handleFind e a mc) = qpi s := by
  unfold handleFind; simp only []
  split; rfl
  split
  · rw [foldl_pres qpi _ (fun s i => by simp)]; simp
  · rw [foldl_pres qpi _ (fun s i => by simp)]

@[simp] theorem qpi_expiredSub (s : Stack) (i : Nat) (a : Addr) (k : SubKey) : qpi (s.expiredSub i a k) = qpi s := by
  unfold expiredSub; split; rfl; simp only []; split <;> simp

@[simp] theorem qpi_announcerStart (s : Stack) : qpi s.announcerStart = qpi s := by
  unfold announcerStart; simp only []
  show qpi (List.foldl (fun s i => s.instStart i) s s.announceOrder) = qpi s
  rw [foldl_pres qpi _ (fun s i => by simp)]

@[simp] theorem qpi_announcerReboot (s : Stack) (a : Addr) : qpi (s.announcerReboot a) = qpi s := by
  unfold announcerReboot; rw [foldl_pres qpi _ (fun s i => by simp)]

@[simp] theorem qpi_announceService (s : Stack) (i : Nat) : qpi (s.announceService i) = qpi s := by
  unfold announceService; simp only []; split
  · show qpi (s.instStart i) = qpi s; simp
  · rfl

@[simp] theorem qpi_sendSubscribe (s : Stack) (ttl : Nat) (d : Addr) (egs : List Eventgroup) :
    qpi (s.sendSubscribe ttl d egs) = qpi s := by simp [sendSubscribe]

@[simp] theorem qpi_subscribeEventgroup (s : Stack) (g : Eventgroup) (d : Addr) : qpi (s.subscribeEventgroup g d) = qpi s := by
  unfold subscribeEventgroup; simp only []; split <;> simp

@[simp] theorem qpi_stopSubscribeEventgroup (s : Stack) (g : Eventgroup) (d : Addr) (b : Bool) :
    qpi (s.stopSubscribeEventgroup g d b) = qpi s := by
  unfold stopSubscribeEventgroup; split
  · simp only []; split <;> simp
  · rfl

@[simp] theorem qpi_subscriberStart (s : Stack) : qpi s.subscriberStart = qpi s := by
  unfold subscriberStart; split
  · rfl
  · simp only []
    exact (qpi_with_subTask _ _).trans (by simp; rfl)

@[simp] theorem qpi_subscriberStop (s : Stack) (b : Bool) : qpi (s.subscriberStop b) = qpi s := by
  unfold subscriberStop; split; rfl
  simp only []
  have h1 : qpi (match ({ s with alive := false, subLost := !b } : Stack).subTask with
      | some tid => { ({ s with alive := false, subLost := !b } : Stack).cancelTask (.subscribe, tid) with subTask := none }
      | none => ({ s with alive := false, subLost := !b } : Stack)) = qpi s := by
    split
    · show qpi (({ s with alive := false, subLost := !b } : Stack).cancelTask _) = qpi s; rw [qpi_cancelTask]; rfl
    · rfl
  split
  · rw [foldl_pres qpi _ (fun s p => by simp)]; exact h1
  · exact h1

@[simp] theorem qpi_stepSubscribe (s : Stack) (tid : Tid) (t : TaskSt) : qpi (s.stepSubscribe tid t) = qpi s := by
  unfold stepSubscribe
  simp only []
  have key : ∀ st : Stack, qpi (List.foldl (fun s p => s.sendSubscribe s.tm.subscribeTtl p.1 p.2) st (groupEntries st.subEntries)) = qpi st :=
    fun st => foldl_pres qpi _ (fun s p => by simp) _ _
  split
  · split; simp; split <;> simp [key]
  · split; simp; split <;> simp [key]
  · rfl

@[simp] theorem qpi_listenerOffered (s : Stack) (l : Listener) (k : SvcKey) (a : Addr) : qpi (s.listenerOffered l k a) = qpi s := by
  unfold listenerOffered; frame_cases
@[simp] theorem qpi_listenerStopped (s : Stack) (l : Listener) (k : SvcKey) (a : Addr) : qpi (s.listenerStopped l k a) = qpi s := by
  unfold listenerStopped; frame_cases

@[simp] theorem qpi_replay (s : Stack) (b : Bool) (f : Option Service) (l : Listener) : qpi (s.replay b f l) = qpi s := by
  unfold replay
  rw [foldl_pres qpi _ (fun s p => by frame_cases)]

@[simp] theorem qpi_watchService (s : Stack) (f : Service) (l : Listener) : qpi (s.watchService f l) = qpi s := by
  unfold watchService; simp only []; rw [qpi_markDup, qpi_replay]; rfl
@[simp] theorem qpi_stopWatchService (s : Stack) (f : Service) (l : Listener) : qpi (s.stopWatchService f l) = qpi s := by
  unfold stopWatchService; simp only []; split
  · simp
  · rw [qpi_replay]; rfl
@[simp] theorem qpi_watchAllServices (s : Stack) (id : LId) : qpi (s.watchAllServices id) = qpi s := by
  unfold watchAllServices; rw [qpi_markDup, qpi_replay]; rfl
@[simp] theorem qpi_stopWatchAllServices (s : Stack) (id : LId) : qpi (s.stopWatchAllServices id) = qpi s := by
  unfold stopWatchAllServices; split
  · simp
  · rw [qpi_replay]; rfl

@[simp] theorem qpi_stepFind (s : Stack) (tid : Tid) (t : TaskSt) : qpi (s.stepFind tid t) = qpi s := by
  unfold stepFind; frame_cases

@[simp] theorem qpi_discoveryStart (s : Stack) : qpi s.discoveryStart = qpi s := by
  unfold discoveryStart; simp only []
  split
  · split <;> simp
  · simp
@[simp] theorem qpi_discoveryStop (s : Stack) : qpi s.discoveryStop = qpi s := by
  unfold discoveryStop; split
  · show qpi (s.cancelTask _) = qpi s; simp
  · rfl

@[simp] theorem qpi_start (s : Stack) : qpi s.start = qpi s := by simp [start]
@[simp] theorem qpi_connectionLost (s : Stack) : qpi s.connectionLost = qpi s := by simp [connectionLost]


@[simp] theorem qpi_notifyService (s : Stack) (b : Bool) (k : SvcKey) (a : Addr) : qpi (s.notifyService b k a) = qpi s := by
  unfold notifyService
  simp only []
  have hf : ∀ (s : Stack) (l : Listener), qpi (if b = true then s.listenerOffered l k a else s.listenerStopped l k a) = qpi s := by
    intro s l; split <;> simp
  rw [foldl_pres qpi _ (fun s id => hf s _)]
  rw [foldl_pres qpi _ (fun s p => by
    split
    · rw [foldl_pres qpi _ (fun s l => hf s l)]
    · rfl)]
  rfl

@[simp] theorem qpi_foundStop (s : Stack) (a : Addr) (k : SvcKey) : qpi (s.foundStop a k) = qpi s := by
  unfold foundStop; frame_cases

@[simp] theorem qpi_foundRefresh (s : Stack) (ttl : Nat) (a : Addr) (k : SvcKey) : qpi (s.foundRefresh ttl a k) = qpi s := by
  unfold foundRefresh
  simp only [qpi_with_found, qpi_armTtl_svc]
  split <;> simp

@[simp] theorem qpi_handleOffer (s : Stack) (e : SDEntry) (a : Addr) : qpi (s.handleOffer e a) = qpi s := by
  unfold handleOffer; frame_cases

@[simp] theorem qpi_foundStopAllFor (s : Stack) (a : Addr) : qpi (s.foundStopAllFor a) = qpi s := by
  unfold foundStopAllFor; simp only []
  rw [foldl_pres qpi _ (fun s e => by simp)]; rfl

@[simp] theorem qpi_foundStopAll (s : Stack) : qpi s.foundStopAll = qpi s := by
  unfold foundStopAll; simp only []
  show qpi (List.foldl (fun s p => s.foundStopAllFor p.1) s s.found) = qpi s
  rw [foldl_pres qpi _ (fun s e => by simp)]

@[simp] theorem qpi_expiredSvc (s : Stack) (a : Addr) (k : SvcKey) : qpi (s.expiredSvc a k) = qpi s := by
  unfold expiredSvc; frame_cases

@[simp] theorem qpi_rebootDetected (s : Stack) (a : Addr) : qpi (s.rebootDetected a) = qpi s := by
  simp [rebootDetected]



end Stack
end Someip
