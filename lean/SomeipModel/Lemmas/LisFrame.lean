/-
  Frame lemmas for the per-listener history of the discovery (C05): the store of found services, its notification log, the
  registered listeners, the ghost log of the notifications handed to application listeners and the duplicate-registration flag
  are touched only by ServiceDiscover's store functions, the watch / unwatch calls and the listener callbacks.
  Generated from DiscFrame.lean's proof scripts.
-/
import SomeipModel.Lemmas.DiscFrame
namespace Someip
namespace Stack
set_option linter.unusedSimpArgs false

def lsp (s : Stack) : TStore SvcKey × List (Bool × SvcKey × Addr) × List (Service × List Listener) × List LId × List (LId × Bool × SvcKey × Addr) × Bool :=
  (s.found, s.storeLog, s.watched, s.watchAll, s.lisLog, s.lisDup)

@[simp] theorem lsp_with_alive (s : Stack) (x : Bool) : lsp { s with alive := x } = lsp s := rfl
@[simp] theorem lsp_with_subTask (s : Stack) (x : Option Nat) : lsp { s with subTask := x } = lsp s := rfl
@[simp] theorem lsp_with_findTask (s : Stack) (x : Option Nat) : lsp { s with findTask := x } = lsp s := rfl
@[simp] theorem lsp_with_subEntries (s : Stack) (x : List (Eventgroup × Addr)) : lsp { s with subEntries := x } = lsp s := rfl
@[simp] theorem lsp_with_started (s : Stack) (x : Bool) : lsp { s with started := x } = lsp s := rfl
@[simp] theorem lsp_with_announceOrder (s : Stack) (x : List Nat) : lsp { s with announceOrder := x } = lsp s := rfl
@[simp] theorem lsp_with_incoming (s : Stack) (x : Incoming) : lsp { s with incoming := x } = lsp s := rfl
@[simp] theorem lsp_with_draws (s : Stack) (x : List Nat) : lsp { s with draws := x } = lsp s := rfl

@[simp] theorem lsp_emit (s : Stack) (o : Out) : lsp (s.emit o) = lsp s := rfl
@[simp] theorem lsp_callSoon (s : Stack) (cb : Cb) : lsp (s.callSoon cb) = lsp s := rfl
@[simp] theorem lsp_callLater (s : Stack) (d : Nat) (cb : Cb) : lsp (s.callLater d cb).1 = lsp s := rfl
@[simp] theorem lsp_cancelTimer (s : Stack) (own : Cb → Bool) (t : Option Nat) : lsp (s.cancelTimer own t) = lsp s := by
  cases t <;> rfl
@[simp] theorem lsp_draw (s : Stack) (a b : Nat) : lsp (s.draw a b).1 = lsp s := by
  unfold draw; split <;> rfl
@[simp] theorem lsp_armTtl (s : Stack) (ttl : Nat) (cb : Cb) : lsp (s.armTtl ttl cb).1 = lsp s := by
  unfold armTtl; split <;> rfl
@[simp] theorem lsp_setInst (s : Stack) (i : Nat) (x : Instance) : lsp (s.setInst i x) = lsp s := rfl
@[simp] theorem lsp_setTask (s : Stack) (i : Tid) (x : TaskSt) : lsp (s.setTask i x) = lsp s := rfl

@[simp] theorem lsp_sendSd (s : Stack) (es : List SDEntry) (d : Dest) : lsp (s.sendSd es d) = lsp s := by
  unfold sendSd; split; rfl; simp only []; split; rfl; split <;> rfl

@[simp] theorem lsp_with_flushLog (s : Stack) (x : List (Dest × List SDEntry)) : lsp { s with flushLog := x } = lsp s := rfl
@[simp] theorem lsp_with_refreshLog (s : Stack) (x : List (Addr × SvcKey × Nat × Nat)) : lsp { s with refreshLog := x } = lsp s := rfl
@[simp] theorem lsp_with_armLog (s : Stack) (x : List (Cb × Nat × Nat)) : lsp { s with armLog := x } = lsp s := rfl
@[simp] theorem lsp_with_subMarks (s : Stack) (x : List (Option Nat × Nat)) : lsp { s with subMarks := x } = lsp s := rfl
@[simp] theorem lsp_markRound (s : Stack) (n : Nat) : lsp (s.markRound n) = lsp s := rfl
@[simp] theorem lsp_with_subLog (s : Stack) (x : List (Addr × Nat × List Eventgroup)) : lsp { s with subLog := x } = lsp s := rfl
@[simp] theorem lsp_with_findLog (s : Stack) (x : List (Nat × Nat)) : lsp { s with findLog := x } = lsp s := rfl
@[simp] theorem lsp_with_findMarks (s : Stack) (x : List (Nat × Nat)) : lsp { s with findMarks := x } = lsp s := rfl
@[simp] theorem lsp_with_ansLog (s : Stack) (x : List (Nat × Addr × Nat × Nat)) : lsp { s with ansLog := x } = lsp s := rfl
@[simp] theorem lsp_logAnswer (s : Stack) (i : Nat) (a : Addr) (d : Nat) : lsp (s.logAnswer i a d) = lsp s := rfl
@[simp] theorem lsp_markFind (s : Stack) (n : Nat) : lsp (s.markFind n) = lsp s := rfl
@[simp] theorem lsp_with_offLog (s : Stack) (x : List (Nat × OEv × Nat)) : lsp { s with offLog := x } = lsp s := rfl
@[simp] theorem lsp_logOffer (s : Stack) (i : Nat) (e : OEv) : lsp (s.logOffer i e) = lsp s := rfl
@[simp] theorem lsp_with_subDup (s : Stack) (x : Bool) : lsp { s with subDup := x } = lsp s := rfl
@[simp] theorem lsp_with_subLost (s : Stack) (x : Bool) : lsp { s with subLost := x } = lsp s := rfl
@[simp] theorem lsp_with_alive_subLost (s : Stack) (x y : Bool) : lsp { s with alive := x, subLost := y } = lsp s := rfl
@[simp] theorem lsp_with_subDup_subEntries (s : Stack) (x : Bool) (y : List (Eventgroup × Addr)) : lsp { s with subDup := x, subEntries := y } = lsp s := rfl
@[simp] theorem lsp_flushTo (s : Stack) (es : List SDEntry) (d : Dest) : lsp (s.flushTo es d) = lsp s := by
  unfold flushTo; rw [lsp_sendSd]; rfl

@[simp] theorem lsp_newCollector (s : Stack) (d : Dest) : lsp (s.newCollector d).1 = lsp s := rfl
@[simp] theorem lsp_appendCollector (s : Stack) (c : Nat) (e : SDEntry) : lsp (s.appendCollector c e) = lsp s := rfl

@[simp] theorem lsp_queueSend (s : Stack) (e : SDEntry) (d : Dest) : lsp (s.queueSend e d) = lsp s := by
  unfold queueSend; simp only []; split
  · simp
  · split
    · split <;> simp
    · simp

@[simp] theorem lsp_collectorTimeout (s : Stack) (c : Nat) : lsp (s.collectorTimeout c) = lsp s := by
  unfold collectorTimeout; split; rfl; simp only []; rw [lsp_flushTo]; rfl

@[simp] theorem lsp_createTask (s : Stack) (k : TaskKind) : lsp (s.createTask k).1 = lsp s := rfl
@[simp] theorem lsp_cancelTask (s : Stack) (t : Tid) : lsp (s.cancelTask t) = lsp s := by
  unfold cancelTask; split; rfl; split; rfl; split <;> simp
@[simp] theorem lsp_sleepFor (s : Stack) (tid : Tid) (t : TaskSt) (d : Nat) (pc : Pc) : lsp (s.sleepFor tid t d pc) = lsp s := by
  unfold sleepFor; split <;> simp
@[simp] theorem lsp_finish (s : Stack) (tid : Tid) (t : TaskSt) : lsp (s.finish tid t) = lsp s := rfl
@[simp] theorem lsp_sleepDone (s : Stack) (tid : Tid) : lsp (s.sleepDone tid) = lsp s := by
  unfold sleepDone; split; rfl; split <;> simp

@[simp] theorem lsp_sendOffer (s : Stack) (i : Nat) (r : Dest) (b : Bool) : lsp (s.sendOffer i r b) = lsp s := by
  unfold sendOffer; split; rfl; split; rfl; simp

@[simp] theorem lsp_stepOffer (s : Stack) (tid : Tid) (t : TaskSt) (i : Nat) : lsp (s.stepOffer tid t i) = lsp s := by
  unfold stepOffer
  simp only []
  split
  · split <;> simp
  · split
    · simp
    · (repeat' split) <;> simp
  · split
    · (repeat' split) <;> simp
    · (repeat' split) <;> simp
  · split
    · (repeat' split) <;> simp
    · simp
  · rfl

@[simp] theorem lsp_instStart (s : Stack) (i : Nat) : lsp (s.instStart i) = lsp s := by
  unfold instStart; split; rfl; split; simp; simp only []; split <;> simp

@[simp] theorem lsp_subsStopAllFor (s : Stack) (i : Nat) (a : Addr) : lsp (s.subsStopAllFor i a) = lsp s := by
  unfold subsStopAllFor; split; rfl
  simp only []
  rw [foldl_pres lsp _ (fun s e => by simp)]; rfl

@[simp] theorem lsp_subsStopAll (s : Stack) (i : Nat) : lsp (s.subsStopAll i) = lsp s := by
  unfold subsStopAll; split; rfl
  simp only []
  split
  · simp only [lsp_setInst]; rw [foldl_pres lsp _ (fun s e => by simp)]
  · rw [foldl_pres lsp _ (fun s e => by simp)]

@[simp] theorem lsp_instStop (s : Stack) (i : Nat) : lsp (s.instStop i) = lsp s := by
  unfold instStop; split; rfl; split; simp; simp only []; split <;> simp

@[simp] theorem lsp_instHandleSubscribe (s : Stack) (i : Nat) (e : SDEntry) (a : Addr) :
    lsp (s.instHandleSubscribe i e a).1 = lsp s := by
  unfold instHandleSubscribe
  frame_cases

@[simp] theorem lsp_handleSubscribe (s : Stack) (e : SDEntry) (a : Addr) : lsp (s.handleSubscribe e a) = lsp s := by
  unfold handleSubscribe
  simp only []
  have key : ∀ (l : List Nat) (acc : Stack × Bool),
      lsp (l.foldl (fun (acc : Stack × Bool) i => ((acc.1.instHandleSubscribe i e a).1, acc.2 || (acc.1.instHandleSubscribe i e a).2)) acc).1 = lsp acc.1 := by
    intro l; induction l with
    | nil => intro acc; rfl
    | cons x t ih => intro acc; rw [List.foldl_cons, ih]; simp
  split
  · exact key _ _
  · rw [lsp_queueSend]; exact key _ _

@[simp] theorem lsp_handleFind (s : Stack) (e : SDEntry) (a : Addr) (mc : Bool) : lsp (s.handleFind e a mc) = lsp s := by
  unfold handleFind; simp only []
  split; rfl
  split
  · rw [foldl_pres lsp _ (fun s i => by simp)]; simp
  · rw [foldl_pres lsp _ (fun s i => by simp)]

@[simp] theorem lsp_expiredSub (s : Stack) (i : Nat) (a : Addr) (k : SubKey) : lsp (s.expiredSub i a k) = lsp s := by
  unfold expiredSub; split; rfl; simp only []; split <;> simp

@[simp] theorem lsp_announcerStart (s : Stack) : lsp s.announcerStart = lsp s := by
  unfold announcerStart; simp only []
  show lsp (List.foldl (fun s i => s.instStart i) s s.announceOrder) = lsp s
  rw [foldl_pres lsp _ (fun s i => by simp)]

@[simp] theorem lsp_announcerStop (s : Stack) : lsp s.announcerStop = lsp s := by
  unfold announcerStop; split; rfl
  show lsp (List.foldl (fun s i => s.instStop i) s s.announceOrder) = lsp s
  rw [foldl_pres lsp _ (fun s i => by simp)]

@[simp] theorem lsp_announcerReboot (s : Stack) (a : Addr) : lsp (s.announcerReboot a) = lsp s := by
  unfold announcerReboot; rw [foldl_pres lsp _ (fun s i => by simp)]

@[simp] theorem lsp_announceService (s : Stack) (i : Nat) : lsp (s.announceService i) = lsp s := by
  unfold announceService; simp only []; split
  · show lsp (s.instStart i) = lsp s; simp
  · rfl

@[simp] theorem lsp_stopAnnounceService (s : Stack) (i : Nat) (b : Bool) : lsp (s.stopAnnounceService i b) = lsp s := by
  unfold stopAnnounceService; split; simp; simp only []; split
  · rw [lsp_instStop]; rfl
  · rfl

@[simp] theorem lsp_sendSubscribe (s : Stack) (ttl : Nat) (d : Addr) (egs : List Eventgroup) :
    lsp (s.sendSubscribe ttl d egs) = lsp s := by simp [sendSubscribe]

@[simp] theorem lsp_subscribeEventgroup (s : Stack) (g : Eventgroup) (d : Addr) : lsp (s.subscribeEventgroup g d) = lsp s := by
  unfold subscribeEventgroup; simp only []; split <;> rfl

@[simp] theorem lsp_stopSubscribeEventgroup (s : Stack) (g : Eventgroup) (d : Addr) (b : Bool) :
    lsp (s.stopSubscribeEventgroup g d b) = lsp s := by
  unfold stopSubscribeEventgroup; split
  · simp only []; split <;> rfl
  · rfl

@[simp] theorem lsp_subscriberStart (s : Stack) : lsp s.subscriberStart = lsp s := by
  unfold subscriberStart; split <;> rfl

@[simp] theorem lsp_subscriberStop (s : Stack) (b : Bool) : lsp (s.subscriberStop b) = lsp s := by
  unfold subscriberStop; split; rfl
  simp only []
  have h1 : lsp (match ({ s with alive := false, subLost := !b } : Stack).subTask with
      | some tid => { ({ s with alive := false, subLost := !b } : Stack).cancelTask (.subscribe, tid) with subTask := none }
      | none => ({ s with alive := false, subLost := !b } : Stack)) = lsp s := by
    split
    · show lsp (({ s with alive := false, subLost := !b } : Stack).cancelTask _) = lsp s; rw [lsp_cancelTask]; rfl
    · rfl
  split
  · rw [foldl_pres lsp _ (fun s p => by simp)]; exact h1
  · exact h1

@[simp] theorem lsp_stepSubscribe (s : Stack) (tid : Tid) (t : TaskSt) : lsp (s.stepSubscribe tid t) = lsp s := by
  unfold stepSubscribe
  simp only []
  have key : ∀ st : Stack, lsp (List.foldl (fun s p => s.sendSubscribe s.tm.subscribeTtl p.1 p.2) st (groupEntries st.subEntries)) = lsp st :=
    fun st => foldl_pres lsp _ (fun s p => by simp) _ _
  split
  · split; simp; split <;> simp [key]
  · split; simp; split <;> simp [key]
  · rfl

@[simp] theorem lsp_stepFind (s : Stack) (tid : Tid) (t : TaskSt) : lsp (s.stepFind tid t) = lsp s := by
  unfold stepFind; frame_cases

@[simp] theorem lsp_discoveryStart (s : Stack) : lsp s.discoveryStart = lsp s := by
  unfold discoveryStart; simp only []
  split
  · split <;> simp
  · simp
@[simp] theorem lsp_discoveryStop (s : Stack) : lsp s.discoveryStop = lsp s := by
  unfold discoveryStop; split
  · show lsp (s.cancelTask _) = lsp s; simp
  · rfl

@[simp] theorem lsp_start (s : Stack) : lsp s.start = lsp s := by simp [start]
@[simp] theorem lsp_stop (s : Stack) : lsp s.stop = lsp s := by simp [Stack.stop]
@[simp] theorem lsp_connectionLost (s : Stack) : lsp s.connectionLost = lsp s := by simp [connectionLost]


end Stack
end Someip
