/-
  Frame lemmas for the client side of eventgroup subscriptions (C14): the subscriber's running flag, task reference,
  requested pairs, the ghost log of Subscribe / StopSubscribe batches handed to send_sd, its pending callbacks and
  its tasks are touched by nothing outside ServiceSubscriber (and the listeners that call it).  Task identifiers are
  typed by their creator, so the announcer's and the discovery's task operations are frame operations here.
  Same proof scripts as SvcFrame.lean (other projection).
-/
import SomeipModel.Lemmas.SvcFrame
namespace Someip
namespace Stack
set_option linter.unusedSimpArgs false

/-- callbacks of the subscriber that matter for what the server is told -/
def isMirCb : Cb → Bool
  | .sendStartSubscribe _ _ => true
  | .sendStopSubscribe _ _ => true
  | .taskStep (.subscribe, _) => true
  | _ => false
def isSubT (p : Tid × TaskSt) : Bool := decide (p.1.1 = .subscribe)

/-- what the subscription mirror depends on -/
def mpi (s : Stack) : Bool × Option Nat × List (Eventgroup × Addr) × List (Addr × Nat × List Eventgroup) × Bool × Bool × Nat ×
    List (RItem Cb) × List (Timer Cb) × List (Tid × TaskSt) :=
  (s.alive, s.subTask, s.subEntries, s.subLog, s.subDup, s.subLost, s.tm.subscribeTtl,
   s.loop.ready.filter (fun r => isMirCb r.cb), s.loop.timers.filter (fun t => isMirCb t.cb), s.tasks.filter isSubT)

@[simp] theorem mpi_with_watched (s : Stack) (x : List (Service × List Listener)) : mpi { s with watched := x } = mpi s := rfl
@[simp] theorem mpi_with_watchAll (s : Stack) (x : List LId) : mpi { s with watchAll := x } = mpi s := rfl
@[simp] theorem mpi_with_findTask (s : Stack) (x : Option Nat) : mpi { s with findTask := x } = mpi s := rfl
@[simp] theorem mpi_with_started (s : Stack) (x : Bool) : mpi { s with started := x } = mpi s := rfl
@[simp] theorem mpi_with_announceOrder (s : Stack) (x : List Nat) : mpi { s with announceOrder := x } = mpi s := rfl
@[simp] theorem mpi_with_incoming (s : Stack) (x : Incoming) : mpi { s with incoming := x } = mpi s := rfl
@[simp] theorem mpi_with_draws (s : Stack) (x : List Nat) : mpi { s with draws := x } = mpi s := rfl
@[simp] theorem mpi_with_storeLog (s : Stack) (x : List (Bool × SvcKey × Addr)) : mpi { s with storeLog := x } = mpi s := rfl
@[simp] theorem mpi_with_refreshLog (s : Stack) (x : List (Addr × SvcKey × Nat × Nat)) : mpi { s with refreshLog := x } = mpi s := rfl
@[simp] theorem mpi_with_armLog (s : Stack) (x : List (Cb × Nat × Nat)) : mpi { s with armLog := x } = mpi s := rfl
@[simp] theorem mpi_with_subMarks (s : Stack) (x : List (Option Nat × Nat)) : mpi { s with subMarks := x } = mpi s := rfl
@[simp] theorem mpi_markRound (s : Stack) (n : Nat) : mpi (s.markRound n) = mpi s := rfl
@[simp] theorem mpi_with_found_refreshLog (s : Stack) (x : TStore SvcKey) (y : List (Addr × SvcKey × Nat × Nat)) : mpi { s with found := x, refreshLog := y } = mpi s := rfl
@[simp] theorem mpi_with_found (s : Stack) (x : TStore SvcKey) : mpi { s with found := x } = mpi s := rfl
@[simp] theorem mpi_with_found_storeLog (s : Stack) (x : TStore SvcKey) (y : List (Bool × SvcKey × Addr)) : mpi { s with found := x, storeLog := y } = mpi s := rfl
@[simp] theorem mpi_with_collectors (s : Stack) (x : List Collector) : mpi { s with collectors := x } = mpi s := rfl
@[simp] theorem mpi_with_nextCid (s : Stack) (x : Nat) : mpi { s with nextCid := x } = mpi s := rfl
@[simp] theorem mpi_with_outgoing (s : Stack) (x : Outgoing) : mpi { s with outgoing := x } = mpi s := rfl
@[simp] theorem mpi_with_sendLog (s : Stack) (x : List (Dest × (Bool × Nat))) : mpi { s with sendLog := x } = mpi s := rfl
@[simp] theorem mpi_with_outgoing_sendLog (s : Stack) (x : Outgoing) (y : List (Dest × (Bool × Nat))) : mpi { s with outgoing := x, sendLog := y } = mpi s := rfl
@[simp] theorem mpi_with_findLog (s : Stack) (x : List (Nat × Nat)) : mpi { s with findLog := x } = mpi s := rfl
@[simp] theorem mpi_with_findMarks (s : Stack) (x : List (Nat × Nat)) : mpi { s with findMarks := x } = mpi s := rfl
@[simp] theorem mpi_with_ansLog (s : Stack) (x : List (Nat × Addr × Nat × Nat)) : mpi { s with ansLog := x } = mpi s := rfl
@[simp] theorem mpi_with_lisLog (s : Stack) (x : List (LId × Bool × SvcKey × Addr)) : mpi { s with lisLog := x } = mpi s := rfl
@[simp] theorem mpi_logLis (s : Stack) (id : LId) (o : Bool) (k : SvcKey) (a : Addr) : mpi (s.logLis id o k a) = mpi s := rfl
@[simp] theorem mpi_with_lisDup (s : Stack) (x : Bool) : mpi { s with lisDup := x } = mpi s := rfl
@[simp] theorem mpi_markDup (s : Stack) (d : Bool) : mpi (s.markDup d) = mpi s := rfl
@[simp] theorem mpi_logAnswer (s : Stack) (i : Nat) (a : Addr) (d : Nat) : mpi (s.logAnswer i a d) = mpi s := rfl
@[simp] theorem mpi_markFind (s : Stack) (n : Nat) : mpi (s.markFind n) = mpi s := rfl
@[simp] theorem mpi_with_offLog (s : Stack) (x : List (Nat × OEv × Nat)) : mpi { s with offLog := x } = mpi s := rfl
@[simp] theorem mpi_logOffer (s : Stack) (i : Nat) (e : OEv) : mpi (s.logOffer i e) = mpi s := rfl
@[simp] theorem mpi_with_flushLog (s : Stack) (x : List (Dest × List SDEntry)) : mpi { s with flushLog := x } = mpi s := rfl
@[simp] theorem mpi_with_instances (s : Stack) (x : List Instance) : mpi { s with instances := x } = mpi s := rfl
@[simp] theorem mpi_with_outs (s : Stack) (x : List (Nat × Out)) : mpi { s with outs := x } = mpi s := rfl
@[simp] theorem mpi_with_coll_nextCid (s : Stack) (x : List Collector) (y : Nat) : mpi { s with collectors := x, nextCid := y } = mpi s := rfl

@[simp] theorem mpi_emit (s : Stack) (o : Out) : mpi (s.emit o) = mpi s := rfl

theorem mpi_callSoon (s : Stack) (cb : Cb) (h : isMirCb cb = false) : mpi (s.callSoon cb) = mpi s := by
  simp [mpi, callSoon, Loop.callSoon, List.filter_append, h]
theorem mpi_callLater (s : Stack) (d : Nat) (cb : Cb) (h : isMirCb cb = false) : mpi (s.callLater d cb).1 = mpi s := by
  simp [mpi, callLater, Loop.callLater, List.filter_append, h]

@[simp] theorem mpi_callSoon_connLost (s : Stack) (p : Part) : mpi (s.callSoon (.connLost p)) = mpi s := mpi_callSoon _ _ rfl
@[simp] theorem mpi_callLater_connLost (s : Stack) (d : Nat) (p : Part) : mpi (s.callLater d (.connLost p)).1 = mpi s := mpi_callLater _ _ _ rfl
@[simp] theorem mpi_callSoon_expiredSvc (s : Stack) (a : Addr) (k : SvcKey) : mpi (s.callSoon (.expiredSvc a k)) = mpi s := mpi_callSoon _ _ rfl
@[simp] theorem mpi_callLater_expiredSvc (s : Stack) (d : Nat) (a : Addr) (k : SvcKey) : mpi (s.callLater d (.expiredSvc a k)).1 = mpi s := mpi_callLater _ _ _ rfl
@[simp] theorem mpi_callSoon_expiredSub (s : Stack) (i : Nat) (a : Addr) (k : SubKey) : mpi (s.callSoon (.expiredSub i a k)) = mpi s := mpi_callSoon _ _ rfl
@[simp] theorem mpi_callLater_expiredSub (s : Stack) (d : Nat) (i : Nat) (a : Addr) (k : SubKey) : mpi (s.callLater d (.expiredSub i a k)).1 = mpi s := mpi_callLater _ _ _ rfl
@[simp] theorem mpi_callSoon_sendOfferTo (s : Stack) (i : Nat) (a : Addr) : mpi (s.callSoon (.sendOfferTo i a)) = mpi s := mpi_callSoon _ _ rfl
@[simp] theorem mpi_callLater_sendOfferTo (s : Stack) (d : Nat) (i : Nat) (a : Addr) : mpi (s.callLater d (.sendOfferTo i a)).1 = mpi s := mpi_callLater _ _ _ rfl
@[simp] theorem mpi_callSoon_collectorTimeout (s : Stack) (c : Nat) : mpi (s.callSoon (.collectorTimeout c)) = mpi s := mpi_callSoon _ _ rfl
@[simp] theorem mpi_callLater_collectorTimeout (s : Stack) (d : Nat) (c : Nat) : mpi (s.callLater d (.collectorTimeout c)).1 = mpi s := mpi_callLater _ _ _ rfl
@[simp] theorem mpi_callSoon_sleepDone (s : Stack) (t : Tid) : mpi (s.callSoon (.sleepDone t)) = mpi s := mpi_callSoon _ _ rfl
@[simp] theorem mpi_callLater_sleepDone (s : Stack) (d : Nat) (t : Tid) : mpi (s.callLater d (.sleepDone t)).1 = mpi s := mpi_callLater _ _ _ rfl

theorem isMir_taskStep_other {tid : Tid} (h : tid.1 ≠ .subscribe) : isMirCb (.taskStep tid) = false := by
  obtain ⟨k, n⟩ := tid
  cases k <;> simp_all [isMirCb]
theorem mpi_callSoon_taskStep (s : Stack) (t : Tid) (h : t.1 ≠ .subscribe) : mpi (s.callSoon (.taskStep t)) = mpi s :=
  mpi_callSoon _ _ (isMir_taskStep_other h)

/-- cancelling a timer handle of any component: no subscriber callback is ever a timer -/
theorem mpi_cancelTimer_other (s : Stack) (own : Cb → Bool) (t : Option Nat) (h : ∀ cb, own cb = true → isMirCb cb = false) :
    mpi (s.cancelTimer own t) = mpi s := by
  cases t with
  | none => rfl
  | some q =>
    simp only [mpi, cancelTimer, Loop.cancelOpt, Loop.cancel, List.filter_filter]
    refine Prod.ext rfl (Prod.ext rfl (Prod.ext rfl (Prod.ext rfl (Prod.ext rfl (Prod.ext rfl (Prod.ext rfl (Prod.ext ?_ (Prod.ext ?_ rfl))))))))
    · apply List.filter_congr; intro x _
      cases h1 : isMirCb x.cb
      · simp
      · have : own x.cb = false := by
          cases h2 : own x.cb
          · rfl
          · have := h _ h2; rw [h1] at this; cases this
        simp [this]
    · apply List.filter_congr; intro x _
      cases h1 : isMirCb x.cb
      · simp
      · have : own x.cb = false := by
          cases h2 : own x.cb
          · rfl
          · have := h _ h2; rw [h1] at this; cases this
        simp [this]
@[simp] theorem mpi_cancelTimer_sub (s : Stack) (t : Option Nat) : mpi (s.cancelTimer isSubExpiry t) = mpi s :=
  mpi_cancelTimer_other s _ t (fun cb h => by cases cb <;> simp_all [isSubExpiry, isMirCb])
@[simp] theorem mpi_cancelTimer_subFor (s : Stack) (i : Nat) (a : Addr) (k : SubKey) (t : Option Nat) : mpi (s.cancelTimer (isSubExpiryFor i a k) t) = mpi s :=
  mpi_cancelTimer_other s _ t (fun cb h => by cases cb <;> simp_all [isSubExpiryFor, isMirCb])
@[simp] theorem mpi_cancelTimer_svc (s : Stack) (t : Option Nat) : mpi (s.cancelTimer isSvcExpiry t) = mpi s :=
  mpi_cancelTimer_other s _ t (fun cb h => by cases cb <;> simp_all [isSvcExpiry, isMirCb])
@[simp] theorem mpi_cancelTimer_svcFor (s : Stack) (a : Addr) (k : SvcKey) (t : Option Nat) : mpi (s.cancelTimer (isSvcExpiryFor a k) t) = mpi s :=
  mpi_cancelTimer_other s _ t (fun cb h => by cases cb <;> simp_all [isSvcExpiryFor, isMirCb])
@[simp] theorem mpi_cancelTimer_sleep (s : Stack) (tid : Tid) (t : Option Nat) : mpi (s.cancelTimer (isSleepFor tid) t) = mpi s :=
  mpi_cancelTimer_other s _ t (fun cb h => by cases cb <;> simp_all [isSleepFor, isMirCb])

@[simp] theorem isMir_connLost (p : Part) : isMirCb (.connLost p) = false := rfl
@[simp] theorem isMir_expiredSvc (a : Addr) (k : SvcKey) : isMirCb (.expiredSvc a k) = false := rfl
@[simp] theorem isMir_expiredSub (i : Nat) (a : Addr) (k : SubKey) : isMirCb (.expiredSub i a k) = false := rfl
@[simp] theorem isMir_sendOfferTo (i : Nat) (a : Addr) : isMirCb (.sendOfferTo i a) = false := rfl
@[simp] theorem isMir_collectorTimeout (c : Nat) : isMirCb (.collectorTimeout c) = false := rfl
@[simp] theorem isMir_sleepDone (t : Tid) : isMirCb (.sleepDone t) = false := rfl

/-! task operations of the other components (typed task ids) -/

theorem filter_map_keep {α : Type} (q : α → Bool) (f : α → α) (l : List α) (h : ∀ p ∈ l, f p = p ∨ (q p = false ∧ q (f p) = false)) :
    (l.map f).filter q = l.filter q := by
  induction l with
  | nil => rfl
  | cons a t ih =>
    have ht := ih (fun p hp => h p (List.mem_cons_of_mem _ hp))
    rcases h a List.mem_cons_self with h1 | ⟨h1, h2⟩
    · simp [List.filter_cons, h1, ht]
    · simp [List.filter_cons, h1, h2, ht]

theorem mpi_setTask (s : Stack) (tid : Tid) (x : TaskSt) (h : tid.1 ≠ .subscribe) : mpi (s.setTask tid x) = mpi s := by
  simp only [mpi, setTask]
  refine Prod.ext rfl (Prod.ext rfl (Prod.ext rfl (Prod.ext rfl (Prod.ext rfl (Prod.ext rfl (Prod.ext rfl (Prod.ext rfl (Prod.ext rfl ?_))))))))
  apply filter_map_keep
  intro p _
  by_cases hp : p.1 = tid
  · right; simp [hp, isSubT, h]
  · left; simp [hp]

theorem mpi_createTask (s : Stack) (k : TaskKind) (h : k ≠ .subscribe) : mpi (s.createTask k).1 = mpi s := by
  unfold createTask; simp only []
  rw [mpi_callSoon_taskStep _ _ h]
  simp [mpi, List.filter_append, isSubT, h]
@[simp] theorem mpi_createTask_offer (s : Stack) (i : Nat) : mpi (s.createTask (.offer i)).1 = mpi s := mpi_createTask _ _ (by simp)
@[simp] theorem mpi_createTask_find (s : Stack) : mpi (s.createTask .find).1 = mpi s := mpi_createTask _ _ (by simp)

theorem mpi_cancelTask (s : Stack) (t : Tid) (h : t.1 ≠ .subscribe) : mpi (s.cancelTask t) = mpi s := by
  unfold cancelTask; split; rfl; split; rfl; split
  · rw [mpi_callSoon_taskStep _ _ h, mpi_setTask _ _ _ h]
  · rw [mpi_setTask _ _ _ h]
@[simp] theorem mpi_cancelTask_offer (s : Stack) (i n : Nat) : mpi (s.cancelTask (.offer i, n)) = mpi s := mpi_cancelTask _ _ (by simp)
@[simp] theorem mpi_cancelTask_find (s : Stack) (n : Nat) : mpi (s.cancelTask (.find, n)) = mpi s := mpi_cancelTask _ _ (by simp)
theorem mpi_sleepFor (s : Stack) (tid : Tid) (t : TaskSt) (d : Nat) (pc : Pc) (h : tid.1 ≠ .subscribe) : mpi (s.sleepFor tid t d pc) = mpi s := by
  unfold sleepFor; split
  · rw [mpi_callSoon_taskStep _ _ h, mpi_setTask _ _ _ h]
  · simp only []; rw [mpi_setTask _ _ _ h]; simp
theorem mpi_finish (s : Stack) (tid : Tid) (t : TaskSt) (h : tid.1 ≠ .subscribe) : mpi (s.finish tid t) = mpi s := by
  unfold finish; rw [mpi_setTask _ _ _ h]
theorem mpi_sleepDone (s : Stack) (tid : Tid) (h : tid.1 ≠ .subscribe) : mpi (s.sleepDone tid) = mpi s := by
  unfold sleepDone; split; rfl; split
  · rw [mpi_callSoon_taskStep _ _ h, mpi_setTask _ _ _ h]
  · rfl

@[simp] theorem mpi_draw (s : Stack) (a b : Nat) : mpi (s.draw a b).1 = mpi s := by
  unfold draw; split <;> rfl
theorem mpi_armTtl (s : Stack) (ttl : Nat) (cb : Cb) (h : isMirCb cb = false) : mpi (s.armTtl ttl cb).1 = mpi s := by
  unfold armTtl; split
  · exact mpi_callLater _ _ _ h
  · rfl
@[simp] theorem mpi_armTtl_sub (s : Stack) (ttl i : Nat) (a : Addr) (k : SubKey) : mpi (s.armTtl ttl (.expiredSub i a k)).1 = mpi s :=
  mpi_armTtl _ _ _ rfl
@[simp] theorem mpi_setInst (s : Stack) (i : Nat) (x : Instance) : mpi (s.setInst i x) = mpi s := rfl
@[simp] theorem mpi_sendSd (s : Stack) (es : List SDEntry) (d : Dest) : mpi (s.sendSd es d) = mpi s := by
  unfold sendSd; split; rfl; simp only []; split; rfl; split <;> rfl

@[simp] theorem mpi_flushTo (s : Stack) (es : List SDEntry) (d : Dest) : mpi (s.flushTo es d) = mpi s := by
  unfold flushTo; rw [mpi_sendSd]; rfl

@[simp] theorem mpi_newCollector (s : Stack) (d : Dest) : mpi (s.newCollector d).1 = mpi s := by
  unfold newCollector; simp only []
  exact (mpi_with_coll_nextCid _ _ _).trans (by simp)
@[simp] theorem mpi_appendCollector (s : Stack) (c : Nat) (e : SDEntry) : mpi (s.appendCollector c e) = mpi s := rfl

@[simp] theorem mpi_queueSend (s : Stack) (e : SDEntry) (d : Dest) : mpi (s.queueSend e d) = mpi s := by
  unfold queueSend; simp only []; split
  · simp
  · split
    · split <;> simp
    · simp

@[simp] theorem mpi_collectorTimeout (s : Stack) (c : Nat) : mpi (s.collectorTimeout c) = mpi s := by
  unfold collectorTimeout; split; rfl; simp only []; rw [mpi_flushTo]; rfl

@[simp] theorem mpi_sendOffer (s : Stack) (i : Nat) (r : Dest) (b : Bool) : mpi (s.sendOffer i r b) = mpi s := by
  unfold sendOffer; split; rfl; split; rfl; simp

@[simp] theorem mpi_subsStopAllFor (s : Stack) (i : Nat) (a : Addr) : mpi (s.subsStopAllFor i a) = mpi s := by
  unfold subsStopAllFor; split; rfl
  simp only []
  rw [foldl_pres mpi _ (fun s e => by simp)]; rfl

@[simp] theorem mpi_subsStopAll (s : Stack) (i : Nat) : mpi (s.subsStopAll i) = mpi s := by
  unfold subsStopAll; split; rfl
  simp only []
  split
  · simp only [mpi_setInst]; rw [foldl_pres mpi _ (fun s e => by simp)]
  · rw [foldl_pres mpi _ (fun s e => by simp)]


theorem mpi_stepOffer (s : Stack) (tid : Tid) (t : TaskSt) (i : Nat) (h : tid.1 ≠ .subscribe) : mpi (s.stepOffer tid t i) = mpi s := by
  unfold stepOffer
  simp only []
  have hs := fun (X : Stack) (t' : TaskSt) (d : Nat) (pc : Pc) => mpi_sleepFor X tid t' d pc h
  have hf := fun (X : Stack) (t' : TaskSt) => mpi_finish X tid t' h
  split
  · split <;> simp [hs, hf]
  · split
    · simp [hs, hf]
    · (repeat' split) <;> simp [hs, hf]
  · split
    · (repeat' split) <;> simp [hs, hf]
    · (repeat' split) <;> simp [hs, hf]
  · split
    · (repeat' split) <;> simp [hs, hf]
    · simp [hs, hf]
  · rfl

@[simp] theorem mpi_instStart (s : Stack) (i : Nat) : mpi (s.instStart i) = mpi s := by
  unfold instStart; split; rfl; split; simp; simp only []; split <;> simp

@[simp] theorem mpi_instStop (s : Stack) (i : Nat) : mpi (s.instStop i) = mpi s := by
  unfold instStop; split; rfl; split; simp; simp only []; split <;> simp

@[simp] theorem mpi_instHandleSubscribe (s : Stack) (i : Nat) (e : SDEntry) (a : Addr) :
    mpi (s.instHandleSubscribe i e a).1 = mpi s := by
  unfold instHandleSubscribe
  frame_cases

@[simp] theorem mpi_handleSubscribe (s : Stack) (e : SDEntry) (a : Addr) : mpi (s.handleSubscribe e a) = mpi s := by
  unfold handleSubscribe
  simp only []
  have key : ∀ (l : List Nat) (acc : Stack × Bool),
      mpi (l.foldl (fun (acc : Stack × Bool) i => ((acc.1.instHandleSubscribe i e a).1, acc.2 || (acc.1.instHandleSubscribe i e a).2)) acc).1 = mpi acc.1 := by
    intro l; induction l with
    | nil => intro acc; rfl
    | cons x t ih => intro acc; rw [List.foldl_cons, ih]; simp
  split
  · exact key _ _
  · rw [mpi_queueSend]; exact key _ _

@[simp] theorem mpi_handleFind (s : Stack) (e : SDEntry) (a : Addr) (mc : Bool) : mpi (s.handleFind e a mc) = mpi s := by
  unfold handleFind; simp only []
  split; rfl
  split
  · rw [foldl_pres mpi _ (fun s i => by simp)]; simp
  · rw [foldl_pres mpi _ (fun s i => by simp)]

@[simp] theorem mpi_expiredSub (s : Stack) (i : Nat) (a : Addr) (k : SubKey) : mpi (s.expiredSub i a k) = mpi s := by
  unfold expiredSub; split; rfl; simp only []; split <;> simp

@[simp] theorem mpi_announcerStart (s : Stack) : mpi s.announcerStart = mpi s := by
  unfold announcerStart; simp only []
  show mpi (List.foldl (fun s i => s.instStart i) s s.announceOrder) = mpi s
  rw [foldl_pres mpi _ (fun s i => by simp)]

@[simp] theorem mpi_announcerStop (s : Stack) : mpi s.announcerStop = mpi s := by
  unfold announcerStop; split; rfl
  show mpi (List.foldl (fun s i => s.instStop i) s s.announceOrder) = mpi s
  rw [foldl_pres mpi _ (fun s i => by simp)]

@[simp] theorem mpi_announcerReboot (s : Stack) (a : Addr) : mpi (s.announcerReboot a) = mpi s := by
  unfold announcerReboot; rw [foldl_pres mpi _ (fun s i => by simp)]

@[simp] theorem mpi_announceService (s : Stack) (i : Nat) : mpi (s.announceService i) = mpi s := by
  unfold announceService; simp only []; split
  · show mpi (s.instStart i) = mpi s; simp
  · rfl

@[simp] theorem mpi_stopAnnounceService (s : Stack) (i : Nat) (b : Bool) : mpi (s.stopAnnounceService i b) = mpi s := by
  unfold stopAnnounceService; split; simp; simp only []; split
  · rw [mpi_instStop]; rfl
  · rfl
theorem mpi_stepFind (s : Stack) (tid : Tid) (t : TaskSt) (h : tid.1 ≠ .subscribe) : mpi (s.stepFind tid t) = mpi s := by
  unfold stepFind
  simp only []
  have hs := fun (X : Stack) (t' : TaskSt) (d : Nat) (pc : Pc) => mpi_sleepFor X tid t' d pc h
  have hf := fun (X : Stack) (t' : TaskSt) => mpi_finish X tid t' h
  (repeat' split) <;> simp [hs, hf]

@[simp] theorem mpi_discoveryStart (s : Stack) : mpi s.discoveryStart = mpi s := by
  unfold discoveryStart; simp only []
  have h : mpi ({ (s.createTask .find).1 with findTask := some (s.createTask .find).2 } : Stack) = mpi s :=
    (mpi_with_findTask _ _).trans (mpi_createTask_find _)
  split
  · split
    · rfl
    · exact h
  · exact h

@[simp] theorem mpi_discoveryStop (s : Stack) : mpi s.discoveryStop = mpi s := by
  unfold discoveryStop; split
  · exact (mpi_with_findTask _ _).trans (mpi_cancelTask_find _ _)
  · rfl


end Stack
end Someip
