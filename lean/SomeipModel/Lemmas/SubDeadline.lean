/-
  C06 / C09 for the subscription stores: the deadline of the expiry handle of a subscription.  `armLog` (ghost) records
  (expiry callback, time, ttl) of every TimedStore.refresh that stores an entry.  Invariant `DLU`: every scheduled expiry
  handle of (instance i, address a, key k) has the deadline `T + ttl` where (T, ttl) is the MOST RECENT arming for exactly that
  handle identity.  It rests on the handle invariant of the subscription stores (SubTimerInv: when a Subscribe is stored, no
  older handle of that identity is pending any more).  Lifting scripts as in LoopInv.lean.
-/
import SomeipModel.Lemmas.SubTimerLift
import SomeipModel.Lemmas.LoopInv
namespace Someip
namespace Stack
set_option linter.unusedSimpArgs false
set_option linter.unusedVariables false

/-- time and TTL of the most recent arming whose callback satisfies `p` -/
def lastArm (log : List (Cb × Nat × Nat)) (p : Cb → Bool) : Option (Nat × Nat) :=
  ((log.filter (fun e => p e.1)).getLast?).map (fun e => (e.2.1, e.2.2))

theorem lastArm_append_hit (log : List (Cb × Nat × Nat)) (p : Cb → Bool) (cb : Cb) (T ttl : Nat) (h : p cb = true) :
    lastArm (log ++ [(cb, T, ttl)]) p = some (T, ttl) := by
  simp [lastArm, List.filter_append, List.filter_cons, h]
theorem lastArm_append_miss (log : List (Cb × Nat × Nat)) (p : Cb → Bool) (cb : Cb) (T ttl : Nat) (h : p cb = false) :
    lastArm (log ++ [(cb, T, ttl)]) p = lastArm log p := by
  simp [lastArm, List.filter_append, List.filter_cons, h]

def DLU (s : Stack) : Prop :=
  ∀ t ∈ s.loop.timers, ∀ i a k, t.cb = .expiredSub i a k →
    ∃ T ttl, lastArm s.armLog (isSubExpiryFor i a k) = some (T, ttl) ∧ t.deadline = T + ttl * TICKS_PER_S

theorem dlu_same {s s' : Stack} (h1 : s'.loop.timers = s.loop.timers) (h2 : s'.armLog = s.armLog) (hi : DLU s) : DLU s' := by
  unfold DLU; rw [h1, h2]; exact hi

theorem dlu_callLater (s : Stack) (d : Nat) (cb : Cb) (hcb : isSubExpiry cb = false) (hi : DLU s) : DLU (s.callLater d cb).1 := by
  intro t ht i a k hc
  simp only [callLater, Loop.callLater, List.mem_append, List.mem_cons, List.not_mem_nil, or_false] at ht
  rcases ht with ht | rfl
  · exact hi t ht i a k hc
  · simp only [] at hc; rw [hc] at hcb; cases hcb
theorem dlu_cancelTimer (s : Stack) (own : Cb → Bool) (q : Option Nat) (hi : DLU s) : DLU (s.cancelTimer own q) := by
  cases q with
  | none => exact hi
  | some n =>
    intro t ht
    simp only [cancelTimer, Loop.cancelOpt, Loop.cancel, List.mem_filter] at ht
    exact hi t ht.1

/-- arming a handle of the OTHER store -/
theorem dlu_armTtl_other (s : Stack) (ttl : Nat) (cb : Cb) (hcb : isSubExpiry cb = false) (hi : DLU s) : DLU (s.armTtl ttl cb).1 := by
  have hmiss : ∀ i a k, isSubExpiryFor i a k cb = false := by
    intro i a k
    cases h : isSubExpiryFor i a k cb
    · rfl
    · rw [forU_sub h] at hcb; cases hcb
  have h0 : DLU ({ s with armLog := s.armLog ++ [(cb, s.loop.now, ttl)] } : Stack) := by
    intro t ht i a k hc
    obtain ⟨T, ttl', h1, h2⟩ := hi t ht i a k hc
    exact ⟨T, ttl', by show lastArm (s.armLog ++ [(cb, s.loop.now, ttl)]) _ = _; rw [lastArm_append_miss _ _ _ _ _ (hmiss i a k)]; exact h1, h2⟩
  unfold armTtl; simp only []; split
  · exact dlu_callLater _ _ _ hcb h0
  · exact h0

/-- arming the handle of a subscription, when no older handle of that identity is pending -/
theorem dlu_armTtl_sub (X : Stack) (ttl i : Nat) (a : Addr) (k : SubKey) (hi : DLU X) (hXk : hTU X i a k = []) :
    DLU (X.armTtl ttl (.expiredSub i a k)).1 := by
  have hold : ∀ t ∈ X.loop.timers, ∀ i' a' k', t.cb = .expiredSub i' a' k' →
      ∃ T ttl', lastArm (X.armLog ++ [(Cb.expiredSub i a k, X.loop.now, ttl)]) (isSubExpiryFor i' a' k') = some (T, ttl') ∧
        t.deadline = T + ttl' * TICKS_PER_S := by
    intro t ht i' a' k' hc
    by_cases hsame : i' = i ∧ a' = a ∧ k' = k
    · obtain ⟨rfl, rfl, rfl⟩ := hsame
      have : t.seq ∈ hTU X i' a' k' := by
        unfold hTU
        exact List.mem_map.mpr ⟨t, List.mem_filter.mpr ⟨ht, by rw [hc]; exact forU_iff.mpr rfl⟩, rfl⟩
      rw [hXk] at this; cases this
    · obtain ⟨T, ttl', h1, h2⟩ := hi t ht i' a' k' hc
      refine ⟨T, ttl', ?_, h2⟩
      rw [lastArm_append_miss _ _ _ _ _ (forU_other (forU_iff.mpr rfl) hsame)]; exact h1
  unfold armTtl; simp only []; split
  · intro t ht i' a' k' hc
    simp only [callLater, Loop.callLater, List.mem_append, List.mem_cons, List.not_mem_nil, or_false] at ht
    rcases ht with ht | rfl
    · exact hold t ht i' a' k' hc
    · simp only [Cb.expiredSub.injEq] at hc
      obtain ⟨rfl, rfl, rfl⟩ := hc
      exact ⟨X.loop.now, ttl, lastArm_append_hit _ _ _ _ _ (forU_iff.mpr rfl), rfl⟩
  · intro t ht i' a' k' hc
    exact hold t ht i' a' k' hc

theorem dlu_callSoon (s : Stack) (cb : Cb) (hi : DLU s) : DLU (s.callSoon cb) := hi
theorem dlu_emit (s : Stack) (o : Out) (hi : DLU s) : DLU (s.emit o) := hi
theorem dlu_setInst (s : Stack) (i : Nat) (x : Instance) (hi : DLU s) : DLU (s.setInst i x) := hi
theorem dlu_setTask (s : Stack) (tid : Tid) (t : TaskSt) (hi : DLU s) : DLU (s.setTask tid t) := hi

theorem dlu_foldl {α : Type} (f : Stack → α → Stack) (h : ∀ s a, DLU s → DLU (f s a)) (l : List α) (s : Stack) (hi : DLU s) :
    DLU (l.foldl f s) := by
  induction l generalizing s with
  | nil => exact hi
  | cons a t ih => rw [List.foldl_cons]; exact ih _ (h s a hi)

theorem dlu_draw (s : Stack) (a b : Nat) (hi : DLU s) : DLU (s.draw a b).1 := by unfold draw; split <;> exact hi

theorem dlu_sendSd (s : Stack) (es : List SDEntry) (d : Dest) (hi : DLU s) : DLU (s.sendSd es d) := by
  unfold sendSd; split; exact hi; simp only []; split; exact hi; split <;> exact hi
theorem dlu_flushTo (s : Stack) (es : List SDEntry) (d : Dest) (hi : DLU s) : DLU (s.flushTo es d) := by
  unfold flushTo; exact dlu_sendSd _ _ _ hi
theorem dlu_newCollector (s : Stack) (d : Dest) (hi : DLU s) : DLU (s.newCollector d).1 := by
  unfold newCollector; exact dlu_callLater s _ _ rfl hi
theorem dlu_appendCollector (s : Stack) (c : Nat) (e : SDEntry) (hi : DLU s) : DLU (s.appendCollector c e) := hi
theorem dlu_createTask (s : Stack) (k : TaskKind) (hi : DLU s) : DLU (s.createTask k).1 := hi
theorem dlu_cancelTask (s : Stack) (t : Tid) (hi : DLU s) : DLU (s.cancelTask t) := by
  unfold cancelTask; split; exact hi; split; exact hi; split <;> exact hi
theorem dlu_sleepFor (s : Stack) (tid : Tid) (t : TaskSt) (d : Nat) (pc : Pc) (hi : DLU s) : DLU (s.sleepFor tid t d pc) := by
  unfold sleepFor; split
  · exact hi
  · exact dlu_callLater s _ _ rfl hi
theorem dlu_finish (s : Stack) (tid : Tid) (t : TaskSt) (hi : DLU s) : DLU (s.finish tid t) := hi
theorem dlu_sleepDone (s : Stack) (tid : Tid) (hi : DLU s) : DLU (s.sleepDone tid) := by
  unfold sleepDone; split; exact hi; split <;> exact hi

/-- split conditionals, apply the lemmas of the functions below -/
macro "dlu" : tactic => `(tactic| repeat' (first
  | assumption
  | with_reducible apply dlu_cancelTimer
  | with_reducible apply dlu_callSoon
  | with_reducible apply dlu_emit
  | with_reducible apply dlu_setInst
  | with_reducible apply dlu_setTask
  | with_reducible apply dlu_draw
  | with_reducible apply dlu_sendSd
  | with_reducible apply dlu_flushTo
  | with_reducible apply dlu_newCollector
  | with_reducible apply dlu_appendCollector
  | with_reducible apply dlu_createTask
  | with_reducible apply dlu_cancelTask
  | with_reducible apply dlu_sleepFor
  | with_reducible apply dlu_finish
  | with_reducible apply dlu_sleepDone
  | split))

theorem dlu_queueSend (s : Stack) (e : SDEntry) (d : Dest) (hi : DLU s) : DLU (s.queueSend e d) := by
  unfold queueSend; simp only []; dlu
theorem dlu_collectorTimeout (s : Stack) (c : Nat) (hi : DLU s) : DLU (s.collectorTimeout c) := by
  unfold collectorTimeout; split
  · exact hi
  · exact dlu_flushTo _ _ _ hi
theorem dlu_sendOffer (s : Stack) (i : Nat) (r : Dest) (b : Bool) (hi : DLU s) : DLU (s.sendOffer i r b) := by
  unfold sendOffer; split; exact hi; split; exact hi; exact dlu_queueSend _ _ _ hi

theorem dlu_stepOffer (s : Stack) (tid : Tid) (t : TaskSt) (i : Nat) (hi : DLU s) : DLU (s.stepOffer tid t i) := by
  have hso : ∀ (X : Stack) (r : Dest) (b : Bool), DLU X → DLU (X.sendOffer i r b) := fun X r b h => dlu_sendOffer X i r b h
  have hmatch : ∀ (X : Stack) (c : Bool), DLU X → DLU (match X.getInst i with | some x => X.setInst i { x with canAnswer := c } | none => X) := by
    intro X c h; split <;> exact h
  unfold stepOffer
  simp only []
  have hcancel : ∀ X : Stack, DLU X → DLU ((if (match X.getInst i with | some x => X.setInst i { x with canAnswer := false } | none => X).tm.cyclicOfferDelay ≠ 0
      then (match X.getInst i with | some x => X.setInst i { x with canAnswer := false } | none => X).sendOffer i none true
      else (match X.getInst i with | some x => X.setInst i { x with canAnswer := false } | none => X)).finish tid t) := by
    intro X hX
    apply dlu_finish
    have hm := hmatch X false hX
    generalize (match X.getInst i with | some x => X.setInst i { x with canAnswer := false } | none => X) = Y at hm ⊢
    split
    · exact hso _ _ _ hm
    · exact hm
  have hafter : ∀ (X : Stack) (k : Nat), DLU X → DLU (if k < X.tm.repetitionsMax then X.sleepFor tid t (pow2 k * X.tm.repetitionsBaseDelay) (.rep k)
      else if X.tm.cyclicOfferDelay = 0 then X.finish tid t else X.sleepFor tid t X.tm.cyclicOfferDelay .cyclic) := by
    intro X k hX; dlu
  split
  · split
    · exact dlu_finish _ _ _ hi
    · exact dlu_sleepFor _ _ _ _ _ (dlu_draw _ _ _ hi)
  · split
    · exact dlu_finish _ _ _ hi
    · exact hafter _ _ (hmatch _ true (hso _ _ _ hi))
  · split
    · exact hcancel _ hi
    · exact hafter _ _ (hso _ _ _ hi)
  · split
    · exact hcancel _ hi
    · exact dlu_sleepFor _ _ _ _ _ (hso _ _ _ hi)
  · exact hi

theorem dlu_instStart (s : Stack) (i : Nat) (hi : DLU s) : DLU (s.instStart i) := by
  unfold instStart; split; exact hi; split; exact hi; simp only []; split <;> exact hi

theorem dlu_subsStopAllFor (s : Stack) (i : Nat) (a : Addr) (hi : DLU s) : DLU (s.subsStopAllFor i a) := by
  unfold subsStopAllFor; split; exact hi
  simp only []
  exact dlu_foldl _ (fun X e hX => dlu_emit _ _ (dlu_cancelTimer _ _ _ hX)) _ _ hi

theorem dlu_subsStopAll (s : Stack) (i : Nat) (hi : DLU s) : DLU (s.subsStopAll i) := by
  unfold subsStopAll; split; exact hi
  simp only []
  have h1 := dlu_foldl (fun (X : Stack) (p : Addr × List (TSEntry SubKey)) => X.subsStopAllFor i p.1) (fun X p hX => dlu_subsStopAllFor X i p.1 hX)
  split
  · exact h1 _ _ hi
  · exact h1 _ _ hi

theorem dlu_instStop (s : Stack) (i : Nat) (hi : DLU s) : DLU (s.instStop i) := by
  unfold instStop; split; exact hi; split; exact hi
  simp only []
  apply dlu_subsStopAll
  split
  · exact dlu_sendOffer _ _ _ _ (dlu_cancelTask _ _ hi)
  · exact dlu_cancelTask _ _ hi



theorem dlu_handleFind (s : Stack) (e : SDEntry) (a : Addr) (mc : Bool) (hi : DLU s) : DLU (s.handleFind e a mc) := by
  unfold handleFind; simp only []
  split; exact hi
  split
  · exact dlu_foldl _ (fun X i hX => dlu_callLater (X.logAnswer _ _ _) _ _ rfl hX) _ _ (dlu_draw _ _ _ hi)
  · exact dlu_foldl _ (fun X i hX => dlu_callSoon X _ hX) _ _ hi

theorem dlu_expiredSub (s : Stack) (i : Nat) (a : Addr) (k : SubKey) (hi : DLU s) : DLU (s.expiredSub i a k) := by
  unfold expiredSub; split; exact hi; simp only []; split <;> exact hi

theorem dlu_announcerStart (s : Stack) (hi : DLU s) : DLU s.announcerStart := by
  unfold announcerStart; simp only []
  exact dlu_foldl (fun (X : Stack) (i : Nat) => X.instStart i) (fun X i hX => dlu_instStart X i hX) _ _ hi
theorem dlu_announcerStop (s : Stack) (hi : DLU s) : DLU s.announcerStop := by
  unfold announcerStop; split; exact hi
  show DLU (List.foldl (fun s i => s.instStop i) s s.announceOrder)
  exact dlu_foldl _ (fun X i hX => dlu_instStop X i hX) _ _ hi
theorem dlu_announcerReboot (s : Stack) (a : Addr) (hi : DLU s) : DLU (s.announcerReboot a) := by
  unfold announcerReboot; exact dlu_foldl _ (fun X i hX => dlu_subsStopAllFor X i a hX) _ _ hi
theorem dlu_announceService (s : Stack) (i : Nat) (hi : DLU s) : DLU (s.announceService i) := by
  unfold announceService; simp only []
  show DLU (if s.started = true then s.instStart i else s)
  split
  · exact dlu_instStart _ _ hi
  · exact hi
theorem dlu_stopAnnounceService (s : Stack) (i : Nat) (b : Bool) (hi : DLU s) : DLU (s.stopAnnounceService i b) := by
  unfold stopAnnounceService; split; exact hi
  simp only []
  split
  · exact dlu_instStop _ _ hi
  · exact hi

theorem dlu_sendSubscribe (s : Stack) (ttl : Nat) (d : Addr) (egs : List Eventgroup) (hi : DLU s) : DLU (s.sendSubscribe ttl d egs) := by
  unfold sendSubscribe; exact dlu_sendSd _ _ _ hi
theorem dlu_subscribeEventgroup (s : Stack) (g : Eventgroup) (d : Addr) (hi : DLU s) : DLU (s.subscribeEventgroup g d) := by
  unfold subscribeEventgroup; simp only []; split <;> exact hi
theorem dlu_stopSubscribeEventgroup (s : Stack) (g : Eventgroup) (d : Addr) (b : Bool) (hi : DLU s) : DLU (s.stopSubscribeEventgroup g d b) := by
  unfold stopSubscribeEventgroup; split
  · simp only []; split <;> exact hi
  · exact hi
theorem dlu_subscriberStart (s : Stack) (hi : DLU s) : DLU s.subscriberStart := by
  unfold subscriberStart; split <;> exact hi
theorem dlu_subscriberStop (s : Stack) (b : Bool) (hi : DLU s) : DLU (s.subscriberStop b) := by
  unfold subscriberStop; split; exact hi
  simp only []
  have h1 : DLU (match ({ s with alive := false, subLost := !b } : Stack).subTask with
      | some tid => ({ ({ s with alive := false, subLost := !b } : Stack).cancelTask (.subscribe, tid) with subTask := none } : Stack)
      | none => ({ s with alive := false, subLost := !b } : Stack)) := by
    split
    · exact dlu_cancelTask ({ s with alive := false, subLost := !b } : Stack) _ hi
    · exact hi
  split
  · exact dlu_foldl _ (fun X p hX => dlu_callSoon X _ hX) _ _ h1
  · exact h1
theorem dlu_stepSubscribe (s : Stack) (tid : Tid) (t : TaskSt) (hi : DLU s) : DLU (s.stepSubscribe tid t) := by
  unfold stepSubscribe
  simp only []
  have key : ∀ st : Stack, DLU st → DLU (List.foldl (fun s p => s.sendSubscribe s.tm.subscribeTtl p.1 p.2) st (groupEntries st.subEntries)) :=
    fun st h => dlu_foldl _ (fun X p hX => dlu_sendSubscribe _ _ _ _ hX) _ _ h
  split
  · split
    · exact hi
    · split
      · exact key _ hi
      · exact dlu_sleepFor _ _ _ _ _ (key _ hi)
  · split
    · exact hi
    · split
      · exact key _ hi
      · exact dlu_sleepFor _ _ _ _ _ (key _ hi)
  · exact hi

theorem dlu_listenerOffered (s : Stack) (l : Listener) (k : SvcKey) (a : Addr) (hi : DLU s) : DLU (s.listenerOffered l k a) := by
  unfold listenerOffered; split; exact hi; split; exact hi; exact dlu_subscribeEventgroup _ _ _ hi
theorem dlu_listenerStopped (s : Stack) (l : Listener) (k : SvcKey) (a : Addr) (hi : DLU s) : DLU (s.listenerStopped l k a) := by
  unfold listenerStopped; split; exact hi; split; exact hi; exact dlu_stopSubscribeEventgroup _ _ _ _ hi
theorem dlu_notifyService (s : Stack) (b : Bool) (k : SvcKey) (a : Addr) (hi : DLU s) : DLU (s.notifyService b k a) := by
  unfold notifyService
  simp only []
  have hf : ∀ (X : Stack) (l : Listener), DLU X → DLU (if b = true then X.listenerOffered l k a else X.listenerStopped l k a) := by
    intro X l hX; split
    · exact dlu_listenerOffered _ _ _ _ hX
    · exact dlu_listenerStopped _ _ _ _ hX
  apply dlu_foldl _ (fun X id hX => hf X (.ext id) hX)
  apply dlu_foldl
  · intro X p hX
    split
    · exact dlu_foldl _ (fun Y l hY => hf Y l hY) _ _ hX
    · exact hX
  · exact hi
theorem dlu_foundStop (s : Stack) (a : Addr) (k : SvcKey) (hi : DLU s) : DLU (s.foundStop a k) := by
  unfold foundStop; simp only []; split
  · exact hi
  · exact dlu_notifyService _ _ _ _ (dlu_cancelTimer _ _ _ hi)
theorem dlu_foundRefresh (s : Stack) (ttl : Nat) (a : Addr) (k : SvcKey) (hi : DLU s) : DLU (s.foundRefresh ttl a k) := by
  unfold foundRefresh; simp only []
  apply dlu_same (s := (_ : Stack)) rfl rfl
  apply dlu_armTtl_other _ _ _ rfl
  split
  · exact dlu_cancelTimer _ _ _ hi
  · exact dlu_notifyService _ _ _ _ hi
theorem dlu_handleOffer (s : Stack) (e : SDEntry) (a : Addr) (hi : DLU s) : DLU (s.handleOffer e a) := by
  unfold handleOffer; simp only []
  split
  · split
    · exact dlu_foundStop _ _ _ hi
    · exact hi
  · split
    · exact dlu_foundStop _ _ _ hi
    · exact dlu_foundRefresh _ _ _ _ hi
theorem dlu_foundStopAllFor (s : Stack) (a : Addr) (hi : DLU s) : DLU (s.foundStopAllFor a) := by
  unfold foundStopAllFor; simp only []
  exact dlu_foldl _ (fun X e hX => dlu_notifyService _ _ _ _ (dlu_cancelTimer _ _ _ hX)) _ _ hi
theorem dlu_foundStopAll (s : Stack) (hi : DLU s) : DLU s.foundStopAll := by
  unfold foundStopAll; simp only []
  exact dlu_same (s := (_ : Stack)) rfl rfl (dlu_foldl _ (fun X p hX => dlu_foundStopAllFor X p.1 hX) _ _ hi)
theorem dlu_expiredSvc (s : Stack) (a : Addr) (k : SvcKey) (hi : DLU s) : DLU (s.expiredSvc a k) := by
  unfold expiredSvc; simp only []; split
  · exact hi
  · exact dlu_notifyService _ _ _ _ hi
theorem dlu_replay (s : Stack) (b : Bool) (f : Option Service) (l : Listener) (hi : DLU s) : DLU (s.replay b f l) := by
  unfold replay
  apply dlu_foldl _ _ _ _ hi
  intro X p hX
  simp only []
  repeat' split
  all_goals first | exact hX | exact dlu_listenerOffered _ _ _ _ hX | exact dlu_listenerStopped _ _ _ _ hX
theorem dlu_watchService (s : Stack) (f : Service) (l : Listener) (hi : DLU s) : DLU (s.watchService f l) := by
  unfold watchService; simp only []; exact dlu_replay _ _ _ _ hi
theorem dlu_stopWatchService (s : Stack) (f : Service) (l : Listener) (hi : DLU s) : DLU (s.stopWatchService f l) := by
  unfold stopWatchService; simp only []; split
  · exact hi
  · exact dlu_replay _ _ _ _ hi
theorem dlu_watchAllServices (s : Stack) (id : LId) (hi : DLU s) : DLU (s.watchAllServices id) := by
  unfold watchAllServices; exact dlu_replay _ _ _ _ hi
theorem dlu_stopWatchAllServices (s : Stack) (id : LId) (hi : DLU s) : DLU (s.stopWatchAllServices id) := by
  unfold stopWatchAllServices; split
  · exact hi
  · exact dlu_replay _ _ _ _ hi
theorem dlu_stepFind (s : Stack) (tid : Tid) (t : TaskSt) (hi : DLU s) : DLU (s.stepFind tid t) := by
  unfold stepFind; simp only []
  have hafter : ∀ (X : Stack) (k : Nat), DLU X → DLU (if k < X.tm.repetitionsMax then X.sleepFor tid t (pow2 k * X.tm.repetitionsBaseDelay) (.rep k) else X.finish tid t) := by
    intro X k hX; split
    · exact dlu_sleepFor _ _ _ _ _ hX
    · exact hX
  have hround : ∀ (X : Stack) (k : Nat), DLU X → DLU (if X.findEntries.isEmpty = true then X.finish tid t
      else (if k < (({ X with findLog := X.findLog ++ [(tid.2, k)] } : Stack).sendSd X.findEntries none).tm.repetitionsMax
        then (({ X with findLog := X.findLog ++ [(tid.2, k)] } : Stack).sendSd X.findEntries none).sleepFor tid t
          (pow2 k * (({ X with findLog := X.findLog ++ [(tid.2, k)] } : Stack).sendSd X.findEntries none).tm.repetitionsBaseDelay) (.rep k)
        else (({ X with findLog := X.findLog ++ [(tid.2, k)] } : Stack).sendSd X.findEntries none).finish tid t)) := by
    intro X k hX
    split
    · exact hX
    · exact hafter _ _ (dlu_sendSd ({ X with findLog := X.findLog ++ [(tid.2, k)] } : Stack) _ _ hX)
  split
  · split
    · exact hi
    · split
      · exact hi
      · exact dlu_sleepFor _ _ _ _ _ (dlu_draw _ _ _ hi)
  · split
    · exact hi
    · exact hround _ _ hi
  · split
    · exact hi
    · exact hround _ _ hi
  · exact hi
theorem dlu_discoveryStart (s : Stack) (hi : DLU s) : DLU s.discoveryStart := by
  rcases discoveryStart_cases s with h | ⟨_, h⟩
  · rw [h]; exact hi
  · rw [h]; exact hi
theorem dlu_discoveryStop (s : Stack) (hi : DLU s) : DLU s.discoveryStop := by
  unfold discoveryStop; split
  · exact dlu_cancelTask _ _ hi
  · exact hi
theorem dlu_rebootDetected (s : Stack) (a : Addr) (hi : DLU s) : DLU (s.rebootDetected a) := by
  unfold rebootDetected; exact dlu_announcerReboot _ _ (dlu_foundStopAllFor _ _ hi)





theorem dlu_runCb (s : Stack) (cb : Cb) (hi : DLU s) : DLU (s.runCb cb) := by
  cases cb with
  | connLost p =>
    cases p with
    | subscriber => exact dlu_subscriberStop s false hi
    | discovery => exact dlu_foundStopAll s hi
    | announcer => exact dlu_announcerStop s hi
  | expiredSvc a k => exact dlu_expiredSvc s a k hi
  | expiredSub i a k => exact dlu_expiredSub s i a k hi
  | sendStartSubscribe d egs => exact dlu_sendSubscribe s _ d egs hi
  | sendStopSubscribe d egs => exact dlu_sendSubscribe s _ d egs hi
  | sendOfferTo i a => exact dlu_sendOffer s i _ _ hi
  | collectorTimeout cid => exact dlu_collectorTimeout s cid hi
  | sleepDone tid => exact dlu_sleepDone s tid hi
  | taskStep tid =>
    simp only [runCb]
    split
    · exact hi
    · split
      · exact hi
      · split
        · exact dlu_stepOffer _ _ _ _ (dlu_cancelTimer _ _ _ hi)
        · exact dlu_stepFind _ _ _ (dlu_cancelTimer _ _ _ hi)
        · exact dlu_stepSubscribe _ _ _ (dlu_cancelTimer _ _ _ hi)


/-! ### storing a Subscribe -/

theorem dlu_instHandleSubscribe (s : Stack) (i : Nat) (e : SDEntry) (a : Addr) (h6 : Inv6 s) (hi : DLU s) :
    DLU (s.instHandleSubscribe i e a).1 := by
  unfold instHandleSubscribe
  split
  · exact hi
  · rename_i x hx
    split
    · exact hi
    · split
      · split
        · simp only []
          split
          · exact hi
          · exact dlu_cancelTimer _ _ _ hi
        · simp only []
          split
          · -- refresh of a held subscription: its handle is cancelled, no handle of the new identity is left
            rename_i old hfind
            apply dlu_queueSend
            apply dlu_setInst
            apply dlu_armTtl_sub _ _ _ _ _ (dlu_cancelTimer _ _ _ hi)
            have hnd := noDup_of_inv h6.1 hx a
            have hfind' := hfind
            rw [tget_touch] at hfind'
            obtain ⟨ho, hom⟩ := findKey_same_key hfind'
            have hold : heldU s i a old.key = old.timer := by
              rw [heldU_eq_of_getInst hx]; exact heldX_of_findKey hnd hfind'
            by_cases hk : SubKey.ofEntry e = old.key
            · rw [hk, hTU_cancel, if_pos ⟨rfl, rfl, rfl⟩]
              have hg := h6.2 i a old.key
              rw [hold] at hg
              cases ht : old.timer with
              | none => rw [ht] at hg; exact hg.1
              | some q => rw [ht] at hg; exact (good_cancelled hg).1
            · rw [hTU_cancel]
              have : ¬ (i = i ∧ a = a ∧ SubKey.ofEntry e = old.key) := fun q => hk q.2.2
              rw [if_neg this]
              have hg := h6.2 i a (SubKey.ofEntry e)
              rw [heldU_eq_of_getInst hx, heldX_same_other hnd hfind' (same_refl _) hk] at hg
              exact hg.1
          · rename_i hfind
            split
            · exact dlu_queueSend _ _ _ hi
            · -- a new subscription the listener accepted
              apply dlu_queueSend
              apply dlu_setInst
              apply dlu_armTtl_sub _ _ _ _ _ (dlu_emit _ _ hi)
              have hfind' := hfind
              rw [tget_touch] at hfind'
              have hnone := find_none_of_findKey_none hfind' (same_refl (SubKey.ofEntry e))
              have hg := h6.2 i a (SubKey.ofEntry e)
              rw [heldU_eq_of_getInst hx] at hg
              have : heldX (x.subs.get a) (SubKey.ofEntry e) = none := by unfold heldX; rw [hnone]; rfl
              rw [this] at hg
              exact hg.1
      · exact hi

/-- handle invariants of the subscription stores and their deadline invariant together -/
def Inv7 (s : Stack) : Prop := Inv6 s ∧ DLU s

theorem inv7_instHandleSubscribe (s : Stack) (i : Nat) (e : SDEntry) (a : Addr) (hi : Inv7 s) : Inv7 (s.instHandleSubscribe i e a).1 :=
  ⟨inv6_instHandleSubscribe s i e a hi.1, dlu_instHandleSubscribe s i e a hi.1 hi.2⟩

theorem inv7_handleSubscribe (s : Stack) (e : SDEntry) (a : Addr) (hi : Inv7 s) : Inv7 (s.handleSubscribe e a) := by
  refine ⟨inv6_handleSubscribe s e a hi.1, ?_⟩
  unfold handleSubscribe
  simp only []
  have key : ∀ (l : List Nat) (acc : Stack × Bool), Inv7 acc.1 →
      Inv7 (l.foldl (fun (acc : Stack × Bool) i => ((acc.1.instHandleSubscribe i e a).1, acc.2 || (acc.1.instHandleSubscribe i e a).2)) acc).1 := by
    intro l; induction l with
    | nil => intro acc h; exact h
    | cons x t ih => intro acc h; rw [List.foldl_cons]; exact ih _ (inv7_instHandleSubscribe _ _ _ _ h)
  split
  · exact (key _ _ hi).2
  · exact dlu_queueSend _ _ _ (key _ _ hi).2

theorem inv7_foldl {α : Type} (f : Stack → α → Stack) (h : ∀ s x, Inv7 s → Inv7 (f s x)) (l : List α) (s : Stack)
    (hi : Inv7 s) : Inv7 (l.foldl f s) := by
  induction l generalizing s with
  | nil => exact hi
  | cons x t ih => rw [List.foldl_cons]; exact ih _ (h s x hi)

theorem inv7_sdMessageReceived (s : Stack) (m : SDHeader) (a : Addr) (mc : Bool) (hi : Inv7 s) : Inv7 (s.sdMessageReceived m a mc) := by
  unfold sdMessageReceived
  split
  · exact hi
  · refine inv7_foldl _ (fun X e h => ?_) _ _ hi
    split
    · exact ⟨inv6_frame (spi_handleOffer _ _ _) h.1, dlu_handleOffer _ _ _ h.2⟩
    · exact h
    · exact ⟨inv6_frame (spi_handleFind _ _ _ _) h.1, dlu_handleFind _ _ _ _ h.2⟩
    · split
      · exact h
      · exact inv7_handleSubscribe _ _ _ h

theorem inv7_messageReceived (s : Stack) (h : Header) (a : Addr) (mc : Bool) (hi : Inv7 s) : Inv7 (s.messageReceived h a mc) := by
  refine ⟨inv6_messageReceived s h a mc hi.1, ?_⟩
  unfold messageReceived
  split
  · exact hi.2
  · split
    · exact hi.2
    · rename_i m r hpar
      simp only []
      have h1 : Inv7 (if (checkReceived s.incoming a mc m.flagReboot h.sess).1 = true
          then ({ s with incoming := (checkReceived s.incoming a mc m.flagReboot h.sess).2 } : Stack).rebootDetected a
          else ({ s with incoming := (checkReceived s.incoming a mc m.flagReboot h.sess).2 } : Stack)) := by
        have h0 : Inv7 ({ s with incoming := (checkReceived s.incoming a mc m.flagReboot h.sess).2 } : Stack) :=
          ⟨inv6_frame (s := s) rfl hi.1, hi.2⟩
        split
        · exact ⟨inv6_rebootDetected _ a h0.1, dlu_rebootDetected _ _ h0.2⟩
        · exact h0
      split
      · exact h1.2
      · exact (inv7_sdMessageReceived _ _ _ _ h1).2

theorem inv7_datagramReceived (s : Stack) (b : Bytes) (a : Addr) (mc : Bool) (hi : Inv7 s) : Inv7 (s.datagramReceived b a mc) := by
  unfold datagramReceived
  exact inv7_foldl _ (fun X h hh => inv7_messageReceived X h a mc hh) _ _ hi

theorem inv7_applyInput (s : Stack) (x : Input) (hi : Inv7 s) : Inv7 (s.applyInput x) := by
  cases x with
  | dgram a mc b => exact inv7_datagramReceived s b a mc hi
  | start =>
    refine ⟨inv6_applyInput s .start hi.1, ?_⟩
    show DLU (((s.subscriberStart).announcerStart).discoveryStart)
    exact dlu_discoveryStart _ (dlu_announcerStart _ (dlu_subscriberStart _ hi.2))
  | stop =>
    refine ⟨inv6_applyInput s .stop hi.1, ?_⟩
    show DLU (((s.discoveryStop).announcerStop).subscriberStop true)
    exact dlu_subscriberStop _ _ (dlu_announcerStop _ (dlu_discoveryStop _ hi.2))
  | connLost => exact ⟨inv6_applyInput s .connLost hi.1, hi.2⟩
  | watch f l => exact ⟨inv6_applyInput s (.watch f l) hi.1, dlu_watchService s f l hi.2⟩
  | unwatch f l => exact ⟨inv6_applyInput s (.unwatch f l) hi.1, dlu_stopWatchService s f l hi.2⟩
  | watchAll id => exact ⟨inv6_applyInput s (.watchAll id) hi.1, dlu_watchAllServices s id hi.2⟩
  | unwatchAll id => exact ⟨inv6_applyInput s (.unwatchAll id) hi.1, dlu_stopWatchAllServices s id hi.2⟩
  | subscribe g d => exact ⟨inv6_applyInput s (.subscribe g d) hi.1, dlu_subscribeEventgroup s g d hi.2⟩
  | stopSubscribe g d => exact ⟨inv6_applyInput s (.stopSubscribe g d) hi.1, dlu_stopSubscribeEventgroup s g d true hi.2⟩
  | announce i => exact ⟨inv6_applyInput s (.announce i) hi.1, dlu_announceService s i hi.2⟩
  | stopAnnounce i b => exact ⟨inv6_applyInput s (.stopAnnounce i b) hi.1, dlu_stopAnnounceService s i b hi.2⟩
  | setNak i egs =>
    refine ⟨inv6_applyInput s (.setNak i egs) hi.1, ?_⟩
    simp only [applyInput]
    split <;> exact hi.2
  | draws ds => exact ⟨inv6_applyInput s (.draws ds) hi.1, hi.2⟩
  | announcerStop => exact ⟨inv6_applyInput s .announcerStop hi.1, dlu_announcerStop s hi.2⟩
  | announcerStart => exact ⟨inv6_applyInput s .announcerStart hi.1, dlu_announcerStart s hi.2⟩

theorem inv7_step (s s' : Stack) (e : Event) (h : s.step e = some s') (hi : Inv7 s) : Inv7 s' := by
  refine ⟨inv6_event s s' e h hi.1, ?_⟩
  cases e with
  | input x => simp only [step, Option.some.injEq] at h; subst h; exact (inv7_applyInput s x hi).2
  | run =>
    simp only [step, Loop.pop] at h
    cases hr : s.loop.ready with
    | nil => rw [hr] at h; cases h
    | cons r rest =>
      rw [hr] at h
      simp only [Option.some.injEq] at h
      subst h
      exact dlu_runCb _ _ hi.2
  | fire q =>
    simp only [step] at h
    cases hf : s.loop.fire q with
    | none => rw [hf] at h; cases h
    | some l =>
      rw [hf] at h; simp at h; subst h
      unfold Loop.fire at hf
      split at hf
      · cases hf
      · split at hf
        · simp only [Option.some.injEq] at hf; subst hf
          intro t ht
          exact hi.2 t (List.mem_of_mem_eraseP ht)
        · cases hf
  | adv t =>
    simp only [step] at h
    cases hf : s.loop.adv t with
    | none => rw [hf] at h; cases h
    | some l =>
      rw [hf] at h; simp at h; subst h
      unfold Loop.adv at hf
      split at hf
      · simp only [Option.some.injEq] at hf; subst hf
        exact hi.2
      · cases hf


end Stack
end Someip
