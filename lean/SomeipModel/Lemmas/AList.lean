import SomeipModel.Model.Session
namespace Someip

theorem alookup_nil {κ ν} [DecidableEq κ] (k : κ) : alookup ([] : List (κ × ν)) k = none := rfl

theorem find_filter_ne {κ ν} [DecidableEq κ] (l : List (κ × ν)) (k k' : κ) (h : k' ≠ k) :
    (l.filter (fun p => decide (p.1 ≠ k))).find? (fun p => decide (p.1 = k')) =
    l.find? (fun p => decide (p.1 = k')) := by
  induction l with
  | nil => rfl
  | cons p t ih =>
    by_cases hp : p.1 = k
    · have hk : decide (p.1 = k') = false := by
        simp only [decide_eq_false_iff_not]; exact fun e => h (e.symm.trans hp)
      have hf : decide (p.1 ≠ k) = false := by simp [hp]
      rw [List.filter_cons, List.find?_cons]
      simp only [hf, hk, Bool.false_eq_true, if_false]
      exact ih
    · have hf : decide (p.1 ≠ k) = true := by simp [hp]
      rw [List.filter_cons]
      simp only [hf, if_true, List.find?_cons]
      split
      · rfl
      · exact ih

theorem alookup_aset {κ ν} [DecidableEq κ] (l : List (κ × ν)) (k k' : κ) (v : ν) :
    alookup (aset l k v) k' = if k' = k then some v else alookup l k' := by
  unfold alookup aset
  by_cases h : k' = k
  · subst h; simp
  · have h' : ¬ (k = k') := fun e => h e.symm
    simp only [List.find?_cons, h', decide_false, h, if_false]
    rw [find_filter_ne l k k' h]

end Someip
