/-
  C14: the subscriber's view of the stack model, and preservation of the mirror invariant by every function of the
  model that touches it (the subscriber itself and the discovery functions that call listeners).
-/
import SomeipModel.Lemmas.MirInv
namespace Someip
namespace Stack
open MV
set_option linter.unusedSimpArgs false
set_option linter.unusedVariables false

def view (s : Stack) : MV :=
  { alive := s.alive, subTask := s.subTask, se := s.subEntries, log := s.subLog, dup := s.subDup, lost := s.subLost,
    ttl := s.tm.subscribeTtl, rdy := (s.loop.ready.filter (fun r => isMirCb r.cb)).map (·.cb),
    tasks := s.tasks.filter isSubT, tim := s.loop.timers.filter (fun t => isMirCb t.cb) }

/-- the mirror invariant of the stack -/
def MirInv (s : Stack) : Prop := MI (view s)

theorem view_of_mpi {s s' : Stack} (h : mpi s' = mpi s) : view s' = view s := by
  have e1 : s'.alive = s.alive := congrArg (fun p => p.1) h
  have e2 : s'.subTask = s.subTask := congrArg (fun p => p.2.1) h
  have e3 : s'.subEntries = s.subEntries := congrArg (fun p => p.2.2.1) h
  have e4 : s'.subLog = s.subLog := congrArg (fun p => p.2.2.2.1) h
  have e5 : s'.subDup = s.subDup := congrArg (fun p => p.2.2.2.2.1) h
  have e6 : s'.subLost = s.subLost := congrArg (fun p => p.2.2.2.2.2.1) h
  have e7 : s'.tm.subscribeTtl = s.tm.subscribeTtl := congrArg (fun p => p.2.2.2.2.2.2.1) h
  have e8 : s'.loop.ready.filter (fun r => isMirCb r.cb) = s.loop.ready.filter (fun r => isMirCb r.cb) := congrArg (fun p => p.2.2.2.2.2.2.2.1) h
  have e9 : s'.loop.timers.filter (fun t => isMirCb t.cb) = s.loop.timers.filter (fun t => isMirCb t.cb) := congrArg (fun p => p.2.2.2.2.2.2.2.2.1) h
  have e10 : s'.tasks.filter isSubT = s.tasks.filter isSubT := congrArg (fun p => p.2.2.2.2.2.2.2.2.2) h
  simp only [view, e1, e2, e3, e4, e5, e6, e7, e8, e9, e10]

theorem mir_frame {s s' : Stack} (h : mpi s' = mpi s) (hi : MirInv s) : MirInv s' := by
  unfold MirInv; rw [view_of_mpi h]; exact hi

theorem mir_foldl {α : Type} (f : Stack → α → Stack) (h : ∀ s a, MirInv s → MirInv (f s a)) (l : List α) (s : Stack)
    (hi : MirInv s) : MirInv (l.foldl f s) := by
  induction l generalizing s with
  | nil => exact hi
  | cons a t ih => rw [List.foldl_cons]; exact ih _ (h s a hi)

/-! ### primitive effects on the view -/

theorem view_callSoon_mir (s : Stack) (cb : Cb) (h : isMirCb cb = true) :
    view (s.callSoon cb) = { view s with rdy := (view s).rdy ++ [cb] } := by
  simp [view, callSoon, Loop.callSoon, List.filter_append, h]

theorem getTask_sub (s : Stack) (n : Nat) : s.getTask (.subscribe, n) = (view s).task n := by
  unfold getTask MV.task view alookup
  simp only []
  congr 1
  induction s.tasks with
  | nil => rfl
  | cons p t ih =>
    by_cases hp : p.1 = (TaskKind.subscribe, n)
    · have : isSubT p = true := by simp [isSubT, hp]
      simp [List.filter_cons, this, hp]
    · by_cases hs : isSubT p = true
      · simp [List.filter_cons, hs, hp, ih]
      · simp only [Bool.not_eq_true] at hs
        simp [List.filter_cons, hs, hp, ih]

theorem filter_setT (l : List (Tid × TaskSt)) (n : Nat) (t : TaskSt) :
    (l.map (fun p => if p.1 = (TaskKind.subscribe, n) then ((TaskKind.subscribe, n), t) else p)).filter isSubT =
      setT (l.filter isSubT) (.subscribe, n) t := by
  unfold setT
  induction l with
  | nil => rfl
  | cons p r ih =>
    by_cases hp : p.1 = (TaskKind.subscribe, n)
    · have h1 : isSubT p = true := by simp [isSubT, hp]
      have h2 : isSubT ((TaskKind.subscribe, n), t) = true := by simp [isSubT]
      simp [List.filter_cons, hp, h1, h2, ih]
    · by_cases hs : isSubT p = true
      · simp [List.filter_cons, hp, hs, ih]
      · simp only [Bool.not_eq_true] at hs
        simp [List.filter_cons, hp, hs, ih]

theorem view_setTask_sub (s : Stack) (n : Nat) (t : TaskSt) :
    view (s.setTask (.subscribe, n) t) = { view s with tasks := setT (view s).tasks (.subscribe, n) t } := by
  simp only [view, setTask, filter_setT]

theorem view_sendSubscribe (s : Stack) (ttl : Nat) (d : Addr) (egs : List Eventgroup) :
    view (s.sendSubscribe ttl d egs) = { view s with log := (view s).log ++ [(d, ttl, egs)] } := by
  unfold sendSubscribe
  rw [view_of_mpi (mpi_sendSd _ _ _)]
  rfl

/-! ### the subscriber's own functions -/

theorem mir_subscribeEventgroup (s : Stack) (g : Eventgroup) (d : Addr) (hi : MirInv s) : MirInv (s.subscribeEventgroup g d) := by
  unfold subscribeEventgroup
  simp only []
  split
  · rename_i ha
    unfold MirInv
    rw [view_callSoon_mir _ _ rfl]
    exact MI.subscribeA hi (g, d) ha
  · rename_i ha
    exact MI.subscribeD hi (g, d) (show s.alive = false by simpa using ha)

theorem mir_stopSubscribeEventgroup (s : Stack) (g : Eventgroup) (d : Addr) (hi : MirInv s) :
    MirInv (s.stopSubscribeEventgroup g d true) := by
  unfold stopSubscribeEventgroup
  split
  · rename_i hm
    simp only [if_true]
    unfold MirInv
    rw [view_callSoon_mir _ _ rfl]
    exact MI.unsubscribe hi (g, d) hm
  · exact hi

theorem taskCount_sub (s : Stack) : s.taskCount .subscribe = (view s).tasks.length := rfl

theorem mir_subscriberStart (s : Stack) (hi : MirInv s) : MirInv s.subscriberStart := by
  unfold subscriberStart
  split
  · exact hi
  · rename_i ha
    have ha' : s.alive = false := by simpa using ha
    have e : view { (({ s with alive := true, subLost := false, subMarks := s.subMarks ++ [(none, s.loop.now)] } : Stack).createTask .subscribe).1 with
          subTask := some (({ s with alive := true, subLost := false, subMarks := s.subMarks ++ [(none, s.loop.now)] } : Stack).createTask .subscribe).2 } =
        { view s with alive := true, lost := false, subTask := some (view s).tasks.length,
                      tasks := (view s).tasks ++ [((.subscribe, (view s).tasks.length), ({} : TaskSt))],
                      rdy := (view s).rdy ++ [.taskStep (.subscribe, (view s).tasks.length)] } := by
      have hc : ∀ (X : Stack), X.taskCount .subscribe = (X.tasks.filter isSubT).length := fun _ => rfl
      simp [view, createTask, callSoon, Loop.callSoon, hc, List.filter_append, isSubT, isMirCb]
    unfold MirInv
    simp only []
    rw [e]
    exact MI.start hi ha'

theorem view_cancelTask_sub (s : Stack) (n : Nat) :
    view (s.cancelTask (.subscribe, n)) =
      { view s with tasks := (cancelV (view s).tasks n).1, rdy := (view s).rdy ++ (cancelV (view s).tasks n).2 } := by
  unfold cancelTask cancelV
  rw [getTask_sub]
  unfold MV.task
  cases h : alookup (view s).tasks (TaskKind.subscribe, n) with
  | none => simp
  | some t =>
    simp only []
    split
    · simp
    · split
      · rw [view_callSoon_mir _ _ rfl, view_setTask_sub]
      · rw [view_setTask_sub]; simp

theorem view_stops (gs : List (Addr × List Eventgroup)) (s : Stack) :
    view (gs.foldl (fun s p => s.callSoon (.sendStopSubscribe p.1 p.2)) s) = { view s with rdy := (view s).rdy ++ stopCbs gs } := by
  induction gs generalizing s with
  | nil => simp [stopCbs]
  | cons p t ih =>
    rw [List.foldl_cons, ih, view_callSoon_mir _ _ rfl]
    simp [stopCbs]

theorem view_cancelOwn (s1 : Stack) :
    view (match s1.subTask with
      | some tid => { s1.cancelTask (.subscribe, tid) with subTask := none }
      | none => s1) =
    { view s1 with subTask := none,
                   tasks := (match (view s1).subTask with | some n => (cancelV (view s1).tasks n).1 | none => (view s1).tasks),
                   rdy := (view s1).rdy ++ (match (view s1).subTask with | some n => (cancelV (view s1).tasks n).2 | none => []) } := by
  have hv : (view s1).subTask = s1.subTask := rfl
  rw [hv]
  cases h : s1.subTask with
  | none => simp [view, h]
  | some n =>
    simp only []
    have e : view ({ (s1.cancelTask (.subscribe, n)) with subTask := none } : Stack) = { view (s1.cancelTask (.subscribe, n)) with subTask := none } := rfl
    rw [e, view_cancelTask_sub]

theorem mir_subscriberStop (s : Stack) (b : Bool) (hi : MirInv s) : MirInv (s.subscriberStop b) := by
  unfold subscriberStop
  by_cases ha : s.alive = true
  · have hna : ¬ ((!s.alive) = true) := by simp [ha]
    rw [if_neg hna]
    have key := MI.stop hi b ha
    have e2 := view_cancelOwn ({ s with alive := false, subLost := !b } : Stack)
    have ese : (match ({ s with alive := false, subLost := !b } : Stack).subTask with
          | some tid => ({ ({ s with alive := false, subLost := !b } : Stack).cancelTask (.subscribe, tid) with subTask := none } : Stack)
          | none => ({ s with alive := false, subLost := !b } : Stack)).subEntries = s.subEntries := by
      split
      · show (({ s with alive := false, subLost := !b } : Stack).cancelTask _).subEntries = s.subEntries
        unfold cancelTask; split; rfl; split; rfl; split <;> rfl
      · rfl
    cases b
    · show MI (view (match ({ s with alive := false, subLost := !false } : Stack).subTask with
          | some tid => ({ ({ s with alive := false, subLost := !false } : Stack).cancelTask (.subscribe, tid) with subTask := none } : Stack)
          | none => ({ s with alive := false, subLost := !false } : Stack)))
      rw [e2]
      simp only [Bool.false_eq_true, if_false, List.append_nil] at key
      exact key
    · show MI (view (List.foldl (fun s p => s.callSoon (.sendStopSubscribe p.1 p.2))
          (match ({ s with alive := false, subLost := !true } : Stack).subTask with
          | some tid => ({ ({ s with alive := false, subLost := !true } : Stack).cancelTask (.subscribe, tid) with subTask := none } : Stack)
          | none => ({ s with alive := false, subLost := !true } : Stack))
          (groupEntries (match ({ s with alive := false, subLost := !true } : Stack).subTask with
          | some tid => ({ ({ s with alive := false, subLost := !true } : Stack).cancelTask (.subscribe, tid) with subTask := none } : Stack)
          | none => ({ s with alive := false, subLost := !true } : Stack)).subEntries)))
      rw [view_stops, e2, ese]
      simp only [if_true] at key
      exact key
  · have hna : (!s.alive) = true := by simpa using ha
    rw [if_pos hna]; exact hi

/-! ### listeners and the discovery functions that call them -/

theorem mir_listenerOffered (s : Stack) (l : Listener) (k : SvcKey) (a : Addr) (hi : MirInv s) : MirInv (s.listenerOffered l k a) := by
  unfold listenerOffered
  split
  · exact mir_frame (mpi_emit _ _) hi
  · split
    · exact hi
    · exact mir_subscribeEventgroup _ _ _ hi
theorem mir_listenerStopped (s : Stack) (l : Listener) (k : SvcKey) (a : Addr) (hi : MirInv s) : MirInv (s.listenerStopped l k a) := by
  unfold listenerStopped
  split
  · exact mir_frame (mpi_emit _ _) hi
  · split
    · exact hi
    · exact mir_stopSubscribeEventgroup _ _ _ hi

theorem mir_notifyService (s : Stack) (b : Bool) (k : SvcKey) (a : Addr) (hi : MirInv s) : MirInv (s.notifyService b k a) := by
  unfold notifyService
  simp only []
  have hf : ∀ (X : Stack) (l : Listener), MirInv X → MirInv (if b = true then X.listenerOffered l k a else X.listenerStopped l k a) := by
    intro X l hX; split
    · exact mir_listenerOffered _ _ _ _ hX
    · exact mir_listenerStopped _ _ _ _ hX
  apply mir_foldl _ (fun X id hX => hf X (.ext id) hX)
  apply mir_foldl
  · intro X p hX
    split
    · exact mir_foldl _ (fun Y l hY => hf Y l hY) _ _ hX
    · exact hX
  · exact mir_frame (mpi_with_storeLog _ _) hi

theorem mir_foundStop (s : Stack) (a : Addr) (k : SvcKey) (hi : MirInv s) : MirInv (s.foundStop a k) := by
  unfold foundStop
  simp only []
  split
  · exact mir_frame (mpi_with_found _ _) hi
  · apply mir_notifyService
    exact mir_frame ((mpi_cancelTimer_svcFor _ _ _ _).trans (mpi_with_found _ _)) hi

theorem mpi_armTtl_svc (s : Stack) (ttl : Nat) (a : Addr) (k : SvcKey) : mpi (s.armTtl ttl (.expiredSvc a k)).1 = mpi s :=
  mpi_armTtl _ _ _ rfl

theorem mir_foundRefresh (s : Stack) (ttl : Nat) (a : Addr) (k : SvcKey) (hi : MirInv s) : MirInv (s.foundRefresh ttl a k) := by
  unfold foundRefresh
  simp only []
  apply mir_frame (mpi_with_found_refreshLog _ _ _)
  apply mir_frame (mpi_armTtl_svc _ _ _ _)
  split
  · exact mir_frame ((mpi_cancelTimer_svcFor _ _ _ _).trans (mpi_with_found _ _)) hi
  · apply mir_notifyService
    exact mir_frame (mpi_with_found _ _) hi

theorem mir_handleOffer (s : Stack) (e : SDEntry) (a : Addr) (hi : MirInv s) : MirInv (s.handleOffer e a) := by
  unfold handleOffer
  simp only []
  split
  · split
    · exact mir_foundStop _ _ _ hi
    · exact hi
  · split
    · exact mir_foundStop _ _ _ hi
    · exact mir_foundRefresh _ _ _ _ hi

theorem mir_foundStopAllFor (s : Stack) (a : Addr) (hi : MirInv s) : MirInv (s.foundStopAllFor a) := by
  unfold foundStopAllFor
  simp only []
  apply mir_foldl
  · intro X e hX
    apply mir_notifyService
    exact mir_frame (mpi_cancelTimer_svcFor _ _ _ _) hX
  · exact mir_frame (mpi_with_found _ _) hi

theorem mir_foundStopAll (s : Stack) (hi : MirInv s) : MirInv s.foundStopAll := by
  unfold foundStopAll
  simp only []
  apply mir_frame (mpi_with_found _ _)
  exact mir_foldl _ (fun X p hX => mir_foundStopAllFor _ _ hX) _ _ hi

theorem mir_expiredSvc (s : Stack) (a : Addr) (k : SvcKey) (hi : MirInv s) : MirInv (s.expiredSvc a k) := by
  unfold expiredSvc
  simp only []
  split
  · exact mir_frame (mpi_with_found _ _) hi
  · apply mir_notifyService
    exact mir_frame (mpi_with_found _ _) hi

theorem mir_replay (s : Stack) (b : Bool) (f : Option Service) (l : Listener) (hi : MirInv s) : MirInv (s.replay b f l) := by
  unfold replay
  apply mir_foldl _ _ _ _ hi
  intro X p hX
  simp only []
  repeat' split
  all_goals first | exact hX | exact mir_listenerOffered _ _ _ _ hX | exact mir_listenerStopped _ _ _ _ hX

theorem mir_watchService (s : Stack) (f : Service) (l : Listener) (hi : MirInv s) : MirInv (s.watchService f l) := by
  unfold watchService
  simp only []
  apply mir_replay
  exact mir_frame (mpi_with_watched _ _) hi

theorem mir_stopWatchService (s : Stack) (f : Service) (l : Listener) (hi : MirInv s) : MirInv (s.stopWatchService f l) := by
  unfold stopWatchService
  simp only []
  split
  · exact mir_frame ((mpi_emit _ _).trans (mpi_with_watched _ _)) hi
  · apply mir_replay
    exact mir_frame (mpi_with_watched _ _) hi

theorem mir_watchAllServices (s : Stack) (id : LId) (hi : MirInv s) : MirInv (s.watchAllServices id) := by
  unfold watchAllServices
  apply mir_replay
  exact mir_frame (mpi_with_watchAll _ _) hi

theorem mir_stopWatchAllServices (s : Stack) (id : LId) (hi : MirInv s) : MirInv (s.stopWatchAllServices id) := by
  unfold stopWatchAllServices
  split
  · exact mir_frame (mpi_emit _ _) hi
  · apply mir_replay
    exact mir_frame (mpi_with_watchAll _ _) hi

theorem mir_rebootDetected (s : Stack) (a : Addr) (hi : MirInv s) : MirInv (s.rebootDetected a) := by
  unfold rebootDetected
  exact mir_frame (mpi_announcerReboot _ _) (mir_foundStopAllFor _ _ hi)

theorem mir_sdMessageReceived (s : Stack) (m : SDHeader) (a : Addr) (mc : Bool) (hi : MirInv s) : MirInv (s.sdMessageReceived m a mc) := by
  unfold sdMessageReceived
  split
  · exact hi
  · apply mir_foldl _ _ _ _ hi
    intro X e hX
    split
    · exact mir_handleOffer _ _ _ hX
    · exact hX
    · exact mir_frame (mpi_handleFind _ _ _ _) hX
    · split
      · exact hX
      · exact mir_frame (mpi_handleSubscribe _ _ _) hX

theorem mir_messageReceived (s : Stack) (h : Header) (a : Addr) (mc : Bool) (hi : MirInv s) : MirInv (s.messageReceived h a mc) := by
  unfold messageReceived
  split
  · exact hi
  · split
    · exact hi
    · rename_i m rest hparse
      simp only []
      have h1 : MirInv (if (checkReceived s.incoming a mc m.flagReboot h.sess).1 = true
          then ({ s with incoming := (checkReceived s.incoming a mc m.flagReboot h.sess).2 } : Stack).rebootDetected a
          else ({ s with incoming := (checkReceived s.incoming a mc m.flagReboot h.sess).2 } : Stack)) := by
        split
        · exact mir_rebootDetected _ _ (mir_frame (mpi_with_incoming _ _) hi)
        · exact mir_frame (mpi_with_incoming _ _) hi
      split
      · exact mir_frame (mpi_emit _ _) h1
      · exact mir_sdMessageReceived _ _ _ _ h1

theorem mir_datagramReceived (s : Stack) (b : Bytes) (a : Addr) (mc : Bool) (hi : MirInv s) : MirInv (s.datagramReceived b a mc) := by
  unfold datagramReceived
  exact mir_foldl _ (fun X h hX => mir_messageReceived _ _ _ _ hX) _ _ hi

/-! ### callbacks of the subscriber -/

theorem sendSubscribe_tm (s : Stack) (ttl : Nat) (d : Addr) (egs : List Eventgroup) : (s.sendSubscribe ttl d egs).tm = s.tm :=
  congrArg Prod.fst (base_sendSubscribe s ttl d egs)

theorem view_round (gs : List (Addr × List Eventgroup)) (s : Stack) :
    view (gs.foldl (fun s p => s.sendSubscribe s.tm.subscribeTtl p.1 p.2) s) =
      { view s with log := (view s).log ++ roundMsgs s.tm.subscribeTtl gs } := by
  induction gs generalizing s with
  | nil => simp [roundMsgs]
  | cons p t ih =>
    rw [List.foldl_cons, ih, view_sendSubscribe, sendSubscribe_tm]
    simp [roundMsgs]

theorem view_finish_sub (s : Stack) (n : Nat) (t : TaskSt) :
    view (s.finish (.subscribe, n) t) =
      { view s with tasks := setT (view s).tasks (.subscribe, n) { t with pc := .done, waiting := false, sleep := none, cancelled := false } } := by
  unfold finish; rw [view_setTask_sub]

theorem view_callLater_sleep (s : Stack) (d : Nat) (tid : Tid) : view (s.callLater d (.sleepDone tid)).1 = view s :=
  view_of_mpi (mpi_callLater_sleepDone _ _ _)

/-- a subscribe task's step runs (its callback has just been popped) -/
theorem mir_taskStep_sub (s0 : Stack) (n : Nat) (v : MV) (rest : List Cb) (hv : MI v)
    (hr : v.rdy = .taskStep (.subscribe, n) :: rest) (h0 : view s0 = { v with rdy := rest }) :
    MirInv (s0.runCb (.taskStep (.subscribe, n))) := by
  have htasks : (view s0).tasks = v.tasks := by rw [h0]
  have hnoop : ¬ v.owed n → MirInv s0 := by
    intro hno; unfold MirInv; rw [h0]; exact hv.popNoop n rest hr hno
  show MirInv (match s0.getTask (.subscribe, n) with
    | none => s0
    | some t =>
      if t.pc = .done then s0 else
      let s := s0.cancelTimer (isSleepFor (.subscribe, n)) t.sleep
      let t := { t with sleep := none, waiting := false }
      match (TaskKind.subscribe, n).1 with
      | .offer i => s.stepOffer (.subscribe, n) t i
      | .find => s.stepFind (.subscribe, n) t
      | .subscribe => s.stepSubscribe (.subscribe, n) t)
  rw [getTask_sub]
  have htn : (view s0).task n = v.task n := by unfold MV.task; rw [htasks]
  rw [htn]
  cases ht : v.task n with
  | none =>
    simp only []
    apply hnoop; rintro ⟨_, t, h1, _⟩; rw [ht] at h1; cases h1
  | some t =>
    simp only []
    by_cases hdone : t.pc = .done
    · rw [if_pos hdone]
      apply hnoop; rintro ⟨_, t', h1, h2, _⟩; rw [ht] at h1; cases h1; rw [hdone] at h2; cases h2
    · rw [if_neg hdone]
      have h1 : view (s0.cancelTimer (isSleepFor (.subscribe, n)) t.sleep) = { v with rdy := rest } := by
        rw [view_of_mpi (mpi_cancelTimer_sleep _ _ _)]; exact h0
      have hse : (s0.cancelTimer (isSleepFor (.subscribe, n)) t.sleep).subEntries = v.se := congrArg MV.se h1
      have httl : (s0.cancelTimer (isSleepFor (.subscribe, n)) t.sleep).tm.subscribeTtl = v.ttl := congrArg MV.ttl h1
      generalize s0.cancelTimer (isSleepFor (.subscribe, n)) t.sleep = s1 at h1 hse httl
      show MirInv (s1.stepSubscribe (.subscribe, n) { t with sleep := none, waiting := false })
      unfold stepSubscribe
      simp only []
      -- the round
      have hround : t.cancelled = false → MirInv
          (match (((groupEntries s1.subEntries).foldl (fun s p => s.sendSubscribe s.tm.subscribeTtl p.1 p.2) s1).markRound n).tm.subscribeRefresh with
          | none => (((groupEntries s1.subEntries).foldl (fun s p => s.sendSubscribe s.tm.subscribeTtl p.1 p.2) s1).markRound n).finish (.subscribe, n)
                      { t with sleep := none, waiting := false }
          | some r => (((groupEntries s1.subEntries).foldl (fun s p => s.sendSubscribe s.tm.subscribeTtl p.1 p.2) s1).markRound n).sleepFor (.subscribe, n)
                      { t with sleep := none, waiting := false } r .cyclic) := by
        intro hc
        rw [hse]
        have hv2 := view_round (groupEntries v.se) s1
        rw [h1, httl] at hv2
        replace hv2 : view (((groupEntries v.se).foldl (fun s p => s.sendSubscribe s.tm.subscribeTtl p.1 p.2) s1).markRound n) = _ := hv2
        generalize ((groupEntries v.se).foldl (fun s p => s.sendSubscribe s.tm.subscribeTtl p.1 p.2) s1).markRound n = s2 at hv2 ⊢
        split
        · unfold MirInv
          rw [view_finish_sub, hv2]
          have k := hv.popRound n rest [] t { t with pc := .done, waiting := false, sleep := none, cancelled := false }
            hr ht hdone hc (by simp) rfl (Or.inl rfl)
          simp only [List.append_nil] at k
          exact k
        · rename_i r _
          unfold sleepFor
          by_cases hr0 : r = 0
          · rw [if_pos hr0]
            unfold MirInv
            rw [view_callSoon_mir _ _ rfl, view_setTask_sub, hv2]
            exact hv.popRound n rest [.taskStep (.subscribe, n)] t { t with pc := .cyclic, waiting := false, sleep := none }
              hr ht hdone hc (by simp) hc (Or.inr rfl)
          · rw [if_neg hr0]
            unfold MirInv
            simp only []
            rw [view_setTask_sub, view_callLater_sleep, hv2]
            have k := hv.popRound n rest [] t { t with pc := .cyclic, waiting := true, sleep := some (s2.callLater r (.sleepDone (.subscribe, n))).2 }
              hr ht hdone hc (by simp) hc (Or.inl rfl)
            simp only [List.append_nil] at k
            exact k
      have hfin : t.cancelled = true → MirInv (s1.finish (.subscribe, n) { t with sleep := none, waiting := false }) := by
        intro hc
        unfold MirInv
        rw [view_finish_sub, h1]
        exact hv.popFinish n rest _ hr (by rintro ⟨_, t', h2, _, h3⟩; rw [ht] at h2; cases h2; rw [hc] at h3; cases h3) rfl
      have hs1 : ¬ v.owed n → MirInv s1 := by
        intro hno; unfold MirInv; rw [h1]; exact hv.popNoop n rest hr hno
      split
      · split
        · rename_i hc; exact hfin hc
        · rename_i hc; exact hround (by simpa using hc)
      · split
        · rename_i hc; exact hfin hc
        · rename_i hc; exact hround (by simpa using hc)
      · rename_i hnc _
        apply hs1
        rintro ⟨_, t', h2, h3, _⟩
        rw [ht] at h2; cases h2
        exact hnc h3

theorem mir_sleepDone_sub (s : Stack) (n : Nat) (hi : MirInv s) : MirInv (s.sleepDone (.subscribe, n)) := by
  unfold sleepDone
  rw [getTask_sub]
  cases ht : (view s).task n with
  | none => exact hi
  | some t =>
    simp only []
    split
    · unfold MirInv
      rw [view_callSoon_mir _ _ rfl, view_setTask_sub]
      exact MI.wake hi n t _ ht rfl rfl
    · exact hi

/-! ### inputs, callbacks, loop events -/

theorem mir_applyInput (s : Stack) (x : Input) (hi : MirInv s) : MirInv (s.applyInput x) := by
  cases x with
  | dgram a mc b => exact mir_datagramReceived s b a mc hi
  | start =>
    show MirInv (((s.subscriberStart).announcerStart).discoveryStart)
    exact mir_frame ((mpi_discoveryStart _).trans (mpi_announcerStart _)) (mir_subscriberStart s hi)
  | stop =>
    show MirInv (((s.discoveryStop).announcerStop).subscriberStop true)
    exact mir_subscriberStop _ _ (mir_frame ((mpi_announcerStop _).trans (mpi_discoveryStop _)) hi)
  | connLost =>
    show MirInv (((s.callSoon (.connLost .subscriber)).callSoon (.connLost .discovery)).callSoon (.connLost .announcer))
    exact mir_frame (((mpi_callSoon_connLost _ _).trans (mpi_callSoon_connLost _ _)).trans (mpi_callSoon_connLost _ _)) hi
  | watch f l => exact mir_watchService s f l hi
  | unwatch f l => exact mir_stopWatchService s f l hi
  | watchAll id => exact mir_watchAllServices s id hi
  | unwatchAll id => exact mir_stopWatchAllServices s id hi
  | subscribe g d => exact mir_subscribeEventgroup s g d hi
  | stopSubscribe g d => exact mir_stopSubscribeEventgroup s g d hi
  | announce i => exact mir_frame (mpi_announceService s i) hi
  | stopAnnounce i b => exact mir_frame (mpi_stopAnnounceService s i b) hi
  | setNak i egs =>
    simp only [applyInput]
    split
    · exact mir_frame (mpi_setInst s i _) hi
    · exact hi
  | draws ds => exact mir_frame (s := s) (s' := { s with draws := s.draws ++ ds }) rfl hi
  | announcerStop => exact mir_frame (mpi_announcerStop s) hi
  | announcerStart => exact mir_frame (mpi_announcerStart s) hi

/-- every callback that is not one of the subscriber's send / task-step callbacks -/
theorem mir_runCb_other (s : Stack) (cb : Cb) (hcb : isMirCb cb = false) (hi : MirInv s) : MirInv (s.runCb cb) := by
  cases cb with
  | connLost p =>
    cases p with
    | subscriber => exact mir_subscriberStop s false hi
    | discovery => exact mir_foundStopAll s hi
    | announcer => exact mir_frame (mpi_announcerStop s) hi
  | expiredSvc a k => exact mir_expiredSvc s a k hi
  | expiredSub i a k => exact mir_frame (mpi_expiredSub s i a k) hi
  | sendStartSubscribe d egs => cases hcb
  | sendStopSubscribe d egs => cases hcb
  | sendOfferTo i a => exact mir_frame (mpi_sendOffer s i _ _) hi
  | collectorTimeout cid => exact mir_frame (mpi_collectorTimeout s cid) hi
  | sleepDone tid =>
    obtain ⟨k, n⟩ := tid
    cases k with
    | subscribe => exact mir_sleepDone_sub s n hi
    | offer i => exact mir_frame (mpi_sleepDone s _ (by simp)) hi
    | find => exact mir_frame (mpi_sleepDone s _ (by simp)) hi
  | taskStep tid =>
    obtain ⟨k, n⟩ := tid
    cases k with
    | subscribe => simp [isMirCb] at hcb
    | offer i =>
      simp only [runCb]
      split
      · exact hi
      · split
        · exact hi
        · exact mir_frame ((mpi_stepOffer _ _ _ _ (by simp)).trans (mpi_cancelTimer_sleep _ _ _)) hi
    | find =>
      simp only [runCb]
      split
      · exact hi
      · split
        · exact hi
        · exact mir_frame ((mpi_stepFind _ _ _ (by simp)).trans (mpi_cancelTimer_sleep _ _ _)) hi

theorem mpi_pop_other (s : Stack) (q : Option Nat) (cb : Cb) (rest : List (RItem Cb)) (hr : s.loop.ready = ⟨q, cb⟩ :: rest)
    (hcb : isMirCb cb = false) : mpi ({ s with loop := { s.loop with ready := rest } } : Stack) = mpi s := by
  simp [mpi, hr, List.filter_cons, hcb]

theorem view_pop_mir (s : Stack) (q : Option Nat) (cb : Cb) (rest : List (RItem Cb)) (hr : s.loop.ready = ⟨q, cb⟩ :: rest)
    (hcb : isMirCb cb = true) :
    (view s).rdy = cb :: (rest.filter (fun r => isMirCb r.cb)).map (·.cb) ∧
    view ({ s with loop := { s.loop with ready := rest } } : Stack) = { view s with rdy := (rest.filter (fun r => isMirCb r.cb)).map (·.cb) } := by
  constructor
  · simp [view, hr, List.filter_cons, hcb]
  · simp [view]

theorem mir_step (s s' : Stack) (e : Event) (h : s.step e = some s') (hi : MirInv s) : MirInv s' := by
  cases e with
  | input x => simp only [step, Option.some.injEq] at h; subst h; exact mir_applyInput s x hi
  | run =>
    simp only [step, Loop.pop] at h
    cases hr : s.loop.ready with
    | nil => rw [hr] at h; cases h
    | cons r rest =>
      rw [hr] at h
      simp only [Option.some.injEq] at h
      subst h
      obtain ⟨q, cb⟩ := r
      cases hcb : isMirCb cb
      · exact mir_runCb_other _ cb hcb (mir_frame (mpi_pop_other s q cb rest hr hcb) hi)
      · obtain ⟨h1, h2⟩ := view_pop_mir s q cb rest hr hcb
        cases cb with
        | sendStartSubscribe d egs =>
          show MirInv (({ s with loop := { s.loop with ready := rest } } : Stack).sendSubscribe s.tm.subscribeTtl d egs)
          unfold MirInv
          rw [view_sendSubscribe, h2]
          exact MI.runSend hi _ _ (d, s.tm.subscribeTtl, egs) h1 (fun y b => rfl) (fun n => rfl)
        | sendStopSubscribe d egs =>
          show MirInv (({ s with loop := { s.loop with ready := rest } } : Stack).sendSubscribe 0 d egs)
          unfold MirInv
          rw [view_sendSubscribe, h2]
          exact MI.runSend hi _ _ (d, 0, egs) h1 (fun y b => rfl) (fun n => rfl)
        | taskStep tid =>
          obtain ⟨k, n⟩ := tid
          cases k with
          | subscribe => exact mir_taskStep_sub _ n (view s) _ hi h1 h2
          | offer i => simp [isMirCb] at hcb
          | find => simp [isMirCb] at hcb
        | _ => simp [isMirCb] at hcb
  | fire q =>
    simp only [step] at h
    cases hf : s.loop.fire q with
    | none => rw [hf] at h; cases h
    | some l =>
      rw [hf] at h; simp at h; subst h
      unfold Loop.fire at hf
      split at hf
      · cases hf
      · rename_i t hfind
        split at hf
        · simp only [Option.some.injEq] at hf; subst hf
          have htm : t ∈ s.loop.timers := List.mem_of_find?_eq_some hfind
          have hnt : isMirCb t.cb = false := by
            cases hc : isMirCb t.cb
            · rfl
            · have : t ∈ s.loop.timers.filter (fun t => isMirCb t.cb) := List.mem_filter.mpr ⟨htm, hc⟩
              have h0 : (view s).tim = [] := hi.notim
              unfold view at h0; simp only [] at h0
              rw [h0] at this; cases this
          have h0 : s.loop.timers.filter (fun t => isMirCb t.cb) = [] := hi.notim
          have h3 : (s.loop.timers.eraseP (fun t => decide (t.seq = q))).filter (fun t => isMirCb t.cb) = [] := by
            rw [List.filter_eq_nil_iff] at h0 ⊢
            intro a ha; exact h0 a (List.mem_of_mem_eraseP ha)
          apply mir_frame _ hi
          simp [mpi, List.filter_append, hnt, h0, h3]
        · cases hf
  | adv t =>
    simp only [step] at h
    cases hf : s.loop.adv t with
    | none => rw [hf] at h; cases h
    | some l =>
      rw [hf] at h; simp at h; subst h
      unfold Loop.adv at hf
      split at hf
      · simp only [Option.some.injEq] at hf; subst hf
        exact mir_frame (s := s) rfl hi
      · cases hf

end Stack
end Someip
