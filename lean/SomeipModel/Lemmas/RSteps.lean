/-
  C14, last clause: the refresh-loop invariant `RL` through inputs, callbacks and loop steps (given the mirror invariant,
  which supplies "a live subscribe task is the one the subscriber holds").
-/
import SomeipModel.Lemmas.RInv
namespace Someip
namespace Stack
open MV
set_option linter.unusedSimpArgs false
set_option linter.unusedVariables false

@[simp] theorem rpi_sdMessageReceived (s : Stack) (m : SDHeader) (a : Addr) (mc : Bool) :
    rpi (s.sdMessageReceived m a mc) = rpi s := by
  unfold sdMessageReceived; split; rfl
  rw [foldl_pres rpi _ (fun s e => by frame_cases)]

@[simp] theorem rpi_messageReceived (s : Stack) (h : Header) (a : Addr) (mc : Bool) : rpi (s.messageReceived h a mc) = rpi s := by
  unfold messageReceived
  split; rfl
  split; rfl
  simp only []
  split
  · split <;> simp <;> rfl
  · split <;> simp <;> rfl

@[simp] theorem rpi_datagramReceived (s : Stack) (b : Bytes) (a : Addr) (mc : Bool) : rpi (s.datagramReceived b a mc) = rpi s := by
  unfold datagramReceived; rw [foldl_pres rpi _ (fun s h => by simp)]

/-- the wake-up of subscribe task m runs (its callback has just been popped from the ready queue) -/
theorem rl_sleepDone_sub (s0 : Stack) (m : Nat)
    (hpre : s0.alive = true → ∀ r, s0.tm.subscribeRefresh = some r →
      ∃ n t T, Owner s0 n t ∧ lastMark s0 = some T ∧ s0.loop.now ≤ T + r ∧ ((n = m ∧ t.waiting = true) ∨ NextRound s0 n t (T + r))) :
    RL (s0.sleepDone (.subscribe, m)) := by
  unfold sleepDone
  cases htm : s0.getTask (.subscribe, m) with
  | none =>
    simp only []
    intro ha r hr
    obtain ⟨n, t, T, ⟨h1, h2, h3, h4⟩, hT, hnow, h5⟩ := hpre ha r hr
    rcases h5 with ⟨rfl, _⟩ | h5
    · rw [htm] at h2; cases h2
    · exact ⟨n, t, T, ⟨h1, h2, h3, h4⟩, hT, hnow, h5⟩
  | some tm =>
    simp only []
    cases hw : tm.waiting
    · simp only [Bool.false_eq_true, if_false]
      intro ha r hr
      obtain ⟨n, t, T, ⟨h1, h2, h3, h4⟩, hT, hnow, h5⟩ := hpre ha r hr
      rcases h5 with ⟨rfl, h6⟩ | h5
      · rw [htm] at h2; cases h2; rw [hw] at h6; cases h6
      · exact ⟨n, t, T, ⟨h1, h2, h3, h4⟩, hT, hnow, h5⟩
    · simp only [if_true]
      intro ha r hr
      obtain ⟨n, t, T, ⟨h1, h2, h3, h4⟩, hT, hnow, h5⟩ := hpre ha r hr
      by_cases hnm : n = m
      · subst hnm
        rw [htm] at h2
        obtain rfl : t = tm := (Option.some.inj h2).symm
        refine ⟨n, { t with waiting := false, sleep := none }, T, ⟨h1, ?_, h3, h4⟩, hT, hnow,
          Or.inl ⟨⟨none, .taskStep (.subscribe, n)⟩, ?_, isStepOf_self _⟩⟩
        · exact getTask_setTask_sub_same s0 n t _ htm
        · show _ ∈ (s0.loop.ready ++ [_]); exact List.mem_append_right _ (List.mem_singleton.mpr rfl)
      · have hn5 : NextRound s0 n t (T + r) := by
          rcases h5 with ⟨h5, _⟩ | h5
          · exact absurd h5 hnm
          · exact h5
        refine ⟨n, t, T, ⟨h1, ?_, h3, h4⟩, hT, hnow, ?_⟩
        · show (s0.setTask (.subscribe, m) _).getTask (.subscribe, n) = some t
          rw [getTask_setTask_sub_other _ _ _ _ hnm]; exact h2
        · refine nextRound_mono (s := s0) n t (T + r) ?_ ?_ hn5
          · intro x hx _; show x ∈ (s0.loop.ready ++ [_]); exact List.mem_append_left _ hx
          · intro x hx _; exact hx

/-- popping the head of the ready queue: the next round is still on its way, or the head was its witness -/
theorem nextRound_pop (s : Stack) (q : Option Nat) (cb : Cb) (rest : List (RItem Cb)) (hr : s.loop.ready = ⟨q, cb⟩ :: rest)
    (n : Nat) (t : TaskSt) (B : Nat) (hn : NextRound s n t B) :
    NextRound ({ s with loop := { s.loop with ready := rest } } : Stack) n t B ∨ isStepOf n cb = true ∨
      (t.waiting = true ∧ isSleepFor (.subscribe, n) cb = true) := by
  rcases hn with ⟨x, hx, h1⟩ | ⟨hw, ⟨x, hx, h1, h2⟩ | ⟨x, hx, h1⟩⟩
  · rw [hr] at hx
    rcases List.mem_cons.mp hx with rfl | hx
    · exact Or.inr (Or.inl h1)
    · exact Or.inl (Or.inl ⟨x, hx, h1⟩)
  · exact Or.inl (Or.inr ⟨hw, Or.inl ⟨x, hx, h1, h2⟩⟩)
  · rw [hr] at hx
    rcases List.mem_cons.mp hx with rfl | hx
    · exact Or.inr (Or.inr ⟨hw, h1⟩)
    · exact Or.inl (Or.inr ⟨hw, Or.inr ⟨x, hx, h1⟩⟩)

theorem rpi_pop_other (s : Stack) (q : Option Nat) (cb : Cb) (rest : List (RItem Cb)) (hr : s.loop.ready = ⟨q, cb⟩ :: rest)
    (hcb : isRCb cb = false) : rpi ({ s with loop := { s.loop with ready := rest } } : Stack) = rpi s := by
  simp [rpi, hr, List.filter_cons, hcb]

theorem rl_applyInput (s : Stack) (x : Input) (hm : MirInv s) (hi : RL s) : RL (s.applyInput x) := by
  cases x with
  | dgram a mc b => exact rl_of_rpi (rpi_datagramReceived s b a mc) hi
  | start =>
    show RL (((s.subscriberStart).announcerStart).discoveryStart)
    exact rl_of_rpi ((rpi_discoveryStart _).trans (rpi_announcerStart _)) (rl_subscriberStart s hm hi)
  | stop =>
    show RL (((s.discoveryStop).announcerStop).subscriberStop true)
    exact rl_subscriberStop _ _
  | connLost => exact rl_of_rpi (rpi_connectionLost s) hi
  | watch f l => exact rl_of_rpi (rpi_watchService s f l) hi
  | unwatch f l => exact rl_of_rpi (rpi_stopWatchService s f l) hi
  | watchAll id => exact rl_of_rpi (rpi_watchAllServices s id) hi
  | unwatchAll id => exact rl_of_rpi (rpi_stopWatchAllServices s id) hi
  | subscribe g d => exact rl_of_rpi (rpi_subscribeEventgroup s g d) hi
  | stopSubscribe g d => exact rl_of_rpi (rpi_stopSubscribeEventgroup s g d true) hi
  | announce i => exact rl_of_rpi (rpi_announceService s i) hi
  | stopAnnounce i b => exact rl_of_rpi (rpi_stopAnnounceService s i b) hi
  | setNak i egs =>
    simp only [applyInput]
    split
    · exact rl_of_rpi (rpi_setInst s i _) hi
    · exact hi
  | draws ds => exact rl_of_rpi (s := s) (s' := { s with draws := s.draws ++ ds }) rfl hi
  | announcerStop => exact rl_of_rpi (rpi_announcerStop s) hi
  | announcerStart => exact rl_of_rpi (rpi_announcerStart s) hi

theorem mem_eraseP_of_ne_find {α : Type} {p : α → Bool} {l : List α} {t a : α} (hf : l.find? p = some t) (ha : a ∈ l) (hne : a ≠ t) :
    a ∈ l.eraseP p := by
  induction l with
  | nil => cases ha
  | cons b l' ih =>
    cases hp : p b
    · rw [List.find?_cons_of_neg (by simp [hp])] at hf
      rw [List.eraseP_cons_of_neg (by simp [hp])]
      rcases List.mem_cons.mp ha with rfl | ha
      · exact List.mem_cons_self
      · exact List.mem_cons_of_mem _ (ih hf ha)
    · rw [List.find?_cons_of_pos (by simp [hp])] at hf
      rw [List.eraseP_cons_of_pos (by simp [hp])]
      obtain rfl := Option.some.inj hf
      rcases List.mem_cons.mp ha with rfl | ha
      · exact absurd rfl hne
      · exact ha

theorem rl_step (s s' : Stack) (e : Event) (h : s.step e = some s') (hm : MirInv s) (hi : RL s) : RL s' := by
  cases e with
  | input x => simp only [step, Option.some.injEq] at h; subst h; exact rl_applyInput s x hm hi
  | run =>
    simp only [step, Loop.pop] at h
    cases hr : s.loop.ready with
    | nil => rw [hr] at h; cases h
    | cons r0 rest =>
      rw [hr] at h
      simp only [Option.some.injEq] at h
      subst h
      obtain ⟨q, cb⟩ := r0
      have hlive : ∀ n t, ({ s with loop := { s.loop with ready := rest } } : Stack).getTask (.subscribe, n) = some t → t.pc ≠ .done →
          t.cancelled = false → ({ s with loop := { s.loop with ready := rest } } : Stack).subTask = some n := by
        intro n t h1 h2 h3
        have h1' : s.getTask (.subscribe, n) = some t := h1
        rw [getTask_sub] at h1'
        exact (hm.live n t h1' h2 h3).2
      have hother : isRCb cb = false → RL ({ s with loop := { s.loop with ready := rest } } : Stack) :=
        fun hcb => rl_of_rpi (rpi_pop_other s q cb rest hr hcb) hi
      cases cb with
      | connLost p =>
        cases p with
        | subscriber => exact rl_subscriberStop _ _
        | discovery => exact rl_of_rpi (rpi_foundStopAll _) (hother rfl)
        | announcer => exact rl_of_rpi (rpi_announcerStop _) (hother rfl)
      | expiredSvc a k => exact rl_of_rpi (rpi_expiredSvc _ a k) (hother rfl)
      | expiredSub i a k => exact rl_of_rpi (rpi_expiredSub _ i a k) (hother rfl)
      | sendStartSubscribe d egs => exact rl_of_rpi (rpi_sendSubscribe _ _ d egs) (hother rfl)
      | sendStopSubscribe d egs => exact rl_of_rpi (rpi_sendSubscribe _ _ d egs) (hother rfl)
      | sendOfferTo i a => exact rl_of_rpi (rpi_sendOffer _ i _ _) (hother rfl)
      | collectorTimeout cid => exact rl_of_rpi (rpi_collectorTimeout _ cid) (hother rfl)
      | sleepDone tid =>
        obtain ⟨k, m⟩ := tid
        cases k with
        | find => exact rl_of_rpi (rpi_sleepDone _ _ (by simp)) (hother rfl)
        | offer i => exact rl_of_rpi (rpi_sleepDone _ _ (by simp)) (hother rfl)
        | subscribe =>
          apply rl_sleepDone_sub
          intro ha r hr'
          obtain ⟨n, t, T, h1, hT, hnow, h5⟩ := hi ha r hr'
          refine ⟨n, t, T, h1, hT, hnow, ?_⟩
          rcases nextRound_pop s q _ rest hr n t _ h5 with h6 | h6 | ⟨h6, h7⟩
          · exact Or.inr h6
          · rw [isStepOf_sleepDone] at h6; cases h6
          · refine Or.inl ⟨?_, h6⟩
            have : (TaskKind.subscribe, m) = (TaskKind.subscribe, n) := by simpa [isSleepFor] using h7
            exact (Prod.mk.inj this).2.symm
      | taskStep tid =>
        obtain ⟨k, m⟩ := tid
        cases k with
        | find =>
          have h0 := hother rfl
          simp only [runCb]
          split
          · exact h0
          · split
            · exact h0
            · exact rl_of_rpi ((rpi_stepFind _ _ _ (by simp)).trans (rpi_cancelTimer_sleep _ _ _ (by simp))) h0
        | offer i =>
          have h0 := hother rfl
          simp only [runCb]
          split
          · exact h0
          · split
            · exact h0
            · exact rl_of_rpi ((rpi_stepOffer _ _ _ _ (by simp)).trans (rpi_cancelTimer_sleep _ _ _ (by simp))) h0
        | subscribe =>
          apply rl_taskStep_sub _ m hlive
          intro ha r hr'
          obtain ⟨n, t, T, h1, hT, hnow, h5⟩ := hi ha r hr'
          refine ⟨n, t, T, h1, hT, hnow, ?_⟩
          rcases nextRound_pop s q _ rest hr n t _ h5 with h6 | h6 | ⟨h6, h7⟩
          · exact Or.inr h6
          · rw [isStepOf_step] at h6; exact Or.inl (of_decide_eq_true h6).symm
          · rw [isSleepFor_taskStep] at h7; cases h7
  | fire q =>
    simp only [step] at h
    cases hf : s.loop.fire q with
    | none => rw [hf] at h; cases h
    | some l =>
      rw [hf] at h; simp at h; subst h
      unfold Loop.fire at hf
      split at hf
      · cases hf
      · rename_i tt hfind
        split at hf
        · simp only [Option.some.injEq] at hf; subst hf
          intro ha r hr'
          obtain ⟨n, t, T, h1, hT, hnow, h5⟩ := hi ha r hr'
          refine ⟨n, t, T, h1, hT, hnow, ?_⟩
          rcases h5 with ⟨x, hx, h6⟩ | ⟨hw, ⟨x, hx, h6, h7⟩ | ⟨x, hx, h6⟩⟩
          · exact Or.inl ⟨x, List.mem_append_left _ hx, h6⟩
          · by_cases hxt : x = tt
            · subst hxt
              exact Or.inr ⟨hw, Or.inr ⟨⟨some q, x.cb⟩, List.mem_append_right _ (List.mem_singleton.mpr rfl), h6⟩⟩
            · exact Or.inr ⟨hw, Or.inl ⟨x, mem_eraseP_of_ne_find hfind hx hxt, h6, h7⟩⟩
          · exact Or.inr ⟨hw, Or.inr ⟨x, List.mem_append_left _ hx, h6⟩⟩
        · cases hf
  | adv t' =>
    simp only [step] at h
    cases hf : s.loop.adv t' with
    | none => rw [hf] at h; cases h
    | some l =>
      rw [hf] at h; simp at h; subst h
      unfold Loop.adv at hf
      split at hf
      · rename_i hc
        simp only [Option.some.injEq] at hf; subst hf
        intro ha r hr'
        obtain ⟨n, t, T, h1, hT, hnow, h5⟩ := hi ha r hr'
        refine ⟨n, t, T, h1, hT, ?_, nextRound_mono (s := s) n t _ (fun x hx _ => hx) (fun x hx _ => hx) h5⟩
        -- the clock only moves at an idle loop, and never past the wake-up of the subscriber's task
        show t' ≤ T + r
        have hempty : s.loop.ready = [] := by simpa using hc.1
        rcases h5 with ⟨x, hx, _⟩ | ⟨_, ⟨x, hx, _, h7⟩ | ⟨x, hx, _⟩⟩
        · rw [hempty] at hx; cases hx
        · have := List.all_eq_true.mp hc.2.2 x hx
          exact Nat.le_trans (of_decide_eq_true this) h7
        · rw [hempty] at hx; cases hx
      · cases hf

end Stack
end Someip
