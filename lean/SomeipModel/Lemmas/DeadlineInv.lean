/-
  C09: the deadline of the expiry handle of a found service.  `refreshLog` (ghost) records (source, service, time, ttl) of
  every TimedStore.refresh of found_services.  Invariant `DL`: every scheduled expiry handle of (a, k) has the deadline
  `T + ttl` (in ticks) where (T, ttl) is the MOST RECENT refresh of (a, k).  It rests on the handle invariant (TimerInv: a
  refresh finds at most the one handle its entry holds and cancels it, so no older handle survives).
-/
import SomeipModel.Lemmas.TimerInv
namespace Someip
namespace Stack
set_option linter.unusedSimpArgs false
set_option linter.unusedVariables false

/-- time and TTL of the most recent refresh of (a, k) -/
def lastRefresh (log : List (Addr × SvcKey × Nat × Nat)) (a : Addr) (k : SvcKey) : Option (Nat × Nat) :=
  ((log.filter (fun p => decide (p.1 = a ∧ p.2.1 = k))).getLast?).map (fun p => (p.2.2.1, p.2.2.2))

theorem lastRefresh_append_self (log : List (Addr × SvcKey × Nat × Nat)) (a : Addr) (k : SvcKey) (T ttl : Nat) :
    lastRefresh (log ++ [(a, k, T, ttl)]) a k = some (T, ttl) := by
  simp [lastRefresh, List.filter_append, List.filter_cons]
theorem lastRefresh_append_other (log : List (Addr × SvcKey × Nat × Nat)) (a a' : Addr) (k k' : SvcKey) (T ttl : Nat)
    (h : ¬ (a' = a ∧ k' = k)) : lastRefresh (log ++ [(a, k, T, ttl)]) a' k' = lastRefresh log a' k' := by
  have : ¬ (a = a' ∧ k = k') := fun e => h ⟨e.1.symm, e.2.symm⟩
  simp [lastRefresh, List.filter_append, List.filter_cons, this]

def DL (s : Stack) : Prop :=
  ∀ t ∈ s.loop.timers, ∀ a k, t.cb = .expiredSvc a k →
    ∃ T ttl, lastRefresh s.refreshLog a k = some (T, ttl) ∧ t.deadline = T + ttl * TICKS_PER_S

/-- the log is the same and no discovery-store expiry handle was added -/
def SubT (s s' : Stack) : Prop :=
  s'.refreshLog = s.refreshLog ∧ ∀ t ∈ s'.loop.timers, isSvcExpiry t.cb = true → t ∈ s.loop.timers

theorem SubT.refl (s : Stack) : SubT s s := ⟨rfl, fun t h _ => h⟩
theorem SubT.trans {a b c : Stack} (h1 : SubT a b) (h2 : SubT b c) : SubT a c :=
  ⟨h2.1.trans h1.1, fun t ht hs => h1.2 t (h2.2 t ht hs) hs⟩
theorem subT_of_svcT {s s' : Stack} (h : svcT s' = svcT s) : SubT s s' := by
  have e2 : s'.loop.timers.filter (fun t => isSvcExpiry t.cb) = s.loop.timers.filter (fun t => isSvcExpiry t.cb) := congrArg (fun p => p.2.1) h
  have e4 : s'.refreshLog = s.refreshLog := congrArg (fun p => p.2.2.2) h
  refine ⟨e4, fun t ht hs => ?_⟩
  have : t ∈ s'.loop.timers.filter (fun t => isSvcExpiry t.cb) := List.mem_filter.mpr ⟨ht, hs⟩
  rw [e2] at this
  exact (List.mem_filter.mp this).1
theorem subT_with_found (s : Stack) (F : TStore SvcKey) : SubT s { s with found := F } := ⟨rfl, fun t h _ => h⟩
theorem subT_cancelTimer (s : Stack) (own : Cb → Bool) (q : Option Nat) : SubT s (s.cancelTimer own q) := by
  cases q with
  | none => exact SubT.refl s
  | some n =>
    refine ⟨rfl, fun t ht _ => ?_⟩
    simp only [cancelTimer, Loop.cancelOpt, Loop.cancel, List.mem_filter] at ht
    exact ht.1
theorem subT_foldl {α : Type} (f : Stack → α → Stack) (h : ∀ s a, SubT s (f s a)) (l : List α) (s : Stack) : SubT s (l.foldl f s) := by
  induction l generalizing s with
  | nil => exact SubT.refl s
  | cons a t ih => rw [List.foldl_cons]; exact (h s a).trans (ih _)

theorem dl_sub {s s' : Stack} (h : SubT s s') (hd : DL s) : DL s' := by
  intro t ht a k hcb
  have hs : isSvcExpiry t.cb = true := by rw [hcb]; rfl
  obtain ⟨T, ttl, h1, h2⟩ := hd t (h.2 t ht hs) a k hcb
  exact ⟨T, ttl, by rw [h.1]; exact h1, h2⟩

theorem subT_notifyService (s : Stack) (o : Bool) (k : SvcKey) (a : Addr) : SubT s (s.notifyService o k a) :=
  subT_of_svcT (svcT_notifyService s o k a)

theorem subT_foundStop (s : Stack) (a : Addr) (k : SvcKey) : SubT s (s.foundStop a k) := by
  unfold foundStop
  simp only []
  split
  · exact subT_with_found _ _
  · exact ((subT_with_found s _).trans (subT_cancelTimer _ _ _)).trans (subT_notifyService _ _ _ _)

theorem subT_foundStopAllFor (s : Stack) (a : Addr) : SubT s (s.foundStopAllFor a) := by
  unfold foundStopAllFor
  simp only []
  exact (subT_with_found s _).trans (subT_foldl _ (fun X e => (subT_cancelTimer _ _ _).trans (subT_notifyService _ _ _ _)) _ _)

theorem subT_foundStopAll (s : Stack) : SubT s s.foundStopAll := by
  unfold foundStopAll
  simp only []
  have h1 := subT_foldl (fun (X : Stack) (p : Addr × List (TSEntry SvcKey)) => X.foundStopAllFor p.1) (fun X p => subT_foundStopAllFor X p.1) s.found s
  exact h1.trans (subT_with_found _ _)

theorem subT_expiredSvc (s : Stack) (a : Addr) (k : SvcKey) : SubT s (s.expiredSvc a k) := by
  unfold expiredSvc
  simp only []
  split
  · exact subT_with_found _ _
  · exact (subT_with_found s _).trans (subT_notifyService _ _ _ _)

/-- the refresh itself -/
theorem dl_refresh_core (s X : Stack) (ttl : Nat) (a : Addr) (k : SvcKey) (F : TStore SvcKey) (hd : DL s) (hsub : SubT s X)
    (hnow : X.loop.now = s.loop.now) (hXk : hT X a k = []) :
    DL { (X.armTtl ttl (.expiredSvc a k)).1 with
           found := F,
           refreshLog := (X.armTtl ttl (.expiredSvc a k)).1.refreshLog ++ [(a, k, s.loop.now, ttl)] } := by
  have hlog : (X.armTtl ttl (.expiredSvc a k)).1.refreshLog = s.refreshLog := by
    have : (X.armTtl ttl (.expiredSvc a k)).1.refreshLog = X.refreshLog := by unfold armTtl; split <;> rfl
    rw [this]; exact hsub.1
  intro t ht a' k' hcb
  show ∃ T ttl', lastRefresh ((X.armTtl ttl (.expiredSvc a k)).1.refreshLog ++ [(a, k, s.loop.now, ttl)]) a' k' = some (T, ttl') ∧ _
  rw [hlog]
  have htm : t ∈ (X.armTtl ttl (.expiredSvc a k)).1.loop.timers := ht
  have hold : t ∈ X.loop.timers → ∃ T ttl', lastRefresh (s.refreshLog ++ [(a, k, s.loop.now, ttl)]) a' k' = some (T, ttl') ∧
      t.deadline = T + ttl' * TICKS_PER_S := by
    intro hX
    have hs : isSvcExpiry t.cb = true := by rw [hcb]; rfl
    by_cases hak : a' = a ∧ k' = k
    · -- no older handle of (a, k) survives a refresh
      obtain ⟨rfl, rfl⟩ := hak
      have : t.seq ∈ hT X a' k' := by
        unfold hT
        exact List.mem_map.mpr ⟨t, List.mem_filter.mpr ⟨hX, by rw [hcb]; simp [isSvcExpiryFor]⟩, rfl⟩
      rw [hXk] at this; cases this
    · obtain ⟨T, ttl', h1, h2⟩ := hd t (hsub.2 t hX hs) a' k' hcb
      exact ⟨T, ttl', by rw [lastRefresh_append_other _ _ _ _ _ _ _ hak]; exact h1, h2⟩
  unfold armTtl at htm
  split at htm
  · simp only [callLater, Loop.callLater, List.mem_append, List.mem_cons, List.not_mem_nil, or_false] at htm
    rcases htm with htm | rfl
    · exact hold htm
    · simp only [Cb.expiredSvc.injEq] at hcb
      obtain ⟨rfl, rfl⟩ := hcb
      exact ⟨s.loop.now, ttl, lastRefresh_append_self _ _ _ _ _, by rw [hnow]⟩
  · exact hold htm

theorem notifyService_now (s : Stack) (o : Bool) (k : SvcKey) (a : Addr) : (s.notifyService o k a).loop.now = s.loop.now :=
  congrArg Prod.snd (base_notifyService s o k a)

theorem dl_foundRefresh (s : Stack) (ttl : Nat) (a : Addr) (k : SvcKey) (hi : TimerInv s) (hd : DL s) :
    DL (s.foundRefresh ttl a k) := by
  unfold foundRefresh
  simp only []
  cases hfind : TStore.findKey (· == ·) ((s.found.touch a).get a) k with
  | some old =>
    simp only []
    refine dl_refresh_core s _ ttl a k _ hd ((subT_with_found s _).trans (subT_cancelTimer _ _ _)) ?_ ?_
    · exact cancelTimer_now _ _ _
    · rw [hT_cancel, if_pos ⟨rfl, rfl⟩]
      have hg := hi a k
      rw [held_of_find hfind] at hg
      cases ht : old.timer with
      | none => rw [ht] at hg; exact hg.1
      | some q =>
        rw [ht] at hg
        have := good_cancelled hg
        exact this.1
  | none =>
    simp only []
    have hsv := svcT_notifyService ({ s with found := s.found.touch a } : Stack) true k a
    refine dl_refresh_core s _ ttl a k _ hd ((subT_with_found s _).trans (subT_of_svcT hsv)) ?_ ?_
    · exact notifyService_now _ _ _ _
    · rw [hT_of_svcT hsv]
      have hg := hi a k
      rw [held_of_find_none hfind] at hg
      exact hg.1

/-- handle invariants and deadline invariant together -/
def Inv3 (s : Stack) : Prop := Inv2 s ∧ DL s

theorem inv3_of_frames {s s' : Stack} (hd : disc s' = disc s) (ht : svcT s' = svcT s) (h : Inv3 s) : Inv3 s' :=
  ⟨inv2_of_frames hd ht h.1, dl_sub (subT_of_svcT ht) h.2⟩

theorem inv3_handleOffer (s : Stack) (e : SDEntry) (a : Addr) (h : Inv3 s) : Inv3 (s.handleOffer e a) := by
  refine ⟨inv2_handleOffer s e a h.1, ?_⟩
  unfold handleOffer
  simp only []
  split
  · split
    · exact dl_sub (subT_foundStop _ _ _) h.2
    · exact h.2
  · split
    · exact dl_sub (subT_foundStop _ _ _) h.2
    · exact dl_foundRefresh _ _ _ _ h.1.2 h.2

theorem inv3_rebootDetected (s : Stack) (a : Addr) (h : Inv3 s) : Inv3 (s.rebootDetected a) := by
  refine ⟨inv2_rebootDetected s a h.1, ?_⟩
  unfold rebootDetected
  exact dl_sub ((subT_foundStopAllFor s a).trans (subT_of_svcT (svcT_announcerReboot _ _))) h.2

theorem inv3_foldl {α : Type} (f : Stack → α → Stack) (h : ∀ s x, Inv3 s → Inv3 (f s x)) (l : List α) (s : Stack)
    (hi : Inv3 s) : Inv3 (l.foldl f s) := by
  induction l generalizing s with
  | nil => exact hi
  | cons x t ih => rw [List.foldl_cons]; exact ih _ (h s x hi)

theorem inv3_sdMessageReceived (s : Stack) (m : SDHeader) (a : Addr) (mc : Bool) (hi : Inv3 s) :
    Inv3 (s.sdMessageReceived m a mc) := by
  unfold sdMessageReceived
  split
  · exact hi
  · refine inv3_foldl _ (fun s e h => ?_) _ _ hi
    split
    · exact inv3_handleOffer _ _ _ h
    · exact h
    · exact inv3_of_frames (disc_handleFind _ _ _ _) (svcT_handleFind _ _ _ _) h
    · split
      · exact h
      · exact inv3_of_frames (disc_handleSubscribe _ _ _) (svcT_handleSubscribe _ _ _) h

theorem inv3_messageReceived (s : Stack) (h : Header) (a : Addr) (mc : Bool) (hi : Inv3 s) :
    Inv3 (s.messageReceived h a mc) := by
  unfold messageReceived
  split
  · exact hi
  · split
    · exact hi
    · rename_i m r hp
      simp only []
      have h0 : Inv3 ({ s with incoming := (checkReceived s.incoming a mc m.flagReboot h.sess).2 } : Stack) :=
        inv3_of_frames (s := s) rfl rfl hi
      have h1 : Inv3 (if (checkReceived s.incoming a mc m.flagReboot h.sess).1 = true
          then ({ s with incoming := (checkReceived s.incoming a mc m.flagReboot h.sess).2 } : Stack).rebootDetected a
          else ({ s with incoming := (checkReceived s.incoming a mc m.flagReboot h.sess).2 } : Stack)) := by
        split
        · exact inv3_rebootDetected _ a h0
        · exact h0
      split
      · exact inv3_of_frames (s' := Stack.emit _ _) rfl rfl h1
      · exact inv3_sdMessageReceived _ _ _ _ h1

theorem inv3_datagramReceived (s : Stack) (b : Bytes) (a : Addr) (mc : Bool) (hi : Inv3 s) :
    Inv3 (s.datagramReceived b a mc) := by
  unfold datagramReceived
  exact inv3_foldl _ (fun s h hh => inv3_messageReceived s h a mc hh) _ _ hi

theorem dl_applyInput_other (s : Stack) (x : Input) (hx : ∀ a mc b, x ≠ .dgram a mc b) (hd : DL s) (h2 : Inv2 s) : DL (s.applyInput x) := by
  cases x with
  | dgram a mc b => exact absurd rfl (hx a mc b)
  | start => exact dl_sub (subT_of_svcT (svcT_start s)) hd
  | stop => exact dl_sub (subT_of_svcT (svcT_stop s)) hd
  | connLost => exact dl_sub (subT_of_svcT (svcT_connectionLost s)) hd
  | watch f l => exact dl_sub (subT_of_svcT (svcT_watchService s f l)) hd
  | unwatch f l => exact dl_sub (subT_of_svcT (svcT_stopWatchService s f l)) hd
  | watchAll id => exact dl_sub (subT_of_svcT (svcT_watchAllServices s id)) hd
  | unwatchAll id => exact dl_sub (subT_of_svcT (svcT_stopWatchAllServices s id)) hd
  | subscribe g d => exact dl_sub (subT_of_svcT (svcT_subscribeEventgroup s g d)) hd
  | stopSubscribe g d => exact dl_sub (subT_of_svcT (svcT_stopSubscribeEventgroup s g d true)) hd
  | announce i => exact dl_sub (subT_of_svcT (svcT_announceService s i)) hd
  | stopAnnounce i b => exact dl_sub (subT_of_svcT (svcT_stopAnnounceService s i b)) hd
  | setNak i egs =>
    simp only [applyInput]
    split
    · exact dl_sub (subT_of_svcT (svcT_setInst s i _)) hd
    · exact hd
  | draws ds => exact dl_sub (s := s) (s' := { s with draws := s.draws ++ ds }) ⟨rfl, fun t h _ => h⟩ hd
  | announcerStop => exact dl_sub (subT_of_svcT (svcT_announcerStop s)) hd
  | announcerStart => exact dl_sub (subT_of_svcT (svcT_announcerStart s)) hd

theorem inv3_applyInput (s : Stack) (x : Input) (hi : Inv3 s) : Inv3 (s.applyInput x) := by
  cases x with
  | dgram a mc b => exact inv3_datagramReceived s b a mc hi
  | _ => exact ⟨inv2_applyInput s _ hi.1, dl_applyInput_other s _ (by intro a mc b h; cases h) hi.2 hi.1⟩

theorem dl_runCb (s : Stack) (cb : Cb) (hd : DL s) : DL (s.runCb cb) := by
  cases cb with
  | connLost p =>
    cases p with
    | subscriber => exact dl_sub (subT_of_svcT (svcT_subscriberStop s false)) hd
    | discovery => exact dl_sub (subT_foundStopAll s) hd
    | announcer => exact dl_sub (subT_of_svcT (svcT_announcerStop s)) hd
  | expiredSvc a k => exact dl_sub (subT_expiredSvc s a k) hd
  | expiredSub i a k => exact dl_sub (subT_of_svcT (svcT_expiredSub s i a k)) hd
  | sendStartSubscribe d egs => exact dl_sub (subT_of_svcT (svcT_sendSubscribe s _ d egs)) hd
  | sendStopSubscribe d egs => exact dl_sub (subT_of_svcT (svcT_sendSubscribe s _ d egs)) hd
  | sendOfferTo i a => exact dl_sub (subT_of_svcT (svcT_sendOffer s i _ _)) hd
  | collectorTimeout cid => exact dl_sub (subT_of_svcT (svcT_collectorTimeout s cid)) hd
  | sleepDone tid => exact dl_sub (subT_of_svcT (svcT_sleepDone s tid)) hd
  | taskStep tid =>
    simp only [runCb]
    split
    · exact hd
    · split
      · exact hd
      · split
        · exact dl_sub (subT_of_svcT ((svcT_stepOffer _ _ _ _).trans (svcT_cancelTimer_sleep _ _ _))) hd
        · exact dl_sub (subT_of_svcT ((svcT_stepFind _ _ _).trans (svcT_cancelTimer_sleep _ _ _))) hd
        · exact dl_sub (subT_of_svcT ((svcT_stepSubscribe _ _ _).trans (svcT_cancelTimer_sleep _ _ _))) hd

theorem inv3_step (s s' : Stack) (e : Event) (h : s.step e = some s') (hi : Inv3 s) : Inv3 s' := by
  refine ⟨inv2_step s s' e h hi.1, ?_⟩
  cases e with
  | input x => simp only [step, Option.some.injEq] at h; subst h; exact (inv3_applyInput s x hi).2
  | run =>
    simp only [step, Loop.pop] at h
    cases hr : s.loop.ready with
    | nil => rw [hr] at h; cases h
    | cons r rest =>
      rw [hr] at h
      simp only [Option.some.injEq] at h
      subst h
      exact dl_runCb _ _ (dl_sub (s := s) ⟨rfl, fun t ht _ => ht⟩ hi.2)
  | fire q =>
    simp only [step] at h
    cases hf : s.loop.fire q with
    | none => rw [hf] at h; cases h
    | some l =>
      rw [hf] at h; simp at h; subst h
      unfold Loop.fire at hf
      split at hf
      · cases hf
      · split at hf
        · simp only [Option.some.injEq] at hf; subst hf
          exact dl_sub (s := s) ⟨rfl, fun t ht _ => List.mem_of_mem_eraseP ht⟩ hi.2
        · cases hf
  | adv t =>
    simp only [step] at h
    cases hf : s.loop.adv t with
    | none => rw [hf] at h; cases h
    | some l =>
      rw [hf] at h; simp at h; subst h
      unfold Loop.adv at hf
      split at hf
      · simp only [Option.some.injEq] at hf; subst hf
        exact dl_sub (s := s) ⟨rfl, fun t ht _ => ht⟩ hi.2
      · cases hf

end Stack
end Someip
