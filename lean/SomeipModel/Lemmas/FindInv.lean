/-
  C13: the invariant of the FindService task - which rounds each find task has sent (ghost `findLog`) as a function of where
  the task stands, and that a find task which can still send is the one the discovery holds - and its preservation by the
  task operations and by one step of the find coroutine.
-/
import SomeipModel.Lemmas.FindFrame
import SomeipModel.Lemmas.MirInv
namespace Someip
namespace Stack
set_option linter.unusedSimpArgs false
set_option linter.unusedVariables false

/-- the round indices find task `n` has sent so far, in order -/
def rounds (log : List (Nat × Nat)) (n : Nat) : List Nat := (log.filter (fun p => decide (p.1 = n))).map (·.2)
def ftasks (s : Stack) : List (Tid × TaskSt) := s.tasks.filter isFindT
def ftask (s : Stack) (n : Nat) : Option TaskSt := alookup (ftasks s) (.find, n)

/-- what a find task at program point `pc` has sent -/
def sentAt (rmax : Nat) (pc : Pc) (r : List Nat) : Prop :=
  match pc with
  | .created => r = []
  | .initial => r = []
  | .rep k => r = List.range (k + 1) ∧ k < rmax
  | _ => ∃ m, m ≤ rmax + 1 ∧ r = List.range m

structure FInv (s : Stack) : Prop where
  kind : ∀ p ∈ ftasks s, p.1.1 = .find
  keys : ∀ p ∈ ftasks s, p.1.2 < (ftasks s).length
  nolog : ∀ n, ftask s n = none → rounds s.findLog n = []
  log : ∀ n t, ftask s n = some t → sentAt s.tm.repetitionsMax t.pc (rounds s.findLog n)
  own : ∀ n t, ftask s n = some t → t.pc ≠ .done → t.cancelled = false → s.findTask = some n

theorem finv_of_fpi {s s' : Stack} (h : fpi s' = fpi s) (hi : FInv s) : FInv s' := by
  have e1 : ftasks s' = ftasks s := congrArg (fun p => p.1) h
  have e2 : s'.findLog = s.findLog := congrArg (fun p => p.2.1) h
  have e3 : s'.tm.repetitionsMax = s.tm.repetitionsMax := congrArg (fun p => p.2.2.1) h
  have e4 : s'.findTask = s.findTask := congrArg (fun p => p.2.2.2) h
  have e5 : ∀ n, ftask s' n = ftask s n := fun n => by unfold ftask; rw [e1]
  refine ⟨?_, ?_, ?_, ?_, ?_⟩
  · rw [e1]; exact hi.kind
  · rw [e1]; exact hi.keys
  · intro n hn; rw [e5] at hn; rw [e2]; exact hi.nolog n hn
  · intro n t ht; rw [e5] at ht; rw [e2, e3]; exact hi.log n t ht
  · intro n t ht; rw [e5] at ht; rw [e4]; exact hi.own n t ht

theorem getTask_find (s : Stack) (n : Nat) : s.getTask (.find, n) = ftask s n := by
  unfold getTask ftask ftasks alookup
  congr 1
  induction s.tasks with
  | nil => rfl
  | cons p t ih =>
    by_cases hp : p.1 = (TaskKind.find, n)
    · have : isFindT p = true := by simp [isFindT, hp]
      simp [List.filter_cons, this, hp]
    · by_cases hs : isFindT p = true
      · simp [List.filter_cons, hs, hp, ih]
      · simp only [Bool.not_eq_true] at hs
        simp [List.filter_cons, hs, hp, ih]

theorem filter_setT_find (l : List (Tid × TaskSt)) (n : Nat) (t : TaskSt) :
    (l.map (fun p => if p.1 = (TaskKind.find, n) then ((TaskKind.find, n), t) else p)).filter isFindT =
      setT (l.filter isFindT) (.find, n) t := by
  unfold setT
  induction l with
  | nil => rfl
  | cons p r ih =>
    by_cases hp : p.1 = (TaskKind.find, n)
    · have h1 : isFindT p = true := by simp [isFindT, hp]
      have h2 : isFindT ((TaskKind.find, n), t) = true := by simp [isFindT]
      simp [List.filter_cons, hp, h1, h2, ih]
    · by_cases hs : isFindT p = true
      · simp [List.filter_cons, hp, hs, ih]
      · simp only [Bool.not_eq_true] at hs
        simp [List.filter_cons, hp, hs, ih]

theorem ftasks_setTask (s : Stack) (n : Nat) (t : TaskSt) : ftasks (s.setTask (.find, n) t) = setT (ftasks s) (.find, n) t := by
  simp only [ftasks, setTask, filter_setT_find]

theorem ftask_setT (s : Stack) (n m : Nat) (t'' : TaskSt) :
    alookup (setT (ftasks s) (TaskKind.find, n) t'') (TaskKind.find, m) = if m = n then (ftask s n).map (fun _ => t'') else ftask s m := by
  rw [alookup_setT]
  by_cases hmn : m = n
  · subst hmn; simp [ftask]
  · have : (TaskKind.find, m) ≠ (TaskKind.find, n) := by simpa using hmn
    rw [if_neg this, if_neg hmn]; rfl

theorem rounds_append_other (log : List (Nat × Nat)) (n m k : Nat) (h : m ≠ n) : rounds (log ++ [(n, k)]) m = rounds log m := by
  have h' : ¬ n = m := fun e => h e.symm
  simp [rounds, List.filter_append, List.filter_cons, h']
theorem rounds_append_self (log : List (Nat × Nat)) (n k : Nat) : rounds (log ++ [(n, k)]) n = rounds log n ++ [k] := by
  simp [rounds, List.filter_append, List.filter_cons]

/-- a task update that writes program point `pc''` and (possibly) logs nothing -/
theorem FInv.setTask {s : Stack} (hi : FInv s) (n : Nat) (t t'' : TaskSt) (ht : ftask s n = some t)
    (hsent : sentAt s.tm.repetitionsMax t''.pc (rounds s.findLog n))
    (hown : t''.pc ≠ .done → t''.cancelled = false → s.findTask = some n) :
    FInv (s.setTask (.find, n) t'') := by
  have e1 := ftasks_setTask s n t''
  have hft : ∀ m, ftask (s.setTask (.find, n) t'') m = if m = n then some t'' else ftask s m := by
    intro m
    unfold ftask; rw [e1, ftask_setT]
    by_cases hmn : m = n
    · subst hmn; rw [if_pos rfl, if_pos rfl, ht]; rfl
    · rw [if_neg hmn, if_neg hmn]; rfl
  refine ⟨?_, ?_, ?_, ?_, ?_⟩
  · intro p hp; rw [e1] at hp; obtain ⟨q, hq, e⟩ := mem_setT hp; rw [← e]; exact hi.kind q hq
  · intro p hp; rw [e1] at hp ⊢; obtain ⟨q, hq, e⟩ := mem_setT hp; rw [length_setT, ← e]; exact hi.keys q hq
  · intro m hm
    rw [hft] at hm
    by_cases hmn : m = n
    · subst hmn; rw [if_pos rfl] at hm; cases hm
    · rw [if_neg hmn] at hm; exact hi.nolog m hm
  · intro m tm htm
    rw [hft] at htm
    by_cases hmn : m = n
    · subst hmn; rw [if_pos rfl] at htm; cases htm; exact hsent
    · rw [if_neg hmn] at htm; exact hi.log m tm htm
  · intro m tm htm hpc hc
    rw [hft] at htm
    by_cases hmn : m = n
    · subst hmn; rw [if_pos rfl] at htm; cases htm; exact hown hpc hc
    · rw [if_neg hmn] at htm; exact hi.own m tm htm hpc hc

theorem finv_frame {s s' : Stack} (h : fpi s' = fpi s) (hi : FInv s) : FInv s' := finv_of_fpi h hi

theorem sentAt_done {rmax : Nat} {pc : Pc} {r : List Nat} (h : sentAt rmax pc r) : sentAt rmax .done r := by
  cases pc with
  | created => exact ⟨0, Nat.zero_le _, by simpa [sentAt] using h⟩
  | initial => exact ⟨0, Nat.zero_le _, by simpa [sentAt] using h⟩
  | rep k => obtain ⟨h1, h2⟩ := h; exact ⟨k + 1, by omega, h1⟩
  | cyclic => exact h
  | done => exact h

theorem FInv.task_lt {s : Stack} (hi : FInv s) {n : Nat} {t : TaskSt} (ht : ftask s n = some t) : n < (ftasks s).length :=
  hi.keys _ (alookup_mem ht)

/-- one FindService round of task `n`: the round is logged and the task moves on -/
theorem FInv.round {s X : Stack} (hi : FInv s) (n k : Nat) (t t'' : TaskSt)
    (hX : fpi X = (ftasks s, s.findLog ++ [(n, k)], s.tm.repetitionsMax, s.findTask)) (ht : ftask s n = some t)
    (hsent : sentAt s.tm.repetitionsMax t''.pc (rounds s.findLog n ++ [k]))
    (hown : t''.pc ≠ .done → t''.cancelled = false → s.findTask = some n) :
    FInv (X.setTask (.find, n) t'') := by
  have x1 : ftasks X = ftasks s := congrArg (fun p => p.1) hX
  have x2 : X.findLog = s.findLog ++ [(n, k)] := congrArg (fun p => p.2.1) hX
  have x3 : X.tm.repetitionsMax = s.tm.repetitionsMax := congrArg (fun p => p.2.2.1) hX
  have x4 : X.findTask = s.findTask := congrArg (fun p => p.2.2.2) hX
  have e1 : ftasks (X.setTask (.find, n) t'') = setT (ftasks s) (.find, n) t'' := by rw [ftasks_setTask, x1]
  have e2 : (X.setTask (.find, n) t'').findLog = s.findLog ++ [(n, k)] := x2
  have e3 : (X.setTask (.find, n) t'').tm.repetitionsMax = s.tm.repetitionsMax := x3
  have e4 : (X.setTask (.find, n) t'').findTask = s.findTask := x4
  have hft : ∀ m, ftask (X.setTask (.find, n) t'') m = if m = n then some t'' else ftask s m := by
    intro m
    unfold ftask; rw [e1, ftask_setT]
    by_cases hmn : m = n
    · subst hmn; rw [if_pos rfl, if_pos rfl, ht]; rfl
    · rw [if_neg hmn, if_neg hmn]; rfl
  have hn := hi.task_lt ht
  refine ⟨?_, ?_, ?_, ?_, ?_⟩
  · intro p hp; rw [e1] at hp; obtain ⟨q, hq, e⟩ := mem_setT hp; rw [← e]; exact hi.kind q hq
  · intro p hp; rw [e1] at hp ⊢; obtain ⟨q, hq, e⟩ := mem_setT hp; rw [length_setT, ← e]; exact hi.keys q hq
  · intro m hm
    rw [hft] at hm
    by_cases hmn : m = n
    · subst hmn; rw [if_pos rfl] at hm; cases hm
    · rw [if_neg hmn] at hm
      rw [e2, rounds_append_other _ _ _ _ hmn]; exact hi.nolog m hm
  · intro m tm htm
    rw [hft] at htm
    rw [e2, e3]
    by_cases hmn : m = n
    · subst hmn; rw [if_pos rfl] at htm; cases htm; rw [rounds_append_self]; exact hsent
    · rw [if_neg hmn] at htm; rw [rounds_append_other _ _ _ _ hmn]; exact hi.log m tm htm
  · intro m tm htm hpc hc
    rw [hft] at htm; rw [e4]
    by_cases hmn : m = n
    · subst hmn; rw [if_pos rfl] at htm; cases htm; exact hown hpc hc
    · rw [if_neg hmn] at htm; exact hi.own m tm htm hpc hc

/-- `finish` of a find task -/
theorem finv_finish (s : Stack) (n : Nat) (t t' : TaskSt) (hi : FInv s) (ht : ftask s n = some t) :
    FInv (s.finish (.find, n) t') := by
  unfold finish
  exact hi.setTask n t _ ht (sentAt_done (hi.log n t ht)) (fun h => absurd rfl h)

/-- `await asyncio.sleep(d)` of a find task that moves on to `pc` without having sent anything new -/
theorem finv_sleepFor (s : Stack) (n : Nat) (t t' : TaskSt) (d : Nat) (pc : Pc) (hi : FInv s) (ht : ftask s n = some t)
    (hsent : sentAt s.tm.repetitionsMax pc (rounds s.findLog n))
    (hown : t'.cancelled = false → s.findTask = some n) : FInv (s.sleepFor (.find, n) t' d pc) := by
  unfold sleepFor
  split
  · apply finv_frame (fpi_callSoon _ _)
    exact hi.setTask n t _ ht hsent (fun _ hc => hown hc)
  · simp only []
    have h1 : FInv (s.callLater d (.sleepDone (.find, n))).1 := finv_frame (fpi_callLater _ _ _) hi
    have ht1 : ftask (s.callLater d (.sleepDone (.find, n))).1 n = some t := ht
    exact h1.setTask n t _ ht1 hsent (fun _ hc => hown hc)

theorem finv_cancelTask (s : Stack) (n : Nat) (hi : FInv s) : FInv (s.cancelTask (.find, n)) := by
  unfold cancelTask
  rw [getTask_find]
  cases ht : ftask s n with
  | none => exact hi
  | some t =>
    simp only []
    split
    · exact hi
    · split
      · apply finv_frame (fpi_callSoon _ _)
        exact hi.setTask n t _ ht (hi.log n t ht) (fun _ hc => by cases hc)
      · exact hi.setTask n t _ ht (hi.log n t ht) (fun _ hc => by cases hc)

theorem finv_sleepDone (s : Stack) (n : Nat) (hi : FInv s) : FInv (s.sleepDone (.find, n)) := by
  unfold sleepDone
  rw [getTask_find]
  cases ht : ftask s n with
  | none => exact hi
  | some t =>
    simp only []
    split
    · apply finv_frame (fpi_callSoon _ _)
      exact hi.setTask n t _ ht (hi.log n t ht) (fun hpc hc => hi.own n t ht hpc hc)
    · exact hi

/-- a round that has something to ask: logged, sent, and the task sleeps towards the next round or ends -/
theorem finv_round (s : Stack) (n k : Nat) (t t' : TaskSt) (es : List SDEntry) (hi : FInv s) (ht : ftask s n = some t)
    (hr : rounds s.findLog n = List.range k) (hk : k ≤ s.tm.repetitionsMax)
    (hown : t'.cancelled = false → s.findTask = some n) :
    FInv (if k < (({ s with findLog := s.findLog ++ [(n, k)] } : Stack).sendSd es none).tm.repetitionsMax
          then (({ s with findLog := s.findLog ++ [(n, k)] } : Stack).sendSd es none).sleepFor (.find, n) t'
                 (pow2 k * (({ s with findLog := s.findLog ++ [(n, k)] } : Stack).sendSd es none).tm.repetitionsBaseDelay) (.rep k)
          else (({ s with findLog := s.findLog ++ [(n, k)] } : Stack).sendSd es none).finish (.find, n) t') := by
  have hX : fpi (({ s with findLog := s.findLog ++ [(n, k)] } : Stack).sendSd es none) =
      (ftasks s, s.findLog ++ [(n, k)], s.tm.repetitionsMax, s.findTask) := by
    rw [fpi_sendSd]; rfl
  generalize ({ s with findLog := s.findLog ++ [(n, k)] } : Stack).sendSd es none = X at hX
  have x3 : X.tm.repetitionsMax = s.tm.repetitionsMax := congrArg (fun p => p.2.2.1) hX
  have hrange : rounds s.findLog n ++ [k] = List.range (k + 1) := by rw [hr, List.range_succ]
  split
  · rename_i hlt
    rw [x3] at hlt
    unfold sleepFor
    split
    · apply finv_frame (fpi_callSoon _ _)
      exact hi.round n k t _ hX ht ⟨hrange, hlt⟩ (fun _ hc => hown hc)
    · simp only []
      have hX' : fpi (X.callLater (pow2 k * X.tm.repetitionsBaseDelay) (.sleepDone (.find, n))).1 =
          (ftasks s, s.findLog ++ [(n, k)], s.tm.repetitionsMax, s.findTask) := by rw [fpi_callLater]; exact hX
      exact hi.round n k t _ hX' ht ⟨hrange, hlt⟩ (fun _ hc => hown hc)
  · unfold finish
    exact hi.round n k t _ hX ht ⟨k + 1, by omega, hrange⟩ (fun h => absurd rfl h)

/-- one step of the find coroutine -/
theorem finv_stepFind (s : Stack) (n : Nat) (t t' : TaskSt) (hi : FInv s) (ht : ftask s n = some t)
    (hpc : t'.pc = t.pc) (hc : t'.cancelled = t.cancelled) (hnd : t.pc ≠ .done) : FInv (s.stepFind (.find, n) t') := by
  have hlog := hi.log n t ht
  have hown : t'.cancelled = false → s.findTask = some n := fun h => hi.own n t ht hnd (hc ▸ h)
  unfold stepFind
  simp only []
  split
  · -- created
    rename_i hcr
    rw [hpc] at hcr
    rw [hcr] at hlog
    split
    · exact finv_finish s n t t' hi ht
    · split
      · exact finv_finish s n t t' hi ht
      · have h1 : FInv (s.draw s.tm.initialDelayMin s.tm.initialDelayMax).1 := finv_frame (fpi_draw _ _ _) hi
        have e1 : fpi (s.draw s.tm.initialDelayMin s.tm.initialDelayMax).1 = fpi s := fpi_draw _ _ _
        have ht1 : ftask (s.draw s.tm.initialDelayMin s.tm.initialDelayMax).1 n = some t := by
          unfold ftask ftasks; rw [show (s.draw s.tm.initialDelayMin s.tm.initialDelayMax).1.tasks.filter isFindT = s.tasks.filter isFindT from congrArg (fun p => p.1) e1]; exact ht
        apply finv_sleepFor _ n t t' _ _ h1 ht1
        · rw [show (s.draw s.tm.initialDelayMin s.tm.initialDelayMax).1.findLog = s.findLog from congrArg (fun p => p.2.1) e1]
          exact hlog
        · intro h; rw [show (s.draw s.tm.initialDelayMin s.tm.initialDelayMax).1.findTask = s.findTask from congrArg (fun p => p.2.2.2) e1]; exact hown h
  · -- initial
    rename_i hin
    rw [hpc] at hin
    rw [hin] at hlog
    have hiM : FInv (s.markFind n) := finv_frame (fpi_markFind _ _) hi
    have htM : ftask (s.markFind n) n = some t := ht
    split
    · exact finv_finish s n t t' hi ht
    · split
      · exact finv_finish (s.markFind n) n t t' hiM htM
      · exact finv_round (s.markFind n) n 0 t t' _ hiM htM (show rounds s.findLog n = List.range 0 by simpa [sentAt] using hlog) (Nat.zero_le _) hown
  · -- rep k
    rename_i k hrep
    rw [hpc] at hrep
    rw [hrep] at hlog
    obtain ⟨h1, h2⟩ := hlog
    have hiM : FInv (s.markFind n) := finv_frame (fpi_markFind _ _) hi
    have htM : ftask (s.markFind n) n = some t := ht
    split
    · exact finv_finish s n t t' hi ht
    · split
      · exact finv_finish (s.markFind n) n t t' hiM htM
      · exact finv_round (s.markFind n) n (k + 1) t t' _ hiM htM h1 (show k + 1 ≤ s.tm.repetitionsMax by omega) hown
  · exact hi

theorem taskCount_find (s : Stack) : s.taskCount .find = (ftasks s).length := rfl

theorem discoveryStart_cases (s : Stack) :
    s.discoveryStart = s ∨
    ((∀ n t, s.findTask = some n → s.getTask (.find, n) = some t → t.pc = .done) ∧
     s.discoveryStart = (({ (s.createTask .find).1 with findTask := some (s.createTask .find).2 } : Stack).markFind (s.createTask .find).2)) := by
  unfold discoveryStart
  simp only []
  by_cases hrun : ∃ n t, s.findTask = some n ∧ s.getTask (.find, n) = some t ∧ t.pc ≠ .done
  · obtain ⟨n, t, h1, h2, h3⟩ := hrun
    left
    simp [h1, h2, h3]
  · right
    have hall : ∀ n t, s.findTask = some n → s.getTask (.find, n) = some t → t.pc = .done := by
      intro n t h1 h2
      apply Classical.byContradiction
      intro h3; exact hrun ⟨n, t, h1, h2, h3⟩
    refine ⟨hall, ?_⟩
    cases h1 : s.findTask with
    | none => simp
    | some n =>
      cases h2 : s.getTask (TaskKind.find, n) with
      | none => simp [h2]
      | some t => simp [h2, hall n t h1 h2]

/-- `ServiceDiscover.start()` -/
theorem finv_discoveryStart (s : Stack) (hi : FInv s) : FInv s.discoveryStart := by
  rcases discoveryStart_cases s with h | ⟨hrun, h⟩
  · rw [h]; exact hi
  · rw [h]
    apply finv_frame (fpi_markFind _ _)
    have hnotrun : ∀ m t, ftask s m = some t → t.pc ≠ .done → t.cancelled = false → False := by
      intro m t ht hpc hc
      have hown := hi.own m t ht hpc hc
      exact hpc (hrun m t hown (by rw [getTask_find]; exact ht))
    have hnone : alookup (ftasks s) (TaskKind.find, (ftasks s).length) = none :=
      alookup_none (fun p hp e => by have := hi.keys p hp; rw [e] at this; exact Nat.lt_irrefl _ this)
    have e1 : ftasks ({ (s.createTask .find).1 with findTask := some (s.createTask .find).2 } : Stack) =
        ftasks s ++ [((.find, (ftasks s).length), ({} : TaskSt))] := by
      have hc : ∀ (X : Stack), X.taskCount .find = (X.tasks.filter isFindT).length := fun _ => rfl
      simp [ftasks, createTask, callSoon, hc, List.filter_append, isFindT]
    have e2 : ({ (s.createTask .find).1 with findTask := some (s.createTask .find).2 } : Stack).findLog = s.findLog := rfl
    have e3 : ({ (s.createTask .find).1 with findTask := some (s.createTask .find).2 } : Stack).tm = s.tm := rfl
    have e4 : ({ (s.createTask .find).1 with findTask := some (s.createTask .find).2 } : Stack).findTask = some (ftasks s).length := rfl
    have hft : ∀ m, ftask ({ (s.createTask .find).1 with findTask := some (s.createTask .find).2 } : Stack) m =
        if m = (ftasks s).length then some ({} : TaskSt) else ftask s m := by
      intro m
      unfold ftask; rw [e1, alookup_append]
      by_cases hm : m = (ftasks s).length
      · subst hm; rw [hnone]; simp [alookup]
      · rw [if_neg hm]
        cases hl : alookup (ftasks s) (TaskKind.find, m)
        · simp only []
          apply alookup_none
          intro p hp e; simp at hp; subst hp; simp at e; exact hm e.symm
        · rfl
    refine ⟨?_, ?_, ?_, ?_, ?_⟩
    · intro p hp; rw [e1] at hp
      rcases List.mem_append.mp hp with hp | hp
      · exact hi.kind p hp
      · simp at hp; subst hp; rfl
    · intro p hp; rw [e1] at hp ⊢; rw [List.length_append]
      rcases List.mem_append.mp hp with hp | hp
      · exact Nat.lt_of_lt_of_le (hi.keys p hp) (Nat.le_add_right _ _)
      · simp at hp; subst hp; simp
    · intro m hm
      rw [hft] at hm; rw [e2]
      by_cases hmm : m = (ftasks s).length
      · subst hmm; rw [if_pos rfl] at hm; cases hm
      · rw [if_neg hmm] at hm; exact hi.nolog m hm
    · intro m t ht
      rw [hft] at ht; rw [e2, e3]
      by_cases hm : m = (ftasks s).length
      · subst hm; rw [if_pos rfl] at ht; cases ht
        show rounds s.findLog (ftasks s).length = []
        exact hi.nolog _ hnone
      · rw [if_neg hm] at ht; exact hi.log m t ht
    · intro m t ht hpc hc
      rw [hft] at ht; rw [e4]
      by_cases hm : m = (ftasks s).length
      · subst hm; rfl
      · rw [if_neg hm] at ht; exact (hnotrun m t ht hpc hc).elim

/-- `ServiceDiscover.stop()` -/
theorem finv_discoveryStop (s : Stack) (hi : FInv s) : FInv s.discoveryStop := by
  unfold discoveryStop
  split
  · rename_i n hn
    have h1 := finv_cancelTask s n hi
    have hdead : ∀ m t, ftask (s.cancelTask (.find, n)) m = some t → t.pc ≠ .done → t.cancelled = false → False := by
      intro m t ht hpc hc
      have := h1.own m t ht hpc hc
      have hft : (s.cancelTask (.find, n)).findTask = s.findTask := by
        unfold cancelTask; split; rfl; split; rfl; split <;> rfl
      rw [hft, hn] at this
      have hmn : n = m := Option.some.inj this
      subst hmn
      -- the task the discovery held has just been cancelled
      unfold cancelTask at ht
      rw [getTask_find] at ht
      cases h0 : ftask s n with
      | none => rw [h0] at ht; simp only [] at ht; rw [h0] at ht; cases ht
      | some t0 =>
        rw [h0] at ht; simp only [] at ht
        split at ht
        · rename_i hd; rw [h0] at ht; cases ht; exact hpc hd
        · split at ht
          · have : ftask ((s.setTask (.find, n) { t0 with waiting := false, cancelled := true }).callSoon (.taskStep (.find, n))) n =
                some { t0 with waiting := false, cancelled := true } := by
              show alookup (ftasks (s.setTask (.find, n) _)) _ = _
              rw [ftasks_setTask, ftask_setT, if_pos rfl, h0]; rfl
            rw [this] at ht; cases ht; cases hc
          · have : ftask (s.setTask (.find, n) { t0 with cancelled := true }) n = some { t0 with cancelled := true } := by
              show alookup (ftasks (s.setTask (.find, n) _)) _ = _
              rw [ftasks_setTask, ftask_setT, if_pos rfl, h0]; rfl
            rw [this] at ht; cases ht; cases hc
    exact ⟨h1.kind, h1.keys, h1.nolog, h1.log, fun m t ht hpc hc => (hdead m t ht hpc hc).elim⟩
  · exact hi

end Stack
end Someip
