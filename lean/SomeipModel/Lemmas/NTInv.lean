/-
  No timer handle ever carries a task-step callback: `call_later` is only used for wake-ups, expiries, deferred answers and
  collection windows; a task step is always queued with `call_soon`.  Lifting scripts as in LoopInv.lean / QDeadline.lean.
-/
import SomeipModel.Lemmas.LoopInv
namespace Someip
namespace Stack
set_option linter.unusedSimpArgs false
set_option linter.unusedVariables false

def isTaskStep : Cb → Bool | .taskStep _ => true | _ => false

def NT (s : Stack) : Prop := ∀ t ∈ s.loop.timers, isTaskStep t.cb = false

theorem nt_same {s s' : Stack} (h1 : s'.loop = s.loop) (h2 : s'.tm = s.tm) (hi : NT s) : NT s' := by
  unfold NT; rw [h1]; exact hi

theorem nt_callLater (s : Stack) (d : Nat) (cb : Cb) (hcb : isTaskStep cb = false) (hi : NT s) : NT (s.callLater d cb).1 := by
  intro t ht
  simp only [callLater, Loop.callLater, List.mem_append, List.mem_cons, List.not_mem_nil, or_false] at ht
  rcases ht with ht | rfl
  · exact hi t ht
  · exact hcb
theorem nt_cancelTimer (s : Stack) (own : Cb → Bool) (q : Option Nat) (hi : NT s) : NT (s.cancelTimer own q) := by
  cases q with
  | none => exact hi
  | some n =>
    intro t ht
    simp only [cancelTimer, Loop.cancelOpt, Loop.cancel, List.mem_filter] at ht
    exact hi t ht.1
theorem nt_armTtl (s : Stack) (ttl : Nat) (cb : Cb) (hcb : isTaskStep cb = false) (hi : NT s) : NT (s.armTtl ttl cb).1 := by
  unfold armTtl; simp only []; split
  · exact nt_callLater ({ s with armLog := s.armLog ++ [(cb, s.loop.now, ttl)] } : Stack) _ _ hcb hi
  · exact hi
theorem nt_newCollector (s : Stack) (d : Dest) (hi : NT s) : NT (s.newCollector d).1 := by
  unfold newCollector; exact nt_callLater s _ _ rfl hi

theorem nt_callSoon (s : Stack) (cb : Cb) (hi : NT s) : NT (s.callSoon cb) := hi
theorem nt_emit (s : Stack) (o : Out) (hi : NT s) : NT (s.emit o) := hi
theorem nt_setInst (s : Stack) (i : Nat) (x : Instance) (hi : NT s) : NT (s.setInst i x) := hi
theorem nt_setTask (s : Stack) (tid : Tid) (t : TaskSt) (hi : NT s) : NT (s.setTask tid t) := hi

theorem nt_foldl {α : Type} (f : Stack → α → Stack) (h : ∀ s a, NT s → NT (f s a)) (l : List α) (s : Stack) (hi : NT s) :
    NT (l.foldl f s) := by
  induction l generalizing s with
  | nil => exact hi
  | cons a t ih => rw [List.foldl_cons]; exact ih _ (h s a hi)

theorem nt_draw (s : Stack) (a b : Nat) (hi : NT s) : NT (s.draw a b).1 := by unfold draw; split <;> exact hi

theorem nt_sendSd (s : Stack) (es : List SDEntry) (d : Dest) (hi : NT s) : NT (s.sendSd es d) := by
  unfold sendSd; split; exact hi; simp only []; split; exact hi; split <;> exact hi
theorem nt_flushTo (s : Stack) (es : List SDEntry) (d : Dest) (hi : NT s) : NT (s.flushTo es d) := by
  unfold flushTo; exact nt_sendSd _ _ _ hi

theorem nt_appendCollector (s : Stack) (c : Nat) (e : SDEntry) (hi : NT s) : NT (s.appendCollector c e) := hi
theorem nt_createTask (s : Stack) (k : TaskKind) (hi : NT s) : NT (s.createTask k).1 := hi
theorem nt_cancelTask (s : Stack) (t : Tid) (hi : NT s) : NT (s.cancelTask t) := by
  unfold cancelTask; split; exact hi; split; exact hi; split <;> exact hi
theorem nt_sleepFor (s : Stack) (tid : Tid) (t : TaskSt) (d : Nat) (pc : Pc) (hi : NT s) : NT (s.sleepFor tid t d pc) := by
  unfold sleepFor; split
  · exact hi
  · exact nt_callLater s _ _ rfl hi
theorem nt_finish (s : Stack) (tid : Tid) (t : TaskSt) (hi : NT s) : NT (s.finish tid t) := hi
theorem nt_sleepDone (s : Stack) (tid : Tid) (hi : NT s) : NT (s.sleepDone tid) := by
  unfold sleepDone; split; exact hi; split <;> exact hi

/-- split conditionals, apply the lemmas of the functions below -/
macro "ntt" : tactic => `(tactic| repeat' (first
  | assumption
  | with_reducible apply nt_cancelTimer
  | with_reducible apply nt_callSoon
  | with_reducible apply nt_emit
  | with_reducible apply nt_setInst
  | with_reducible apply nt_setTask
  | with_reducible apply nt_draw
  | with_reducible apply nt_armTtl
  | with_reducible apply nt_sendSd
  | with_reducible apply nt_flushTo
  | with_reducible apply nt_newCollector
  | with_reducible apply nt_appendCollector
  | with_reducible apply nt_createTask
  | with_reducible apply nt_cancelTask
  | with_reducible apply nt_sleepFor
  | with_reducible apply nt_finish
  | with_reducible apply nt_sleepDone
  | split))

theorem nt_queueSend (s : Stack) (e : SDEntry) (d : Dest) (hi : NT s) : NT (s.queueSend e d) := by
  unfold queueSend; simp only []; ntt
theorem nt_collectorTimeout (s : Stack) (c : Nat) (hi : NT s) : NT (s.collectorTimeout c) := by
  unfold collectorTimeout; split
  · exact hi
  · exact nt_flushTo _ _ _ hi
theorem nt_sendOffer (s : Stack) (i : Nat) (r : Dest) (b : Bool) (hi : NT s) : NT (s.sendOffer i r b) := by
  unfold sendOffer; split; exact hi; split; exact hi; exact nt_queueSend _ _ _ hi

theorem nt_stepOffer (s : Stack) (tid : Tid) (t : TaskSt) (i : Nat) (hi : NT s) : NT (s.stepOffer tid t i) := by
  have hso : ∀ (X : Stack) (r : Dest) (b : Bool), NT X → NT (X.sendOffer i r b) := fun X r b h => nt_sendOffer X i r b h
  have hmatch : ∀ (X : Stack) (c : Bool), NT X → NT (match X.getInst i with | some x => X.setInst i { x with canAnswer := c } | none => X) := by
    intro X c h; split <;> exact h
  unfold stepOffer
  simp only []
  have hcancel : ∀ X : Stack, NT X → NT ((if (match X.getInst i with | some x => X.setInst i { x with canAnswer := false } | none => X).tm.cyclicOfferDelay ≠ 0
      then (match X.getInst i with | some x => X.setInst i { x with canAnswer := false } | none => X).sendOffer i none true
      else (match X.getInst i with | some x => X.setInst i { x with canAnswer := false } | none => X)).finish tid t) := by
    intro X hX
    apply nt_finish
    have hm := hmatch X false hX
    generalize (match X.getInst i with | some x => X.setInst i { x with canAnswer := false } | none => X) = Y at hm ⊢
    split
    · exact hso _ _ _ hm
    · exact hm
  have hafter : ∀ (X : Stack) (k : Nat), NT X → NT (if k < X.tm.repetitionsMax then X.sleepFor tid t (pow2 k * X.tm.repetitionsBaseDelay) (.rep k)
      else if X.tm.cyclicOfferDelay = 0 then X.finish tid t else X.sleepFor tid t X.tm.cyclicOfferDelay .cyclic) := by
    intro X k hX; ntt
  split
  · split
    · exact nt_finish _ _ _ hi
    · exact nt_sleepFor _ _ _ _ _ (nt_draw _ _ _ hi)
  · split
    · exact nt_finish _ _ _ hi
    · exact hafter _ _ (hmatch _ true (hso _ _ _ hi))
  · split
    · exact hcancel _ hi
    · exact hafter _ _ (hso _ _ _ hi)
  · split
    · exact hcancel _ hi
    · exact nt_sleepFor _ _ _ _ _ (hso _ _ _ hi)
  · exact hi

theorem nt_instStart (s : Stack) (i : Nat) (hi : NT s) : NT (s.instStart i) := by
  unfold instStart; split; exact hi; split; exact hi; simp only []; split <;> exact hi

theorem nt_subsStopAllFor (s : Stack) (i : Nat) (a : Addr) (hi : NT s) : NT (s.subsStopAllFor i a) := by
  unfold subsStopAllFor; split; exact hi
  simp only []
  exact nt_foldl _ (fun X e hX => nt_emit _ _ (nt_cancelTimer _ _ _ hX)) _ _ hi

theorem nt_subsStopAll (s : Stack) (i : Nat) (hi : NT s) : NT (s.subsStopAll i) := by
  unfold subsStopAll; split; exact hi
  simp only []
  have h1 := nt_foldl (fun (X : Stack) (p : Addr × List (TSEntry SubKey)) => X.subsStopAllFor i p.1) (fun X p hX => nt_subsStopAllFor X i p.1 hX)
  split
  · exact h1 _ _ hi
  · exact h1 _ _ hi

theorem nt_instStop (s : Stack) (i : Nat) (hi : NT s) : NT (s.instStop i) := by
  unfold instStop; split; exact hi; split; exact hi
  simp only []
  apply nt_subsStopAll
  split
  · exact nt_sendOffer _ _ _ _ (nt_cancelTask _ _ hi)
  · exact nt_cancelTask _ _ hi

theorem nt_instHandleSubscribe (s : Stack) (i : Nat) (e : SDEntry) (a : Addr) (hi : NT s) : NT (s.instHandleSubscribe i e a).1 := by
  unfold instHandleSubscribe
  split
  · exact hi
  · split
    · exact hi
    · split
      · split
        · simp only []
          split
          · exact hi
          · exact nt_cancelTimer _ _ _ hi
        · simp only []
          split
          · exact nt_queueSend _ _ _ (nt_armTtl _ _ _ rfl (nt_cancelTimer _ _ _ hi))
          · split
            · exact nt_queueSend _ _ _ hi
            · exact nt_queueSend _ _ _ (nt_armTtl _ _ _ rfl hi)
      · exact hi

theorem nt_handleSubscribe (s : Stack) (e : SDEntry) (a : Addr) (hi : NT s) : NT (s.handleSubscribe e a) := by
  unfold handleSubscribe
  simp only []
  have key : ∀ (l : List Nat) (acc : Stack × Bool), NT acc.1 →
      NT (l.foldl (fun (acc : Stack × Bool) i => ((acc.1.instHandleSubscribe i e a).1, acc.2 || (acc.1.instHandleSubscribe i e a).2)) acc).1 := by
    intro l; induction l with
    | nil => intro acc h; exact h
    | cons x t ih => intro acc h; rw [List.foldl_cons]; exact ih _ (nt_instHandleSubscribe _ _ _ _ h)
  split
  · exact key _ _ hi
  · exact nt_queueSend _ _ _ (key _ _ hi)

theorem nt_handleFind (s : Stack) (e : SDEntry) (a : Addr) (mc : Bool) (hi : NT s) : NT (s.handleFind e a mc) := by
  unfold handleFind; simp only []
  split; exact hi
  split
  · exact nt_foldl _ (fun X i hX => nt_callLater (X.logAnswer _ _ _) _ _ rfl hX) _ _ (nt_draw _ _ _ hi)
  · exact nt_foldl _ (fun X i hX => nt_callSoon X _ hX) _ _ hi

theorem nt_expiredSub (s : Stack) (i : Nat) (a : Addr) (k : SubKey) (hi : NT s) : NT (s.expiredSub i a k) := by
  unfold expiredSub; split; exact hi; simp only []; split <;> exact hi

theorem nt_announcerStart (s : Stack) (hi : NT s) : NT s.announcerStart := by
  unfold announcerStart; simp only []
  exact nt_foldl (fun (X : Stack) (i : Nat) => X.instStart i) (fun X i hX => nt_instStart X i hX) _ _ hi
theorem nt_announcerStop (s : Stack) (hi : NT s) : NT s.announcerStop := by
  unfold announcerStop; split; exact hi
  show NT (List.foldl (fun s i => s.instStop i) s s.announceOrder)
  exact nt_foldl _ (fun X i hX => nt_instStop X i hX) _ _ hi
theorem nt_announcerReboot (s : Stack) (a : Addr) (hi : NT s) : NT (s.announcerReboot a) := by
  unfold announcerReboot; exact nt_foldl _ (fun X i hX => nt_subsStopAllFor X i a hX) _ _ hi
theorem nt_announceService (s : Stack) (i : Nat) (hi : NT s) : NT (s.announceService i) := by
  unfold announceService; simp only []
  show NT (if s.started = true then s.instStart i else s)
  split
  · exact nt_instStart _ _ hi
  · exact hi
theorem nt_stopAnnounceService (s : Stack) (i : Nat) (b : Bool) (hi : NT s) : NT (s.stopAnnounceService i b) := by
  unfold stopAnnounceService; split; exact hi
  simp only []
  split
  · exact nt_instStop _ _ hi
  · exact hi

theorem nt_sendSubscribe (s : Stack) (ttl : Nat) (d : Addr) (egs : List Eventgroup) (hi : NT s) : NT (s.sendSubscribe ttl d egs) := by
  unfold sendSubscribe; exact nt_sendSd _ _ _ hi
theorem nt_subscribeEventgroup (s : Stack) (g : Eventgroup) (d : Addr) (hi : NT s) : NT (s.subscribeEventgroup g d) := by
  unfold subscribeEventgroup; simp only []; split <;> exact hi
theorem nt_stopSubscribeEventgroup (s : Stack) (g : Eventgroup) (d : Addr) (b : Bool) (hi : NT s) : NT (s.stopSubscribeEventgroup g d b) := by
  unfold stopSubscribeEventgroup; split
  · simp only []; split <;> exact hi
  · exact hi
theorem nt_subscriberStart (s : Stack) (hi : NT s) : NT s.subscriberStart := by
  unfold subscriberStart; split <;> exact hi
theorem nt_subscriberStop (s : Stack) (b : Bool) (hi : NT s) : NT (s.subscriberStop b) := by
  unfold subscriberStop; split; exact hi
  simp only []
  have h1 : NT (match ({ s with alive := false, subLost := !b } : Stack).subTask with
      | some tid => ({ ({ s with alive := false, subLost := !b } : Stack).cancelTask (.subscribe, tid) with subTask := none } : Stack)
      | none => ({ s with alive := false, subLost := !b } : Stack)) := by
    split
    · exact nt_cancelTask ({ s with alive := false, subLost := !b } : Stack) _ hi
    · exact hi
  split
  · exact nt_foldl _ (fun X p hX => nt_callSoon X _ hX) _ _ h1
  · exact h1
theorem nt_stepSubscribe (s : Stack) (tid : Tid) (t : TaskSt) (hi : NT s) : NT (s.stepSubscribe tid t) := by
  unfold stepSubscribe
  simp only []
  have key : ∀ st : Stack, NT st → NT (List.foldl (fun s p => s.sendSubscribe s.tm.subscribeTtl p.1 p.2) st (groupEntries st.subEntries)) :=
    fun st h => nt_foldl _ (fun X p hX => nt_sendSubscribe _ _ _ _ hX) _ _ h
  split
  · split
    · exact hi
    · split
      · exact key _ hi
      · exact nt_sleepFor _ _ _ _ _ (key _ hi)
  · split
    · exact hi
    · split
      · exact key _ hi
      · exact nt_sleepFor _ _ _ _ _ (key _ hi)
  · exact hi

theorem nt_listenerOffered (s : Stack) (l : Listener) (k : SvcKey) (a : Addr) (hi : NT s) : NT (s.listenerOffered l k a) := by
  unfold listenerOffered; split; exact hi; split; exact hi; exact nt_subscribeEventgroup _ _ _ hi
theorem nt_listenerStopped (s : Stack) (l : Listener) (k : SvcKey) (a : Addr) (hi : NT s) : NT (s.listenerStopped l k a) := by
  unfold listenerStopped; split; exact hi; split; exact hi; exact nt_stopSubscribeEventgroup _ _ _ _ hi
theorem nt_notifyService (s : Stack) (b : Bool) (k : SvcKey) (a : Addr) (hi : NT s) : NT (s.notifyService b k a) := by
  unfold notifyService
  simp only []
  have hf : ∀ (X : Stack) (l : Listener), NT X → NT (if b = true then X.listenerOffered l k a else X.listenerStopped l k a) := by
    intro X l hX; split
    · exact nt_listenerOffered _ _ _ _ hX
    · exact nt_listenerStopped _ _ _ _ hX
  apply nt_foldl _ (fun X id hX => hf X (.ext id) hX)
  apply nt_foldl
  · intro X p hX
    split
    · exact nt_foldl _ (fun Y l hY => hf Y l hY) _ _ hX
    · exact hX
  · exact hi
theorem nt_foundStop (s : Stack) (a : Addr) (k : SvcKey) (hi : NT s) : NT (s.foundStop a k) := by
  unfold foundStop; simp only []; split
  · exact hi
  · exact nt_notifyService _ _ _ _ (nt_cancelTimer _ _ _ hi)
theorem nt_foundRefresh (s : Stack) (ttl : Nat) (a : Addr) (k : SvcKey) (hi : NT s) : NT (s.foundRefresh ttl a k) := by
  unfold foundRefresh; simp only []
  apply nt_same (s := (_ : Stack)) rfl rfl
  apply nt_armTtl _ _ _ rfl
  split
  · exact nt_cancelTimer _ _ _ hi
  · exact nt_notifyService _ _ _ _ hi
theorem nt_handleOffer (s : Stack) (e : SDEntry) (a : Addr) (hi : NT s) : NT (s.handleOffer e a) := by
  unfold handleOffer; simp only []
  split
  · split
    · exact nt_foundStop _ _ _ hi
    · exact hi
  · split
    · exact nt_foundStop _ _ _ hi
    · exact nt_foundRefresh _ _ _ _ hi
theorem nt_foundStopAllFor (s : Stack) (a : Addr) (hi : NT s) : NT (s.foundStopAllFor a) := by
  unfold foundStopAllFor; simp only []
  exact nt_foldl _ (fun X e hX => nt_notifyService _ _ _ _ (nt_cancelTimer _ _ _ hX)) _ _ hi
theorem nt_foundStopAll (s : Stack) (hi : NT s) : NT s.foundStopAll := by
  unfold foundStopAll; simp only []
  exact nt_same (s := (_ : Stack)) rfl rfl (nt_foldl _ (fun X p hX => nt_foundStopAllFor X p.1 hX) _ _ hi)
theorem nt_expiredSvc (s : Stack) (a : Addr) (k : SvcKey) (hi : NT s) : NT (s.expiredSvc a k) := by
  unfold expiredSvc; simp only []; split
  · exact hi
  · exact nt_notifyService _ _ _ _ hi
theorem nt_replay (s : Stack) (b : Bool) (f : Option Service) (l : Listener) (hi : NT s) : NT (s.replay b f l) := by
  unfold replay
  apply nt_foldl _ _ _ _ hi
  intro X p hX
  simp only []
  repeat' split
  all_goals first | exact hX | exact nt_listenerOffered _ _ _ _ hX | exact nt_listenerStopped _ _ _ _ hX
theorem nt_watchService (s : Stack) (f : Service) (l : Listener) (hi : NT s) : NT (s.watchService f l) := by
  unfold watchService; simp only []; exact nt_replay _ _ _ _ hi
theorem nt_stopWatchService (s : Stack) (f : Service) (l : Listener) (hi : NT s) : NT (s.stopWatchService f l) := by
  unfold stopWatchService; simp only []; split
  · exact hi
  · exact nt_replay _ _ _ _ hi
theorem nt_watchAllServices (s : Stack) (id : LId) (hi : NT s) : NT (s.watchAllServices id) := by
  unfold watchAllServices; exact nt_replay _ _ _ _ hi
theorem nt_stopWatchAllServices (s : Stack) (id : LId) (hi : NT s) : NT (s.stopWatchAllServices id) := by
  unfold stopWatchAllServices; split
  · exact hi
  · exact nt_replay _ _ _ _ hi
theorem nt_stepFind (s : Stack) (tid : Tid) (t : TaskSt) (hi : NT s) : NT (s.stepFind tid t) := by
  unfold stepFind; simp only []
  have hafter : ∀ (X : Stack) (k : Nat), NT X → NT (if k < X.tm.repetitionsMax then X.sleepFor tid t (pow2 k * X.tm.repetitionsBaseDelay) (.rep k) else X.finish tid t) := by
    intro X k hX; split
    · exact nt_sleepFor _ _ _ _ _ hX
    · exact hX
  have hround : ∀ (X : Stack) (k : Nat), NT X → NT (if X.findEntries.isEmpty = true then X.finish tid t
      else (if k < (({ X with findLog := X.findLog ++ [(tid.2, k)] } : Stack).sendSd X.findEntries none).tm.repetitionsMax
        then (({ X with findLog := X.findLog ++ [(tid.2, k)] } : Stack).sendSd X.findEntries none).sleepFor tid t
          (pow2 k * (({ X with findLog := X.findLog ++ [(tid.2, k)] } : Stack).sendSd X.findEntries none).tm.repetitionsBaseDelay) (.rep k)
        else (({ X with findLog := X.findLog ++ [(tid.2, k)] } : Stack).sendSd X.findEntries none).finish tid t)) := by
    intro X k hX
    split
    · exact hX
    · exact hafter _ _ (nt_sendSd ({ X with findLog := X.findLog ++ [(tid.2, k)] } : Stack) _ _ hX)
  split
  · split
    · exact hi
    · split
      · exact hi
      · exact nt_sleepFor _ _ _ _ _ (nt_draw _ _ _ hi)
  · split
    · exact hi
    · exact hround _ _ hi
  · split
    · exact hi
    · exact hround _ _ hi
  · exact hi
theorem nt_discoveryStart (s : Stack) (hi : NT s) : NT s.discoveryStart := by
  rcases discoveryStart_cases s with h | ⟨_, h⟩
  · rw [h]; exact hi
  · rw [h]; exact hi
theorem nt_discoveryStop (s : Stack) (hi : NT s) : NT s.discoveryStop := by
  unfold discoveryStop; split
  · exact nt_cancelTask _ _ hi
  · exact hi
theorem nt_rebootDetected (s : Stack) (a : Addr) (hi : NT s) : NT (s.rebootDetected a) := by
  unfold rebootDetected; exact nt_announcerReboot _ _ (nt_foundStopAllFor _ _ hi)

theorem nt_sdMessageReceived (s : Stack) (m : SDHeader) (a : Addr) (mc : Bool) (hi : NT s) : NT (s.sdMessageReceived m a mc) := by
  unfold sdMessageReceived
  split
  · exact hi
  · refine nt_foldl _ (fun X e h => ?_) _ _ hi
    split
    · exact nt_handleOffer _ _ _ h
    · exact h
    · exact nt_handleFind _ _ _ _ h
    · split
      · exact h
      · exact nt_handleSubscribe _ _ _ h
theorem nt_messageReceived (s : Stack) (h : Header) (a : Addr) (mc : Bool) (hi : NT s) : NT (s.messageReceived h a mc) := by
  unfold messageReceived
  split
  · exact hi
  · split
    · exact hi
    · rename_i m r hpar
      simp only []
      have h1 : NT (if (checkReceived s.incoming a mc m.flagReboot h.sess).1 = true
          then ({ s with incoming := (checkReceived s.incoming a mc m.flagReboot h.sess).2 } : Stack).rebootDetected a
          else ({ s with incoming := (checkReceived s.incoming a mc m.flagReboot h.sess).2 } : Stack)) := by
        split
        · exact nt_rebootDetected ({ s with incoming := (checkReceived s.incoming a mc m.flagReboot h.sess).2 } : Stack) _ hi
        · exact hi
      split
      · exact h1
      · exact nt_sdMessageReceived _ _ _ _ h1
theorem nt_datagramReceived (s : Stack) (b : Bytes) (a : Addr) (mc : Bool) (hi : NT s) : NT (s.datagramReceived b a mc) := by
  unfold datagramReceived
  exact nt_foldl _ (fun X h hh => nt_messageReceived X h a mc hh) _ _ hi

theorem nt_applyInput (s : Stack) (x : Input) (hi : NT s) : NT (s.applyInput x) := by
  cases x with
  | dgram a mc b => exact nt_datagramReceived s b a mc hi
  | start =>
    show NT (((s.subscriberStart).announcerStart).discoveryStart)
    exact nt_discoveryStart _ (nt_announcerStart _ (nt_subscriberStart _ hi))
  | stop =>
    show NT (((s.discoveryStop).announcerStop).subscriberStop true)
    exact nt_subscriberStop _ _ (nt_announcerStop _ (nt_discoveryStop _ hi))
  | connLost => exact hi
  | watch f l => exact nt_watchService s f l hi
  | unwatch f l => exact nt_stopWatchService s f l hi
  | watchAll id => exact nt_watchAllServices s id hi
  | unwatchAll id => exact nt_stopWatchAllServices s id hi
  | subscribe g d => exact nt_subscribeEventgroup s g d hi
  | stopSubscribe g d => exact nt_stopSubscribeEventgroup s g d true hi
  | announce i => exact nt_announceService s i hi
  | stopAnnounce i b => exact nt_stopAnnounceService s i b hi
  | setNak i egs =>
    simp only [applyInput]
    split <;> exact hi
  | draws ds => exact hi
  | announcerStop => exact nt_announcerStop s hi
  | announcerStart => exact nt_announcerStart s hi

theorem nt_runCb (s : Stack) (cb : Cb) (hi : NT s) : NT (s.runCb cb) := by
  cases cb with
  | connLost p =>
    cases p with
    | subscriber => exact nt_subscriberStop s false hi
    | discovery => exact nt_foundStopAll s hi
    | announcer => exact nt_announcerStop s hi
  | expiredSvc a k => exact nt_expiredSvc s a k hi
  | expiredSub i a k => exact nt_expiredSub s i a k hi
  | sendStartSubscribe d egs => exact nt_sendSubscribe s _ d egs hi
  | sendStopSubscribe d egs => exact nt_sendSubscribe s _ d egs hi
  | sendOfferTo i a => exact nt_sendOffer s i _ _ hi
  | collectorTimeout cid => exact nt_collectorTimeout s cid hi
  | sleepDone tid => exact nt_sleepDone s tid hi
  | taskStep tid =>
    simp only [runCb]
    split
    · exact hi
    · split
      · exact hi
      · split
        · exact nt_stepOffer _ _ _ _ (nt_cancelTimer _ _ _ hi)
        · exact nt_stepFind _ _ _ (nt_cancelTimer _ _ _ hi)
        · exact nt_stepSubscribe _ _ _ (nt_cancelTimer _ _ _ hi)


/-- ONE EVENT never schedules a task step as a timer -/
theorem nt_step (s s' : Stack) (e : Event) (h : s.step e = some s') (hi : NT s) : NT s' := by
  cases e with
  | input x => simp only [step, Option.some.injEq] at h; subst h; exact nt_applyInput s x hi
  | run =>
    simp only [step, Loop.pop] at h
    cases hr : s.loop.ready with
    | nil => rw [hr] at h; cases h
    | cons r rest =>
      rw [hr] at h
      simp only [Option.some.injEq] at h
      subst h
      exact nt_runCb _ _ hi
  | fire q =>
    simp only [step] at h
    cases hf : s.loop.fire q with
    | none => rw [hf] at h; cases h
    | some l =>
      rw [hf] at h; simp at h; subst h
      unfold Loop.fire at hf
      split at hf
      · cases hf
      · split at hf
        · simp only [Option.some.injEq] at hf; subst hf
          intro t ht
          exact hi t (List.mem_of_mem_eraseP ht)
        · cases hf
  | adv t =>
    simp only [step] at h
    cases hf : s.loop.adv t with
    | none => rw [hf] at h; cases h
    | some l =>
      rw [hf] at h; simp at h; subst h
      unfold Loop.adv at hf
      split at hf
      · simp only [Option.some.injEq] at hf; subst hf
        exact hi
      · cases hf


end Stack
end Someip
