/-
  Frame lemmas: no library operation changes the timing configuration or the clock (only the loop
  events `adv` moves the clock).  One `@[simp]` lemma per function of the stack model.
-/
import SomeipModel.Lemmas.StackBasic
namespace Someip
namespace Stack
set_option linter.unusedSimpArgs false

/-- case-split through all `if`/`match`/`let` of an unfolded definition, then close the leaves by simp -/
macro "frame_cases" : tactic =>
  `(tactic| ((repeat' (first | split | (simp only []))) <;> (first | rfl | (simp; done) | (simp [base]; done) | skip)))

/-- what no library code ever touches: the configuration and the clock -/
def base (s : Stack) : Timings × Nat := (s.tm, s.loop.now)

theorem foldl_pres {α β : Type} (π : Stack → β) (f : Stack → α → Stack) (h : ∀ s a, π (f s a) = π s)
    (l : List α) (s : Stack) : π (l.foldl f s) = π s := by
  induction l generalizing s with
  | nil => rfl
  | cons a t ih => rw [List.foldl_cons, ih, h]

@[simp] theorem base_with_found (s : Stack) (x : TStore SvcKey) : base { s with found := x } = base s := rfl
@[simp] theorem base_with_watched (s : Stack) (x : List (Service × List Listener)) : base { s with watched := x } = base s := rfl
@[simp] theorem base_with_watchAll (s : Stack) (x : List LId) : base { s with watchAll := x } = base s := rfl
@[simp] theorem base_with_alive (s : Stack) (x : Bool) : base { s with alive := x } = base s := rfl
@[simp] theorem base_with_subTask (s : Stack) (x : Option Nat) : base { s with subTask := x } = base s := rfl
@[simp] theorem base_with_findTask (s : Stack) (x : Option Nat) : base { s with findTask := x } = base s := rfl
@[simp] theorem base_with_subEntries (s : Stack) (x : List (Eventgroup × Addr)) : base { s with subEntries := x } = base s := rfl
@[simp] theorem base_with_started (s : Stack) (x : Bool) : base { s with started := x } = base s := rfl
@[simp] theorem base_with_announceOrder (s : Stack) (x : List Nat) : base { s with announceOrder := x } = base s := rfl
@[simp] theorem base_with_incoming (s : Stack) (x : Incoming) : base { s with incoming := x } = base s := rfl
@[simp] theorem base_with_draws (s : Stack) (x : List Nat) : base { s with draws := x } = base s := rfl

@[simp] theorem base_emit (s : Stack) (o : Out) : base (s.emit o) = base s := rfl
@[simp] theorem base_callSoon (s : Stack) (cb : Cb) : base (s.callSoon cb) = base s := rfl
@[simp] theorem base_callLater (s : Stack) (d : Nat) (cb : Cb) : base (s.callLater d cb).1 = base s := rfl
@[simp] theorem base_cancelTimer (s : Stack) (own : Cb → Bool) (t : Option Nat) : base (s.cancelTimer own t) = base s := by
  cases t <;> rfl
@[simp] theorem base_draw (s : Stack) (a b : Nat) : base (s.draw a b).1 = base s := by
  unfold draw; split <;> rfl
@[simp] theorem base_armTtl (s : Stack) (ttl : Nat) (cb : Cb) : base (s.armTtl ttl cb).1 = base s := by
  unfold armTtl; split <;> rfl
@[simp] theorem base_setInst (s : Stack) (i : Nat) (x : Instance) : base (s.setInst i x) = base s := rfl
@[simp] theorem base_setTask (s : Stack) (i : Tid) (x : TaskSt) : base (s.setTask i x) = base s := rfl

@[simp] theorem base_sendSd (s : Stack) (es : List SDEntry) (d : Dest) : base (s.sendSd es d) = base s := by
  unfold sendSd; split; rfl; simp only []; split; rfl; split <;> rfl

@[simp] theorem base_with_flushLog (s : Stack) (x : List (Dest × List SDEntry)) : base { s with flushLog := x } = base s := rfl
@[simp] theorem base_with_refreshLog (s : Stack) (x : List (Addr × SvcKey × Nat × Nat)) : base { s with refreshLog := x } = base s := rfl
@[simp] theorem base_with_armLog (s : Stack) (x : List (Cb × Nat × Nat)) : base { s with armLog := x } = base s := rfl
@[simp] theorem base_with_subMarks (s : Stack) (x : List (Option Nat × Nat)) : base { s with subMarks := x } = base s := rfl
@[simp] theorem base_markRound (s : Stack) (n : Nat) : base (s.markRound n) = base s := rfl
@[simp] theorem base_with_found_refreshLog (s : Stack) (x : TStore SvcKey) (y : List (Addr × SvcKey × Nat × Nat)) : base { s with found := x, refreshLog := y } = base s := rfl
@[simp] theorem base_with_subLog (s : Stack) (x : List (Addr × Nat × List Eventgroup)) : base { s with subLog := x } = base s := rfl
@[simp] theorem base_with_findLog (s : Stack) (x : List (Nat × Nat)) : base { s with findLog := x } = base s := rfl
@[simp] theorem base_with_findMarks (s : Stack) (x : List (Nat × Nat)) : base { s with findMarks := x } = base s := rfl
@[simp] theorem base_with_ansLog (s : Stack) (x : List (Nat × Addr × Nat × Nat)) : base { s with ansLog := x } = base s := rfl
@[simp] theorem base_with_lisLog (s : Stack) (x : List (LId × Bool × SvcKey × Addr)) : base { s with lisLog := x } = base s := rfl
@[simp] theorem base_logLis (s : Stack) (id : LId) (o : Bool) (k : SvcKey) (a : Addr) : base (s.logLis id o k a) = base s := rfl
@[simp] theorem base_with_lisDup (s : Stack) (x : Bool) : base { s with lisDup := x } = base s := rfl
@[simp] theorem base_markDup (s : Stack) (d : Bool) : base (s.markDup d) = base s := rfl
@[simp] theorem base_logAnswer (s : Stack) (i : Nat) (a : Addr) (d : Nat) : base (s.logAnswer i a d) = base s := rfl
@[simp] theorem base_markFind (s : Stack) (n : Nat) : base (s.markFind n) = base s := rfl
@[simp] theorem base_with_offLog (s : Stack) (x : List (Nat × OEv × Nat)) : base { s with offLog := x } = base s := rfl
@[simp] theorem base_logOffer (s : Stack) (i : Nat) (e : OEv) : base (s.logOffer i e) = base s := rfl
@[simp] theorem base_with_subDup (s : Stack) (x : Bool) : base { s with subDup := x } = base s := rfl
@[simp] theorem base_with_subLost (s : Stack) (x : Bool) : base { s with subLost := x } = base s := rfl
@[simp] theorem base_with_alive_subLost (s : Stack) (x y : Bool) : base { s with alive := x, subLost := y } = base s := rfl
@[simp] theorem base_with_subDup_subEntries (s : Stack) (x : Bool) (y : List (Eventgroup × Addr)) : base { s with subDup := x, subEntries := y } = base s := rfl
@[simp] theorem base_flushTo (s : Stack) (es : List SDEntry) (d : Dest) : base (s.flushTo es d) = base s := by
  unfold flushTo; rw [base_sendSd]; rfl

@[simp] theorem base_newCollector (s : Stack) (d : Dest) : base (s.newCollector d).1 = base s := rfl
@[simp] theorem base_appendCollector (s : Stack) (c : Nat) (e : SDEntry) : base (s.appendCollector c e) = base s := rfl

@[simp] theorem base_queueSend (s : Stack) (e : SDEntry) (d : Dest) : base (s.queueSend e d) = base s := by
  unfold queueSend; simp only []; split
  · simp
  · split
    · split <;> simp
    · simp

@[simp] theorem base_collectorTimeout (s : Stack) (c : Nat) : base (s.collectorTimeout c) = base s := by
  unfold collectorTimeout; split; rfl; simp only []; rw [base_flushTo]; rfl

@[simp] theorem base_createTask (s : Stack) (k : TaskKind) : base (s.createTask k).1 = base s := rfl
@[simp] theorem base_cancelTask (s : Stack) (t : Tid) : base (s.cancelTask t) = base s := by
  unfold cancelTask; split; rfl; split; rfl; split <;> simp
@[simp] theorem base_sleepFor (s : Stack) (tid : Tid) (t : TaskSt) (d : Nat) (pc : Pc) : base (s.sleepFor tid t d pc) = base s := by
  unfold sleepFor; split <;> simp
@[simp] theorem base_finish (s : Stack) (tid : Tid) (t : TaskSt) : base (s.finish tid t) = base s := rfl
@[simp] theorem base_sleepDone (s : Stack) (tid : Tid) : base (s.sleepDone tid) = base s := by
  unfold sleepDone; split; rfl; split <;> simp

@[simp] theorem base_sendOffer (s : Stack) (i : Nat) (r : Dest) (b : Bool) : base (s.sendOffer i r b) = base s := by
  unfold sendOffer; split; rfl; split; rfl; simp

@[simp] theorem base_stepOffer (s : Stack) (tid : Tid) (t : TaskSt) (i : Nat) : base (s.stepOffer tid t i) = base s := by
  unfold stepOffer
  simp only []
  split
  · split <;> simp
  · split
    · simp
    · (repeat' split) <;> simp
  · split
    · (repeat' split) <;> simp
    · (repeat' split) <;> simp
  · split
    · (repeat' split) <;> simp
    · simp
  · rfl

@[simp] theorem base_instStart (s : Stack) (i : Nat) : base (s.instStart i) = base s := by
  unfold instStart; split; rfl; split; simp; simp only []; split <;> simp

@[simp] theorem base_subsStopAllFor (s : Stack) (i : Nat) (a : Addr) : base (s.subsStopAllFor i a) = base s := by
  unfold subsStopAllFor; split; rfl
  simp only []
  rw [foldl_pres base _ (fun s e => by simp)]; rfl

@[simp] theorem base_subsStopAll (s : Stack) (i : Nat) : base (s.subsStopAll i) = base s := by
  unfold subsStopAll; split; rfl
  simp only []
  split
  · simp only [base_setInst]; rw [foldl_pres base _ (fun s e => by simp)]
  · rw [foldl_pres base _ (fun s e => by simp)]

@[simp] theorem base_instStop (s : Stack) (i : Nat) : base (s.instStop i) = base s := by
  unfold instStop; split; rfl; split; simp; simp only []; split <;> simp

@[simp] theorem base_instHandleSubscribe (s : Stack) (i : Nat) (e : SDEntry) (a : Addr) :
    base (s.instHandleSubscribe i e a).1 = base s := by
  unfold instHandleSubscribe
  frame_cases

@[simp] theorem base_handleSubscribe (s : Stack) (e : SDEntry) (a : Addr) : base (s.handleSubscribe e a) = base s := by
  unfold handleSubscribe
  simp only []
  have key : ∀ (l : List Nat) (acc : Stack × Bool),
      base (l.foldl (fun (acc : Stack × Bool) i => ((acc.1.instHandleSubscribe i e a).1, acc.2 || (acc.1.instHandleSubscribe i e a).2)) acc).1 = base acc.1 := by
    intro l; induction l with
    | nil => intro acc; rfl
    | cons x t ih => intro acc; rw [List.foldl_cons, ih]; simp
  split
  · exact key _ _
  · rw [base_queueSend]; exact key _ _

@[simp] theorem base_handleFind (s : Stack) (e : SDEntry) (a : Addr) (mc : Bool) : base (s.handleFind e a mc) = base s := by
  unfold handleFind; simp only []
  split; rfl
  split
  · rw [foldl_pres base _ (fun s i => by simp)]; simp
  · rw [foldl_pres base _ (fun s i => by simp)]

@[simp] theorem base_expiredSub (s : Stack) (i : Nat) (a : Addr) (k : SubKey) : base (s.expiredSub i a k) = base s := by
  unfold expiredSub; split; rfl; simp only []; split <;> simp

@[simp] theorem base_announcerStart (s : Stack) : base s.announcerStart = base s := by
  unfold announcerStart; simp only []
  show base (List.foldl (fun s i => s.instStart i) s s.announceOrder) = base s
  rw [foldl_pres base _ (fun s i => by simp)]

@[simp] theorem base_announcerStop (s : Stack) : base s.announcerStop = base s := by
  unfold announcerStop; split; rfl
  show base (List.foldl (fun s i => s.instStop i) s s.announceOrder) = base s
  rw [foldl_pres base _ (fun s i => by simp)]

@[simp] theorem base_announcerReboot (s : Stack) (a : Addr) : base (s.announcerReboot a) = base s := by
  unfold announcerReboot; rw [foldl_pres base _ (fun s i => by simp)]

@[simp] theorem base_announceService (s : Stack) (i : Nat) : base (s.announceService i) = base s := by
  unfold announceService; simp only []; split
  · show base (s.instStart i) = base s; simp
  · rfl

@[simp] theorem base_stopAnnounceService (s : Stack) (i : Nat) (b : Bool) : base (s.stopAnnounceService i b) = base s := by
  unfold stopAnnounceService; split; simp; simp only []; split
  · rw [base_instStop]; rfl
  · rfl

@[simp] theorem base_sendSubscribe (s : Stack) (ttl : Nat) (d : Addr) (egs : List Eventgroup) :
    base (s.sendSubscribe ttl d egs) = base s := by simp [sendSubscribe]

@[simp] theorem base_subscribeEventgroup (s : Stack) (g : Eventgroup) (d : Addr) : base (s.subscribeEventgroup g d) = base s := by
  unfold subscribeEventgroup; simp only []; split <;> rfl

@[simp] theorem base_stopSubscribeEventgroup (s : Stack) (g : Eventgroup) (d : Addr) (b : Bool) :
    base (s.stopSubscribeEventgroup g d b) = base s := by
  unfold stopSubscribeEventgroup; split
  · simp only []; split <;> rfl
  · rfl

@[simp] theorem base_subscriberStart (s : Stack) : base s.subscriberStart = base s := by
  unfold subscriberStart; split <;> rfl

@[simp] theorem base_subscriberStop (s : Stack) (b : Bool) : base (s.subscriberStop b) = base s := by
  unfold subscriberStop; split; rfl
  simp only []
  have h1 : base (match ({ s with alive := false, subLost := !b } : Stack).subTask with
      | some tid => { ({ s with alive := false, subLost := !b } : Stack).cancelTask (.subscribe, tid) with subTask := none }
      | none => ({ s with alive := false, subLost := !b } : Stack)) = base s := by
    split
    · show base (({ s with alive := false, subLost := !b } : Stack).cancelTask _) = base s; rw [base_cancelTask]; rfl
    · rfl
  split
  · rw [foldl_pres base _ (fun s p => by simp)]; exact h1
  · exact h1

@[simp] theorem base_stepSubscribe (s : Stack) (tid : Tid) (t : TaskSt) : base (s.stepSubscribe tid t) = base s := by
  unfold stepSubscribe
  simp only []
  have key : ∀ st : Stack, base (List.foldl (fun s p => s.sendSubscribe s.tm.subscribeTtl p.1 p.2) st (groupEntries st.subEntries)) = base st :=
    fun st => foldl_pres base _ (fun s p => by simp) _ _
  split
  · split; simp; split <;> simp [key]
  · split; simp; split <;> simp [key]
  · rfl

@[simp] theorem base_listenerOffered (s : Stack) (l : Listener) (k : SvcKey) (a : Addr) : base (s.listenerOffered l k a) = base s := by
  unfold listenerOffered; frame_cases
@[simp] theorem base_listenerStopped (s : Stack) (l : Listener) (k : SvcKey) (a : Addr) : base (s.listenerStopped l k a) = base s := by
  unfold listenerStopped; frame_cases

@[simp] theorem base_notifyService (s : Stack) (b : Bool) (k : SvcKey) (a : Addr) : base (s.notifyService b k a) = base s := by
  unfold notifyService
  simp only []
  have hf : ∀ (s : Stack) (l : Listener), base (if b = true then s.listenerOffered l k a else s.listenerStopped l k a) = base s := by
    intro s l; split <;> simp
  rw [foldl_pres base _ (fun s id => hf s _)]
  rw [foldl_pres base _ (fun s p => by
    split
    · rw [foldl_pres base _ (fun s l => hf s l)]
    · rfl)]
  rfl

@[simp] theorem base_foundStop (s : Stack) (a : Addr) (k : SvcKey) : base (s.foundStop a k) = base s := by
  unfold foundStop; frame_cases

@[simp] theorem base_foundRefresh (s : Stack) (ttl : Nat) (a : Addr) (k : SvcKey) : base (s.foundRefresh ttl a k) = base s := by
  unfold foundRefresh
  simp only [base_with_found_refreshLog, base_armTtl]
  split <;> simp

@[simp] theorem base_handleOffer (s : Stack) (e : SDEntry) (a : Addr) : base (s.handleOffer e a) = base s := by
  unfold handleOffer; frame_cases

@[simp] theorem base_foundStopAllFor (s : Stack) (a : Addr) : base (s.foundStopAllFor a) = base s := by
  unfold foundStopAllFor; simp only []
  rw [foldl_pres base _ (fun s e => by simp)]; rfl

@[simp] theorem base_foundStopAll (s : Stack) : base s.foundStopAll = base s := by
  unfold foundStopAll; simp only []
  show base (List.foldl (fun s p => s.foundStopAllFor p.1) s s.found) = base s
  rw [foldl_pres base _ (fun s e => by simp)]

@[simp] theorem base_expiredSvc (s : Stack) (a : Addr) (k : SvcKey) : base (s.expiredSvc a k) = base s := by
  unfold expiredSvc; frame_cases

@[simp] theorem base_replay (s : Stack) (b : Bool) (f : Option Service) (l : Listener) : base (s.replay b f l) = base s := by
  unfold replay
  rw [foldl_pres base _ (fun s p => by frame_cases)]

@[simp] theorem base_watchService (s : Stack) (f : Service) (l : Listener) : base (s.watchService f l) = base s := by
  unfold watchService; simp only []; rw [base_markDup, base_replay]; rfl
@[simp] theorem base_stopWatchService (s : Stack) (f : Service) (l : Listener) : base (s.stopWatchService f l) = base s := by
  unfold stopWatchService; simp only []; split
  · simp
  · rw [base_replay]; rfl
@[simp] theorem base_watchAllServices (s : Stack) (id : LId) : base (s.watchAllServices id) = base s := by
  unfold watchAllServices; rw [base_markDup, base_replay]; rfl
@[simp] theorem base_stopWatchAllServices (s : Stack) (id : LId) : base (s.stopWatchAllServices id) = base s := by
  unfold stopWatchAllServices; split
  · simp
  · rw [base_replay]; rfl

@[simp] theorem base_stepFind (s : Stack) (tid : Tid) (t : TaskSt) : base (s.stepFind tid t) = base s := by
  unfold stepFind; frame_cases

@[simp] theorem base_discoveryStart (s : Stack) : base s.discoveryStart = base s := by
  unfold discoveryStart; simp only []
  split
  · split <;> simp
  · simp
@[simp] theorem base_discoveryStop (s : Stack) : base s.discoveryStop = base s := by
  unfold discoveryStop; split
  · show base (s.cancelTask _) = base s; simp
  · rfl

@[simp] theorem base_rebootDetected (s : Stack) (a : Addr) : base (s.rebootDetected a) = base s := by
  simp [rebootDetected]

@[simp] theorem base_sdMessageReceived (s : Stack) (m : SDHeader) (a : Addr) (mc : Bool) :
    base (s.sdMessageReceived m a mc) = base s := by
  unfold sdMessageReceived; split; rfl
  rw [foldl_pres base _ (fun s e => by frame_cases)]

@[simp] theorem base_messageReceived (s : Stack) (h : Header) (a : Addr) (mc : Bool) : base (s.messageReceived h a mc) = base s := by
  unfold messageReceived
  split; rfl
  split; rfl
  simp only []
  split
  · split <;> simp <;> rfl
  · split <;> simp <;> rfl

@[simp] theorem base_datagramReceived (s : Stack) (b : Bytes) (a : Addr) (mc : Bool) : base (s.datagramReceived b a mc) = base s := by
  unfold datagramReceived; rw [foldl_pres base _ (fun s h => by simp)]

@[simp] theorem base_start (s : Stack) : base s.start = base s := by simp [start]
@[simp] theorem base_stop (s : Stack) : base s.stop = base s := by simp [Stack.stop]
@[simp] theorem base_connectionLost (s : Stack) : base s.connectionLost = base s := by simp [connectionLost]

@[simp] theorem base_applyInput (s : Stack) (x : Input) : base (s.applyInput x) = base s := by
  cases x <;> simp [applyInput]
  split <;> simp

theorem base_runCb (s : Stack) (cb : Cb) : base (s.runCb cb) = base s := by
  cases cb with
  | connLost p => cases p <;> simp [runCb]
  | taskStep tid =>
    simp only [runCb]
    split; rfl
    split; rfl
    split
    · rw [base_stepOffer, base_cancelTimer]
    · rw [base_stepFind, base_cancelTimer]
    · rw [base_stepSubscribe, base_cancelTimer]
  | _ => simp [runCb]

end Stack
end Someip
