/-
  C13: the find-task invariant through inputs, callbacks and loop steps.
-/
import SomeipModel.Lemmas.FindInv
namespace Someip
namespace Stack
set_option linter.unusedSimpArgs false
set_option linter.unusedVariables false

@[simp] theorem fpi_sdMessageReceived (s : Stack) (m : SDHeader) (a : Addr) (mc : Bool) :
    fpi (s.sdMessageReceived m a mc) = fpi s := by
  unfold sdMessageReceived; split; rfl
  rw [foldl_pres fpi _ (fun s e => by frame_cases)]

@[simp] theorem fpi_messageReceived (s : Stack) (h : Header) (a : Addr) (mc : Bool) : fpi (s.messageReceived h a mc) = fpi s := by
  unfold messageReceived
  split; rfl
  split; rfl
  simp only []
  split
  · split <;> simp <;> rfl
  · split <;> simp <;> rfl

@[simp] theorem fpi_datagramReceived (s : Stack) (b : Bytes) (a : Addr) (mc : Bool) : fpi (s.datagramReceived b a mc) = fpi s := by
  unfold datagramReceived; rw [foldl_pres fpi _ (fun s h => by simp)]

theorem finv_applyInput (s : Stack) (x : Input) (hi : FInv s) : FInv (s.applyInput x) := by
  cases x with
  | dgram a mc b => exact finv_frame (fpi_datagramReceived s b a mc) hi
  | start =>
    show FInv (((s.subscriberStart).announcerStart).discoveryStart)
    exact finv_discoveryStart _ (finv_frame ((fpi_announcerStart _).trans (fpi_subscriberStart _)) hi)
  | stop =>
    show FInv (((s.discoveryStop).announcerStop).subscriberStop true)
    exact finv_frame ((fpi_subscriberStop _ _).trans (fpi_announcerStop _)) (finv_discoveryStop s hi)
  | connLost => exact finv_frame (fpi_connectionLost s) hi
  | watch f l => exact finv_frame (fpi_watchService s f l) hi
  | unwatch f l => exact finv_frame (fpi_stopWatchService s f l) hi
  | watchAll id => exact finv_frame (fpi_watchAllServices s id) hi
  | unwatchAll id => exact finv_frame (fpi_stopWatchAllServices s id) hi
  | subscribe g d => exact finv_frame (fpi_subscribeEventgroup s g d) hi
  | stopSubscribe g d => exact finv_frame (fpi_stopSubscribeEventgroup s g d true) hi
  | announce i => exact finv_frame (fpi_announceService s i) hi
  | stopAnnounce i b => exact finv_frame (fpi_stopAnnounceService s i b) hi
  | setNak i egs =>
    simp only [applyInput]
    split
    · exact finv_frame (fpi_setInst s i _) hi
    · exact hi
  | draws ds => exact finv_frame (s := s) (s' := { s with draws := s.draws ++ ds }) rfl hi
  | announcerStop => exact finv_frame (fpi_announcerStop s) hi
  | announcerStart => exact finv_frame (fpi_announcerStart s) hi

theorem finv_runCb (s : Stack) (cb : Cb) (hi : FInv s) : FInv (s.runCb cb) := by
  cases cb with
  | connLost p =>
    cases p with
    | subscriber => exact finv_frame (fpi_subscriberStop s false) hi
    | discovery => exact finv_frame (fpi_foundStopAll s) hi
    | announcer => exact finv_frame (fpi_announcerStop s) hi
  | expiredSvc a k => exact finv_frame (fpi_expiredSvc s a k) hi
  | expiredSub i a k => exact finv_frame (fpi_expiredSub s i a k) hi
  | sendStartSubscribe d egs => exact finv_frame (fpi_sendSubscribe s _ d egs) hi
  | sendStopSubscribe d egs => exact finv_frame (fpi_sendSubscribe s _ d egs) hi
  | sendOfferTo i a => exact finv_frame (fpi_sendOffer s i _ _) hi
  | collectorTimeout cid => exact finv_frame (fpi_collectorTimeout s cid) hi
  | sleepDone tid =>
    obtain ⟨k, n⟩ := tid
    cases k with
    | find => exact finv_sleepDone s n hi
    | offer i => exact finv_frame (fpi_sleepDone s _ (by simp)) hi
    | subscribe => exact finv_frame (fpi_sleepDone s _ (by simp)) hi
  | taskStep tid =>
    obtain ⟨k, n⟩ := tid
    cases k with
    | find =>
      simp only [runCb]
      rw [getTask_find]
      cases ht : ftask s n with
      | none => exact hi
      | some t =>
        simp only []
        split
        · exact hi
        · rename_i hnd
          have h1 : FInv (s.cancelTimer (isSleepFor (.find, n)) t.sleep) := finv_frame (fpi_cancelTimer _ _ _) hi
          have ht1 : ftask (s.cancelTimer (isSleepFor (.find, n)) t.sleep) n = some t := by
            have e := fpi_cancelTimer s (isSleepFor (.find, n)) t.sleep
            unfold ftask ftasks
            rw [show (s.cancelTimer (isSleepFor (.find, n)) t.sleep).tasks.filter isFindT = s.tasks.filter isFindT from congrArg (fun p => p.1) e]
            exact ht
          exact finv_stepFind _ n t _ h1 ht1 rfl rfl hnd
    | offer i =>
      simp only [runCb]
      split
      · exact hi
      · split
        · exact hi
        · exact finv_frame ((fpi_stepOffer _ _ _ _ (by simp)).trans (fpi_cancelTimer _ _ _)) hi
    | subscribe =>
      simp only [runCb]
      split
      · exact hi
      · split
        · exact hi
        · exact finv_frame ((fpi_stepSubscribe _ _ _ (by simp)).trans (fpi_cancelTimer _ _ _)) hi

theorem finv_step (s s' : Stack) (e : Event) (h : s.step e = some s') (hi : FInv s) : FInv s' := by
  cases e with
  | input x => simp only [step, Option.some.injEq] at h; subst h; exact finv_applyInput s x hi
  | run =>
    simp only [step, Loop.pop] at h
    cases hr : s.loop.ready with
    | nil => rw [hr] at h; cases h
    | cons r rest =>
      rw [hr] at h
      simp only [Option.some.injEq] at h
      subst h
      exact finv_runCb _ _ (finv_frame (s := s) rfl hi)
  | fire q =>
    simp only [step] at h
    cases hf : s.loop.fire q with
    | none => rw [hf] at h; cases h
    | some l => rw [hf] at h; simp at h; subst h; exact finv_frame (s := s) rfl hi
  | adv t =>
    simp only [step] at h
    cases hf : s.loop.adv t with
    | none => rw [hf] at h; cases h
    | some l => rw [hf] at h; simp at h; subst h; exact finv_frame (s := s) rfl hi

end Stack
end Someip
