/-
  The eventgroup model (C17), whole-run: what a per-endpoint notification task puts on the wire, the session ids it
  draws, how a notification round unrolls, and the invariant of the model over every list of operations.
-/
import SomeipModel.Model.Eventgroup
import SomeipModel.Props.C01
import SomeipModel.Props.C08
namespace Someip
namespace EG
open Spec
set_option linter.unusedSimpArgs false
set_option linter.unusedVariables false

/-- the messages of one per-endpoint task: one per event, with the event's current value and the destination's next
session ids; an unknown event ends the list -/
def msgsOf (g : EG) (ep : Addr) : List Nat → Outgoing → List Header
  | [], _ => []
  | ev :: r, out =>
    match alookup g.values ev with
    | none => []
    | some payload => notif g ev (assignOutgoing out (some ep)).1.2 payload :: msgsOf g ep r (assignOutgoing out (some ep)).2

/-- if the loop of `_notify_single` runs through, the buffer is the concatenation of the wire layouts of the
notifications of all requested events, in order; every one of them fits its wire widths -/
theorem buildMsgs_some (g : EG) (ep : Addr) (evs : List Nat) (out : Outgoing) (acc : Bytes) (out' : Outgoing) (buf : Bytes)
    (h : (g.buildMsgs ep evs out acc).1 = some (out', buf)) :
    buf = acc ++ (g.msgsOf ep evs out).flatMap layout ∧ (∀ m ∈ g.msgsOf ep evs out, FitsNum m) ∧
      (g.msgsOf ep evs out).length = evs.length ∧ (g.buildMsgs ep evs out acc).2 = out' := by
  induction evs generalizing out acc with
  | nil =>
    simp only [buildMsgs, Option.some.injEq, Prod.mk.injEq] at h
    simp [msgsOf, buildMsgs, h.1, h.2]
  | cons ev r ih =>
    simp only [buildMsgs] at h ⊢
    simp only [msgsOf]
    cases hv : alookup g.values ev with
    | none => rw [hv] at h; simp at h
    | some payload =>
      rw [hv] at h
      simp only [] at h ⊢
      by_cases hf : FitsNum (notif g ev (assignOutgoing out (some ep)).1.2 payload)
      · rw [c01_build_layout _ hf] at h ⊢
        simp only [] at h ⊢
        obtain ⟨i1, i2, i3, i4⟩ := ih _ _ h
        refine ⟨?_, ?_, ?_, i4⟩
        · rw [i1, List.flatMap_cons, List.append_assoc]
        · intro m hm
          rcases List.mem_cons.mp hm with e | e
          · rw [e]; exact hf
          · exact i2 m e
        · simp [i3]
      · rw [c01_build_rejects _ hf] at h
        simp at h

/-- the ids the ghost records are the ids in the messages -/
theorem idsTaken_msgs (g : EG) (ep : Addr) (evs : List Nat) (out : Outgoing) (acc : Bytes) (out' : Outgoing) (buf : Bytes)
    (h : (g.buildMsgs ep evs out acc).1 = some (out', buf)) :
    (g.idsTaken ep evs out).map (·.2) = (g.msgsOf ep evs out).map (·.sess) := by
  induction evs generalizing out acc with
  | nil => rfl
  | cons ev r ih =>
    simp only [buildMsgs] at h
    simp only [msgsOf, idsTaken]
    cases hv : alookup g.values ev with
    | none => rfl
    | some payload =>
      rw [hv] at h
      simp only [] at h ⊢
      by_cases hf : FitsNum (notif g ev (assignOutgoing out (some ep)).1.2 payload)
      · rw [c01_build_layout _ hf] at h ⊢
        simp only [List.map_cons] at h ⊢
        rw [ih _ _ h]; rfl
      · rw [c01_build_rejects _ hf] at h
        simp at h

/-! ### the session ids: storage and log stay in step -/

def P8e (out : Outgoing) (log : List (Dest × (Bool × Nat))) : Prop :=
  SendInv out (log.map (·.1)) ∧ log.map (·.2) = expectedSends [] (log.map (·.1))

theorem expectedSends_snoc (hist ds : List Dest) (d : Dest) :
    expectedSends hist (ds ++ [d]) = expectedSends hist ds ++ [(kthFlag (countBefore (hist ++ ds) d), kthId (countBefore (hist ++ ds) d))] := by
  induction ds generalizing hist with
  | nil => simp [expectedSends]
  | cons x r ih => simp only [List.cons_append, expectedSends, ih, List.append_assoc]; rfl

theorem p8e_draw (out : Outgoing) (log : List (Dest × (Bool × Nat))) (d : Dest) (h : P8e out log) :
    P8e (assignOutgoing out d).2 (log ++ [(d, (assignOutgoing out d).1)]) := by
  obtain ⟨h1, h2⟩ := h
  refine ⟨?_, ?_⟩
  · simp only [List.map_append, List.map_cons, List.map_nil]
    exact sendInv_step _ _ d h1
  · simp only [List.map_append, List.map_cons, List.map_nil, h2, expectedSends_snoc, List.nil_append]
    congr 1
    simp only [assignOutgoing]
    rw [h1 d]

/-- the loop of `_notify_single` draws from the storage exactly the ids the ghost records -/
theorem p8e_buildMsgs (g : EG) (ep : Addr) (evs : List Nat) (out : Outgoing) (acc : Bytes) (log : List (Dest × (Bool × Nat)))
    (h : P8e out log) : P8e (g.buildMsgs ep evs out acc).2 (log ++ (g.idsTaken ep evs out).map (fun x => (some ep, x))) := by
  induction evs generalizing out acc log with
  | nil => simpa [buildMsgs, idsTaken] using h
  | cons ev r ih =>
    simp only [buildMsgs, idsTaken]
    cases hv : alookup g.values ev with
    | none => simpa using h
    | some payload =>
      simp only []
      have h1 := p8e_draw out log (some ep) h
      cases hb : (g.notif ev (assignOutgoing out (some ep)).1.2 payload).build with
      | none => simpa using h1
      | some b =>
        simp only []
        have := ih (assignOutgoing out (some ep)).2 (acc ++ b) _ h1
        simpa [List.append_assoc] using this

/-! ### one per-endpoint task -/

/-- the parts of the state a notification task never touches -/
def egCore (g : EG) : Nat × Nat × Nat × Nat × List Addr × Bool × List (Nat × Bytes) × List NTask × CycSt × Nat × List (List Addr × Nat) :=
  (g.serviceId, g.major, g.egid, g.interval, g.subscribed, g.hasClients, g.values, g.pending, g.cyc, g.now, g.rounds)

/-- a per-endpoint task: touches nothing but the session storage, its log and `sent`; it transmits at most one datagram,
to its own endpoint, stamped with the current time, and if it does the datagram is the concatenation of the layouts of
`msgsOf` -/
theorem runTask_single_spec (g : EG) (ep : Addr) (sel : EvSel) :
    egCore (g.runTask (.single ep sel)) = egCore g ∧
    (g.runTask (.single ep sel)).idLog = g.idLog ++ (g.idsTaken ep (g.evList sel) g.outgoing).map (fun x => (some ep, x)) ∧
    (g.runTask (.single ep sel)).outgoing = (g.buildMsgs ep (g.evList sel) g.outgoing []).2 ∧
    ((g.runTask (.single ep sel)).sent = g.sent ∨
      ((g.runTask (.single ep sel)).sent = g.sent ++ [(g.now, ep, (g.msgsOf ep (g.evList sel) g.outgoing).flatMap layout)] ∧
       (g.msgsOf ep (g.evList sel) g.outgoing).length = (g.evList sel).length ∧ (g.evList sel) ≠ [] ∧
       (∀ m ∈ g.msgsOf ep (g.evList sel) g.outgoing, FitsNum m) ∧
       (g.idsTaken ep (g.evList sel) g.outgoing).map (·.2) = (g.msgsOf ep (g.evList sel) g.outgoing).map (·.sess))) := by
  simp only [runTask]
  cases hr : (g.buildMsgs ep (g.evList sel) g.outgoing []).1 with
  | none => exact ⟨rfl, rfl, rfl, Or.inl rfl⟩
  | some p =>
    obtain ⟨out', buf⟩ := p
    obtain ⟨i1, i2, i3, i4⟩ := buildMsgs_some g ep _ _ _ _ _ hr
    have i5 := idsTaken_msgs g ep _ _ _ _ _ hr
    simp only []
    split
    · exact ⟨rfl, rfl, i4.symm, Or.inl rfl⟩
    · rename_i hne
      refine ⟨rfl, rfl, i4.symm, Or.inr ⟨?_, i3, ?_, i2, i5⟩⟩
      · rw [i1]; rfl
      · intro he
        have : g.msgsOf ep (g.evList sel) g.outgoing = [] := List.eq_nil_of_length_eq_zero (by rw [i3, he]; rfl)
        rw [i1, this] at hne
        exact hne rfl

/-! ### a notification round unrolls into one per-endpoint task per subscriber -/

/-- run the per-endpoint task at the head of the queue -/
def popRun (sel : EvSel) (g : EG) (ep : Addr) : EG := ({ g with pending := g.pending.tail }).runTask (.single ep sel)

theorem popRun_pending (sel : EvSel) (g : EG) (ep : Addr) : (popRun sel g ep).pending = g.pending.tail :=
  congrArg (fun p => p.2.2.2.2.2.2.2.1) (runTask_single_spec ({ g with pending := g.pending.tail }) ep sel).1

theorem settle_nil (fuel : Nat) (g : EG) (h : g.pending = []) : g.settle fuel = g := by
  cases fuel with
  | zero => rfl
  | succ n => simp [settle, h]

theorem settle_singles (sel : EvSel) (eps : List Addr) (g : EG) (fuel : Nat)
    (hp : g.pending = eps.map (fun ep => NTask.single ep sel)) (hf : eps.length ≤ fuel) :
    g.settle fuel = eps.foldl (popRun sel) g := by
  induction eps generalizing g fuel with
  | nil => exact settle_nil fuel g hp
  | cons ep t ih =>
    cases fuel with
    | zero => simp at hf
    | succ n =>
      simp only [settle, hp, List.map_cons, List.foldl_cons]
      have e : ({ g with pending := t.map (fun ep => NTask.single ep sel) } : EG).runTask (.single ep sel) = popRun sel g ep := by
        unfold popRun; rw [hp]; rfl
      rw [e]
      apply ih
      · rw [popRun_pending, hp]; rfl
      · simpa using hf

/-- ROUND, unrolled: from a state without pending tasks a notification round is: note the subscribers, then one
per-endpoint task for each of them, in order, and nothing else -/
theorem round_unrolls (g : EG) (sel : EvSel) (fuel : Nat) (hp : g.pending = []) (hf : g.subscribed.length < fuel) :
    ({ g with pending := [NTask.all sel] } : EG).settle fuel =
      g.subscribed.foldl (popRun sel) ({ g.logRound with pending := g.subscribed.map (fun ep => NTask.single ep sel) }) := by
  cases fuel with
  | zero => simp at hf
  | succ n =>
    simp only [settle]
    have : ({ g with pending := [] } : EG).runTask (.all sel) =
        ({ g.logRound with pending := g.subscribed.map (fun ep => NTask.single ep sel) } : EG) := by
      simp [runTask, logRound]
    rw [this]
    exact settle_singles sel g.subscribed _ n rfl (by omega)

/-- what the tasks of a round put on the wire: one attempt per endpoint in order, each yielding at most one datagram,
addressed to that endpoint -/
theorem singles_sent (sel : EvSel) (eps : List Addr) (g : EG) :
    ∃ obs : List (Option Bytes), obs.length = eps.length ∧
      (eps.foldl (popRun sel) g).sent = g.sent ++ (eps.zip obs).filterMap (fun p => p.2.map (fun b => (g.now, p.1, b))) ∧
      (eps.foldl (popRun sel) g).now = g.now ∧ (eps.foldl (popRun sel) g).subscribed = g.subscribed ∧
      (eps.foldl (popRun sel) g).pending = g.pending.drop eps.length := by
  induction eps generalizing g with
  | nil => exact ⟨[], rfl, by simp, rfl, rfl, by simp⟩
  | cons ep t ih =>
    rw [List.foldl_cons]
    obtain ⟨c1, _, _, c4⟩ := runTask_single_spec ({ g with pending := g.pending.tail }) ep sel
    have hnow : (popRun sel g ep).now = g.now := congrArg (fun p => p.2.2.2.2.2.2.2.2.2.1) c1
    have hsub : (popRun sel g ep).subscribed = g.subscribed := congrArg (fun p => p.2.2.2.2.1) c1
    have hpen : (popRun sel g ep).pending = g.pending.tail := popRun_pending sel g ep
    obtain ⟨obs, o1, o2, o3, o4, o5⟩ := ih (popRun sel g ep)
    have hs : ∃ ob : Option Bytes, (popRun sel g ep).sent = g.sent ++ (ob.map (fun b => (g.now, ep, b))).toList := by
      rcases c4 with c | c
      · exact ⟨none, by show (popRun sel g ep).sent = g.sent ++ []; rw [List.append_nil]; exact c⟩
      · exact ⟨some _, c.1⟩
    obtain ⟨ob, hob⟩ := hs
    refine ⟨ob :: obs, by simp [o1], ?_, o3.trans hnow, o4.trans hsub, ?_⟩
    · rw [o2, hob, hnow, List.zip_cons_cons, List.filterMap_cons]
      cases ob <;> simp
    · rw [o5, hpen]; simp [List.drop_succ_cons, List.tail_drop]

/-! ### the invariant over every list of operations -/

def egp (g : EG) : List Addr × Bool × Outgoing × List (Dest × (Bool × Nat)) × List (List Addr × Nat) :=
  (g.subscribed, g.hasClients, g.outgoing, g.idLog, g.rounds)

def EGIc (p : List Addr × Bool × Outgoing × List (Dest × (Bool × Nat)) × List (List Addr × Nat)) : Prop :=
  p.1.Nodup ∧ p.2.1 = !p.1.isEmpty ∧ P8e p.2.2.1 p.2.2.2.1 ∧ (∀ r ∈ p.2.2.2.2, r.1.Nodup) ∧ (∀ x ∈ p.2.2.2.1, x.1 ≠ none)

/-- the subscribers are a set, `has_clients` says whether it is empty, the session storage is the one the ids drawn so far
lead to and these are the specified ones, every round started with a duplicate-free subscriber list, notifications are
never sent to the multicast pseudo-destination -/
def EGI (g : EG) : Prop := EGIc (egp g)

theorem egi_of_egp {g g' : EG} (h : egp g' = egp g) (hi : EGI g) : EGI g' := by unfold EGI; rw [h]; exact hi

theorem egi_runTask (g : EG) (t : NTask) (hi : EGI g) : EGI (g.runTask t) := by
  cases t with
  | single ep sel =>
    obtain ⟨c1, c2, c3, _⟩ := runTask_single_spec g ep sel
    have e1 : (g.runTask (.single ep sel)).subscribed = g.subscribed := congrArg (fun p => p.2.2.2.2.1) c1
    have e2 : (g.runTask (.single ep sel)).hasClients = g.hasClients := congrArg (fun p => p.2.2.2.2.2.1) c1
    have e3 : (g.runTask (.single ep sel)).rounds = g.rounds := congrArg (fun p => p.2.2.2.2.2.2.2.2.2.2) c1
    obtain ⟨h1, h2, h3, h4, h5⟩ := hi
    unfold EGI egp EGIc
    simp only [] at h1 h2 h3 h4 h5 ⊢
    rw [e1, e2, e3, c2, c3]
    refine ⟨h1, h2, p8e_buildMsgs g ep _ _ _ _ h3, h4, ?_⟩
    intro x hx
    rcases List.mem_append.mp hx with hx | hx
    · exact h5 x hx
    · obtain ⟨y, _, rfl⟩ := List.mem_map.mp hx
      simp
  | all sel =>
    obtain ⟨h1, h2, h3, h4, h5⟩ := hi
    refine ⟨h1, h2, h3, ?_, h5⟩
    intro r hr
    simp only [runTask, logRound, egp] at hr
    rcases List.mem_append.mp hr with hr | hr
    · exact h4 r hr
    · simp only [List.mem_singleton] at hr; rw [hr]; exact h1
  | cycStep =>
    simp only [runTask]
    split
    · exact egi_of_egp rfl hi
    · exact egi_of_egp rfl hi
    · exact hi

theorem egi_settle (fuel : Nat) (g : EG) (hi : EGI g) : EGI (g.settle fuel) := by
  induction fuel generalizing g with
  | zero => exact hi
  | succ n ih =>
    simp only [settle]
    split
    · exact hi
    · exact ih _ (egi_runTask _ _ (egi_of_egp rfl hi))

theorem egi_subscribe (g : EG) (ep : Addr) (hi : EGI g) : EGI (g.subscribe ep) := by
  obtain ⟨h1, h2, h3, h4, h5⟩ := hi
  have hnd : (if ep ∈ g.subscribed then g.subscribed else g.subscribed ++ [ep]).Nodup := by
    split
    · exact h1
    · rename_i hn
      rw [List.nodup_append]
      exact ⟨h1, by simp, fun a ha b hb e => by simp at hb; subst hb; subst e; exact hn ha⟩
  have hne : (if ep ∈ g.subscribed then g.subscribed else g.subscribed ++ [ep]).isEmpty = false := by
    split
    · rename_i hm; cases hs : g.subscribed with
      | nil => rw [hs] at hm; cases hm
      | cons _ _ => rfl
    · simp
  have hegp : egp (g.subscribe ep) =
      (if ep ∈ g.subscribed then g.subscribed else g.subscribed ++ [ep], true, g.outgoing, g.idLog, g.rounds) := by
    unfold subscribe
    simp only []
    by_cases hc : g.hasClients = true
    · simp [egp, hc]
    · have hc' : g.hasClients = false := by cases h : g.hasClients <;> simp_all
      cases hcy : g.cyc <;> simp [egp, hc', hcy]
  unfold EGI
  rw [hegp]
  exact ⟨hnd, by simp only []; rw [hne]; rfl, h3, h4, h5⟩

theorem egi_unsubscribe (g g' : EG) (ep : Addr) (h : g.unsubscribe ep = some g') (hi : EGI g) : EGI g' := by
  obtain ⟨h1, h2, h3, h4, h5⟩ := hi
  unfold unsubscribe at h
  split at h
  · rename_i hm
    simp only [Option.some.injEq] at h
    subst h
    refine ⟨h1.erase ep, ?_, h3, h4, h5⟩
    simp only [egp] at h2 ⊢
    split
    · rename_i he; rw [he]; rfl
    · rename_i he
      have e1 : (g.subscribed.erase ep).isEmpty = false := by
        cases h : (g.subscribed.erase ep).isEmpty with
        | false => rfl
        | true => exact absurd h he
      rw [e1, h2]
      cases hs : g.subscribed with
      | nil => rw [hs] at hm; cases hm
      | cons _ _ => rfl
  · cases h

theorem egi_setValue (g : EG) (ev : Nat) (v : Bytes) (hi : EGI g) : EGI (g.setValue ev v) := by
  unfold setValue; split <;> exact egi_of_egp rfl hi
theorem egi_notifyOnce (g : EG) (evs : List Nat) (hi : EGI g) : EGI (g.notifyOnce evs) := by
  unfold notifyOnce; split
  · exact egi_of_egp rfl hi
  · exact hi
theorem egi_cyclicWake (g : EG) (hi : EGI g) : EGI g.cyclicWake := by
  unfold cyclicWake
  simp only []
  exact egi_of_egp rfl (egi_settle _ _ (egi_of_egp rfl hi))
theorem egi_advance (fuel : Nat) (g : EG) (t : Nat) (hi : EGI g) : EGI (advance fuel g t) := by
  induction fuel generalizing g with
  | zero => exact egi_of_egp rfl hi
  | succ n ih =>
    simp only [advance]
    split
    · split
      · exact ih _ (egi_cyclicWake _ (egi_of_egp rfl hi))
      · exact egi_of_egp rfl hi
    · exact egi_of_egp rfl hi
theorem egi_clientSubscribed (g : EG) (egid : Nat) (eps : List Addr) (hi : EGI g) : EGI (g.clientSubscribed egid eps).1 := by
  unfold clientSubscribed
  split
  · exact hi
  · split
    · exact egi_subscribe _ _ hi
    · exact hi

end EG
end Someip
