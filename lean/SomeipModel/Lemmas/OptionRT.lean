/-
  SD options at byte level: the well-formedness predicate `SDOption.WF` (exactly the values the wire format can
  carry), the round trip `parse (build o ++ r) = (o, r)` for every well-formed option, and soundness of the decoder
  (`parse` only ever returns well-formed options).  Used by C02 (encode → decode) and C20 (decode → encode → decode).
-/
import SomeipModel.Model.SDEntry
import SomeipModel.Lemmas.Bytes
namespace Someip
set_option linter.unusedSimpArgs false
set_option linter.unusedVariables false

/-! ### configuration items -/

/-- length of the configuration string `key[=value]` -/
def itemLen : Text × Option Text → Nat
  | (k, some v) => k.length + v.length + 1
  | (k, none) => k.length

/-- a configuration item the wire format can carry: ASCII, no `=` in the key, 1..255 bytes as a string -/
def ItemWF (it : Text × Option Text) : Prop :=
  (∀ x ∈ it.1, x < 128) ∧ 61 ∉ it.1 ∧ itemLen it < 256 ∧ itemLen it ≠ 0 ∧ (∀ v, it.2 = some v → ∀ x ∈ v, x < 128)

def bodyLen : List (Text × Option Text) → Nat
  | [] => 0
  | it :: r => itemLen it + 1 + bodyLen r

theorem encodeAscii_ok {t : Text} (h : ∀ x ∈ t, x < 128) : encodeAscii t = .ok t := by
  unfold encodeAscii
  rw [if_pos]
  simpa using h

theorem decodeAscii_ok {t : Bytes} (h : ∀ x ∈ t, x < 128) : decodeAscii t = .ok t := by
  unfold decodeAscii
  rw [if_pos]
  simpa using h

theorem decodeAscii_some {b : Bytes} {t : Text} (h : decodeAscii b = .ok t) : t = b ∧ ∀ x ∈ t, x < 128 := by
  unfold decodeAscii at h
  split at h
  · rename_i hc
    simp only [Except.ok.injEq] at h
    subst h
    exact ⟨rfl, by simpa using hc⟩
  · cases h

theorem findEq_append (k v : Bytes) (h : 61 ∉ k) : findEq (k ++ 61 :: v) = some k.length := by
  induction k with
  | nil => simp [findEq]
  | cons x r ih =>
    simp only [List.mem_cons, not_or] at h
    have hx : ¬ x = 61 := fun e => h.1 e.symm
    simp [findEq, hx, ih h.2]

theorem findEq_none_of_not_mem (k : Bytes) (h : 61 ∉ k) : findEq k = none := by
  induction k with
  | nil => rfl
  | cons x r ih =>
    simp only [List.mem_cons, not_or] at h
    have hx : ¬ x = 61 := fun e => h.1 e.symm
    simp [findEq, hx, ih h.2]

theorem findEq_none {s : Bytes} (h : findEq s = none) : 61 ∉ s := by
  induction s with
  | nil => simp
  | cons x r ih =>
    unfold findEq at h
    split at h
    · cases h
    · rename_i hx
      simp only [Option.map_eq_none_iff] at h
      simp only [List.mem_cons, not_or]
      exact ⟨fun e => hx e.symm, ih h⟩

theorem findEq_some {s : Bytes} {i : Nat} (h : findEq s = some i) :
    i < s.length ∧ 61 ∉ s.take i ∧ s = s.take i ++ 61 :: s.drop (i + 1) := by
  induction s generalizing i with
  | nil => cases h
  | cons x r ih =>
    unfold findEq at h
    split at h
    · rename_i hx
      simp only [Option.some.injEq] at h
      subst h hx
      simp
    · rename_i hx
      cases hr : findEq r with
      | none => simp [hr] at h
      | some j =>
        simp only [hr, Option.map_some, Option.some.injEq] at h
        subst h
        obtain ⟨h1, h2, h3⟩ := ih hr
        refine ⟨by simp; omega, ?_, ?_⟩
        · simp only [List.take_succ_cons, List.mem_cons, not_or]
          exact ⟨fun e => hx e.symm, h2⟩
        · simp only [List.take_succ_cons, List.drop_succ_cons, List.cons_append, List.cons.injEq, true_and]
          exact h3

/-- the configuration string of an item -/
def itemStr : Text × Option Text → Bytes
  | (k, some v) => k ++ 61 :: v
  | (k, none) => k

theorem itemStr_length (it : Text × Option Text) : (itemStr it).length = itemLen it := by
  obtain ⟨k, v⟩ := it
  cases v <;> simp [itemStr, itemLen]; omega

theorem parseConfigItem_itemStr (it : Text × Option Text) (h : ItemWF it) : parseConfigItem (itemStr it) = .ok it := by
  obtain ⟨k, v⟩ := it
  obtain ⟨hk, he, _, _, hv⟩ := h
  cases v with
  | none =>
    simp only [itemStr, parseConfigItem, findEq_none_of_not_mem k he, decodeAscii_ok hk]
    rfl
  | some v =>
    have hv' := hv v rfl
    simp only [itemStr, parseConfigItem, findEq_append k v he]
    have e1 : (k ++ 61 :: v).take k.length = k := by simp
    have e2 : (k ++ 61 :: v).drop (k.length + 1) = v := by
      rw [show k ++ 61 :: v = (k ++ [61]) ++ v by simp]
      rw [List.drop_append_of_le_length (by simp)]
      simp
    rw [e1, e2, decodeAscii_ok hk, decodeAscii_ok hv']
    rfl

theorem parseConfigItem_sound {s : Bytes} {it : Text × Option Text} (hs : s ≠ []) (hl : s.length < 256)
    (h : parseConfigItem s = .ok it) : ItemWF it ∧ itemStr it = s := by
  unfold parseConfigItem at h
  cases hf : findEq s with
  | none =>
    simp only [hf] at h
    cases hd : decodeAscii s with
    | error e => simp [hd, bind, Except.bind] at h
    | ok k =>
      simp only [hd, bind, Except.bind, pure, Except.pure, Except.ok.injEq] at h
      subst h
      obtain ⟨e1, e2⟩ := decodeAscii_some hd
      subst e1
      refine ⟨⟨e2, findEq_none hf, hl, ?_, by simp⟩, rfl⟩
      simp only [itemLen]
      intro h0
      exact hs (List.length_eq_zero_iff.mp h0)
  | some i =>
    simp only [hf] at h
    obtain ⟨h1, h2, h3⟩ := findEq_some hf
    cases hd : decodeAscii (s.take i) with
    | error e => simp [hd, bind, Except.bind] at h
    | ok k =>
      cases hd2 : decodeAscii (s.drop (i + 1)) with
      | error e => simp [hd, hd2, bind, Except.bind] at h
      | ok v =>
        simp only [hd, hd2, bind, Except.bind, pure, Except.pure, Except.ok.injEq] at h
        subst h
        obtain ⟨e1, e2⟩ := decodeAscii_some hd
        obtain ⟨e3, e4⟩ := decodeAscii_some hd2
        subst e1 e3
        have hlen : (s.take i).length + (s.drop (i + 1)).length + 1 = s.length := by
          simp; omega
        refine ⟨⟨e2, h2, ?_, ?_, ?_⟩, ?_⟩
        · simp only [itemLen]; omega
        · simp only [itemLen]; omega
        · intro v hv; simp only [Option.some.injEq] at hv; subst hv; exact e4
        · simp only [itemStr]; exact h3.symm

/-- what `buildConfigItems` produces for well-formed items -/
def bodyBytes : List (Text × Option Text) → Bytes
  | [] => []
  | it :: r => itemLen it :: itemStr it ++ bodyBytes r

theorem bodyBytes_length (items : List (Text × Option Text)) : (bodyBytes items).length = bodyLen items := by
  induction items with
  | nil => rfl
  | cons it r ih => simp [bodyBytes, bodyLen, ih, itemStr_length]; omega

theorem buildConfigItems_wf (items : List (Text × Option Text)) (h : ∀ it ∈ items, ItemWF it) :
    buildConfigItems items = .ok (bodyBytes items) := by
  induction items with
  | nil => rfl
  | cons it r ih =>
    obtain ⟨k, v⟩ := it
    have hw := h (k, v) (by simp)
    have ihr := ih (fun x hx => h x (by simp [hx]))
    obtain ⟨hk, he, hl, _, hv⟩ := hw
    cases v with
    | none =>
      simp only [itemLen] at hl
      simp only [buildConfigItems, hl, not_true_eq_false, if_false, encodeAscii_ok hk, ihr, bind, Except.bind, pure,
        Except.pure, bodyBytes, itemLen, itemStr]
    | some v =>
      simp only [itemLen] at hl
      have hv' := hv v rfl
      simp only [buildConfigItems, hl, not_true_eq_false, if_false, encodeAscii_ok hk, encodeAscii_ok hv', ihr, bind,
        Except.bind, pure, Except.pure, bodyBytes, itemLen, itemStr]
      simp

/-- decoding what the items were encoded to, whatever follows the terminating zero -/
theorem parseConfigLoop_bodyBytes (items : List (Text × Option Text)) (h : ∀ it ∈ items, ItemWF it) (g : Bytes) :
    ∀ fuel, bodyLen items ≤ fuel →
      ∃ nl b, bodyBytes items ++ 0 :: g = nl :: b ∧ parseConfigLoop fuel nl b = .ok items := by
  induction items with
  | nil =>
    intro fuel _
    refine ⟨0, g, rfl, ?_⟩
    cases fuel <;> simp [parseConfigLoop]
  | cons it r ih =>
    intro fuel hf
    have hw := h it (by simp)
    obtain ⟨nl', b', hb', hp'⟩ := ih (fun x hx => h x (by simp [hx])) (fuel - 1) (by simp only [bodyLen] at hf; omega)
    refine ⟨itemLen it, itemStr it ++ (bodyBytes r ++ 0 :: g), by simp [bodyBytes], ?_⟩
    cases fuel with
    | zero => simp only [bodyLen] at hf; omega
    | succ f =>
      simp only [Nat.add_sub_cancel] at hp'
      have hne : ¬ itemLen it = 0 := hw.2.2.2.1
      have hlen : ¬ (itemStr it ++ (bodyBytes r ++ 0 :: g)).length < itemLen it + 1 := by
        simp [itemStr_length]
      have e1 : (itemStr it ++ (bodyBytes r ++ 0 :: g)).take (itemLen it) = itemStr it := by
        rw [← itemStr_length it]; simp
      have e2 : (itemStr it ++ (bodyBytes r ++ 0 :: g)).drop (itemLen it) = nl' :: b' := by
        rw [← itemStr_length it, List.drop_left, hb']
      simp only [parseConfigLoop, hne, if_false, hlen, e1, e2, parseConfigItem_itemStr it hw, hp', bind, Except.bind,
        pure, Except.pure]

/-- decoder soundness for the configuration loop: the items are well formed, and re-encoding them needs no
more bytes than were consumed -/
theorem parseConfigLoop_sound : ∀ (fuel nl : Nat) (b : Bytes) (items : List (Text × Option Text)),
    nl < 256 → AllBytes b → parseConfigLoop fuel nl b = .ok items → (∀ it ∈ items, ItemWF it) ∧ bodyLen items ≤ b.length
  | 0, nl, b, items, _, _, h => by
    unfold parseConfigLoop at h
    split at h
    · simp only [Except.ok.injEq] at h; subst h; simp [bodyLen]
    · cases h
  | fuel + 1, nl, b, items, hnl, hab, h => by
    unfold parseConfigLoop at h
    split at h
    · simp only [Except.ok.injEq] at h; subst h; simp [bodyLen]
    · rename_i hne
      split at h
      · cases h
      · rename_i hlen
        cases hi : parseConfigItem (b.take nl) with
        | error e => simp [hi, bind, Except.bind] at h
        | ok item =>
          simp only [hi, bind, Except.bind] at h
          split at h
          · cases h
          · rename_i nl2 b2 hd
            cases hr : parseConfigLoop fuel nl2 b2 with
            | error e => simp [hr] at h
            | ok rest =>
              simp only [hr, pure, Except.pure, Except.ok.injEq] at h
              subst h
              have htl : (b.take nl).length = nl := by simp; omega
              have hs : b.take nl ≠ [] := by
                intro e; rw [e] at htl; simp at htl; omega
              obtain ⟨hw, hstr⟩ := parseConfigItem_sound hs (by omega) hi
              have hd2 : AllBytes (nl2 :: b2) := by rw [← hd]; exact allBytes_drop nl hab
              simp only [allBytes_cons] at hd2
              obtain ⟨ih1, ih2⟩ := parseConfigLoop_sound fuel nl2 b2 rest hd2.1 hd2.2 hr
              have hil : itemLen item = nl := by rw [← itemStr_length, hstr, htl]
              have hbl : b.length = nl + (1 + b2.length) := by
                have := List.length_drop (i := nl) (l := b)
                rw [hd] at this
                simp at this
                omega
              refine ⟨?_, ?_⟩
              · intro it hit
                simp only [List.mem_cons] at hit
                rcases hit with e | e
                · subst e; exact hw
                · exact ih1 it e
              · simp only [bodyLen]; omega

/-! ### whole options -/

def registeredType (t : Nat) : Prop :=
  t = OPT_CONFIG ∨ t = OPT_LOADBAL ∨ t = OPT_V4_ENDPOINT ∨ t = OPT_V4_MULTICAST ∨ t = OPT_V4_SD ∨
  t = OPT_V6_ENDPOINT ∨ t = OPT_V6_MULTICAST ∨ t = OPT_V6_SD

instance (t : Nat) : Decidable (registeredType t) := by unfold registeredType; infer_instance

/-- the option values the wire format can carry -/
def SDOption.WF : SDOption → Prop
  | .unknown t p => t < 256 ∧ ¬ registeredType t ∧ p.length < 65536
  | .loadBal prio w => prio < 65536 ∧ w < 65536
  | .config items => (∀ it ∈ items, ItemWF it) ∧ bodyLen items + 2 < 65536
  | .ipv4 _ a l4 port => a.length = 4 ∧ l4 < 256 ∧ port < 65536
  | .ipv6 _ a l4 port => a.length = 16 ∧ l4 < 256 ∧ port < 65536

/-- number of bytes `build` produces -/
def SDOption.wireLen : SDOption → Nat
  | .unknown _ p => 3 + p.length
  | .loadBal _ _ => 8
  | .config items => 3 + (bodyLen items + 2)
  | .ipv4 _ _ _ _ => 12
  | .ipv6 _ _ _ _ => 24

theorem SDOption.wireLen_ge (o : SDOption) : 3 ≤ o.wireLen := by cases o <;> simp [SDOption.wireLen]

theorem parse_built (type : Nat) (buf r : Bytes) (hl : buf.length < 65536) :
    SDOption.parse (be16 buf.length ++ [type] ++ buf ++ r) =
      match parseOptionBody type buf with
      | .error e => .error e
      | .ok o => .ok (o, r) := by
  have hu : u16 (buf.length / 256 % 256) (buf.length % 256) = buf.length := u16_be16 hl
  simp only [be16, List.cons_append, List.nil_append, SDOption.parse, hu, List.append_assoc]
  have h1 : ¬ (buf ++ r).length < buf.length := by simp
  simp only [h1, if_false, List.take_left, List.drop_left]
  rfl

theorem parseIP_built (mk : Bytes → Nat → Nat → SDOption) (alen : Nat) (a : Bytes) (l4 port : Nat)
    (ha : a.length = alen) (hp : port < 65536) :
    parseIP mk alen ([0] ++ a ++ [0, l4] ++ be16 port) = .ok (mk a l4 port) := by
  unfold parseIP
  have hl : ¬ ([0] ++ a ++ [0, l4] ++ be16 port).length ≠ alen + 5 := by simp [be16, ha]
  rw [if_neg hl]
  have e1 : ([0] ++ a ++ [0, l4] ++ be16 port).drop (alen + 1) = [0, l4, port / 256 % 256, port % 256] := by
    rw [show [0] ++ a ++ [0, l4] ++ be16 port = ([0] ++ a) ++ ([0, l4] ++ be16 port) by simp]
    rw [List.drop_left' (by simp [ha])]
    rfl
  have e2 : (([0] ++ a ++ [0, l4] ++ be16 port).drop 1).take alen = a := by
    simp only [List.cons_append, List.nil_append, List.drop_succ_cons, List.drop_zero, List.append_assoc]
    rw [← ha]; simp
  rw [e1]
  simp only [e2, u16_be16 hp]

/-- ENCODE → DECODE for one option: every well-formed option can be built, and the bytes, followed by
anything, decode to the same option and exactly the rest -/
theorem SDOption.parse_build (o : SDOption) (h : o.WF) :
    ∃ b, o.build = .ok b ∧ b.length = o.wireLen ∧ ∀ r, SDOption.parse (b ++ r) = .ok (o, r) := by
  cases o with
  | unknown t p =>
    obtain ⟨ht, hr, hl⟩ := h
    refine ⟨be16 p.length ++ [t] ++ p, by simp [SDOption.build, buildOption, hl, ht], by simp [be16, SDOption.wireLen]; omega, fun r => ?_⟩
    rw [parse_built t p r hl]
    simp only [registeredType, not_or] at hr
    obtain ⟨h1, h2, h3, h4, h5, h6, h7, h8⟩ := hr
    simp [parseOptionBody, h1, h2, h3, h4, h5, h6, h7, h8]
  | loadBal prio w =>
    obtain ⟨h1, h2⟩ := h
    refine ⟨be16 5 ++ [OPT_LOADBAL] ++ ([0] ++ be16 prio ++ be16 w), ?_, by simp [be16, SDOption.wireLen], fun r => ?_⟩
    · simp [SDOption.build, buildOption, h1, h2, be16, OPT_LOADBAL]
    · have := parse_built OPT_LOADBAL ([0] ++ be16 prio ++ be16 w) r (by simp [be16])
      simp only [be16, List.cons_append, List.nil_append, List.length_cons, List.length_nil] at this ⊢
      rw [this]
      simp [parseOptionBody, OPT_LOADBAL, OPT_CONFIG, parseLoadBal, u16_be16 h1, u16_be16 h2]
  | config items =>
    obtain ⟨hw, hl⟩ := h
    have hb := buildConfigItems_wf items hw
    have hlen : ([0] ++ bodyBytes items ++ [0]).length < 65536 := by simp [bodyBytes_length]; omega
    refine ⟨be16 ([0] ++ bodyBytes items ++ [0]).length ++ [OPT_CONFIG] ++ ([0] ++ bodyBytes items ++ [0]), ?_,
      by simp [be16, SDOption.wireLen, bodyBytes_length]; omega, fun r => ?_⟩
    · simp only [SDOption.build, hb, bind, Except.bind, buildOption]
      rw [if_pos ⟨hlen, by decide⟩]
    · rw [parse_built OPT_CONFIG _ r hlen]
      obtain ⟨nl, b, e, hp⟩ := parseConfigLoop_bodyBytes items hw [] (bodyLen items + 5) (by omega)
      have hp' : ∀ fuel, bodyLen items ≤ fuel → parseConfigLoop fuel nl b = .ok items := by
        intro fuel hf
        obtain ⟨nl', b', e', hp'⟩ := parseConfigLoop_bodyBytes items hw [] fuel hf
        rw [e] at e'
        simp only [List.cons.injEq] at e'
        rw [e'.1, e'.2]; exact hp'
      have hbl : bodyLen items ≤ b.length := by
        have := congrArg List.length e
        simp [bodyBytes_length] at this
        omega
      simp only [parseOptionBody, if_true, List.cons_append, List.nil_append, parseConfig, e]
      rw [hp' b.length hbl]
      rfl
  | ipv4 k a l4 port =>
    obtain ⟨ha, h4, hp⟩ := h
    have hlen : ([0] ++ a ++ [0, l4] ++ be16 port).length < 65536 := by simp [be16, ha]
    refine ⟨be16 ([0] ++ a ++ [0, l4] ++ be16 port).length ++ [k.typeV4] ++ ([0] ++ a ++ [0, l4] ++ be16 port), ?_,
      by simp [be16, SDOption.wireLen, ha], fun r => ?_⟩
    · simp only [SDOption.build, buildIP]
      rw [if_pos ⟨h4, hp⟩]
      simp only [buildOption]
      rw [if_pos ⟨hlen, by cases k <;> decide⟩]
    · rw [parse_built _ _ r hlen]
      have hq : ∀ mk, parseIP mk 4 (0 :: (a ++ 0 :: l4 :: be16 port)) = .ok (mk a l4 port) := fun mk => by
        have := parseIP_built mk 4 a l4 port ha hp
        simpa using this
      cases k <;>
        simp [parseOptionBody, IPKind.typeV4, OPT_CONFIG, OPT_LOADBAL, OPT_V4_ENDPOINT, OPT_V4_MULTICAST, OPT_V4_SD, hq]
  | ipv6 k a l4 port =>
    obtain ⟨ha, h4, hp⟩ := h
    have hlen : ([0] ++ a ++ [0, l4] ++ be16 port).length < 65536 := by simp [be16, ha]
    refine ⟨be16 ([0] ++ a ++ [0, l4] ++ be16 port).length ++ [k.typeV6] ++ ([0] ++ a ++ [0, l4] ++ be16 port), ?_,
      by simp [be16, SDOption.wireLen, ha], fun r => ?_⟩
    · simp only [SDOption.build, buildIP]
      rw [if_pos ⟨h4, hp⟩]
      simp only [buildOption]
      rw [if_pos ⟨hlen, by cases k <;> decide⟩]
    · rw [parse_built _ _ r hlen]
      have hq : ∀ mk, parseIP mk 16 (0 :: (a ++ 0 :: l4 :: be16 port)) = .ok (mk a l4 port) := fun mk => by
        have := parseIP_built mk 16 a l4 port ha hp
        simpa using this
      cases k <;>
        simp [parseOptionBody, IPKind.typeV6, OPT_CONFIG, OPT_LOADBAL, OPT_V4_ENDPOINT, OPT_V4_MULTICAST, OPT_V4_SD,
          OPT_V6_ENDPOINT, OPT_V6_MULTICAST, OPT_V6_SD, hq]

theorem parseIP_sound {mk : Bytes → Nat → Nat → SDOption} {alen : Nat} {buf : Bytes} {o : SDOption}
    (hb : AllBytes buf) (h : parseIP mk alen buf = .ok o) :
    ∃ a l4 port, o = mk a l4 port ∧ a.length = alen ∧ l4 < 256 ∧ port < 65536 ∧ buf.length = alen + 5 := by
  unfold parseIP at h
  split at h
  · cases h
  · rename_i hl
    split at h
    · rename_i x l4 p1 p0 hd
      simp only [Except.ok.injEq] at h
      have hd' : AllBytes [x, l4, p1, p0] := by rw [← hd]; exact allBytes_drop _ hb
      simp only [allBytes_cons] at hd'
      refine ⟨_, l4, u16 p1 p0, h.symm, ?_, hd'.2.1, u16_lt hd'.2.2.1 hd'.2.2.2.1, by omega⟩
      simp; omega
    · cases h

/-- DECODER SOUNDNESS for one option: whatever `parse` accepts is a well-formed option, and the rest is a
suffix of the input -/
theorem SDOption.parse_sound {b : Bytes} {o : SDOption} {r : Bytes} (hb : AllBytes b)
    (h : SDOption.parse b = .ok (o, r)) : o.WF ∧ ∃ p, b = p ++ r ∧ o.wireLen ≤ p.length := by
  unfold SDOption.parse at h
  split at h
  · rename_i l1 l0 type rest
    simp only [allBytes_cons] at hb
    obtain ⟨hl1, hl0, hty, hrest⟩ := hb
    dsimp only at h
    split at h
    · cases h
    · rename_i hlen
      cases hbody : parseOptionBody type (rest.take (u16 l1 l0)) with
      | error e => simp [hbody] at h
      | ok o' =>
        simp only [hbody, Except.ok.injEq, Prod.mk.injEq] at h
        obtain ⟨e1, e2⟩ := h
        subst e1 e2
        suffices hs : o'.WF ∧ o'.wireLen ≤ 3 + (rest.take (u16 l1 l0)).length from
          ⟨hs.1, l1 :: l0 :: type :: rest.take (u16 l1 l0), by simp, by simp only [List.length_cons]; omega⟩
        have hub := u16_lt hl1 hl0
        have htk : AllBytes (rest.take (u16 l1 l0)) := allBytes_take _ hrest
        have htl : (rest.take (u16 l1 l0)).length < 65536 := by simp; omega
        generalize rest.take (u16 l1 l0) = buf at hbody htk htl
        unfold parseOptionBody at hbody
        split at hbody
        · -- configuration
          unfold parseConfig at hbody
          split at hbody
          · rename_i x nl bb
            cases hloop : parseConfigLoop bb.length nl bb with
            | error e => simp [hloop, bind, Except.bind] at hbody
            | ok items =>
              simp only [hloop, bind, Except.bind, pure, Except.pure, Except.ok.injEq] at hbody
              subst hbody
              simp only [allBytes_cons] at htk
              obtain ⟨hw, hbl⟩ := parseConfigLoop_sound bb.length nl bb items htk.2.1 htk.2.2 hloop
              refine ⟨⟨hw, ?_⟩, ?_⟩
              · simp at htl; omega
              · simp [SDOption.wireLen]; omega
          · cases hbody
        · split at hbody
          · -- load balancing
            unfold parseLoadBal at hbody
            split at hbody
            · rename_i x p1 p0 w1 w0
              simp only [Except.ok.injEq] at hbody
              subst hbody
              simp only [allBytes_cons] at htk
              exact ⟨⟨u16_lt htk.2.1 htk.2.2.1, u16_lt htk.2.2.2.1 htk.2.2.2.2.1⟩, by simp [SDOption.wireLen]⟩
            · cases hbody
          · split at hbody
            · obtain ⟨a, l4, port, e, h1, h2, h3, h4⟩ := parseIP_sound htk hbody; subst e; exact ⟨⟨h1, h2, h3⟩, by simp [SDOption.wireLen]; omega⟩
            · split at hbody
              · obtain ⟨a, l4, port, e, h1, h2, h3, h4⟩ := parseIP_sound htk hbody; subst e; exact ⟨⟨h1, h2, h3⟩, by simp [SDOption.wireLen]; omega⟩
              · split at hbody
                · obtain ⟨a, l4, port, e, h1, h2, h3, h4⟩ := parseIP_sound htk hbody; subst e; exact ⟨⟨h1, h2, h3⟩, by simp [SDOption.wireLen]; omega⟩
                · split at hbody
                  · obtain ⟨a, l4, port, e, h1, h2, h3, h4⟩ := parseIP_sound htk hbody; subst e; exact ⟨⟨h1, h2, h3⟩, by simp [SDOption.wireLen]; omega⟩
                  · split at hbody
                    · obtain ⟨a, l4, port, e, h1, h2, h3, h4⟩ := parseIP_sound htk hbody; subst e; exact ⟨⟨h1, h2, h3⟩, by simp [SDOption.wireLen]; omega⟩
                    · split at hbody
                      · obtain ⟨a, l4, port, e, h1, h2, h3, h4⟩ := parseIP_sound htk hbody; subst e
                        exact ⟨⟨h1, h2, h3⟩, by simp [SDOption.wireLen]; omega⟩
                      · simp only [Except.ok.injEq] at hbody
                        subst hbody
                        refine ⟨⟨hty, ?_, htl⟩, by simp [SDOption.wireLen]⟩
                        simp only [registeredType, not_or]
                        rename_i g1 g2 g3 g4 g5 g6 g7 g8
                        exact ⟨g1, g2, g3, g4, g5, g6, g7, g8⟩
  · cases h

end Someip
