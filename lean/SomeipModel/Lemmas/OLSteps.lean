/-
  C10, counting on whole runs: the log invariant `OL` (= `LI` of the stack's view) through every function of the model,
  inputs, callbacks and loop steps.  It is carried together with the offer-task invariant `OffInv`, which supplies "a task
  that can still send is the task its instance holds" and the freshness of new task numbers.
-/
import SomeipModel.Lemmas.OLView
namespace Someip
namespace Stack
set_option linter.unusedSimpArgs false
set_option linter.unusedVariables false

def lview (s : Stack) : LV := ⟨s.offLog, s.tm.cyclicOfferDelay, s.instances.map (·.task), otasks s⟩
/-- the log invariant of the stack -/
def OL (s : Stack) : Prop := LI (lview s)

theorem lview_of_frame_tm {s s' : Stack} (h1 : opi s' = opi s) (e3 : s'.tm = s.tm) (h3 : lgi s' = lgi s) : lview s' = lview s := by
  have e1 : s'.instances.map (fun x => (x.task, x.canAnswer)) = s.instances.map (fun x => (x.task, x.canAnswer)) := congrArg (fun p => p.1) h1
  have e2 : otasks s' = otasks s := congrArg (fun p => p.2) h1
  have e4 : s'.offLog = s.offLog := h3
  have e5 : s'.instances.map (·.task) = s.instances.map (·.task) := by
    have := congrArg (List.map Prod.fst) e1
    simpa [List.map_map, Function.comp_def] using this
  unfold lview; rw [e4, e3, e5, e2]

theorem lview_of_frame {s s' : Stack} (h1 : opi s' = opi s) (h2 : base s' = base s) (h3 : lgi s' = lgi s) : lview s' = lview s := by
  have e1 : s'.instances.map (fun x => (x.task, x.canAnswer)) = s.instances.map (fun x => (x.task, x.canAnswer)) := congrArg (fun p => p.1) h1
  have e2 : otasks s' = otasks s := congrArg (fun p => p.2) h1
  have e3 : s'.tm = s.tm := congrArg (fun p => p.1) h2
  have e4 : s'.offLog = s.offLog := h3
  have e5 : s'.instances.map (·.task) = s.instances.map (·.task) := by
    have := congrArg (List.map Prod.fst) e1
    simpa [List.map_map, Function.comp_def] using this
  unfold lview; rw [e4, e3, e5, e2]

theorem ol_frame {s s' : Stack} (h1 : opi s' = opi s) (h2 : base s' = base s) (h3 : lgi s' = lgi s) (hi : OL s) : OL s' := by
  unfold OL; rw [lview_of_frame h1 h2 h3]; exact hi

theorem lview_its (s : Stack) (i : Nat) : (lview s).its[i]? = (s.getInst i).map (·.task) := by
  unfold lview getInst; simp [List.getElem?_map]
theorem its_of_itc {s : Stack} {i : Nat} {r : Option Nat} {c : Bool} (h : itc s i = some (r, c)) : (lview s).its[i]? = some r := by
  rw [lview_its]
  cases hx : s.getInst i with
  | none => rw [itc_none hx] at h; cases h
  | some x => rw [itc_getInst hx] at h; simp at h ⊢; exact h.1
theorem its_getInst {s : Stack} {i : Nat} {x : Instance} (hx : s.getInst i = some x) : (lview s).its[i]? = some x.task := by
  rw [lview_its, hx]; rfl
theorem getInst_of_its {s : Stack} {i : Nat} (h : i < (lview s).its.length) : ∃ x, s.getInst i = some x := by
  have : i < s.instances.length := by simpa [lview] using h
  exact ⟨s.instances[i], by unfold getInst; exact List.getElem?_eq_getElem this⟩

theorem lview_tasks_otask (s : Stack) (i n : Nat) : alookup (lview s).tasks (.offer i, n) = otask s i n := rfl

theorem lview_logOffer (s : Stack) (i : Nat) (e : OEv) :
    lview (s.logOffer i e) = { lview s with log := (lview s).log ++ [(i, e, s.loop.now)] } := rfl

theorem lview_setTask (s : Stack) (i n : Nat) (t : TaskSt) :
    lview (s.setTask (.offer i, n) t) = { lview s with tasks := setT (lview s).tasks (.offer i, n) t } := by
  unfold lview; rw [otasks_setTask]; rfl

theorem lview_setInst (s : Stack) (i : Nat) (x' : Instance) :
    lview (s.setInst i x') = { lview s with its := (lview s).its.set i x'.task } := by
  unfold lview setInst; simp only []
  rw [List.map_set]; rfl

theorem set_self {α : Type} (l : List α) (i : Nat) (a : α) (h : l[i]? = some a) : l.set i a = l := by
  apply List.ext_getElem?
  intro j
  by_cases hj : j = i
  · subst hj
    have hlt := (List.getElem?_eq_some_iff.mp h).1
    rw [List.getElem?_set_self hlt, h]
  · rw [List.getElem?_set_ne (fun e => hj e.symm)]

theorem lview_setInst_keep (s : Stack) (i : Nat) (x x' : Instance) (hx : s.getInst i = some x) (ht : x'.task = x.task) :
    lview (s.setInst i x') = lview s := by
  rw [lview_setInst, ht, set_self _ _ _ (its_getInst hx)]

/-! ### frames of the loop and queue operations -/

theorem lview_callSoon (s : Stack) (cb : Cb) : lview (s.callSoon cb) = lview s := rfl
theorem lview_callLater (s : Stack) (d : Nat) (cb : Cb) : lview (s.callLater d cb).1 = lview s := rfl
theorem lview_cancelTimer (s : Stack) (own : Cb → Bool) (t : Option Nat) : lview (s.cancelTimer own t) = lview s :=
  lview_of_frame (opi_cancelTimer _ _ _) (base_cancelTimer _ _ _) (lgi_cancelTimer _ _ _)
theorem lview_queueSend (s : Stack) (e : SDEntry) (d : Dest) : lview (s.queueSend e d) = lview s :=
  lview_of_frame (opi_queueSend _ _ _) (base_queueSend _ _ _) (lgi_queueSend _ _ _)
theorem lview_draw (s : Stack) (a b : Nat) : lview (s.draw a b).1 = lview s :=
  lview_of_frame (opi_draw _ _ _) (base_draw _ _ _) (lgi_draw _ _ _)

/-- the view after `sleepFor`: the task record is rewritten with the new position -/
theorem lview_sleepFor (s : Stack) (i n : Nat) (t' : TaskSt) (d : Nat) (pc : Pc) :
    ∃ t'', lview (s.sleepFor (.offer i, n) t' d pc) = { lview s with tasks := setT (lview s).tasks (.offer i, n) t'' } ∧
      t''.pc = pc ∧ t''.cancelled = t'.cancelled := by
  unfold sleepFor
  split
  · exact ⟨{ t' with pc, waiting := false, sleep := none }, by rw [lview_callSoon, lview_setTask], rfl, rfl⟩
  · exact ⟨{ t' with pc, waiting := true, sleep := some (s.callLater d (.sleepDone (.offer i, n))).2 },
      by simp only []; rw [lview_setTask, lview_callLater], rfl, rfl⟩

theorem lview_finish (s : Stack) (i n : Nat) (t' : TaskSt) :
    lview (s.finish (.offer i, n) t') =
      { lview s with tasks := setT (lview s).tasks (.offer i, n) ({ t' with pc := .done, waiting := false, sleep := none, cancelled := false } : TaskSt) } := by
  unfold finish; rw [lview_setTask]

/-- `_send_offer` when its guard lets the offer through -/
theorem lview_sendOffer_pass (s : Stack) (i : Nat) (x : Instance) (remote : Dest) (stop : Bool) (hx : s.getInst i = some x)
    (hpass : (!stop && (x.task.isNone || (remote.isSome && !x.canAnswer))) = false) :
    lview (s.sendOffer i remote stop) =
      { lview s with log := (lview s).log ++ [(i, if stop then OEv.stopOffer else OEv.offer remote.isSome, s.loop.now)] } := by
  unfold sendOffer
  rw [hx]
  simp only [hpass, Bool.false_eq_true, if_false]
  rw [lview_queueSend, lview_logOffer]

theorem sendOffer_blocked (s : Stack) (i : Nat) (x : Instance) (remote : Dest) (hx : s.getInst i = some x)
    (hb : (x.task.isNone || (remote.isSome && !x.canAnswer)) = true) : s.sendOffer i remote false = s := by
  unfold sendOffer; rw [hx]; simp [hb]

/-! ### the deferred answer to a FindService -/

theorem ol_sendOffer_remote (s : Stack) (i : Nat) (a : Addr) (hi : OL s) : OL (s.sendOffer i (some a) false) := by
  cases hx : s.getInst i with
  | none => unfold sendOffer; rw [hx]; exact hi
  | some x =>
    cases hb : (x.task.isNone || ((some a : Dest).isSome && !x.canAnswer))
    · unfold OL
      rw [lview_sendOffer_pass s i x (some a) false hx (by rw [hb]; rfl)]
      cases ht : x.task with
      | none => rw [ht] at hb; simp at hb
      | some n =>
        have hits : (lview s).its[i]? = some (some n) := by rw [its_getInst hx, ht]
        exact LI.logOffer hi i n true _ hits (Or.inl rfl)
    · rw [sendOffer_blocked s i x _ hx hb]; exact hi

/-! ### task operations -/

theorem ol_sleepDone (s : Stack) (i n : Nat) (hi : OL s) : OL (s.sleepDone (.offer i, n)) := by
  unfold sleepDone
  rw [getTask_offer]
  cases ht : otask s i n with
  | none => exact hi
  | some t =>
    simp only []
    split
    · unfold OL
      rw [lview_callSoon, lview_setTask]
      apply LI.updTask hi i n t _ ht
      · intro h
        obtain ⟨t0, h0, h1, h2, h3⟩ := hi.own i n h
        rw [lview_tasks_otask, ht] at h0; cases h0
        exact ⟨h1, h2, h3⟩
      · rfl
    · exact hi

/-! ### one step of the offer coroutine -/

theorem ol_stepOffer (s : Stack) (i n : Nat) (t t' : TaskSt) (hi : OL s) (ho : OffInv s) (ht : otask s i n = some t)
    (hpc : t'.pc = t.pc) (hc : t'.cancelled = t.cancelled) (hnd : t.pc ≠ .done) : OL (s.stepOffer (.offer i, n) t' i) := by
  have htv : alookup (lview s).tasks (.offer i, n) = some t := ht
  -- an uncancelled task is the one its instance holds
  have hown : t'.cancelled = false → ∃ x, s.getInst i = some x ∧ x.task = some n := by
    intro h
    obtain ⟨c, h1⟩ := ho.own i n t ht hnd (hc ▸ h)
    cases hx : s.getInst i with
    | none => rw [itc_none hx] at h1; cases h1
    | some x =>
      rw [itc_getInst hx] at h1
      exact ⟨x, rfl, by simpa using (Prod.mk.inj (Option.some.inj h1)).1⟩
  have hownv : t'.cancelled = false → (lview s).its[i]? = some (some n) := by
    intro h; obtain ⟨x, hx, hxt⟩ := hown h; rw [its_getInst hx, hxt]
  -- a cancelled task is held by nobody
  have hnot : t'.cancelled = true → (lview s).its[i]? ≠ some (some n) := by
    intro h hh
    obtain ⟨t0, h0, h1, _, _⟩ := hi.own i n hh
    rw [htv] at h0; cases h0; rw [← hc, h] at h1; cases h1
  -- cancelled before the try block: the task just ends
  have hfin0 : t'.cancelled = true → isTryPc t.pc = false → OL (s.finish (.offer i, n) t') := by
    intro hcc htry
    unfold OL; rw [lview_finish]
    apply LI.updTask hi i n t _ htv
    · intro h; exact absurd h (hnot hcc)
    · show (false && isTryPc Pc.done) = (t.cancelled && isTryPc t.pc)
      rw [htry]; simp
  -- the instance exists
  have hinst : ∃ x, s.getInst i = some x := by
    have hm : ((TaskKind.offer i, n), t) ∈ (lview s).tasks := alookup_mem htv
    exact getInst_of_its (hi.inst _ hm i rfl)
  -- except CancelledError / finally
  have hcancel : t'.cancelled = true → isTryPc t.pc = true →
      OL ((if (match s.getInst i with | some x => s.setInst i { x with canAnswer := false } | none => s).tm.cyclicOfferDelay ≠ 0
      then (match s.getInst i with | some x => s.setInst i { x with canAnswer := false } | none => s).sendOffer i none true
      else (match s.getInst i with | some x => s.setInst i { x with canAnswer := false } | none => s)).finish (.offer i, n) t') := by
    intro hcc htry
    obtain ⟨x, hx⟩ := hinst
    rw [hx]
    simp only []
    have hv1 : lview (s.setInst i { x with canAnswer := false }) = lview s := lview_setInst_keep s i x _ hx rfl
    have hx1 : (s.setInst i { x with canAnswer := false }).getInst i = some { x with canAnswer := false } := by
      unfold getInst setInst; simp only []
      have hlt : i < s.instances.length := (List.getElem?_eq_some_iff.mp hx).1
      rw [List.getElem?_set]; simp [hlt]
    generalize s.setInst i { x with canAnswer := false } = X at hv1 hx1
    have hcyc : X.tm.cyclicOfferDelay = (lview s).cyc := congrArg LV.cyc hv1
    have hnow : ∀ Y : Stack, True := fun _ => trivial
    unfold OL
    rw [lview_finish]
    by_cases h0 : X.tm.cyclicOfferDelay = 0
    · rw [if_neg (by simpa using h0), hv1]
      have := LI.cancelHandler hi i n s.loop.now t { t' with pc := .done, waiting := false, sleep := none, cancelled := false } htv
        (hc ▸ hcc) htry rfl
      rw [if_neg (by rw [← hcyc]; simpa using h0)] at this
      exact this
    · rw [if_pos h0, lview_sendOffer_pass X i _ none true hx1 (by simp), hv1]
      have := LI.cancelHandler hi i n X.loop.now t { t' with pc := .done, waiting := false, sleep := none, cancelled := false } htv
        (hc ▸ hcc) htry rfl
      rw [if_pos (by rw [← hcyc]; exact h0)] at this
      exact this
  -- a further offer by the task the instance holds, then the next position
  have hagain : t'.cancelled = false → offeredPc t.pc = true → ∀ (next : Stack → Stack),
      (∀ X : Stack, ∃ t'', lview (next X) = { lview X with tasks := setT (lview X).tasks (.offer i, n) t'' } ∧
        t''.cancelled = t'.cancelled ∧ offeredPc t''.pc = true ∧ (X.tm.cyclicOfferDelay ≠ 0 → t''.pc ≠ .done)) →
      OL (next (s.sendOffer i none false)) := by
    intro hcc hoff next hnext
    obtain ⟨x, hx, hxt⟩ := hown hcc
    have hits := hownv hcc
    obtain ⟨t0, h0, h1, h2, h3⟩ := hi.own i n hits
    rw [htv] at h0; cases h0
    have hv1 := lview_sendOffer_pass s i x none false hx (by simp [hxt])
    obtain ⟨t'', hv2, hc2, hoff2, hd2⟩ := hnext (s.sendOffer i none false)
    unfold OL
    rw [hv2, hv1]
    have hL := LI.logOffer hi i n false s.loop.now hits (Or.inr (by rw [h2]; exact hoff))
    have hcycX : (s.sendOffer i none false).tm.cyclicOfferDelay = (lview s).cyc := by rw [sendOffer_tm]; rfl
    apply LI.updTask hL i n t t'' htv
    · intro _
      refine ⟨hc2.trans hcc, ?_, fun hcy => hd2 (by rw [hcycX]; exact hcy)⟩
      show (oa i ((lview s).log ++ _)).offered = _
      rw [oa_append_self, oaStep_offer_noop _ _ (Or.inr (by rw [h2]; exact hoff)), h2, hoff, hoff2]
    · rw [hc2, hcc, ← hc, hcc]; rfl
  unfold stepOffer
  simp only []
  split
  · -- created: the initial wait
    rename_i hcr
    rw [hpc] at hcr
    split
    · rename_i hcc; exact hfin0 hcc (by rw [hcr]; rfl)
    · rename_i hcc
      have hcc' : t'.cancelled = false := by simpa using hcc
      obtain ⟨t'', hv, hp2, hc2⟩ := lview_sleepFor (s.draw s.tm.initialDelayMin s.tm.initialDelayMax).1 i n t'
        (s.draw s.tm.initialDelayMin s.tm.initialDelayMax).2 .initial
      unfold OL
      rw [hv, lview_draw]
      apply LI.updTask hi i n t t'' htv
      · intro h
        obtain ⟨t0, h0, h1, h2, h3⟩ := hi.own i n h
        rw [htv] at h0; cases h0
        refine ⟨hc2.trans hcc', ?_, fun _ => by rw [hp2]; intro h; cases h⟩
        rw [h2, hcr, hp2]; rfl
      · rw [hp2, hcr]; simp [isTryPc]
  · -- initial: the first offer
    rename_i hin
    rw [hpc] at hin
    split
    · rename_i hcc; exact hfin0 hcc (by rw [hin]; rfl)
    · rename_i hcc
      have hcc' : t'.cancelled = false := by simpa using hcc
      obtain ⟨x, hx, hxt⟩ := hown hcc'
      have hits := hownv hcc'
      have hv1 := lview_sendOffer_pass s i x none false hx (by simp [hxt])
      have htmY : (s.sendOffer i none false).tm = s.tm := sendOffer_tm _ _ _ _
      generalize s.sendOffer i none false = Y at hv1 htmY
      have hitsY : (lview Y).its[i]? = some (some n) := by rw [hv1]; exact hits
      cases hxY : Y.getInst i with
      | none => rw [lview_its, hxY] at hitsY; cases hitsY
      | some x' =>
      simp only []
      have hv2 : lview (Y.setInst i { x' with canAnswer := true }) = lview Y := lview_setInst_keep Y i x' _ hxY rfl
      have htm2 : (Y.setInst i { x' with canAnswer := true }).tm = s.tm := htmY
      generalize Y.setInst i { x' with canAnswer := true } = Z at hv2 htm2
      have hfirst : ∀ (R : Stack) (t'' : TaskSt), lview R = { lview Z with tasks := setT (lview Z).tasks (.offer i, n) t'' } →
          t''.cancelled = false → offeredPc t''.pc = true → ((lview s).cyc ≠ 0 → t''.pc ≠ .done) → OL R := by
        intro R t'' hR h1 h2 h3
        unfold OL
        rw [hR, hv2, hv1]
        exact LI.firstOffer hi i n s.loop.now t t'' hits htv h1 h2 h3
      have hcyc : Z.tm.cyclicOfferDelay = (lview s).cyc := by rw [htm2]; rfl
      split
      · obtain ⟨t'', hv, hp2, hc2⟩ := lview_sleepFor Z i n t' (pow2 0 * Z.tm.repetitionsBaseDelay) (.rep 0)
        exact hfirst _ t'' hv (hc2.trans hcc') (by rw [hp2]; rfl) (fun _ => by rw [hp2]; intro h; cases h)
      · split
        · rename_i h0
          exact hfirst _ _ (lview_finish Z i n t') rfl rfl (fun h => absurd (hcyc ▸ h0) h)
        · obtain ⟨t'', hv, hp2, hc2⟩ := lview_sleepFor Z i n t' Z.tm.cyclicOfferDelay .cyclic
          exact hfirst _ t'' hv (hc2.trans hcc') (by rw [hp2]; rfl) (fun _ => by rw [hp2]; intro h; cases h)
  · -- repetition phase
    rename_i k hrep
    rw [hpc] at hrep
    split
    · rename_i hcc; exact hcancel hcc (by rw [hrep]; rfl)
    · rename_i hcc
      have hcc' : t'.cancelled = false := by simpa using hcc
      apply hagain hcc' (by rw [hrep]; rfl) (fun X => if k + 1 < X.tm.repetitionsMax then X.sleepFor (.offer i, n) t' (pow2 (k + 1) * X.tm.repetitionsBaseDelay) (.rep (k + 1))
              else if X.tm.cyclicOfferDelay = 0 then X.finish (.offer i, n) t' else X.sleepFor (.offer i, n) t' X.tm.cyclicOfferDelay .cyclic)
      intro X
      simp only []
      split
      · obtain ⟨t'', hv, hp2, hc2⟩ := lview_sleepFor X i n t' (pow2 (k + 1) * X.tm.repetitionsBaseDelay) (.rep (k + 1))
        exact ⟨t'', hv, hc2, by rw [hp2]; rfl, fun _ => by rw [hp2]; intro h; cases h⟩
      · split
        · rename_i h0
          exact ⟨({ t' with pc := .done, waiting := false, sleep := none, cancelled := false } : TaskSt), lview_finish X i n t', hcc'.symm, rfl,
            fun h => absurd h0 h⟩
        · obtain ⟨t'', hv, hp2, hc2⟩ := lview_sleepFor X i n t' X.tm.cyclicOfferDelay .cyclic
          exact ⟨t'', hv, hc2, by rw [hp2]; rfl, fun _ => by rw [hp2]; intro h; cases h⟩
  · -- cyclic phase
    rename_i hcy
    rw [hpc] at hcy
    split
    · rename_i hcc; exact hcancel hcc (by rw [hcy]; rfl)
    · rename_i hcc
      have hcc' : t'.cancelled = false := by simpa using hcc
      apply hagain hcc' (by rw [hcy]; rfl) (fun X => X.sleepFor (.offer i, n) t' s.tm.cyclicOfferDelay .cyclic)
      intro X
      obtain ⟨t'', hv, hp2, hc2⟩ := lview_sleepFor X i n t' s.tm.cyclicOfferDelay .cyclic
      exact ⟨t'', hv, hc2, by rw [hp2]; rfl, fun _ => by rw [hp2]; intro h; cases h⟩
  · exact hi

/-! ### `ServiceInstance.start` / `stop` -/

theorem lview_createTask_offer (s : Stack) (i : Nat) :
    lview (s.createTask (.offer i)).1 =
      { lview s with tasks := (lview s).tasks ++ [((.offer i, ocount (otasks s) i), ({} : TaskSt))] } := by
  have hcnt : s.taskCount (.offer i) = ocount (otasks s) i := ocount_eq_taskCount s i
  unfold lview
  simp [otasks, createTask, callSoon, List.filter_append, isOfferT, isOfferK]
  rw [hcnt]; rfl

theorem ol_instStart (s : Stack) (i : Nat) (hi : OL s) (ho : OffInv s) : OL (s.instStart i) := by
  unfold instStart
  split
  · exact hi
  · rename_i x hx
    split
    · exact ol_frame (opi_emit _ _) (base_emit _ _) (lgi_emit _ _) hi
    · rename_i hnone
      have hxt : x.task = none := by cases h : x.task <;> simp_all
      have hits : (lview s).its[i]? = some none := by rw [its_getInst hx, hxt]
      -- the new task number is fresh
      have hfresh : ∀ p ∈ (lview s).tasks, p.1 ≠ (TaskKind.offer i, ocount (otasks s) i) := by
        intro p hp e
        have := ho.keys p hp i (by rw [e])
        rw [e] at this; exact Nat.lt_irrefl _ this
      have hL := LI.start hi i (ocount (otasks s) i) s.loop.now hits hfresh
      -- the view of the result
      generalize hs1 : (s.logOffer i .start).setInst i { x with canAnswer := false } = s1
      have hv1 : lview s1 = { lview s with log := (lview s).log ++ [(i, .start, s.loop.now)] } := by
        rw [← hs1, lview_setInst_keep (s.logOffer i .start) i x { x with canAnswer := false } hx rfl, lview_logOffer]
      have hx1 : s1.getInst i = some { x with canAnswer := false } := by
        rw [← hs1]; unfold getInst setInst; simp only []
        have hlt : i < (s.logOffer i .start).instances.length := (List.getElem?_eq_some_iff.mp hx).1
        rw [List.getElem?_set]; simp [hlt]
      have hx2 : (s1.createTask (.offer i)).1.getInst i = some { x with canAnswer := false } := hx1
      have ho1 : otasks s1 = otasks s := by rw [← hs1]; rfl
      have hn : (s1.createTask (.offer i)).2 = ocount (otasks s) i := by
        rw [← ho1]; exact ocount_eq_taskCount s1 i
      simp only []
      rw [hx2]
      simp only []
      unfold OL
      rw [lview_setInst, lview_createTask_offer, hv1, ho1, hn]
      exact hL

theorem otask_cancelTask_view (s : Stack) (i n : Nat) (t : TaskSt) (ht : otask s i n = some t) :
    (t.pc = .done ∧ lview (s.cancelTask (.offer i, n)) = lview s) ∨
    (t.pc ≠ .done ∧ ∃ t'', lview (s.cancelTask (.offer i, n)) = { lview s with tasks := setT (lview s).tasks (.offer i, n) t'' } ∧
        t''.cancelled = true ∧ t''.pc = t.pc) := by
  unfold cancelTask
  rw [getTask_offer, ht]
  simp only []
  by_cases hd : t.pc = .done
  · left; rw [if_pos hd]; exact ⟨hd, rfl⟩
  · right; rw [if_neg hd]
    refine ⟨hd, ?_⟩
    split
    · exact ⟨{ t with waiting := false, cancelled := true }, by rw [lview_callSoon, lview_setTask], rfl, rfl⟩
    · exact ⟨{ t with cancelled := true }, by rw [lview_setTask], rfl, rfl⟩

theorem ol_instStop (s : Stack) (i : Nat) (hi : OL s) (ho : OffInv s) : OL (s.instStop i) := by
  unfold instStop
  split
  · exact hi
  · rename_i x hx
    split
    · exact ol_frame (opi_emit _ _) (base_emit _ _) (lgi_emit _ _) hi
    · rename_i n hn
      simp only []
      apply ol_frame (opi_subsStopAll _ _) (base_subsStopAll _ _) (lgi_subsStopAll _ _)
      have hits : (lview s).its[i]? = some (some n) := by rw [its_getInst hx, hn]
      obtain ⟨t, ht, _, _, _⟩ := hi.own i n hits
      have htL : otask (s.logOffer i .stop) i n = some t := ht
      have hcases := otask_cancelTask_view (s.logOffer i .stop) i n t htL
      have hinstC : ((s.logOffer i .stop).cancelTask (.offer i, n)).instances = s.instances := by
        unfold cancelTask; split; rfl; split; rfl; split <;> rfl
      have htmC : ((s.logOffer i .stop).cancelTask (.offer i, n)).tm = s.tm := by
        unfold cancelTask; split; rfl; split; rfl; split <;> rfl
      have hnowC : ((s.logOffer i .stop).cancelTask (.offer i, n)).loop.now = s.loop.now := by
        unfold cancelTask; split; rfl; split; rfl; split <;> rfl
      generalize hC : (s.logOffer i .stop).cancelTask (.offer i, n) = C at hcases hinstC htmC hnowC
      -- the instance lets go of the task
      have hxC : C.getInst i = some x := by unfold getInst; rw [hinstC]; exact hx
      have hvS : lview (C.setInst i { x with task := none, canAnswer := false }) = { lview C with its := (lview C).its.set i none } :=
        lview_setInst C i _
      have hxS : (C.setInst i { x with task := none, canAnswer := false }).getInst i = some { x with task := none, canAnswer := false } := by
        unfold getInst setInst; simp only []
        have hlt : i < C.instances.length := (List.getElem?_eq_some_iff.mp hxC).1
        rw [List.getElem?_set]; simp [hlt]
      have htmS : (C.setInst i { x with task := none, canAnswer := false }).tm = s.tm := htmC
      have hnowS : (C.setInst i { x with task := none, canAnswer := false }).loop.now = s.loop.now := hnowC
      generalize C.setInst i { x with task := none, canAnswer := false } = S at hvS hxS htmS hnowS
      -- what `LI.stop` needs about the tasks after the cancellation
      have htasks : (t.pc = .done ∧ (lview C).tasks = (lview s).tasks) ∨
          (t.pc ≠ .done ∧ ∃ t'', (lview C).tasks = setT (lview s).tasks (.offer i, n) t'' ∧ t''.cancelled = true ∧ t''.pc = t.pc) := by
        rcases hcases with ⟨h1, h2⟩ | ⟨h1, t'', h2, h3, h4⟩
        · left; exact ⟨h1, by rw [h2]; rfl⟩
        · right; exact ⟨h1, t'', by rw [h2]; rfl, h3, h4⟩
      have hCv : (lview C).log = (lview s).log ++ [(i, .stop, s.loop.now)] ∧ (lview C).cyc = (lview s).cyc ∧ (lview C).its = (lview s).its := by
        rcases hcases with ⟨_, h2⟩ | ⟨_, t'', h2, _, _⟩ <;> (rw [h2]; exact ⟨rfl, rfl, rfl⟩)
      have hL := LI.stop hi i n s.loop.now t hits ht (lview C).tasks htasks
      have hcycS : S.tm.cyclicOfferDelay = (lview s).cyc := by rw [htmS]; rfl
      unfold OL
      by_cases h0 : S.tm.cyclicOfferDelay = 0
      · rw [if_pos h0, lview_sendOffer_pass S i _ none true hxS (by simp), hvS, hnowS]
        rw [if_pos (hcycS ▸ h0)] at hL
        obtain ⟨e1, e2, e3⟩ := hCv
        have : ({ log := ({ lview C with its := (lview C).its.set i none } : LV).log ++ [(i, if true = true then OEv.stopOffer else OEv.offer (none : Dest).isSome, s.loop.now)],
                  cyc := (lview C).cyc, its := (lview C).its.set i none, tasks := (lview C).tasks } : LV) =
            { lview s with log := ((lview s).log ++ [(i, .stop, s.loop.now)]) ++ [(i, .stopOffer, s.loop.now)],
                           its := (lview s).its.set i none, tasks := (lview C).tasks } := by
          simp only [e1, e2, e3, if_true]
        exact this ▸ hL
      · rw [if_neg h0, hvS]
        rw [if_neg (hcycS ▸ h0), List.append_nil] at hL
        obtain ⟨e1, e2, e3⟩ := hCv
        have : ({ lview C with its := (lview C).its.set i none } : LV) =
            { lview s with log := (lview s).log ++ [(i, .stop, s.loop.now)], its := (lview s).its.set i none, tasks := (lview C).tasks } := by
          cases hv : lview C
          simp only [hv] at e1 e2 e3 ⊢
          simp only [e1, e2, e3]
        rw [this]; exact hL

/-! ### the pair (OffInv, OL) through the announcer, inputs, callbacks and loop steps -/

def OLP (s : Stack) : Prop := OffInv s ∧ OL s

theorem olp_frame {s s' : Stack} (h1 : opi s' = opi s) (h2 : base s' = base s) (h3 : lgi s' = lgi s) (hi : OLP s) : OLP s' :=
  ⟨offinv_frame h1 hi.1, ol_frame h1 h2 h3 hi.2⟩

theorem olp_frame_tm {s s' : Stack} (h1 : opi s' = opi s) (h2 : s'.tm = s.tm) (h3 : lgi s' = lgi s) (hi : OLP s) : OLP s' :=
  ⟨offinv_frame h1 hi.1, by unfold OL; rw [lview_of_frame_tm h1 h2 h3]; exact hi.2⟩

theorem olp_foldl {α : Type} (f : Stack → α → Stack) (h : ∀ s a, OLP s → OLP (f s a)) (l : List α) (s : Stack)
    (hi : OLP s) : OLP (l.foldl f s) := by
  induction l generalizing s with
  | nil => exact hi
  | cons a t ih => rw [List.foldl_cons]; exact ih _ (h s a hi)

theorem olp_instStart (s : Stack) (i : Nat) (hi : OLP s) : OLP (s.instStart i) := ⟨offinv_instStart s i hi.1, ol_instStart s i hi.2 hi.1⟩
theorem olp_instStop (s : Stack) (i : Nat) (hi : OLP s) : OLP (s.instStop i) := ⟨offinv_instStop s i hi.1, ol_instStop s i hi.2 hi.1⟩

theorem olp_announcerStart (s : Stack) (hi : OLP s) : OLP s.announcerStart := by
  unfold announcerStart; simp only []
  exact olp_frame (opi_with_started _ _) (base_with_started _ _) rfl (olp_foldl _ (fun s i h => olp_instStart s i h) _ _ hi)

theorem olp_announcerStop (s : Stack) (hi : OLP s) : OLP s.announcerStop := by
  unfold announcerStop
  split
  · exact hi
  · show OLP { (List.foldl (fun s i => s.instStop i) s s.announceOrder) with started := false }
    exact olp_frame (opi_with_started _ _) (base_with_started _ _) rfl (olp_foldl _ (fun s i h => olp_instStop s i h) _ _ hi)

theorem olp_announceService (s : Stack) (i : Nat) (hi : OLP s) : OLP (s.announceService i) := by
  unfold announceService; simp only []
  apply olp_frame (opi_with_announceOrder _ _) (base_with_announceOrder _ _) rfl
  split
  · exact olp_instStart s i hi
  · exact hi

theorem olp_stopAnnounceService (s : Stack) (i : Nat) (b : Bool) (hi : OLP s) : OLP (s.stopAnnounceService i b) := by
  unfold stopAnnounceService
  split
  · exact olp_frame (opi_emit _ _) (base_emit _ _) (lgi_emit _ _) hi
  · simp only []
    split
    · exact olp_instStop _ _ (olp_frame (opi_with_announceOrder _ _) (base_with_announceOrder _ _) rfl hi)
    · exact olp_frame (opi_with_announceOrder _ _) (base_with_announceOrder _ _) rfl hi

theorem olp_applyInput (s : Stack) (x : Input) (hi : OLP s) : OLP (s.applyInput x) := by
  cases x with
  | dgram a mc b => exact olp_frame (opi_datagramReceived s b a mc) (base_datagramReceived s b a mc) (lgi_datagramReceived s b a mc) hi
  | start =>
    show OLP (((s.subscriberStart).announcerStart).discoveryStart)
    exact olp_frame (opi_discoveryStart _) (base_discoveryStart _) (lgi_discoveryStart _)
      (olp_announcerStart _ (olp_frame (opi_subscriberStart _) (base_subscriberStart _) (lgi_subscriberStart _) hi))
  | stop =>
    show OLP (((s.discoveryStop).announcerStop).subscriberStop true)
    exact olp_frame (opi_subscriberStop _ _) (base_subscriberStop _ _) (lgi_subscriberStop _ _)
      (olp_announcerStop _ (olp_frame (opi_discoveryStop _) (base_discoveryStop _) (lgi_discoveryStop _) hi))
  | connLost => exact olp_frame (opi_connectionLost s) (base_connectionLost s) (lgi_connectionLost s) hi
  | watch f l => exact olp_frame (opi_watchService s f l) (base_watchService s f l) (lgi_watchService s f l) hi
  | unwatch f l => exact olp_frame (opi_stopWatchService s f l) (base_stopWatchService s f l) (lgi_stopWatchService s f l) hi
  | watchAll id => exact olp_frame (opi_watchAllServices s id) (base_watchAllServices s id) (lgi_watchAllServices s id) hi
  | unwatchAll id => exact olp_frame (opi_stopWatchAllServices s id) (base_stopWatchAllServices s id) (lgi_stopWatchAllServices s id) hi
  | subscribe g d => exact olp_frame (opi_subscribeEventgroup s g d) (base_subscribeEventgroup s g d) (lgi_subscribeEventgroup s g d) hi
  | stopSubscribe g d => exact olp_frame (opi_stopSubscribeEventgroup s g d true) (base_stopSubscribeEventgroup s g d true) (lgi_stopSubscribeEventgroup s g d true) hi
  | announce i => exact olp_announceService s i hi
  | stopAnnounce i b => exact olp_stopAnnounceService s i b hi
  | setNak i egs =>
    simp only [applyInput]
    split
    · rename_i x hx
      exact olp_frame (by refine opi_setInst_keep s i x _ hx ?_ ?_ <;> rfl) (base_setInst _ _ _) (lgi_setInst _ _ _) hi
    · exact hi
  | draws ds => exact olp_frame (s := s) (s' := { s with draws := s.draws ++ ds }) rfl rfl rfl hi
  | announcerStop => exact olp_announcerStop s hi
  | announcerStart => exact olp_announcerStart s hi

theorem olp_runCb (s : Stack) (cb : Cb) (hi : OLP s) : OLP (s.runCb cb) := by
  cases cb with
  | connLost p =>
    cases p with
    | subscriber => exact olp_frame (opi_subscriberStop s false) (base_subscriberStop s false) (lgi_subscriberStop s false) hi
    | discovery => exact olp_frame (opi_foundStopAll s) (base_foundStopAll s) (lgi_foundStopAll s) hi
    | announcer => exact olp_announcerStop s hi
  | expiredSvc a k => exact olp_frame (opi_expiredSvc s a k) (base_expiredSvc s a k) (lgi_expiredSvc s a k) hi
  | expiredSub i a k => exact olp_frame (opi_expiredSub s i a k) (base_expiredSub s i a k) (lgi_expiredSub s i a k) hi
  | sendStartSubscribe d egs => exact olp_frame (opi_sendSubscribe s _ d egs) (base_sendSubscribe s _ d egs) (lgi_sendSubscribe s _ d egs) hi
  | sendStopSubscribe d egs => exact olp_frame (opi_sendSubscribe s _ d egs) (base_sendSubscribe s _ d egs) (lgi_sendSubscribe s _ d egs) hi
  | sendOfferTo i a => exact ⟨offinv_frame (opi_sendOffer s i _ _) hi.1, ol_sendOffer_remote s i a hi.2⟩
  | collectorTimeout cid => exact olp_frame (opi_collectorTimeout s cid) (base_collectorTimeout s cid) (lgi_collectorTimeout s cid) hi
  | sleepDone tid =>
    obtain ⟨k, n⟩ := tid
    cases k with
    | offer i => exact ⟨offinv_sleepDone s i n hi.1, ol_sleepDone s i n hi.2⟩
    | find => exact olp_frame (opi_sleepDone s _ rfl) (base_sleepDone s _) (lgi_sleepDone s _) hi
    | subscribe => exact olp_frame (opi_sleepDone s _ rfl) (base_sleepDone s _) (lgi_sleepDone s _) hi
  | taskStep tid =>
    obtain ⟨k, n⟩ := tid
    cases k with
    | offer i =>
      refine ⟨offinv_runCb s _ hi.1, ?_⟩
      simp only [runCb]
      rw [getTask_offer]
      cases ht : otask s i n with
      | none => exact hi.2
      | some t =>
        simp only []
        split
        · exact hi.2
        · rename_i hnd
          have e1 := opi_cancelTimer s (isSleepFor (.offer i, n)) t.sleep
          have e2 := base_cancelTimer s (isSleepFor (.offer i, n)) t.sleep
          have e3 := lgi_cancelTimer s (isSleepFor (.offer i, n)) t.sleep
          exact ol_stepOffer _ i n t _ (ol_frame e1 e2 e3 hi.2) (offinv_frame e1 hi.1) ((otask_of_opi e1 i n).trans ht) rfl rfl hnd
    | find =>
      simp only [runCb]
      split
      · exact hi
      · split
        · exact hi
        · exact olp_frame ((opi_stepFind _ _ _ rfl).trans (opi_cancelTimer _ _ _)) ((base_stepFind _ _ _).trans (base_cancelTimer _ _ _))
            ((lgi_stepFind _ _ _).trans (lgi_cancelTimer _ _ _)) hi
    | subscribe =>
      simp only [runCb]
      split
      · exact hi
      · split
        · exact hi
        · exact olp_frame ((opi_stepSubscribe _ _ _ rfl).trans (opi_cancelTimer _ _ _)) ((base_stepSubscribe _ _ _).trans (base_cancelTimer _ _ _))
            ((lgi_stepSubscribe _ _ _).trans (lgi_cancelTimer _ _ _)) hi

theorem olp_step (s s' : Stack) (e : Event) (h : s.step e = some s') (hi : OLP s) : OLP s' := by
  cases e with
  | input x => simp only [step, Option.some.injEq] at h; subst h; exact olp_applyInput s x hi
  | run =>
    simp only [step, Loop.pop] at h
    cases hr : s.loop.ready with
    | nil => rw [hr] at h; cases h
    | cons r rest =>
      rw [hr] at h
      simp only [Option.some.injEq] at h
      subst h
      exact olp_runCb _ _ (olp_frame (s := s) rfl rfl rfl hi)
  | fire q =>
    simp only [step] at h
    cases hf : s.loop.fire q with
    | none => rw [hf] at h; cases h
    | some l => rw [hf] at h; simp at h; subst h; exact olp_frame_tm (s := s) rfl rfl rfl hi
  | adv t =>
    simp only [step] at h
    cases hf : s.loop.adv t with
    | none => rw [hf] at h; cases h
    | some l => rw [hf] at h; simp at h; subst h; exact olp_frame_tm (s := s) rfl rfl rfl hi

end Stack
end Someip
