/-
  Frame lemmas for the ghost marks of the find task (`findMarks`): appended to only by `ServiceDiscover.start` (task creation)
  and by the round steps of the find task.  Generated from the scripts of Frame.lean.
-/
import SomeipModel.Lemmas.Frame
namespace Someip
namespace Stack
set_option linter.unusedSimpArgs false

def fmi (s : Stack) : List (Nat × Nat) := s.findMarks

@[simp] theorem fmi_with_found (s : Stack) (x : TStore SvcKey) : fmi { s with found := x } = fmi s := rfl
@[simp] theorem fmi_with_watched (s : Stack) (x : List (Service × List Listener)) : fmi { s with watched := x } = fmi s := rfl
@[simp] theorem fmi_with_watchAll (s : Stack) (x : List LId) : fmi { s with watchAll := x } = fmi s := rfl
@[simp] theorem fmi_with_alive (s : Stack) (x : Bool) : fmi { s with alive := x } = fmi s := rfl
@[simp] theorem fmi_with_subTask (s : Stack) (x : Option Nat) : fmi { s with subTask := x } = fmi s := rfl
@[simp] theorem fmi_with_findTask (s : Stack) (x : Option Nat) : fmi { s with findTask := x } = fmi s := rfl
@[simp] theorem fmi_with_subEntries (s : Stack) (x : List (Eventgroup × Addr)) : fmi { s with subEntries := x } = fmi s := rfl
@[simp] theorem fmi_with_started (s : Stack) (x : Bool) : fmi { s with started := x } = fmi s := rfl
@[simp] theorem fmi_with_announceOrder (s : Stack) (x : List Nat) : fmi { s with announceOrder := x } = fmi s := rfl
@[simp] theorem fmi_with_incoming (s : Stack) (x : Incoming) : fmi { s with incoming := x } = fmi s := rfl
@[simp] theorem fmi_with_draws (s : Stack) (x : List Nat) : fmi { s with draws := x } = fmi s := rfl

@[simp] theorem fmi_emit (s : Stack) (o : Out) : fmi (s.emit o) = fmi s := rfl
@[simp] theorem fmi_callSoon (s : Stack) (cb : Cb) : fmi (s.callSoon cb) = fmi s := rfl
@[simp] theorem fmi_callLater (s : Stack) (d : Nat) (cb : Cb) : fmi (s.callLater d cb).1 = fmi s := rfl
@[simp] theorem fmi_cancelTimer (s : Stack) (own : Cb → Bool) (t : Option Nat) : fmi (s.cancelTimer own t) = fmi s := by
  cases t <;> rfl
@[simp] theorem fmi_draw (s : Stack) (a b : Nat) : fmi (s.draw a b).1 = fmi s := by
  unfold draw; split <;> rfl
@[simp] theorem fmi_armTtl (s : Stack) (ttl : Nat) (cb : Cb) : fmi (s.armTtl ttl cb).1 = fmi s := by
  unfold armTtl; split <;> rfl
@[simp] theorem fmi_setInst (s : Stack) (i : Nat) (x : Instance) : fmi (s.setInst i x) = fmi s := rfl
@[simp] theorem fmi_setTask (s : Stack) (i : Tid) (x : TaskSt) : fmi (s.setTask i x) = fmi s := rfl

@[simp] theorem fmi_sendSd (s : Stack) (es : List SDEntry) (d : Dest) : fmi (s.sendSd es d) = fmi s := by
  unfold sendSd; split; rfl; simp only []; split; rfl; split <;> rfl

@[simp] theorem fmi_with_flushLog (s : Stack) (x : List (Dest × List SDEntry)) : fmi { s with flushLog := x } = fmi s := rfl
@[simp] theorem fmi_with_refreshLog (s : Stack) (x : List (Addr × SvcKey × Nat × Nat)) : fmi { s with refreshLog := x } = fmi s := rfl
@[simp] theorem fmi_with_armLog (s : Stack) (x : List (Cb × Nat × Nat)) : fmi { s with armLog := x } = fmi s := rfl
@[simp] theorem fmi_with_subMarks (s : Stack) (x : List (Option Nat × Nat)) : fmi { s with subMarks := x } = fmi s := rfl
@[simp] theorem fmi_markRound (s : Stack) (n : Nat) : fmi (s.markRound n) = fmi s := rfl
@[simp] theorem fmi_with_found_refreshLog (s : Stack) (x : TStore SvcKey) (y : List (Addr × SvcKey × Nat × Nat)) : fmi { s with found := x, refreshLog := y } = fmi s := rfl
@[simp] theorem fmi_with_subLog (s : Stack) (x : List (Addr × Nat × List Eventgroup)) : fmi { s with subLog := x } = fmi s := rfl
@[simp] theorem fmi_with_findLog (s : Stack) (x : List (Nat × Nat)) : fmi { s with findLog := x } = fmi s := rfl
@[simp] theorem fmi_with_ansLog (s : Stack) (x : List (Nat × Addr × Nat × Nat)) : fmi { s with ansLog := x } = fmi s := rfl
@[simp] theorem fmi_with_lisLog (s : Stack) (x : List (LId × Bool × SvcKey × Addr)) : fmi { s with lisLog := x } = fmi s := rfl
@[simp] theorem fmi_logLis (s : Stack) (id : LId) (o : Bool) (k : SvcKey) (a : Addr) : fmi (s.logLis id o k a) = fmi s := rfl
@[simp] theorem fmi_with_lisDup (s : Stack) (x : Bool) : fmi { s with lisDup := x } = fmi s := rfl
@[simp] theorem fmi_markDup (s : Stack) (d : Bool) : fmi (s.markDup d) = fmi s := rfl
@[simp] theorem fmi_logAnswer (s : Stack) (i : Nat) (a : Addr) (d : Nat) : fmi (s.logAnswer i a d) = fmi s := rfl
@[simp] theorem fmi_with_offLog (s : Stack) (x : List (Nat × OEv × Nat)) : fmi { s with offLog := x } = fmi s := rfl
@[simp] theorem fmi_logOffer (s : Stack) (i : Nat) (e : OEv) : fmi (s.logOffer i e) = fmi s := rfl
@[simp] theorem fmi_with_subDup (s : Stack) (x : Bool) : fmi { s with subDup := x } = fmi s := rfl
@[simp] theorem fmi_with_subLost (s : Stack) (x : Bool) : fmi { s with subLost := x } = fmi s := rfl
@[simp] theorem fmi_with_alive_subLost (s : Stack) (x y : Bool) : fmi { s with alive := x, subLost := y } = fmi s := rfl
@[simp] theorem fmi_with_subDup_subEntries (s : Stack) (x : Bool) (y : List (Eventgroup × Addr)) : fmi { s with subDup := x, subEntries := y } = fmi s := rfl
@[simp] theorem fmi_flushTo (s : Stack) (es : List SDEntry) (d : Dest) : fmi (s.flushTo es d) = fmi s := by
  unfold flushTo; rw [fmi_sendSd]; rfl

@[simp] theorem fmi_newCollector (s : Stack) (d : Dest) : fmi (s.newCollector d).1 = fmi s := rfl
@[simp] theorem fmi_appendCollector (s : Stack) (c : Nat) (e : SDEntry) : fmi (s.appendCollector c e) = fmi s := rfl

@[simp] theorem fmi_queueSend (s : Stack) (e : SDEntry) (d : Dest) : fmi (s.queueSend e d) = fmi s := by
  unfold queueSend; simp only []; split
  · simp
  · split
    · split <;> simp
    · simp

@[simp] theorem fmi_collectorTimeout (s : Stack) (c : Nat) : fmi (s.collectorTimeout c) = fmi s := by
  unfold collectorTimeout; split; rfl; simp only []; rw [fmi_flushTo]; rfl

@[simp] theorem fmi_createTask (s : Stack) (k : TaskKind) : fmi (s.createTask k).1 = fmi s := rfl
@[simp] theorem fmi_cancelTask (s : Stack) (t : Tid) : fmi (s.cancelTask t) = fmi s := by
  unfold cancelTask; split; rfl; split; rfl; split <;> simp
@[simp] theorem fmi_sleepFor (s : Stack) (tid : Tid) (t : TaskSt) (d : Nat) (pc : Pc) : fmi (s.sleepFor tid t d pc) = fmi s := by
  unfold sleepFor; split <;> simp
@[simp] theorem fmi_finish (s : Stack) (tid : Tid) (t : TaskSt) : fmi (s.finish tid t) = fmi s := rfl
@[simp] theorem fmi_sleepDone (s : Stack) (tid : Tid) : fmi (s.sleepDone tid) = fmi s := by
  unfold sleepDone; split; rfl; split <;> simp

@[simp] theorem fmi_sendOffer (s : Stack) (i : Nat) (r : Dest) (b : Bool) : fmi (s.sendOffer i r b) = fmi s := by
  unfold sendOffer; split; rfl; split; rfl; simp

@[simp] theorem fmi_stepOffer (s : Stack) (tid : Tid) (t : TaskSt) (i : Nat) : fmi (s.stepOffer tid t i) = fmi s := by
  unfold stepOffer
  simp only []
  split
  · split <;> simp
  · split
    · simp
    · (repeat' split) <;> simp
  · split
    · (repeat' split) <;> simp
    · (repeat' split) <;> simp
  · split
    · (repeat' split) <;> simp
    · simp
  · rfl

@[simp] theorem fmi_instStart (s : Stack) (i : Nat) : fmi (s.instStart i) = fmi s := by
  unfold instStart; split; rfl; split; simp; simp only []; split <;> simp

@[simp] theorem fmi_subsStopAllFor (s : Stack) (i : Nat) (a : Addr) : fmi (s.subsStopAllFor i a) = fmi s := by
  unfold subsStopAllFor; split; rfl
  simp only []
  rw [foldl_pres fmi _ (fun s e => by simp)]; rfl

@[simp] theorem fmi_subsStopAll (s : Stack) (i : Nat) : fmi (s.subsStopAll i) = fmi s := by
  unfold subsStopAll; split; rfl
  simp only []
  split
  · simp only [fmi_setInst]; rw [foldl_pres fmi _ (fun s e => by simp)]
  · rw [foldl_pres fmi _ (fun s e => by simp)]

@[simp] theorem fmi_instStop (s : Stack) (i : Nat) : fmi (s.instStop i) = fmi s := by
  unfold instStop; split; rfl; split; simp; simp only []; split <;> simp

@[simp] theorem fmi_instHandleSubscribe (s : Stack) (i : Nat) (e : SDEntry) (a : Addr) :
    fmi (s.instHandleSubscribe i e a).1 = fmi s := by
  unfold instHandleSubscribe
  frame_cases

@[simp] theorem fmi_handleSubscribe (s : Stack) (e : SDEntry) (a : Addr) : fmi (s.handleSubscribe e a) = fmi s := by
  unfold handleSubscribe
  simp only []
  have key : ∀ (l : List Nat) (acc : Stack × Bool),
      fmi (l.foldl (fun (acc : Stack × Bool) i => ((acc.1.instHandleSubscribe i e a).1, acc.2 || (acc.1.instHandleSubscribe i e a).2)) acc).1 = fmi acc.1 := by
    intro l; induction l with
    | nil => intro acc; rfl
    | cons x t ih => intro acc; rw [List.foldl_cons, ih]; simp
  split
  · exact key _ _
  · rw [fmi_queueSend]; exact key _ _

@[simp] theorem fmi_handleFind (s : Stack) (e : SDEntry) (a : Addr) (mc : Bool) : fmi (s.handleFind e a mc) = fmi s := by
  unfold handleFind; simp only []
  split; rfl
  split
  · rw [foldl_pres fmi _ (fun s i => by simp)]; simp
  · rw [foldl_pres fmi _ (fun s i => by simp)]

@[simp] theorem fmi_expiredSub (s : Stack) (i : Nat) (a : Addr) (k : SubKey) : fmi (s.expiredSub i a k) = fmi s := by
  unfold expiredSub; split; rfl; simp only []; split <;> simp

@[simp] theorem fmi_announcerStart (s : Stack) : fmi s.announcerStart = fmi s := by
  unfold announcerStart; simp only []
  show fmi (List.foldl (fun s i => s.instStart i) s s.announceOrder) = fmi s
  rw [foldl_pres fmi _ (fun s i => by simp)]

@[simp] theorem fmi_announcerStop (s : Stack) : fmi s.announcerStop = fmi s := by
  unfold announcerStop; split; rfl
  show fmi (List.foldl (fun s i => s.instStop i) s s.announceOrder) = fmi s
  rw [foldl_pres fmi _ (fun s i => by simp)]

@[simp] theorem fmi_announcerReboot (s : Stack) (a : Addr) : fmi (s.announcerReboot a) = fmi s := by
  unfold announcerReboot; rw [foldl_pres fmi _ (fun s i => by simp)]

@[simp] theorem fmi_announceService (s : Stack) (i : Nat) : fmi (s.announceService i) = fmi s := by
  unfold announceService; simp only []; split
  · show fmi (s.instStart i) = fmi s; simp
  · rfl

@[simp] theorem fmi_stopAnnounceService (s : Stack) (i : Nat) (b : Bool) : fmi (s.stopAnnounceService i b) = fmi s := by
  unfold stopAnnounceService; split; simp; simp only []; split
  · rw [fmi_instStop]; rfl
  · rfl

@[simp] theorem fmi_sendSubscribe (s : Stack) (ttl : Nat) (d : Addr) (egs : List Eventgroup) :
    fmi (s.sendSubscribe ttl d egs) = fmi s := by simp [sendSubscribe]

@[simp] theorem fmi_subscribeEventgroup (s : Stack) (g : Eventgroup) (d : Addr) : fmi (s.subscribeEventgroup g d) = fmi s := by
  unfold subscribeEventgroup; simp only []; split <;> rfl

@[simp] theorem fmi_stopSubscribeEventgroup (s : Stack) (g : Eventgroup) (d : Addr) (b : Bool) :
    fmi (s.stopSubscribeEventgroup g d b) = fmi s := by
  unfold stopSubscribeEventgroup; split
  · simp only []; split <;> rfl
  · rfl

@[simp] theorem fmi_subscriberStart (s : Stack) : fmi s.subscriberStart = fmi s := by
  unfold subscriberStart; split <;> rfl

@[simp] theorem fmi_subscriberStop (s : Stack) (b : Bool) : fmi (s.subscriberStop b) = fmi s := by
  unfold subscriberStop; split; rfl
  simp only []
  have h1 : fmi (match ({ s with alive := false, subLost := !b } : Stack).subTask with
      | some tid => { ({ s with alive := false, subLost := !b } : Stack).cancelTask (.subscribe, tid) with subTask := none }
      | none => ({ s with alive := false, subLost := !b } : Stack)) = fmi s := by
    split
    · show fmi (({ s with alive := false, subLost := !b } : Stack).cancelTask _) = fmi s; rw [fmi_cancelTask]; rfl
    · rfl
  split
  · rw [foldl_pres fmi _ (fun s p => by simp)]; exact h1
  · exact h1

@[simp] theorem fmi_stepSubscribe (s : Stack) (tid : Tid) (t : TaskSt) : fmi (s.stepSubscribe tid t) = fmi s := by
  unfold stepSubscribe
  simp only []
  have key : ∀ st : Stack, fmi (List.foldl (fun s p => s.sendSubscribe s.tm.subscribeTtl p.1 p.2) st (groupEntries st.subEntries)) = fmi st :=
    fun st => foldl_pres fmi _ (fun s p => by simp) _ _
  split
  · split; simp; split <;> simp [key]
  · split; simp; split <;> simp [key]
  · rfl

@[simp] theorem fmi_listenerOffered (s : Stack) (l : Listener) (k : SvcKey) (a : Addr) : fmi (s.listenerOffered l k a) = fmi s := by
  unfold listenerOffered; frame_cases
@[simp] theorem fmi_listenerStopped (s : Stack) (l : Listener) (k : SvcKey) (a : Addr) : fmi (s.listenerStopped l k a) = fmi s := by
  unfold listenerStopped; frame_cases

@[simp] theorem fmi_notifyService (s : Stack) (b : Bool) (k : SvcKey) (a : Addr) : fmi (s.notifyService b k a) = fmi s := by
  unfold notifyService
  simp only []
  have hf : ∀ (s : Stack) (l : Listener), fmi (if b = true then s.listenerOffered l k a else s.listenerStopped l k a) = fmi s := by
    intro s l; split <;> simp
  rw [foldl_pres fmi _ (fun s id => hf s _)]
  rw [foldl_pres fmi _ (fun s p => by
    split
    · rw [foldl_pres fmi _ (fun s l => hf s l)]
    · rfl)]
  rfl

@[simp] theorem fmi_foundStop (s : Stack) (a : Addr) (k : SvcKey) : fmi (s.foundStop a k) = fmi s := by
  unfold foundStop; frame_cases

@[simp] theorem fmi_foundRefresh (s : Stack) (ttl : Nat) (a : Addr) (k : SvcKey) : fmi (s.foundRefresh ttl a k) = fmi s := by
  unfold foundRefresh
  simp only [fmi_with_found_refreshLog, fmi_armTtl]
  split <;> simp

@[simp] theorem fmi_handleOffer (s : Stack) (e : SDEntry) (a : Addr) : fmi (s.handleOffer e a) = fmi s := by
  unfold handleOffer; frame_cases

@[simp] theorem fmi_foundStopAllFor (s : Stack) (a : Addr) : fmi (s.foundStopAllFor a) = fmi s := by
  unfold foundStopAllFor; simp only []
  rw [foldl_pres fmi _ (fun s e => by simp)]; rfl

@[simp] theorem fmi_foundStopAll (s : Stack) : fmi s.foundStopAll = fmi s := by
  unfold foundStopAll; simp only []
  show fmi (List.foldl (fun s p => s.foundStopAllFor p.1) s s.found) = fmi s
  rw [foldl_pres fmi _ (fun s e => by simp)]

@[simp] theorem fmi_expiredSvc (s : Stack) (a : Addr) (k : SvcKey) : fmi (s.expiredSvc a k) = fmi s := by
  unfold expiredSvc; frame_cases

@[simp] theorem fmi_replay (s : Stack) (b : Bool) (f : Option Service) (l : Listener) : fmi (s.replay b f l) = fmi s := by
  unfold replay
  rw [foldl_pres fmi _ (fun s p => by frame_cases)]

@[simp] theorem fmi_watchService (s : Stack) (f : Service) (l : Listener) : fmi (s.watchService f l) = fmi s := by
  unfold watchService; simp only []; rw [fmi_markDup, fmi_replay]; rfl
@[simp] theorem fmi_stopWatchService (s : Stack) (f : Service) (l : Listener) : fmi (s.stopWatchService f l) = fmi s := by
  unfold stopWatchService; simp only []; split
  · simp
  · rw [fmi_replay]; rfl
@[simp] theorem fmi_watchAllServices (s : Stack) (id : LId) : fmi (s.watchAllServices id) = fmi s := by
  unfold watchAllServices; rw [fmi_markDup, fmi_replay]; rfl
@[simp] theorem fmi_stopWatchAllServices (s : Stack) (id : LId) : fmi (s.stopWatchAllServices id) = fmi s := by
  unfold stopWatchAllServices; split
  · simp
  · rw [fmi_replay]; rfl

@[simp] theorem fmi_discoveryStop (s : Stack) : fmi s.discoveryStop = fmi s := by
  unfold discoveryStop; split
  · show fmi (s.cancelTask _) = fmi s; simp
  · rfl

@[simp] theorem fmi_rebootDetected (s : Stack) (a : Addr) : fmi (s.rebootDetected a) = fmi s := by
  simp [rebootDetected]

@[simp] theorem fmi_sdMessageReceived (s : Stack) (m : SDHeader) (a : Addr) (mc : Bool) :
    fmi (s.sdMessageReceived m a mc) = fmi s := by
  unfold sdMessageReceived; split; rfl
  rw [foldl_pres fmi _ (fun s e => by frame_cases)]

@[simp] theorem fmi_messageReceived (s : Stack) (h : Header) (a : Addr) (mc : Bool) : fmi (s.messageReceived h a mc) = fmi s := by
  unfold messageReceived
  split; rfl
  split; rfl
  simp only []
  split
  · split <;> simp <;> rfl
  · split <;> simp <;> rfl

@[simp] theorem fmi_datagramReceived (s : Stack) (b : Bytes) (a : Addr) (mc : Bool) : fmi (s.datagramReceived b a mc) = fmi s := by
  unfold datagramReceived; rw [foldl_pres fmi _ (fun s h => by simp)]

@[simp] theorem fmi_stop (s : Stack) : fmi s.stop = fmi s := by simp [Stack.stop]
@[simp] theorem fmi_connectionLost (s : Stack) : fmi s.connectionLost = fmi s := by simp [connectionLost]


end Stack
end Someip
