/-
  The subscription-store invariant (SubInv.lean) through the functions that touch the per-instance stores, and through
  inputs, callbacks and loop steps.
-/
import SomeipModel.Lemmas.SubInv
namespace Someip
namespace Stack
set_option linter.unusedSimpArgs false
set_option linter.unusedVariables false

theorem subInv_frame {s s' : Stack} (h : spi s' = spi s) (hi : SubInv s) : SubInv s' := subInv_of_spi h hi

/-- replacing an instance by one with the same store changes nothing the invariant reads -/
theorem subInv_setInst_same (s : Stack) (i : Nat) (x x' : Instance) (hx : s.getInst i = some x) (hs : x'.subs = x.subs)
    (hi : SubInv s) : SubInv (s.setInst i x') := by
  intro j st hj
  rw [subsAt_setInst s i j x x' hx] at hj
  have : subsAt s j = some st := by
    by_cases h : j = i
    · subst h; simp only [if_true] at hj; rw [subsAt_of_getInst hx, ← hs]; exact hj
    · simpa [h] using hj
  exact hi j st this

theorem subLogOf_emit_unsub (s : Stack) (i : Nat) (k : SubKey) (a : Addr) :
    subLogOf (s.emit (.unsubscribed i k a)).outs = subLogOf s.outs ++ [(false, i, k, a)] := by
  simp [emit, subLogOf_append, subLogOf]
theorem subLogOf_emit_sub (s : Stack) (i : Nat) (k : SubKey) (a : Addr) :
    subLogOf (s.emit (.subscribed i k a)).outs = subLogOf s.outs ++ [(true, i, k, a)] := by
  simp [emit, subLogOf_append, subLogOf]

theorem subInv_expiredSub (s : Stack) (i : Nat) (a : Addr) (k : SubKey) (hi : SubInv s) : SubInv (s.expiredSub i a k) := by
  unfold expiredSub
  split
  · exact hi
  · rename_i x hx
    simp only []
    split
    · exact subInv_touch s _ i x a hi hx (fun j => subsAt_setInst s i j x _ hx) rfl
    · rename_i old hfind
      exact subInv_remove s _ i x a k old hi hx hfind (fun j => subsAt_setInst s i j x _ hx) (subLogOf_emit_unsub _ _ _ _)

theorem subInv_instHandleSubscribe (s : Stack) (i : Nat) (e : SDEntry) (a : Addr) (hi : SubInv s) :
    SubInv (s.instHandleSubscribe i e a).1 := by
  unfold instHandleSubscribe
  split
  · exact hi
  · rename_i x hx
    split
    · exact hi
    · split
      · split
        · -- StopSubscribe
          simp only []
          split
          · exact subInv_touch s _ i x a hi hx (fun j => subsAt_setInst s i j x _ hx) rfl
          · rename_i old hfind
            refine subInv_remove s _ i x a (SubKey.ofEntry e) old hi hx hfind (fun j => ?_) ?_
            · exact subsAt_setInst s i j x _ hx
            · exact subLogOf_emit_unsub _ _ _ _
        · -- Subscribe
          simp only []
          split
          · rename_i old hfind
            apply subInv_frame (spi_queueSend _ _ _)
            refine subInv_restore s _ i x a (SubKey.ofEntry e) old
              ((s.cancelTimer (isSubExpiryFor i a old.key) old.timer).armTtl e.ttl (Cb.expiredSub i a (SubKey.ofEntry e))).2 hi hx hfind (fun j => ?_) ?_
            · have hx' : ((s.cancelTimer (isSubExpiryFor i a old.key) old.timer).armTtl e.ttl (Cb.expiredSub i a (SubKey.ofEntry e))).1.getInst i = some x := by
                rw [getInst_of_instances (instances_armTtl _ _ _)]; exact hx
              rw [subsAt_setInst _ i j x _ hx', subsAt_of_instances (instances_armTtl _ _ _)]
              rfl
            · show subLogOf ((s.cancelTimer (isSubExpiryFor i a old.key) old.timer).armTtl e.ttl (Cb.expiredSub i a (SubKey.ofEntry e))).1.outs = _
              rw [outs_armTtl]; rfl
          · rename_i hfind
            split
            · apply subInv_frame (spi_queueSend _ _ _)
              exact subInv_touch s _ i x a hi hx (fun j => subsAt_setInst s i j x _ hx) rfl
            · apply subInv_frame (spi_queueSend _ _ _)
              refine subInv_add s _ i x a (SubKey.ofEntry e)
                ((s.emit (Out.subscribed i (SubKey.ofEntry e) a)).armTtl e.ttl (Cb.expiredSub i a (SubKey.ofEntry e))).2 hi hx hfind (fun j => ?_) ?_
              · have hx' : ((s.emit (Out.subscribed i (SubKey.ofEntry e) a)).armTtl e.ttl (Cb.expiredSub i a (SubKey.ofEntry e))).1.getInst i = some x := by
                  rw [getInst_of_instances (instances_armTtl _ _ _)]; exact hx
                rw [subsAt_setInst _ i j x _ hx', subsAt_of_instances (instances_armTtl _ _ _)]
                rfl
              · show subLogOf ((s.emit (Out.subscribed i (SubKey.ofEntry e) a)).armTtl e.ttl (Cb.expiredSub i a (SubKey.ofEntry e))).1.outs = _
                rw [outs_armTtl]; exact subLogOf_emit_sub _ _ _ _
      · exact hi

theorem unsub_fold (i : Nat) (a : Addr) (es : List (TSEntry SubKey)) (st : Stack) :
    (es.foldl (fun s e => (s.cancelTimer (isSubExpiryFor i a e.key) e.timer).emit (.unsubscribed i e.key a)) st).instances = st.instances ∧
    subLogOf (es.foldl (fun s e => (s.cancelTimer (isSubExpiryFor i a e.key) e.timer).emit (.unsubscribed i e.key a)) st).outs =
      subLogOf st.outs ++ es.map (fun e => (false, i, e.key, a)) := by
  induction es generalizing st with
  | nil => simp
  | cons e t ih =>
    rw [List.foldl_cons]
    obtain ⟨h1, h2⟩ := ih ((st.cancelTimer (isSubExpiryFor i a e.key) e.timer).emit (.unsubscribed i e.key a))
    refine ⟨h1.trans rfl, ?_⟩
    rw [h2, subLogOf_emit_unsub]
    simp [cancelTimer_outs]

theorem subInv_subsStopAllFor (s : Stack) (i : Nat) (a : Addr) (hi : SubInv s) : SubInv (s.subsStopAllFor i a) := by
  unfold subsStopAllFor
  split
  · exact hi
  · rename_i x hx
    simp only []
    have hst := subsAt_of_getInst hx
    obtain ⟨hnd0, _⟩ := hi i x.subs hst
    obtain ⟨f1, f2⟩ := unsub_fold i a ((x.subs.touch a).get a) (s.setInst i { x with subs := (x.subs.touch a).set a [] })
    refine subInv_step s _ i x.subs ((x.subs.touch a).set a []) (((x.subs.touch a).get a).map (fun e => (false, i, e.key, a))) hi hst
      (fun j => ?_) ?_ ?_ ?_ ?_
    · rw [subsAt_of_instances f1]; exact subsAt_setInst s i j x _ hx
    · rw [f2]; rfl
    · intro y hy
      obtain ⟨e, _, rfl⟩ := List.mem_map.mp hy; rfl
    · intro a'
      by_cases ha : a' = a
      · subst ha; rw [tget_set_same]; exact List.Pairwise.nil
      · rw [tget_set_other _ _ _ _ ha, tget_touch]; exact hnd0 a'
    · intro k a'
      rw [trackU_unsub_map i i k a' a _ (by rw [tget_touch]; exact hnd0 a)]
      by_cases ha : a' = a
      · subst ha
        rw [tget_set_same, tget_touch]
        cases hk : hasKey (x.subs.get a') k <;> simp [hasKey]
      · have : ¬ (i = i ∧ a = a' ∧ hasKey ((x.subs.touch a).get a) k = true) := fun q => ha q.2.1.symm
        rw [if_neg this, tget_set_other _ _ _ _ ha, tget_touch]

theorem subInv_foldl {α : Type} (f : Stack → α → Stack) (h : ∀ s x, SubInv s → SubInv (f s x)) (l : List α) (s : Stack)
    (hi : SubInv s) : SubInv (l.foldl f s) := by
  induction l generalizing s with
  | nil => exact hi
  | cons x t ih => rw [List.foldl_cons]; exact ih _ (h s x hi)

/-- after every address of a list was flushed, those addresses are empty in instance i's store; the others untouched -/
theorem stopAll_fold_store (i : Nat) : ∀ (l : List Addr) (st : Stack) (x : Instance), st.getInst i = some x →
    ∃ x', (l.foldl (fun s a => s.subsStopAllFor i a) st).getInst i = some x' ∧
      (∀ a, a ∈ l → x'.subs.get a = []) ∧ (∀ a, a ∉ l → x'.subs.get a = x.subs.get a) := by
  intro l
  induction l with
  | nil => intro st x hx; exact ⟨x, hx, ⟨fun a h => absurd h (by simp), fun _ _ => rfl⟩⟩
  | cons b t ih =>
    intro st x hx
    rw [List.foldl_cons]
    -- the state after flushing b
    have hb : ∃ x1, (st.subsStopAllFor i b).getInst i = some x1 ∧ x1.subs = (x.subs.touch b).set b [] := by
      unfold subsStopAllFor
      rw [hx]
      simp only []
      obtain ⟨f1, _⟩ := unsub_fold i b ((x.subs.touch b).get b) (st.setInst i { x with subs := (x.subs.touch b).set b [] })
      refine ⟨{ x with subs := (x.subs.touch b).set b [] }, ?_, rfl⟩
      rw [getInst_of_instances f1]
      unfold getInst setInst
      have hlt : i < st.instances.length := by
        unfold getInst at hx
        rcases Nat.lt_or_ge i st.instances.length with q | q
        · exact q
        · rw [List.getElem?_eq_none q] at hx; cases hx
      simp [List.getElem?_set, hlt]
    obtain ⟨x1, hx1, hs1⟩ := hb
    obtain ⟨x', hx', h1, h2⟩ := ih _ x1 hx1
    refine ⟨x', hx', fun a ha => ?_, fun a ha => ?_⟩
    · by_cases hat : a ∈ t
      · exact h1 a hat
      · rw [h2 a hat, hs1]
        have : a = b := by
          rcases List.mem_cons.mp ha with e | e
          · exact e
          · exact absurd e hat
        subst this; rw [tget_set_same]
    · have hat : a ∉ t := fun q => ha (List.mem_cons_of_mem _ q)
      have hab : a ≠ b := fun q => ha (by simp [q])
      rw [h2 a hat, hs1, tget_set_other _ _ _ _ hab, tget_touch]

theorem subInv_subsStopAll (s : Stack) (i : Nat) (hi : SubInv s) : SubInv (s.subsStopAll i) := by
  unfold subsStopAll
  split
  · exact hi
  · rename_i x hx
    simp only []
    have hfold : SubInv (x.subs.foldl (fun s p => s.subsStopAllFor i p.1) s) :=
      subInv_foldl _ (fun s p h => subInv_subsStopAllFor s i p.1 h) _ _ hi
    -- express the fold over the addresses
    have hmap : x.subs.foldl (fun s p => s.subsStopAllFor i p.1) s = (x.subs.map (·.1)).foldl (fun s a => s.subsStopAllFor i a) s := by
      rw [List.foldl_map]
    obtain ⟨x', hx', h1, h2⟩ := stopAll_fold_store i (x.subs.map (·.1)) s x hx
    rw [hmap] at hfold ⊢
    rw [hx']
    simp only []
    -- every address of the final store is empty: dropping the whole dict changes no `get`
    have hall : ∀ a, x'.subs.get a = [] := by
      intro a
      by_cases ha : a ∈ x.subs.map (·.1)
      · exact h1 a ha
      · rw [h2 a ha]
        unfold TStore.get
        have : x.subs.find? (fun p => decide (p.1 = a)) = none := by
          simp only [List.find?_eq_none]; intro p hp
          simp only [decide_eq_true_eq]
          intro e; exact ha (List.mem_map.mpr ⟨p, hp, e⟩)
        simp [this]
    intro j st hj
    rw [subsAt_setInst _ i j x' _ hx'] at hj
    by_cases hji : j = i
    · subst hji
      simp only [if_true, Option.some.injEq] at hj
      subst hj
      obtain ⟨g1, g2⟩ := hfold j x'.subs (subsAt_of_getInst hx')
      refine ⟨fun a => by simp [TStore.get]; exact List.Pairwise.nil, fun k a => ?_⟩
      have := g2 k a
      rw [hall a] at this
      simpa [TStore.get, hasKey] using this
    · simp only [hji, if_false] at hj
      exact hfold j st hj

/-! ### functions that replace an instance without touching its store -/

theorem subInv_instStart (s : Stack) (i : Nat) (hi : SubInv s) : SubInv (s.instStart i) := by
  unfold instStart
  split
  · exact hi
  · rename_i x hx
    split
    · exact subInv_frame (spi_emit_raised _ _) hi
    · simp only []
      have h1 : SubInv ((s.setInst i { x with canAnswer := false }).createTask (.offer i)).1 :=
        subInv_frame (spi_createTask _ _) (subInv_setInst_same s i x _ hx rfl hi)
      split
      · rename_i x2 hx2
        exact subInv_setInst_same _ i x2 _ hx2 rfl h1
      · exact h1

theorem subInv_sendOffer (s : Stack) (i : Nat) (r : Dest) (b : Bool) (hi : SubInv s) : SubInv (s.sendOffer i r b) :=
  subInv_frame (spi_sendOffer _ _ _ _) hi

theorem subInv_stepOffer (s : Stack) (tid : Tid) (t : TaskSt) (i : Nat) (hi : SubInv s) : SubInv (s.stepOffer tid t i) := by
  unfold stepOffer
  simp only []
  have hc : ∀ X : Stack, SubInv X → SubInv (if X.tm.cyclicOfferDelay ≠ 0 then X.sendOffer i none true else X) := by
    intro X hX; split
    · exact subInv_sendOffer _ _ _ _ hX
    · exact hX
  have hset : ∀ (X : Stack) (b : Bool), SubInv X →
      SubInv (match X.getInst i with | some x => X.setInst i { x with canAnswer := b } | none => X) := by
    intro X b hX; split
    · rename_i x hx; exact subInv_setInst_same X i x _ hx rfl hX
    · exact hX
  have hsl : ∀ (X : Stack) (t' : TaskSt) (d : Nat) (pc : Pc), SubInv X → SubInv (X.sleepFor tid t' d pc) :=
    fun X t' d pc hX => subInv_frame (spi_sleepFor _ _ _ _ _) hX
  have hfin : ∀ (X : Stack) (t' : TaskSt), SubInv X → SubInv (X.finish tid t') := fun X t' hX => subInv_frame (spi_finish _ _ _) hX
  have hcancel : ∀ X : Stack, SubInv X → SubInv ((if (match X.getInst i with | some x => X.setInst i { x with canAnswer := false } | none => X).tm.cyclicOfferDelay ≠ 0
      then (match X.getInst i with | some x => X.setInst i { x with canAnswer := false } | none => X).sendOffer i none true
      else (match X.getInst i with | some x => X.setInst i { x with canAnswer := false } | none => X)).finish tid t) := by
    intro X hX
    exact hfin _ _ (hc _ (hset X false hX))
  have hafter : ∀ (X : Stack) (k : Nat), SubInv X → SubInv (if k < X.tm.repetitionsMax then X.sleepFor tid t (pow2 k * X.tm.repetitionsBaseDelay) (.rep k)
      else if X.tm.cyclicOfferDelay = 0 then X.finish tid t else X.sleepFor tid t X.tm.cyclicOfferDelay .cyclic) := by
    intro X k hX
    split
    · exact hsl _ _ _ _ hX
    · split
      · exact hfin _ _ hX
      · exact hsl _ _ _ _ hX
  split
  · split
    · exact hfin _ _ hi
    · exact hsl _ _ _ _ (subInv_frame (spi_draw _ _ _) hi)
  · split
    · exact hfin _ _ hi
    · exact hafter _ _ (hset _ true (subInv_sendOffer _ _ _ _ hi))
  · split
    · exact hcancel _ hi
    · exact hafter _ _ (subInv_sendOffer _ _ _ _ hi)
  · split
    · exact hcancel _ hi
    · exact hsl _ _ _ _ (subInv_sendOffer _ _ _ _ hi)
  · exact hi

theorem subInv_instStop (s : Stack) (i : Nat) (hi : SubInv s) : SubInv (s.instStop i) := by
  unfold instStop
  split
  · exact hi
  · rename_i x hx
    split
    · exact subInv_frame (spi_emit_raised _ _) hi
    · rename_i tid htid
      simp only []
      apply subInv_subsStopAll
      have hx' : ((s.logOffer i .stop).cancelTask (.offer i, tid)).getInst i = some x := by
        unfold getInst
        have hinst : ((s.logOffer i .stop).cancelTask (.offer i, tid)).instances = s.instances := by
          unfold cancelTask; split; rfl; split; rfl; split <;> rfl
        rw [hinst]; exact hx
      have h1 : SubInv (((s.logOffer i .stop).cancelTask (.offer i, tid)).setInst i { x with task := none, canAnswer := false }) :=
        subInv_setInst_same _ i x _ hx' rfl (subInv_frame ((spi_cancelTask _ _).trans (spi_logOffer _ _ _)) hi)
      split
      · exact subInv_sendOffer _ _ _ _ h1
      · exact h1

theorem subInv_handleSubscribe (s : Stack) (e : SDEntry) (a : Addr) (hi : SubInv s) : SubInv (s.handleSubscribe e a) := by
  unfold handleSubscribe
  simp only []
  have key : ∀ (l : List Nat) (acc : Stack × Bool), SubInv acc.1 →
      SubInv (l.foldl (fun (acc : Stack × Bool) i => ((acc.1.instHandleSubscribe i e a).1, acc.2 || (acc.1.instHandleSubscribe i e a).2)) acc).1 := by
    intro l; induction l with
    | nil => intro acc h; exact h
    | cons x t ih => intro acc h; rw [List.foldl_cons]; exact ih _ (subInv_instHandleSubscribe _ _ _ _ h)
  split
  · exact key _ _ hi
  · exact subInv_frame (spi_queueSend _ _ _) (key _ _ hi)

theorem subInv_announcerStart (s : Stack) (hi : SubInv s) : SubInv s.announcerStart := by
  unfold announcerStart
  simp only []
  show SubInv { (List.foldl (fun s i => s.instStart i) s s.announceOrder) with started := true }
  exact subInv_frame (spi_with_started _ _) (subInv_foldl _ (fun s i h => subInv_instStart s i h) _ _ hi)

theorem subInv_announcerStop (s : Stack) (hi : SubInv s) : SubInv s.announcerStop := by
  unfold announcerStop
  split
  · exact hi
  · show SubInv { (List.foldl (fun s i => s.instStop i) s s.announceOrder) with started := false }
    exact subInv_frame (spi_with_started _ _) (subInv_foldl _ (fun s i h => subInv_instStop s i h) _ _ hi)

theorem subInv_announcerReboot (s : Stack) (a : Addr) (hi : SubInv s) : SubInv (s.announcerReboot a) := by
  unfold announcerReboot
  exact subInv_foldl _ (fun s i h => subInv_subsStopAllFor s i a h) _ _ hi

theorem subInv_rebootDetected (s : Stack) (a : Addr) (hi : SubInv s) : SubInv (s.rebootDetected a) := by
  unfold rebootDetected
  exact subInv_announcerReboot _ a (subInv_frame (spi_foundStopAllFor _ _) hi)

theorem subInv_announceService (s : Stack) (i : Nat) (hi : SubInv s) : SubInv (s.announceService i) := by
  unfold announceService
  simp only []
  apply subInv_frame (spi_with_announceOrder _ _)
  split
  · exact subInv_instStart _ _ hi
  · exact hi

theorem subInv_stopAnnounceService (s : Stack) (i : Nat) (b : Bool) (hi : SubInv s) : SubInv (s.stopAnnounceService i b) := by
  unfold stopAnnounceService
  split
  · exact subInv_frame (spi_emit_raised _ _) hi
  · simp only []
    split
    · exact subInv_instStop _ _ (subInv_frame (spi_with_announceOrder _ _) hi)
    · exact subInv_frame (spi_with_announceOrder _ _) hi

theorem subInv_sdMessageReceived (s : Stack) (m : SDHeader) (a : Addr) (mc : Bool) (hi : SubInv s) :
    SubInv (s.sdMessageReceived m a mc) := by
  unfold sdMessageReceived
  split
  · exact hi
  · refine subInv_foldl _ (fun s e h => ?_) _ _ hi
    split
    · exact subInv_frame (spi_handleOffer _ _ _) h
    · exact h
    · exact subInv_frame (spi_handleFind _ _ _ _) h
    · split
      · exact h
      · exact subInv_handleSubscribe _ _ _ h

theorem subInv_messageReceived (s : Stack) (h : Header) (a : Addr) (mc : Bool) (hi : SubInv s) :
    SubInv (s.messageReceived h a mc) := by
  unfold messageReceived
  split
  · exact hi
  · split
    · exact hi
    · rename_i m r hpar
      simp only []
      have h1 : SubInv (if (checkReceived s.incoming a mc m.flagReboot h.sess).1 = true
          then ({ s with incoming := (checkReceived s.incoming a mc m.flagReboot h.sess).2 } : Stack).rebootDetected a
          else ({ s with incoming := (checkReceived s.incoming a mc m.flagReboot h.sess).2 } : Stack)) := by
        split
        · exact subInv_rebootDetected _ _ (subInv_frame (spi_with_incoming _ _) hi)
        · exact subInv_frame (spi_with_incoming _ _) hi
      split
      · exact subInv_frame (spi_emit_raised _ _) h1
      · exact subInv_sdMessageReceived _ _ _ _ h1

theorem subInv_datagramReceived (s : Stack) (b : Bytes) (a : Addr) (mc : Bool) (hi : SubInv s) :
    SubInv (s.datagramReceived b a mc) := by
  unfold datagramReceived
  exact subInv_foldl _ (fun s h hh => subInv_messageReceived s h a mc hh) _ _ hi

theorem subInv_start (s : Stack) (hi : SubInv s) : SubInv s.start := by
  unfold Stack.start
  exact subInv_frame (spi_discoveryStart _) (subInv_announcerStart _ (subInv_frame (spi_subscriberStart _) hi))

theorem subInv_stop (s : Stack) (hi : SubInv s) : SubInv s.stop := by
  unfold Stack.stop
  exact subInv_frame (spi_subscriberStop _ _) (subInv_announcerStop _ (subInv_frame (spi_discoveryStop _) hi))

theorem subInv_applyInput (s : Stack) (x : Input) (hi : SubInv s) : SubInv (s.applyInput x) := by
  cases x with
  | dgram a mc b => exact subInv_datagramReceived s b a mc hi
  | start => exact subInv_start s hi
  | stop => exact subInv_stop s hi
  | stopAnnounce i b => exact subInv_stopAnnounceService s i b hi
  | announcerStop => exact subInv_announcerStop s hi
  | announcerStart => exact subInv_announcerStart s hi
  | announce i => exact subInv_announceService s i hi
  | connLost => exact subInv_frame (spi_connectionLost s) hi
  | watch f l => exact subInv_frame (spi_watchService s f l) hi
  | unwatch f l => exact subInv_frame (spi_stopWatchService s f l) hi
  | watchAll id => exact subInv_frame (spi_watchAllServices s id) hi
  | unwatchAll id => exact subInv_frame (spi_stopWatchAllServices s id) hi
  | subscribe g d => exact subInv_frame (spi_subscribeEventgroup s g d) hi
  | stopSubscribe g d => exact subInv_frame (spi_stopSubscribeEventgroup s g d true) hi
  | setNak i egs =>
    simp only [applyInput]
    split
    · rename_i x hx; exact subInv_setInst_same s i x _ hx rfl hi
    · exact hi
  | draws ds => exact subInv_frame (s := s) (s' := { s with draws := s.draws ++ ds }) rfl hi

theorem subInv_runCb (s : Stack) (cb : Cb) (hi : SubInv s) : SubInv (s.runCb cb) := by
  cases cb with
  | connLost p =>
    cases p with
    | subscriber => exact subInv_frame (spi_subscriberStop s false) hi
    | discovery => exact subInv_frame (spi_foundStopAll s) hi
    | announcer => exact subInv_announcerStop s hi
  | expiredSvc a k => exact subInv_frame (spi_expiredSvc s a k) hi
  | expiredSub i a k => exact subInv_expiredSub s i a k hi
  | sendStartSubscribe d egs => exact subInv_frame (spi_sendSubscribe s _ d egs) hi
  | sendStopSubscribe d egs => exact subInv_frame (spi_sendSubscribe s _ d egs) hi
  | sendOfferTo i a => exact subInv_sendOffer s i _ _ hi
  | collectorTimeout cid => exact subInv_frame (spi_collectorTimeout s cid) hi
  | sleepDone tid => exact subInv_frame (spi_sleepDone s tid) hi
  | taskStep tid =>
    simp only [runCb]
    split
    · exact hi
    · split
      · exact hi
      · split
        · exact subInv_stepOffer _ _ _ _ (subInv_frame (spi_cancelTimer_sleep _ _ _) hi)
        · exact subInv_frame ((spi_stepFind _ _ _).trans (spi_cancelTimer_sleep _ _ _)) hi
        · exact subInv_frame ((spi_stepSubscribe _ _ _).trans (spi_cancelTimer_sleep _ _ _)) hi

theorem subInv_loop (s : Stack) (l : Loop Cb) (hi : SubInv s) : SubInv ({ s with loop := l } : Stack) := by
  intro i st hst; exact hi i st hst

theorem subInv_event (s s' : Stack) (e : Event) (h : s.step e = some s') (hi : SubInv s) : SubInv s' := by
  cases e with
  | input x => simp only [step, Option.some.injEq] at h; subst h; exact subInv_applyInput s x hi
  | run =>
    simp only [step] at h
    split at h
    · cases h
    · rename_i cb l _
      simp only [Option.some.injEq] at h; subst h
      exact subInv_runCb _ cb (subInv_loop s l hi)
  | fire q =>
    simp only [step] at h
    cases hf : s.loop.fire q with
    | none => rw [hf] at h; cases h
    | some l => rw [hf] at h; simp at h; subst h; exact subInv_loop s l hi
  | adv t =>
    simp only [step] at h
    cases hf : s.loop.adv t with
    | none => rw [hf] at h; cases h
    | some l => rw [hf] at h; simp at h; subst h; exact subInv_loop s l hi

end Stack
end Someip
