/-
  Frame lemmas for the timing invariant of the find task: the step and wake-up callbacks of find tasks in the ready queue and
  among the timers.  Generated from the scripts of RFrame.lean (the same projection for the subscribe tasks).
-/
import SomeipModel.Lemmas.OCFrame
namespace Someip
namespace Stack
set_option linter.unusedSimpArgs false

/-- step and wake-up callbacks of find tasks -/
def isFCb : Cb → Bool
  | .taskStep (.find, _) => true
  | .sleepDone (.find, _) => true
  | _ => false

def fci (s : Stack) : List (RItem Cb) × List (Timer Cb) :=
  (s.loop.ready.filter (fun r => isFCb r.cb), s.loop.timers.filter (fun t => isFCb t.cb))

@[simp] theorem fci_with_subTask (s : Stack) (x : Option Nat) : fci { s with subTask := x } = fci s := rfl
@[simp] theorem fci_with_alive (s : Stack) (x : Bool) : fci { s with alive := x } = fci s := rfl
@[simp] theorem fci_with_alive_subLost (s : Stack) (x y : Bool) : fci { s with alive := x, subLost := y } = fci s := rfl
@[simp] theorem fci_with_subMarks (s : Stack) (x : List (Option Nat × Nat)) : fci { s with subMarks := x } = fci s := rfl
@[simp] theorem fci_markRound (s : Stack) (n : Nat) : fci (s.markRound n) = fci s := rfl
@[simp] theorem fci_with_tasks (s : Stack) (x : List (Tid × TaskSt)) : fci { s with tasks := x } = fci s := rfl

/-- cancelling a timer handle that is not a wake-up of a find task -/
theorem fci_cancelTimer_other (s : Stack) (own : Cb → Bool) (t : Option Nat) (h : ∀ cb, own cb = true → isFCb cb = false) :
    fci (s.cancelTimer own t) = fci s := by
  cases t with
  | none => rfl
  | some q =>
    simp only [fci, cancelTimer, Loop.cancelOpt, Loop.cancel, List.filter_filter]
    refine Prod.ext ?_ ?_
    · apply List.filter_congr; intro x _
      cases h1 : isFCb x.cb
      · simp
      · have : own x.cb = false := by
          cases h2 : own x.cb
          · rfl
          · have := h _ h2; rw [h1] at this; cases this
        simp [this]
    · apply List.filter_congr; intro x _
      cases h1 : isFCb x.cb
      · simp
      · have : own x.cb = false := by
          cases h2 : own x.cb
          · rfl
          · have := h _ h2; rw [h1] at this; cases this
        simp [this]
@[simp] theorem fci_with_subEntries (s : Stack) (x : List (Eventgroup × Addr)) : fci { s with subEntries := x } = fci s := rfl
@[simp] theorem fci_with_subLog (s : Stack) (x : List (Addr × Nat × List Eventgroup)) : fci { s with subLog := x } = fci s := rfl
@[simp] theorem fci_with_subDup (s : Stack) (x : Bool) : fci { s with subDup := x } = fci s := rfl
@[simp] theorem fci_with_subLost (s : Stack) (x : Bool) : fci { s with subLost := x } = fci s := rfl
@[simp] theorem fci_with_subDup_subEntries (s : Stack) (x : Bool) (y : List (Eventgroup × Addr)) : fci { s with subDup := x, subEntries := y } = fci s := rfl
@[simp] theorem fci_with_watched (s : Stack) (x : List (Service × List Listener)) : fci { s with watched := x } = fci s := rfl
@[simp] theorem fci_with_watchAll (s : Stack) (x : List LId) : fci { s with watchAll := x } = fci s := rfl
@[simp] theorem fci_with_findTask (s : Stack) (x : Option Nat) : fci { s with findTask := x } = fci s := rfl
@[simp] theorem fci_with_started (s : Stack) (x : Bool) : fci { s with started := x } = fci s := rfl
@[simp] theorem fci_with_announceOrder (s : Stack) (x : List Nat) : fci { s with announceOrder := x } = fci s := rfl
@[simp] theorem fci_with_incoming (s : Stack) (x : Incoming) : fci { s with incoming := x } = fci s := rfl
@[simp] theorem fci_with_draws (s : Stack) (x : List Nat) : fci { s with draws := x } = fci s := rfl
@[simp] theorem fci_with_storeLog (s : Stack) (x : List (Bool × SvcKey × Addr)) : fci { s with storeLog := x } = fci s := rfl
@[simp] theorem fci_with_refreshLog (s : Stack) (x : List (Addr × SvcKey × Nat × Nat)) : fci { s with refreshLog := x } = fci s := rfl
@[simp] theorem fci_with_armLog (s : Stack) (x : List (Cb × Nat × Nat)) : fci { s with armLog := x } = fci s := rfl
@[simp] theorem fci_with_found_refreshLog (s : Stack) (x : TStore SvcKey) (y : List (Addr × SvcKey × Nat × Nat)) : fci { s with found := x, refreshLog := y } = fci s := rfl
@[simp] theorem fci_with_found (s : Stack) (x : TStore SvcKey) : fci { s with found := x } = fci s := rfl
@[simp] theorem fci_with_found_storeLog (s : Stack) (x : TStore SvcKey) (y : List (Bool × SvcKey × Addr)) : fci { s with found := x, storeLog := y } = fci s := rfl
@[simp] theorem fci_with_collectors (s : Stack) (x : List Collector) : fci { s with collectors := x } = fci s := rfl
@[simp] theorem fci_with_nextCid (s : Stack) (x : Nat) : fci { s with nextCid := x } = fci s := rfl
@[simp] theorem fci_with_outgoing (s : Stack) (x : Outgoing) : fci { s with outgoing := x } = fci s := rfl
@[simp] theorem fci_with_sendLog (s : Stack) (x : List (Dest × (Bool × Nat))) : fci { s with sendLog := x } = fci s := rfl
@[simp] theorem fci_with_outgoing_sendLog (s : Stack) (x : Outgoing) (y : List (Dest × (Bool × Nat))) : fci { s with outgoing := x, sendLog := y } = fci s := rfl
@[simp] theorem fci_with_findLog (s : Stack) (x : List (Nat × Nat)) : fci { s with findLog := x } = fci s := rfl
@[simp] theorem fci_with_findMarks (s : Stack) (x : List (Nat × Nat)) : fci { s with findMarks := x } = fci s := rfl
@[simp] theorem fci_with_ansLog (s : Stack) (x : List (Nat × Addr × Nat × Nat)) : fci { s with ansLog := x } = fci s := rfl
@[simp] theorem fci_with_lisLog (s : Stack) (x : List (LId × Bool × SvcKey × Addr)) : fci { s with lisLog := x } = fci s := rfl
@[simp] theorem fci_logLis (s : Stack) (id : LId) (o : Bool) (k : SvcKey) (a : Addr) : fci (s.logLis id o k a) = fci s := rfl
@[simp] theorem fci_with_lisDup (s : Stack) (x : Bool) : fci { s with lisDup := x } = fci s := rfl
@[simp] theorem fci_markDup (s : Stack) (d : Bool) : fci (s.markDup d) = fci s := rfl
@[simp] theorem fci_logAnswer (s : Stack) (i : Nat) (a : Addr) (d : Nat) : fci (s.logAnswer i a d) = fci s := rfl
@[simp] theorem fci_markFind (s : Stack) (n : Nat) : fci (s.markFind n) = fci s := rfl
@[simp] theorem fci_with_offLog (s : Stack) (x : List (Nat × OEv × Nat)) : fci { s with offLog := x } = fci s := rfl
@[simp] theorem fci_logOffer (s : Stack) (i : Nat) (e : OEv) : fci (s.logOffer i e) = fci s := rfl
@[simp] theorem fci_with_flushLog (s : Stack) (x : List (Dest × List SDEntry)) : fci { s with flushLog := x } = fci s := rfl
@[simp] theorem fci_with_instances (s : Stack) (x : List Instance) : fci { s with instances := x } = fci s := rfl
@[simp] theorem fci_with_outs (s : Stack) (x : List (Nat × Out)) : fci { s with outs := x } = fci s := rfl
@[simp] theorem fci_with_coll_nextCid (s : Stack) (x : List Collector) (y : Nat) : fci { s with collectors := x, nextCid := y } = fci s := rfl

@[simp] theorem fci_emit (s : Stack) (o : Out) : fci (s.emit o) = fci s := rfl

theorem fci_callSoon (s : Stack) (cb : Cb) (h : isFCb cb = false) : fci (s.callSoon cb) = fci s := by
  simp [fci, callSoon, Loop.callSoon, List.filter_append, h]
theorem fci_callLater (s : Stack) (d : Nat) (cb : Cb) (h : isFCb cb = false) : fci (s.callLater d cb).1 = fci s := by
  simp [fci, callLater, Loop.callLater, List.filter_append, h]

@[simp] theorem fci_callSoon_connLost (s : Stack) (p : Part) : fci (s.callSoon (.connLost p)) = fci s := fci_callSoon _ _ rfl
@[simp] theorem fci_callLater_connLost (s : Stack) (d : Nat) (p : Part) : fci (s.callLater d (.connLost p)).1 = fci s := fci_callLater _ _ _ rfl
@[simp] theorem fci_callSoon_expiredSvc (s : Stack) (a : Addr) (k : SvcKey) : fci (s.callSoon (.expiredSvc a k)) = fci s := fci_callSoon _ _ rfl
@[simp] theorem fci_callLater_expiredSvc (s : Stack) (d : Nat) (a : Addr) (k : SvcKey) : fci (s.callLater d (.expiredSvc a k)).1 = fci s := fci_callLater _ _ _ rfl
@[simp] theorem fci_callSoon_expiredSub (s : Stack) (i : Nat) (a : Addr) (k : SubKey) : fci (s.callSoon (.expiredSub i a k)) = fci s := fci_callSoon _ _ rfl
@[simp] theorem fci_callLater_expiredSub (s : Stack) (d : Nat) (i : Nat) (a : Addr) (k : SubKey) : fci (s.callLater d (.expiredSub i a k)).1 = fci s := fci_callLater _ _ _ rfl
@[simp] theorem fci_callSoon_sendOfferTo (s : Stack) (i : Nat) (a : Addr) : fci (s.callSoon (.sendOfferTo i a)) = fci s := fci_callSoon _ _ rfl
@[simp] theorem fci_callLater_sendOfferTo (s : Stack) (d : Nat) (i : Nat) (a : Addr) : fci (s.callLater d (.sendOfferTo i a)).1 = fci s := fci_callLater _ _ _ rfl
@[simp] theorem fci_callSoon_collectorTimeout (s : Stack) (c : Nat) : fci (s.callSoon (.collectorTimeout c)) = fci s := fci_callSoon _ _ rfl
@[simp] theorem fci_callLater_collectorTimeout (s : Stack) (d : Nat) (c : Nat) : fci (s.callLater d (.collectorTimeout c)).1 = fci s := fci_callLater _ _ _ rfl
@[simp] theorem fci_callSoon_sendStart (s : Stack) (d' : Addr) (e : List Eventgroup) : fci (s.callSoon (.sendStartSubscribe d' e)) = fci s := fci_callSoon _ _ rfl
@[simp] theorem fci_callSoon_sendStop (s : Stack) (d' : Addr) (e : List Eventgroup) : fci (s.callSoon (.sendStopSubscribe d' e)) = fci s := fci_callSoon _ _ rfl
theorem isFC_sleepDone_other {tid : Tid} (h : tid.1 ≠ .find) : isFCb (.sleepDone tid) = false := by
  obtain ⟨k, n⟩ := tid
  cases k <;> simp_all [isFCb]
theorem fci_callLater_sleepDone (s : Stack) (d : Nat) (t : Tid) (h : t.1 ≠ .find) : fci (s.callLater d (.sleepDone t)).1 = fci s :=
  fci_callLater _ _ _ (isFC_sleepDone_other h)

theorem isFC_taskStep_other {tid : Tid} (h : tid.1 ≠ .find) : isFCb (.taskStep tid) = false := by
  obtain ⟨k, n⟩ := tid
  cases k <;> simp_all [isFCb]
theorem fci_callSoon_taskStep (s : Stack) (t : Tid) (h : t.1 ≠ .find) : fci (s.callSoon (.taskStep t)) = fci s :=
  fci_callSoon _ _ (isFC_taskStep_other h)

/-- cancelling a timer handle of any component: no subscriber callback is ever a timer -/
@[simp] theorem fci_cancelTimer_sub (s : Stack) (t : Option Nat) : fci (s.cancelTimer isSubExpiry t) = fci s :=
  fci_cancelTimer_other s _ t (fun cb h => by cases cb <;> simp_all [isSubExpiry, isFCb])
@[simp] theorem fci_cancelTimer_subFor (s : Stack) (i : Nat) (a : Addr) (k : SubKey) (t : Option Nat) : fci (s.cancelTimer (isSubExpiryFor i a k) t) = fci s :=
  fci_cancelTimer_other s _ t (fun cb h => by cases cb <;> simp_all [isSubExpiryFor, isFCb])
@[simp] theorem fci_cancelTimer_svc (s : Stack) (t : Option Nat) : fci (s.cancelTimer isSvcExpiry t) = fci s :=
  fci_cancelTimer_other s _ t (fun cb h => by cases cb <;> simp_all [isSvcExpiry, isFCb])
@[simp] theorem fci_cancelTimer_svcFor (s : Stack) (a : Addr) (k : SvcKey) (t : Option Nat) : fci (s.cancelTimer (isSvcExpiryFor a k) t) = fci s :=
  fci_cancelTimer_other s _ t (fun cb h => by cases cb <;> simp_all [isSvcExpiryFor, isFCb])
theorem fci_cancelTimer_sleep (s : Stack) (tid : Tid) (t : Option Nat) (hk : tid.1 ≠ .find) : fci (s.cancelTimer (isSleepFor tid) t) = fci s :=
  fci_cancelTimer_other s _ t (fun cb h => by
    cases cb with
    | sleepDone t' =>
      have : t' = tid := by simpa [isSleepFor] using h
      subst this; exact isFC_sleepDone_other hk
    | _ => simp_all [isSleepFor, isFCb])

@[simp] theorem isFC_connLost (p : Part) : isFCb (.connLost p) = false := rfl
@[simp] theorem isFC_expiredSvc (a : Addr) (k : SvcKey) : isFCb (.expiredSvc a k) = false := rfl
@[simp] theorem isFC_expiredSub (i : Nat) (a : Addr) (k : SubKey) : isFCb (.expiredSub i a k) = false := rfl
@[simp] theorem isFC_sendOfferTo (i : Nat) (a : Addr) : isFCb (.sendOfferTo i a) = false := rfl
@[simp] theorem isFC_collectorTimeout (c : Nat) : isFCb (.collectorTimeout c) = false := rfl

/-! task operations of the other components (typed task ids) -/


@[simp] theorem fci_setTask (s : Stack) (tid : Tid) (x : TaskSt) : fci (s.setTask tid x) = fci s := rfl
theorem fci_createTask (s : Stack) (k : TaskKind) (h : k ≠ .find) : fci (s.createTask k).1 = fci s := by
  unfold createTask; simp only []
  rw [fci_callSoon_taskStep _ _ h]; rfl
@[simp] theorem fci_createTask_sub (s : Stack) : fci (s.createTask .subscribe).1 = fci s := fci_createTask _ _ (by simp)
@[simp] theorem fci_createTask_offer (s : Stack) (i : Nat) : fci (s.createTask (.offer i)).1 = fci s := fci_createTask _ _ (by simp)
theorem fci_cancelTask (s : Stack) (t : Tid) (h : t.1 ≠ .find) : fci (s.cancelTask t) = fci s := by
  unfold cancelTask; split; rfl; split; rfl; split
  · rw [fci_callSoon_taskStep _ _ h, fci_setTask _ _ _]
  · rw [fci_setTask _ _ _]
@[simp] theorem fci_cancelTask_offer (s : Stack) (i n : Nat) : fci (s.cancelTask (.offer i, n)) = fci s := fci_cancelTask _ _ (by simp)
theorem fci_sleepFor (s : Stack) (tid : Tid) (t : TaskSt) (d : Nat) (pc : Pc) (h : tid.1 ≠ .find) : fci (s.sleepFor tid t d pc) = fci s := by
  unfold sleepFor; split
  · rw [fci_callSoon_taskStep _ _ h, fci_setTask _ _ _]
  · simp only []; rw [fci_setTask _ _ _, fci_callLater_sleepDone _ _ _ h]
theorem fci_finish (s : Stack) (tid : Tid) (t : TaskSt) (h : tid.1 ≠ .find) : fci (s.finish tid t) = fci s := by
  unfold finish; rw [fci_setTask _ _ _]
theorem fci_sleepDone (s : Stack) (tid : Tid) (h : tid.1 ≠ .find) : fci (s.sleepDone tid) = fci s := by
  unfold sleepDone; split; rfl; split
  · rw [fci_callSoon_taskStep _ _ h, fci_setTask _ _ _]
  · rfl

@[simp] theorem fci_draw (s : Stack) (a b : Nat) : fci (s.draw a b).1 = fci s := by
  unfold draw; split <;> rfl
theorem fci_armTtl (s : Stack) (ttl : Nat) (cb : Cb) (h : isFCb cb = false) : fci (s.armTtl ttl cb).1 = fci s := by
  unfold armTtl; split
  · exact fci_callLater _ _ _ h
  · rfl
@[simp] theorem fci_armTtl_sub (s : Stack) (ttl i : Nat) (a : Addr) (k : SubKey) : fci (s.armTtl ttl (.expiredSub i a k)).1 = fci s :=
  fci_armTtl _ _ _ rfl
@[simp] theorem fci_setInst (s : Stack) (i : Nat) (x : Instance) : fci (s.setInst i x) = fci s := rfl
@[simp] theorem fci_sendSd (s : Stack) (es : List SDEntry) (d : Dest) : fci (s.sendSd es d) = fci s := by
  unfold sendSd; split; rfl; simp only []; split; rfl; split <;> rfl

@[simp] theorem fci_flushTo (s : Stack) (es : List SDEntry) (d : Dest) : fci (s.flushTo es d) = fci s := by
  unfold flushTo; rw [fci_sendSd]; rfl

@[simp] theorem fci_newCollector (s : Stack) (d : Dest) : fci (s.newCollector d).1 = fci s := by
  unfold newCollector; simp only []
  exact (fci_with_coll_nextCid _ _ _).trans (by simp)
@[simp] theorem fci_appendCollector (s : Stack) (c : Nat) (e : SDEntry) : fci (s.appendCollector c e) = fci s := rfl

@[simp] theorem fci_queueSend (s : Stack) (e : SDEntry) (d : Dest) : fci (s.queueSend e d) = fci s := by
  unfold queueSend; simp only []; split
  · simp
  · split
    · split <;> simp
    · simp

@[simp] theorem fci_collectorTimeout (s : Stack) (c : Nat) : fci (s.collectorTimeout c) = fci s := by
  unfold collectorTimeout; split; rfl; simp only []; rw [fci_flushTo]; rfl

@[simp] theorem fci_sendOffer (s : Stack) (i : Nat) (r : Dest) (b : Bool) : fci (s.sendOffer i r b) = fci s := by
  unfold sendOffer; split; rfl; split; rfl; simp

@[simp] theorem fci_subsStopAllFor (s : Stack) (i : Nat) (a : Addr) : fci (s.subsStopAllFor i a) = fci s := by
  unfold subsStopAllFor; split; rfl
  simp only []
  rw [foldl_pres fci _ (fun s e => by simp)]; rfl

@[simp] theorem fci_subsStopAll (s : Stack) (i : Nat) : fci (s.subsStopAll i) = fci s := by
  unfold subsStopAll; split; rfl
  simp only []
  split
  · simp only [fci_setInst]; rw [foldl_pres fci _ (fun s e => by simp)]
  · rw [foldl_pres fci _ (fun s e => by simp)]


theorem fci_stepOffer (s : Stack) (tid : Tid) (t : TaskSt) (i : Nat) (h : tid.1 ≠ .find) : fci (s.stepOffer tid t i) = fci s := by
  unfold stepOffer
  simp only []
  have hs := fun (X : Stack) (t' : TaskSt) (d : Nat) (pc : Pc) => fci_sleepFor X tid t' d pc h
  have hf := fun (X : Stack) (t' : TaskSt) => fci_finish X tid t' h
  split
  · split <;> simp [hs, hf]
  · split
    · simp [hs, hf]
    · (repeat' split) <;> simp [hs, hf]
  · split
    · (repeat' split) <;> simp [hs, hf]
    · (repeat' split) <;> simp [hs, hf]
  · split
    · (repeat' split) <;> simp [hs, hf]
    · simp [hs, hf]
  · rfl

@[simp] theorem fci_instStart (s : Stack) (i : Nat) : fci (s.instStart i) = fci s := by
  unfold instStart; split; rfl; split; simp; simp only []; split <;> simp

@[simp] theorem fci_instStop (s : Stack) (i : Nat) : fci (s.instStop i) = fci s := by
  unfold instStop; split; rfl; split; simp; simp only []; split <;> simp

@[simp] theorem fci_instHandleSubscribe (s : Stack) (i : Nat) (e : SDEntry) (a : Addr) :
    fci (s.instHandleSubscribe i e a).1 = fci s := by
  unfold instHandleSubscribe
  frame_cases

@[simp] theorem fci_handleSubscribe (s : Stack) (e : SDEntry) (a : Addr) : fci (s.handleSubscribe e a) = fci s := by
  unfold handleSubscribe
  simp only []
  have key : ∀ (l : List Nat) (acc : Stack × Bool),
      fci (l.foldl (fun (acc : Stack × Bool) i => ((acc.1.instHandleSubscribe i e a).1, acc.2 || (acc.1.instHandleSubscribe i e a).2)) acc).1 = fci acc.1 := by
    intro l; induction l with
    | nil => intro acc; rfl
    | cons x t ih => intro acc; rw [List.foldl_cons, ih]; simp
  split
  · exact key _ _
  · rw [fci_queueSend]; exact key _ _

@[simp] theorem fci_handleFind (s : Stack) (e : SDEntry) (a : Addr) (mc : Bool) : fci (s.handleFind e a mc) = fci s := by
  unfold handleFind; simp only []
  split; rfl
  split
  · rw [foldl_pres fci _ (fun s i => by simp)]; simp
  · rw [foldl_pres fci _ (fun s i => by simp)]

@[simp] theorem fci_expiredSub (s : Stack) (i : Nat) (a : Addr) (k : SubKey) : fci (s.expiredSub i a k) = fci s := by
  unfold expiredSub; split; rfl; simp only []; split <;> simp

@[simp] theorem fci_announcerStart (s : Stack) : fci s.announcerStart = fci s := by
  unfold announcerStart; simp only []
  show fci (List.foldl (fun s i => s.instStart i) s s.announceOrder) = fci s
  rw [foldl_pres fci _ (fun s i => by simp)]

@[simp] theorem fci_announcerStop (s : Stack) : fci s.announcerStop = fci s := by
  unfold announcerStop; split; rfl
  show fci (List.foldl (fun s i => s.instStop i) s s.announceOrder) = fci s
  rw [foldl_pres fci _ (fun s i => by simp)]

@[simp] theorem fci_announcerReboot (s : Stack) (a : Addr) : fci (s.announcerReboot a) = fci s := by
  unfold announcerReboot; rw [foldl_pres fci _ (fun s i => by simp)]

@[simp] theorem fci_announceService (s : Stack) (i : Nat) : fci (s.announceService i) = fci s := by
  unfold announceService; simp only []; split
  · show fci (s.instStart i) = fci s; simp
  · rfl

@[simp] theorem fci_stopAnnounceService (s : Stack) (i : Nat) (b : Bool) : fci (s.stopAnnounceService i b) = fci s := by
  unfold stopAnnounceService; split; simp; simp only []; split
  · rw [fci_instStop]; rfl
  · rfl
@[simp] theorem fci_sendSubscribe (s : Stack) (ttl : Nat) (d : Addr) (egs : List Eventgroup) :
    fci (s.sendSubscribe ttl d egs) = fci s := by simp [sendSubscribe]

@[simp] theorem fci_subscribeEventgroup (s : Stack) (g : Eventgroup) (d : Addr) : fci (s.subscribeEventgroup g d) = fci s := by
  unfold subscribeEventgroup; simp only []; split <;> simp

@[simp] theorem fci_stopSubscribeEventgroup (s : Stack) (g : Eventgroup) (d : Addr) (b : Bool) :
    fci (s.stopSubscribeEventgroup g d b) = fci s := by
  unfold stopSubscribeEventgroup; split
  · simp only []; split <;> simp
  · rfl




@[simp] theorem fci_listenerOffered (s : Stack) (l : Listener) (k : SvcKey) (a : Addr) : fci (s.listenerOffered l k a) = fci s := by
  unfold listenerOffered; frame_cases
@[simp] theorem fci_listenerStopped (s : Stack) (l : Listener) (k : SvcKey) (a : Addr) : fci (s.listenerStopped l k a) = fci s := by
  unfold listenerStopped; frame_cases

@[simp] theorem fci_replay (s : Stack) (b : Bool) (f : Option Service) (l : Listener) : fci (s.replay b f l) = fci s := by
  unfold replay
  rw [foldl_pres fci _ (fun s p => by frame_cases)]

@[simp] theorem fci_watchService (s : Stack) (f : Service) (l : Listener) : fci (s.watchService f l) = fci s := by
  unfold watchService; simp only []; rw [fci_markDup, fci_replay]; rfl
@[simp] theorem fci_stopWatchService (s : Stack) (f : Service) (l : Listener) : fci (s.stopWatchService f l) = fci s := by
  unfold stopWatchService; simp only []; split
  · simp
  · rw [fci_replay]; rfl
@[simp] theorem fci_watchAllServices (s : Stack) (id : LId) : fci (s.watchAllServices id) = fci s := by
  unfold watchAllServices; rw [fci_markDup, fci_replay]; rfl
@[simp] theorem fci_stopWatchAllServices (s : Stack) (id : LId) : fci (s.stopWatchAllServices id) = fci s := by
  unfold stopWatchAllServices; split
  · simp
  · rw [fci_replay]; rfl
@[simp] theorem fci_connectionLost (s : Stack) : fci s.connectionLost = fci s := by simp [connectionLost]

@[simp] theorem fci_notifyService (s : Stack) (b : Bool) (k : SvcKey) (a : Addr) : fci (s.notifyService b k a) = fci s := by
  unfold notifyService
  simp only []
  have hf : ∀ (s : Stack) (l : Listener), fci (if b = true then s.listenerOffered l k a else s.listenerStopped l k a) = fci s := by
    intro s l; split <;> simp
  rw [foldl_pres fci _ (fun s id => hf s _)]
  rw [foldl_pres fci _ (fun s p => by
    split
    · rw [foldl_pres fci _ (fun s l => hf s l)]
    · rfl)]
  rfl

@[simp] theorem fci_foundStop (s : Stack) (a : Addr) (k : SvcKey) : fci (s.foundStop a k) = fci s := by
  unfold foundStop; frame_cases

@[simp] theorem fci_foundRefresh (s : Stack) (ttl : Nat) (a : Addr) (k : SvcKey) : fci (s.foundRefresh ttl a k) = fci s := by
  unfold foundRefresh
  simp only []
  rw [fci_with_found_refreshLog, fci_armTtl _ _ _ rfl]
  split <;> simp

@[simp] theorem fci_handleOffer (s : Stack) (e : SDEntry) (a : Addr) : fci (s.handleOffer e a) = fci s := by
  unfold handleOffer; frame_cases

@[simp] theorem fci_foundStopAllFor (s : Stack) (a : Addr) : fci (s.foundStopAllFor a) = fci s := by
  unfold foundStopAllFor; simp only []
  rw [foldl_pres fci _ (fun s e => by simp)]; rfl

@[simp] theorem fci_foundStopAll (s : Stack) : fci s.foundStopAll = fci s := by
  unfold foundStopAll; simp only []
  show fci (List.foldl (fun s p => s.foundStopAllFor p.1) s s.found) = fci s
  rw [foldl_pres fci _ (fun s e => by simp)]

@[simp] theorem fci_expiredSvc (s : Stack) (a : Addr) (k : SvcKey) : fci (s.expiredSvc a k) = fci s := by
  unfold expiredSvc; frame_cases

@[simp] theorem fci_rebootDetected (s : Stack) (a : Addr) : fci (s.rebootDetected a) = fci s := by
  simp [rebootDetected]



@[simp] theorem fci_cancelTask_sub (s : Stack) (n : Nat) : fci (s.cancelTask (.subscribe, n)) = fci s := fci_cancelTask _ _ (by simp)
@[simp] theorem fci_subscriberStart (s : Stack) : fci s.subscriberStart = fci s := by
  unfold subscriberStart; split
  · rfl
  · simp only []
    exact (fci_with_subTask _ _).trans (by simp; rfl)

@[simp] theorem fci_subscriberStop (s : Stack) (b : Bool) : fci (s.subscriberStop b) = fci s := by
  unfold subscriberStop; split; rfl
  simp only []
  have h1 : fci (match ({ s with alive := false, subLost := !b } : Stack).subTask with
      | some tid => { ({ s with alive := false, subLost := !b } : Stack).cancelTask (.subscribe, tid) with subTask := none }
      | none => ({ s with alive := false, subLost := !b } : Stack)) = fci s := by
    split
    · show fci (({ s with alive := false, subLost := !b } : Stack).cancelTask (.subscribe, _)) = fci s; rw [fci_cancelTask_sub]; rfl
    · rfl
  split
  · rw [foldl_pres fci _ (fun s p => by simp)]; exact h1
  · exact h1

theorem fci_stepSubscribe (s : Stack) (tid : Tid) (t : TaskSt) (h : tid.1 ≠ .find) : fci (s.stepSubscribe tid t) = fci s := by
  unfold stepSubscribe
  simp only []
  have key : ∀ st : Stack, fci (List.foldl (fun s p => s.sendSubscribe s.tm.subscribeTtl p.1 p.2) st (groupEntries st.subEntries)) = fci st :=
    fun st => foldl_pres fci _ (fun s p => by simp) _ _
  have hs := fun (X : Stack) (t' : TaskSt) (d : Nat) (pc : Pc) => fci_sleepFor X tid t' d pc h
  have hf := fun (X : Stack) (t' : TaskSt) => fci_finish X tid t' h
  split
  · split; simp [hf]; split <;> simp [key, hs, hf]
  · split; simp [hf]; split <;> simp [key, hs, hf]
  · rfl


end Stack
end Someip
