/-
  The TTL-handle invariant of the discovery store (C09, whole-run): in every reachable state
    * a stored service with a finite TTL holds the sequence number of exactly one pending expiry handle for its
      (address, service) - either still scheduled or already fired and waiting in the ready queue -,
    * a stored service with the infinite TTL, and a service that is not stored, have NO pending expiry handle.
  Hence an expiry callback that runs always finds the entry it was armed for (no stale timer can remove a successor),
  nothing expires twice, nothing with the infinite TTL expires, and a removed entry is never reported afterwards.
-/
import SomeipModel.Lemmas.SvcFrame
import SomeipModel.Lemmas.StoreOps
namespace Someip
namespace Stack
set_option linter.unusedSimpArgs false
set_option linter.unusedVariables false

theorem for_iff {a : Addr} {k : SvcKey} {cb : Cb} : isSvcExpiryFor a k cb = true ↔ cb = .expiredSvc a k := by
  cases cb <;> simp [isSvcExpiryFor]
theorem for_svc {a : Addr} {k : SvcKey} {cb : Cb} (h : isSvcExpiryFor a k cb = true) : isSvcExpiry cb = true := by
  rw [for_iff] at h; subst h; rfl
theorem for_other {a a' : Addr} {k k' : SvcKey} {cb : Cb} (h : isSvcExpiryFor a k cb = true) (hne : ¬ (a' = a ∧ k' = k)) :
    isSvcExpiryFor a' k' cb = false := by
  rw [for_iff] at h; subst h
  simp only [isSvcExpiryFor, Bool.and_eq_false_imp, beq_iff_eq]
  intro e1
  cases hk : k == k'
  · rfl
  · exact absurd ⟨e1.symm, (beq_iff_eq.mp hk).symm⟩ hne

/-- sequence numbers of the scheduled / fired expiry handles of one (address, service) -/
def hT (s : Stack) (a : Addr) (k : SvcKey) : List Nat := (s.loop.timers.filter (fun t => isSvcExpiryFor a k t.cb)).map (·.seq)
def hR (s : Stack) (a : Addr) (k : SvcKey) : List (Option Nat) := (s.loop.ready.filter (fun r => isSvcExpiryFor a k r.cb)).map (·.seq)
/-- the handle the stored entry holds (none: not stored, or stored with the infinite TTL) -/
def held (s : Stack) (a : Addr) (k : SvcKey) : Option Nat := (TStore.findKey (· == ·) (s.found.get a) k).bind (·.timer)

def Good : Option Nat → List Nat → List (Option Nat) → Prop
  | some q, t, r => (t = [q] ∧ r = []) ∨ (t = [] ∧ r = [some q])
  | none, t, r => t = [] ∧ r = []

def TimerInv (s : Stack) : Prop := ∀ a k, Good (held s a k) (hT s a k) (hR s a k)

theorem filter_for_svc {α : Type} (cbOf : α → Cb) (l : List α) (a : Addr) (k : SvcKey) :
    (l.filter (fun x => isSvcExpiry (cbOf x))).filter (fun x => isSvcExpiryFor a k (cbOf x)) = l.filter (fun x => isSvcExpiryFor a k (cbOf x)) := by
  rw [List.filter_filter]
  apply List.filter_congr
  intro x _
  cases h : isSvcExpiryFor a k (cbOf x)
  · simp
  · simp [for_svc h]

theorem hT_of_svcT {s s' : Stack} (h : svcT s' = svcT s) (a : Addr) (k : SvcKey) : hT s' a k = hT s a k := by
  have h2 : s'.loop.timers.filter (fun t => isSvcExpiry t.cb) = s.loop.timers.filter (fun t => isSvcExpiry t.cb) :=
    congrArg (fun p => p.2.1) h
  unfold hT
  rw [← filter_for_svc (·.cb) s'.loop.timers, ← filter_for_svc (·.cb) s.loop.timers, h2]
theorem hR_of_svcT {s s' : Stack} (h : svcT s' = svcT s) (a : Addr) (k : SvcKey) : hR s' a k = hR s a k := by
  have h2 : s'.loop.ready.filter (fun t => isSvcExpiry t.cb) = s.loop.ready.filter (fun t => isSvcExpiry t.cb) :=
    congrArg (fun p => p.2.2.1) h
  unfold hR
  rw [← filter_for_svc (·.cb) s'.loop.ready, ← filter_for_svc (·.cb) s.loop.ready, h2]
theorem held_of_svcT {s s' : Stack} (h : svcT s' = svcT s) (a : Addr) (k : SvcKey) : held s' a k = held s a k := by
  have h2 : s'.found = s.found := congrArg Prod.fst h
  unfold held; rw [h2]

theorem timerInv_of_svcT {s s' : Stack} (h : svcT s' = svcT s) (hi : TimerInv s) : TimerInv s' := by
  intro a k
  rw [held_of_svcT h, hT_of_svcT h, hR_of_svcT h]; exact hi a k

/-! ### atomic effects -/

theorem svcT_notifyService (s : Stack) (o : Bool) (k : SvcKey) (a : Addr) : svcT (s.notifyService o k a) = svcT s := by
  unfold notifyService
  simp only []
  rw [foldl_pres svcT _ (fun s id => by split <;> simp)]
  rw [foldl_pres svcT _ (fun s p => by
    split
    · rw [foldl_pres svcT _ (fun s l => by split <;> simp)]
    · rfl)]
  rfl

/-- cancelling the handle of (a, k): only that pair's lists change -/
theorem hT_cancel (s : Stack) (a a' : Addr) (k k' : SvcKey) (t : Option Nat) :
    hT (s.cancelTimer (isSvcExpiryFor a k) t) a' k' =
      if a' = a ∧ k' = k then (match t with | some q => (hT s a k).filter (· ≠ q) | none => hT s a k) else hT s a' k' := by
  cases t with
  | none =>
    simp only [cancelTimer, Loop.cancelOpt]
    split
    · rename_i h; rw [h.1, h.2]
    · rfl
  | some q =>
    simp only [hT, cancelTimer, Loop.cancelOpt, Loop.cancel, List.filter_filter]
    split
    · rename_i h
      rw [h.1, h.2, List.filter_map]
      congr 1
      rw [List.filter_filter]
      apply List.filter_congr
      intro x _
      cases hx : isSvcExpiryFor a k x.cb <;> simp [hx]
    · rename_i h
      congr 1
      apply List.filter_congr
      intro x _
      cases hx : isSvcExpiryFor a' k' x.cb
      · simp
      · have := for_other hx (a' := a) (k' := k) (fun e => h ⟨e.1.symm, e.2.symm⟩)
        simp [this]

theorem hR_cancel (s : Stack) (a a' : Addr) (k k' : SvcKey) (t : Option Nat) :
    hR (s.cancelTimer (isSvcExpiryFor a k) t) a' k' =
      if a' = a ∧ k' = k then (match t with | some q => (hR s a k).filter (· ≠ some q) | none => hR s a k) else hR s a' k' := by
  cases t with
  | none =>
    simp only [cancelTimer, Loop.cancelOpt]
    split
    · rename_i h; rw [h.1, h.2]
    · rfl
  | some q =>
    simp only [hR, cancelTimer, Loop.cancelOpt, Loop.cancel, List.filter_filter]
    split
    · rename_i h
      rw [h.1, h.2, List.filter_map]
      congr 1
      rw [List.filter_filter]
      apply List.filter_congr
      intro x _
      cases hx : isSvcExpiryFor a k x.cb <;> simp [hx]
    · rename_i h
      congr 1
      apply List.filter_congr
      intro x _
      cases hx : isSvcExpiryFor a' k' x.cb
      · simp
      · have := for_other hx (a' := a) (k' := k) (fun e => h ⟨e.1.symm, e.2.symm⟩)
        simp [this]

theorem hT_arm (s : Stack) (ttl : Nat) (a a' : Addr) (k k' : SvcKey) :
    hT (s.armTtl ttl (.expiredSvc a k)).1 a' k' =
      if a' = a ∧ k' = k then hT s a k ++ (if ttl ≠ TTL_FOREVER then [s.loop.nextSeq] else []) else hT s a' k' := by
  unfold armTtl
  by_cases hf : ttl ≠ TTL_FOREVER
  · rw [if_pos hf, if_pos hf]
    simp only [hT, callLater, Loop.callLater, List.filter_append, List.map_append]
    by_cases h : a' = a ∧ k' = k
    · have h2 : isSvcExpiryFor a k (Cb.expiredSvc a k) = true := for_iff.mpr rfl
      rw [if_pos h, h.1, h.2]
      simp [List.filter_cons, h2]
    · have : isSvcExpiryFor a' k' (Cb.expiredSvc a k) = false := for_other (for_iff.mpr rfl) h
      rw [if_neg h]
      simp [List.filter_cons, this]
  · rw [if_neg hf, if_neg hf]
    simp only []
    split
    · rename_i h; rw [h.1, h.2]; simp [hT]
    · rfl

theorem hR_arm (s : Stack) (ttl : Nat) (cb : Cb) (a' : Addr) (k' : SvcKey) : hR (s.armTtl ttl cb).1 a' k' = hR s a' k' := by
  unfold armTtl; split <;> rfl
theorem found_arm (s : Stack) (ttl : Nat) (cb : Cb) : (s.armTtl ttl cb).1.found = s.found := by
  unfold armTtl; split <;> rfl
theorem snd_arm (s : Stack) (ttl : Nat) (cb : Cb) :
    (s.armTtl ttl cb).2 = if ttl ≠ TTL_FOREVER then some s.loop.nextSeq else none := by
  unfold armTtl; split <;> rfl

/-! ### what the store holds -/

def heldOf (F : TStore SvcKey) (a : Addr) (k : SvcKey) : Option Nat := (TStore.findKey (· == ·) (F.get a) k).bind (·.timer)
theorem held_eq (s : Stack) (a : Addr) (k : SvcKey) : held s a k = heldOf s.found a k := rfl
theorem heldOf_touch (F : TStore SvcKey) (x a : Addr) (k : SvcKey) : heldOf (F.touch x) a k = heldOf F a k := by
  unfold heldOf; rw [tget_touch]
theorem heldOf_set (F : TStore SvcKey) (x a : Addr) (es : List (TSEntry SvcKey)) (k : SvcKey) :
    heldOf (F.set x es) a k = if a = x then (TStore.findKey (· == ·) es k).bind (·.timer) else heldOf F a k := by
  unfold heldOf
  split
  · rename_i h; rw [h, tget_set_same]
  · rename_i h; rw [tget_set_other _ _ _ _ h]

theorem findKey_erase_same (es : List (TSEntry SvcKey)) (k : SvcKey) :
    TStore.findKey (· == ·) (TStore.eraseKey (· == ·) es k) k = none := by
  simp only [TStore.findKey, TStore.eraseKey, List.find?_eq_none, List.mem_filter]
  intro e he
  simpa using he.2
theorem findKey_erase_other (es : List (TSEntry SvcKey)) (k k' : SvcKey) (h : k' ≠ k) :
    TStore.findKey (· == ·) (TStore.eraseKey (· == ·) es k) k' = TStore.findKey (· == ·) es k' := by
  simp only [TStore.findKey, TStore.eraseKey]
  induction es with
  | nil => rfl
  | cons e t ih =>
    by_cases hk : e.key = k
    · have hk' : ¬ e.key = k' := fun q => h (q.symm.trans hk)
      have e1 : (e.key == k) = true := by simp [hk]
      have e2 : (e.key == k') = false := by simp [hk']
      rw [List.filter_cons, List.find?_cons]
      simp only [e1, e2, Bool.not_true, Bool.false_eq_true, if_false]
      exact ih
    · have e1 : (e.key == k) = false := by simp [hk]
      rw [List.filter_cons]
      simp only [e1, Bool.not_false, if_true, List.find?_cons]
      rw [ih]
theorem findKey_append_one (es : List (TSEntry SvcKey)) (k k' : SvcKey) (t : Option Nat) :
    TStore.findKey (· == ·) (es ++ [⟨k, t⟩]) k' =
      (TStore.findKey (· == ·) es k').orElse (fun _ => if k = k' then some ⟨k, t⟩ else none) := by
  simp only [TStore.findKey, List.find?_append]
  cases h : List.find? (fun e => e.key == k') es with
  | some e => simp
  | none =>
    simp only [Option.or_none, Option.none_or, Option.orElse_none]
    by_cases hk : k = k' <;> simp [List.find?_cons, hk]

/-! ### Good under the two changes -/

theorem good_cancelled {q : Nat} {t : List Nat} {r : List (Option Nat)} (hg : Good (some q) t r) :
    Good none (t.filter (· ≠ q)) (r.filter (· ≠ some q)) := by
  rcases hg with ⟨h1, h2⟩ | ⟨h1, h2⟩ <;> subst h1 h2 <;> simp [Good]

theorem good_armed {t : List Nat} {r : List (Option Nat)} (hg : Good none t r) (ttl n : Nat) :
    Good (if ttl ≠ TTL_FOREVER then some n else none) (t ++ (if ttl ≠ TTL_FOREVER then [n] else [])) r := by
  obtain ⟨h1, h2⟩ := hg
  subst h1 h2
  by_cases hf : ttl ≠ TTL_FOREVER <;> simp [hf, Good]

/-! ### the store operations -/

theorem timerInv_touch (s : Stack) (a : Addr) (hi : TimerInv s) : TimerInv { s with found := s.found.touch a } := by
  intro a' k'
  show Good (heldOf (s.found.touch a) a' k') (hT s a' k') (hR s a' k')
  rw [heldOf_touch]; exact hi a' k'

theorem held_of_find {s : Stack} {a : Addr} {k : SvcKey} {old : TSEntry SvcKey}
    (h : TStore.findKey (· == ·) ((s.found.touch a).get a) k = some old) : held s a k = old.timer := by
  rw [tget_touch] at h
  simp [held, h]
theorem held_of_find_none {s : Stack} {a : Addr} {k : SvcKey}
    (h : TStore.findKey (· == ·) ((s.found.touch a).get a) k = none) : held s a k = none := by
  rw [tget_touch] at h
  simp [held, h]

/-- what is held after the entries of address `a` were replaced by a list that agrees with the old one except at `k` -/
theorem heldOf_replace (F : TStore SvcKey) (a a' : Addr) (k k' : SvcKey) (es' : List (TSEntry SvcKey))
    (hsame : ∀ k'', k'' ≠ k → TStore.findKey (· == ·) es' k'' = TStore.findKey (· == ·) (F.get a) k'')
    (hne : ¬ (a' = a ∧ k' = k)) : heldOf (F.set a es') a' k' = heldOf F a' k' := by
  rw [heldOf_set]
  split
  · rename_i ha
    have hk : k' ≠ k := fun e => hne ⟨ha, e⟩
    rw [hsame k' hk, ha]; rfl
  · rfl

theorem timerInv_foundStop (s : Stack) (a : Addr) (k : SvcKey) (hi : TimerInv s) : TimerInv (s.foundStop a k) := by
  unfold foundStop
  simp only []
  split
  · exact timerInv_touch s a hi
  · rename_i old hfind
    apply timerInv_of_svcT (svcT_notifyService _ _ _ _)
    intro a' k'
    rw [hT_cancel, hR_cancel]
    show Good (heldOf ((s.found.touch a).set a (TStore.eraseKey (· == ·) ((s.found.touch a).get a) k)) a' k') _ _
    by_cases h : a' = a ∧ k' = k
    · rw [if_pos h, if_pos h, h.1, h.2, heldOf_set, if_pos rfl, findKey_erase_same]
      have hg := hi a k
      rw [held_of_find hfind] at hg
      cases ht : old.timer with
      | none => rw [ht] at hg; exact hg
      | some q => rw [ht] at hg; exact good_cancelled hg
    · rw [if_neg h, if_neg h]
      rw [heldOf_replace (s.found.touch a) a a' k k' _ (fun k'' hk'' => findKey_erase_other _ _ _ hk'') h, heldOf_touch]
      exact hi a' k'

theorem hT_with_found (s : Stack) (F : TStore SvcKey) (a : Addr) (k : SvcKey) : hT { s with found := F } a k = hT s a k := rfl
theorem hR_with_found (s : Stack) (F : TStore SvcKey) (a : Addr) (k : SvcKey) : hR { s with found := F } a k = hR s a k := rfl
theorem held_with_found (s : Stack) (F : TStore SvcKey) (a : Addr) (k : SvcKey) : held { s with found := F } a k = heldOf F a k := rfl

theorem orElse_none' {α : Type} (o : Option α) : (o.orElse fun _ => none) = o := by cases o <;> rfl

/-- the common tail of `TimedStore.refresh`: arm the new handle and store the entry -/
theorem timerInv_refresh_core (s X : Stack) (ttl : Nat) (a : Addr) (k : SvcKey) (es' : List (TSEntry SvcKey))
    (hi : TimerInv s) (hfound : X.found = s.found.touch a)
    (hnone : TStore.findKey (· == ·) es' k = none)
    (hsame : ∀ k'', k'' ≠ k → TStore.findKey (· == ·) es' k'' = TStore.findKey (· == ·) ((s.found.touch a).get a) k'')
    (hXT : ∀ a' k', ¬ (a' = a ∧ k' = k) → hT X a' k' = hT s a' k' ∧ hR X a' k' = hR s a' k')
    (hXk : Good none (hT X a k) (hR X a k)) :
    TimerInv { (X.armTtl ttl (.expiredSvc a k)).1 with
      found := ((X.armTtl ttl (.expiredSvc a k)).1.found.touch a).set a (es' ++ [⟨k, (X.armTtl ttl (.expiredSvc a k)).2⟩]) } := by
  intro a' k'
  rw [hT_with_found, hR_with_found, held_with_found, hT_arm, hR_arm, found_arm, hfound]
  by_cases h : a' = a ∧ k' = k
  · rw [if_pos h, h.1, h.2, heldOf_set, if_pos rfl, findKey_append_one, hnone]
    simp only [Option.orElse_none, if_true, Option.bind_some, snd_arm]
    exact good_armed hXk ttl _
  · rw [if_neg h]
    have hs : ∀ k'', k'' ≠ k → TStore.findKey (· == ·) (es' ++ [⟨k, (X.armTtl ttl (.expiredSvc a k)).2⟩]) k'' =
        TStore.findKey (· == ·) (((s.found.touch a).touch a).get a) k'' := by
      intro k'' hk
      rw [findKey_append_one, tget_touch, hsame k'' hk]
      have : ¬ k = k'' := fun e => hk e.symm
      simp only [this, if_false]
      exact orElse_none' _
    rw [heldOf_replace ((s.found.touch a).touch a) a a' k k' _ hs h, heldOf_touch, heldOf_touch]
    obtain ⟨e1, e2⟩ := hXT a' k' h
    rw [e1, e2]
    exact hi a' k'

theorem timerInv_foundRefresh (s : Stack) (ttl : Nat) (a : Addr) (k : SvcKey) (hi : TimerInv s) :
    TimerInv (s.foundRefresh ttl a k) := by
  unfold foundRefresh
  simp only []
  cases hfind : TStore.findKey (· == ·) ((s.found.touch a).get a) k with
  | some old =>
    simp only []
    refine timerInv_refresh_core s _ ttl a k _ hi rfl (findKey_erase_same _ _) (fun k'' hk => findKey_erase_other _ _ _ hk) ?_ ?_
    · intro a' k' h
      rw [hT_cancel, hR_cancel, if_neg h, if_neg h]
      exact ⟨rfl, rfl⟩
    · rw [hT_cancel, hR_cancel, if_pos ⟨rfl, rfl⟩, if_pos ⟨rfl, rfl⟩]
      have hg := hi a k
      rw [held_of_find hfind] at hg
      cases ht : old.timer with
      | none => rw [ht] at hg; exact hg
      | some q => rw [ht] at hg; exact good_cancelled hg
  | none =>
    simp only []
    have hsv := svcT_notifyService ({ s with found := s.found.touch a } : Stack) true k a
    refine timerInv_refresh_core s _ ttl a k _ hi (congrArg Prod.fst hsv) hfind (fun k'' _ => rfl) ?_ ?_
    · intro a' k' _
      exact ⟨hT_of_svcT hsv a' k', hR_of_svcT hsv a' k'⟩
    · rw [hT_of_svcT hsv, hR_of_svcT hsv]
      have hg := hi a k
      rw [held_of_find_none hfind] at hg
      exact hg

/-! ### flushing an address / the whole store -/

theorem findKey_cons (e : TSEntry SvcKey) (t : List (TSEntry SvcKey)) (k : SvcKey) :
    TStore.findKey (· == ·) (e :: t) k = if e.key = k then some e else TStore.findKey (· == ·) t k := by
  simp only [TStore.findKey, List.find?_cons]
  by_cases h : e.key = k
  · simp [h]
  · have : (e.key == k) = false := by simp [h]
    simp [h, this]

theorem stopAll_fold (a : Addr) : ∀ (es : List (TSEntry SvcKey)) (st : Stack), (es.map (·.key)).Nodup →
    (∀ k', Good ((TStore.findKey (· == ·) es k').bind (·.timer)) (hT st a k') (hR st a k')) →
    (∀ k', Good none (hT (es.foldl (fun s e => (s.cancelTimer (isSvcExpiryFor a e.key) e.timer).notifyService false e.key a) st) a k')
                     (hR (es.foldl (fun s e => (s.cancelTimer (isSvcExpiryFor a e.key) e.timer).notifyService false e.key a) st) a k')) ∧
    (∀ a' k', a' ≠ a →
      hT (es.foldl (fun s e => (s.cancelTimer (isSvcExpiryFor a e.key) e.timer).notifyService false e.key a) st) a' k' = hT st a' k' ∧
      hR (es.foldl (fun s e => (s.cancelTimer (isSvcExpiryFor a e.key) e.timer).notifyService false e.key a) st) a' k' = hR st a' k') ∧
    (es.foldl (fun s e => (s.cancelTimer (isSvcExpiryFor a e.key) e.timer).notifyService false e.key a) st).found = st.found := by
  intro es
  induction es with
  | nil =>
    intro st _ h
    exact ⟨fun k' => by simpa [TStore.findKey] using h k', fun _ _ _ => ⟨rfl, rfl⟩, rfl⟩
  | cons e t ih =>
    intro st hnd h
    rw [List.foldl_cons]
    have hsv := svcT_notifyService (st.cancelTimer (isSvcExpiryFor a e.key) e.timer) false e.key a
    simp only [List.map_cons, List.nodup_cons] at hnd
    have hstep : ∀ k', Good ((TStore.findKey (· == ·) t k').bind (·.timer))
        (hT ((st.cancelTimer (isSvcExpiryFor a e.key) e.timer).notifyService false e.key a) a k')
        (hR ((st.cancelTimer (isSvcExpiryFor a e.key) e.timer).notifyService false e.key a) a k') := by
      intro k'
      rw [hT_of_svcT hsv, hR_of_svcT hsv, hT_cancel, hR_cancel]
      have hg := h k'
      rw [findKey_cons] at hg
      by_cases hk : k' = e.key
      · subst hk
        rw [if_pos ⟨rfl, rfl⟩, if_pos ⟨rfl, rfl⟩]
        have hn : TStore.findKey (· == ·) t e.key = none := by
          simp only [TStore.findKey, List.find?_eq_none]
          intro x hx
          have : x.key ≠ e.key := fun q => hnd.1 (List.mem_map.mpr ⟨x, hx, q⟩)
          simp [this]
        rw [hn]
        simp only [if_true, Option.bind_some, Option.bind_none] at hg ⊢
        cases ht : e.timer with
        | none => rw [ht] at hg; exact hg
        | some q => rw [ht] at hg; exact good_cancelled hg
      · have : ¬ (a = a ∧ k' = e.key) := fun q => hk q.2
        have hk2 : ¬ e.key = k' := fun q => hk q.symm
        rw [if_neg this, if_neg this]
        rw [if_neg hk2] at hg
        exact hg
    obtain ⟨i1, i2, i3⟩ := ih _ hnd.2 hstep
    refine ⟨i1, fun a' k' ha => ?_, ?_⟩
    · obtain ⟨e1, e2⟩ := i2 a' k' ha
      rw [e1, e2, hT_of_svcT hsv, hR_of_svcT hsv, hT_cancel, hR_cancel]
      have : ¬ (a' = a ∧ k' = e.key) := fun q => ha q.1
      rw [if_neg this, if_neg this]
      exact ⟨rfl, rfl⟩
    · rw [i3]
      exact congrArg Prod.fst hsv

theorem timerInv_foundStopAllFor (s : Stack) (a : Addr) (hs : StoreInv s) (hi : TimerInv s) : TimerInv (s.foundStopAllFor a) := by
  unfold foundStopAllFor
  simp only []
  have hnd : (((s.found.touch a).get a).map (·.key)).Nodup := by rw [tget_touch]; exact hs.1 a
  have h0 : ∀ k', Good ((TStore.findKey (· == ·) ((s.found.touch a).get a) k').bind (·.timer))
      (hT ({ s with found := (s.found.touch a).set a [] } : Stack) a k') (hR ({ s with found := (s.found.touch a).set a [] } : Stack) a k') := by
    intro k'
    rw [tget_touch, hT_with_found, hR_with_found]
    exact hi a k'
  obtain ⟨i1, i2, i3⟩ := stopAll_fold a _ ({ s with found := (s.found.touch a).set a [] } : Stack) hnd h0
  intro a' k'
  have hh : held (((s.found.touch a).get a).foldl (fun s e => (s.cancelTimer (isSvcExpiryFor a e.key) e.timer).notifyService false e.key a)
      ({ s with found := (s.found.touch a).set a [] } : Stack)) a' k' = heldOf ((s.found.touch a).set a []) a' k' := by
    rw [held_eq, i3]
  rw [hh, heldOf_set]
  by_cases ha : a' = a
  · rw [if_pos ha, ha]
    simpa [TStore.findKey] using i1 k'
  · rw [if_neg ha, heldOf_touch]
    obtain ⟨e1, e2⟩ := i2 a' k' ha
    rw [e1, e2, hT_with_found, hR_with_found]
    exact hi a' k'

theorem keysAt_foundStopAllFor (st : Stack) (q a' : Addr) :
    keysAt (st.foundStopAllFor q) a' = if a' = q then [] else keysAt st a' := by
  unfold foundStopAllFor; simp only []
  have hd := disc_flush_fold q ((st.found.touch q).get q) ({ st with found := (st.found.touch q).set q [] } : Stack)
  have hfound : (((st.found.touch q).get q).foldl (fun s e => (s.cancelTimer (isSvcExpiryFor q e.key) e.timer).notifyService false e.key q)
      ({ st with found := (st.found.touch q).set q [] } : Stack)).found = (st.found.touch q).set q [] := congrArg Prod.fst hd
  unfold keysAt; rw [hfound]
  by_cases ha : a' = q
  · subst ha; simp [tget_set_same]
  · simp only [ha, if_false, tget_set_other _ _ _ _ ha, tget_touch]

/-- both invariants together -/
def Inv2 (s : Stack) : Prop := StoreInv s ∧ TimerInv s

theorem inv2_foundStopAllFor (s : Stack) (a : Addr) (h : Inv2 s) : Inv2 (s.foundStopAllFor a) :=
  ⟨storeInv_foundStopAllFor s a h.1, timerInv_foundStopAllFor s a h.1 h.2⟩

theorem held_none_of_keys_nil {s : Stack} {a : Addr} (h : keysAt s a = []) (k : SvcKey) : held s a k = none := by
  unfold keysAt at h
  have : s.found.get a = [] := by simpa using h
  simp [held, this, TStore.findKey]

theorem inv2_foundStopAll (s : Stack) (h : Inv2 s) : Inv2 s.foundStopAll := by
  refine ⟨storeInv_foundStopAll s h.1, ?_⟩
  unfold foundStopAll
  simp only []
  have key : ∀ (l : TStore SvcKey) (st : Stack), Inv2 st →
      Inv2 (l.foldl (fun s p => s.foundStopAllFor p.1) st) ∧
      (∀ a, (∀ p ∈ l, p.1 ≠ a) → keysAt (l.foldl (fun s p => s.foundStopAllFor p.1) st) a = keysAt st a) ∧
      (∀ a, (∃ p ∈ l, p.1 = a) → keysAt (l.foldl (fun s p => s.foundStopAllFor p.1) st) a = []) := by
    intro l
    induction l with
    | nil => intro st h; exact ⟨h, fun _ _ => rfl, fun a ⟨p, hp, _⟩ => by cases hp⟩
    | cons q t ih =>
      intro st h
      rw [List.foldl_cons]
      obtain ⟨i1, i2, i3⟩ := ih (st.foundStopAllFor q.1) (inv2_foundStopAllFor st q.1 h)
      refine ⟨i1, fun a ha => ?_, fun a ⟨p, hp, hpa⟩ => ?_⟩
      · rw [i2 a (fun p hp => ha p (by simp [hp])), keysAt_foundStopAllFor]
        have : ¬ (a = q.1) := fun e => ha q (by simp) e.symm
        simp [this]
      · by_cases hin : ∃ p ∈ t, p.1 = a
        · exact i3 a hin
        · have hq : q.1 = a := by
            rcases List.mem_cons.mp hp with e | e
            · rw [← e]; exact hpa
            · exact absurd ⟨p, e, hpa⟩ hin
          rw [i2 a (fun p hp hpe => hin ⟨p, hp, hpe⟩), keysAt_foundStopAllFor]; simp [hq]
  obtain ⟨i1, i2, i3⟩ := key s.found s h
  have hempty : ∀ a, keysAt (s.found.foldl (fun s p => s.foundStopAllFor p.1) s) a = [] := by
    intro a
    by_cases hin : ∃ p ∈ s.found, p.1 = a
    · exact i3 a hin
    · rw [i2 a (fun p hp hpe => hin ⟨p, hp, hpe⟩)]
      unfold keysAt TStore.get
      have : s.found.find? (fun p => decide (p.1 = a)) = none := by
        simp only [List.find?_eq_none]; intro p hp; simpa using fun e => hin ⟨p, hp, e⟩
      simp [this]
  intro a k
  rw [hT_with_found, hR_with_found, held_with_found]
  have hg := i1.2 a k
  rw [held_none_of_keys_nil (hempty a) k] at hg
  simpa [heldOf, TStore.get, TStore.findKey] using hg

/-! ### the loop steps -/

/-- an expiry callback that was popped from the ready queue: it finds the entry it was armed for, and removes it -/
theorem timerInv_run_expiredSvc (s : Stack) (q : Option Nat) (a : Addr) (k : SvcKey) (rest : List (RItem Cb))
    (hr : s.loop.ready = ⟨q, .expiredSvc a k⟩ :: rest) (hi : TimerInv s) :
    (∃ old, TStore.findKey (· == ·) (s.found.get a) k = some old ∧ old.timer = q ∧ q ≠ none) ∧
    TimerInv (({ s with loop := { s.loop with ready := rest } } : Stack).expiredSvc a k) := by
  have hfor : isSvcExpiryFor a k (Cb.expiredSvc a k) = true := for_iff.mpr rfl
  have hRk : hR s a k = q :: ((rest.filter (fun r => isSvcExpiryFor a k r.cb)).map (·.seq)) := by
    unfold hR; rw [hr]; simp [List.filter_cons, hfor]
  have hg := hi a k
  rw [hRk] at hg
  -- the only possibility: the entry is stored and holds exactly this handle
  cases hh : held s a k with
  | none => rw [hh] at hg; exact absurd hg.2 (by simp)
  | some q0 =>
    rw [hh] at hg
    rcases hg with ⟨_, h2⟩ | ⟨h1, h2⟩
    · exact absurd h2 (by simp)
    · simp only [List.cons.injEq, List.map_eq_nil_iff] at h2
      obtain ⟨hq, hrest⟩ := h2
      have hfind : ∃ old, TStore.findKey (· == ·) (s.found.get a) k = some old ∧ old.timer = some q0 := by
        unfold held at hh
        cases hf : TStore.findKey (· == ·) (s.found.get a) k with
        | none => rw [hf] at hh; cases hh
        | some old => rw [hf] at hh; exact ⟨old, rfl, by simpa using hh⟩
      obtain ⟨old, hf, hot⟩ := hfind
      refine ⟨⟨old, hf, by rw [hot, hq], by rw [hq]; simp⟩, ?_⟩
      -- after the pop the pair (a, k) has no handle left; everything else is untouched
      have hpopT : ∀ a' k', hT ({ s with loop := { s.loop with ready := rest } } : Stack) a' k' = hT s a' k' := fun _ _ => rfl
      have hpopR : ∀ a' k', ¬ (a' = a ∧ k' = k) → hR ({ s with loop := { s.loop with ready := rest } } : Stack) a' k' = hR s a' k' := by
        intro a' k' hne
        unfold hR; rw [hr]
        have : isSvcExpiryFor a' k' (Cb.expiredSvc a k) = false := for_other hfor hne
        simp [List.filter_cons, this]
      unfold expiredSvc
      simp only []
      have hf' : TStore.findKey (· == ·) ((s.found.touch a).get a) k = some old := by rw [tget_touch]; exact hf
      rw [hf']
      simp only []
      apply timerInv_of_svcT (svcT_notifyService _ _ _ _)
      intro a' k'
      show Good (heldOf ((s.found.touch a).set a (TStore.eraseKey (· == ·) ((s.found.touch a).get a) k)) a' k')
        (hT ({ s with loop := { s.loop with ready := rest } } : Stack) a' k')
        (hR ({ s with loop := { s.loop with ready := rest } } : Stack) a' k')
      by_cases hne : a' = a ∧ k' = k
      · rw [hne.1, hne.2, heldOf_set, if_pos rfl, findKey_erase_same, hpopT]
        refine ⟨h1, ?_⟩
        unfold hR
        simp only [List.map_eq_nil_iff]
        exact hrest
      · rw [heldOf_replace (s.found.touch a) a a' k k' _ (fun k'' hk'' => findKey_erase_other _ _ _ hk'') hne, heldOf_touch,
          hpopT, hpopR a' k' hne]
        exact hi a' k'

/-- popping any other callback leaves all expiry handles where they are -/
theorem svcT_pop_other (s : Stack) (q : Option Nat) (cb : Cb) (rest : List (RItem Cb))
    (hr : s.loop.ready = ⟨q, cb⟩ :: rest) (hcb : isSvcExpiry cb = false) :
    svcT ({ s with loop := { s.loop with ready := rest } } : Stack) = svcT s := by
  simp only [svcT, hr, List.filter_cons, hcb]
  rfl

theorem eraseP_find_filter_other {α : Type} (L : List α) (pe p : α → Bool) (t : α) (hf : L.find? pe = some t)
    (hp : p t = false) : (L.eraseP pe).filter p = L.filter p := by
  induction L with
  | nil => cases hf
  | cons x xs ih =>
    cases hx : pe x
    · have hf2 : xs.find? pe = some t := by simpa [List.find?_cons, hx] using hf
      simp only [List.eraseP_cons, hx, cond_false, List.filter_cons, ih hf2]
    · have : x = t := by simpa [List.find?_cons, hx] using hf
      subst this
      simp [List.eraseP_cons, hx, List.filter_cons, hp]

theorem eraseP_find_filter_same {α : Type} (L : List α) (pe p : α → Bool) (t : α) (hf : L.find? pe = some t)
    (hp : p t = true) : ((L.eraseP pe).filter p).length + 1 = (L.filter p).length := by
  induction L with
  | nil => cases hf
  | cons x xs ih =>
    cases hx : pe x
    · have hf2 : xs.find? pe = some t := by simpa [List.find?_cons, hx] using hf
      have := ih hf2
      simp only [List.eraseP_cons, hx, cond_false, List.filter_cons]
      cases p x
      · simpa using this
      · simp only [if_true, List.length_cons]; omega
    · have : x = t := by simpa [List.find?_cons, hx] using hf
      subst this
      simp [List.eraseP_cons, hx, List.filter_cons, hp]

theorem timerInv_fire (s : Stack) (q : Nat) (l : Loop Cb) (h : s.loop.fire q = some l) (hi : TimerInv s) :
    TimerInv ({ s with loop := l } : Stack) := by
  unfold Loop.fire at h
  cases hf : s.loop.timers.find? (fun t => decide (t.seq = q)) with
  | none => rw [hf] at h; cases h
  | some t =>
    rw [hf] at h
    simp only [] at h
    split at h
    · simp only [Option.some.injEq] at h
      subst h
      have hmem := List.mem_of_find?_eq_some hf
      have hseq : t.seq = q := by have := List.find?_some hf; simpa using this
      intro a k
      show Good (held s a k)
        ((((s.loop.timers.eraseP (fun t => decide (t.seq = q))).filter (fun t => isSvcExpiryFor a k t.cb)).map (·.seq)))
        (((s.loop.ready ++ [(⟨some q, t.cb⟩ : RItem Cb)]).filter (fun (r : RItem Cb) => isSvcExpiryFor a k r.cb)).map (·.seq))
      have hg := hi a k
      cases hfor : isSvcExpiryFor a k t.cb
      · -- a handle of somebody else: the lists of (a, k) do not change
        rw [eraseP_find_filter_other _ _ (fun t => isSvcExpiryFor a k t.cb) t hf hfor]
        simp only [List.filter_append, List.filter_cons, hfor, Bool.false_eq_true, if_false, List.filter_nil, List.append_nil]
        exact hg
      · -- the fired handle belongs to (a, k): it is the one the entry holds
        have hin : q ∈ hT s a k := by
          unfold hT
          exact List.mem_map.mpr ⟨t, List.mem_filter.mpr ⟨hmem, hfor⟩, hseq⟩
        have hlen := eraseP_find_filter_same _ _ (fun t => isSvcExpiryFor a k t.cb) t hf hfor
        cases hh : held s a k with
        | none => rw [hh] at hg; rw [hg.1] at hin; cases hin
        | some q0 =>
          rw [hh] at hg
          rcases hg with ⟨h1, h2⟩ | ⟨h1, _⟩
          · rw [h1] at hin
            have hq0 : q = q0 := by simpa using hin
            subst hq0
            right
            have hone : (s.loop.timers.filter (fun t => isSvcExpiryFor a k t.cb)).length = 1 := by
              have := congrArg List.length h1
              simpa [hT] using this
            have hnil : (s.loop.timers.eraseP (fun t => decide (t.seq = q))).filter (fun t => isSvcExpiryFor a k t.cb) = [] :=
              List.length_eq_zero_iff.mp (by omega)
            refine ⟨by rw [hnil]; rfl, ?_⟩
            have h2' : s.loop.ready.filter (fun r => isSvcExpiryFor a k r.cb) = [] := by
              unfold hR at h2; simpa using h2
            simp only [List.filter_append, h2', List.filter_cons, hfor, if_true, List.filter_nil, List.nil_append, List.map_cons,
              List.map_nil]
          · rw [h1] at hin; cases hin
    · cases h

theorem svcT_adv (s : Stack) (t : Nat) (l : Loop Cb) (h : s.loop.adv t = some l) : svcT ({ s with loop := l } : Stack) = svcT s := by
  unfold Loop.adv at h
  split at h
  · simp only [Option.some.injEq] at h; subst h; rfl
  · cases h

/-! ### lifting to inputs and events -/

theorem inv2_of_frames {s s' : Stack} (hd : disc s' = disc s) (ht : svcT s' = svcT s) (h : Inv2 s) : Inv2 s' :=
  ⟨storeInv_of_disc hd h.1, timerInv_of_svcT ht h.2⟩

theorem inv2_handleOffer (s : Stack) (e : SDEntry) (a : Addr) (h : Inv2 s) : Inv2 (s.handleOffer e a) := by
  refine ⟨storeInv_handleOffer s e a h.1, ?_⟩
  unfold handleOffer
  simp only []
  split
  · split
    · exact timerInv_foundStop _ _ _ h.2
    · exact h.2
  · split
    · exact timerInv_foundStop _ _ _ h.2
    · exact timerInv_foundRefresh _ _ _ _ h.2

theorem inv2_rebootDetected (s : Stack) (a : Addr) (h : Inv2 s) : Inv2 (s.rebootDetected a) := by
  unfold rebootDetected
  exact inv2_of_frames (disc_announcerReboot _ _) (svcT_announcerReboot _ _) (inv2_foundStopAllFor s a h)

theorem inv2_foldl {α : Type} (f : Stack → α → Stack) (h : ∀ s x, Inv2 s → Inv2 (f s x)) (l : List α) (s : Stack)
    (hi : Inv2 s) : Inv2 (l.foldl f s) := by
  induction l generalizing s with
  | nil => exact hi
  | cons x t ih => rw [List.foldl_cons]; exact ih _ (h s x hi)

theorem inv2_sdMessageReceived (s : Stack) (m : SDHeader) (a : Addr) (mc : Bool) (hi : Inv2 s) :
    Inv2 (s.sdMessageReceived m a mc) := by
  unfold sdMessageReceived
  split
  · exact hi
  · refine inv2_foldl _ (fun s e h => ?_) _ _ hi
    split
    · exact inv2_handleOffer _ _ _ h
    · exact h
    · exact inv2_of_frames (disc_handleFind _ _ _ _) (svcT_handleFind _ _ _ _) h
    · split
      · exact h
      · exact inv2_of_frames (disc_handleSubscribe _ _ _) (svcT_handleSubscribe _ _ _) h

theorem inv2_messageReceived (s : Stack) (h : Header) (a : Addr) (mc : Bool) (hi : Inv2 s) :
    Inv2 (s.messageReceived h a mc) := by
  unfold messageReceived
  split
  · exact hi
  · split
    · exact hi
    · rename_i m r hp
      simp only []
      have h0 : Inv2 ({ s with incoming := (checkReceived s.incoming a mc m.flagReboot h.sess).2 } : Stack) :=
        inv2_of_frames (s := s) rfl rfl hi
      have h1 : Inv2 (if (checkReceived s.incoming a mc m.flagReboot h.sess).1 = true
          then ({ s with incoming := (checkReceived s.incoming a mc m.flagReboot h.sess).2 } : Stack).rebootDetected a
          else ({ s with incoming := (checkReceived s.incoming a mc m.flagReboot h.sess).2 } : Stack)) := by
        split
        · exact inv2_rebootDetected _ a h0
        · exact h0
      split
      · exact inv2_of_frames (s' := Stack.emit _ _) rfl rfl h1
      · exact inv2_sdMessageReceived _ _ _ _ h1

theorem inv2_datagramReceived (s : Stack) (b : Bytes) (a : Addr) (mc : Bool) (hi : Inv2 s) :
    Inv2 (s.datagramReceived b a mc) := by
  unfold datagramReceived
  exact inv2_foldl _ (fun s h hh => inv2_messageReceived s h a mc hh) _ _ hi

theorem inv2_applyInput (s : Stack) (x : Input) (hi : Inv2 s) : Inv2 (s.applyInput x) := by
  cases x with
  | dgram a mc b => exact inv2_datagramReceived s b a mc hi
  | start => exact inv2_of_frames (disc_start s) (svcT_start s) hi
  | stop => exact inv2_of_frames (disc_stop s) (svcT_stop s) hi
  | connLost => exact inv2_of_frames (disc_connectionLost s) (svcT_connectionLost s) hi
  | watch f l => exact inv2_of_frames (disc_watchService s f l) (svcT_watchService s f l) hi
  | unwatch f l => exact inv2_of_frames (disc_stopWatchService s f l) (svcT_stopWatchService s f l) hi
  | watchAll id => exact inv2_of_frames (disc_watchAllServices s id) (svcT_watchAllServices s id) hi
  | unwatchAll id => exact inv2_of_frames (disc_stopWatchAllServices s id) (svcT_stopWatchAllServices s id) hi
  | subscribe g d => exact inv2_of_frames (disc_subscribeEventgroup s g d) (svcT_subscribeEventgroup s g d) hi
  | stopSubscribe g d => exact inv2_of_frames (disc_stopSubscribeEventgroup s g d true) (svcT_stopSubscribeEventgroup s g d true) hi
  | announce i => exact inv2_of_frames (disc_announceService s i) (svcT_announceService s i) hi
  | stopAnnounce i b => exact inv2_of_frames (disc_stopAnnounceService s i b) (svcT_stopAnnounceService s i b) hi
  | setNak i egs =>
    simp only [applyInput]
    split
    · exact inv2_of_frames (disc_setInst s i _) (svcT_setInst s i _) hi
    · exact hi
  | draws ds => exact inv2_of_frames (s := s) (s' := { s with draws := s.draws ++ ds }) rfl rfl hi
  | announcerStop => exact inv2_of_frames (disc_announcerStop s) (svcT_announcerStop s) hi
  | announcerStart => exact inv2_of_frames (disc_announcerStart s) (svcT_announcerStart s) hi

/-- every callback other than a discovery-store expiry -/
theorem inv2_runCb_other (s : Stack) (cb : Cb) (hcb : isSvcExpiry cb = false) (hi : Inv2 s) : Inv2 (s.runCb cb) := by
  cases cb with
  | connLost p =>
    cases p with
    | subscriber => exact inv2_of_frames (disc_subscriberStop s false) (svcT_subscriberStop s false) hi
    | discovery => exact inv2_foundStopAll s hi
    | announcer => exact inv2_of_frames (disc_announcerStop s) (svcT_announcerStop s) hi
  | expiredSvc a k => cases hcb
  | expiredSub i a k => exact inv2_of_frames (disc_expiredSub s i a k) (svcT_expiredSub s i a k) hi
  | sendStartSubscribe d egs => exact inv2_of_frames (disc_sendSubscribe s _ d egs) (svcT_sendSubscribe s _ d egs) hi
  | sendStopSubscribe d egs => exact inv2_of_frames (disc_sendSubscribe s _ d egs) (svcT_sendSubscribe s _ d egs) hi
  | sendOfferTo i a => exact inv2_of_frames (disc_sendOffer s i _ _) (svcT_sendOffer s i _ _) hi
  | collectorTimeout cid => exact inv2_of_frames (disc_collectorTimeout s cid) (svcT_collectorTimeout s cid) hi
  | sleepDone tid => exact inv2_of_frames (disc_sleepDone s tid) (svcT_sleepDone s tid) hi
  | taskStep tid =>
    simp only [runCb]
    split
    · exact hi
    · split
      · exact hi
      · split
        · exact inv2_of_frames ((disc_stepOffer _ _ _ _).trans (disc_cancelTimer _ _ _))
            ((svcT_stepOffer _ _ _ _).trans (svcT_cancelTimer_sleep _ _ _)) hi
        · exact inv2_of_frames ((disc_stepFind _ _ _).trans (disc_cancelTimer _ _ _))
            ((svcT_stepFind _ _ _).trans (svcT_cancelTimer_sleep _ _ _)) hi
        · exact inv2_of_frames ((disc_stepSubscribe _ _ _).trans (disc_cancelTimer _ _ _))
            ((svcT_stepSubscribe _ _ _).trans (svcT_cancelTimer_sleep _ _ _)) hi

theorem inv2_step (s s' : Stack) (e : Event) (h : s.step e = some s') (hi : Inv2 s) : Inv2 s' := by
  cases e with
  | input x => simp only [step, Option.some.injEq] at h; subst h; exact inv2_applyInput s x hi
  | run =>
    simp only [step, Loop.pop] at h
    cases hr : s.loop.ready with
    | nil => rw [hr] at h; cases h
    | cons r rest =>
      rw [hr] at h
      simp only [Option.some.injEq] at h
      subst h
      obtain ⟨q, cb⟩ := r
      cases hcb : isSvcExpiry cb
      · exact inv2_runCb_other _ cb hcb (inv2_of_frames (s := s) rfl (svcT_pop_other s q cb rest hr hcb) hi)
      · cases cb with
        | expiredSvc a k =>
          refine ⟨storeInv_expiredSvc _ a k (storeInv_of_disc (s := s) rfl hi.1), ?_⟩
          exact (timerInv_run_expiredSvc s q a k rest hr hi.2).2
        | _ => cases hcb
  | fire q =>
    simp only [step] at h
    cases hf : s.loop.fire q with
    | none => rw [hf] at h; cases h
    | some l =>
      rw [hf] at h; simp at h; subst h
      exact ⟨storeInv_of_disc (s := s) rfl hi.1, timerInv_fire s q l hf hi.2⟩
  | adv t =>
    simp only [step] at h
    cases hf : s.loop.adv t with
    | none => rw [hf] at h; cases h
    | some l =>
      rw [hf] at h; simp at h; subst h
      exact inv2_of_frames (s := s) rfl (svcT_adv s t l hf) hi

end Stack
end Someip
