/-
  Frame lemmas for the liveness invariant of the offer tasks: the offer tasks and their step callbacks in the ready queue.
  Generated from the scripts of RFrame.lean (the same projection for the subscribe tasks).
-/
import SomeipModel.Lemmas.OffFrame
import SomeipModel.Lemmas.RFrame
namespace Someip
namespace Stack
set_option linter.unusedSimpArgs false

/-- step callbacks of offer tasks -/
def isOStep : Cb → Bool
  | .taskStep (.offer _, _) => true
  | _ => false

/-- what the liveness invariant of the offer tasks depends on -/
def oqi (s : Stack) : List (RItem Cb) × List (Tid × TaskSt) :=
  (s.loop.ready.filter (fun r => isOStep r.cb), s.tasks.filter isOfferT)

theorem oqi_callSoon (s : Stack) (cb : Cb) (h : isOStep cb = false) : oqi (s.callSoon cb) = oqi s := by
  simp [oqi, callSoon, Loop.callSoon, List.filter_append, h]
@[simp] theorem oqi_callLater (s : Stack) (d : Nat) (cb : Cb) : oqi (s.callLater d cb).1 = oqi s := rfl

@[simp] theorem isOS_sleepDone (tid : Tid) : isOStep (.sleepDone tid) = false := rfl
theorem isOS_taskStep_other {tid : Tid} (h : isOfferK tid.1 = false) : isOStep (.taskStep tid) = false := by
  obtain ⟨k, n⟩ := tid
  cases k <;> simp_all [isOStep, isOfferK]
theorem oqi_callSoon_taskStep (s : Stack) (t : Tid) (h : isOfferK t.1 = false) : oqi (s.callSoon (.taskStep t)) = oqi s :=
  oqi_callSoon _ _ (isOS_taskStep_other h)
theorem oqi_callLater_sleepDone (s : Stack) (d : Nat) (t : Tid) (h : isOfferK t.1 = false) : oqi (s.callLater d (.sleepDone t)).1 = oqi s := rfl

/-- cancelling a timer handle: a step callback is never scheduled with a handle that anybody cancels -/
theorem oqi_cancelTimer_other (s : Stack) (own : Cb → Bool) (t : Option Nat) (h : ∀ cb, own cb = true → isOStep cb = false) :
    oqi (s.cancelTimer own t) = oqi s := by
  cases t with
  | none => rfl
  | some q =>
    simp only [oqi, cancelTimer, Loop.cancelOpt, Loop.cancel, List.filter_filter]
    refine Prod.ext ?_ rfl
    apply List.filter_congr; intro x _
    cases h1 : isOStep x.cb
    · simp
    · have : own x.cb = false := by
        cases h2 : own x.cb
        · rfl
        · have := h _ h2; rw [h1] at this; cases this
      simp [this]
@[simp] theorem oqi_cancelTimer_sleep (s : Stack) (tid : Tid) (t : Option Nat) : oqi (s.cancelTimer (isSleepFor tid) t) = oqi s :=
  oqi_cancelTimer_other s _ t (fun cb h => by cases cb <;> simp_all [isSleepFor, isOStep])

theorem oqi_setTask (s : Stack) (tid : Tid) (x : TaskSt) (h : isOfferK tid.1 = false) : oqi (s.setTask tid x) = oqi s := by
  simp only [oqi, setTask]
  refine Prod.ext rfl ?_
  apply filter_map_keep
  intro p _
  by_cases hp : p.1 = tid
  · right; simp [hp, isOfferT, h]
  · left; simp [hp]

theorem oqi_createTask (s : Stack) (k : TaskKind) (h : isOfferK k = false) : oqi (s.createTask k).1 = oqi s := by
  unfold createTask; simp only []
  rw [oqi_callSoon_taskStep _ _ h]
  simp [oqi, List.filter_append, isOfferT, h]
@[simp] theorem oqi_createTask_sub (s : Stack) : oqi (s.createTask .subscribe).1 = oqi s := oqi_createTask _ _ rfl

@[simp] theorem oqi_with_subEntries (s : Stack) (x : List (Eventgroup × Addr)) : oqi { s with subEntries := x } = oqi s := rfl
@[simp] theorem oqi_with_subLog (s : Stack) (x : List (Addr × Nat × List Eventgroup)) : oqi { s with subLog := x } = oqi s := rfl
@[simp] theorem oqi_with_subDup (s : Stack) (x : Bool) : oqi { s with subDup := x } = oqi s := rfl
@[simp] theorem oqi_with_subLost (s : Stack) (x : Bool) : oqi { s with subLost := x } = oqi s := rfl
@[simp] theorem oqi_with_subDup_subEntries (s : Stack) (x : Bool) (y : List (Eventgroup × Addr)) : oqi { s with subDup := x, subEntries := y } = oqi s := rfl
@[simp] theorem oqi_with_watched (s : Stack) (x : List (Service × List Listener)) : oqi { s with watched := x } = oqi s := rfl
@[simp] theorem oqi_with_watchAll (s : Stack) (x : List LId) : oqi { s with watchAll := x } = oqi s := rfl
@[simp] theorem oqi_with_findTask (s : Stack) (x : Option Nat) : oqi { s with findTask := x } = oqi s := rfl
@[simp] theorem oqi_with_started (s : Stack) (x : Bool) : oqi { s with started := x } = oqi s := rfl
@[simp] theorem oqi_with_announceOrder (s : Stack) (x : List Nat) : oqi { s with announceOrder := x } = oqi s := rfl
@[simp] theorem oqi_with_incoming (s : Stack) (x : Incoming) : oqi { s with incoming := x } = oqi s := rfl
@[simp] theorem oqi_with_draws (s : Stack) (x : List Nat) : oqi { s with draws := x } = oqi s := rfl
@[simp] theorem oqi_with_storeLog (s : Stack) (x : List (Bool × SvcKey × Addr)) : oqi { s with storeLog := x } = oqi s := rfl
@[simp] theorem oqi_with_refreshLog (s : Stack) (x : List (Addr × SvcKey × Nat × Nat)) : oqi { s with refreshLog := x } = oqi s := rfl
@[simp] theorem oqi_with_armLog (s : Stack) (x : List (Cb × Nat × Nat)) : oqi { s with armLog := x } = oqi s := rfl
@[simp] theorem oqi_with_found_refreshLog (s : Stack) (x : TStore SvcKey) (y : List (Addr × SvcKey × Nat × Nat)) : oqi { s with found := x, refreshLog := y } = oqi s := rfl
@[simp] theorem oqi_with_found (s : Stack) (x : TStore SvcKey) : oqi { s with found := x } = oqi s := rfl
@[simp] theorem oqi_with_found_storeLog (s : Stack) (x : TStore SvcKey) (y : List (Bool × SvcKey × Addr)) : oqi { s with found := x, storeLog := y } = oqi s := rfl
@[simp] theorem oqi_with_collectors (s : Stack) (x : List Collector) : oqi { s with collectors := x } = oqi s := rfl
@[simp] theorem oqi_with_nextCid (s : Stack) (x : Nat) : oqi { s with nextCid := x } = oqi s := rfl
@[simp] theorem oqi_with_outgoing (s : Stack) (x : Outgoing) : oqi { s with outgoing := x } = oqi s := rfl
@[simp] theorem oqi_with_sendLog (s : Stack) (x : List (Dest × (Bool × Nat))) : oqi { s with sendLog := x } = oqi s := rfl
@[simp] theorem oqi_with_outgoing_sendLog (s : Stack) (x : Outgoing) (y : List (Dest × (Bool × Nat))) : oqi { s with outgoing := x, sendLog := y } = oqi s := rfl
@[simp] theorem oqi_with_findLog (s : Stack) (x : List (Nat × Nat)) : oqi { s with findLog := x } = oqi s := rfl
@[simp] theorem oqi_with_findMarks (s : Stack) (x : List (Nat × Nat)) : oqi { s with findMarks := x } = oqi s := rfl
@[simp] theorem oqi_with_ansLog (s : Stack) (x : List (Nat × Addr × Nat × Nat)) : oqi { s with ansLog := x } = oqi s := rfl
@[simp] theorem oqi_with_lisLog (s : Stack) (x : List (LId × Bool × SvcKey × Addr)) : oqi { s with lisLog := x } = oqi s := rfl
@[simp] theorem oqi_logLis (s : Stack) (id : LId) (o : Bool) (k : SvcKey) (a : Addr) : oqi (s.logLis id o k a) = oqi s := rfl
@[simp] theorem oqi_with_lisDup (s : Stack) (x : Bool) : oqi { s with lisDup := x } = oqi s := rfl
@[simp] theorem oqi_markDup (s : Stack) (d : Bool) : oqi (s.markDup d) = oqi s := rfl
@[simp] theorem oqi_logAnswer (s : Stack) (i : Nat) (a : Addr) (d : Nat) : oqi (s.logAnswer i a d) = oqi s := rfl
@[simp] theorem oqi_markFind (s : Stack) (n : Nat) : oqi (s.markFind n) = oqi s := rfl
@[simp] theorem oqi_with_offLog (s : Stack) (x : List (Nat × OEv × Nat)) : oqi { s with offLog := x } = oqi s := rfl
@[simp] theorem oqi_logOffer (s : Stack) (i : Nat) (e : OEv) : oqi (s.logOffer i e) = oqi s := rfl
@[simp] theorem oqi_with_flushLog (s : Stack) (x : List (Dest × List SDEntry)) : oqi { s with flushLog := x } = oqi s := rfl
@[simp] theorem oqi_with_instances (s : Stack) (x : List Instance) : oqi { s with instances := x } = oqi s := rfl
@[simp] theorem oqi_with_outs (s : Stack) (x : List (Nat × Out)) : oqi { s with outs := x } = oqi s := rfl
@[simp] theorem oqi_with_coll_nextCid (s : Stack) (x : List Collector) (y : Nat) : oqi { s with collectors := x, nextCid := y } = oqi s := rfl

@[simp] theorem oqi_with_subTask (s : Stack) (x : Option Nat) : oqi { s with subTask := x } = oqi s := rfl
@[simp] theorem oqi_with_alive (s : Stack) (x : Bool) : oqi { s with alive := x } = oqi s := rfl
@[simp] theorem oqi_with_alive_subLost (s : Stack) (x y : Bool) : oqi { s with alive := x, subLost := y } = oqi s := rfl
@[simp] theorem oqi_with_subMarks (s : Stack) (x : List (Option Nat × Nat)) : oqi { s with subMarks := x } = oqi s := rfl
@[simp] theorem oqi_markRound (s : Stack) (n : Nat) : oqi (s.markRound n) = oqi s := rfl
@[simp] theorem oqi_emit (s : Stack) (o : Out) : oqi (s.emit o) = oqi s := rfl

@[simp] theorem oqi_callSoon_connLost (s : Stack) (p : Part) : oqi (s.callSoon (.connLost p)) = oqi s := oqi_callSoon _ _ rfl
@[simp] theorem oqi_callSoon_expiredSvc (s : Stack) (a : Addr) (k : SvcKey) : oqi (s.callSoon (.expiredSvc a k)) = oqi s := oqi_callSoon _ _ rfl
@[simp] theorem oqi_callSoon_expiredSub (s : Stack) (i : Nat) (a : Addr) (k : SubKey) : oqi (s.callSoon (.expiredSub i a k)) = oqi s := oqi_callSoon _ _ rfl
@[simp] theorem oqi_callSoon_sendOfferTo (s : Stack) (i : Nat) (a : Addr) : oqi (s.callSoon (.sendOfferTo i a)) = oqi s := oqi_callSoon _ _ rfl
@[simp] theorem oqi_callSoon_collectorTimeout (s : Stack) (c : Nat) : oqi (s.callSoon (.collectorTimeout c)) = oqi s := oqi_callSoon _ _ rfl
@[simp] theorem oqi_callSoon_sendStart (s : Stack) (d' : Addr) (e : List Eventgroup) : oqi (s.callSoon (.sendStartSubscribe d' e)) = oqi s := oqi_callSoon _ _ rfl
@[simp] theorem oqi_callSoon_sendStop (s : Stack) (d' : Addr) (e : List Eventgroup) : oqi (s.callSoon (.sendStopSubscribe d' e)) = oqi s := oqi_callSoon _ _ rfl
@[simp] theorem oqi_cancelTimer_sub (s : Stack) (t : Option Nat) : oqi (s.cancelTimer isSubExpiry t) = oqi s :=
  oqi_cancelTimer_other s _ t (fun cb h => by cases cb <;> simp_all [isSubExpiry, isOStep])
@[simp] theorem oqi_cancelTimer_subFor (s : Stack) (i : Nat) (a : Addr) (k : SubKey) (t : Option Nat) : oqi (s.cancelTimer (isSubExpiryFor i a k) t) = oqi s :=
  oqi_cancelTimer_other s _ t (fun cb h => by cases cb <;> simp_all [isSubExpiryFor, isOStep])
@[simp] theorem oqi_cancelTimer_svc (s : Stack) (t : Option Nat) : oqi (s.cancelTimer isSvcExpiry t) = oqi s :=
  oqi_cancelTimer_other s _ t (fun cb h => by cases cb <;> simp_all [isSvcExpiry, isOStep])
@[simp] theorem oqi_cancelTimer_svcFor (s : Stack) (a : Addr) (k : SvcKey) (t : Option Nat) : oqi (s.cancelTimer (isSvcExpiryFor a k) t) = oqi s :=
  oqi_cancelTimer_other s _ t (fun cb h => by cases cb <;> simp_all [isSvcExpiryFor, isOStep])
@[simp] theorem isOS_connLost (p : Part) : isOStep (.connLost p) = false := rfl
@[simp] theorem isOS_expiredSvc (a : Addr) (k : SvcKey) : isOStep (.expiredSvc a k) = false := rfl
@[simp] theorem isOS_expiredSub (i : Nat) (a : Addr) (k : SubKey) : isOStep (.expiredSub i a k) = false := rfl
@[simp] theorem isOS_sendOfferTo (i : Nat) (a : Addr) : isOStep (.sendOfferTo i a) = false := rfl
@[simp] theorem isOS_collectorTimeout (c : Nat) : isOStep (.collectorTimeout c) = false := rfl

/-! task operations of the other components (typed task ids) -/


@[simp] theorem oqi_createTask_find (s : Stack) : oqi (s.createTask .find).1 = oqi s := oqi_createTask _ _ rfl

theorem oqi_cancelTask (s : Stack) (t : Tid) (h : isOfferK t.1 = false) : oqi (s.cancelTask t) = oqi s := by
  unfold cancelTask; split; rfl; split; rfl; split
  · rw [oqi_callSoon_taskStep _ _ h, oqi_setTask _ _ _ h]
  · rw [oqi_setTask _ _ _ h]
@[simp] theorem oqi_cancelTask_find (s : Stack) (n : Nat) : oqi (s.cancelTask (.find, n)) = oqi s := oqi_cancelTask _ _ rfl
theorem oqi_sleepFor (s : Stack) (tid : Tid) (t : TaskSt) (d : Nat) (pc : Pc) (h : isOfferK tid.1 = false) : oqi (s.sleepFor tid t d pc) = oqi s := by
  unfold sleepFor; split
  · rw [oqi_callSoon_taskStep _ _ h, oqi_setTask _ _ _ h]
  · simp only []; rw [oqi_setTask _ _ _ h, oqi_callLater_sleepDone _ _ _ h]
theorem oqi_finish (s : Stack) (tid : Tid) (t : TaskSt) (h : isOfferK tid.1 = false) : oqi (s.finish tid t) = oqi s := by
  unfold finish; rw [oqi_setTask _ _ _ h]
theorem oqi_sleepDone (s : Stack) (tid : Tid) (h : isOfferK tid.1 = false) : oqi (s.sleepDone tid) = oqi s := by
  unfold sleepDone; split; rfl; split
  · rw [oqi_callSoon_taskStep _ _ h, oqi_setTask _ _ _ h]
  · rfl

@[simp] theorem oqi_draw (s : Stack) (a b : Nat) : oqi (s.draw a b).1 = oqi s := by
  unfold draw; split <;> rfl
theorem oqi_armTtl (s : Stack) (ttl : Nat) (cb : Cb) (h : isOStep cb = false) : oqi (s.armTtl ttl cb).1 = oqi s := by
  unfold armTtl; split
  · exact oqi_callLater _ _ _
  · rfl
@[simp] theorem oqi_armTtl_sub (s : Stack) (ttl i : Nat) (a : Addr) (k : SubKey) : oqi (s.armTtl ttl (.expiredSub i a k)).1 = oqi s :=
  oqi_armTtl _ _ _ rfl
@[simp] theorem oqi_setInst (s : Stack) (i : Nat) (x : Instance) : oqi (s.setInst i x) = oqi s := rfl
@[simp] theorem oqi_sendSd (s : Stack) (es : List SDEntry) (d : Dest) : oqi (s.sendSd es d) = oqi s := by
  unfold sendSd; split; rfl; simp only []; split; rfl; split <;> rfl

@[simp] theorem oqi_flushTo (s : Stack) (es : List SDEntry) (d : Dest) : oqi (s.flushTo es d) = oqi s := by
  unfold flushTo; rw [oqi_sendSd]; rfl

@[simp] theorem oqi_newCollector (s : Stack) (d : Dest) : oqi (s.newCollector d).1 = oqi s := by
  unfold newCollector; simp only []
  exact (oqi_with_coll_nextCid _ _ _).trans (by simp)
@[simp] theorem oqi_appendCollector (s : Stack) (c : Nat) (e : SDEntry) : oqi (s.appendCollector c e) = oqi s := rfl

@[simp] theorem oqi_queueSend (s : Stack) (e : SDEntry) (d : Dest) : oqi (s.queueSend e d) = oqi s := by
  unfold queueSend; simp only []; split
  · simp
  · split
    · split <;> simp
    · simp

@[simp] theorem oqi_collectorTimeout (s : Stack) (c : Nat) : oqi (s.collectorTimeout c) = oqi s := by
  unfold collectorTimeout; split; rfl; simp only []; rw [oqi_flushTo]; rfl

@[simp] theorem oqi_sendOffer (s : Stack) (i : Nat) (r : Dest) (b : Bool) : oqi (s.sendOffer i r b) = oqi s := by
  unfold sendOffer; split; rfl; split; rfl; simp

@[simp] theorem oqi_subsStopAllFor (s : Stack) (i : Nat) (a : Addr) : oqi (s.subsStopAllFor i a) = oqi s := by
  unfold subsStopAllFor; split; rfl
  simp only []
  rw [foldl_pres oqi _ (fun s e => by simp)]; rfl

@[simp] theorem oqi_subsStopAll (s : Stack) (i : Nat) : oqi (s.subsStopAll i) = oqi s := by
  unfold subsStopAll; split; rfl
  simp only []
  split
  · simp only [oqi_setInst]; rw [foldl_pres oqi _ (fun s e => by simp)]
  · rw [foldl_pres oqi _ (fun s e => by simp)]


@[simp] theorem oqi_instHandleSubscribe (s : Stack) (i : Nat) (e : SDEntry) (a : Addr) :
    oqi (s.instHandleSubscribe i e a).1 = oqi s := by
  unfold instHandleSubscribe
  frame_cases

@[simp] theorem oqi_handleSubscribe (s : Stack) (e : SDEntry) (a : Addr) : oqi (s.handleSubscribe e a) = oqi s := by
  unfold handleSubscribe
  simp only []
  have key : ∀ (l : List Nat) (acc : Stack × Bool),
      oqi (l.foldl (fun (acc : Stack × Bool) i => ((acc.1.instHandleSubscribe i e a).1, acc.2 || (acc.1.instHandleSubscribe i e a).2)) acc).1 = oqi acc.1 := by
    intro l; induction l with
    | nil => intro acc; rfl
    | cons x t ih => intro acc; rw [List.foldl_cons, ih]; simp
  split
  · exact key _ _
  · rw [oqi_queueSend]; exact key _ _

@[simp] theorem oqi_handleFind (s : Stack) (e : SDEntry) (a : Addr) (mc : Bool) : oqi (s.handleFind e a mc) = oqi s := by
  unfold handleFind; simp only []
  split; rfl
  split
  · rw [foldl_pres oqi _ (fun s i => by simp)]; simp
  · rw [foldl_pres oqi _ (fun s i => by simp)]

@[simp] theorem oqi_expiredSub (s : Stack) (i : Nat) (a : Addr) (k : SubKey) : oqi (s.expiredSub i a k) = oqi s := by
  unfold expiredSub; split; rfl; simp only []; split <;> simp

@[simp] theorem oqi_announcerReboot (s : Stack) (a : Addr) : oqi (s.announcerReboot a) = oqi s := by
  unfold announcerReboot; rw [foldl_pres oqi _ (fun s i => by simp)]

theorem oqi_stepFind (s : Stack) (tid : Tid) (t : TaskSt) (h : isOfferK tid.1 = false) : oqi (s.stepFind tid t) = oqi s := by
  unfold stepFind
  simp only []
  have hs := fun (X : Stack) (t' : TaskSt) (d : Nat) (pc : Pc) => oqi_sleepFor X tid t' d pc h
  have hf := fun (X : Stack) (t' : TaskSt) => oqi_finish X tid t' h
  (repeat' split) <;> simp [hs, hf]

@[simp] theorem oqi_discoveryStart (s : Stack) : oqi s.discoveryStart = oqi s := by
  unfold discoveryStart; simp only []
  have h : oqi ({ (s.createTask .find).1 with findTask := some (s.createTask .find).2 } : Stack) = oqi s :=
    (oqi_with_findTask _ _).trans (oqi_createTask_find _)
  split
  · split
    · rfl
    · exact h
  · exact h

@[simp] theorem oqi_discoveryStop (s : Stack) : oqi s.discoveryStop = oqi s := by
  unfold discoveryStop; split
  · exact (oqi_with_findTask _ _).trans (oqi_cancelTask_find _ _)
  · rfl


@[simp] theorem oqi_sendSubscribe (s : Stack) (ttl : Nat) (d : Addr) (egs : List Eventgroup) :
    oqi (s.sendSubscribe ttl d egs) = oqi s := by simp [sendSubscribe]

@[simp] theorem oqi_subscribeEventgroup (s : Stack) (g : Eventgroup) (d : Addr) : oqi (s.subscribeEventgroup g d) = oqi s := by
  unfold subscribeEventgroup; simp only []; split <;> simp

@[simp] theorem oqi_stopSubscribeEventgroup (s : Stack) (g : Eventgroup) (d : Addr) (b : Bool) :
    oqi (s.stopSubscribeEventgroup g d b) = oqi s := by
  unfold stopSubscribeEventgroup; split
  · simp only []; split <;> simp
  · rfl




@[simp] theorem oqi_listenerOffered (s : Stack) (l : Listener) (k : SvcKey) (a : Addr) : oqi (s.listenerOffered l k a) = oqi s := by
  unfold listenerOffered; frame_cases
@[simp] theorem oqi_listenerStopped (s : Stack) (l : Listener) (k : SvcKey) (a : Addr) : oqi (s.listenerStopped l k a) = oqi s := by
  unfold listenerStopped; frame_cases

@[simp] theorem oqi_replay (s : Stack) (b : Bool) (f : Option Service) (l : Listener) : oqi (s.replay b f l) = oqi s := by
  unfold replay
  rw [foldl_pres oqi _ (fun s p => by frame_cases)]

@[simp] theorem oqi_watchService (s : Stack) (f : Service) (l : Listener) : oqi (s.watchService f l) = oqi s := by
  unfold watchService; simp only []; rw [oqi_markDup, oqi_replay]; rfl
@[simp] theorem oqi_stopWatchService (s : Stack) (f : Service) (l : Listener) : oqi (s.stopWatchService f l) = oqi s := by
  unfold stopWatchService; simp only []; split
  · simp
  · rw [oqi_replay]; rfl
@[simp] theorem oqi_watchAllServices (s : Stack) (id : LId) : oqi (s.watchAllServices id) = oqi s := by
  unfold watchAllServices; rw [oqi_markDup, oqi_replay]; rfl
@[simp] theorem oqi_stopWatchAllServices (s : Stack) (id : LId) : oqi (s.stopWatchAllServices id) = oqi s := by
  unfold stopWatchAllServices; split
  · simp
  · rw [oqi_replay]; rfl
@[simp] theorem oqi_connectionLost (s : Stack) : oqi s.connectionLost = oqi s := by simp [connectionLost]

@[simp] theorem oqi_notifyService (s : Stack) (b : Bool) (k : SvcKey) (a : Addr) : oqi (s.notifyService b k a) = oqi s := by
  unfold notifyService
  simp only []
  have hf : ∀ (s : Stack) (l : Listener), oqi (if b = true then s.listenerOffered l k a else s.listenerStopped l k a) = oqi s := by
    intro s l; split <;> simp
  rw [foldl_pres oqi _ (fun s id => hf s _)]
  rw [foldl_pres oqi _ (fun s p => by
    split
    · rw [foldl_pres oqi _ (fun s l => hf s l)]
    · rfl)]
  rfl

@[simp] theorem oqi_foundStop (s : Stack) (a : Addr) (k : SvcKey) : oqi (s.foundStop a k) = oqi s := by
  unfold foundStop; frame_cases

@[simp] theorem oqi_foundRefresh (s : Stack) (ttl : Nat) (a : Addr) (k : SvcKey) : oqi (s.foundRefresh ttl a k) = oqi s := by
  unfold foundRefresh
  simp only []
  rw [oqi_with_found_refreshLog, oqi_armTtl _ _ _ rfl]
  split <;> simp

@[simp] theorem oqi_handleOffer (s : Stack) (e : SDEntry) (a : Addr) : oqi (s.handleOffer e a) = oqi s := by
  unfold handleOffer; frame_cases

@[simp] theorem oqi_foundStopAllFor (s : Stack) (a : Addr) : oqi (s.foundStopAllFor a) = oqi s := by
  unfold foundStopAllFor; simp only []
  rw [foldl_pres oqi _ (fun s e => by simp)]; rfl

@[simp] theorem oqi_foundStopAll (s : Stack) : oqi s.foundStopAll = oqi s := by
  unfold foundStopAll; simp only []
  show oqi (List.foldl (fun s p => s.foundStopAllFor p.1) s s.found) = oqi s
  rw [foldl_pres oqi _ (fun s e => by simp)]

@[simp] theorem oqi_expiredSvc (s : Stack) (a : Addr) (k : SvcKey) : oqi (s.expiredSvc a k) = oqi s := by
  unfold expiredSvc; frame_cases

@[simp] theorem oqi_rebootDetected (s : Stack) (a : Addr) : oqi (s.rebootDetected a) = oqi s := by
  simp [rebootDetected]



@[simp] theorem oqi_cancelTask_sub (s : Stack) (n : Nat) : oqi (s.cancelTask (.subscribe, n)) = oqi s := oqi_cancelTask _ _ rfl
@[simp] theorem oqi_subscriberStart (s : Stack) : oqi s.subscriberStart = oqi s := by
  unfold subscriberStart; split
  · rfl
  · simp only []
    exact (oqi_with_subTask _ _).trans (by simp; rfl)

@[simp] theorem oqi_subscriberStop (s : Stack) (b : Bool) : oqi (s.subscriberStop b) = oqi s := by
  unfold subscriberStop; split; rfl
  simp only []
  have h1 : oqi (match ({ s with alive := false, subLost := !b } : Stack).subTask with
      | some tid => { ({ s with alive := false, subLost := !b } : Stack).cancelTask (.subscribe, tid) with subTask := none }
      | none => ({ s with alive := false, subLost := !b } : Stack)) = oqi s := by
    split
    · show oqi (({ s with alive := false, subLost := !b } : Stack).cancelTask (.subscribe, _)) = oqi s; rw [oqi_cancelTask_sub]; rfl
    · rfl
  split
  · rw [foldl_pres oqi _ (fun s p => by simp)]; exact h1
  · exact h1

theorem oqi_stepSubscribe (s : Stack) (tid : Tid) (t : TaskSt) (h : isOfferK tid.1 = false) : oqi (s.stepSubscribe tid t) = oqi s := by
  unfold stepSubscribe
  simp only []
  have key : ∀ st : Stack, oqi (List.foldl (fun s p => s.sendSubscribe s.tm.subscribeTtl p.1 p.2) st (groupEntries st.subEntries)) = oqi st :=
    fun st => foldl_pres oqi _ (fun s p => by simp) _ _
  have hs := fun (X : Stack) (t' : TaskSt) (d : Nat) (pc : Pc) => oqi_sleepFor X tid t' d pc h
  have hf := fun (X : Stack) (t' : TaskSt) => oqi_finish X tid t' h
  split
  · split; simp [hf]; split <;> simp [key, hs, hf]
  · split; simp [hf]; split <;> simp [key, hs, hf]
  · rfl


end Stack
end Someip
