/-
  C14, last clause: the refresh loop of the subscriber.  Invariant `RL`: while the subscriber runs with a refresh interval r,
  the task it holds is alive (not cancelled, at a round position) and its next round is on its way - a step is in the ready
  queue, or the task sleeps and its wake-up handle is scheduled no later than now + r, or has fired already.
-/
import SomeipModel.Lemmas.RFrame
import SomeipModel.Lemmas.LoopInv
namespace Someip
namespace Stack
open MV
set_option linter.unusedSimpArgs false
set_option linter.unusedVariables false

/-- the next round of subscribe task n (state t) is on its way -/
def NextRound (s : Stack) (n : Nat) (t : TaskSt) (B : Nat) : Prop :=
  (∃ x ∈ s.loop.ready, isStepOf n x.cb = true) ∨
  (t.waiting = true ∧ ((∃ x ∈ s.loop.timers, isSleepFor (.subscribe, n) x.cb = true ∧ x.deadline ≤ B) ∨
                        (∃ x ∈ s.loop.ready, isSleepFor (.subscribe, n) x.cb = true)))

/-- the time of the subscriber's most recent refresh round, or of its start if it has not run one since -/
def lastMark (s : Stack) : Option Nat := s.subMarks.getLast?.map (·.2)

/-- the owner of the refresh loop: the subscriber's task, alive, at a round position, its next round due by B -/
def Owner (s : Stack) (n : Nat) (t : TaskSt) : Prop :=
  s.subTask = some n ∧ s.getTask (.subscribe, n) = some t ∧ t.cancelled = false ∧ (t.pc = .created ∨ t.pc = .cyclic)

def RL (s : Stack) : Prop :=
  s.alive = true → ∀ r, s.tm.subscribeRefresh = some r →
    ∃ n t T, Owner s n t ∧ lastMark s = some T ∧ s.loop.now ≤ T + r ∧ NextRound s n t (T + r)

theorem isR_of_stepOf {n : Nat} {cb : Cb} (h : isStepOf n cb = true) : isRCb cb = true := by
  rw [isStepOf_eq h]; rfl
theorem isR_of_sleepFor {n : Nat} {cb : Cb} (h : isSleepFor (.subscribe, n) cb = true) : isRCb cb = true := by
  cases cb with
  | sleepDone t =>
    have : t = (.subscribe, n) := by simpa [isSleepFor] using h
    subst this; rfl
  | _ => simp [isSleepFor] at h

theorem nextRound_of_rpi {s s' : Stack} (h : rpi s' = rpi s) (n : Nat) (t : TaskSt) (B : Nat) (hn : NextRound s n t B) :
    NextRound s' n t B := by
  have e5 : s'.loop.ready.filter (fun x => isRCb x.cb) = s.loop.ready.filter (fun x => isRCb x.cb) := congrArg (fun p => p.2.2.2.2.2.1) h
  have e6 : s'.loop.timers.filter (fun x => isRCb x.cb) = s.loop.timers.filter (fun x => isRCb x.cb) := congrArg (fun p => p.2.2.2.2.2.2.1) h
  have hr : ∀ x, x ∈ s.loop.ready → isRCb x.cb = true → x ∈ s'.loop.ready := by
    intro x hx hc
    have : x ∈ s.loop.ready.filter (fun x => isRCb x.cb) := List.mem_filter.mpr ⟨hx, hc⟩
    rw [← e5] at this; exact (List.mem_filter.mp this).1
  have ht : ∀ x, x ∈ s.loop.timers → isRCb x.cb = true → x ∈ s'.loop.timers := by
    intro x hx hc
    have : x ∈ s.loop.timers.filter (fun x => isRCb x.cb) := List.mem_filter.mpr ⟨hx, hc⟩
    rw [← e6] at this; exact (List.mem_filter.mp this).1
  rcases hn with ⟨x, hx, h1⟩ | ⟨hw, ⟨x, hx, h1, h2⟩ | ⟨x, hx, h1⟩⟩
  · exact Or.inl ⟨x, hr x hx (isR_of_stepOf h1), h1⟩
  · exact Or.inr ⟨hw, Or.inl ⟨x, ht x hx (isR_of_sleepFor h1), h1, h2⟩⟩
  · exact Or.inr ⟨hw, Or.inr ⟨x, hr x hx (isR_of_sleepFor h1), h1⟩⟩

theorem getTask_of_rpi {s s' : Stack} (h : rpi s' = rpi s) (n : Nat) : s'.getTask (.subscribe, n) = s.getTask (.subscribe, n) := by
  have e7 : s'.tasks.filter isSubT = s.tasks.filter isSubT := congrArg (fun p => p.2.2.2.2.2.2.2) h
  rw [getTask_sub, getTask_sub]
  unfold MV.task view
  simp only []
  rw [e7]

theorem owner_of_rpi {s s' : Stack} (h : rpi s' = rpi s) (n : Nat) (t : TaskSt) (ho : Owner s n t) : Owner s' n t := by
  have e2 : s'.subTask = s.subTask := congrArg (fun p => p.2.2.1) h
  obtain ⟨h1, h2, h3, h4⟩ := ho
  exact ⟨by rw [e2]; exact h1, by rw [getTask_of_rpi h]; exact h2, h3, h4⟩

theorem rl_of_rpi {s s' : Stack} (h : rpi s' = rpi s) (hi : RL s) : RL s' := by
  have e1 : s'.alive = s.alive := congrArg (fun p => p.2.1) h
  have e3 : s'.tm.subscribeRefresh = s.tm.subscribeRefresh := congrArg (fun p => p.2.2.2.1) h
  have e4 : s'.loop.now = s.loop.now := congrArg (fun p => p.2.2.2.2.1) h
  have e8 : s'.subMarks = s.subMarks := congrArg (fun p => p.1) h
  intro ha r hr
  rw [e1] at ha; rw [e3] at hr
  obtain ⟨n, t, T, h1, h2, h3, h4⟩ := hi ha r hr
  exact ⟨n, t, T, owner_of_rpi h n t h1, by unfold lastMark; rw [e8]; exact h2, by rw [e4]; exact h3, nextRound_of_rpi h n t _ h4⟩

/-- the next round stays on its way when its witnesses survive -/
theorem nextRound_mono {s s' : Stack} (n : Nat) (t : TaskSt) (B : Nat)
    (hrdy : ∀ x ∈ s.loop.ready, (isStepOf n x.cb = true ∨ isSleepFor (.subscribe, n) x.cb = true) → x ∈ s'.loop.ready)
    (htim : ∀ x ∈ s.loop.timers, isSleepFor (.subscribe, n) x.cb = true → x ∈ s'.loop.timers)
    (hn : NextRound s n t B) : NextRound s' n t B := by
  rcases hn with ⟨x, hx, h1⟩ | ⟨hw, ⟨x, hx, h1, h2⟩ | ⟨x, hx, h1⟩⟩
  · exact Or.inl ⟨x, hrdy x hx (Or.inl h1), h1⟩
  · exact Or.inr ⟨hw, Or.inl ⟨x, htim x hx h1, h1, h2⟩⟩
  · exact Or.inr ⟨hw, Or.inr ⟨x, hrdy x hx (Or.inr h1), h1⟩⟩

theorem lastMark_append (s : Stack) (k : Option Nat) (T : Nat) (X : Stack) (h : X.subMarks = s.subMarks ++ [(k, T)]) :
    lastMark X = some T := by
  unfold lastMark; rw [h]; simp

theorem isStepOf_sleepDone (n : Nat) (t : Tid) : isStepOf n (.sleepDone t) = false := by
  cases t with | mk k m => cases k <;> rfl
theorem isSleepFor_taskStep (tid t : Tid) : isSleepFor tid (.taskStep t) = false := rfl
theorem isStepOf_other {n m : Nat} (h : m ≠ n) : isStepOf n (.taskStep (.subscribe, m)) = false := by
  rw [isStepOf_step]; simp [h]
theorem isSleepFor_other {n m : Nat} (h : m ≠ n) : isSleepFor (.subscribe, n) (.sleepDone (.subscribe, m)) = false := by
  simp [isSleepFor, h]

theorem getTask_setTask_sub_other (X : Stack) (n m : Nat) (t' : TaskSt) (h : n ≠ m) :
    (X.setTask (.subscribe, m) t').getTask (.subscribe, n) = X.getTask (.subscribe, n) := by
  rw [getTask_sub, getTask_sub, view_setTask_sub]
  show alookup (setT (view X).tasks (TaskKind.subscribe, m) t') (TaskKind.subscribe, n) = _
  rw [task_setT, if_neg h]
theorem getTask_setTask_sub_same (X : Stack) (n : Nat) (t t' : TaskSt) (h : X.getTask (.subscribe, n) = some t) :
    (X.setTask (.subscribe, n) t').getTask (.subscribe, n) = some t' := by
  rw [getTask_sub] at h ⊢
  rw [view_setTask_sub]
  show alookup (setT (view X).tasks (TaskKind.subscribe, n) t') (TaskKind.subscribe, n) = _
  rw [task_setT, if_pos rfl, h]; rfl

/-- `start()` of the subscriber: the new task's first step is queued -/
theorem rl_subscriberStart (s : Stack) (hm : MirInv s) (hi : RL s) : RL s.subscriberStart := by
  unfold subscriberStart
  split
  · exact hi
  · rename_i ha
    simp only []
    intro _ r hr
    have hnone : alookup (view s).tasks (TaskKind.subscribe, (view s).tasks.length) = none :=
      alookup_none (fun p hp e => by have := hm.keys p hp; rw [e] at this; exact Nat.lt_irrefl _ this)
    refine ⟨(view s).tasks.length, ({} : TaskSt), s.loop.now, ⟨?_, ?_, rfl, Or.inl rfl⟩, ?_, Nat.le_add_right _ _, Or.inl ?_⟩
    · show some (({ s with alive := true, subLost := false, subMarks := s.subMarks ++ [(none, s.loop.now)] } : Stack).createTask .subscribe).2 = _
      rfl
    · rw [getTask_sub]
      have e : (view ({ (({ s with alive := true, subLost := false, subMarks := s.subMarks ++ [(none, s.loop.now)] } : Stack).createTask .subscribe).1 with
            subTask := some (({ s with alive := true, subLost := false, subMarks := s.subMarks ++ [(none, s.loop.now)] } : Stack).createTask .subscribe).2 } : Stack)).tasks =
          (view s).tasks ++ [((.subscribe, (view s).tasks.length), ({} : TaskSt))] := by
        have hc : ∀ (X : Stack), X.taskCount .subscribe = (X.tasks.filter isSubT).length := fun _ => rfl
        simp [view, createTask, callSoon, hc, List.filter_append, isSubT]
      unfold MV.task
      rw [e, alookup_append, hnone]
      simp [alookup]
    · exact lastMark_append s none s.loop.now _ rfl
    · refine ⟨⟨none, .taskStep (.subscribe, (view s).tasks.length)⟩, ?_, isStepOf_self _⟩
      show _ ∈ (s.loop.ready ++ [_])
      exact List.mem_append_right _ (List.mem_singleton.mpr rfl)

theorem subscriberStop_alive (s : Stack) (b : Bool) : (s.subscriberStop b).alive = false := by
  unfold subscriberStop
  split
  · rename_i h; simpa using h
  · simp only []
    have h1 : (match ({ s with alive := false, subLost := !b } : Stack).subTask with
        | some tid => ({ ({ s with alive := false, subLost := !b } : Stack).cancelTask (.subscribe, tid) with subTask := none } : Stack)
        | none => ({ s with alive := false, subLost := !b } : Stack)).alive = false := by
      split
      · show (({ s with alive := false, subLost := !b } : Stack).cancelTask _).alive = false
        unfold cancelTask; split; rfl; split; rfl; split <;> rfl
      · rfl
    split
    · have : ∀ (gs : List (Addr × List Eventgroup)) (X : Stack), (gs.foldl (fun s p => s.callSoon (.sendStopSubscribe p.1 p.2)) X).alive = X.alive := by
        intro gs; induction gs with
        | nil => intro X; rfl
        | cons p t ih => intro X; rw [List.foldl_cons, ih]; rfl
      rw [this]; exact h1
    · exact h1

theorem rl_subscriberStop (s : Stack) (b : Bool) : RL (s.subscriberStop b) := by
  intro ha; rw [subscriberStop_alive] at ha; cases ha

/-! ### callbacks -/

theorem stepSubscribe_alive_tm (s : Stack) (tid : Tid) (t : TaskSt) :
    (s.stepSubscribe tid t).alive = s.alive ∧ (s.stepSubscribe tid t).tm = s.tm ∧ (s.stepSubscribe tid t).subTask = s.subTask := by
  have key : ∀ (gs : List (Addr × List Eventgroup)) (X : Stack),
      (gs.foldl (fun s p => s.sendSubscribe s.tm.subscribeTtl p.1 p.2) X).alive = X.alive ∧
      (gs.foldl (fun s p => s.sendSubscribe s.tm.subscribeTtl p.1 p.2) X).tm = X.tm ∧
      (gs.foldl (fun s p => s.sendSubscribe s.tm.subscribeTtl p.1 p.2) X).subTask = X.subTask := by
    intro gs; induction gs with
    | nil => intro X; exact ⟨rfl, rfl, rfl⟩
    | cons p tl ih =>
      intro X; rw [List.foldl_cons]
      obtain ⟨h1, h2, h3⟩ := ih (X.sendSubscribe X.tm.subscribeTtl p.1 p.2)
      have e := rpi_sendSubscribe X X.tm.subscribeTtl p.1 p.2
      have a1 : (X.sendSubscribe X.tm.subscribeTtl p.1 p.2).alive = X.alive := congrArg (fun p => p.2.1) e
      have a2 : (X.sendSubscribe X.tm.subscribeTtl p.1 p.2).subTask = X.subTask := congrArg (fun p => p.2.2.1) e
      exact ⟨h1.trans a1, h2.trans (sendSubscribe_tm _ _ _ _), h3.trans a2⟩
  have hfin : ∀ (X : Stack) (t' : TaskSt), (X.finish tid t').alive = X.alive ∧ (X.finish tid t').tm = X.tm ∧ (X.finish tid t').subTask = X.subTask :=
    fun X t' => ⟨rfl, rfl, rfl⟩
  have hsl : ∀ (X : Stack) (t' : TaskSt) (d : Nat) (pc : Pc), (X.sleepFor tid t' d pc).alive = X.alive ∧ (X.sleepFor tid t' d pc).tm = X.tm ∧
      (X.sleepFor tid t' d pc).subTask = X.subTask := by
    intro X t' d pc; unfold sleepFor; split <;> exact ⟨rfl, rfl, rfl⟩
  unfold stepSubscribe
  simp only []
  split
  · split
    · exact hfin _ _
    · split
      · obtain ⟨h1, h2, h3⟩ := key (groupEntries s.subEntries) s
        exact ⟨h1, h2, h3⟩
      · obtain ⟨h1, h2, h3⟩ := key (groupEntries s.subEntries) s
        obtain ⟨g1, g2, g3⟩ := hsl ((List.foldl (fun s p => s.sendSubscribe s.tm.subscribeTtl p.1 p.2) s (groupEntries s.subEntries)).markRound tid.2) t _ .cyclic
        exact ⟨g1.trans h1, g2.trans h2, g3.trans h3⟩
  · split
    · exact hfin _ _
    · split
      · obtain ⟨h1, h2, h3⟩ := key (groupEntries s.subEntries) s
        exact ⟨h1, h2, h3⟩
      · obtain ⟨h1, h2, h3⟩ := key (groupEntries s.subEntries) s
        obtain ⟨g1, g2, g3⟩ := hsl ((List.foldl (fun s p => s.sendSubscribe s.tm.subscribeTtl p.1 p.2) s (groupEntries s.subEntries)).markRound tid.2) t _ .cyclic
        exact ⟨g1.trans h1, g2.trans h2, g3.trans h3⟩
  · exact ⟨rfl, rfl, rfl⟩

theorem mem_ready_cancelTimer (s : Stack) (own : Cb → Bool) (q : Option Nat) (x : RItem Cb) (hx : x ∈ s.loop.ready)
    (ho : own x.cb = false) : x ∈ (s.cancelTimer own q).loop.ready := by
  cases q with
  | none => exact hx
  | some n =>
    simp only [cancelTimer, Loop.cancelOpt, Loop.cancel, List.mem_filter]
    exact ⟨hx, by simp [ho]⟩
theorem mem_timers_cancelTimer (s : Stack) (own : Cb → Bool) (q : Option Nat) (x : Timer Cb) (hx : x ∈ s.loop.timers)
    (ho : own x.cb = false) : x ∈ (s.cancelTimer own q).loop.timers := by
  cases q with
  | none => exact hx
  | some n =>
    simp only [cancelTimer, Loop.cancelOpt, Loop.cancel, List.mem_filter]
    exact ⟨hx, by simp [ho]⟩

theorem sleepFor_other_of_sub {n m : Nat} {cb : Cb} (h : isSleepFor (.subscribe, n) cb = true) (hne : m ≠ n) :
    isSleepFor (.subscribe, m) cb = false := by
  cases cb with
  | sleepDone t =>
    have : t = (.subscribe, n) := by simpa [isSleepFor] using h
    subst this; exact isSleepFor_other (fun e => hne e.symm)
  | _ => rfl
theorem sleepFor_of_stepOf {n m : Nat} {cb : Cb} (h : isStepOf n cb = true) : isSleepFor (.subscribe, m) cb = false := by
  rw [isStepOf_eq h]; rfl

/-- the fold of a refresh round is invisible to the refresh-loop projection -/
theorem rpi_round (gs : List (Addr × List Eventgroup)) (X : Stack) :
    rpi (gs.foldl (fun s p => s.sendSubscribe s.tm.subscribeTtl p.1 p.2) X) = rpi X :=
  foldl_pres rpi _ (fun s p => rpi_sendSubscribe s _ _ _) _ _

/-- a step of subscribe task m runs (its callback has just been popped from the ready queue) -/
theorem rl_taskStep_sub (s0 : Stack) (m : Nat)
    (hlive : ∀ n t, s0.getTask (.subscribe, n) = some t → t.pc ≠ .done → t.cancelled = false → s0.subTask = some n)
    (hpre : s0.alive = true → ∀ r, s0.tm.subscribeRefresh = some r →
      ∃ n t T, Owner s0 n t ∧ lastMark s0 = some T ∧ s0.loop.now ≤ T + r ∧ (n = m ∨ NextRound s0 n t (T + r))) :
    RL (s0.runCb (.taskStep (.subscribe, m))) := by
  show RL (match s0.getTask (.subscribe, m) with
    | none => s0
    | some t =>
      if t.pc = .done then s0 else
      let s := s0.cancelTimer (isSleepFor (.subscribe, m)) t.sleep
      let t := { t with sleep := none, waiting := false }
      match (TaskKind.subscribe, m).1 with
      | .offer i => s.stepOffer (.subscribe, m) t i
      | .find => s.stepFind (.subscribe, m) t
      | .subscribe => s.stepSubscribe (.subscribe, m) t)
  cases htm : s0.getTask (.subscribe, m) with
  | none =>
    simp only []
    intro ha r hr
    obtain ⟨n, t, T, ⟨h1, h2, h3, h4⟩, hT, hnow, h5⟩ := hpre ha r hr
    rcases h5 with rfl | h5
    · rw [htm] at h2; cases h2
    · exact ⟨n, t, T, ⟨h1, h2, h3, h4⟩, hT, hnow, h5⟩
  | some tm =>
    simp only []
    by_cases hdone : tm.pc = .done
    · rw [if_pos hdone]
      intro ha r hr
      obtain ⟨n, t, T, ⟨h1, h2, h3, h4⟩, hT, hnow, h5⟩ := hpre ha r hr
      rcases h5 with rfl | h5
      · rw [htm] at h2; cases h2; rcases h4 with h4 | h4 <;> (rw [hdone] at h4; cases h4)
      · exact ⟨n, t, T, ⟨h1, h2, h3, h4⟩, hT, hnow, h5⟩
    · rw [if_neg hdone]
      show RL ((s0.cancelTimer (isSleepFor (.subscribe, m)) tm.sleep).stepSubscribe (.subscribe, m) { tm with sleep := none, waiting := false })
      obtain ⟨a1, a2, a3⟩ := stepSubscribe_alive_tm (s0.cancelTimer (isSleepFor (.subscribe, m)) tm.sleep) (.subscribe, m)
        { tm with sleep := none, waiting := false }
      intro ha r hr
      rw [a1] at ha; rw [a2] at hr
      have ha0 : s0.alive = true := ha
      have hr0 : s0.tm.subscribeRefresh = some r := hr
      obtain ⟨n, t, T, ⟨h1, h2, h3, h4⟩, hT, hnow, h5⟩ := hpre ha0 r hr0
      by_cases hnm : n = m
      · -- the running subscriber's own task: one round, then it sleeps r
        subst hnm
        rw [htm] at h2
        obtain rfl : t = tm := (Option.some.inj h2).symm
        generalize hS1 : s0.cancelTimer (isSleepFor (.subscribe, n)) t.sleep = s1
        have hs1t : s1.getTask (.subscribe, n) = some t := by rw [← hS1]; exact htm
        have hs1tm : s1.tm = s0.tm := by rw [← hS1]; rfl
        have hs1now : s1.loop.now = s0.loop.now := by rw [← hS1]; exact cancelTimer_now _ _ _
        have hs1sub : s1.subTask = s0.subTask := by rw [← hS1]; rfl
        -- the state after the fold and the ghost mark
        have hfold := rpi_round (groupEntries s1.subEntries) s1
        generalize hS2' : List.foldl (fun s p => s.sendSubscribe s.tm.subscribeTtl p.1 p.2) s1 (groupEntries s1.subEntries) = s2' at hfold
        have hs2t' : s2'.getTask (.subscribe, n) = some t := (getTask_of_rpi hfold n).trans hs1t
        have hs2sub' : s2'.subTask = s0.subTask := (congrArg (fun p => p.2.2.1) hfold).trans hs1sub
        have hs2ref' : s2'.tm.subscribeRefresh = some r :=
          (congrArg (fun p => p.2.2.2.1) hfold).trans (by show s1.tm.subscribeRefresh = some r; rw [hs1tm]; exact hr0)
        have hmark : lastMark (s2'.markRound n) = some s2'.loop.now := lastMark_append s2' (some n) _ _ rfl
        generalize hS2 : s2'.markRound n = s2 at hmark
        have hs2t : s2.getTask (.subscribe, n) = some t := by rw [← hS2]; exact hs2t'
        have hs2sub : s2.subTask = s0.subTask := by rw [← hS2]; exact hs2sub'
        have hs2ref : s2.tm.subscribeRefresh = some r := by rw [← hS2]; exact hs2ref'
        have hs2now : s2.loop.now = s2'.loop.now := by rw [← hS2]; rfl
        have hres : ∀ (t0 : TaskSt), t0.cancelled = false →
            ∃ n' t' T', Owner (s2.sleepFor (.subscribe, n) t0 r .cyclic) n' t' ∧
              lastMark (s2.sleepFor (.subscribe, n) t0 r .cyclic) = some T' ∧ (s2.sleepFor (.subscribe, n) t0 r .cyclic).loop.now ≤ T' + r ∧
              NextRound (s2.sleepFor (.subscribe, n) t0 r .cyclic) n' t' (T' + r) := by
          intro t0 h30
          unfold sleepFor
          by_cases hr0' : r = 0
          · rw [if_pos hr0']
            refine ⟨n, { t0 with pc := .cyclic, waiting := false, sleep := none }, s2'.loop.now, ⟨?_, ?_, h30, Or.inr rfl⟩, hmark, ?_,
              Or.inl ⟨⟨none, .taskStep (.subscribe, n)⟩, ?_, isStepOf_self _⟩⟩
            · show s2.subTask = some n; rw [hs2sub]; exact h1
            · show (s2.setTask (.subscribe, n) _).getTask _ = _
              exact getTask_setTask_sub_same s2 n t _ hs2t
            · show s2.loop.now ≤ _; rw [hs2now]; exact Nat.le_add_right _ _
            · show _ ∈ (s2.loop.ready ++ [_]); exact List.mem_append_right _ (List.mem_singleton.mpr rfl)
          · rw [if_neg hr0']
            simp only []
            refine ⟨n, { t0 with pc := .cyclic, waiting := true, sleep := some (s2.callLater r (.sleepDone (.subscribe, n))).2 }, s2'.loop.now,
              ⟨?_, ?_, h30, Or.inr rfl⟩, hmark, ?_,
              Or.inr ⟨rfl, Or.inl ⟨⟨s2.loop.nextSeq, s2.loop.now + r, .sleepDone (.subscribe, n)⟩, ?_, ?_, ?_⟩⟩⟩
            · show s2.subTask = some n; rw [hs2sub]; exact h1
            · exact getTask_setTask_sub_same (s2.callLater r (.sleepDone (.subscribe, n))).1 n t _ hs2t
            · show s2.loop.now ≤ _; rw [hs2now]; exact Nat.le_add_right _ _
            · show _ ∈ (s2.loop.timers ++ [_]); exact List.mem_append_right _ (List.mem_singleton.mpr rfl)
            · simp [isSleepFor]
            · show s2.loop.now + r ≤ s2'.loop.now + r; rw [hs2now]; exact Nat.le_refl _
        unfold stepSubscribe
        simp only []
        rcases h4 with hpc | hpc
        · simp only [hpc, h3, Bool.false_eq_true, if_false]
          rw [hS2', hS2, hs2ref]
          exact hres _ rfl
        · simp only [hpc, h3, Bool.false_eq_true, if_false]
          rw [hS2', hS2, hs2ref]
          exact hres _ rfl
      · -- a step of another (cancelled) subscribe task: the owner is not affected
        have hn5 : NextRound s0 n t (T + r) := by
          rcases h5 with h5 | h5
          · exact absurd h5 hnm
          · exact h5
        have hcanc : tm.cancelled = true := by
          cases hc : tm.cancelled
          · have := hlive m tm htm hdone hc
            rw [h1] at this; exact absurd (Option.some.inj this) hnm
          · rfl
        have hkeep : NextRound (s0.cancelTimer (isSleepFor (.subscribe, m)) tm.sleep) n t (T + r) := by
          apply nextRound_mono n t (T + r) _ _ hn5
          · intro x hx hw
            apply mem_ready_cancelTimer _ _ _ _ hx
            rcases hw with hw | hw
            · exact sleepFor_of_stepOf hw
            · exact sleepFor_other_of_sub hw (fun e => hnm e.symm)
          · intro x hx hw
            exact mem_timers_cancelTimer _ _ _ _ hx (sleepFor_other_of_sub hw (fun e => hnm e.symm))
        have hnow1 : (s0.cancelTimer (isSleepFor (.subscribe, m)) tm.sleep).loop.now ≤ T + r := by rw [cancelTimer_now]; exact hnow
        have hT1 : lastMark (s0.cancelTimer (isSleepFor (.subscribe, m)) tm.sleep) = some T := hT
        generalize hS1 : s0.cancelTimer (isSleepFor (.subscribe, m)) tm.sleep = s1 at hkeep hnow1 hT1
        have hs1t : s1.getTask (.subscribe, n) = some t := by rw [← hS1]; exact h2
        have hs1sub : s1.subTask = some n := by rw [← hS1]; exact h1
        have hfin : ∀ t', ∃ n' t'' T', Owner (s1.finish (.subscribe, m) t') n' t'' ∧ lastMark (s1.finish (.subscribe, m) t') = some T' ∧
            (s1.finish (.subscribe, m) t').loop.now ≤ T' + r ∧ NextRound (s1.finish (.subscribe, m) t') n' t'' (T' + r) := by
          intro t'
          refine ⟨n, t, T, ⟨hs1sub, ?_, h3, h4⟩, hT1, hnow1, hkeep⟩
          unfold finish
          rw [getTask_setTask_sub_other _ _ _ _ hnm]; exact hs1t
        unfold stepSubscribe
        simp only []
        split
        · simp only [hcanc, if_true]; exact hfin _
        · simp only [hcanc, if_true]; exact hfin _
        · exact ⟨n, t, T, ⟨hs1sub, hs1t, h3, h4⟩, hT1, hnow1, hkeep⟩

end Stack
end Someip
