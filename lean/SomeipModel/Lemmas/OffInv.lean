/-
  C10 / C12: the invariant of the offer tasks.  An offer task that can still send (not finished, not cancelled) is the task its
  instance holds - so a stopped instance has none and a running one exactly one - and an instance that answers FindService
  requests (`canAnswer`) is running and its task has sent the first offer.
-/
import SomeipModel.Lemmas.OffFrame
import SomeipModel.Lemmas.MirInv
import SomeipModel.Lemmas.FindInv
namespace Someip
namespace Stack
set_option linter.unusedSimpArgs false
set_option linter.unusedVariables false

def otasks (s : Stack) : List (Tid × TaskSt) := s.tasks.filter isOfferT
def otask (s : Stack) (i n : Nat) : Option TaskSt := alookup (otasks s) (.offer i, n)
/-- (task reference, can-answer flag) of instance `i` -/
def itc (s : Stack) (i : Nat) : Option (Option Nat × Bool) := (s.instances.map (fun x => (x.task, x.canAnswer)))[i]?
/-- the task has sent its first offer -/
def offeredPc : Pc → Bool | .rep _ => true | .cyclic => true | .done => true | _ => false
def ocount (l : List (Tid × TaskSt)) (i : Nat) : Nat := (l.filter (fun q => decide (q.1.1 = .offer i))).length

structure OffInv (s : Stack) : Prop where
  kind : ∀ p ∈ otasks s, isOfferK p.1.1 = true
  keys : ∀ p ∈ otasks s, ∀ i, p.1.1 = .offer i → p.1.2 < ocount (otasks s) i
  own : ∀ i n t, otask s i n = some t → t.pc ≠ .done → t.cancelled = false → ∃ c, itc s i = some (some n, c)
  ans : ∀ i r, itc s i = some (r, true) → ∃ n t, r = some n ∧ otask s i n = some t ∧ offeredPc t.pc = true

theorem offinv_of_opi {s s' : Stack} (h : opi s' = opi s) (hi : OffInv s) : OffInv s' := by
  have e1 : s'.instances.map (fun x => (x.task, x.canAnswer)) = s.instances.map (fun x => (x.task, x.canAnswer)) := congrArg (fun p => p.1) h
  have e2 : otasks s' = otasks s := congrArg (fun p => p.2) h
  have e3 : ∀ i, itc s' i = itc s i := fun i => by unfold itc; rw [e1]
  have e4 : ∀ i n, otask s' i n = otask s i n := fun i n => by unfold otask; rw [e2]
  refine ⟨?_, ?_, ?_, ?_⟩
  · rw [e2]; exact hi.kind
  · rw [e2]; exact hi.keys
  · intro i n t ht; rw [e4] at ht; rw [e3]; exact hi.own i n t ht
  · intro i r hr; rw [e3] at hr; obtain ⟨n, t, h1, h2, h3⟩ := hi.ans i r hr; exact ⟨n, t, h1, by rw [e4]; exact h2, h3⟩

theorem offinv_frame {s s' : Stack} (h : opi s' = opi s) (hi : OffInv s) : OffInv s' := offinv_of_opi h hi

theorem itc_getInst {s : Stack} {i : Nat} {x : Instance} (hx : s.getInst i = some x) : itc s i = some (x.task, x.canAnswer) := by
  unfold itc; rw [List.getElem?_map]; unfold getInst at hx; rw [hx]; rfl
theorem itc_none {s : Stack} {i : Nat} (hx : s.getInst i = none) : itc s i = none := by
  unfold itc; rw [List.getElem?_map]; unfold getInst at hx; rw [hx]; rfl

theorem getTask_offer (s : Stack) (i n : Nat) : s.getTask (.offer i, n) = otask s i n := by
  unfold getTask otask otasks alookup
  congr 1
  induction s.tasks with
  | nil => rfl
  | cons p t ih =>
    by_cases hp : p.1 = (TaskKind.offer i, n)
    · have : isOfferT p = true := by simp [isOfferT, isOfferK, hp]
      simp [List.filter_cons, this, hp]
    · by_cases hs : isOfferT p = true
      · simp [List.filter_cons, hs, hp, ih]
      · simp only [Bool.not_eq_true] at hs
        simp [List.filter_cons, hs, hp, ih]

theorem filter_setT_offer (l : List (Tid × TaskSt)) (i n : Nat) (t : TaskSt) :
    (l.map (fun p => if p.1 = (TaskKind.offer i, n) then ((TaskKind.offer i, n), t) else p)).filter isOfferT =
      setT (l.filter isOfferT) (.offer i, n) t := by
  unfold setT
  induction l with
  | nil => rfl
  | cons p r ih =>
    by_cases hp : p.1 = (TaskKind.offer i, n)
    · have h1 : isOfferT p = true := by simp [isOfferT, isOfferK, hp]
      have h2 : isOfferT ((TaskKind.offer i, n), t) = true := by simp [isOfferT, isOfferK]
      simp [List.filter_cons, hp, h1, h2, ih]
    · by_cases hs : isOfferT p = true
      · simp [List.filter_cons, hp, hs, ih]
      · simp only [Bool.not_eq_true] at hs
        simp [List.filter_cons, hp, hs, ih]

theorem otasks_setTask (s : Stack) (i n : Nat) (t : TaskSt) : otasks (s.setTask (.offer i, n) t) = setT (otasks s) (.offer i, n) t := by
  simp only [otasks, setTask, filter_setT_offer]

theorem otask_setT (l : List (Tid × TaskSt)) (i n j m : Nat) (t'' : TaskSt) :
    alookup (setT l (TaskKind.offer i, n) t'') (TaskKind.offer j, m) =
      if j = i ∧ m = n then (alookup l (TaskKind.offer i, n)).map (fun _ => t'') else alookup l (TaskKind.offer j, m) := by
  rw [alookup_setT]
  by_cases h : j = i ∧ m = n
  · obtain ⟨rfl, rfl⟩ := h; simp
  · have : (TaskKind.offer j, m) ≠ (TaskKind.offer i, n) := by
      intro e; apply h; simp at e; exact e
    rw [if_neg this, if_neg h]

theorem ocount_setT (l : List (Tid × TaskSt)) (k : Tid) (t : TaskSt) (j : Nat) : ocount (setT l k t) j = ocount l j := by
  unfold ocount setT
  induction l with
  | nil => rfl
  | cons p r ih =>
    by_cases hp : p.1 = k
    · by_cases hk : k.1 = TaskKind.offer j
      · have : p.1.1 = TaskKind.offer j := by rw [hp]; exact hk
        simp [List.filter_cons, hp, hk, this] at ih ⊢; exact ih
      · have : ¬ p.1.1 = TaskKind.offer j := by rw [hp]; exact hk
        simp [List.filter_cons, hp, hk, this] at ih ⊢; exact ih
    · by_cases hj : p.1.1 = TaskKind.offer j
      · simp [List.filter_cons, hp, hj] at ih ⊢; exact ih
      · simp [List.filter_cons, hp, hj] at ih ⊢; exact ih

/-- an update of offer task (i, n) that leaves the instances alone -/
theorem OffInv.setTask {s : Stack} (hi : OffInv s) (i n : Nat) (t t'' : TaskSt) (ht : otask s i n = some t)
    (hown : t''.pc ≠ .done → t''.cancelled = false → ∃ c, itc s i = some (some n, c))
    (hans : itc s i = some (some n, true) → offeredPc t''.pc = true) :
    OffInv (s.setTask (.offer i, n) t'') := by
  have e1 := otasks_setTask s i n t''
  have hitc : ∀ j, itc (s.setTask (.offer i, n) t'') j = itc s j := fun j => rfl
  have hot : ∀ j m, otask (s.setTask (.offer i, n) t'') j m = if j = i ∧ m = n then some t'' else otask s j m := by
    intro j m
    unfold otask; rw [e1, otask_setT]
    by_cases h : j = i ∧ m = n
    · obtain ⟨rfl, rfl⟩ := h
      have : alookup (otasks s) (TaskKind.offer j, m) = some t := ht
      rw [if_pos ⟨rfl, rfl⟩, if_pos ⟨rfl, rfl⟩, this]; rfl
    · rw [if_neg h, if_neg h]
  refine ⟨?_, ?_, ?_, ?_⟩
  · intro p hp; rw [e1] at hp; obtain ⟨q, hq, e⟩ := mem_setT hp; rw [← e]; exact hi.kind q hq
  · intro p hp j hj; rw [e1] at hp ⊢; obtain ⟨q, hq, e⟩ := mem_setT hp
    rw [ocount_setT, ← e]; exact hi.keys q hq j (by rw [e]; exact hj)
  · intro j m tm htm hpc hc
    rw [hot] at htm; rw [hitc]
    by_cases h : j = i ∧ m = n
    · obtain ⟨rfl, rfl⟩ := h; rw [if_pos ⟨rfl, rfl⟩] at htm; cases htm; exact hown hpc hc
    · rw [if_neg h] at htm; exact hi.own j m tm htm hpc hc
  · intro j r hr
    rw [hitc] at hr
    obtain ⟨m, tm, h1, h2, h3⟩ := hi.ans j r hr
    by_cases h : j = i ∧ m = n
    · obtain ⟨rfl, rfl⟩ := h
      refine ⟨m, t'', h1, by rw [hot, if_pos ⟨rfl, rfl⟩], ?_⟩
      apply hans; rw [← h1]; exact hr
    · exact ⟨m, tm, h1, by rw [hot, if_neg h]; exact h2, h3⟩

/-! ### updates of an instance -/

theorem itc_setInst (s : Stack) (i j : Nat) (x x' : Instance) (hx : s.getInst i = some x) :
    itc (s.setInst i x') j = if j = i then some (x'.task, x'.canAnswer) else itc s j := by
  have hlt : i < s.instances.length := (List.getElem?_eq_some_iff.mp hx).1
  unfold itc setInst
  simp only []
  rw [List.getElem?_map, List.getElem?_map]
  by_cases hj : j = i
  · subst hj; rw [if_pos rfl, List.getElem?_set]; simp [hlt]
  · rw [if_neg hj, List.getElem?_set_ne (fun e => hj e.symm)]

theorem otasks_setInst (s : Stack) (i : Nat) (x' : Instance) : otasks (s.setInst i x') = otasks s := rfl

/-- rewriting an instance without touching `task` and `canAnswer` (its subscription store, its refusal list) -/
theorem opi_setInst_keep (s : Stack) (i : Nat) (x x' : Instance) (hx : s.getInst i = some x) (ht : x'.task = x.task)
    (hc : x'.canAnswer = x.canAnswer) : opi (s.setInst i x') = opi s := by
  have hx0 : s.instances[i]? = some x := hx
  have hlt : i < s.instances.length := (List.getElem?_eq_some_iff.mp hx0).1
  unfold opi setInst
  simp only []
  refine Prod.ext ?_ rfl
  simp only []
  rw [List.map_set]
  apply List.ext_getElem?
  intro j
  by_cases hj : j = i
  · subst hj
    rw [List.getElem?_set]
    simp only [List.length_map, if_true, hlt]
    rw [List.getElem?_map, hx0]; simp [ht, hc]
  · rw [List.getElem?_set_ne (fun e => hj e.symm)]

/-- `_can_answer_offers = False` -/
theorem OffInv.setCanFalse {s : Stack} (hi : OffInv s) (i : Nat) (x : Instance) (hx : s.getInst i = some x) :
    OffInv (s.setInst i { x with canAnswer := false }) := by
  have hitc := fun j => itc_setInst s i j x { x with canAnswer := false } hx
  refine ⟨hi.kind, hi.keys, ?_, ?_⟩
  · intro j m t ht hpc hc
    obtain ⟨c, h1⟩ := hi.own j m t ht hpc hc
    rw [hitc]
    by_cases hj : j = i
    · subst hj; rw [if_pos rfl]; rw [itc_getInst hx] at h1
      have : x.task = some m := by simpa using (Prod.mk.inj (Option.some.inj h1)).1
      exact ⟨false, by rw [this]⟩
    · rw [if_neg hj]; exact ⟨c, h1⟩
  · intro j r hr
    rw [hitc] at hr
    by_cases hj : j = i
    · subst hj; rw [if_pos rfl] at hr; simp at hr
    · rw [if_neg hj] at hr; exact hi.ans j r hr

/-- `_can_answer_offers = True`, by the task the instance holds, after its first offer -/
theorem OffInv.setCanTrue {s : Stack} (hi : OffInv s) (i n : Nat) (x : Instance) (t : TaskSt) (hx : s.getInst i = some x)
    (hown : x.task = some n) (ht : otask s i n = some t) (hoff : offeredPc t.pc = true) :
    OffInv (s.setInst i { x with canAnswer := true }) := by
  have hitc := fun j => itc_setInst s i j x { x with canAnswer := true } hx
  refine ⟨hi.kind, hi.keys, ?_, ?_⟩
  · intro j m tm htm hpc hc
    obtain ⟨c, h1⟩ := hi.own j m tm htm hpc hc
    rw [hitc]
    by_cases hj : j = i
    · subst hj; rw [if_pos rfl]; rw [itc_getInst hx] at h1
      have : x.task = some m := by simpa using (Prod.mk.inj (Option.some.inj h1)).1
      exact ⟨true, by rw [this]⟩
    · rw [if_neg hj]; exact ⟨c, h1⟩
  · intro j r hr
    rw [hitc] at hr
    by_cases hj : j = i
    · subst hj; rw [if_pos rfl] at hr
      have : r = x.task := by simpa using ((Prod.mk.inj (Option.some.inj hr)).1).symm
      exact ⟨n, t, by rw [this, hown], ht, hoff⟩
    · rw [if_neg hj] at hr; exact hi.ans j r hr

/-- `stop()`: the instance lets go of its task, which has just been cancelled (or had finished) -/
theorem OffInv.setStopped {s : Stack} (hi : OffInv s) (i n : Nat) (x x' : Instance) (hx : s.getInst i = some x)
    (hn : x.task = some n) (hdead : ∀ t, otask s i n = some t → t.pc = .done ∨ t.cancelled = true)
    (h1 : x'.task = none) (h2 : x'.canAnswer = false) : OffInv (s.setInst i x') := by
  have hitc := fun j => itc_setInst s i j x x' hx
  refine ⟨hi.kind, hi.keys, ?_, ?_⟩
  · intro j m tm htm hpc hc
    obtain ⟨c, h3⟩ := hi.own j m tm htm hpc hc
    rw [hitc]
    by_cases hj : j = i
    · subst hj
      rw [itc_getInst hx] at h3
      have : x.task = some m := by simpa using (Prod.mk.inj (Option.some.inj h3)).1
      rw [hn] at this
      have hmn : n = m := Option.some.inj this
      subst hmn
      rcases hdead tm htm with hd | hd
      · exact absurd hd hpc
      · rw [hc] at hd; cases hd
    · rw [if_neg hj]; exact ⟨c, h3⟩
  · intro j r hr
    rw [hitc] at hr
    by_cases hj : j = i
    · subst hj; rw [if_pos rfl, h2] at hr; simp at hr
    · rw [if_neg hj] at hr; exact hi.ans j r hr

/-! ### task operations of an offer task -/

theorem OffInv.task_owner {s : Stack} (hi : OffInv s) {i n : Nat} {t : TaskSt} (ht : otask s i n = some t)
    (h : itc s i = some (some n, true)) : offeredPc t.pc = true := by
  obtain ⟨m, tm, h1, h2, h3⟩ := hi.ans i (some n) h
  have : n = m := Option.some.inj h1
  subst this
  rw [ht] at h2; cases h2; exact h3

theorem offinv_finish (s : Stack) (i n : Nat) (t t' : TaskSt) (hi : OffInv s) (ht : otask s i n = some t) :
    OffInv (s.finish (.offer i, n) t') := by
  unfold finish
  exact hi.setTask i n t _ ht (fun h => absurd rfl h) (fun _ => rfl)

theorem offinv_sleepFor (s : Stack) (i n : Nat) (t t' : TaskSt) (d : Nat) (pc : Pc) (hi : OffInv s) (ht : otask s i n = some t)
    (hown : t'.cancelled = false → ∃ c, itc s i = some (some n, c))
    (hans : itc s i = some (some n, true) → offeredPc pc = true) : OffInv (s.sleepFor (.offer i, n) t' d pc) := by
  unfold sleepFor
  split
  · apply offinv_frame (opi_callSoon _ _)
    exact hi.setTask i n t _ ht (fun _ hc => hown hc) hans
  · simp only []
    have h1 : OffInv (s.callLater d (.sleepDone (.offer i, n))).1 := offinv_frame (opi_callLater _ _ _) hi
    have ht1 : otask (s.callLater d (.sleepDone (.offer i, n))).1 i n = some t := ht
    exact h1.setTask i n t _ ht1 (fun _ hc => hown hc) hans

theorem offinv_cancelTask (s : Stack) (i n : Nat) (hi : OffInv s) : OffInv (s.cancelTask (.offer i, n)) := by
  unfold cancelTask
  rw [getTask_offer]
  cases ht : otask s i n with
  | none => exact hi
  | some t =>
    simp only []
    split
    · exact hi
    · split
      · apply offinv_frame (opi_callSoon _ _)
        exact hi.setTask i n t _ ht (fun _ hc => by cases hc) (fun h => (hi.task_owner ht h : offeredPc t.pc = true))
      · exact hi.setTask i n t _ ht (fun _ hc => by cases hc) (fun h => (hi.task_owner ht h : offeredPc t.pc = true))

theorem offinv_sleepDone (s : Stack) (i n : Nat) (hi : OffInv s) : OffInv (s.sleepDone (.offer i, n)) := by
  unfold sleepDone
  rw [getTask_offer]
  cases ht : otask s i n with
  | none => exact hi
  | some t =>
    simp only []
    split
    · apply offinv_frame (opi_callSoon _ _)
      exact hi.setTask i n t _ ht (fun hpc hc => hi.own i n t ht hpc hc) (fun h => (hi.task_owner ht h : offeredPc t.pc = true))
    · exact hi

/-- after a cancel the task is finished or cancelled -/
theorem otask_cancelled (s : Stack) (i n : Nat) (t : TaskSt) (h : otask (s.cancelTask (.offer i, n)) i n = some t) :
    t.pc = .done ∨ t.cancelled = true := by
  unfold cancelTask at h
  rw [getTask_offer] at h
  cases h0 : otask s i n with
  | none => rw [h0] at h; simp only [] at h; rw [h0] at h; cases h
  | some t0 =>
    rw [h0] at h; simp only [] at h
    split at h
    · rename_i hd; rw [h0] at h; cases h; exact Or.inl hd
    · split at h
      · have : otask ((s.setTask (.offer i, n) { t0 with waiting := false, cancelled := true }).callSoon (.taskStep (.offer i, n))) i n =
            some { t0 with waiting := false, cancelled := true } := by
          show alookup (otasks (s.setTask (.offer i, n) _)) _ = _
          rw [otasks_setTask, otask_setT, if_pos ⟨rfl, rfl⟩]
          have : alookup (otasks s) (TaskKind.offer i, n) = some t0 := h0
          rw [this]; rfl
        rw [this] at h; cases h; exact Or.inr rfl
      · have : otask (s.setTask (.offer i, n) { t0 with cancelled := true }) i n = some { t0 with cancelled := true } := by
          show alookup (otasks (s.setTask (.offer i, n) _)) _ = _
          rw [otasks_setTask, otask_setT, if_pos ⟨rfl, rfl⟩]
          have : alookup (otasks s) (TaskKind.offer i, n) = some t0 := h0
          rw [this]; rfl
        rw [this] at h; cases h; exact Or.inr rfl

/-! ### functions that rewrite an instance's subscription store: both fields are kept -/

theorem getInst_of_instances {s s' : Stack} (h : s'.instances = s.instances) (i : Nat) : s'.getInst i = s.getInst i := by
  unfold getInst; rw [h]

theorem opi_subsStopAllFor (s : Stack) (i : Nat) (a : Addr) : opi (s.subsStopAllFor i a) = opi s := by
  unfold subsStopAllFor; split; rfl
  rename_i x hx
  simp only []
  rw [foldl_pres opi _ (fun s e => by simp)]
  (refine opi_setInst_keep _ i x _ hx ?_ ?_ <;> rfl)

theorem opi_subsStopAll (s : Stack) (i : Nat) : opi (s.subsStopAll i) = opi s := by
  unfold subsStopAll; split; rfl
  rename_i x hx
  simp only []
  have hXo : opi (List.foldl (fun s (p : Addr × List (TSEntry SubKey)) => s.subsStopAllFor i p.1) s x.subs) = opi s :=
    foldl_pres opi (fun s (p : Addr × List (TSEntry SubKey)) => s.subsStopAllFor i p.1) (fun s e => opi_subsStopAllFor s i e.1) _ _
  generalize List.foldl (fun s (p : Addr × List (TSEntry SubKey)) => s.subsStopAllFor i p.1) s x.subs = X at hXo
  split
  · rename_i x' hx'
    rw [← hXo]
    refine opi_setInst_keep X i x' _ hx' ?_ ?_ <;> rfl
  · exact hXo

theorem opi_expiredSub (s : Stack) (i : Nat) (a : Addr) (k : SubKey) : opi (s.expiredSub i a k) = opi s := by
  unfold expiredSub; split; rfl
  rename_i x hx
  simp only []
  split
  · (refine opi_setInst_keep _ i x _ hx ?_ ?_ <;> rfl)
  · rw [opi_emit]; (refine opi_setInst_keep _ i x _ hx ?_ ?_ <;> rfl)

theorem opi_instHandleSubscribe (s : Stack) (i : Nat) (e : SDEntry) (a : Addr) : opi (s.instHandleSubscribe i e a).1 = opi s := by
  unfold instHandleSubscribe
  split
  · rfl
  · rename_i x hx
    have hxi : ∀ X : Stack, X.instances = s.instances → X.getInst i = some x := fun X h => by rw [getInst_of_instances h]; exact hx
    split
    · rfl
    · split
      · split
        · simp only []
          split
          · (refine opi_setInst_keep _ i x _ hx ?_ ?_ <;> rfl)
          · rw [opi_emit, opi_cancelTimer]; (refine opi_setInst_keep _ i x _ hx ?_ ?_ <;> rfl)
        · simp only []
          split
          · rw [opi_queueSend]
            rename_i old hold
            have h1 : opi ((s.cancelTimer (isSubExpiryFor i a old.key) old.timer).armTtl e.ttl (.expiredSub i a (SubKey.ofEntry e))).1 = opi s := by
              rw [opi_armTtl, opi_cancelTimer]
            rw [← h1]
            refine opi_setInst_keep _ i x _ (hxi _ ?_) ?_ ?_
            · unfold armTtl; split <;> rfl
            · rfl
            · rfl
          · split
            · rw [opi_queueSend]; (refine opi_setInst_keep _ i x _ hx ?_ ?_ <;> rfl)
            · rw [opi_queueSend]
              have h1 : opi ((s.emit (.subscribed i (SubKey.ofEntry e) a)).armTtl e.ttl (.expiredSub i a (SubKey.ofEntry e))).1 = opi s := by
                rw [opi_armTtl, opi_emit]
              rw [← h1]
              refine opi_setInst_keep _ i x _ (hxi _ ?_) ?_ ?_
              · unfold armTtl; split <;> rfl
              · rfl
              · rfl
      · rfl

theorem opi_handleSubscribe (s : Stack) (e : SDEntry) (a : Addr) : opi (s.handleSubscribe e a) = opi s := by
  unfold handleSubscribe
  simp only []
  have key : ∀ (l : List Nat) (acc : Stack × Bool),
      opi (l.foldl (fun (acc : Stack × Bool) i => ((acc.1.instHandleSubscribe i e a).1, acc.2 || (acc.1.instHandleSubscribe i e a).2)) acc).1 = opi acc.1 := by
    intro l; induction l with
    | nil => intro acc; rfl
    | cons x t ih => intro acc; rw [List.foldl_cons, ih]; exact opi_instHandleSubscribe _ _ _ _
  split
  · exact key _ _
  · rw [opi_queueSend]; exact key _ _

theorem opi_announcerReboot (s : Stack) (a : Addr) : opi (s.announcerReboot a) = opi s := by
  unfold announcerReboot; rw [foldl_pres opi _ (fun s i => opi_subsStopAllFor s i a)]

theorem opi_rebootDetected (s : Stack) (a : Addr) : opi (s.rebootDetected a) = opi s := by
  unfold rebootDetected; rw [opi_announcerReboot, opi_foundStopAllFor]

theorem opi_stepFind (s : Stack) (tid : Tid) (t : TaskSt) (h : isOfferK tid.1 = false) : opi (s.stepFind tid t) = opi s := by
  unfold stepFind
  simp only []
  have hs := fun (X : Stack) (t' : TaskSt) (d : Nat) (pc : Pc) => opi_sleepFor X tid t' d pc h
  have hf := fun (X : Stack) (t' : TaskSt) => opi_finish X tid t' h
  (repeat' split) <;> simp [hs, hf]

theorem opi_discoveryStart (s : Stack) : opi s.discoveryStart = opi s := by
  rcases discoveryStart_cases s with h | ⟨_, h⟩
  · rw [h]
  · rw [h]; exact (opi_markFind _ _).trans ((opi_with_findTask _ _).trans (opi_createTask_find _))

theorem opi_discoveryStop (s : Stack) : opi s.discoveryStop = opi s := by
  unfold discoveryStop; split
  · exact (opi_with_findTask _ _).trans (opi_cancelTask_find _ _)
  · rfl

/-! ### ServiceInstance.start / stop -/

theorem ocount_eq_taskCount (s : Stack) (i : Nat) : s.taskCount (.offer i) = ocount (otasks s) i := by
  unfold taskCount ocount otasks
  rw [List.filter_filter]
  congr 1
  apply List.filter_congr
  intro p _
  by_cases h : p.1.1 = TaskKind.offer i
  · simp [h, isOfferT, isOfferK]
  · simp [h]

theorem ocount_append_one (l : List (Tid × TaskSt)) (k : Tid) (t : TaskSt) (j : Nat) :
    ocount (l ++ [(k, t)]) j = ocount l j + (if k.1 = TaskKind.offer j then 1 else 0) := by
  unfold ocount
  rw [List.filter_append, List.length_append]
  by_cases h : k.1 = TaskKind.offer j <;> simp [List.filter_cons, h]

/-- `start()`: a new offer task, held by the instance; it does not answer requests yet -/
theorem offinv_instStart (s : Stack) (i : Nat) (hi : OffInv s) : OffInv (s.instStart i) := by
  unfold instStart
  split
  · exact hi
  · rename_i x hx
    split
    · exact offinv_frame (opi_emit _ _) hi
    · rename_i hnone
      have hxt : x.task = none := by cases h : x.task <;> simp_all
      -- step 1: canAnswer := false
      have hiL : OffInv (s.logOffer i .start) := offinv_frame (opi_logOffer _ _ _) hi
      have h1 := hiL.setCanFalse i x hx
      generalize hs1 : (s.logOffer i .start).setInst i { x with canAnswer := false } = s1 at h1
      have hx1 : s1.getInst i = some { x with canAnswer := false } := by
        rw [← hs1]; unfold getInst setInst; simp only []
        have hlt : i < (s.logOffer i .start).instances.length := (List.getElem?_eq_some_iff.mp hx).1
        rw [List.getElem?_set]; simp [hlt]
      simp only []
      -- step 2: the new task, then the instance takes it
      have hcnt : s1.taskCount (.offer i) = ocount (otasks s1) i := ocount_eq_taskCount s1 i
      have hx2 : (s1.createTask (.offer i)).1.getInst i = some { x with canAnswer := false } := hx1
      rw [hx2]
      simp only []
      have hnone' : alookup (otasks s1) (TaskKind.offer i, ocount (otasks s1) i) = none :=
        alookup_none (fun p hp e => by
          have := h1.keys p hp i (by rw [e])
          rw [e] at this; exact Nat.lt_irrefl _ this)
      have e1 : otasks ((s1.createTask (.offer i)).1.setInst i { ({ x with canAnswer := false } : Instance) with task := some (s1.createTask (.offer i)).2 }) =
          otasks s1 ++ [((.offer i, ocount (otasks s1) i), ({} : TaskSt))] := by
        simp [otasks, createTask, callSoon, setInst, hcnt, List.filter_append, isOfferT, isOfferK]
      have e2 : (s1.createTask (.offer i)).2 = ocount (otasks s1) i := hcnt
      have hitc : ∀ j, itc ((s1.createTask (.offer i)).1.setInst i { ({ x with canAnswer := false } : Instance) with task := some (s1.createTask (.offer i)).2 }) j =
          if j = i then some (some (ocount (otasks s1) i), false) else itc s1 j := by
        intro j
        rw [itc_setInst _ i j _ _ hx2, e2]
        by_cases hj : j = i
        · rw [if_pos hj, if_pos hj]
        · rw [if_neg hj, if_neg hj]; rfl
      have hot : ∀ j m, otask ((s1.createTask (.offer i)).1.setInst i { ({ x with canAnswer := false } : Instance) with task := some (s1.createTask (.offer i)).2 }) j m =
          if j = i ∧ m = ocount (otasks s1) i then some ({} : TaskSt) else otask s1 j m := by
        intro j m
        unfold otask; rw [e1, alookup_append]
        by_cases h : j = i ∧ m = ocount (otasks s1) i
        · obtain ⟨rfl, rfl⟩ := h; rw [hnone']; simp [alookup]
        · rw [if_neg h]
          cases hl : alookup (otasks s1) (TaskKind.offer j, m)
          · simp only []
            apply alookup_none
            intro p hp e; simp at hp; subst hp; simp at e; exact h ⟨e.1.symm, e.2.symm⟩
          · rfl
      have hitc1 : itc s1 i = some (none, false) := by rw [itc_getInst hx1]; simp [hxt]
      refine ⟨?_, ?_, ?_, ?_⟩
      · intro p hp; rw [e1] at hp
        rcases List.mem_append.mp hp with hp | hp
        · exact h1.kind p hp
        · simp at hp; subst hp; rfl
      · intro p hp j hj; rw [e1] at hp ⊢; rw [ocount_append_one]
        rcases List.mem_append.mp hp with hp | hp
        · exact Nat.lt_of_lt_of_le (h1.keys p hp j hj) (Nat.le_add_right _ _)
        · simp at hp; subst hp
          have : j = i := by simpa using hj.symm
          subst this; simp
      · intro j m tm htm hpc hc
        rw [hot] at htm; rw [hitc]
        by_cases h : j = i ∧ m = ocount (otasks s1) i
        · obtain ⟨rfl, rfl⟩ := h; rw [if_pos rfl]; exact ⟨false, rfl⟩
        · rw [if_neg h] at htm
          obtain ⟨c, hc1⟩ := h1.own j m tm htm hpc hc
          by_cases hj : j = i
          · subst hj; rw [hitc1] at hc1; cases hc1
          · rw [if_neg hj]; exact ⟨c, hc1⟩
      · intro j r hr
        rw [hitc] at hr
        by_cases hj : j = i
        · subst hj; rw [if_pos rfl] at hr; simp at hr
        · rw [if_neg hj] at hr
          obtain ⟨m, tm, h2, h3, h4⟩ := h1.ans j r hr
          refine ⟨m, tm, h2, ?_, h4⟩
          rw [hot, if_neg (fun h => hj h.1)]; exact h3

/-- `stop()`: the task is cancelled and let go; the subscriptions are dropped -/
theorem offinv_instStop (s : Stack) (i : Nat) (hi : OffInv s) : OffInv (s.instStop i) := by
  unfold instStop
  split
  · exact hi
  · rename_i x hx
    split
    · exact offinv_frame (opi_emit _ _) hi
    · rename_i n hn
      simp only []
      apply offinv_frame (opi_subsStopAll _ _)
      have hiL : OffInv (s.logOffer i .stop) := offinv_frame (opi_logOffer _ _ _) hi
      have h1 := offinv_cancelTask (s.logOffer i .stop) i n hiL
      have hx1 : ((s.logOffer i .stop).cancelTask (.offer i, n)).getInst i = some x := by
        rw [getInst_of_instances]; exact hx
        unfold cancelTask; split; rfl; split; rfl; split <;> rfl
      have h2 : OffInv (((s.logOffer i .stop).cancelTask (.offer i, n)).setInst i { x with task := none, canAnswer := false }) :=
        h1.setStopped i n x _ hx1 hn (fun t ht => otask_cancelled (s.logOffer i .stop) i n t ht) rfl rfl
      split
      · exact offinv_frame (opi_sendOffer _ _ _ _) h2
      · exact h2

/-! ### one step of the offer coroutine -/

theorem otask_of_opi {s s' : Stack} (h : opi s' = opi s) (i n : Nat) : otask s' i n = otask s i n := by
  unfold otask; rw [show otasks s' = otasks s from congrArg (fun p => p.2) h]
theorem itc_of_opi {s s' : Stack} (h : opi s' = opi s) (i : Nat) : itc s' i = itc s i := by
  unfold itc; rw [show s'.instances.map (fun x => (x.task, x.canAnswer)) = s.instances.map (fun x => (x.task, x.canAnswer)) from congrArg (fun p => p.1) h]

/-- the task state written by `sleepFor` / `finish` -/
theorem otask_sleepFor (s : Stack) (i n : Nat) (t t' : TaskSt) (d : Nat) (pc : Pc) (ht : otask s i n = some t) :
    ∃ t'', otask (s.sleepFor (.offer i, n) t' d pc) i n = some t'' ∧ t''.pc = pc := by
  have key : ∀ (X : Stack) (tn : TaskSt), otask X i n = some t → otask (X.setTask (.offer i, n) tn) i n = some tn := by
    intro X tn hX
    show alookup (otasks (X.setTask (.offer i, n) tn)) _ = _
    rw [otasks_setTask, otask_setT, if_pos ⟨rfl, rfl⟩]
    have : alookup (otasks X) (TaskKind.offer i, n) = some t := hX
    rw [this]; rfl
  unfold sleepFor
  split
  · exact ⟨_, (otask_of_opi (opi_callSoon _ _) i n).trans (key s _ ht), rfl⟩
  · exact ⟨_, key _ _ ((otask_of_opi (opi_callLater _ _ _) i n).trans ht), rfl⟩
theorem otask_finish (s : Stack) (i n : Nat) (t t' : TaskSt) (ht : otask s i n = some t) :
    ∃ t'', otask (s.finish (.offer i, n) t') i n = some t'' ∧ t''.pc = .done := by
  refine ⟨{ t' with pc := .done, waiting := false, sleep := none, cancelled := false }, ?_, rfl⟩
  unfold finish
  show alookup (otasks (s.setTask (.offer i, n) _)) _ = _
  rw [otasks_setTask, otask_setT, if_pos ⟨rfl, rfl⟩]
  have : alookup (otasks s) (TaskKind.offer i, n) = some t := ht
  rw [this]; rfl

/-- what follows the first offer: `canAnswer := true`, then the task sleeps towards the next offer or ends -/
theorem offinv_after_first (Y : Stack) (i n : Nat) (x : Instance) (t t' : TaskSt) (hi : OffInv Y) (ht : otask Y i n = some t)
    (hx : Y.getInst i = some x) (hown : x.task = some n) (hc : t'.cancelled = false) :
    OffInv (if 0 < (Y.setInst i { x with canAnswer := true }).tm.repetitionsMax
            then (Y.setInst i { x with canAnswer := true }).sleepFor (.offer i, n) t'
                   (pow2 0 * (Y.setInst i { x with canAnswer := true }).tm.repetitionsBaseDelay) (.rep 0)
            else if (Y.setInst i { x with canAnswer := true }).tm.cyclicOfferDelay = 0
              then (Y.setInst i { x with canAnswer := true }).finish (.offer i, n) t'
              else (Y.setInst i { x with canAnswer := true }).sleepFor (.offer i, n) t'
                     (Y.setInst i { x with canAnswer := true }).tm.cyclicOfferDelay .cyclic) := by
  have hitc : itc Y i = some (some n, x.canAnswer) := by rw [itc_getInst hx, hown]
  -- the task update and the instance update commute: do the task first
  have hsl : ∀ (d : Nat) (pc : Pc), offeredPc pc = true →
      OffInv ((Y.setInst i { x with canAnswer := true }).sleepFor (.offer i, n) t' d pc) := by
    intro d pc hpc
    have e : (Y.setInst i { x with canAnswer := true }).sleepFor (.offer i, n) t' d pc =
        (Y.sleepFor (.offer i, n) t' d pc).setInst i { x with canAnswer := true } := by
      unfold sleepFor; split <;> rfl
    rw [e]
    have h1 := offinv_sleepFor Y i n t t' d pc hi ht (fun _ => ⟨_, hitc⟩) (fun _ => hpc)
    obtain ⟨t'', h2, h3⟩ := otask_sleepFor Y i n t t' d pc ht
    have hx' : (Y.sleepFor (.offer i, n) t' d pc).getInst i = some x := by
      rw [getInst_of_instances]; exact hx
      unfold sleepFor; split <;> rfl
    exact h1.setCanTrue i n x t'' hx' hown h2 (by rw [h3]; exact hpc)
  split
  · exact hsl _ _ rfl
  · split
    · have e : (Y.setInst i { x with canAnswer := true }).finish (.offer i, n) t' =
          (Y.finish (.offer i, n) t').setInst i { x with canAnswer := true } := rfl
      rw [e]
      have h1 := offinv_finish Y i n t t' hi ht
      obtain ⟨t'', h2, h3⟩ := otask_finish Y i n t t' ht
      exact h1.setCanTrue i n x t'' hx hown h2 (by rw [h3]; rfl)
    · exact hsl _ _ rfl

theorem offinv_stepOffer (s : Stack) (i n : Nat) (t t' : TaskSt) (hi : OffInv s) (ht : otask s i n = some t)
    (hpc : t'.pc = t.pc) (hc : t'.cancelled = t.cancelled) (hnd : t.pc ≠ .done) : OffInv (s.stepOffer (.offer i, n) t' i) := by
  have hown : t'.cancelled = false → ∃ c, itc s i = some (some n, c) := fun h => hi.own i n t ht hnd (hc ▸ h)
  have hfin : ∀ (X : Stack), OffInv X → otask X i n = some t → OffInv (X.finish (.offer i, n) t') :=
    fun X hX htX => offinv_finish X i n t t' hX htX
  -- except CancelledError / finally
  have hcancel : OffInv ((if (match s.getInst i with | some x => s.setInst i { x with canAnswer := false } | none => s).tm.cyclicOfferDelay ≠ 0
      then (match s.getInst i with | some x => s.setInst i { x with canAnswer := false } | none => s).sendOffer i none true
      else (match s.getInst i with | some x => s.setInst i { x with canAnswer := false } | none => s)).finish (.offer i, n) t') := by
    have h1 : OffInv (match s.getInst i with | some x => s.setInst i { x with canAnswer := false } | none => s) := by
      split
      · rename_i x hx; exact hi.setCanFalse i x hx
      · exact hi
    have ht1 : otask (match s.getInst i with | some x => s.setInst i { x with canAnswer := false } | none => s) i n = some t := by
      split <;> exact ht
    generalize (match s.getInst i with | some x => s.setInst i { x with canAnswer := false } | none => s) = X at h1 ht1
    apply hfin
    · split
      · exact offinv_frame (opi_sendOffer _ _ _ _) h1
      · exact h1
    · split
      · exact (otask_of_opi (opi_sendOffer _ _ _ _) i n).trans ht1
      · exact ht1
  -- top of the repetition loop / what follows it, for a running task past its first offer
  have hafter : ∀ (X : Stack) (k : Nat), OffInv X → otask X i n = some t → itc X i = itc s i → t'.cancelled = false →
      OffInv (if k < X.tm.repetitionsMax then X.sleepFor (.offer i, n) t' (pow2 k * X.tm.repetitionsBaseDelay) (.rep k)
              else if X.tm.cyclicOfferDelay = 0 then X.finish (.offer i, n) t' else X.sleepFor (.offer i, n) t' X.tm.cyclicOfferDelay .cyclic) := by
    intro X k hX htX hitcX hcc
    split
    · exact offinv_sleepFor X i n t t' _ _ hX htX (fun h => by rw [hitcX]; exact hown h) (fun _ => rfl)
    · split
      · exact hfin X hX htX
      · exact offinv_sleepFor X i n t t' _ _ hX htX (fun h => by rw [hitcX]; exact hown h) (fun _ => rfl)
  unfold stepOffer
  simp only []
  split
  · -- created: the initial wait
    rename_i hcr
    rw [hpc] at hcr
    split
    · exact hfin s hi ht
    · rename_i hcc
      have hcc' : t'.cancelled = false := by simpa using hcc
      have e1 := opi_draw s s.tm.initialDelayMin s.tm.initialDelayMax
      apply offinv_sleepFor _ i n t t' _ _ (offinv_frame e1 hi) ((otask_of_opi e1 i n).trans ht)
      · intro h; rw [itc_of_opi e1]; exact hown h
      · intro h
        rw [itc_of_opi e1] at h
        have := hi.task_owner ht h
        rw [hcr] at this; cases this
  · -- initial: the first offer
    rename_i hin
    rw [hpc] at hin
    split
    · exact hfin s hi ht
    · rename_i hcc
      have hcc' : t'.cancelled = false := by simpa using hcc
      have e1 := opi_sendOffer s i none false
      have hY := offinv_frame e1 hi
      have htY := (otask_of_opi e1 i n).trans ht
      obtain ⟨c, hitc⟩ := hown hcc'
      generalize s.sendOffer i none false = Y at e1 hY htY
      have hitcY : itc Y i = some (some n, c) := (itc_of_opi e1 i).trans hitc
      cases hx : Y.getInst i with
      | none => rw [itc_none hx] at hitcY; cases hitcY
      | some x =>
        simp only []
        have hxt : x.task = some n := by
          rw [itc_getInst hx] at hitcY
          simpa using (Prod.mk.inj (Option.some.inj hitcY)).1
        exact offinv_after_first Y i n x t t' hY htY hx hxt hcc'
  · -- repetition phase
    rename_i k hrep
    split
    · exact hcancel
    · rename_i hcc
      have hcc' : t'.cancelled = false := by simpa using hcc
      have e1 := opi_sendOffer s i none false
      exact hafter _ (k + 1) (offinv_frame e1 hi) ((otask_of_opi e1 i n).trans ht) (itc_of_opi e1 i) hcc'
  · -- cyclic phase
    split
    · exact hcancel
    · rename_i hcc
      have hcc' : t'.cancelled = false := by simpa using hcc
      have e1 := opi_sendOffer s i none false
      exact offinv_sleepFor _ i n t t' _ _ (offinv_frame e1 hi) ((otask_of_opi e1 i n).trans ht)
        (fun h => by rw [itc_of_opi e1]; exact hown h) (fun _ => rfl)
  · exact hi

end Stack
end Someip
