/-
  C12, timing of the deferred answers: every scheduled `_send_offer(remote)` handle (the answer to a FindService received by
  multicast) belongs to a logged request: the ghost log holds (instance, requester, time T of the request, delay d), d lies
  inside the request-response window, and the handle's deadline is exactly T + d.  With the loop discipline (LoopInv) it
  fires exactly then.  Lifting scripts as in LoopInv.lean / QDeadline.lean; only `handle_findservice` arms such a handle.
-/
import SomeipModel.Lemmas.LoopInv
import SomeipModel.Lemmas.OTSteps
namespace Someip
namespace Stack
set_option linter.unusedSimpArgs false
set_option linter.unusedVariables false

def isAnswerCb : Cb → Bool | .sendOfferTo _ _ => true | _ => false

def AQ (s : Stack) : Prop :=
  ∀ t ∈ s.loop.timers, ∀ i a, t.cb = .sendOfferTo i a →
    ∃ T d, (i, a, T, d) ∈ s.ansLog ∧ s.tm.reqRespDelayMin ≤ d ∧ (s.tm.reqRespDelayMin ≤ s.tm.reqRespDelayMax → d ≤ s.tm.reqRespDelayMax) ∧
      t.deadline = T + d

theorem aq_same {s s' : Stack} (h1 : s'.loop = s.loop) (h2 : s'.tm = s.tm) (h3 : s'.ansLog = s.ansLog) (hi : AQ s) : AQ s' := by
  unfold AQ; rw [h1, h2, h3]; exact hi

theorem aq_callLater (s : Stack) (d : Nat) (cb : Cb) (hcb : isAnswerCb cb = false) (hi : AQ s) : AQ (s.callLater d cb).1 := by
  intro t ht i a hc
  simp only [callLater, Loop.callLater, List.mem_append, List.mem_cons, List.not_mem_nil, or_false] at ht
  rcases ht with ht | rfl
  · exact hi t ht i a hc
  · simp only [] at hc; rw [hc] at hcb; cases hcb
theorem aq_cancelTimer (s : Stack) (own : Cb → Bool) (q : Option Nat) (hi : AQ s) : AQ (s.cancelTimer own q) := by
  cases q with
  | none => exact hi
  | some n =>
    intro t ht
    simp only [cancelTimer, Loop.cancelOpt, Loop.cancel, List.mem_filter] at ht
    exact hi t ht.1
theorem aq_armTtl (s : Stack) (ttl : Nat) (cb : Cb) (hcb : isAnswerCb cb = false) (hi : AQ s) : AQ (s.armTtl ttl cb).1 := by
  unfold armTtl; simp only []; split
  · exact aq_callLater ({ s with armLog := s.armLog ++ [(cb, s.loop.now, ttl)] } : Stack) _ _ hcb hi
  · exact hi
theorem aq_newCollector (s : Stack) (d : Dest) (hi : AQ s) : AQ (s.newCollector d).1 := by
  unfold newCollector; exact aq_callLater s _ _ rfl hi

theorem aq_callSoon (s : Stack) (cb : Cb) (hi : AQ s) : AQ (s.callSoon cb) := hi
theorem aq_emit (s : Stack) (o : Out) (hi : AQ s) : AQ (s.emit o) := hi
theorem aq_setInst (s : Stack) (i : Nat) (x : Instance) (hi : AQ s) : AQ (s.setInst i x) := hi
theorem aq_setTask (s : Stack) (tid : Tid) (t : TaskSt) (hi : AQ s) : AQ (s.setTask tid t) := hi

theorem aq_foldl {α : Type} (f : Stack → α → Stack) (h : ∀ s a, AQ s → AQ (f s a)) (l : List α) (s : Stack) (hi : AQ s) :
    AQ (l.foldl f s) := by
  induction l generalizing s with
  | nil => exact hi
  | cons a t ih => rw [List.foldl_cons]; exact ih _ (h s a hi)

theorem aq_draw (s : Stack) (a b : Nat) (hi : AQ s) : AQ (s.draw a b).1 := by unfold draw; split <;> exact hi

theorem aq_sendSd (s : Stack) (es : List SDEntry) (d : Dest) (hi : AQ s) : AQ (s.sendSd es d) := by
  unfold sendSd; split; exact hi; simp only []; split; exact hi; split <;> exact hi
theorem aq_flushTo (s : Stack) (es : List SDEntry) (d : Dest) (hi : AQ s) : AQ (s.flushTo es d) := by
  unfold flushTo; exact aq_sendSd _ _ _ hi

theorem aq_appendCollector (s : Stack) (c : Nat) (e : SDEntry) (hi : AQ s) : AQ (s.appendCollector c e) := hi
theorem aq_createTask (s : Stack) (k : TaskKind) (hi : AQ s) : AQ (s.createTask k).1 := hi
theorem aq_cancelTask (s : Stack) (t : Tid) (hi : AQ s) : AQ (s.cancelTask t) := by
  unfold cancelTask; split; exact hi; split; exact hi; split <;> exact hi
theorem aq_sleepFor (s : Stack) (tid : Tid) (t : TaskSt) (d : Nat) (pc : Pc) (hi : AQ s) : AQ (s.sleepFor tid t d pc) := by
  unfold sleepFor; split
  · exact hi
  · exact aq_callLater s _ _ rfl hi
theorem aq_finish (s : Stack) (tid : Tid) (t : TaskSt) (hi : AQ s) : AQ (s.finish tid t) := hi
theorem aq_sleepDone (s : Stack) (tid : Tid) (hi : AQ s) : AQ (s.sleepDone tid) := by
  unfold sleepDone; split; exact hi; split <;> exact hi

/-- split conditionals, apply the lemmas of the functions below -/
macro "aqt" : tactic => `(tactic| repeat' (first
  | assumption
  | with_reducible apply aq_cancelTimer
  | with_reducible apply aq_callSoon
  | with_reducible apply aq_emit
  | with_reducible apply aq_setInst
  | with_reducible apply aq_setTask
  | with_reducible apply aq_draw
  | with_reducible apply aq_armTtl
  | with_reducible apply aq_sendSd
  | with_reducible apply aq_flushTo
  | with_reducible apply aq_newCollector
  | with_reducible apply aq_appendCollector
  | with_reducible apply aq_createTask
  | with_reducible apply aq_cancelTask
  | with_reducible apply aq_sleepFor
  | with_reducible apply aq_finish
  | with_reducible apply aq_sleepDone
  | split))

theorem aq_queueSend (s : Stack) (e : SDEntry) (d : Dest) (hi : AQ s) : AQ (s.queueSend e d) := by
  unfold queueSend; simp only []; aqt
theorem aq_collectorTimeout (s : Stack) (c : Nat) (hi : AQ s) : AQ (s.collectorTimeout c) := by
  unfold collectorTimeout; split
  · exact hi
  · exact aq_flushTo _ _ _ hi
theorem aq_sendOffer (s : Stack) (i : Nat) (r : Dest) (b : Bool) (hi : AQ s) : AQ (s.sendOffer i r b) := by
  unfold sendOffer; split; exact hi; split; exact hi; exact aq_queueSend _ _ _ hi

theorem aq_stepOffer (s : Stack) (tid : Tid) (t : TaskSt) (i : Nat) (hi : AQ s) : AQ (s.stepOffer tid t i) := by
  have hso : ∀ (X : Stack) (r : Dest) (b : Bool), AQ X → AQ (X.sendOffer i r b) := fun X r b h => aq_sendOffer X i r b h
  have hmatch : ∀ (X : Stack) (c : Bool), AQ X → AQ (match X.getInst i with | some x => X.setInst i { x with canAnswer := c } | none => X) := by
    intro X c h; split <;> exact h
  unfold stepOffer
  simp only []
  have hcancel : ∀ X : Stack, AQ X → AQ ((if (match X.getInst i with | some x => X.setInst i { x with canAnswer := false } | none => X).tm.cyclicOfferDelay ≠ 0
      then (match X.getInst i with | some x => X.setInst i { x with canAnswer := false } | none => X).sendOffer i none true
      else (match X.getInst i with | some x => X.setInst i { x with canAnswer := false } | none => X)).finish tid t) := by
    intro X hX
    apply aq_finish
    have hm := hmatch X false hX
    generalize (match X.getInst i with | some x => X.setInst i { x with canAnswer := false } | none => X) = Y at hm ⊢
    split
    · exact hso _ _ _ hm
    · exact hm
  have hafter : ∀ (X : Stack) (k : Nat), AQ X → AQ (if k < X.tm.repetitionsMax then X.sleepFor tid t (pow2 k * X.tm.repetitionsBaseDelay) (.rep k)
      else if X.tm.cyclicOfferDelay = 0 then X.finish tid t else X.sleepFor tid t X.tm.cyclicOfferDelay .cyclic) := by
    intro X k hX; aqt
  split
  · split
    · exact aq_finish _ _ _ hi
    · exact aq_sleepFor _ _ _ _ _ (aq_draw _ _ _ hi)
  · split
    · exact aq_finish _ _ _ hi
    · exact hafter _ _ (hmatch _ true (hso _ _ _ hi))
  · split
    · exact hcancel _ hi
    · exact hafter _ _ (hso _ _ _ hi)
  · split
    · exact hcancel _ hi
    · exact aq_sleepFor _ _ _ _ _ (hso _ _ _ hi)
  · exact hi

theorem aq_instStart (s : Stack) (i : Nat) (hi : AQ s) : AQ (s.instStart i) := by
  unfold instStart; split; exact hi; split; exact hi; simp only []; split <;> exact hi

theorem aq_subsStopAllFor (s : Stack) (i : Nat) (a : Addr) (hi : AQ s) : AQ (s.subsStopAllFor i a) := by
  unfold subsStopAllFor; split; exact hi
  simp only []
  exact aq_foldl _ (fun X e hX => aq_emit _ _ (aq_cancelTimer _ _ _ hX)) _ _ hi

theorem aq_subsStopAll (s : Stack) (i : Nat) (hi : AQ s) : AQ (s.subsStopAll i) := by
  unfold subsStopAll; split; exact hi
  simp only []
  have h1 := aq_foldl (fun (X : Stack) (p : Addr × List (TSEntry SubKey)) => X.subsStopAllFor i p.1) (fun X p hX => aq_subsStopAllFor X i p.1 hX)
  split
  · exact h1 _ _ hi
  · exact h1 _ _ hi

theorem aq_instStop (s : Stack) (i : Nat) (hi : AQ s) : AQ (s.instStop i) := by
  unfold instStop; split; exact hi; split; exact hi
  simp only []
  apply aq_subsStopAll
  split
  · exact aq_sendOffer _ _ _ _ (aq_cancelTask _ _ hi)
  · exact aq_cancelTask _ _ hi

theorem aq_instHandleSubscribe (s : Stack) (i : Nat) (e : SDEntry) (a : Addr) (hi : AQ s) : AQ (s.instHandleSubscribe i e a).1 := by
  unfold instHandleSubscribe
  split
  · exact hi
  · split
    · exact hi
    · split
      · split
        · simp only []
          split
          · exact hi
          · exact aq_cancelTimer _ _ _ hi
        · simp only []
          split
          · exact aq_queueSend _ _ _ (aq_armTtl _ _ _ rfl (aq_cancelTimer _ _ _ hi))
          · split
            · exact aq_queueSend _ _ _ hi
            · exact aq_queueSend _ _ _ (aq_armTtl _ _ _ rfl hi)
      · exact hi

theorem aq_handleSubscribe (s : Stack) (e : SDEntry) (a : Addr) (hi : AQ s) : AQ (s.handleSubscribe e a) := by
  unfold handleSubscribe
  simp only []
  have key : ∀ (l : List Nat) (acc : Stack × Bool), AQ acc.1 →
      AQ (l.foldl (fun (acc : Stack × Bool) i => ((acc.1.instHandleSubscribe i e a).1, acc.2 || (acc.1.instHandleSubscribe i e a).2)) acc).1 := by
    intro l; induction l with
    | nil => intro acc h; exact h
    | cons x t ih => intro acc h; rw [List.foldl_cons]; exact ih _ (aq_instHandleSubscribe _ _ _ _ h)
  split
  · exact key _ _ hi
  · exact aq_queueSend _ _ _ (key _ _ hi)

/-- the one place where a deferred answer is armed: one delay drawn inside the request-response window, logged with the time -/
theorem aq_handleFind (s : Stack) (e : SDEntry) (a : Addr) (mc : Bool) (hi : AQ s) : AQ (s.handleFind e a mc) := by
  unfold handleFind; simp only []
  split; exact hi
  split
  · have hwin := draw_window s s.tm.reqRespDelayMin s.tm.reqRespDelayMax
    have h0 : AQ (s.draw s.tm.reqRespDelayMin s.tm.reqRespDelayMax).1 := aq_draw _ _ _ hi
    have htm0 : (s.draw s.tm.reqRespDelayMin s.tm.reqRespDelayMax).1.tm = s.tm := by unfold draw; split <;> rfl
    generalize (s.draw s.tm.reqRespDelayMin s.tm.reqRespDelayMax).2 = d at hwin
    generalize (s.draw s.tm.reqRespDelayMin s.tm.reqRespDelayMax).1 = X0 at h0 htm0
    have key : ∀ (l : List Nat) (X : Stack), AQ X → X.tm = s.tm →
        AQ (l.foldl (fun s i => ((s.logAnswer i a d).callLater d (.sendOfferTo i a)).1) X) := by
      intro l
      induction l with
      | nil => intro X hX _; exact hX
      | cons i r ih =>
        intro X hX htm
        rw [List.foldl_cons]
        refine ih _ ?_ htm
        intro t ht j b hcb
        simp only [callLater, Loop.callLater, List.mem_append, List.mem_cons, List.not_mem_nil, or_false] at ht
        rcases ht with ht | rfl
        · obtain ⟨T, d', h1, h2, h3, h4⟩ := hX t ht j b hcb
          exact ⟨T, d', List.mem_append_left _ h1, h2, h3, h4⟩
        · simp only [Cb.sendOfferTo.injEq] at hcb
          obtain ⟨rfl, rfl⟩ := hcb
          refine ⟨X.loop.now, d, List.mem_append_right _ (List.mem_singleton.mpr rfl), ?_, ?_, rfl⟩
          · show X.tm.reqRespDelayMin ≤ d; rw [htm]; exact hwin.1
          · show X.tm.reqRespDelayMin ≤ X.tm.reqRespDelayMax → d ≤ X.tm.reqRespDelayMax; rw [htm]; exact hwin.2
    exact key _ _ h0 htm0
  · exact aq_foldl _ (fun X i hX => aq_callSoon X _ hX) _ _ hi

theorem aq_expiredSub (s : Stack) (i : Nat) (a : Addr) (k : SubKey) (hi : AQ s) : AQ (s.expiredSub i a k) := by
  unfold expiredSub; split; exact hi; simp only []; split <;> exact hi

theorem aq_announcerStart (s : Stack) (hi : AQ s) : AQ s.announcerStart := by
  unfold announcerStart; simp only []
  exact aq_foldl (fun (X : Stack) (i : Nat) => X.instStart i) (fun X i hX => aq_instStart X i hX) _ _ hi
theorem aq_announcerStop (s : Stack) (hi : AQ s) : AQ s.announcerStop := by
  unfold announcerStop; split; exact hi
  show AQ (List.foldl (fun s i => s.instStop i) s s.announceOrder)
  exact aq_foldl _ (fun X i hX => aq_instStop X i hX) _ _ hi
theorem aq_announcerReboot (s : Stack) (a : Addr) (hi : AQ s) : AQ (s.announcerReboot a) := by
  unfold announcerReboot; exact aq_foldl _ (fun X i hX => aq_subsStopAllFor X i a hX) _ _ hi
theorem aq_announceService (s : Stack) (i : Nat) (hi : AQ s) : AQ (s.announceService i) := by
  unfold announceService; simp only []
  show AQ (if s.started = true then s.instStart i else s)
  split
  · exact aq_instStart _ _ hi
  · exact hi
theorem aq_stopAnnounceService (s : Stack) (i : Nat) (b : Bool) (hi : AQ s) : AQ (s.stopAnnounceService i b) := by
  unfold stopAnnounceService; split; exact hi
  simp only []
  split
  · exact aq_instStop _ _ hi
  · exact hi

theorem aq_sendSubscribe (s : Stack) (ttl : Nat) (d : Addr) (egs : List Eventgroup) (hi : AQ s) : AQ (s.sendSubscribe ttl d egs) := by
  unfold sendSubscribe; exact aq_sendSd _ _ _ hi
theorem aq_subscribeEventgroup (s : Stack) (g : Eventgroup) (d : Addr) (hi : AQ s) : AQ (s.subscribeEventgroup g d) := by
  unfold subscribeEventgroup; simp only []; split <;> exact hi
theorem aq_stopSubscribeEventgroup (s : Stack) (g : Eventgroup) (d : Addr) (b : Bool) (hi : AQ s) : AQ (s.stopSubscribeEventgroup g d b) := by
  unfold stopSubscribeEventgroup; split
  · simp only []; split <;> exact hi
  · exact hi
theorem aq_subscriberStart (s : Stack) (hi : AQ s) : AQ s.subscriberStart := by
  unfold subscriberStart; split <;> exact hi
theorem aq_subscriberStop (s : Stack) (b : Bool) (hi : AQ s) : AQ (s.subscriberStop b) := by
  unfold subscriberStop; split; exact hi
  simp only []
  have h1 : AQ (match ({ s with alive := false, subLost := !b } : Stack).subTask with
      | some tid => ({ ({ s with alive := false, subLost := !b } : Stack).cancelTask (.subscribe, tid) with subTask := none } : Stack)
      | none => ({ s with alive := false, subLost := !b } : Stack)) := by
    split
    · exact aq_cancelTask ({ s with alive := false, subLost := !b } : Stack) _ hi
    · exact hi
  split
  · exact aq_foldl _ (fun X p hX => aq_callSoon X _ hX) _ _ h1
  · exact h1
theorem aq_stepSubscribe (s : Stack) (tid : Tid) (t : TaskSt) (hi : AQ s) : AQ (s.stepSubscribe tid t) := by
  unfold stepSubscribe
  simp only []
  have key : ∀ st : Stack, AQ st → AQ (List.foldl (fun s p => s.sendSubscribe s.tm.subscribeTtl p.1 p.2) st (groupEntries st.subEntries)) :=
    fun st h => aq_foldl _ (fun X p hX => aq_sendSubscribe _ _ _ _ hX) _ _ h
  split
  · split
    · exact hi
    · split
      · exact key _ hi
      · exact aq_sleepFor _ _ _ _ _ (key _ hi)
  · split
    · exact hi
    · split
      · exact key _ hi
      · exact aq_sleepFor _ _ _ _ _ (key _ hi)
  · exact hi

theorem aq_listenerOffered (s : Stack) (l : Listener) (k : SvcKey) (a : Addr) (hi : AQ s) : AQ (s.listenerOffered l k a) := by
  unfold listenerOffered; split; exact hi; split; exact hi; exact aq_subscribeEventgroup _ _ _ hi
theorem aq_listenerStopped (s : Stack) (l : Listener) (k : SvcKey) (a : Addr) (hi : AQ s) : AQ (s.listenerStopped l k a) := by
  unfold listenerStopped; split; exact hi; split; exact hi; exact aq_stopSubscribeEventgroup _ _ _ _ hi
theorem aq_notifyService (s : Stack) (b : Bool) (k : SvcKey) (a : Addr) (hi : AQ s) : AQ (s.notifyService b k a) := by
  unfold notifyService
  simp only []
  have hf : ∀ (X : Stack) (l : Listener), AQ X → AQ (if b = true then X.listenerOffered l k a else X.listenerStopped l k a) := by
    intro X l hX; split
    · exact aq_listenerOffered _ _ _ _ hX
    · exact aq_listenerStopped _ _ _ _ hX
  apply aq_foldl _ (fun X id hX => hf X (.ext id) hX)
  apply aq_foldl
  · intro X p hX
    split
    · exact aq_foldl _ (fun Y l hY => hf Y l hY) _ _ hX
    · exact hX
  · exact hi
theorem aq_foundStop (s : Stack) (a : Addr) (k : SvcKey) (hi : AQ s) : AQ (s.foundStop a k) := by
  unfold foundStop; simp only []; split
  · exact hi
  · exact aq_notifyService _ _ _ _ (aq_cancelTimer _ _ _ hi)
theorem aq_foundRefresh (s : Stack) (ttl : Nat) (a : Addr) (k : SvcKey) (hi : AQ s) : AQ (s.foundRefresh ttl a k) := by
  unfold foundRefresh; simp only []
  apply aq_same (s := (_ : Stack)) rfl rfl rfl
  apply aq_armTtl _ _ _ rfl
  split
  · exact aq_cancelTimer _ _ _ hi
  · exact aq_notifyService _ _ _ _ hi
theorem aq_handleOffer (s : Stack) (e : SDEntry) (a : Addr) (hi : AQ s) : AQ (s.handleOffer e a) := by
  unfold handleOffer; simp only []
  split
  · split
    · exact aq_foundStop _ _ _ hi
    · exact hi
  · split
    · exact aq_foundStop _ _ _ hi
    · exact aq_foundRefresh _ _ _ _ hi
theorem aq_foundStopAllFor (s : Stack) (a : Addr) (hi : AQ s) : AQ (s.foundStopAllFor a) := by
  unfold foundStopAllFor; simp only []
  exact aq_foldl _ (fun X e hX => aq_notifyService _ _ _ _ (aq_cancelTimer _ _ _ hX)) _ _ hi
theorem aq_foundStopAll (s : Stack) (hi : AQ s) : AQ s.foundStopAll := by
  unfold foundStopAll; simp only []
  exact aq_same (s := (_ : Stack)) rfl rfl rfl (aq_foldl _ (fun X p hX => aq_foundStopAllFor X p.1 hX) _ _ hi)
theorem aq_expiredSvc (s : Stack) (a : Addr) (k : SvcKey) (hi : AQ s) : AQ (s.expiredSvc a k) := by
  unfold expiredSvc; simp only []; split
  · exact hi
  · exact aq_notifyService _ _ _ _ hi
theorem aq_replay (s : Stack) (b : Bool) (f : Option Service) (l : Listener) (hi : AQ s) : AQ (s.replay b f l) := by
  unfold replay
  apply aq_foldl _ _ _ _ hi
  intro X p hX
  simp only []
  repeat' split
  all_goals first | exact hX | exact aq_listenerOffered _ _ _ _ hX | exact aq_listenerStopped _ _ _ _ hX
theorem aq_watchService (s : Stack) (f : Service) (l : Listener) (hi : AQ s) : AQ (s.watchService f l) := by
  unfold watchService; simp only []; exact aq_replay _ _ _ _ hi
theorem aq_stopWatchService (s : Stack) (f : Service) (l : Listener) (hi : AQ s) : AQ (s.stopWatchService f l) := by
  unfold stopWatchService; simp only []; split
  · exact hi
  · exact aq_replay _ _ _ _ hi
theorem aq_watchAllServices (s : Stack) (id : LId) (hi : AQ s) : AQ (s.watchAllServices id) := by
  unfold watchAllServices; exact aq_replay _ _ _ _ hi
theorem aq_stopWatchAllServices (s : Stack) (id : LId) (hi : AQ s) : AQ (s.stopWatchAllServices id) := by
  unfold stopWatchAllServices; split
  · exact hi
  · exact aq_replay _ _ _ _ hi
theorem aq_stepFind (s : Stack) (tid : Tid) (t : TaskSt) (hi : AQ s) : AQ (s.stepFind tid t) := by
  unfold stepFind; simp only []
  have hafter : ∀ (X : Stack) (k : Nat), AQ X → AQ (if k < X.tm.repetitionsMax then X.sleepFor tid t (pow2 k * X.tm.repetitionsBaseDelay) (.rep k) else X.finish tid t) := by
    intro X k hX; split
    · exact aq_sleepFor _ _ _ _ _ hX
    · exact hX
  have hround : ∀ (X : Stack) (k : Nat), AQ X → AQ (if X.findEntries.isEmpty = true then X.finish tid t
      else (if k < (({ X with findLog := X.findLog ++ [(tid.2, k)] } : Stack).sendSd X.findEntries none).tm.repetitionsMax
        then (({ X with findLog := X.findLog ++ [(tid.2, k)] } : Stack).sendSd X.findEntries none).sleepFor tid t
          (pow2 k * (({ X with findLog := X.findLog ++ [(tid.2, k)] } : Stack).sendSd X.findEntries none).tm.repetitionsBaseDelay) (.rep k)
        else (({ X with findLog := X.findLog ++ [(tid.2, k)] } : Stack).sendSd X.findEntries none).finish tid t)) := by
    intro X k hX
    split
    · exact hX
    · exact hafter _ _ (aq_sendSd ({ X with findLog := X.findLog ++ [(tid.2, k)] } : Stack) _ _ hX)
  split
  · split
    · exact hi
    · split
      · exact hi
      · exact aq_sleepFor _ _ _ _ _ (aq_draw _ _ _ hi)
  · split
    · exact hi
    · exact hround _ _ hi
  · split
    · exact hi
    · exact hround _ _ hi
  · exact hi
theorem aq_discoveryStart (s : Stack) (hi : AQ s) : AQ s.discoveryStart := by
  rcases discoveryStart_cases s with h | ⟨_, h⟩
  · rw [h]; exact hi
  · rw [h]; exact hi
theorem aq_discoveryStop (s : Stack) (hi : AQ s) : AQ s.discoveryStop := by
  unfold discoveryStop; split
  · exact aq_cancelTask _ _ hi
  · exact hi
theorem aq_rebootDetected (s : Stack) (a : Addr) (hi : AQ s) : AQ (s.rebootDetected a) := by
  unfold rebootDetected; exact aq_announcerReboot _ _ (aq_foundStopAllFor _ _ hi)

theorem aq_sdMessageReceived (s : Stack) (m : SDHeader) (a : Addr) (mc : Bool) (hi : AQ s) : AQ (s.sdMessageReceived m a mc) := by
  unfold sdMessageReceived
  split
  · exact hi
  · refine aq_foldl _ (fun X e h => ?_) _ _ hi
    split
    · exact aq_handleOffer _ _ _ h
    · exact h
    · exact aq_handleFind _ _ _ _ h
    · split
      · exact h
      · exact aq_handleSubscribe _ _ _ h
theorem aq_messageReceived (s : Stack) (h : Header) (a : Addr) (mc : Bool) (hi : AQ s) : AQ (s.messageReceived h a mc) := by
  unfold messageReceived
  split
  · exact hi
  · split
    · exact hi
    · rename_i m r hpar
      simp only []
      have h1 : AQ (if (checkReceived s.incoming a mc m.flagReboot h.sess).1 = true
          then ({ s with incoming := (checkReceived s.incoming a mc m.flagReboot h.sess).2 } : Stack).rebootDetected a
          else ({ s with incoming := (checkReceived s.incoming a mc m.flagReboot h.sess).2 } : Stack)) := by
        split
        · exact aq_rebootDetected ({ s with incoming := (checkReceived s.incoming a mc m.flagReboot h.sess).2 } : Stack) _ hi
        · exact hi
      split
      · exact h1
      · exact aq_sdMessageReceived _ _ _ _ h1
theorem aq_datagramReceived (s : Stack) (b : Bytes) (a : Addr) (mc : Bool) (hi : AQ s) : AQ (s.datagramReceived b a mc) := by
  unfold datagramReceived
  exact aq_foldl _ (fun X h hh => aq_messageReceived X h a mc hh) _ _ hi

theorem aq_applyInput (s : Stack) (x : Input) (hi : AQ s) : AQ (s.applyInput x) := by
  cases x with
  | dgram a mc b => exact aq_datagramReceived s b a mc hi
  | start =>
    show AQ (((s.subscriberStart).announcerStart).discoveryStart)
    exact aq_discoveryStart _ (aq_announcerStart _ (aq_subscriberStart _ hi))
  | stop =>
    show AQ (((s.discoveryStop).announcerStop).subscriberStop true)
    exact aq_subscriberStop _ _ (aq_announcerStop _ (aq_discoveryStop _ hi))
  | connLost => exact hi
  | watch f l => exact aq_watchService s f l hi
  | unwatch f l => exact aq_stopWatchService s f l hi
  | watchAll id => exact aq_watchAllServices s id hi
  | unwatchAll id => exact aq_stopWatchAllServices s id hi
  | subscribe g d => exact aq_subscribeEventgroup s g d hi
  | stopSubscribe g d => exact aq_stopSubscribeEventgroup s g d true hi
  | announce i => exact aq_announceService s i hi
  | stopAnnounce i b => exact aq_stopAnnounceService s i b hi
  | setNak i egs =>
    simp only [applyInput]
    split <;> exact hi
  | draws ds => exact hi
  | announcerStop => exact aq_announcerStop s hi
  | announcerStart => exact aq_announcerStart s hi

theorem aq_runCb (s : Stack) (cb : Cb) (hi : AQ s) : AQ (s.runCb cb) := by
  cases cb with
  | connLost p =>
    cases p with
    | subscriber => exact aq_subscriberStop s false hi
    | discovery => exact aq_foundStopAll s hi
    | announcer => exact aq_announcerStop s hi
  | expiredSvc a k => exact aq_expiredSvc s a k hi
  | expiredSub i a k => exact aq_expiredSub s i a k hi
  | sendStartSubscribe d egs => exact aq_sendSubscribe s _ d egs hi
  | sendStopSubscribe d egs => exact aq_sendSubscribe s _ d egs hi
  | sendOfferTo i a => exact aq_sendOffer s i _ _ hi
  | collectorTimeout cid => exact aq_collectorTimeout s cid hi
  | sleepDone tid => exact aq_sleepDone s tid hi
  | taskStep tid =>
    simp only [runCb]
    split
    · exact hi
    · split
      · exact hi
      · split
        · exact aq_stepOffer _ _ _ _ (aq_cancelTimer _ _ _ hi)
        · exact aq_stepFind _ _ _ (aq_cancelTimer _ _ _ hi)
        · exact aq_stepSubscribe _ _ _ (aq_cancelTimer _ _ _ hi)


/-- ONE EVENT keeps every deferred answer on its logged schedule -/
theorem aq_step (s s' : Stack) (e : Event) (h : s.step e = some s') (hi : AQ s) : AQ s' := by
  cases e with
  | input x => simp only [step, Option.some.injEq] at h; subst h; exact aq_applyInput s x hi
  | run =>
    simp only [step, Loop.pop] at h
    cases hr : s.loop.ready with
    | nil => rw [hr] at h; cases h
    | cons r rest =>
      rw [hr] at h
      simp only [Option.some.injEq] at h
      subst h
      exact aq_runCb _ _ hi
  | fire q =>
    simp only [step] at h
    cases hf : s.loop.fire q with
    | none => rw [hf] at h; cases h
    | some l =>
      rw [hf] at h; simp at h; subst h
      unfold Loop.fire at hf
      split at hf
      · cases hf
      · split at hf
        · simp only [Option.some.injEq] at hf; subst hf
          intro t ht
          exact hi t (List.mem_of_mem_eraseP ht)
        · cases hf
  | adv t =>
    simp only [step] at h
    cases hf : s.loop.adv t with
    | none => rw [hf] at h; cases h
    | some l =>
      rw [hf] at h; simp at h; subst h
      unfold Loop.adv at hf
      split at hf
      · simp only [Option.some.injEq] at hf; subst hf
        exact hi
      · cases hf


end Stack
end Someip
