/-
  Frame lemmas for the discovery store: no operation outside ServiceDiscover's store functions changes the
  store of found services or the (ghost) log of store-level notifications.  Generated from Frame.lean's
  proof scripts (same structure, other projection).
-/
import SomeipModel.Lemmas.Frame
namespace Someip
namespace Stack
set_option linter.unusedSimpArgs false

/-- the discovery store and its notification log -/
def disc (s : Stack) : TStore SvcKey × List (Bool × SvcKey × Addr) := (s.found, s.storeLog)

@[simp] theorem disc_with_watched (s : Stack) (x : List (Service × List Listener)) : disc { s with watched := x } = disc s := rfl
@[simp] theorem disc_with_watchAll (s : Stack) (x : List LId) : disc { s with watchAll := x } = disc s := rfl
@[simp] theorem disc_with_alive (s : Stack) (x : Bool) : disc { s with alive := x } = disc s := rfl
@[simp] theorem disc_with_subTask (s : Stack) (x : Option Nat) : disc { s with subTask := x } = disc s := rfl
@[simp] theorem disc_with_findTask (s : Stack) (x : Option Nat) : disc { s with findTask := x } = disc s := rfl
@[simp] theorem disc_with_subEntries (s : Stack) (x : List (Eventgroup × Addr)) : disc { s with subEntries := x } = disc s := rfl
@[simp] theorem disc_with_started (s : Stack) (x : Bool) : disc { s with started := x } = disc s := rfl
@[simp] theorem disc_with_announceOrder (s : Stack) (x : List Nat) : disc { s with announceOrder := x } = disc s := rfl
@[simp] theorem disc_with_incoming (s : Stack) (x : Incoming) : disc { s with incoming := x } = disc s := rfl
@[simp] theorem disc_with_draws (s : Stack) (x : List Nat) : disc { s with draws := x } = disc s := rfl

@[simp] theorem disc_emit (s : Stack) (o : Out) : disc (s.emit o) = disc s := rfl
@[simp] theorem disc_callSoon (s : Stack) (cb : Cb) : disc (s.callSoon cb) = disc s := rfl
@[simp] theorem disc_callLater (s : Stack) (d : Nat) (cb : Cb) : disc (s.callLater d cb).1 = disc s := rfl
@[simp] theorem disc_cancelTimer (s : Stack) (own : Cb → Bool) (t : Option Nat) : disc (s.cancelTimer own t) = disc s := by
  cases t <;> rfl
@[simp] theorem disc_draw (s : Stack) (a b : Nat) : disc (s.draw a b).1 = disc s := by
  unfold draw; split <;> rfl
@[simp] theorem disc_armTtl (s : Stack) (ttl : Nat) (cb : Cb) : disc (s.armTtl ttl cb).1 = disc s := by
  unfold armTtl; split <;> rfl
@[simp] theorem disc_setInst (s : Stack) (i : Nat) (x : Instance) : disc (s.setInst i x) = disc s := rfl
@[simp] theorem disc_setTask (s : Stack) (i : Tid) (x : TaskSt) : disc (s.setTask i x) = disc s := rfl

@[simp] theorem disc_sendSd (s : Stack) (es : List SDEntry) (d : Dest) : disc (s.sendSd es d) = disc s := by
  unfold sendSd; split; rfl; simp only []; split; rfl; split <;> rfl

@[simp] theorem disc_with_flushLog (s : Stack) (x : List (Dest × List SDEntry)) : disc { s with flushLog := x } = disc s := rfl
@[simp] theorem disc_with_refreshLog (s : Stack) (x : List (Addr × SvcKey × Nat × Nat)) : disc { s with refreshLog := x } = disc s := rfl
@[simp] theorem disc_with_armLog (s : Stack) (x : List (Cb × Nat × Nat)) : disc { s with armLog := x } = disc s := rfl
@[simp] theorem disc_with_subMarks (s : Stack) (x : List (Option Nat × Nat)) : disc { s with subMarks := x } = disc s := rfl
@[simp] theorem disc_markRound (s : Stack) (n : Nat) : disc (s.markRound n) = disc s := rfl
@[simp] theorem disc_with_subLog (s : Stack) (x : List (Addr × Nat × List Eventgroup)) : disc { s with subLog := x } = disc s := rfl
@[simp] theorem disc_with_findLog (s : Stack) (x : List (Nat × Nat)) : disc { s with findLog := x } = disc s := rfl
@[simp] theorem disc_with_findMarks (s : Stack) (x : List (Nat × Nat)) : disc { s with findMarks := x } = disc s := rfl
@[simp] theorem disc_with_ansLog (s : Stack) (x : List (Nat × Addr × Nat × Nat)) : disc { s with ansLog := x } = disc s := rfl
@[simp] theorem disc_with_lisLog (s : Stack) (x : List (LId × Bool × SvcKey × Addr)) : disc { s with lisLog := x } = disc s := rfl
@[simp] theorem disc_logLis (s : Stack) (id : LId) (o : Bool) (k : SvcKey) (a : Addr) : disc (s.logLis id o k a) = disc s := rfl
@[simp] theorem disc_with_lisDup (s : Stack) (x : Bool) : disc { s with lisDup := x } = disc s := rfl
@[simp] theorem disc_markDup (s : Stack) (d : Bool) : disc (s.markDup d) = disc s := rfl
@[simp] theorem disc_logAnswer (s : Stack) (i : Nat) (a : Addr) (d : Nat) : disc (s.logAnswer i a d) = disc s := rfl
@[simp] theorem disc_markFind (s : Stack) (n : Nat) : disc (s.markFind n) = disc s := rfl
@[simp] theorem disc_with_offLog (s : Stack) (x : List (Nat × OEv × Nat)) : disc { s with offLog := x } = disc s := rfl
@[simp] theorem disc_logOffer (s : Stack) (i : Nat) (e : OEv) : disc (s.logOffer i e) = disc s := rfl
@[simp] theorem disc_with_subDup (s : Stack) (x : Bool) : disc { s with subDup := x } = disc s := rfl
@[simp] theorem disc_with_subLost (s : Stack) (x : Bool) : disc { s with subLost := x } = disc s := rfl
@[simp] theorem disc_with_alive_subLost (s : Stack) (x y : Bool) : disc { s with alive := x, subLost := y } = disc s := rfl
@[simp] theorem disc_with_subDup_subEntries (s : Stack) (x : Bool) (y : List (Eventgroup × Addr)) : disc { s with subDup := x, subEntries := y } = disc s := rfl
@[simp] theorem disc_flushTo (s : Stack) (es : List SDEntry) (d : Dest) : disc (s.flushTo es d) = disc s := by
  unfold flushTo; rw [disc_sendSd]; rfl

@[simp] theorem disc_newCollector (s : Stack) (d : Dest) : disc (s.newCollector d).1 = disc s := rfl
@[simp] theorem disc_appendCollector (s : Stack) (c : Nat) (e : SDEntry) : disc (s.appendCollector c e) = disc s := rfl

@[simp] theorem disc_queueSend (s : Stack) (e : SDEntry) (d : Dest) : disc (s.queueSend e d) = disc s := by
  unfold queueSend; simp only []; split
  · simp
  · split
    · split <;> simp
    · simp

@[simp] theorem disc_collectorTimeout (s : Stack) (c : Nat) : disc (s.collectorTimeout c) = disc s := by
  unfold collectorTimeout; split; rfl; simp only []; rw [disc_flushTo]; rfl

@[simp] theorem disc_createTask (s : Stack) (k : TaskKind) : disc (s.createTask k).1 = disc s := rfl
@[simp] theorem disc_cancelTask (s : Stack) (t : Tid) : disc (s.cancelTask t) = disc s := by
  unfold cancelTask; split; rfl; split; rfl; split <;> simp
@[simp] theorem disc_sleepFor (s : Stack) (tid : Tid) (t : TaskSt) (d : Nat) (pc : Pc) : disc (s.sleepFor tid t d pc) = disc s := by
  unfold sleepFor; split <;> simp
@[simp] theorem disc_finish (s : Stack) (tid : Tid) (t : TaskSt) : disc (s.finish tid t) = disc s := rfl
@[simp] theorem disc_sleepDone (s : Stack) (tid : Tid) : disc (s.sleepDone tid) = disc s := by
  unfold sleepDone; split; rfl; split <;> simp

@[simp] theorem disc_sendOffer (s : Stack) (i : Nat) (r : Dest) (b : Bool) : disc (s.sendOffer i r b) = disc s := by
  unfold sendOffer; split; rfl; split; rfl; simp

@[simp] theorem disc_stepOffer (s : Stack) (tid : Tid) (t : TaskSt) (i : Nat) : disc (s.stepOffer tid t i) = disc s := by
  unfold stepOffer
  simp only []
  split
  · split <;> simp
  · split
    · simp
    · (repeat' split) <;> simp
  · split
    · (repeat' split) <;> simp
    · (repeat' split) <;> simp
  · split
    · (repeat' split) <;> simp
    · simp
  · rfl

@[simp] theorem disc_instStart (s : Stack) (i : Nat) : disc (s.instStart i) = disc s := by
  unfold instStart; split; rfl; split; simp; simp only []; split <;> simp

@[simp] theorem disc_subsStopAllFor (s : Stack) (i : Nat) (a : Addr) : disc (s.subsStopAllFor i a) = disc s := by
  unfold subsStopAllFor; split; rfl
  simp only []
  rw [foldl_pres disc _ (fun s e => by simp)]; rfl

@[simp] theorem disc_subsStopAll (s : Stack) (i : Nat) : disc (s.subsStopAll i) = disc s := by
  unfold subsStopAll; split; rfl
  simp only []
  split
  · simp only [disc_setInst]; rw [foldl_pres disc _ (fun s e => by simp)]
  · rw [foldl_pres disc _ (fun s e => by simp)]

@[simp] theorem disc_instStop (s : Stack) (i : Nat) : disc (s.instStop i) = disc s := by
  unfold instStop; split; rfl; split; simp; simp only []; split <;> simp

@[simp] theorem disc_instHandleSubscribe (s : Stack) (i : Nat) (e : SDEntry) (a : Addr) :
    disc (s.instHandleSubscribe i e a).1 = disc s := by
  unfold instHandleSubscribe
  frame_cases

@[simp] theorem disc_handleSubscribe (s : Stack) (e : SDEntry) (a : Addr) : disc (s.handleSubscribe e a) = disc s := by
  unfold handleSubscribe
  simp only []
  have key : ∀ (l : List Nat) (acc : Stack × Bool),
      disc (l.foldl (fun (acc : Stack × Bool) i => ((acc.1.instHandleSubscribe i e a).1, acc.2 || (acc.1.instHandleSubscribe i e a).2)) acc).1 = disc acc.1 := by
    intro l; induction l with
    | nil => intro acc; rfl
    | cons x t ih => intro acc; rw [List.foldl_cons, ih]; simp
  split
  · exact key _ _
  · rw [disc_queueSend]; exact key _ _

@[simp] theorem disc_handleFind (s : Stack) (e : SDEntry) (a : Addr) (mc : Bool) : disc (s.handleFind e a mc) = disc s := by
  unfold handleFind; simp only []
  split; rfl
  split
  · rw [foldl_pres disc _ (fun s i => by simp)]; simp
  · rw [foldl_pres disc _ (fun s i => by simp)]

@[simp] theorem disc_expiredSub (s : Stack) (i : Nat) (a : Addr) (k : SubKey) : disc (s.expiredSub i a k) = disc s := by
  unfold expiredSub; split; rfl; simp only []; split <;> simp

@[simp] theorem disc_announcerStart (s : Stack) : disc s.announcerStart = disc s := by
  unfold announcerStart; simp only []
  show disc (List.foldl (fun s i => s.instStart i) s s.announceOrder) = disc s
  rw [foldl_pres disc _ (fun s i => by simp)]

@[simp] theorem disc_announcerStop (s : Stack) : disc s.announcerStop = disc s := by
  unfold announcerStop; split; rfl
  show disc (List.foldl (fun s i => s.instStop i) s s.announceOrder) = disc s
  rw [foldl_pres disc _ (fun s i => by simp)]

@[simp] theorem disc_announcerReboot (s : Stack) (a : Addr) : disc (s.announcerReboot a) = disc s := by
  unfold announcerReboot; rw [foldl_pres disc _ (fun s i => by simp)]

@[simp] theorem disc_announceService (s : Stack) (i : Nat) : disc (s.announceService i) = disc s := by
  unfold announceService; simp only []; split
  · show disc (s.instStart i) = disc s; simp
  · rfl

@[simp] theorem disc_stopAnnounceService (s : Stack) (i : Nat) (b : Bool) : disc (s.stopAnnounceService i b) = disc s := by
  unfold stopAnnounceService; split; simp; simp only []; split
  · rw [disc_instStop]; rfl
  · rfl

@[simp] theorem disc_sendSubscribe (s : Stack) (ttl : Nat) (d : Addr) (egs : List Eventgroup) :
    disc (s.sendSubscribe ttl d egs) = disc s := by simp [sendSubscribe]

@[simp] theorem disc_subscribeEventgroup (s : Stack) (g : Eventgroup) (d : Addr) : disc (s.subscribeEventgroup g d) = disc s := by
  unfold subscribeEventgroup; simp only []; split <;> rfl

@[simp] theorem disc_stopSubscribeEventgroup (s : Stack) (g : Eventgroup) (d : Addr) (b : Bool) :
    disc (s.stopSubscribeEventgroup g d b) = disc s := by
  unfold stopSubscribeEventgroup; split
  · simp only []; split <;> rfl
  · rfl

@[simp] theorem disc_subscriberStart (s : Stack) : disc s.subscriberStart = disc s := by
  unfold subscriberStart; split <;> rfl

@[simp] theorem disc_subscriberStop (s : Stack) (b : Bool) : disc (s.subscriberStop b) = disc s := by
  unfold subscriberStop; split; rfl
  simp only []
  have h1 : disc (match ({ s with alive := false, subLost := !b } : Stack).subTask with
      | some tid => { ({ s with alive := false, subLost := !b } : Stack).cancelTask (.subscribe, tid) with subTask := none }
      | none => ({ s with alive := false, subLost := !b } : Stack)) = disc s := by
    split
    · show disc (({ s with alive := false, subLost := !b } : Stack).cancelTask _) = disc s; rw [disc_cancelTask]; rfl
    · rfl
  split
  · rw [foldl_pres disc _ (fun s p => by simp)]; exact h1
  · exact h1

@[simp] theorem disc_stepSubscribe (s : Stack) (tid : Tid) (t : TaskSt) : disc (s.stepSubscribe tid t) = disc s := by
  unfold stepSubscribe
  simp only []
  have key : ∀ st : Stack, disc (List.foldl (fun s p => s.sendSubscribe s.tm.subscribeTtl p.1 p.2) st (groupEntries st.subEntries)) = disc st :=
    fun st => foldl_pres disc _ (fun s p => by simp) _ _
  split
  · split; simp; split <;> simp [key]
  · split; simp; split <;> simp [key]
  · rfl

@[simp] theorem disc_listenerOffered (s : Stack) (l : Listener) (k : SvcKey) (a : Addr) : disc (s.listenerOffered l k a) = disc s := by
  unfold listenerOffered; frame_cases
@[simp] theorem disc_listenerStopped (s : Stack) (l : Listener) (k : SvcKey) (a : Addr) : disc (s.listenerStopped l k a) = disc s := by
  unfold listenerStopped; frame_cases

@[simp] theorem disc_replay (s : Stack) (b : Bool) (f : Option Service) (l : Listener) : disc (s.replay b f l) = disc s := by
  unfold replay
  rw [foldl_pres disc _ (fun s p => by frame_cases)]

@[simp] theorem disc_watchService (s : Stack) (f : Service) (l : Listener) : disc (s.watchService f l) = disc s := by
  unfold watchService; simp only []; rw [disc_markDup, disc_replay]; rfl
@[simp] theorem disc_stopWatchService (s : Stack) (f : Service) (l : Listener) : disc (s.stopWatchService f l) = disc s := by
  unfold stopWatchService; simp only []; split
  · simp
  · rw [disc_replay]; rfl
@[simp] theorem disc_watchAllServices (s : Stack) (id : LId) : disc (s.watchAllServices id) = disc s := by
  unfold watchAllServices; rw [disc_markDup, disc_replay]; rfl
@[simp] theorem disc_stopWatchAllServices (s : Stack) (id : LId) : disc (s.stopWatchAllServices id) = disc s := by
  unfold stopWatchAllServices; split
  · simp
  · rw [disc_replay]; rfl

@[simp] theorem disc_stepFind (s : Stack) (tid : Tid) (t : TaskSt) : disc (s.stepFind tid t) = disc s := by
  unfold stepFind; frame_cases

@[simp] theorem disc_discoveryStart (s : Stack) : disc s.discoveryStart = disc s := by
  unfold discoveryStart; simp only []
  split
  · split <;> simp
  · simp
@[simp] theorem disc_discoveryStop (s : Stack) : disc s.discoveryStop = disc s := by
  unfold discoveryStop; split
  · show disc (s.cancelTask _) = disc s; simp
  · rfl

@[simp] theorem disc_start (s : Stack) : disc s.start = disc s := by simp [start]
@[simp] theorem disc_stop (s : Stack) : disc s.stop = disc s := by simp [Stack.stop]
@[simp] theorem disc_connectionLost (s : Stack) : disc s.connectionLost = disc s := by simp [connectionLost]

end Stack
end Someip
