/-
  Frame lemmas for the offer tasks and the two fields of a service instance that say whether it runs (`task`) and whether it
  has sent its first offer (`canAnswer`): touched only by ServiceInstance.start / stop, the offer task itself and the
  announcer functions that call them.  Same scripts as FindFrame.lean; the functions that rewrite an instance's subscription
  store are handled in OffInv.lean (they keep both fields).
-/
import SomeipModel.Lemmas.FindFrame
namespace Someip
namespace Stack
set_option linter.unusedSimpArgs false

def isOfferK : TaskKind → Bool | .offer _ => true | _ => false
def isOfferT (p : Tid × TaskSt) : Bool := isOfferK p.1.1

/-- what the offer-task invariant depends on -/
def opi (s : Stack) : List (Option Nat × Bool) × List (Tid × TaskSt) :=
  (s.instances.map (fun x => (x.task, x.canAnswer)), s.tasks.filter isOfferT)

@[simp] theorem opi_with_findTask (s : Stack) (x : Option Nat) : opi { s with findTask := x } = opi s := rfl
@[simp] theorem opi_with_findLog (s : Stack) (x : List (Nat × Nat)) : opi { s with findLog := x } = opi s := rfl
@[simp] theorem opi_with_findMarks (s : Stack) (x : List (Nat × Nat)) : opi { s with findMarks := x } = opi s := rfl
@[simp] theorem opi_with_ansLog (s : Stack) (x : List (Nat × Addr × Nat × Nat)) : opi { s with ansLog := x } = opi s := rfl
@[simp] theorem opi_with_lisLog (s : Stack) (x : List (LId × Bool × SvcKey × Addr)) : opi { s with lisLog := x } = opi s := rfl
@[simp] theorem opi_logLis (s : Stack) (id : LId) (o : Bool) (k : SvcKey) (a : Addr) : opi (s.logLis id o k a) = opi s := rfl
@[simp] theorem opi_with_lisDup (s : Stack) (x : Bool) : opi { s with lisDup := x } = opi s := rfl
@[simp] theorem opi_markDup (s : Stack) (d : Bool) : opi (s.markDup d) = opi s := rfl
@[simp] theorem opi_logAnswer (s : Stack) (i : Nat) (a : Addr) (d : Nat) : opi (s.logAnswer i a d) = opi s := rfl
@[simp] theorem opi_markFind (s : Stack) (n : Nat) : opi (s.markFind n) = opi s := rfl
@[simp] theorem opi_with_offLog (s : Stack) (x : List (Nat × OEv × Nat)) : opi { s with offLog := x } = opi s := rfl
@[simp] theorem opi_logOffer (s : Stack) (i : Nat) (e : OEv) : opi (s.logOffer i e) = opi s := rfl
@[simp] theorem opi_with_tm (s : Stack) (x : Timings) : opi { s with tm := x } = opi s := rfl
@[simp] theorem opi_with_alive (s : Stack) (x : Bool) : opi { s with alive := x } = opi s := rfl
@[simp] theorem opi_with_subTask (s : Stack) (x : Option Nat) : opi { s with subTask := x } = opi s := rfl
@[simp] theorem opi_with_subEntries (s : Stack) (x : List (Eventgroup × Addr)) : opi { s with subEntries := x } = opi s := rfl
@[simp] theorem opi_with_subLog (s : Stack) (x : List (Addr × Nat × List Eventgroup)) : opi { s with subLog := x } = opi s := rfl
@[simp] theorem opi_with_subDup (s : Stack) (x : Bool) : opi { s with subDup := x } = opi s := rfl
@[simp] theorem opi_with_subLost (s : Stack) (x : Bool) : opi { s with subLost := x } = opi s := rfl
@[simp] theorem opi_with_alive_subLost (s : Stack) (x y : Bool) : opi { s with alive := x, subLost := y } = opi s := rfl
@[simp] theorem opi_with_subDup_subEntries (s : Stack) (x : Bool) (y : List (Eventgroup × Addr)) : opi { s with subDup := x, subEntries := y } = opi s := rfl
@[simp] theorem opi_with_watched (s : Stack) (x : List (Service × List Listener)) : opi { s with watched := x } = opi s := rfl
@[simp] theorem opi_with_watchAll (s : Stack) (x : List LId) : opi { s with watchAll := x } = opi s := rfl
@[simp] theorem opi_with_started (s : Stack) (x : Bool) : opi { s with started := x } = opi s := rfl
@[simp] theorem opi_with_announceOrder (s : Stack) (x : List Nat) : opi { s with announceOrder := x } = opi s := rfl
@[simp] theorem opi_with_incoming (s : Stack) (x : Incoming) : opi { s with incoming := x } = opi s := rfl
@[simp] theorem opi_with_draws (s : Stack) (x : List Nat) : opi { s with draws := x } = opi s := rfl
@[simp] theorem opi_with_storeLog (s : Stack) (x : List (Bool × SvcKey × Addr)) : opi { s with storeLog := x } = opi s := rfl
@[simp] theorem opi_with_refreshLog (s : Stack) (x : List (Addr × SvcKey × Nat × Nat)) : opi { s with refreshLog := x } = opi s := rfl
@[simp] theorem opi_with_armLog (s : Stack) (x : List (Cb × Nat × Nat)) : opi { s with armLog := x } = opi s := rfl
@[simp] theorem opi_with_subMarks (s : Stack) (x : List (Option Nat × Nat)) : opi { s with subMarks := x } = opi s := rfl
@[simp] theorem opi_markRound (s : Stack) (n : Nat) : opi (s.markRound n) = opi s := rfl
@[simp] theorem opi_with_found_refreshLog (s : Stack) (x : TStore SvcKey) (y : List (Addr × SvcKey × Nat × Nat)) : opi { s with found := x, refreshLog := y } = opi s := rfl
@[simp] theorem opi_with_found (s : Stack) (x : TStore SvcKey) : opi { s with found := x } = opi s := rfl
@[simp] theorem opi_with_found_storeLog (s : Stack) (x : TStore SvcKey) (y : List (Bool × SvcKey × Addr)) : opi { s with found := x, storeLog := y } = opi s := rfl
@[simp] theorem opi_with_collectors (s : Stack) (x : List Collector) : opi { s with collectors := x } = opi s := rfl
@[simp] theorem opi_with_nextCid (s : Stack) (x : Nat) : opi { s with nextCid := x } = opi s := rfl
@[simp] theorem opi_with_outgoing (s : Stack) (x : Outgoing) : opi { s with outgoing := x } = opi s := rfl
@[simp] theorem opi_with_sendLog (s : Stack) (x : List (Dest × (Bool × Nat))) : opi { s with sendLog := x } = opi s := rfl
@[simp] theorem opi_with_outgoing_sendLog (s : Stack) (x : Outgoing) (y : List (Dest × (Bool × Nat))) : opi { s with outgoing := x, sendLog := y } = opi s := rfl
@[simp] theorem opi_with_flushLog (s : Stack) (x : List (Dest × List SDEntry)) : opi { s with flushLog := x } = opi s := rfl

@[simp] theorem opi_with_outs (s : Stack) (x : List (Nat × Out)) : opi { s with outs := x } = opi s := rfl
@[simp] theorem opi_with_coll_nextCid (s : Stack) (x : List Collector) (y : Nat) : opi { s with collectors := x, nextCid := y } = opi s := rfl

@[simp] theorem opi_emit (s : Stack) (o : Out) : opi (s.emit o) = opi s := rfl

@[simp] theorem opi_callSoon (s : Stack) (cb : Cb) : opi (s.callSoon cb) = opi s := rfl
@[simp] theorem opi_callLater (s : Stack) (d : Nat) (cb : Cb) : opi (s.callLater d cb).1 = opi s := rfl
@[simp] theorem opi_cancelTimer (s : Stack) (own : Cb → Bool) (t : Option Nat) : opi (s.cancelTimer own t) = opi s := by
  cases t <;> rfl

/-! task operations of the other components (typed task ids) -/

theorem opi_setTask (s : Stack) (tid : Tid) (x : TaskSt) (h : isOfferK tid.1 = false) : opi (s.setTask tid x) = opi s := by
  simp only [opi, setTask]
  refine Prod.ext rfl ?_
  apply filter_map_keep
  intro p _
  by_cases hp : p.1 = tid
  · right; simp [hp, isOfferT, h]
  · left; simp [hp]

theorem opi_createTask (s : Stack) (k : TaskKind) (h : isOfferK k = false) : opi (s.createTask k).1 = opi s := by
  unfold createTask; simp only []
  rw [opi_callSoon _ _]
  simp [opi, List.filter_append, isOfferT, h]

@[simp] theorem opi_createTask_sub (s : Stack) : opi (s.createTask .subscribe).1 = opi s := opi_createTask _ _ rfl
@[simp] theorem opi_createTask_find (s : Stack) : opi (s.createTask .find).1 = opi s := opi_createTask _ _ rfl

theorem opi_cancelTask (s : Stack) (t : Tid) (h : isOfferK t.1 = false) : opi (s.cancelTask t) = opi s := by
  unfold cancelTask; split; rfl; split; rfl; split
  · rw [opi_callSoon _ _, opi_setTask _ _ _ h]
  · rw [opi_setTask _ _ _ h]

@[simp] theorem opi_cancelTask_sub (s : Stack) (n : Nat) : opi (s.cancelTask (.subscribe, n)) = opi s := opi_cancelTask _ _ rfl
@[simp] theorem opi_cancelTask_find (s : Stack) (n : Nat) : opi (s.cancelTask (.find, n)) = opi s := opi_cancelTask _ _ rfl
theorem opi_sleepFor (s : Stack) (tid : Tid) (t : TaskSt) (d : Nat) (pc : Pc) (h : isOfferK tid.1 = false) : opi (s.sleepFor tid t d pc) = opi s := by
  unfold sleepFor; split
  · rw [opi_callSoon _ _, opi_setTask _ _ _ h]
  · simp only []; rw [opi_setTask _ _ _ h]; simp
theorem opi_finish (s : Stack) (tid : Tid) (t : TaskSt) (h : isOfferK tid.1 = false) : opi (s.finish tid t) = opi s := by
  unfold finish; rw [opi_setTask _ _ _ h]
theorem opi_sleepDone (s : Stack) (tid : Tid) (h : isOfferK tid.1 = false) : opi (s.sleepDone tid) = opi s := by
  unfold sleepDone; split; rfl; split
  · rw [opi_callSoon _ _, opi_setTask _ _ _ h]
  · rfl

@[simp] theorem opi_draw (s : Stack) (a b : Nat) : opi (s.draw a b).1 = opi s := by
  unfold draw; split <;> rfl
@[simp] theorem opi_armTtl (s : Stack) (ttl : Nat) (cb : Cb) : opi (s.armTtl ttl cb).1 = opi s := by
  unfold armTtl; split <;> rfl

@[simp] theorem opi_sendSd (s : Stack) (es : List SDEntry) (d : Dest) : opi (s.sendSd es d) = opi s := by
  unfold sendSd; split; rfl; simp only []; split; rfl; split <;> rfl

@[simp] theorem opi_flushTo (s : Stack) (es : List SDEntry) (d : Dest) : opi (s.flushTo es d) = opi s := by
  unfold flushTo; rw [opi_sendSd]; rfl

@[simp] theorem opi_newCollector (s : Stack) (d : Dest) : opi (s.newCollector d).1 = opi s := by
  unfold newCollector; simp only []
  exact (opi_with_coll_nextCid _ _ _).trans (by simp)
@[simp] theorem opi_appendCollector (s : Stack) (c : Nat) (e : SDEntry) : opi (s.appendCollector c e) = opi s := rfl

@[simp] theorem opi_queueSend (s : Stack) (e : SDEntry) (d : Dest) : opi (s.queueSend e d) = opi s := by
  unfold queueSend; simp only []; split
  · simp
  · split
    · split <;> simp
    · simp

@[simp] theorem opi_collectorTimeout (s : Stack) (c : Nat) : opi (s.collectorTimeout c) = opi s := by
  unfold collectorTimeout; split; rfl; simp only []; rw [opi_flushTo]; rfl

@[simp] theorem opi_sendOffer (s : Stack) (i : Nat) (r : Dest) (b : Bool) : opi (s.sendOffer i r b) = opi s := by
  unfold sendOffer; split; rfl; split; rfl; simp

@[simp] theorem opi_handleFind (s : Stack) (e : SDEntry) (a : Addr) (mc : Bool) : opi (s.handleFind e a mc) = opi s := by
  unfold handleFind; simp only []
  split; rfl
  split
  · rw [foldl_pres opi _ (fun s i => by simp)]; simp
  · rw [foldl_pres opi _ (fun s i => by simp)]

@[simp] theorem opi_sendSubscribe (s : Stack) (ttl : Nat) (d : Addr) (egs : List Eventgroup) :
    opi (s.sendSubscribe ttl d egs) = opi s := by simp [sendSubscribe]

@[simp] theorem opi_subscribeEventgroup (s : Stack) (g : Eventgroup) (d : Addr) : opi (s.subscribeEventgroup g d) = opi s := by
  unfold subscribeEventgroup; simp only []; split <;> simp

@[simp] theorem opi_stopSubscribeEventgroup (s : Stack) (g : Eventgroup) (d : Addr) (b : Bool) :
    opi (s.stopSubscribeEventgroup g d b) = opi s := by
  unfold stopSubscribeEventgroup; split
  · simp only []; split <;> simp
  · rfl

@[simp] theorem opi_subscriberStart (s : Stack) : opi s.subscriberStart = opi s := by
  unfold subscriberStart; split
  · rfl
  · simp only []
    exact (opi_with_subTask _ _).trans (by simp; rfl)

@[simp] theorem opi_subscriberStop (s : Stack) (b : Bool) : opi (s.subscriberStop b) = opi s := by
  unfold subscriberStop; split; rfl
  simp only []
  have h1 : opi (match ({ s with alive := false, subLost := !b } : Stack).subTask with
      | some tid => { ({ s with alive := false, subLost := !b } : Stack).cancelTask (.subscribe, tid) with subTask := none }
      | none => ({ s with alive := false, subLost := !b } : Stack)) = opi s := by
    split
    · show opi (({ s with alive := false, subLost := !b } : Stack).cancelTask (.subscribe, _)) = opi s; rw [opi_cancelTask_sub]; rfl
    · rfl
  split
  · rw [foldl_pres opi _ (fun s p => by simp)]; exact h1
  · exact h1

theorem opi_stepSubscribe (s : Stack) (tid : Tid) (t : TaskSt) (h : isOfferK tid.1 = false) : opi (s.stepSubscribe tid t) = opi s := by
  unfold stepSubscribe
  simp only []
  have key : ∀ st : Stack, opi (List.foldl (fun s p => s.sendSubscribe s.tm.subscribeTtl p.1 p.2) st (groupEntries st.subEntries)) = opi st :=
    fun st => foldl_pres opi _ (fun s p => by simp) _ _
  have hs := fun (X : Stack) (t' : TaskSt) (d : Nat) (pc : Pc) => opi_sleepFor X tid t' d pc h
  have hf := fun (X : Stack) (t' : TaskSt) => opi_finish X tid t' h
  split
  · split; simp [hf]; split <;> simp [key, hs, hf]
  · split; simp [hf]; split <;> simp [key, hs, hf]
  · rfl

@[simp] theorem opi_listenerOffered (s : Stack) (l : Listener) (k : SvcKey) (a : Addr) : opi (s.listenerOffered l k a) = opi s := by
  unfold listenerOffered; frame_cases
@[simp] theorem opi_listenerStopped (s : Stack) (l : Listener) (k : SvcKey) (a : Addr) : opi (s.listenerStopped l k a) = opi s := by
  unfold listenerStopped; frame_cases

@[simp] theorem opi_replay (s : Stack) (b : Bool) (f : Option Service) (l : Listener) : opi (s.replay b f l) = opi s := by
  unfold replay
  rw [foldl_pres opi _ (fun s p => by frame_cases)]

@[simp] theorem opi_watchService (s : Stack) (f : Service) (l : Listener) : opi (s.watchService f l) = opi s := by
  unfold watchService; simp only []; rw [opi_markDup, opi_replay]; rfl
@[simp] theorem opi_stopWatchService (s : Stack) (f : Service) (l : Listener) : opi (s.stopWatchService f l) = opi s := by
  unfold stopWatchService; simp only []; split
  · simp
  · rw [opi_replay]; rfl
@[simp] theorem opi_watchAllServices (s : Stack) (id : LId) : opi (s.watchAllServices id) = opi s := by
  unfold watchAllServices; rw [opi_markDup, opi_replay]; rfl
@[simp] theorem opi_stopWatchAllServices (s : Stack) (id : LId) : opi (s.stopWatchAllServices id) = opi s := by
  unfold stopWatchAllServices; split
  · simp
  · rw [opi_replay]; rfl
@[simp] theorem opi_connectionLost (s : Stack) : opi s.connectionLost = opi s := by simp [connectionLost]

@[simp] theorem opi_notifyService (s : Stack) (b : Bool) (k : SvcKey) (a : Addr) : opi (s.notifyService b k a) = opi s := by
  unfold notifyService
  simp only []
  have hf : ∀ (s : Stack) (l : Listener), opi (if b = true then s.listenerOffered l k a else s.listenerStopped l k a) = opi s := by
    intro s l; split <;> simp
  rw [foldl_pres opi _ (fun s id => hf s _)]
  rw [foldl_pres opi _ (fun s p => by
    split
    · rw [foldl_pres opi _ (fun s l => hf s l)]
    · rfl)]
  rfl

@[simp] theorem opi_foundStop (s : Stack) (a : Addr) (k : SvcKey) : opi (s.foundStop a k) = opi s := by
  unfold foundStop; frame_cases

@[simp] theorem opi_foundRefresh (s : Stack) (ttl : Nat) (a : Addr) (k : SvcKey) : opi (s.foundRefresh ttl a k) = opi s := by
  unfold foundRefresh
  simp only [opi_with_found, opi_armTtl]
  split <;> simp

@[simp] theorem opi_handleOffer (s : Stack) (e : SDEntry) (a : Addr) : opi (s.handleOffer e a) = opi s := by
  unfold handleOffer; frame_cases

@[simp] theorem opi_foundStopAllFor (s : Stack) (a : Addr) : opi (s.foundStopAllFor a) = opi s := by
  unfold foundStopAllFor; simp only []
  rw [foldl_pres opi _ (fun s e => by simp)]; rfl

@[simp] theorem opi_foundStopAll (s : Stack) : opi s.foundStopAll = opi s := by
  unfold foundStopAll; simp only []
  show opi (List.foldl (fun s p => s.foundStopAllFor p.1) s s.found) = opi s
  rw [foldl_pres opi _ (fun s e => by simp)]

@[simp] theorem opi_expiredSvc (s : Stack) (a : Addr) (k : SvcKey) : opi (s.expiredSvc a k) = opi s := by
  unfold expiredSvc; frame_cases



end Stack
end Someip
