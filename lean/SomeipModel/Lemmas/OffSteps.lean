/-
  C10 / C12: the offer-task invariant through inputs, callbacks and loop steps.
-/
import SomeipModel.Lemmas.OffInv
import SomeipModel.Lemmas.FindSteps
namespace Someip
namespace Stack
set_option linter.unusedSimpArgs false
set_option linter.unusedVariables false

theorem offinv_foldl {α : Type} (f : Stack → α → Stack) (h : ∀ s a, OffInv s → OffInv (f s a)) (l : List α) (s : Stack)
    (hi : OffInv s) : OffInv (l.foldl f s) := by
  induction l generalizing s with
  | nil => exact hi
  | cons a t ih => rw [List.foldl_cons]; exact ih _ (h s a hi)

theorem offinv_announcerStart (s : Stack) (hi : OffInv s) : OffInv s.announcerStart := by
  unfold announcerStart; simp only []
  exact offinv_frame (opi_with_started _ _) (offinv_foldl _ (fun s i h => offinv_instStart s i h) _ _ hi)

theorem offinv_announcerStop (s : Stack) (hi : OffInv s) : OffInv s.announcerStop := by
  unfold announcerStop
  split
  · exact hi
  · show OffInv { (List.foldl (fun s i => s.instStop i) s s.announceOrder) with started := false }
    exact offinv_frame (opi_with_started _ _) (offinv_foldl _ (fun s i h => offinv_instStop s i h) _ _ hi)

theorem offinv_announceService (s : Stack) (i : Nat) (hi : OffInv s) : OffInv (s.announceService i) := by
  unfold announceService; simp only []
  apply offinv_frame (opi_with_announceOrder _ _)
  split
  · exact offinv_instStart s i hi
  · exact hi

theorem offinv_stopAnnounceService (s : Stack) (i : Nat) (b : Bool) (hi : OffInv s) : OffInv (s.stopAnnounceService i b) := by
  unfold stopAnnounceService
  split
  · exact offinv_frame (opi_emit _ _) hi
  · simp only []
    split
    · exact offinv_instStop _ _ (offinv_frame (opi_with_announceOrder _ _) hi)
    · exact offinv_frame (opi_with_announceOrder _ _) hi

theorem opi_sdMessageReceived (s : Stack) (m : SDHeader) (a : Addr) (mc : Bool) : opi (s.sdMessageReceived m a mc) = opi s := by
  unfold sdMessageReceived; split; rfl
  apply foldl_pres opi
  intro X e
  split
  · exact opi_handleOffer _ _ _
  · rfl
  · exact opi_handleFind _ _ _ _
  · split
    · rfl
    · exact opi_handleSubscribe _ _ _

theorem opi_messageReceived (s : Stack) (h : Header) (a : Addr) (mc : Bool) : opi (s.messageReceived h a mc) = opi s := by
  unfold messageReceived
  split; rfl
  split; rfl
  rename_i m rest hparse
  simp only []
  have h1 : opi (if (checkReceived s.incoming a mc m.flagReboot h.sess).1 = true
      then ({ s with incoming := (checkReceived s.incoming a mc m.flagReboot h.sess).2 } : Stack).rebootDetected a
      else ({ s with incoming := (checkReceived s.incoming a mc m.flagReboot h.sess).2 } : Stack)) = opi s := by
    split
    · rw [opi_rebootDetected]; rfl
    · rfl
  split
  · rw [opi_emit]; exact h1
  · rw [opi_sdMessageReceived]; exact h1

theorem opi_datagramReceived (s : Stack) (b : Bytes) (a : Addr) (mc : Bool) : opi (s.datagramReceived b a mc) = opi s := by
  unfold datagramReceived; exact foldl_pres opi _ (fun s h => opi_messageReceived s h a mc) _ _

theorem offinv_applyInput (s : Stack) (x : Input) (hi : OffInv s) : OffInv (s.applyInput x) := by
  cases x with
  | dgram a mc b => exact offinv_frame (opi_datagramReceived s b a mc) hi
  | start =>
    show OffInv (((s.subscriberStart).announcerStart).discoveryStart)
    exact offinv_frame (opi_discoveryStart _) (offinv_announcerStart _ (offinv_frame (opi_subscriberStart _) hi))
  | stop =>
    show OffInv (((s.discoveryStop).announcerStop).subscriberStop true)
    exact offinv_frame (opi_subscriberStop _ _) (offinv_announcerStop _ (offinv_frame (opi_discoveryStop _) hi))
  | connLost => exact offinv_frame (opi_connectionLost s) hi
  | watch f l => exact offinv_frame (opi_watchService s f l) hi
  | unwatch f l => exact offinv_frame (opi_stopWatchService s f l) hi
  | watchAll id => exact offinv_frame (opi_watchAllServices s id) hi
  | unwatchAll id => exact offinv_frame (opi_stopWatchAllServices s id) hi
  | subscribe g d => exact offinv_frame (opi_subscribeEventgroup s g d) hi
  | stopSubscribe g d => exact offinv_frame (opi_stopSubscribeEventgroup s g d true) hi
  | announce i => exact offinv_announceService s i hi
  | stopAnnounce i b => exact offinv_stopAnnounceService s i b hi
  | setNak i egs =>
    simp only [applyInput]
    split
    · rename_i x hx
      exact offinv_frame (by refine opi_setInst_keep s i x _ hx ?_ ?_ <;> rfl) hi
    · exact hi
  | draws ds => exact offinv_frame (s := s) (s' := { s with draws := s.draws ++ ds }) rfl hi
  | announcerStop => exact offinv_announcerStop s hi
  | announcerStart => exact offinv_announcerStart s hi

theorem offinv_runCb (s : Stack) (cb : Cb) (hi : OffInv s) : OffInv (s.runCb cb) := by
  cases cb with
  | connLost p =>
    cases p with
    | subscriber => exact offinv_frame (opi_subscriberStop s false) hi
    | discovery => exact offinv_frame (opi_foundStopAll s) hi
    | announcer => exact offinv_announcerStop s hi
  | expiredSvc a k => exact offinv_frame (opi_expiredSvc s a k) hi
  | expiredSub i a k => exact offinv_frame (opi_expiredSub s i a k) hi
  | sendStartSubscribe d egs => exact offinv_frame (opi_sendSubscribe s _ d egs) hi
  | sendStopSubscribe d egs => exact offinv_frame (opi_sendSubscribe s _ d egs) hi
  | sendOfferTo i a => exact offinv_frame (opi_sendOffer s i _ _) hi
  | collectorTimeout cid => exact offinv_frame (opi_collectorTimeout s cid) hi
  | sleepDone tid =>
    obtain ⟨k, n⟩ := tid
    cases k with
    | offer i => exact offinv_sleepDone s i n hi
    | find => exact offinv_frame (opi_sleepDone s _ rfl) hi
    | subscribe => exact offinv_frame (opi_sleepDone s _ rfl) hi
  | taskStep tid =>
    obtain ⟨k, n⟩ := tid
    cases k with
    | offer i =>
      simp only [runCb]
      rw [getTask_offer]
      cases ht : otask s i n with
      | none => exact hi
      | some t =>
        simp only []
        split
        · exact hi
        · rename_i hnd
          have e1 := opi_cancelTimer s (isSleepFor (.offer i, n)) t.sleep
          exact offinv_stepOffer _ i n t _ (offinv_frame e1 hi) ((otask_of_opi e1 i n).trans ht) rfl rfl hnd
    | find =>
      simp only [runCb]
      split
      · exact hi
      · split
        · exact hi
        · exact offinv_frame ((opi_stepFind _ _ _ rfl).trans (opi_cancelTimer _ _ _)) hi
    | subscribe =>
      simp only [runCb]
      split
      · exact hi
      · split
        · exact hi
        · exact offinv_frame ((opi_stepSubscribe _ _ _ rfl).trans (opi_cancelTimer _ _ _)) hi

theorem offinv_step (s s' : Stack) (e : Event) (h : s.step e = some s') (hi : OffInv s) : OffInv s' := by
  cases e with
  | input x => simp only [step, Option.some.injEq] at h; subst h; exact offinv_applyInput s x hi
  | run =>
    simp only [step, Loop.pop] at h
    cases hr : s.loop.ready with
    | nil => rw [hr] at h; cases h
    | cons r rest =>
      rw [hr] at h
      simp only [Option.some.injEq] at h
      subst h
      exact offinv_runCb _ _ (offinv_frame (s := s) rfl hi)
  | fire q =>
    simp only [step] at h
    cases hf : s.loop.fire q with
    | none => rw [hf] at h; cases h
    | some l => rw [hf] at h; simp at h; subst h; exact offinv_frame (s := s) rfl hi
  | adv t =>
    simp only [step] at h
    cases hf : s.loop.adv t with
    | none => rw [hf] at h; cases h
    | some l => rw [hf] at h; simp at h; subst h; exact offinv_frame (s := s) rfl hi

end Stack
end Someip
