/-
  Each operation of the discovery store preserves the store invariant.
-/
import SomeipModel.Lemmas.StoreInv
namespace Someip
namespace Stack
set_option linter.unusedSimpArgs false

theorem mem_filter_ne {k x : SvcKey} {l : List SvcKey} : x ∈ l.filter (fun y => decide (y ≠ k)) ↔ x ∈ l ∧ x ≠ k := by
  simp [List.mem_filter]

/-- touching an address (defaultdict access) changes no key set -/
theorem storeInv_touch_only (s s' : Stack) (a : Addr) (hi : StoreInv s) (hfound : s'.found = s.found.touch a)
    (hlog : s'.storeLog = s.storeLog) : StoreInv s' := by
  have hk : ∀ a', keysAt s' a' = keysAt s a' := by intro a'; unfold keysAt; rw [hfound, tget_touch]
  refine storeInv_step s s' [] hi (by simp [hlog]) (fun a' => by rw [hk]; exact hi.1 a') ?_
  intro k' a'; simp only [trackS, hk]

/-- removing a stored key and reporting it stopped -/
theorem storeInv_erase_notify (s s' : Stack) (a : Addr) (k : SvcKey) (hi : StoreInv s) (hk : k ∈ keysAt s a)
    (hfound : s'.found = (s.found.touch a).set a (TStore.eraseKey (· == ·) ((s.found.touch a).get a) k))
    (hlog : s'.storeLog = s.storeLog ++ [(false, k, a)]) : StoreInv s' := by
  have hkeys : ∀ a', keysAt s' a' = if a' = a then (keysAt s a).filter (fun y => decide (y ≠ k)) else keysAt s a' := by
    intro a'
    unfold keysAt; rw [hfound]
    by_cases ha : a' = a
    · subst ha; simp only [if_true, tget_set_same, keys_eraseKey, tget_touch]
    · simp only [ha, if_false, tget_set_other _ _ _ _ ha, tget_touch]
  refine storeInv_step s s' [(false, k, a)] hi hlog ?_ ?_
  · intro a'; rw [hkeys]; split
    · exact (hi.1 a).filter _
    · exact hi.1 a'
  · intro k' a'
    rw [hkeys, trackS_single]
    by_cases hka : k = k' ∧ a = a'
    · obtain ⟨rfl, rfl⟩ := hka
      simp [hk, mem_filter_ne]
    · simp only [hka, if_false]
      congr 2
      by_cases ha : a' = a
      · subst ha
        have hkk : k' ≠ k := fun e => hka ⟨e.symm, rfl⟩
        simp [mem_filter_ne, hkk]
      · simp [ha]

/-- explicit stop / stop-offer -/
theorem storeInv_foundStop (s : Stack) (a : Addr) (k : SvcKey) (hi : StoreInv s) : StoreInv (s.foundStop a k) := by
  unfold foundStop
  simp only []
  cases hf : TStore.findKey (· == ·) ((s.found.touch a).get a) k with
  | none => exact storeInv_touch_only s _ a hi rfl rfl
  | some old =>
    simp only []
    have hk : k ∈ keysAt s a := by
      have := findKey_some hf; rw [tget_touch] at this; exact this
    have hd := disc_notifyService (({ s with found := (s.found.touch a).set a (TStore.eraseKey (· == ·) ((s.found.touch a).get a) k) } : Stack).cancelTimer (isSvcExpiryFor a k) old.timer) false k a
    exact storeInv_erase_notify s _ a k hi hk (congrArg Prod.fst hd) (congrArg Prod.snd hd)

/-- expiry callback -/
theorem storeInv_expiredSvc (s : Stack) (a : Addr) (k : SvcKey) (hi : StoreInv s) : StoreInv (s.expiredSvc a k) := by
  unfold expiredSvc
  simp only []
  cases hf : TStore.findKey (· == ·) ((s.found.touch a).get a) k with
  | none => exact storeInv_touch_only s _ a hi rfl rfl
  | some old =>
    simp only []
    have hk : k ∈ keysAt s a := by
      have := findKey_some hf; rw [tget_touch] at this; exact this
    have hd := disc_notifyService ({ s with found := (s.found.touch a).set a (TStore.eraseKey (· == ·) ((s.found.touch a).get a) k) } : Stack) false k a
    exact storeInv_erase_notify s _ a k hi hk (congrArg Prod.fst hd) (congrArg Prod.snd hd)

/-- offer: refresh of a stored key (silent) or a new key (reported offered) -/
theorem storeInv_foundRefresh (s : Stack) (ttl : Nat) (a : Addr) (k : SvcKey) (hi : StoreInv s) :
    StoreInv (s.foundRefresh ttl a k) := by
  unfold foundRefresh
  simp only []
  cases hf : TStore.findKey (· == ·) ((s.found.touch a).get a) k with
  | some old =>
    simp only []
    have hk : k ∈ keysAt s a := by
      have := findKey_some hf; rw [tget_touch] at this; exact this
    -- found' = set a (erase k ++ [k]); log unchanged
    have hd : disc ((({ s with found := s.found.touch a } : Stack).cancelTimer (isSvcExpiryFor a k) old.timer).armTtl ttl (.expiredSvc a k)).1
        = (s.found.touch a, s.storeLog) := by rw [disc_armTtl, disc_cancelTimer]; rfl
    have hfound : ((({ s with found := s.found.touch a } : Stack).cancelTimer (isSvcExpiryFor a k) old.timer).armTtl ttl (.expiredSvc a k)).1.found = s.found.touch a := congrArg Prod.fst hd
    have hlog : ((({ s with found := s.found.touch a } : Stack).cancelTimer (isSvcExpiryFor a k) old.timer).armTtl ttl (.expiredSvc a k)).1.storeLog = s.storeLog := congrArg Prod.snd hd
    refine storeInv_step s _ [] hi (by simpa using hlog) ?_ ?_
    · intro a'
      unfold keysAt; simp only [hfound]
      by_cases ha : a' = a
      · subst ha
        simp only [tget_set_same, List.map_append, List.map_cons, List.map_nil, keys_eraseKey, tget_touch]
        refine List.nodup_append.mpr ⟨(hi.1 a').filter _, by simp, ?_⟩
        intro x hx y hy; simp at hy; subst hy; exact (mem_filter_ne.mp hx).2
      · rw [tget_set_other _ _ _ _ ha, tget_touch, tget_touch]; exact hi.1 a'
    · intro k' a'
      simp only [trackS]; congr 2
      unfold keysAt; simp only [hfound]
      by_cases ha : a' = a
      · subst ha
        simp only [tget_set_same, List.map_append, List.map_cons, List.map_nil, keys_eraseKey, tget_touch,
          List.mem_append, List.mem_singleton]
        by_cases hkk : k' = k
        · subst hkk
          have hk' := hk; unfold keysAt at hk'
          simp [hk']
        · simp [mem_filter_ne, hkk]
      · rw [tget_set_other _ _ _ _ ha, tget_touch, tget_touch]
  | none =>
    simp only []
    have hk : k ∉ keysAt s a := by
      have := findKey_none hf; rw [tget_touch] at this; exact this
    have hd0 := disc_notifyService ({ s with found := s.found.touch a } : Stack) true k a
    have hd : disc ((notifyService ({ s with found := s.found.touch a } : Stack) true k a).armTtl ttl (.expiredSvc a k)).1
        = (s.found.touch a, s.storeLog ++ [(true, k, a)]) := by rw [disc_armTtl]; exact hd0
    have hfound : ((notifyService ({ s with found := s.found.touch a } : Stack) true k a).armTtl ttl (.expiredSvc a k)).1.found = s.found.touch a := congrArg Prod.fst hd
    have hlog : ((notifyService ({ s with found := s.found.touch a } : Stack) true k a).armTtl ttl (.expiredSvc a k)).1.storeLog = s.storeLog ++ [(true, k, a)] := congrArg Prod.snd hd
    refine storeInv_step s _ [(true, k, a)] hi (by simpa using hlog) ?_ ?_
    · intro a'
      unfold keysAt; simp only [hfound]
      by_cases ha : a' = a
      · subst ha
        simp only [tget_set_same, List.map_append, List.map_cons, List.map_nil, tget_touch]
        refine List.nodup_append.mpr ⟨hi.1 a', by simp, ?_⟩
        intro x hx y hy; simp at hy; subst hy; intro e; subst e; exact hk hx
      · rw [tget_set_other _ _ _ _ ha, tget_touch, tget_touch]; exact hi.1 a'
    · intro k' a'
      rw [trackS_single]
      by_cases hka : k = k' ∧ a = a'
      · obtain ⟨rfl, rfl⟩ := hka
        simp only [and_self, if_true, hk, decide_false, Bool.false_eq_true, if_false]
        congr 1
        unfold keysAt; simp only [hfound, tget_set_same]; simp
      · simp only [hka, if_false]
        congr 2
        unfold keysAt; simp only [hfound]
        by_cases ha : a' = a
        · subst ha
          have hkk : k' ≠ k := fun e => hka ⟨e.symm, rfl⟩
          simp only [tget_set_same, List.map_append, List.map_cons, List.map_nil, tget_touch, List.mem_append, List.mem_singleton]
          simp [hkk]
        · rw [tget_set_other _ _ _ _ ha, tget_touch, tget_touch]

theorem disc_flush_fold (a : Addr) (es : List (TSEntry SvcKey)) (st : Stack) :
    disc (es.foldl (fun s e => (s.cancelTimer (isSvcExpiryFor a e.key) e.timer).notifyService false e.key a) st) =
      (st.found, st.storeLog ++ es.map (fun e => (false, e.key, a))) := by
  induction es generalizing st with
  | nil => simp [disc]
  | cons e t ih =>
    rw [List.foldl_cons, ih]
    have hd := disc_notifyService (st.cancelTimer (isSvcExpiryFor a e.key) e.timer) false e.key a
    have h1 : (notifyService (st.cancelTimer (isSvcExpiryFor a e.key) e.timer) false e.key a).found = st.found := congrArg Prod.fst hd
    have h2 : (notifyService (st.cancelTimer (isSvcExpiryFor a e.key) e.timer) false e.key a).storeLog = st.storeLog ++ [(false, e.key, a)] :=
      congrArg Prod.snd hd
    rw [h1, h2]; simp

/-- reboot of a sender / flush of one address: every stored service of that address is reported stopped -/
theorem storeInv_foundStopAllFor (s : Stack) (a : Addr) (hi : StoreInv s) : StoreInv (s.foundStopAllFor a) := by
  unfold foundStopAllFor
  simp only []
  have hd := disc_flush_fold a ((s.found.touch a).get a) ({ s with found := (s.found.touch a).set a [] } : Stack)
  have hfound : (((s.found.touch a).get a).foldl (fun s e => (s.cancelTimer (isSvcExpiryFor a e.key) e.timer).notifyService false e.key a)
      ({ s with found := (s.found.touch a).set a [] } : Stack)).found = (s.found.touch a).set a [] := congrArg Prod.fst hd
  have hlog : (((s.found.touch a).get a).foldl (fun s e => (s.cancelTimer (isSvcExpiryFor a e.key) e.timer).notifyService false e.key a)
      ({ s with found := (s.found.touch a).set a [] } : Stack)).storeLog
      = s.storeLog ++ ((s.found.touch a).get a).map (fun e => (false, e.key, a)) := congrArg Prod.snd hd
  have hkeys : ∀ a', keysAt (((s.found.touch a).get a).foldl (fun s e => (s.cancelTimer (isSvcExpiryFor a e.key) e.timer).notifyService false e.key a)
      ({ s with found := (s.found.touch a).set a [] } : Stack)) a' = if a' = a then [] else keysAt s a' := by
    intro a'; unfold keysAt; rw [hfound]
    by_cases ha : a' = a
    · subst ha; simp [tget_set_same]
    · simp only [ha, if_false, tget_set_other _ _ _ _ ha, tget_touch]
  have hmap : ((s.found.touch a).get a).map (fun e => ((false, e.key, a) : Bool × SvcKey × Addr)) =
      (keysAt s a).map (fun x => (false, x, a)) := by
    unfold keysAt; rw [tget_touch]; simp [List.map_map, Function.comp_def]
  refine storeInv_step s _ _ hi hlog ?_ ?_
  · intro a'; rw [hkeys]; split
    · simp
    · exact hi.1 a'
  · intro k a'
    rw [hmap, trackS_stopped_map k a' a (keysAt s a) (hi.1 a), hkeys]
    by_cases ha : a = a'
    · subst ha
      by_cases hk : k ∈ keysAt s a <;> simp [hk]
    · have ha' : ¬ (a' = a) := fun e => ha e.symm
      simp [ha, ha']

/-- connection loss: every address is flushed -/
theorem storeInv_foundStopAll (s : Stack) (hi : StoreInv s) : StoreInv s.foundStopAll := by
  unfold foundStopAll
  simp only []
  -- after flushing every address of the list, every address is empty
  have key : ∀ (l : TStore SvcKey) (st : Stack), StoreInv st →
      StoreInv (l.foldl (fun s p => s.foundStopAllFor p.1) st) ∧
      (∀ a, (∀ p ∈ l, p.1 ≠ a) → keysAt (l.foldl (fun s p => s.foundStopAllFor p.1) st) a = keysAt st a) ∧
      (∀ a, (∃ p ∈ l, p.1 = a) → keysAt (l.foldl (fun s p => s.foundStopAllFor p.1) st) a = []) := by
    intro l
    induction l with
    | nil => intro st h; exact ⟨h, fun _ _ => rfl, fun a ⟨p, hp, _⟩ => by cases hp⟩
    | cons q t ih =>
      intro st h
      rw [List.foldl_cons]
      have h1 := storeInv_foundStopAllFor st q.1 h
      obtain ⟨i1, i2, i3⟩ := ih (st.foundStopAllFor q.1) h1
      have hk : ∀ a', keysAt (st.foundStopAllFor q.1) a' = if a' = q.1 then [] else keysAt st a' := by
        intro a'
        unfold foundStopAllFor; simp only []
        have hd := disc_flush_fold q.1 ((st.found.touch q.1).get q.1) ({ st with found := (st.found.touch q.1).set q.1 [] } : Stack)
        have hfound : (((st.found.touch q.1).get q.1).foldl (fun s e => (s.cancelTimer (isSvcExpiryFor q.1 e.key) e.timer).notifyService false e.key q.1)
            ({ st with found := (st.found.touch q.1).set q.1 [] } : Stack)).found = (st.found.touch q.1).set q.1 [] := congrArg Prod.fst hd
        unfold keysAt; rw [hfound]
        by_cases ha : a' = q.1
        · subst ha; simp [tget_set_same]
        · simp only [ha, if_false, tget_set_other _ _ _ _ ha, tget_touch]
      refine ⟨i1, fun a ha => ?_, fun a ⟨p, hp, hpa⟩ => ?_⟩
      · rw [i2 a (fun p hp => ha p (by simp [hp])), hk]
        have : ¬ (a = q.1) := fun e => ha q (by simp) e.symm
        simp [this]
      · by_cases hin : ∃ p ∈ t, p.1 = a
        · exact i3 a hin
        · have hq : q.1 = a := by
            rcases List.mem_cons.mp hp with e | e
            · rw [← e]; exact hpa
            · exact absurd ⟨p, e, hpa⟩ hin
          rw [i2 a (fun p hp hpe => hin ⟨p, hp, hpe⟩), hk]; simp [hq]
  obtain ⟨i1, i2, i3⟩ := key s.found s hi
  -- finally the whole store is dropped: nothing changes in terms of keys, all are empty already
  have hempty : ∀ a, keysAt (s.found.foldl (fun s p => s.foundStopAllFor p.1) s) a = [] := by
    intro a
    by_cases hin : ∃ p ∈ s.found, p.1 = a
    · exact i3 a hin
    · rw [i2 a (fun p hp hpe => hin ⟨p, hp, hpe⟩)]
      unfold keysAt TStore.get
      have : s.found.find? (fun p => decide (p.1 = a)) = none := by
        simp only [List.find?_eq_none]; intro p hp; simpa using fun e => hin ⟨p, hp, e⟩
      simp [this]
  refine ⟨fun a => by simp [keysAt, TStore.get], fun k a => ?_⟩
  have := i1.2 k a
  rw [hempty a] at this
  simpa [keysAt, TStore.get] using this

/-- one offer / stop-offer entry -/
theorem storeInv_handleOffer (s : Stack) (e : SDEntry) (a : Addr) (hi : StoreInv s) : StoreInv (s.handleOffer e a) := by
  unfold handleOffer
  simp only []
  split
  · split
    · exact storeInv_foundStop _ _ _ hi
    · exact hi
  · split
    · exact storeInv_foundStop _ _ _ hi
    · exact storeInv_foundRefresh _ _ _ _ hi

theorem storeInv_rebootDetected (s : Stack) (a : Addr) (hi : StoreInv s) : StoreInv (s.rebootDetected a) := by
  unfold rebootDetected
  exact storeInv_of_disc (disc_announcerReboot _ _) (storeInv_foundStopAllFor s a hi)

theorem storeInv_foldl {α : Type} (f : Stack → α → Stack) (h : ∀ s x, StoreInv s → StoreInv (f s x)) (l : List α) (s : Stack)
    (hi : StoreInv s) : StoreInv (l.foldl f s) := by
  induction l generalizing s with
  | nil => exact hi
  | cons x t ih => rw [List.foldl_cons]; exact ih _ (h s x hi)

theorem storeInv_sdMessageReceived (s : Stack) (m : SDHeader) (a : Addr) (mc : Bool) (hi : StoreInv s) :
    StoreInv (s.sdMessageReceived m a mc) := by
  unfold sdMessageReceived
  split
  · exact hi
  · refine storeInv_foldl _ (fun s e h => ?_) _ _ hi
    split
    · exact storeInv_handleOffer _ _ _ h
    · exact h
    · exact storeInv_of_disc (disc_handleFind _ _ _ _) h
    · split
      · exact h
      · exact storeInv_of_disc (disc_handleSubscribe _ _ _) h

theorem storeInv_with_incoming (s : Stack) (x : Incoming) (hi : StoreInv s) : StoreInv { s with incoming := x } :=
  storeInv_of_disc (s := s) (s' := { s with incoming := x }) rfl hi

theorem storeInv_emit (s : Stack) (o : Out) (hi : StoreInv s) : StoreInv (s.emit o) :=
  storeInv_of_disc (s := s) (s' := s.emit o) rfl hi

theorem storeInv_messageReceived (s : Stack) (h : Header) (a : Addr) (mc : Bool) (hi : StoreInv s) :
    StoreInv (s.messageReceived h a mc) := by
  unfold messageReceived
  split
  · exact hi
  · split
    · exact hi
    · rename_i m r hp
      simp only []
      have h0 := storeInv_with_incoming s (checkReceived s.incoming a mc m.flagReboot h.sess).2 hi
      have h1 : StoreInv (if (checkReceived s.incoming a mc m.flagReboot h.sess).1 = true
          then ({ s with incoming := (checkReceived s.incoming a mc m.flagReboot h.sess).2 } : Stack).rebootDetected a
          else ({ s with incoming := (checkReceived s.incoming a mc m.flagReboot h.sess).2 } : Stack)) := by
        split
        · exact storeInv_rebootDetected _ a h0
        · exact h0
      split
      · exact storeInv_emit _ _ h1
      · exact storeInv_sdMessageReceived _ _ _ _ h1

theorem storeInv_datagramReceived (s : Stack) (b : Bytes) (a : Addr) (mc : Bool) (hi : StoreInv s) :
    StoreInv (s.datagramReceived b a mc) := by
  unfold datagramReceived
  exact storeInv_foldl _ (fun s h hh => storeInv_messageReceived s h a mc hh) _ _ hi

end Stack
end Someip
