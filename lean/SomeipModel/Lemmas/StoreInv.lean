/-
  The discovery store invariant (C05/C09, store level): in every state the log of store-level
  notifications alternates offered / stopped per (service, source) starting with offered, and the last one
  is `offered` exactly for the services currently stored.  Proved here for each store operation; lifted to
  all events in Props/C05Global.lean.
-/
import SomeipModel.Lemmas.DiscFrame
namespace Someip
namespace Stack
set_option linter.unusedSimpArgs false

/-! ### TStore lemmas -/

theorem tget_set_same {K : Type} (st : TStore K) (a : Addr) (es : List (TSEntry K)) : (st.set a es).get a = es := by
  unfold TStore.set TStore.get
  have hmem : ∃ p ∈ st.touch a, p.1 = a := by
    unfold TStore.touch; split
    · rename_i h; simpa using h
    · exact ⟨(a, []), by simp, rfl⟩
  generalize st.touch a = l at hmem
  induction l with
  | nil => obtain ⟨p, hp, _⟩ := hmem; cases hp
  | cons q t ih =>
    by_cases hq : q.1 = a
    · simp [List.find?_cons, hq]
    · obtain ⟨p, hp, hpa⟩ := hmem
      have : p ∈ t := by
        rcases List.mem_cons.mp hp with h | h
        · subst h; exact absurd hpa hq
        · exact h
      simp only [List.map_cons, hq, if_false, List.find?_cons, decide_false]
      exact ih ⟨p, this, hpa⟩

theorem tget_touch {K : Type} (st : TStore K) (a a' : Addr) : (st.touch a).get a' = st.get a' := by
  unfold TStore.touch
  split
  · rfl
  · rename_i h
    unfold TStore.get
    by_cases ha : a' = a
    · subst ha
      have : st.find? (fun p => decide (p.1 = a')) = none := by
        simp only [List.find?_eq_none]; intro p hp
        simp only [List.any_eq_true, not_exists, not_and] at h
        exact h p hp
      simp [List.find?_append, this]
    · have : ¬ (a = a') := fun e => ha e.symm
      simp [List.find?_append, this]

theorem tget_set_other {K : Type} (st : TStore K) (a a' : Addr) (es : List (TSEntry K)) (h : a' ≠ a) :
    (st.set a es).get a' = st.get a' := by
  have h1 : (st.set a es).get a' = (st.touch a).get a' := by
    unfold TStore.set TStore.get
    generalize st.touch a = l
    induction l with
    | nil => rfl
    | cons q t ih =>
      by_cases hq : q.1 = a
      · have hq' : ¬ (q.1 = a') := fun e => h (e.symm.trans hq)
        have : ¬ (a = a') := fun e => h e.symm
        simp only [List.map_cons, hq, if_true, List.find?_cons, this, decide_false, hq']
        exact ih
      · simp only [List.map_cons, hq, if_false, List.find?_cons]
        split
        · rfl
        · exact ih
  rw [h1, tget_touch]

/-! ### keys -/

def keysAt (s : Stack) (a : Addr) : List SvcKey := (s.found.get a).map (·.key)

theorem findKey_none {es : List (TSEntry SvcKey)} {k : SvcKey} (h : TStore.findKey (· == ·) es k = none) :
    k ∉ es.map (·.key) := by
  simp only [TStore.findKey, List.find?_eq_none] at h
  intro hm
  obtain ⟨e, he, hk⟩ := List.mem_map.mp hm
  exact h e he (by simp [hk])

theorem findKey_some {es : List (TSEntry SvcKey)} {k : SvcKey} {e : TSEntry SvcKey}
    (h : TStore.findKey (· == ·) es k = some e) : k ∈ es.map (·.key) := by
  have h1 := List.find?_some h
  have hm := List.mem_of_find?_eq_some h
  simp only [beq_iff_eq] at h1
  exact List.mem_map.mpr ⟨e, hm, h1⟩

theorem keys_eraseKey (es : List (TSEntry SvcKey)) (k : SvcKey) :
    (TStore.eraseKey (· == ·) es k).map (·.key) = (es.map (·.key)).filter (fun x => decide (x ≠ k)) := by
  simp only [TStore.eraseKey, List.filter_map]
  congr 1
  apply List.filter_congr
  intro e _
  simp only [Function.comp_def, ne_eq, decide_not]
  by_cases h : e.key = k <;> simp [h]

/-! ### the tracking automaton -/

abbrev SLog := List (Bool × SvcKey × Addr)

def trackS (k : SvcKey) (a : Addr) : Option Bool → SLog → Option Bool
  | st, [] => st
  | none, _ => none
  | some b, (o, k', a') :: r =>
    if k' = k ∧ a' = a then
      (if o then (if b then none else trackS k a (some true) r) else (if b then trackS k a (some false) r else none))
    else trackS k a (some b) r

@[simp] theorem trackS_none (k : SvcKey) (a : Addr) (l : SLog) : trackS k a none l = none := by
  cases l <;> simp [trackS]

theorem trackS_append (k : SvcKey) (a : Addr) (st : Option Bool) (l1 l2 : SLog) :
    trackS k a st (l1 ++ l2) = trackS k a (trackS k a st l1) l2 := by
  induction l1 generalizing st with
  | nil => simp [trackS]
  | cons x xs ih =>
    cases st with
    | none => simp
    | some b =>
      obtain ⟨o, k', a'⟩ := x
      simp only [List.cons_append, trackS]
      split
      · split
        · split
          · simp
          · exact ih _
        · split
          · exact ih _
          · simp
      · exact ih _

theorem trackS_single (k : SvcKey) (a : Addr) (b o : Bool) (k' : SvcKey) (a' : Addr) :
    trackS k a (some b) [(o, k', a')] =
      if k' = k ∧ a' = a then (if o then (if b then none else some true) else (if b then some false else none)) else some b := by
  simp only [trackS]

/-- a run of 'stopped' for distinct keys of one address -/
theorem trackS_stopped_map (k : SvcKey) (a a' : Addr) (L : List SvcKey) (hnd : L.Nodup) (b : Bool) :
    trackS k a (some b) (L.map (fun x => (false, x, a'))) =
      if a' = a ∧ k ∈ L then (if b then some false else none) else some b := by
  induction L generalizing b with
  | nil => simp [trackS]
  | cons p ps ih =>
    obtain ⟨hp, hps⟩ := List.nodup_cons.mp hnd
    simp only [List.map_cons, trackS]
    by_cases h : p = k ∧ a' = a
    · obtain ⟨rfl, rfl⟩ := h
      cases b
      · simp
      · simp [ih hps, hp]
    · simp only [h, if_false, ih hps]
      by_cases ha : a' = a
      · have hpk : ¬ (p = k) := fun e => h ⟨e, ha⟩
        have : (k ∈ p :: ps) ↔ k ∈ ps := by
          simp only [List.mem_cons]; constructor
          · rintro (e | e); exact absurd e.symm hpk; exact e
          · exact Or.inr
        simp [ha, this]
      · simp [ha]

/-! ### the invariant -/

def StoreInv (s : Stack) : Prop :=
  (∀ a, (keysAt s a).Nodup) ∧ ∀ k a, trackS k a (some false) s.storeLog = some (decide (k ∈ keysAt s a))

theorem storeInv_of_disc {s s' : Stack} (h : disc s' = disc s) (hi : StoreInv s) : StoreInv s' := by
  have h1 : s'.found = s.found := congrArg Prod.fst h
  have h2 : s'.storeLog = s.storeLog := congrArg Prod.snd h
  unfold StoreInv keysAt at *
  rw [h1, h2]; exact hi

/-- the effect of a notification round on the store projection: the log grows by one line, the store is
untouched (listeners never modify it) -/
theorem disc_notifyService (s : Stack) (b : Bool) (k : SvcKey) (a : Addr) :
    disc (s.notifyService b k a) = (s.found, s.storeLog ++ [(b, k, a)]) := by
  unfold notifyService
  simp only []
  have hf : ∀ (s : Stack) (l : Listener), disc (if b = true then s.listenerOffered l k a else s.listenerStopped l k a) = disc s := by
    intro s l; split <;> simp
  rw [foldl_pres disc _ (fun s id => hf s _)]
  rw [foldl_pres disc _ (fun s p => by
    split
    · rw [foldl_pres disc _ (fun s l => hf s l)]
    · rfl)]
  rfl

/-- how one step of the log relates old and new membership -/
theorem storeInv_step (s s' : Stack) (ext : SLog) (hi : StoreInv s) (hlog : s'.storeLog = s.storeLog ++ ext)
    (hnd : ∀ a, (keysAt s' a).Nodup)
    (h : ∀ k a, trackS k a (some (decide (k ∈ keysAt s a))) ext = some (decide (k ∈ keysAt s' a))) : StoreInv s' :=
  ⟨hnd, fun k a => by rw [hlog, trackS_append, hi.2 k a, h k a]⟩

end Stack
end Someip
