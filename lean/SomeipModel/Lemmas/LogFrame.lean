/-
  Frame lemmas for the ghost log of the service instances (`offLog`): it is appended to only by `ServiceInstance.start`,
  `stop` and `_send_offer` - hence by the offer task, the announcer functions that call them and the deferred answer to a
  FindService.  Generated from the scripts of Frame.lean; one lemma per other function of the stack model.
-/
import SomeipModel.Lemmas.Frame
namespace Someip
namespace Stack
set_option linter.unusedSimpArgs false

/-- the ghost log of the service instances -/
def lgi (s : Stack) : List (Nat × OEv × Nat) := s.offLog

@[simp] theorem lgi_with_found (s : Stack) (x : TStore SvcKey) : lgi { s with found := x } = lgi s := rfl
@[simp] theorem lgi_with_watched (s : Stack) (x : List (Service × List Listener)) : lgi { s with watched := x } = lgi s := rfl
@[simp] theorem lgi_with_watchAll (s : Stack) (x : List LId) : lgi { s with watchAll := x } = lgi s := rfl
@[simp] theorem lgi_with_alive (s : Stack) (x : Bool) : lgi { s with alive := x } = lgi s := rfl
@[simp] theorem lgi_with_subTask (s : Stack) (x : Option Nat) : lgi { s with subTask := x } = lgi s := rfl
@[simp] theorem lgi_with_findTask (s : Stack) (x : Option Nat) : lgi { s with findTask := x } = lgi s := rfl
@[simp] theorem lgi_with_subEntries (s : Stack) (x : List (Eventgroup × Addr)) : lgi { s with subEntries := x } = lgi s := rfl
@[simp] theorem lgi_with_started (s : Stack) (x : Bool) : lgi { s with started := x } = lgi s := rfl
@[simp] theorem lgi_with_announceOrder (s : Stack) (x : List Nat) : lgi { s with announceOrder := x } = lgi s := rfl
@[simp] theorem lgi_with_incoming (s : Stack) (x : Incoming) : lgi { s with incoming := x } = lgi s := rfl
@[simp] theorem lgi_with_draws (s : Stack) (x : List Nat) : lgi { s with draws := x } = lgi s := rfl

@[simp] theorem lgi_emit (s : Stack) (o : Out) : lgi (s.emit o) = lgi s := rfl
@[simp] theorem lgi_callSoon (s : Stack) (cb : Cb) : lgi (s.callSoon cb) = lgi s := rfl
@[simp] theorem lgi_callLater (s : Stack) (d : Nat) (cb : Cb) : lgi (s.callLater d cb).1 = lgi s := rfl
@[simp] theorem lgi_cancelTimer (s : Stack) (own : Cb → Bool) (t : Option Nat) : lgi (s.cancelTimer own t) = lgi s := by
  cases t <;> rfl
@[simp] theorem lgi_draw (s : Stack) (a b : Nat) : lgi (s.draw a b).1 = lgi s := by
  unfold draw; split <;> rfl
@[simp] theorem lgi_armTtl (s : Stack) (ttl : Nat) (cb : Cb) : lgi (s.armTtl ttl cb).1 = lgi s := by
  unfold armTtl; split <;> rfl
@[simp] theorem lgi_setInst (s : Stack) (i : Nat) (x : Instance) : lgi (s.setInst i x) = lgi s := rfl
@[simp] theorem lgi_setTask (s : Stack) (i : Tid) (x : TaskSt) : lgi (s.setTask i x) = lgi s := rfl

@[simp] theorem lgi_sendSd (s : Stack) (es : List SDEntry) (d : Dest) : lgi (s.sendSd es d) = lgi s := by
  unfold sendSd; split; rfl; simp only []; split; rfl; split <;> rfl

@[simp] theorem lgi_with_flushLog (s : Stack) (x : List (Dest × List SDEntry)) : lgi { s with flushLog := x } = lgi s := rfl
@[simp] theorem lgi_with_refreshLog (s : Stack) (x : List (Addr × SvcKey × Nat × Nat)) : lgi { s with refreshLog := x } = lgi s := rfl
@[simp] theorem lgi_with_armLog (s : Stack) (x : List (Cb × Nat × Nat)) : lgi { s with armLog := x } = lgi s := rfl
@[simp] theorem lgi_with_subMarks (s : Stack) (x : List (Option Nat × Nat)) : lgi { s with subMarks := x } = lgi s := rfl
@[simp] theorem lgi_markRound (s : Stack) (n : Nat) : lgi (s.markRound n) = lgi s := rfl
@[simp] theorem lgi_with_found_refreshLog (s : Stack) (x : TStore SvcKey) (y : List (Addr × SvcKey × Nat × Nat)) : lgi { s with found := x, refreshLog := y } = lgi s := rfl
@[simp] theorem lgi_with_subLog (s : Stack) (x : List (Addr × Nat × List Eventgroup)) : lgi { s with subLog := x } = lgi s := rfl
@[simp] theorem lgi_with_findLog (s : Stack) (x : List (Nat × Nat)) : lgi { s with findLog := x } = lgi s := rfl
@[simp] theorem lgi_with_findMarks (s : Stack) (x : List (Nat × Nat)) : lgi { s with findMarks := x } = lgi s := rfl
@[simp] theorem lgi_with_ansLog (s : Stack) (x : List (Nat × Addr × Nat × Nat)) : lgi { s with ansLog := x } = lgi s := rfl
@[simp] theorem lgi_with_lisLog (s : Stack) (x : List (LId × Bool × SvcKey × Addr)) : lgi { s with lisLog := x } = lgi s := rfl
@[simp] theorem lgi_logLis (s : Stack) (id : LId) (o : Bool) (k : SvcKey) (a : Addr) : lgi (s.logLis id o k a) = lgi s := rfl
@[simp] theorem lgi_with_lisDup (s : Stack) (x : Bool) : lgi { s with lisDup := x } = lgi s := rfl
@[simp] theorem lgi_markDup (s : Stack) (d : Bool) : lgi (s.markDup d) = lgi s := rfl
@[simp] theorem lgi_logAnswer (s : Stack) (i : Nat) (a : Addr) (d : Nat) : lgi (s.logAnswer i a d) = lgi s := rfl
@[simp] theorem lgi_markFind (s : Stack) (n : Nat) : lgi (s.markFind n) = lgi s := rfl
@[simp] theorem lgi_with_subDup (s : Stack) (x : Bool) : lgi { s with subDup := x } = lgi s := rfl
@[simp] theorem lgi_with_subLost (s : Stack) (x : Bool) : lgi { s with subLost := x } = lgi s := rfl
@[simp] theorem lgi_with_alive_subLost (s : Stack) (x y : Bool) : lgi { s with alive := x, subLost := y } = lgi s := rfl
@[simp] theorem lgi_with_subDup_subEntries (s : Stack) (x : Bool) (y : List (Eventgroup × Addr)) : lgi { s with subDup := x, subEntries := y } = lgi s := rfl
@[simp] theorem lgi_flushTo (s : Stack) (es : List SDEntry) (d : Dest) : lgi (s.flushTo es d) = lgi s := by
  unfold flushTo; rw [lgi_sendSd]; rfl

@[simp] theorem lgi_newCollector (s : Stack) (d : Dest) : lgi (s.newCollector d).1 = lgi s := rfl
@[simp] theorem lgi_appendCollector (s : Stack) (c : Nat) (e : SDEntry) : lgi (s.appendCollector c e) = lgi s := rfl

@[simp] theorem lgi_queueSend (s : Stack) (e : SDEntry) (d : Dest) : lgi (s.queueSend e d) = lgi s := by
  unfold queueSend; simp only []; split
  · simp
  · split
    · split <;> simp
    · simp

@[simp] theorem lgi_collectorTimeout (s : Stack) (c : Nat) : lgi (s.collectorTimeout c) = lgi s := by
  unfold collectorTimeout; split; rfl; simp only []; rw [lgi_flushTo]; rfl

@[simp] theorem lgi_createTask (s : Stack) (k : TaskKind) : lgi (s.createTask k).1 = lgi s := rfl
@[simp] theorem lgi_cancelTask (s : Stack) (t : Tid) : lgi (s.cancelTask t) = lgi s := by
  unfold cancelTask; split; rfl; split; rfl; split <;> simp
@[simp] theorem lgi_sleepFor (s : Stack) (tid : Tid) (t : TaskSt) (d : Nat) (pc : Pc) : lgi (s.sleepFor tid t d pc) = lgi s := by
  unfold sleepFor; split <;> simp
@[simp] theorem lgi_finish (s : Stack) (tid : Tid) (t : TaskSt) : lgi (s.finish tid t) = lgi s := rfl
@[simp] theorem lgi_sleepDone (s : Stack) (tid : Tid) : lgi (s.sleepDone tid) = lgi s := by
  unfold sleepDone; split; rfl; split <;> simp

@[simp] theorem lgi_subsStopAllFor (s : Stack) (i : Nat) (a : Addr) : lgi (s.subsStopAllFor i a) = lgi s := by
  unfold subsStopAllFor; split; rfl
  simp only []
  rw [foldl_pres lgi _ (fun s e => by simp)]; rfl

@[simp] theorem lgi_subsStopAll (s : Stack) (i : Nat) : lgi (s.subsStopAll i) = lgi s := by
  unfold subsStopAll; split; rfl
  simp only []
  split
  · simp only [lgi_setInst]; rw [foldl_pres lgi _ (fun s e => by simp)]
  · rw [foldl_pres lgi _ (fun s e => by simp)]

@[simp] theorem lgi_instHandleSubscribe (s : Stack) (i : Nat) (e : SDEntry) (a : Addr) :
    lgi (s.instHandleSubscribe i e a).1 = lgi s := by
  unfold instHandleSubscribe
  frame_cases

@[simp] theorem lgi_handleSubscribe (s : Stack) (e : SDEntry) (a : Addr) : lgi (s.handleSubscribe e a) = lgi s := by
  unfold handleSubscribe
  simp only []
  have key : ∀ (l : List Nat) (acc : Stack × Bool),
      lgi (l.foldl (fun (acc : Stack × Bool) i => ((acc.1.instHandleSubscribe i e a).1, acc.2 || (acc.1.instHandleSubscribe i e a).2)) acc).1 = lgi acc.1 := by
    intro l; induction l with
    | nil => intro acc; rfl
    | cons x t ih => intro acc; rw [List.foldl_cons, ih]; simp
  split
  · exact key _ _
  · rw [lgi_queueSend]; exact key _ _

@[simp] theorem lgi_handleFind (s : Stack) (e : SDEntry) (a : Addr) (mc : Bool) : lgi (s.handleFind e a mc) = lgi s := by
  unfold handleFind; simp only []
  split; rfl
  split
  · rw [foldl_pres lgi _ (fun s i => by simp)]; simp
  · rw [foldl_pres lgi _ (fun s i => by simp)]

@[simp] theorem lgi_expiredSub (s : Stack) (i : Nat) (a : Addr) (k : SubKey) : lgi (s.expiredSub i a k) = lgi s := by
  unfold expiredSub; split; rfl; simp only []; split <;> simp

@[simp] theorem lgi_announcerReboot (s : Stack) (a : Addr) : lgi (s.announcerReboot a) = lgi s := by
  unfold announcerReboot; rw [foldl_pres lgi _ (fun s i => by simp)]

@[simp] theorem lgi_sendSubscribe (s : Stack) (ttl : Nat) (d : Addr) (egs : List Eventgroup) :
    lgi (s.sendSubscribe ttl d egs) = lgi s := by simp [sendSubscribe]

@[simp] theorem lgi_subscribeEventgroup (s : Stack) (g : Eventgroup) (d : Addr) : lgi (s.subscribeEventgroup g d) = lgi s := by
  unfold subscribeEventgroup; simp only []; split <;> rfl

@[simp] theorem lgi_stopSubscribeEventgroup (s : Stack) (g : Eventgroup) (d : Addr) (b : Bool) :
    lgi (s.stopSubscribeEventgroup g d b) = lgi s := by
  unfold stopSubscribeEventgroup; split
  · simp only []; split <;> rfl
  · rfl

@[simp] theorem lgi_subscriberStart (s : Stack) : lgi s.subscriberStart = lgi s := by
  unfold subscriberStart; split <;> rfl

@[simp] theorem lgi_subscriberStop (s : Stack) (b : Bool) : lgi (s.subscriberStop b) = lgi s := by
  unfold subscriberStop; split; rfl
  simp only []
  have h1 : lgi (match ({ s with alive := false, subLost := !b } : Stack).subTask with
      | some tid => { ({ s with alive := false, subLost := !b } : Stack).cancelTask (.subscribe, tid) with subTask := none }
      | none => ({ s with alive := false, subLost := !b } : Stack)) = lgi s := by
    split
    · show lgi (({ s with alive := false, subLost := !b } : Stack).cancelTask _) = lgi s; rw [lgi_cancelTask]; rfl
    · rfl
  split
  · rw [foldl_pres lgi _ (fun s p => by simp)]; exact h1
  · exact h1

@[simp] theorem lgi_stepSubscribe (s : Stack) (tid : Tid) (t : TaskSt) : lgi (s.stepSubscribe tid t) = lgi s := by
  unfold stepSubscribe
  simp only []
  have key : ∀ st : Stack, lgi (List.foldl (fun s p => s.sendSubscribe s.tm.subscribeTtl p.1 p.2) st (groupEntries st.subEntries)) = lgi st :=
    fun st => foldl_pres lgi _ (fun s p => by simp) _ _
  split
  · split; simp; split <;> simp [key]
  · split; simp; split <;> simp [key]
  · rfl

@[simp] theorem lgi_listenerOffered (s : Stack) (l : Listener) (k : SvcKey) (a : Addr) : lgi (s.listenerOffered l k a) = lgi s := by
  unfold listenerOffered; frame_cases
@[simp] theorem lgi_listenerStopped (s : Stack) (l : Listener) (k : SvcKey) (a : Addr) : lgi (s.listenerStopped l k a) = lgi s := by
  unfold listenerStopped; frame_cases

@[simp] theorem lgi_notifyService (s : Stack) (b : Bool) (k : SvcKey) (a : Addr) : lgi (s.notifyService b k a) = lgi s := by
  unfold notifyService
  simp only []
  have hf : ∀ (s : Stack) (l : Listener), lgi (if b = true then s.listenerOffered l k a else s.listenerStopped l k a) = lgi s := by
    intro s l; split <;> simp
  rw [foldl_pres lgi _ (fun s id => hf s _)]
  rw [foldl_pres lgi _ (fun s p => by
    split
    · rw [foldl_pres lgi _ (fun s l => hf s l)]
    · rfl)]
  rfl

@[simp] theorem lgi_foundStop (s : Stack) (a : Addr) (k : SvcKey) : lgi (s.foundStop a k) = lgi s := by
  unfold foundStop; frame_cases

@[simp] theorem lgi_foundRefresh (s : Stack) (ttl : Nat) (a : Addr) (k : SvcKey) : lgi (s.foundRefresh ttl a k) = lgi s := by
  unfold foundRefresh
  simp only [lgi_with_found_refreshLog, lgi_armTtl]
  split <;> simp

@[simp] theorem lgi_handleOffer (s : Stack) (e : SDEntry) (a : Addr) : lgi (s.handleOffer e a) = lgi s := by
  unfold handleOffer; frame_cases

@[simp] theorem lgi_foundStopAllFor (s : Stack) (a : Addr) : lgi (s.foundStopAllFor a) = lgi s := by
  unfold foundStopAllFor; simp only []
  rw [foldl_pres lgi _ (fun s e => by simp)]; rfl

@[simp] theorem lgi_foundStopAll (s : Stack) : lgi s.foundStopAll = lgi s := by
  unfold foundStopAll; simp only []
  show lgi (List.foldl (fun s p => s.foundStopAllFor p.1) s s.found) = lgi s
  rw [foldl_pres lgi _ (fun s e => by simp)]

@[simp] theorem lgi_expiredSvc (s : Stack) (a : Addr) (k : SvcKey) : lgi (s.expiredSvc a k) = lgi s := by
  unfold expiredSvc; frame_cases

@[simp] theorem lgi_replay (s : Stack) (b : Bool) (f : Option Service) (l : Listener) : lgi (s.replay b f l) = lgi s := by
  unfold replay
  rw [foldl_pres lgi _ (fun s p => by frame_cases)]

@[simp] theorem lgi_watchService (s : Stack) (f : Service) (l : Listener) : lgi (s.watchService f l) = lgi s := by
  unfold watchService; simp only []; rw [lgi_markDup, lgi_replay]; rfl
@[simp] theorem lgi_stopWatchService (s : Stack) (f : Service) (l : Listener) : lgi (s.stopWatchService f l) = lgi s := by
  unfold stopWatchService; simp only []; split
  · simp
  · rw [lgi_replay]; rfl
@[simp] theorem lgi_watchAllServices (s : Stack) (id : LId) : lgi (s.watchAllServices id) = lgi s := by
  unfold watchAllServices; rw [lgi_markDup, lgi_replay]; rfl
@[simp] theorem lgi_stopWatchAllServices (s : Stack) (id : LId) : lgi (s.stopWatchAllServices id) = lgi s := by
  unfold stopWatchAllServices; split
  · simp
  · rw [lgi_replay]; rfl

@[simp] theorem lgi_stepFind (s : Stack) (tid : Tid) (t : TaskSt) : lgi (s.stepFind tid t) = lgi s := by
  unfold stepFind; frame_cases

@[simp] theorem lgi_discoveryStart (s : Stack) : lgi s.discoveryStart = lgi s := by
  unfold discoveryStart; simp only []
  split
  · split <;> simp
  · simp
@[simp] theorem lgi_discoveryStop (s : Stack) : lgi s.discoveryStop = lgi s := by
  unfold discoveryStop; split
  · show lgi (s.cancelTask _) = lgi s; simp
  · rfl

@[simp] theorem lgi_rebootDetected (s : Stack) (a : Addr) : lgi (s.rebootDetected a) = lgi s := by
  simp [rebootDetected]

@[simp] theorem lgi_sdMessageReceived (s : Stack) (m : SDHeader) (a : Addr) (mc : Bool) :
    lgi (s.sdMessageReceived m a mc) = lgi s := by
  unfold sdMessageReceived; split; rfl
  rw [foldl_pres lgi _ (fun s e => by frame_cases)]

@[simp] theorem lgi_messageReceived (s : Stack) (h : Header) (a : Addr) (mc : Bool) : lgi (s.messageReceived h a mc) = lgi s := by
  unfold messageReceived
  split; rfl
  split; rfl
  simp only []
  split
  · split <;> simp <;> rfl
  · split <;> simp <;> rfl

@[simp] theorem lgi_datagramReceived (s : Stack) (b : Bytes) (a : Addr) (mc : Bool) : lgi (s.datagramReceived b a mc) = lgi s := by
  unfold datagramReceived; rw [foldl_pres lgi _ (fun s h => by simp)]

@[simp] theorem lgi_connectionLost (s : Stack) : lgi s.connectionLost = lgi s := by simp [connectionLost]


end Stack
end Someip
