/-
  Loop discipline, for every function of the stack model: no pending timer is overdue (`now ≤ deadline` for every scheduled
  handle).  Timers are only ever created by `call_later(delay, ..)` with deadline `now + delay`, removed by a cancel or a
  fire, and the clock only moves in `adv`, never past a deadline.  Consequence (C09 / C10 / C13 / C15): a handle fires
  exactly at its deadline - never early (the guard of `fire`), never late (this invariant).
-/
import SomeipModel.Lemmas.OffSteps
namespace Someip
namespace Stack
set_option linter.unusedSimpArgs false
set_option linter.unusedVariables false

/-- no scheduled handle is overdue -/
def LD (s : Stack) : Prop := ∀ t ∈ s.loop.timers, s.loop.now ≤ t.deadline

/-- what `LD` reads -/
def ldp (s : Stack) : Nat × List (Timer Cb) := (s.loop.now, s.loop.timers)
theorem ld_of_ldp {s s' : Stack} (h : ldp s' = ldp s) (hi : LD s) : LD s' := by
  have e1 : s'.loop.now = s.loop.now := congrArg Prod.fst h
  have e2 : s'.loop.timers = s.loop.timers := congrArg Prod.snd h
  unfold LD; rw [e1, e2]; exact hi

theorem ld_callLater (s : Stack) (d : Nat) (cb : Cb) (hi : LD s) : LD (s.callLater d cb).1 := by
  intro t ht
  simp only [callLater, Loop.callLater, List.mem_append, List.mem_cons, List.not_mem_nil, or_false] at ht
  rcases ht with ht | rfl
  · exact hi t ht
  · exact Nat.le_add_right _ _
theorem ld_cancelTimer (s : Stack) (own : Cb → Bool) (q : Option Nat) (hi : LD s) : LD (s.cancelTimer own q) := by
  cases q with
  | none => exact hi
  | some n =>
    intro t ht
    simp only [cancelTimer, Loop.cancelOpt, Loop.cancel, List.mem_filter] at ht
    exact hi t ht.1
theorem ld_callSoon (s : Stack) (cb : Cb) (hi : LD s) : LD (s.callSoon cb) := hi
theorem ld_emit (s : Stack) (o : Out) (hi : LD s) : LD (s.emit o) := hi
theorem ld_setInst (s : Stack) (i : Nat) (x : Instance) (hi : LD s) : LD (s.setInst i x) := hi
theorem ld_setTask (s : Stack) (tid : Tid) (t : TaskSt) (hi : LD s) : LD (s.setTask tid t) := hi
/-- any change that leaves the loop alone -/
theorem ld_same_loop {s s' : Stack} (h : s'.loop = s.loop) (hi : LD s) : LD s' := by unfold LD; rw [h]; exact hi

theorem ld_foldl {α : Type} (f : Stack → α → Stack) (h : ∀ s a, LD s → LD (f s a)) (l : List α) (s : Stack) (hi : LD s) :
    LD (l.foldl f s) := by
  induction l generalizing s with
  | nil => exact hi
  | cons a t ih => rw [List.foldl_cons]; exact ih _ (h s a hi)

theorem ld_draw (s : Stack) (a b : Nat) (hi : LD s) : LD (s.draw a b).1 := by unfold draw; split <;> exact hi
theorem ld_armTtl (s : Stack) (ttl : Nat) (cb : Cb) (hi : LD s) : LD (s.armTtl ttl cb).1 := by
  unfold armTtl; split
  · exact ld_callLater _ _ _ hi
  · exact hi
theorem ld_sendSd (s : Stack) (es : List SDEntry) (d : Dest) (hi : LD s) : LD (s.sendSd es d) := by
  unfold sendSd; split; exact hi; simp only []; split; exact hi; split <;> exact hi
theorem ld_flushTo (s : Stack) (es : List SDEntry) (d : Dest) (hi : LD s) : LD (s.flushTo es d) := by
  unfold flushTo; exact ld_sendSd _ _ _ hi
theorem ld_newCollector (s : Stack) (d : Dest) (hi : LD s) : LD (s.newCollector d).1 := by
  unfold newCollector; exact ld_callLater s _ _ hi
theorem ld_appendCollector (s : Stack) (c : Nat) (e : SDEntry) (hi : LD s) : LD (s.appendCollector c e) := hi
theorem ld_createTask (s : Stack) (k : TaskKind) (hi : LD s) : LD (s.createTask k).1 := hi
theorem ld_cancelTask (s : Stack) (t : Tid) (hi : LD s) : LD (s.cancelTask t) := by
  unfold cancelTask; split; exact hi; split; exact hi; split <;> exact hi
theorem ld_sleepFor (s : Stack) (tid : Tid) (t : TaskSt) (d : Nat) (pc : Pc) (hi : LD s) : LD (s.sleepFor tid t d pc) := by
  unfold sleepFor; split
  · exact hi
  · exact ld_callLater s _ _ hi
theorem ld_finish (s : Stack) (tid : Tid) (t : TaskSt) (hi : LD s) : LD (s.finish tid t) := hi
theorem ld_sleepDone (s : Stack) (tid : Tid) (hi : LD s) : LD (s.sleepDone tid) := by
  unfold sleepDone; split; exact hi; split <;> exact hi

/-- split conditionals, apply the lemmas of the functions below -/
macro "ld" : tactic => `(tactic| repeat' (first
  | assumption
  | with_reducible apply ld_callLater
  | with_reducible apply ld_cancelTimer
  | with_reducible apply ld_callSoon
  | with_reducible apply ld_emit
  | with_reducible apply ld_setInst
  | with_reducible apply ld_setTask
  | with_reducible apply ld_draw
  | with_reducible apply ld_armTtl
  | with_reducible apply ld_sendSd
  | with_reducible apply ld_flushTo
  | with_reducible apply ld_newCollector
  | with_reducible apply ld_appendCollector
  | with_reducible apply ld_createTask
  | with_reducible apply ld_cancelTask
  | with_reducible apply ld_sleepFor
  | with_reducible apply ld_finish
  | with_reducible apply ld_sleepDone
  | split))

theorem ld_queueSend (s : Stack) (e : SDEntry) (d : Dest) (hi : LD s) : LD (s.queueSend e d) := by
  unfold queueSend; simp only []; ld
theorem ld_collectorTimeout (s : Stack) (c : Nat) (hi : LD s) : LD (s.collectorTimeout c) := by
  unfold collectorTimeout; split
  · exact hi
  · exact ld_flushTo _ _ _ hi
theorem ld_sendOffer (s : Stack) (i : Nat) (r : Dest) (b : Bool) (hi : LD s) : LD (s.sendOffer i r b) := by
  unfold sendOffer; split; exact hi; split; exact hi; exact ld_queueSend _ _ _ hi

theorem ld_stepOffer (s : Stack) (tid : Tid) (t : TaskSt) (i : Nat) (hi : LD s) : LD (s.stepOffer tid t i) := by
  have hso : ∀ (X : Stack) (r : Dest) (b : Bool), LD X → LD (X.sendOffer i r b) := fun X r b h => ld_sendOffer X i r b h
  have hmatch : ∀ (X : Stack) (c : Bool), LD X → LD (match X.getInst i with | some x => X.setInst i { x with canAnswer := c } | none => X) := by
    intro X c h; split <;> exact h
  unfold stepOffer
  simp only []
  have hcancel : ∀ X : Stack, LD X → LD ((if (match X.getInst i with | some x => X.setInst i { x with canAnswer := false } | none => X).tm.cyclicOfferDelay ≠ 0
      then (match X.getInst i with | some x => X.setInst i { x with canAnswer := false } | none => X).sendOffer i none true
      else (match X.getInst i with | some x => X.setInst i { x with canAnswer := false } | none => X)).finish tid t) := by
    intro X hX
    apply ld_finish
    have hm := hmatch X false hX
    generalize (match X.getInst i with | some x => X.setInst i { x with canAnswer := false } | none => X) = Y at hm ⊢
    split
    · exact hso _ _ _ hm
    · exact hm
  have hafter : ∀ (X : Stack) (k : Nat), LD X → LD (if k < X.tm.repetitionsMax then X.sleepFor tid t (pow2 k * X.tm.repetitionsBaseDelay) (.rep k)
      else if X.tm.cyclicOfferDelay = 0 then X.finish tid t else X.sleepFor tid t X.tm.cyclicOfferDelay .cyclic) := by
    intro X k hX; ld
  split
  · split
    · exact ld_finish _ _ _ hi
    · exact ld_sleepFor _ _ _ _ _ (ld_draw _ _ _ hi)
  · split
    · exact ld_finish _ _ _ hi
    · exact hafter _ _ (hmatch _ true (hso _ _ _ hi))
  · split
    · exact hcancel _ hi
    · exact hafter _ _ (hso _ _ _ hi)
  · split
    · exact hcancel _ hi
    · exact ld_sleepFor _ _ _ _ _ (hso _ _ _ hi)
  · exact hi

theorem ld_instStart (s : Stack) (i : Nat) (hi : LD s) : LD (s.instStart i) := by
  unfold instStart; split; exact hi; split; exact hi; simp only []; split <;> exact hi

theorem ld_subsStopAllFor (s : Stack) (i : Nat) (a : Addr) (hi : LD s) : LD (s.subsStopAllFor i a) := by
  unfold subsStopAllFor; split; exact hi
  simp only []
  exact ld_foldl _ (fun X e hX => ld_emit _ _ (ld_cancelTimer _ _ _ hX)) _ _ hi

theorem ld_subsStopAll (s : Stack) (i : Nat) (hi : LD s) : LD (s.subsStopAll i) := by
  unfold subsStopAll; split; exact hi
  simp only []
  have h1 := ld_foldl (fun (X : Stack) (p : Addr × List (TSEntry SubKey)) => X.subsStopAllFor i p.1) (fun X p hX => ld_subsStopAllFor X i p.1 hX)
  split
  · exact h1 _ _ hi
  · exact h1 _ _ hi

theorem ld_instStop (s : Stack) (i : Nat) (hi : LD s) : LD (s.instStop i) := by
  unfold instStop; split; exact hi; split; exact hi
  simp only []
  apply ld_subsStopAll
  split
  · exact ld_sendOffer _ _ _ _ (ld_cancelTask _ _ hi)
  · exact ld_cancelTask _ _ hi

theorem ld_instHandleSubscribe (s : Stack) (i : Nat) (e : SDEntry) (a : Addr) (hi : LD s) : LD (s.instHandleSubscribe i e a).1 := by
  unfold instHandleSubscribe
  split
  · exact hi
  · split
    · exact hi
    · split
      · split
        · simp only []
          split
          · exact hi
          · exact ld_cancelTimer _ _ _ hi
        · simp only []
          split
          · exact ld_queueSend _ _ _ (ld_armTtl _ _ _ (ld_cancelTimer _ _ _ hi))
          · split
            · exact ld_queueSend _ _ _ hi
            · exact ld_queueSend _ _ _ (ld_armTtl _ _ _ hi)
      · exact hi

theorem ld_handleSubscribe (s : Stack) (e : SDEntry) (a : Addr) (hi : LD s) : LD (s.handleSubscribe e a) := by
  unfold handleSubscribe
  simp only []
  have key : ∀ (l : List Nat) (acc : Stack × Bool), LD acc.1 →
      LD (l.foldl (fun (acc : Stack × Bool) i => ((acc.1.instHandleSubscribe i e a).1, acc.2 || (acc.1.instHandleSubscribe i e a).2)) acc).1 := by
    intro l; induction l with
    | nil => intro acc h; exact h
    | cons x t ih => intro acc h; rw [List.foldl_cons]; exact ih _ (ld_instHandleSubscribe _ _ _ _ h)
  split
  · exact key _ _ hi
  · exact ld_queueSend _ _ _ (key _ _ hi)

theorem ld_handleFind (s : Stack) (e : SDEntry) (a : Addr) (mc : Bool) (hi : LD s) : LD (s.handleFind e a mc) := by
  unfold handleFind; simp only []
  split; exact hi
  split
  · exact ld_foldl _ (fun X i hX => ld_callLater (X.logAnswer _ _ _) _ _ hX) _ _ (ld_draw _ _ _ hi)
  · exact ld_foldl _ (fun X i hX => ld_callSoon X _ hX) _ _ hi

theorem ld_expiredSub (s : Stack) (i : Nat) (a : Addr) (k : SubKey) (hi : LD s) : LD (s.expiredSub i a k) := by
  unfold expiredSub; split; exact hi; simp only []; split <;> exact hi

theorem ld_announcerStart (s : Stack) (hi : LD s) : LD s.announcerStart := by
  unfold announcerStart; simp only []
  exact ld_foldl (fun (X : Stack) (i : Nat) => X.instStart i) (fun X i hX => ld_instStart X i hX) _ _ hi
theorem ld_announcerStop (s : Stack) (hi : LD s) : LD s.announcerStop := by
  unfold announcerStop; split; exact hi
  show LD (List.foldl (fun s i => s.instStop i) s s.announceOrder)
  exact ld_foldl _ (fun X i hX => ld_instStop X i hX) _ _ hi
theorem ld_announcerReboot (s : Stack) (a : Addr) (hi : LD s) : LD (s.announcerReboot a) := by
  unfold announcerReboot; exact ld_foldl _ (fun X i hX => ld_subsStopAllFor X i a hX) _ _ hi
theorem ld_announceService (s : Stack) (i : Nat) (hi : LD s) : LD (s.announceService i) := by
  unfold announceService; simp only []
  show LD (if s.started = true then s.instStart i else s)
  split
  · exact ld_instStart _ _ hi
  · exact hi
theorem ld_stopAnnounceService (s : Stack) (i : Nat) (b : Bool) (hi : LD s) : LD (s.stopAnnounceService i b) := by
  unfold stopAnnounceService; split; exact hi
  simp only []
  split
  · exact ld_instStop _ _ hi
  · exact hi

theorem ld_sendSubscribe (s : Stack) (ttl : Nat) (d : Addr) (egs : List Eventgroup) (hi : LD s) : LD (s.sendSubscribe ttl d egs) := by
  unfold sendSubscribe; exact ld_sendSd _ _ _ hi
theorem ld_subscribeEventgroup (s : Stack) (g : Eventgroup) (d : Addr) (hi : LD s) : LD (s.subscribeEventgroup g d) := by
  unfold subscribeEventgroup; simp only []; split <;> exact hi
theorem ld_stopSubscribeEventgroup (s : Stack) (g : Eventgroup) (d : Addr) (b : Bool) (hi : LD s) : LD (s.stopSubscribeEventgroup g d b) := by
  unfold stopSubscribeEventgroup; split
  · simp only []; split <;> exact hi
  · exact hi
theorem ld_subscriberStart (s : Stack) (hi : LD s) : LD s.subscriberStart := by
  unfold subscriberStart; split <;> exact hi
theorem ld_subscriberStop (s : Stack) (b : Bool) (hi : LD s) : LD (s.subscriberStop b) := by
  unfold subscriberStop; split; exact hi
  simp only []
  have h1 : LD (match ({ s with alive := false, subLost := !b } : Stack).subTask with
      | some tid => ({ ({ s with alive := false, subLost := !b } : Stack).cancelTask (.subscribe, tid) with subTask := none } : Stack)
      | none => ({ s with alive := false, subLost := !b } : Stack)) := by
    split
    · exact ld_cancelTask ({ s with alive := false, subLost := !b } : Stack) _ hi
    · exact hi
  split
  · exact ld_foldl _ (fun X p hX => ld_callSoon X _ hX) _ _ h1
  · exact h1
theorem ld_stepSubscribe (s : Stack) (tid : Tid) (t : TaskSt) (hi : LD s) : LD (s.stepSubscribe tid t) := by
  unfold stepSubscribe
  simp only []
  have key : ∀ st : Stack, LD st → LD (List.foldl (fun s p => s.sendSubscribe s.tm.subscribeTtl p.1 p.2) st (groupEntries st.subEntries)) :=
    fun st h => ld_foldl _ (fun X p hX => ld_sendSubscribe _ _ _ _ hX) _ _ h
  split
  · split
    · exact hi
    · split
      · exact key _ hi
      · exact ld_sleepFor _ _ _ _ _ (key _ hi)
  · split
    · exact hi
    · split
      · exact key _ hi
      · exact ld_sleepFor _ _ _ _ _ (key _ hi)
  · exact hi

theorem ld_listenerOffered (s : Stack) (l : Listener) (k : SvcKey) (a : Addr) (hi : LD s) : LD (s.listenerOffered l k a) := by
  unfold listenerOffered; split; exact hi; split; exact hi; exact ld_subscribeEventgroup _ _ _ hi
theorem ld_listenerStopped (s : Stack) (l : Listener) (k : SvcKey) (a : Addr) (hi : LD s) : LD (s.listenerStopped l k a) := by
  unfold listenerStopped; split; exact hi; split; exact hi; exact ld_stopSubscribeEventgroup _ _ _ _ hi
theorem ld_notifyService (s : Stack) (b : Bool) (k : SvcKey) (a : Addr) (hi : LD s) : LD (s.notifyService b k a) := by
  unfold notifyService
  simp only []
  have hf : ∀ (X : Stack) (l : Listener), LD X → LD (if b = true then X.listenerOffered l k a else X.listenerStopped l k a) := by
    intro X l hX; split
    · exact ld_listenerOffered _ _ _ _ hX
    · exact ld_listenerStopped _ _ _ _ hX
  apply ld_foldl _ (fun X id hX => hf X (.ext id) hX)
  apply ld_foldl
  · intro X p hX
    split
    · exact ld_foldl _ (fun Y l hY => hf Y l hY) _ _ hX
    · exact hX
  · exact hi
theorem ld_foundStop (s : Stack) (a : Addr) (k : SvcKey) (hi : LD s) : LD (s.foundStop a k) := by
  unfold foundStop; simp only []; split
  · exact hi
  · exact ld_notifyService _ _ _ _ (ld_cancelTimer _ _ _ hi)
theorem ld_foundRefresh (s : Stack) (ttl : Nat) (a : Addr) (k : SvcKey) (hi : LD s) : LD (s.foundRefresh ttl a k) := by
  unfold foundRefresh; simp only []
  apply ld_same_loop (s := _) rfl
  apply ld_armTtl
  split
  · exact ld_cancelTimer _ _ _ hi
  · exact ld_notifyService _ _ _ _ hi
theorem ld_handleOffer (s : Stack) (e : SDEntry) (a : Addr) (hi : LD s) : LD (s.handleOffer e a) := by
  unfold handleOffer; simp only []
  split
  · split
    · exact ld_foundStop _ _ _ hi
    · exact hi
  · split
    · exact ld_foundStop _ _ _ hi
    · exact ld_foundRefresh _ _ _ _ hi
theorem ld_foundStopAllFor (s : Stack) (a : Addr) (hi : LD s) : LD (s.foundStopAllFor a) := by
  unfold foundStopAllFor; simp only []
  exact ld_foldl _ (fun X e hX => ld_notifyService _ _ _ _ (ld_cancelTimer _ _ _ hX)) _ _ hi
theorem ld_foundStopAll (s : Stack) (hi : LD s) : LD s.foundStopAll := by
  unfold foundStopAll; simp only []
  exact ld_same_loop (s := _) rfl (ld_foldl _ (fun X p hX => ld_foundStopAllFor X p.1 hX) _ _ hi)
theorem ld_expiredSvc (s : Stack) (a : Addr) (k : SvcKey) (hi : LD s) : LD (s.expiredSvc a k) := by
  unfold expiredSvc; simp only []; split
  · exact hi
  · exact ld_notifyService _ _ _ _ hi
theorem ld_replay (s : Stack) (b : Bool) (f : Option Service) (l : Listener) (hi : LD s) : LD (s.replay b f l) := by
  unfold replay
  apply ld_foldl _ _ _ _ hi
  intro X p hX
  simp only []
  repeat' split
  all_goals first | exact hX | exact ld_listenerOffered _ _ _ _ hX | exact ld_listenerStopped _ _ _ _ hX
theorem ld_watchService (s : Stack) (f : Service) (l : Listener) (hi : LD s) : LD (s.watchService f l) := by
  unfold watchService; simp only []; exact ld_replay _ _ _ _ hi
theorem ld_stopWatchService (s : Stack) (f : Service) (l : Listener) (hi : LD s) : LD (s.stopWatchService f l) := by
  unfold stopWatchService; simp only []; split
  · exact hi
  · exact ld_replay _ _ _ _ hi
theorem ld_watchAllServices (s : Stack) (id : LId) (hi : LD s) : LD (s.watchAllServices id) := by
  unfold watchAllServices; exact ld_replay _ _ _ _ hi
theorem ld_stopWatchAllServices (s : Stack) (id : LId) (hi : LD s) : LD (s.stopWatchAllServices id) := by
  unfold stopWatchAllServices; split
  · exact hi
  · exact ld_replay _ _ _ _ hi
theorem ld_stepFind (s : Stack) (tid : Tid) (t : TaskSt) (hi : LD s) : LD (s.stepFind tid t) := by
  unfold stepFind; simp only []
  have hafter : ∀ (X : Stack) (k : Nat), LD X → LD (if k < X.tm.repetitionsMax then X.sleepFor tid t (pow2 k * X.tm.repetitionsBaseDelay) (.rep k) else X.finish tid t) := by
    intro X k hX; split
    · exact ld_sleepFor _ _ _ _ _ hX
    · exact hX
  have hround : ∀ (X : Stack) (k : Nat), LD X → LD (if X.findEntries.isEmpty = true then X.finish tid t
      else (if k < (({ X with findLog := X.findLog ++ [(tid.2, k)] } : Stack).sendSd X.findEntries none).tm.repetitionsMax
        then (({ X with findLog := X.findLog ++ [(tid.2, k)] } : Stack).sendSd X.findEntries none).sleepFor tid t
          (pow2 k * (({ X with findLog := X.findLog ++ [(tid.2, k)] } : Stack).sendSd X.findEntries none).tm.repetitionsBaseDelay) (.rep k)
        else (({ X with findLog := X.findLog ++ [(tid.2, k)] } : Stack).sendSd X.findEntries none).finish tid t)) := by
    intro X k hX
    split
    · exact hX
    · exact hafter _ _ (ld_sendSd ({ X with findLog := X.findLog ++ [(tid.2, k)] } : Stack) _ _ hX)
  split
  · split
    · exact hi
    · split
      · exact hi
      · exact ld_sleepFor _ _ _ _ _ (ld_draw _ _ _ hi)
  · split
    · exact hi
    · exact hround _ _ hi
  · split
    · exact hi
    · exact hround _ _ hi
  · exact hi
theorem ld_discoveryStart (s : Stack) (hi : LD s) : LD s.discoveryStart := by
  rcases discoveryStart_cases s with h | ⟨_, h⟩
  · rw [h]; exact hi
  · rw [h]; exact hi
theorem ld_discoveryStop (s : Stack) (hi : LD s) : LD s.discoveryStop := by
  unfold discoveryStop; split
  · exact ld_cancelTask _ _ hi
  · exact hi
theorem ld_rebootDetected (s : Stack) (a : Addr) (hi : LD s) : LD (s.rebootDetected a) := by
  unfold rebootDetected; exact ld_announcerReboot _ _ (ld_foundStopAllFor _ _ hi)

theorem ld_sdMessageReceived (s : Stack) (m : SDHeader) (a : Addr) (mc : Bool) (hi : LD s) : LD (s.sdMessageReceived m a mc) := by
  unfold sdMessageReceived
  split
  · exact hi
  · refine ld_foldl _ (fun X e h => ?_) _ _ hi
    split
    · exact ld_handleOffer _ _ _ h
    · exact h
    · exact ld_handleFind _ _ _ _ h
    · split
      · exact h
      · exact ld_handleSubscribe _ _ _ h
theorem ld_messageReceived (s : Stack) (h : Header) (a : Addr) (mc : Bool) (hi : LD s) : LD (s.messageReceived h a mc) := by
  unfold messageReceived
  split
  · exact hi
  · split
    · exact hi
    · rename_i m r hpar
      simp only []
      have h1 : LD (if (checkReceived s.incoming a mc m.flagReboot h.sess).1 = true
          then ({ s with incoming := (checkReceived s.incoming a mc m.flagReboot h.sess).2 } : Stack).rebootDetected a
          else ({ s with incoming := (checkReceived s.incoming a mc m.flagReboot h.sess).2 } : Stack)) := by
        split
        · exact ld_rebootDetected ({ s with incoming := (checkReceived s.incoming a mc m.flagReboot h.sess).2 } : Stack) _ hi
        · exact hi
      split
      · exact h1
      · exact ld_sdMessageReceived _ _ _ _ h1
theorem ld_datagramReceived (s : Stack) (b : Bytes) (a : Addr) (mc : Bool) (hi : LD s) : LD (s.datagramReceived b a mc) := by
  unfold datagramReceived
  exact ld_foldl _ (fun X h hh => ld_messageReceived X h a mc hh) _ _ hi

theorem ld_applyInput (s : Stack) (x : Input) (hi : LD s) : LD (s.applyInput x) := by
  cases x with
  | dgram a mc b => exact ld_datagramReceived s b a mc hi
  | start =>
    show LD (((s.subscriberStart).announcerStart).discoveryStart)
    exact ld_discoveryStart _ (ld_announcerStart _ (ld_subscriberStart _ hi))
  | stop =>
    show LD (((s.discoveryStop).announcerStop).subscriberStop true)
    exact ld_subscriberStop _ _ (ld_announcerStop _ (ld_discoveryStop _ hi))
  | connLost => exact hi
  | watch f l => exact ld_watchService s f l hi
  | unwatch f l => exact ld_stopWatchService s f l hi
  | watchAll id => exact ld_watchAllServices s id hi
  | unwatchAll id => exact ld_stopWatchAllServices s id hi
  | subscribe g d => exact ld_subscribeEventgroup s g d hi
  | stopSubscribe g d => exact ld_stopSubscribeEventgroup s g d true hi
  | announce i => exact ld_announceService s i hi
  | stopAnnounce i b => exact ld_stopAnnounceService s i b hi
  | setNak i egs =>
    simp only [applyInput]
    split <;> exact hi
  | draws ds => exact hi
  | announcerStop => exact ld_announcerStop s hi
  | announcerStart => exact ld_announcerStart s hi

theorem ld_runCb (s : Stack) (cb : Cb) (hi : LD s) : LD (s.runCb cb) := by
  cases cb with
  | connLost p =>
    cases p with
    | subscriber => exact ld_subscriberStop s false hi
    | discovery => exact ld_foundStopAll s hi
    | announcer => exact ld_announcerStop s hi
  | expiredSvc a k => exact ld_expiredSvc s a k hi
  | expiredSub i a k => exact ld_expiredSub s i a k hi
  | sendStartSubscribe d egs => exact ld_sendSubscribe s _ d egs hi
  | sendStopSubscribe d egs => exact ld_sendSubscribe s _ d egs hi
  | sendOfferTo i a => exact ld_sendOffer s i _ _ hi
  | collectorTimeout cid => exact ld_collectorTimeout s cid hi
  | sleepDone tid => exact ld_sleepDone s tid hi
  | taskStep tid =>
    simp only [runCb]
    split
    · exact hi
    · split
      · exact hi
      · split
        · exact ld_stepOffer _ _ _ _ (ld_cancelTimer _ _ _ hi)
        · exact ld_stepFind _ _ _ (ld_cancelTimer _ _ _ hi)
        · exact ld_stepSubscribe _ _ _ (ld_cancelTimer _ _ _ hi)

/-- ONE EVENT of the loop model keeps every pending timer in the future -/
theorem ld_step (s s' : Stack) (e : Event) (h : s.step e = some s') (hi : LD s) : LD s' := by
  cases e with
  | input x => simp only [step, Option.some.injEq] at h; subst h; exact ld_applyInput s x hi
  | run =>
    simp only [step, Loop.pop] at h
    cases hr : s.loop.ready with
    | nil => rw [hr] at h; cases h
    | cons r rest =>
      rw [hr] at h
      simp only [Option.some.injEq] at h
      subst h
      exact ld_runCb _ _ hi
  | fire q =>
    simp only [step] at h
    cases hf : s.loop.fire q with
    | none => rw [hf] at h; cases h
    | some l =>
      rw [hf] at h; simp at h; subst h
      unfold Loop.fire at hf
      split at hf
      · cases hf
      · split at hf
        · simp only [Option.some.injEq] at hf; subst hf
          intro t ht
          exact hi t (List.mem_of_mem_eraseP ht)
        · cases hf
  | adv t =>
    simp only [step] at h
    cases hf : s.loop.adv t with
    | none => rw [hf] at h; cases h
    | some l =>
      rw [hf] at h; simp at h; subst h
      unfold Loop.adv at hf
      split at hf
      · rename_i hg
        simp only [Option.some.injEq] at hf; subst hf
        intro x hx
        have := hg.2.2
        simp only [List.all_eq_true, decide_eq_true_eq] at this
        exact this x hx
      · cases hf

end Stack
end Someip
