/-
  C10, the timing of the phases: the invariant `OT`, together with `OffInv`, `OL`, the loop discipline `LD` and `NT`, through
  inputs, callbacks and loop steps.
-/
import SomeipModel.Lemmas.OTSteps
import SomeipModel.Lemmas.NTInv
import SomeipModel.Lemmas.OQSteps
namespace Someip
namespace Stack
set_option linter.unusedSimpArgs false
set_option linter.unusedVariables false

@[simp] theorem oci_sdMessageReceived (s : Stack) (m : SDHeader) (a : Addr) (mc : Bool) :
    oci (s.sdMessageReceived m a mc) = oci s := by
  unfold sdMessageReceived; split; rfl
  rw [foldl_pres oci _ (fun s e => by frame_cases)]

@[simp] theorem oci_messageReceived (s : Stack) (h : Header) (a : Addr) (mc : Bool) : oci (s.messageReceived h a mc) = oci s := by
  unfold messageReceived
  split; rfl
  split; rfl
  simp only []
  split
  · split <;> simp <;> rfl
  · split <;> simp <;> rfl

@[simp] theorem oci_datagramReceived (s : Stack) (b : Bytes) (a : Addr) (mc : Bool) : oci (s.datagramReceived b a mc) = oci s := by
  unfold datagramReceived; rw [foldl_pres oci _ (fun s h => by simp)]

/-- the three invariants that the announcer functions need together -/
def OT3 (s : Stack) : Prop := OffInv s ∧ OL s ∧ OT s

theorem ot3_frame {s s' : Stack} (h1 : opi s' = opi s) (h2 : base s' = base s) (h3 : lgi s' = lgi s) (h4 : oci s' = oci s)
    (hi : OT3 s) : OT3 s' :=
  ⟨offinv_frame h1 hi.1, ol_frame h1 h2 h3 hi.2.1, ot_frame h1 h2 h3 h4 hi.2.2⟩

theorem ot3_foldl {α : Type} (f : Stack → α → Stack) (h : ∀ s a, OT3 s → OT3 (f s a)) (l : List α) (s : Stack)
    (hi : OT3 s) : OT3 (l.foldl f s) := by
  induction l generalizing s with
  | nil => exact hi
  | cons a t ih => rw [List.foldl_cons]; exact ih _ (h s a hi)

theorem ot3_instStart (s : Stack) (i : Nat) (hi : OT3 s) : OT3 (s.instStart i) :=
  ⟨offinv_instStart s i hi.1, ol_instStart s i hi.2.1 hi.1, ot_instStart s i hi.2.2 hi.1⟩
theorem ot3_instStop (s : Stack) (i : Nat) (hi : OT3 s) : OT3 (s.instStop i) :=
  ⟨offinv_instStop s i hi.1, ol_instStop s i hi.2.1 hi.1, ot_instStop s i hi.2.2 hi.1 hi.2.1⟩

theorem ot3_announcerStart (s : Stack) (hi : OT3 s) : OT3 s.announcerStart := by
  unfold announcerStart; simp only []
  exact ot3_frame (opi_with_started _ _) (base_with_started _ _) rfl rfl (ot3_foldl _ (fun s i h => ot3_instStart s i h) _ _ hi)

theorem ot3_announcerStop (s : Stack) (hi : OT3 s) : OT3 s.announcerStop := by
  unfold announcerStop
  split
  · exact hi
  · show OT3 { (List.foldl (fun s i => s.instStop i) s s.announceOrder) with started := false }
    exact ot3_frame (opi_with_started _ _) (base_with_started _ _) rfl rfl (ot3_foldl _ (fun s i h => ot3_instStop s i h) _ _ hi)

theorem ot3_announceService (s : Stack) (i : Nat) (hi : OT3 s) : OT3 (s.announceService i) := by
  unfold announceService; simp only []
  apply ot3_frame (opi_with_announceOrder _ _) (base_with_announceOrder _ _) rfl rfl
  split
  · exact ot3_instStart s i hi
  · exact hi

theorem ot3_stopAnnounceService (s : Stack) (i : Nat) (b : Bool) (hi : OT3 s) : OT3 (s.stopAnnounceService i b) := by
  unfold stopAnnounceService
  split
  · exact ot3_frame (opi_emit _ _) (base_emit _ _) (lgi_emit _ _) (oci_emit _ _) hi
  · simp only []
    split
    · exact ot3_instStop _ _ (ot3_frame (opi_with_announceOrder _ _) (base_with_announceOrder _ _) rfl rfl hi)
    · exact ot3_frame (opi_with_announceOrder _ _) (base_with_announceOrder _ _) rfl rfl hi

theorem ot3_applyInput (s : Stack) (x : Input) (hi : OT3 s) : OT3 (s.applyInput x) := by
  cases x with
  | dgram a mc b => exact ot3_frame (opi_datagramReceived s b a mc) (base_datagramReceived s b a mc) (lgi_datagramReceived s b a mc) (oci_datagramReceived s b a mc) hi
  | start =>
    show OT3 (((s.subscriberStart).announcerStart).discoveryStart)
    exact ot3_frame (opi_discoveryStart _) (base_discoveryStart _) (lgi_discoveryStart _) (oci_discoveryStart _)
      (ot3_announcerStart _ (ot3_frame (opi_subscriberStart _) (base_subscriberStart _) (lgi_subscriberStart _) (oci_subscriberStart _) hi))
  | stop =>
    show OT3 (((s.discoveryStop).announcerStop).subscriberStop true)
    exact ot3_frame (opi_subscriberStop _ _) (base_subscriberStop _ _) (lgi_subscriberStop _ _) (oci_subscriberStop _ _)
      (ot3_announcerStop _ (ot3_frame (opi_discoveryStop _) (base_discoveryStop _) (lgi_discoveryStop _) (oci_discoveryStop _) hi))
  | connLost => exact ot3_frame (opi_connectionLost s) (base_connectionLost s) (lgi_connectionLost s) (oci_connectionLost s) hi
  | watch f l => exact ot3_frame (opi_watchService s f l) (base_watchService s f l) (lgi_watchService s f l) (oci_watchService s f l) hi
  | unwatch f l => exact ot3_frame (opi_stopWatchService s f l) (base_stopWatchService s f l) (lgi_stopWatchService s f l) (oci_stopWatchService s f l) hi
  | watchAll id => exact ot3_frame (opi_watchAllServices s id) (base_watchAllServices s id) (lgi_watchAllServices s id) (oci_watchAllServices s id) hi
  | unwatchAll id => exact ot3_frame (opi_stopWatchAllServices s id) (base_stopWatchAllServices s id) (lgi_stopWatchAllServices s id) (oci_stopWatchAllServices s id) hi
  | subscribe g d => exact ot3_frame (opi_subscribeEventgroup s g d) (base_subscribeEventgroup s g d) (lgi_subscribeEventgroup s g d) (oci_subscribeEventgroup s g d) hi
  | stopSubscribe g d => exact ot3_frame (opi_stopSubscribeEventgroup s g d true) (base_stopSubscribeEventgroup s g d true) (lgi_stopSubscribeEventgroup s g d true) (oci_stopSubscribeEventgroup s g d true) hi
  | announce i => exact ot3_announceService s i hi
  | stopAnnounce i b => exact ot3_stopAnnounceService s i b hi
  | setNak i egs =>
    simp only [applyInput]
    split
    · rename_i x hx
      exact ot3_frame (by refine opi_setInst_keep s i x _ hx ?_ ?_ <;> rfl) (base_setInst _ _ _) (lgi_setInst _ _ _) (oci_setInst _ _ _) hi
    · exact hi
  | draws ds => exact ot3_frame (s := s) (s' := { s with draws := s.draws ++ ds }) rfl rfl rfl rfl hi
  | announcerStop => exact ot3_announcerStop s hi
  | announcerStart => exact ot3_announcerStart s hi

theorem oci_pop_other (s : Stack) (q : Option Nat) (cb : Cb) (rest : List (RItem Cb)) (hr : s.loop.ready = ⟨q, cb⟩ :: rest)
    (hcb : isOCb cb = false) : oci ({ s with loop := { s.loop with ready := rest } } : Stack) = oci s := by
  simp [oci, hr, List.filter_cons, hcb]

/-- a callback is taken off the ready queue and runs -/
theorem ot3_run (s : Stack) (q : Option Nat) (cb : Cb) (rest : List (RItem Cb)) (hr : s.loop.ready = ⟨q, cb⟩ :: rest) (hi : OT3 s) :
    OT3 (({ s with loop := { s.loop with ready := rest } } : Stack).runCb cb) := by
  have h12 : OffInv (({ s with loop := { s.loop with ready := rest } } : Stack).runCb cb) ∧ OL (({ s with loop := { s.loop with ready := rest } } : Stack).runCb cb) :=
    olp_runCb _ cb (olp_frame (s := s) rfl rfl rfl ⟨hi.1, hi.2.1⟩)
  refine ⟨h12.1, h12.2, ?_⟩
  have hother : isOCb cb = false → OT3 ({ s with loop := { s.loop with ready := rest } } : Stack) :=
    fun hcb => ot3_frame (s := s) rfl rfl rfl (oci_pop_other s q cb rest hr hcb) hi
  cases cb with
  | connLost p =>
    cases p with
    | subscriber => exact (ot3_frame (opi_subscriberStop _ false) (base_subscriberStop _ false) (lgi_subscriberStop _ false) (oci_subscriberStop _ false) (hother rfl)).2.2
    | discovery => exact (ot3_frame (opi_foundStopAll _) (base_foundStopAll _) (lgi_foundStopAll _) (oci_foundStopAll _) (hother rfl)).2.2
    | announcer => exact (ot3_announcerStop _ (hother rfl)).2.2
  | expiredSvc a k => exact (ot3_frame (opi_expiredSvc _ a k) (base_expiredSvc _ a k) (lgi_expiredSvc _ a k) (oci_expiredSvc _ a k) (hother rfl)).2.2
  | expiredSub i a k => exact (ot3_frame (opi_expiredSub _ i a k) (base_expiredSub _ i a k) (lgi_expiredSub _ i a k) (oci_expiredSub _ i a k) (hother rfl)).2.2
  | sendStartSubscribe d egs => exact (ot3_frame (opi_sendSubscribe _ _ d egs) (base_sendSubscribe _ _ d egs) (lgi_sendSubscribe _ _ d egs) (oci_sendSubscribe _ _ d egs) (hother rfl)).2.2
  | sendStopSubscribe d egs => exact (ot3_frame (opi_sendSubscribe _ _ d egs) (base_sendSubscribe _ _ d egs) (lgi_sendSubscribe _ _ d egs) (oci_sendSubscribe _ _ d egs) (hother rfl)).2.2
  | sendOfferTo i a => exact ot_sendOffer_remote _ i a (hother rfl).2.2
  | collectorTimeout cid => exact (ot3_frame (opi_collectorTimeout _ cid) (base_collectorTimeout _ cid) (lgi_collectorTimeout _ cid) (oci_collectorTimeout _ cid) (hother rfl)).2.2
  | sleepDone tid =>
    obtain ⟨k, m⟩ := tid
    cases k with
    | offer i => exact ot_pop_sleepDone s q i m rest hr hi.2.2 hi.2.1
    | find => exact (ot3_frame (opi_sleepDone _ _ rfl) (base_sleepDone _ _) (lgi_sleepDone _ _) (oci_sleepDone _ _ rfl) (hother rfl)).2.2
    | subscribe => exact (ot3_frame (opi_sleepDone _ _ rfl) (base_sleepDone _ _) (lgi_sleepDone _ _) (oci_sleepDone _ _ rfl) (hother rfl)).2.2
  | taskStep tid =>
    obtain ⟨k, m⟩ := tid
    cases k with
    | offer i => exact ot_pop_step s q i m rest hr hi.2.2 hi.1 hi.2.1
    | find =>
      have h0 := (hother rfl).2.2
      simp only [runCb]
      split
      · exact h0
      · split
        · exact h0
        · exact ot_frame ((opi_stepFind _ _ _ rfl).trans (opi_cancelTimer _ _ _)) ((base_stepFind _ _ _).trans (base_cancelTimer _ _ _))
            ((lgi_stepFind _ _ _).trans (lgi_cancelTimer _ _ _)) ((oci_stepFind _ _ _ rfl).trans (oci_cancelTimer_sleep _ _ _ rfl)) h0
    | subscribe =>
      have h0 := (hother rfl).2.2
      simp only [runCb]
      split
      · exact h0
      · split
        · exact h0
        · exact ot_frame ((opi_stepSubscribe _ _ _ rfl).trans (opi_cancelTimer _ _ _)) ((base_stepSubscribe _ _ _).trans (base_cancelTimer _ _ _))
            ((lgi_stepSubscribe _ _ _).trans (lgi_cancelTimer _ _ _)) ((oci_stepSubscribe _ _ _ rfl).trans (oci_cancelTimer_sleep _ _ _ rfl)) h0

/-! ### timer events -/

theorem filter_eraseP_of_false {α : Type} (p f : α → Bool) (l : List α) (x : α) (hfind : l.find? p = some x) (hf : f x = false) :
    (l.eraseP p).filter f = l.filter f := by
  induction l with
  | nil => cases hfind
  | cons a r ih =>
    cases hp : p a
    · rw [List.find?_cons_of_neg (by simp [hp])] at hfind
      rw [List.eraseP_cons_of_neg (by simp [hp]), List.filter_cons, List.filter_cons, ih hfind]
    · rw [List.find?_cons_of_pos (by simp [hp])] at hfind
      cases hfind
      rw [List.eraseP_cons_of_pos (by simp [hp]), List.filter_cons, hf]; simp

theorem filter_eraseP_of_true {α : Type} (p f : α → Bool) (l : List α) (x : α) (hfind : l.find? p = some x) (hf : f x = true) :
    ((l.eraseP p).filter f).length + 1 = (l.filter f).length ∧ ∀ y ∈ (l.eraseP p).filter f, y ∈ l.filter f := by
  induction l with
  | nil => cases hfind
  | cons a r ih =>
    cases hp : p a
    · rw [List.find?_cons_of_neg (by simp [hp])] at hfind
      rw [List.eraseP_cons_of_neg (by simp [hp])]
      obtain ⟨h1, h2⟩ := ih hfind
      simp only [List.filter_cons]
      cases hfa : f a
      · simp only [Bool.false_eq_true, if_false]; exact ⟨h1, h2⟩
      · simp only [if_true, List.length_cons]
        refine ⟨by omega, ?_⟩
        intro y hy
        rcases List.mem_cons.mp hy with rfl | hy
        · exact List.mem_cons_self
        · exact List.mem_cons_of_mem _ (h2 y hy)
    · rw [List.find?_cons_of_pos (by simp [hp])] at hfind
      cases hfind
      rw [List.eraseP_cons_of_pos (by simp [hp]), List.filter_cons, hf]
      simp only [if_true, List.length_cons]
      exact ⟨by simp, fun y hy => List.mem_cons_of_mem _ hy⟩

theorem isOStepOf_of_not_step {j m : Nat} {cb : Cb} (h : isTaskStep cb = false) : isOStepOf j m cb = false := by
  cases cb <;> simp_all [isTaskStep, isOStepOf]

/-- a due handle fires: the loop discipline makes the clock read exactly its deadline -/
def firedStack (s : Stack) (qn : Nat) (x : Timer Cb) : Stack :=
  { s with loop := { s.loop with timers := s.loop.timers.eraseP (fun t => decide (t.seq = qn)), ready := s.loop.ready ++ [⟨some qn, x.cb⟩] } }

theorem ot_fire (s : Stack) (qn : Nat) (x : Timer Cb) (hfind : s.loop.timers.find? (fun t => decide (t.seq = qn)) = some x)
    (hdue : x.deadline ≤ s.loop.now) (hi : OT s) (hld : LD s) (hnt : NT s) : OT (firedStack s qn x) := by
  have hxm : x ∈ s.loop.timers := List.mem_of_find?_eq_some hfind
  have hnow : s.loop.now = x.deadline := Nat.le_antisymm (hld x hxm) hdue
  have hxs : isTaskStep x.cb = false := hnt x hxm
  generalize hR : firedStack s qn x = R
  have hnS : ∀ j m, nS R j m = nS s j m := by
    intro j m; rw [← hR]
    simp only [firedStack, nS, List.filter_append, List.length_append, List.filter_cons, List.filter_nil]
    rw [isOStepOf_of_not_step hxs]; simp
  have hnWR : ∀ j m, nWR R j m = nWR s j m + (if isSleepFor (.offer j, m) x.cb then 1 else 0) := by
    intro j m; rw [← hR]
    simp only [firedStack, nWR, List.filter_append, List.length_append, List.filter_cons, List.filter_nil]
    split <;> simp
  have hwT0 : ∀ j m, isSleepFor (.offer j, m) x.cb = false → wT R j m = wT s j m := by
    intro j m h; rw [← hR]
    exact filter_eraseP_of_false _ _ _ x hfind h
  have hwT1 : ∀ j m, isSleepFor (.offer j, m) x.cb = true →
      (wT R j m).length + 1 = (wT s j m).length ∧ (∀ y ∈ wT R j m, y ∈ wT s j m) ∧ x ∈ wT s j m := by
    intro j m h; rw [← hR]
    obtain ⟨h1, h2⟩ := filter_eraseP_of_true (fun t => decide (t.seq = qn)) (fun t => isSleepFor (.offer j, m) t.cb) _ x hfind h
    exact ⟨h1, h2, List.mem_filter.mpr ⟨hxm, h⟩⟩
  have hv : lview R = lview s := by rw [← hR]; rfl
  have htm : R.tm = s.tm := by rw [← hR]; rfl
  have hnowR : R.loop.now = s.loop.now := by rw [← hR]; rfl
  refine ⟨?_, ?_⟩
  · intro i n hn
    rw [hv] at hn ⊢
    obtain ⟨t, ht, hrest⟩ := hi.own i n hn
    refine ⟨t, ht, ?_⟩
    intro hpc
    obtain ⟨A, B, hA, hS, hP⟩ := hrest hpc
    refine ⟨A, B, hA, by rw [htm]; exact hS, ?_⟩
    unfold Pend at hP ⊢
    rw [hnS, hnWR, hnowR]
    cases hx : isSleepFor (.offer i, n) x.cb
    · rw [hwT0 i n hx]; simpa using hP
    · obtain ⟨w1, w2, w3⟩ := hwT1 i n hx
      cases hw : t.waiting
      · rw [hw] at hP; simp only [Bool.false_eq_true, if_false] at hP
        have : wT s i n = [] := List.length_eq_zero_iff.mp hP.2.1
        rw [this] at w3; cases w3
      · rw [hw] at hP; simp only [if_true] at hP ⊢
        obtain ⟨p1, p2, p3, p4⟩ := hP
        refine ⟨p1, by omega, fun y hy => p3 y (w2 y hy), ?_⟩
        intro _
        rw [hnow]; exact p3 x w3
  · intro i m hm
    rw [hv] at hm
    obtain ⟨f1, f2, f3⟩ := hi.fresh i m hm
    have hx : isSleepFor (.offer i, m) x.cb = false := by
      cases h : isSleepFor (.offer i, m) x.cb
      · rfl
      · have := (hwT1 i m h).2.2
        rw [f3] at this; cases this
    rw [hnS, hnWR, hx, hwT0 i m hx]
    exact ⟨f1, by simpa using f2, f3⟩

/-- the clock moves (at an idle loop only) -/
theorem ot_adv (s : Stack) (t' : Nat) (hempty : s.loop.ready = []) (hi : OT s) :
    OT ({ s with loop := { s.loop with now := t' } } : Stack) := by
  have hcnt : ∀ j m, nS ({ s with loop := { s.loop with now := t' } } : Stack) j m = nS s j m ∧
      nWR ({ s with loop := { s.loop with now := t' } } : Stack) j m = nWR s j m ∧ wT ({ s with loop := { s.loop with now := t' } } : Stack) j m = wT s j m :=
    fun j m => ⟨rfl, rfl, rfl⟩
  have h0 : ∀ j m, nS s j m = 0 ∧ nWR s j m = 0 := by
    intro j m; simp [nS, nWR, hempty]
  refine ⟨?_, ?_⟩
  · intro i n hn
    obtain ⟨t, ht, hrest⟩ := hi.own i n hn
    refine ⟨t, ht, ?_⟩
    intro hpc
    obtain ⟨A, B, hA, hS, hP⟩ := hrest hpc
    refine ⟨A, B, hA, hS, ?_⟩
    unfold Pend at hP ⊢
    obtain ⟨c1, c2, c3⟩ := hcnt i n
    rw [c1, c2, c3]
    cases hw : t.waiting
    · rw [hw] at hP; simp only [Bool.false_eq_true, if_false] at hP
      have := (h0 i n).1; omega
    · rw [hw] at hP; simp only [if_true] at hP ⊢
      obtain ⟨p1, p2, p3, _⟩ := hP
      exact ⟨p1, p2, p3, fun h => absurd (h0 i n).2 h⟩
  · intro i m hm
    exact hi.fresh i m hm

/-- all five invariants together -/
def OTP (s : Stack) : Prop := OT3 s ∧ LD s ∧ NT s

theorem otp_step (s s' : Stack) (e : Event) (h : s.step e = some s') (hi : OTP s) : OTP s' := by
  have h12 : OffInv s' ∧ OL s' := olp_step s s' e h ⟨hi.1.1, hi.1.2.1⟩
  refine ⟨⟨h12.1, h12.2, ?_⟩, ld_step s s' e h hi.2.1, nt_step s s' e h hi.2.2⟩
  cases e with
  | input x => simp only [step, Option.some.injEq] at h; subst h; exact (ot3_applyInput s x hi.1).2.2
  | run =>
    simp only [step, Loop.pop] at h
    cases hr : s.loop.ready with
    | nil => rw [hr] at h; cases h
    | cons r0 rest =>
      rw [hr] at h
      simp only [Option.some.injEq] at h
      subst h
      obtain ⟨q, cb⟩ := r0
      exact (ot3_run s q cb rest hr hi.1).2.2
  | fire q =>
    simp only [step] at h
    cases hf : s.loop.fire q with
    | none => rw [hf] at h; cases h
    | some l =>
      rw [hf] at h; simp at h; subst h
      unfold Loop.fire at hf
      split at hf
      · cases hf
      · rename_i x hfind
        split at hf
        · rename_i hdue
          simp only [Option.some.injEq] at hf; subst hf
          exact ot_fire s q x hfind hdue hi.1.2.2 hi.2.1 hi.2.2
        · cases hf
  | adv t =>
    simp only [step] at h
    cases hf : s.loop.adv t with
    | none => rw [hf] at h; cases h
    | some l =>
      rw [hf] at h; simp at h; subst h
      unfold Loop.adv at hf
      split at hf
      · rename_i hg
        simp only [Option.some.injEq] at hf; subst hf
        exact ot_adv s t (by simpa using hg.1) hi.1.2.2
      · cases hf

end Stack
end Someip
