namespace Someip

/-- `(a << 16) | b = a * 65536 + b` when `b` fits 16 bits -/
theorem lor_shift16 (a b : Nat) (hb : b < 65536) : a * 65536 ||| b = a * 65536 + b := by
  have h1 : a * 65536 = a <<< 16 := by simp [Nat.shiftLeft_eq]
  have h2 : b < 2 ^ 16 := by simpa using hb
  rw [h1, Nat.shiftLeft_add_eq_or_of_lt h2]

end Someip
