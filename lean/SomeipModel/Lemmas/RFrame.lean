/-
  Frame lemmas for the refresh loop of the subscriber (C14, last clause): the running flag, the task reference, the refresh
  interval, the clock, the subscriber's tasks and their step / wake-up callbacks (in the ready queue and among the timers)
  are touched by nothing outside ServiceSubscriber.start / stop, the subscribe task and the loop itself.
  Same scripts as MirFrame.lean / FindFrame.lean (other projection).
-/
import SomeipModel.Lemmas.MirSteps
namespace Someip
namespace Stack
set_option linter.unusedSimpArgs false

/-- step and wake-up callbacks of subscribe tasks -/
def isRCb : Cb → Bool
  | .taskStep (.subscribe, _) => true
  | .sleepDone (.subscribe, _) => true
  | _ => false

/-- what the refresh-loop invariant depends on -/
def rpi (s : Stack) : List (Option Nat × Nat) × Bool × Option Nat × Option Nat × Nat × List (RItem Cb) × List (Timer Cb) × List (Tid × TaskSt) :=
  (s.subMarks, s.alive, s.subTask, s.tm.subscribeRefresh, s.loop.now,
   s.loop.ready.filter (fun r => isRCb r.cb), s.loop.timers.filter (fun t => isRCb t.cb), s.tasks.filter isSubT)

@[simp] theorem rpi_with_subEntries (s : Stack) (x : List (Eventgroup × Addr)) : rpi { s with subEntries := x } = rpi s := rfl
@[simp] theorem rpi_with_subLog (s : Stack) (x : List (Addr × Nat × List Eventgroup)) : rpi { s with subLog := x } = rpi s := rfl
@[simp] theorem rpi_with_subDup (s : Stack) (x : Bool) : rpi { s with subDup := x } = rpi s := rfl
@[simp] theorem rpi_with_subLost (s : Stack) (x : Bool) : rpi { s with subLost := x } = rpi s := rfl
@[simp] theorem rpi_with_subDup_subEntries (s : Stack) (x : Bool) (y : List (Eventgroup × Addr)) : rpi { s with subDup := x, subEntries := y } = rpi s := rfl
@[simp] theorem rpi_with_watched (s : Stack) (x : List (Service × List Listener)) : rpi { s with watched := x } = rpi s := rfl
@[simp] theorem rpi_with_watchAll (s : Stack) (x : List LId) : rpi { s with watchAll := x } = rpi s := rfl
@[simp] theorem rpi_with_findTask (s : Stack) (x : Option Nat) : rpi { s with findTask := x } = rpi s := rfl
@[simp] theorem rpi_with_started (s : Stack) (x : Bool) : rpi { s with started := x } = rpi s := rfl
@[simp] theorem rpi_with_announceOrder (s : Stack) (x : List Nat) : rpi { s with announceOrder := x } = rpi s := rfl
@[simp] theorem rpi_with_incoming (s : Stack) (x : Incoming) : rpi { s with incoming := x } = rpi s := rfl
@[simp] theorem rpi_with_draws (s : Stack) (x : List Nat) : rpi { s with draws := x } = rpi s := rfl
@[simp] theorem rpi_with_storeLog (s : Stack) (x : List (Bool × SvcKey × Addr)) : rpi { s with storeLog := x } = rpi s := rfl
@[simp] theorem rpi_with_refreshLog (s : Stack) (x : List (Addr × SvcKey × Nat × Nat)) : rpi { s with refreshLog := x } = rpi s := rfl
@[simp] theorem rpi_with_armLog (s : Stack) (x : List (Cb × Nat × Nat)) : rpi { s with armLog := x } = rpi s := rfl
@[simp] theorem rpi_with_found_refreshLog (s : Stack) (x : TStore SvcKey) (y : List (Addr × SvcKey × Nat × Nat)) : rpi { s with found := x, refreshLog := y } = rpi s := rfl
@[simp] theorem rpi_with_found (s : Stack) (x : TStore SvcKey) : rpi { s with found := x } = rpi s := rfl
@[simp] theorem rpi_with_found_storeLog (s : Stack) (x : TStore SvcKey) (y : List (Bool × SvcKey × Addr)) : rpi { s with found := x, storeLog := y } = rpi s := rfl
@[simp] theorem rpi_with_collectors (s : Stack) (x : List Collector) : rpi { s with collectors := x } = rpi s := rfl
@[simp] theorem rpi_with_nextCid (s : Stack) (x : Nat) : rpi { s with nextCid := x } = rpi s := rfl
@[simp] theorem rpi_with_outgoing (s : Stack) (x : Outgoing) : rpi { s with outgoing := x } = rpi s := rfl
@[simp] theorem rpi_with_sendLog (s : Stack) (x : List (Dest × (Bool × Nat))) : rpi { s with sendLog := x } = rpi s := rfl
@[simp] theorem rpi_with_outgoing_sendLog (s : Stack) (x : Outgoing) (y : List (Dest × (Bool × Nat))) : rpi { s with outgoing := x, sendLog := y } = rpi s := rfl
@[simp] theorem rpi_with_findLog (s : Stack) (x : List (Nat × Nat)) : rpi { s with findLog := x } = rpi s := rfl
@[simp] theorem rpi_with_findMarks (s : Stack) (x : List (Nat × Nat)) : rpi { s with findMarks := x } = rpi s := rfl
@[simp] theorem rpi_with_ansLog (s : Stack) (x : List (Nat × Addr × Nat × Nat)) : rpi { s with ansLog := x } = rpi s := rfl
@[simp] theorem rpi_with_lisLog (s : Stack) (x : List (LId × Bool × SvcKey × Addr)) : rpi { s with lisLog := x } = rpi s := rfl
@[simp] theorem rpi_logLis (s : Stack) (id : LId) (o : Bool) (k : SvcKey) (a : Addr) : rpi (s.logLis id o k a) = rpi s := rfl
@[simp] theorem rpi_with_lisDup (s : Stack) (x : Bool) : rpi { s with lisDup := x } = rpi s := rfl
@[simp] theorem rpi_markDup (s : Stack) (d : Bool) : rpi (s.markDup d) = rpi s := rfl
@[simp] theorem rpi_logAnswer (s : Stack) (i : Nat) (a : Addr) (d : Nat) : rpi (s.logAnswer i a d) = rpi s := rfl
@[simp] theorem rpi_markFind (s : Stack) (n : Nat) : rpi (s.markFind n) = rpi s := rfl
@[simp] theorem rpi_with_offLog (s : Stack) (x : List (Nat × OEv × Nat)) : rpi { s with offLog := x } = rpi s := rfl
@[simp] theorem rpi_logOffer (s : Stack) (i : Nat) (e : OEv) : rpi (s.logOffer i e) = rpi s := rfl
@[simp] theorem rpi_with_flushLog (s : Stack) (x : List (Dest × List SDEntry)) : rpi { s with flushLog := x } = rpi s := rfl
@[simp] theorem rpi_with_instances (s : Stack) (x : List Instance) : rpi { s with instances := x } = rpi s := rfl
@[simp] theorem rpi_with_outs (s : Stack) (x : List (Nat × Out)) : rpi { s with outs := x } = rpi s := rfl
@[simp] theorem rpi_with_coll_nextCid (s : Stack) (x : List Collector) (y : Nat) : rpi { s with collectors := x, nextCid := y } = rpi s := rfl

@[simp] theorem rpi_emit (s : Stack) (o : Out) : rpi (s.emit o) = rpi s := rfl

theorem rpi_callSoon (s : Stack) (cb : Cb) (h : isRCb cb = false) : rpi (s.callSoon cb) = rpi s := by
  simp [rpi, callSoon, Loop.callSoon, List.filter_append, h]
theorem rpi_callLater (s : Stack) (d : Nat) (cb : Cb) (h : isRCb cb = false) : rpi (s.callLater d cb).1 = rpi s := by
  simp [rpi, callLater, Loop.callLater, List.filter_append, h]

@[simp] theorem rpi_callSoon_connLost (s : Stack) (p : Part) : rpi (s.callSoon (.connLost p)) = rpi s := rpi_callSoon _ _ rfl
@[simp] theorem rpi_callLater_connLost (s : Stack) (d : Nat) (p : Part) : rpi (s.callLater d (.connLost p)).1 = rpi s := rpi_callLater _ _ _ rfl
@[simp] theorem rpi_callSoon_expiredSvc (s : Stack) (a : Addr) (k : SvcKey) : rpi (s.callSoon (.expiredSvc a k)) = rpi s := rpi_callSoon _ _ rfl
@[simp] theorem rpi_callLater_expiredSvc (s : Stack) (d : Nat) (a : Addr) (k : SvcKey) : rpi (s.callLater d (.expiredSvc a k)).1 = rpi s := rpi_callLater _ _ _ rfl
@[simp] theorem rpi_callSoon_expiredSub (s : Stack) (i : Nat) (a : Addr) (k : SubKey) : rpi (s.callSoon (.expiredSub i a k)) = rpi s := rpi_callSoon _ _ rfl
@[simp] theorem rpi_callLater_expiredSub (s : Stack) (d : Nat) (i : Nat) (a : Addr) (k : SubKey) : rpi (s.callLater d (.expiredSub i a k)).1 = rpi s := rpi_callLater _ _ _ rfl
@[simp] theorem rpi_callSoon_sendOfferTo (s : Stack) (i : Nat) (a : Addr) : rpi (s.callSoon (.sendOfferTo i a)) = rpi s := rpi_callSoon _ _ rfl
@[simp] theorem rpi_callLater_sendOfferTo (s : Stack) (d : Nat) (i : Nat) (a : Addr) : rpi (s.callLater d (.sendOfferTo i a)).1 = rpi s := rpi_callLater _ _ _ rfl
@[simp] theorem rpi_callSoon_collectorTimeout (s : Stack) (c : Nat) : rpi (s.callSoon (.collectorTimeout c)) = rpi s := rpi_callSoon _ _ rfl
@[simp] theorem rpi_callLater_collectorTimeout (s : Stack) (d : Nat) (c : Nat) : rpi (s.callLater d (.collectorTimeout c)).1 = rpi s := rpi_callLater _ _ _ rfl
@[simp] theorem rpi_callSoon_sendStart (s : Stack) (d' : Addr) (e : List Eventgroup) : rpi (s.callSoon (.sendStartSubscribe d' e)) = rpi s := rpi_callSoon _ _ rfl
@[simp] theorem rpi_callSoon_sendStop (s : Stack) (d' : Addr) (e : List Eventgroup) : rpi (s.callSoon (.sendStopSubscribe d' e)) = rpi s := rpi_callSoon _ _ rfl
theorem isR_sleepDone_other {tid : Tid} (h : tid.1 ≠ .subscribe) : isRCb (.sleepDone tid) = false := by
  obtain ⟨k, n⟩ := tid
  cases k <;> simp_all [isRCb]
theorem rpi_callLater_sleepDone (s : Stack) (d : Nat) (t : Tid) (h : t.1 ≠ .subscribe) : rpi (s.callLater d (.sleepDone t)).1 = rpi s :=
  rpi_callLater _ _ _ (isR_sleepDone_other h)

theorem isR_taskStep_other {tid : Tid} (h : tid.1 ≠ .subscribe) : isRCb (.taskStep tid) = false := by
  obtain ⟨k, n⟩ := tid
  cases k <;> simp_all [isRCb]
theorem rpi_callSoon_taskStep (s : Stack) (t : Tid) (h : t.1 ≠ .subscribe) : rpi (s.callSoon (.taskStep t)) = rpi s :=
  rpi_callSoon _ _ (isR_taskStep_other h)

/-- cancelling a timer handle of any component: no subscriber callback is ever a timer -/
theorem rpi_cancelTimer_other (s : Stack) (own : Cb → Bool) (t : Option Nat) (h : ∀ cb, own cb = true → isRCb cb = false) :
    rpi (s.cancelTimer own t) = rpi s := by
  cases t with
  | none => rfl
  | some q =>
    simp only [rpi, cancelTimer, Loop.cancelOpt, Loop.cancel, List.filter_filter]
    refine Prod.ext rfl (Prod.ext rfl (Prod.ext rfl (Prod.ext rfl (Prod.ext rfl (Prod.ext ?_ (Prod.ext ?_ rfl))))))
    · apply List.filter_congr; intro x _
      cases h1 : isRCb x.cb
      · simp
      · have : own x.cb = false := by
          cases h2 : own x.cb
          · rfl
          · have := h _ h2; rw [h1] at this; cases this
        simp [this]
    · apply List.filter_congr; intro x _
      cases h1 : isRCb x.cb
      · simp
      · have : own x.cb = false := by
          cases h2 : own x.cb
          · rfl
          · have := h _ h2; rw [h1] at this; cases this
        simp [this]
@[simp] theorem rpi_cancelTimer_sub (s : Stack) (t : Option Nat) : rpi (s.cancelTimer isSubExpiry t) = rpi s :=
  rpi_cancelTimer_other s _ t (fun cb h => by cases cb <;> simp_all [isSubExpiry, isRCb])
@[simp] theorem rpi_cancelTimer_subFor (s : Stack) (i : Nat) (a : Addr) (k : SubKey) (t : Option Nat) : rpi (s.cancelTimer (isSubExpiryFor i a k) t) = rpi s :=
  rpi_cancelTimer_other s _ t (fun cb h => by cases cb <;> simp_all [isSubExpiryFor, isRCb])
@[simp] theorem rpi_cancelTimer_svc (s : Stack) (t : Option Nat) : rpi (s.cancelTimer isSvcExpiry t) = rpi s :=
  rpi_cancelTimer_other s _ t (fun cb h => by cases cb <;> simp_all [isSvcExpiry, isRCb])
@[simp] theorem rpi_cancelTimer_svcFor (s : Stack) (a : Addr) (k : SvcKey) (t : Option Nat) : rpi (s.cancelTimer (isSvcExpiryFor a k) t) = rpi s :=
  rpi_cancelTimer_other s _ t (fun cb h => by cases cb <;> simp_all [isSvcExpiryFor, isRCb])
theorem rpi_cancelTimer_sleep (s : Stack) (tid : Tid) (t : Option Nat) (hk : tid.1 ≠ .subscribe) : rpi (s.cancelTimer (isSleepFor tid) t) = rpi s :=
  rpi_cancelTimer_other s _ t (fun cb h => by
    cases cb with
    | sleepDone t' =>
      have : t' = tid := by simpa [isSleepFor] using h
      subst this; exact isR_sleepDone_other hk
    | _ => simp_all [isSleepFor, isRCb])

@[simp] theorem isR_connLost (p : Part) : isRCb (.connLost p) = false := rfl
@[simp] theorem isR_expiredSvc (a : Addr) (k : SvcKey) : isRCb (.expiredSvc a k) = false := rfl
@[simp] theorem isR_expiredSub (i : Nat) (a : Addr) (k : SubKey) : isRCb (.expiredSub i a k) = false := rfl
@[simp] theorem isR_sendOfferTo (i : Nat) (a : Addr) : isRCb (.sendOfferTo i a) = false := rfl
@[simp] theorem isR_collectorTimeout (c : Nat) : isRCb (.collectorTimeout c) = false := rfl

/-! task operations of the other components (typed task ids) -/


theorem rpi_setTask (s : Stack) (tid : Tid) (x : TaskSt) (h : tid.1 ≠ .subscribe) : rpi (s.setTask tid x) = rpi s := by
  simp only [rpi, setTask]
  refine Prod.ext rfl (Prod.ext rfl (Prod.ext rfl (Prod.ext rfl (Prod.ext rfl (Prod.ext rfl (Prod.ext rfl ?_))))))
  apply filter_map_keep
  intro p _
  by_cases hp : p.1 = tid
  · right; simp [hp, isSubT, h]
  · left; simp [hp]

theorem rpi_createTask (s : Stack) (k : TaskKind) (h : k ≠ .subscribe) : rpi (s.createTask k).1 = rpi s := by
  unfold createTask; simp only []
  rw [rpi_callSoon_taskStep _ _ h]
  simp [rpi, List.filter_append, isSubT, h]
@[simp] theorem rpi_createTask_offer (s : Stack) (i : Nat) : rpi (s.createTask (.offer i)).1 = rpi s := rpi_createTask _ _ (by simp)
@[simp] theorem rpi_createTask_find (s : Stack) : rpi (s.createTask .find).1 = rpi s := rpi_createTask _ _ (by simp)

theorem rpi_cancelTask (s : Stack) (t : Tid) (h : t.1 ≠ .subscribe) : rpi (s.cancelTask t) = rpi s := by
  unfold cancelTask; split; rfl; split; rfl; split
  · rw [rpi_callSoon_taskStep _ _ h, rpi_setTask _ _ _ h]
  · rw [rpi_setTask _ _ _ h]
@[simp] theorem rpi_cancelTask_offer (s : Stack) (i n : Nat) : rpi (s.cancelTask (.offer i, n)) = rpi s := rpi_cancelTask _ _ (by simp)
@[simp] theorem rpi_cancelTask_find (s : Stack) (n : Nat) : rpi (s.cancelTask (.find, n)) = rpi s := rpi_cancelTask _ _ (by simp)
theorem rpi_sleepFor (s : Stack) (tid : Tid) (t : TaskSt) (d : Nat) (pc : Pc) (h : tid.1 ≠ .subscribe) : rpi (s.sleepFor tid t d pc) = rpi s := by
  unfold sleepFor; split
  · rw [rpi_callSoon_taskStep _ _ h, rpi_setTask _ _ _ h]
  · simp only []; rw [rpi_setTask _ _ _ h, rpi_callLater_sleepDone _ _ _ h]
theorem rpi_finish (s : Stack) (tid : Tid) (t : TaskSt) (h : tid.1 ≠ .subscribe) : rpi (s.finish tid t) = rpi s := by
  unfold finish; rw [rpi_setTask _ _ _ h]
theorem rpi_sleepDone (s : Stack) (tid : Tid) (h : tid.1 ≠ .subscribe) : rpi (s.sleepDone tid) = rpi s := by
  unfold sleepDone; split; rfl; split
  · rw [rpi_callSoon_taskStep _ _ h, rpi_setTask _ _ _ h]
  · rfl

@[simp] theorem rpi_draw (s : Stack) (a b : Nat) : rpi (s.draw a b).1 = rpi s := by
  unfold draw; split <;> rfl
theorem rpi_armTtl (s : Stack) (ttl : Nat) (cb : Cb) (h : isRCb cb = false) : rpi (s.armTtl ttl cb).1 = rpi s := by
  unfold armTtl; split
  · exact rpi_callLater _ _ _ h
  · rfl
@[simp] theorem rpi_armTtl_sub (s : Stack) (ttl i : Nat) (a : Addr) (k : SubKey) : rpi (s.armTtl ttl (.expiredSub i a k)).1 = rpi s :=
  rpi_armTtl _ _ _ rfl
@[simp] theorem rpi_setInst (s : Stack) (i : Nat) (x : Instance) : rpi (s.setInst i x) = rpi s := rfl
@[simp] theorem rpi_sendSd (s : Stack) (es : List SDEntry) (d : Dest) : rpi (s.sendSd es d) = rpi s := by
  unfold sendSd; split; rfl; simp only []; split; rfl; split <;> rfl

@[simp] theorem rpi_flushTo (s : Stack) (es : List SDEntry) (d : Dest) : rpi (s.flushTo es d) = rpi s := by
  unfold flushTo; rw [rpi_sendSd]; rfl

@[simp] theorem rpi_newCollector (s : Stack) (d : Dest) : rpi (s.newCollector d).1 = rpi s := by
  unfold newCollector; simp only []
  exact (rpi_with_coll_nextCid _ _ _).trans (by simp)
@[simp] theorem rpi_appendCollector (s : Stack) (c : Nat) (e : SDEntry) : rpi (s.appendCollector c e) = rpi s := rfl

@[simp] theorem rpi_queueSend (s : Stack) (e : SDEntry) (d : Dest) : rpi (s.queueSend e d) = rpi s := by
  unfold queueSend; simp only []; split
  · simp
  · split
    · split <;> simp
    · simp

@[simp] theorem rpi_collectorTimeout (s : Stack) (c : Nat) : rpi (s.collectorTimeout c) = rpi s := by
  unfold collectorTimeout; split; rfl; simp only []; rw [rpi_flushTo]; rfl

@[simp] theorem rpi_sendOffer (s : Stack) (i : Nat) (r : Dest) (b : Bool) : rpi (s.sendOffer i r b) = rpi s := by
  unfold sendOffer; split; rfl; split; rfl; simp

@[simp] theorem rpi_subsStopAllFor (s : Stack) (i : Nat) (a : Addr) : rpi (s.subsStopAllFor i a) = rpi s := by
  unfold subsStopAllFor; split; rfl
  simp only []
  rw [foldl_pres rpi _ (fun s e => by simp)]; rfl

@[simp] theorem rpi_subsStopAll (s : Stack) (i : Nat) : rpi (s.subsStopAll i) = rpi s := by
  unfold subsStopAll; split; rfl
  simp only []
  split
  · simp only [rpi_setInst]; rw [foldl_pres rpi _ (fun s e => by simp)]
  · rw [foldl_pres rpi _ (fun s e => by simp)]


theorem rpi_stepOffer (s : Stack) (tid : Tid) (t : TaskSt) (i : Nat) (h : tid.1 ≠ .subscribe) : rpi (s.stepOffer tid t i) = rpi s := by
  unfold stepOffer
  simp only []
  have hs := fun (X : Stack) (t' : TaskSt) (d : Nat) (pc : Pc) => rpi_sleepFor X tid t' d pc h
  have hf := fun (X : Stack) (t' : TaskSt) => rpi_finish X tid t' h
  split
  · split <;> simp [hs, hf]
  · split
    · simp [hs, hf]
    · (repeat' split) <;> simp [hs, hf]
  · split
    · (repeat' split) <;> simp [hs, hf]
    · (repeat' split) <;> simp [hs, hf]
  · split
    · (repeat' split) <;> simp [hs, hf]
    · simp [hs, hf]
  · rfl

@[simp] theorem rpi_instStart (s : Stack) (i : Nat) : rpi (s.instStart i) = rpi s := by
  unfold instStart; split; rfl; split; simp; simp only []; split <;> simp

@[simp] theorem rpi_instStop (s : Stack) (i : Nat) : rpi (s.instStop i) = rpi s := by
  unfold instStop; split; rfl; split; simp; simp only []; split <;> simp

@[simp] theorem rpi_instHandleSubscribe (s : Stack) (i : Nat) (e : SDEntry) (a : Addr) :
    rpi (s.instHandleSubscribe i e a).1 = rpi s := by
  unfold instHandleSubscribe
  frame_cases

@[simp] theorem rpi_handleSubscribe (s : Stack) (e : SDEntry) (a : Addr) : rpi (s.handleSubscribe e a) = rpi s := by
  unfold handleSubscribe
  simp only []
  have key : ∀ (l : List Nat) (acc : Stack × Bool),
      rpi (l.foldl (fun (acc : Stack × Bool) i => ((acc.1.instHandleSubscribe i e a).1, acc.2 || (acc.1.instHandleSubscribe i e a).2)) acc).1 = rpi acc.1 := by
    intro l; induction l with
    | nil => intro acc; rfl
    | cons x t ih => intro acc; rw [List.foldl_cons, ih]; simp
  split
  · exact key _ _
  · rw [rpi_queueSend]; exact key _ _

@[simp] theorem rpi_handleFind (s : Stack) (e : SDEntry) (a : Addr) (mc : Bool) : rpi (s.handleFind e a mc) = rpi s := by
  unfold handleFind; simp only []
  split; rfl
  split
  · rw [foldl_pres rpi _ (fun s i => by simp)]; simp
  · rw [foldl_pres rpi _ (fun s i => by simp)]

@[simp] theorem rpi_expiredSub (s : Stack) (i : Nat) (a : Addr) (k : SubKey) : rpi (s.expiredSub i a k) = rpi s := by
  unfold expiredSub; split; rfl; simp only []; split <;> simp

@[simp] theorem rpi_announcerStart (s : Stack) : rpi s.announcerStart = rpi s := by
  unfold announcerStart; simp only []
  show rpi (List.foldl (fun s i => s.instStart i) s s.announceOrder) = rpi s
  rw [foldl_pres rpi _ (fun s i => by simp)]

@[simp] theorem rpi_announcerStop (s : Stack) : rpi s.announcerStop = rpi s := by
  unfold announcerStop; split; rfl
  show rpi (List.foldl (fun s i => s.instStop i) s s.announceOrder) = rpi s
  rw [foldl_pres rpi _ (fun s i => by simp)]

@[simp] theorem rpi_announcerReboot (s : Stack) (a : Addr) : rpi (s.announcerReboot a) = rpi s := by
  unfold announcerReboot; rw [foldl_pres rpi _ (fun s i => by simp)]

@[simp] theorem rpi_announceService (s : Stack) (i : Nat) : rpi (s.announceService i) = rpi s := by
  unfold announceService; simp only []; split
  · show rpi (s.instStart i) = rpi s; simp
  · rfl

@[simp] theorem rpi_stopAnnounceService (s : Stack) (i : Nat) (b : Bool) : rpi (s.stopAnnounceService i b) = rpi s := by
  unfold stopAnnounceService; split; simp; simp only []; split
  · rw [rpi_instStop]; rfl
  · rfl
theorem rpi_stepFind (s : Stack) (tid : Tid) (t : TaskSt) (h : tid.1 ≠ .subscribe) : rpi (s.stepFind tid t) = rpi s := by
  unfold stepFind
  simp only []
  have hs := fun (X : Stack) (t' : TaskSt) (d : Nat) (pc : Pc) => rpi_sleepFor X tid t' d pc h
  have hf := fun (X : Stack) (t' : TaskSt) => rpi_finish X tid t' h
  (repeat' split) <;> simp [hs, hf]

@[simp] theorem rpi_discoveryStart (s : Stack) : rpi s.discoveryStart = rpi s := by
  unfold discoveryStart; simp only []
  have h : rpi ({ (s.createTask .find).1 with findTask := some (s.createTask .find).2 } : Stack) = rpi s :=
    (rpi_with_findTask _ _).trans (rpi_createTask_find _)
  split
  · split
    · rfl
    · exact h
  · exact h

@[simp] theorem rpi_discoveryStop (s : Stack) : rpi s.discoveryStop = rpi s := by
  unfold discoveryStop; split
  · exact (rpi_with_findTask _ _).trans (rpi_cancelTask_find _ _)
  · rfl


@[simp] theorem rpi_sendSubscribe (s : Stack) (ttl : Nat) (d : Addr) (egs : List Eventgroup) :
    rpi (s.sendSubscribe ttl d egs) = rpi s := by simp [sendSubscribe]

@[simp] theorem rpi_subscribeEventgroup (s : Stack) (g : Eventgroup) (d : Addr) : rpi (s.subscribeEventgroup g d) = rpi s := by
  unfold subscribeEventgroup; simp only []; split <;> simp

@[simp] theorem rpi_stopSubscribeEventgroup (s : Stack) (g : Eventgroup) (d : Addr) (b : Bool) :
    rpi (s.stopSubscribeEventgroup g d b) = rpi s := by
  unfold stopSubscribeEventgroup; split
  · simp only []; split <;> simp
  · rfl




@[simp] theorem rpi_listenerOffered (s : Stack) (l : Listener) (k : SvcKey) (a : Addr) : rpi (s.listenerOffered l k a) = rpi s := by
  unfold listenerOffered; frame_cases
@[simp] theorem rpi_listenerStopped (s : Stack) (l : Listener) (k : SvcKey) (a : Addr) : rpi (s.listenerStopped l k a) = rpi s := by
  unfold listenerStopped; frame_cases

@[simp] theorem rpi_replay (s : Stack) (b : Bool) (f : Option Service) (l : Listener) : rpi (s.replay b f l) = rpi s := by
  unfold replay
  rw [foldl_pres rpi _ (fun s p => by frame_cases)]

@[simp] theorem rpi_watchService (s : Stack) (f : Service) (l : Listener) : rpi (s.watchService f l) = rpi s := by
  unfold watchService; simp only []; rw [rpi_markDup, rpi_replay]; rfl
@[simp] theorem rpi_stopWatchService (s : Stack) (f : Service) (l : Listener) : rpi (s.stopWatchService f l) = rpi s := by
  unfold stopWatchService; simp only []; split
  · simp
  · rw [rpi_replay]; rfl
@[simp] theorem rpi_watchAllServices (s : Stack) (id : LId) : rpi (s.watchAllServices id) = rpi s := by
  unfold watchAllServices; rw [rpi_markDup, rpi_replay]; rfl
@[simp] theorem rpi_stopWatchAllServices (s : Stack) (id : LId) : rpi (s.stopWatchAllServices id) = rpi s := by
  unfold stopWatchAllServices; split
  · simp
  · rw [rpi_replay]; rfl
@[simp] theorem rpi_connectionLost (s : Stack) : rpi s.connectionLost = rpi s := by simp [connectionLost]

@[simp] theorem rpi_notifyService (s : Stack) (b : Bool) (k : SvcKey) (a : Addr) : rpi (s.notifyService b k a) = rpi s := by
  unfold notifyService
  simp only []
  have hf : ∀ (s : Stack) (l : Listener), rpi (if b = true then s.listenerOffered l k a else s.listenerStopped l k a) = rpi s := by
    intro s l; split <;> simp
  rw [foldl_pres rpi _ (fun s id => hf s _)]
  rw [foldl_pres rpi _ (fun s p => by
    split
    · rw [foldl_pres rpi _ (fun s l => hf s l)]
    · rfl)]
  rfl

@[simp] theorem rpi_foundStop (s : Stack) (a : Addr) (k : SvcKey) : rpi (s.foundStop a k) = rpi s := by
  unfold foundStop; frame_cases

@[simp] theorem rpi_foundRefresh (s : Stack) (ttl : Nat) (a : Addr) (k : SvcKey) : rpi (s.foundRefresh ttl a k) = rpi s := by
  unfold foundRefresh
  simp only []
  rw [rpi_with_found_refreshLog, rpi_armTtl _ _ _ rfl]
  split <;> simp

@[simp] theorem rpi_handleOffer (s : Stack) (e : SDEntry) (a : Addr) : rpi (s.handleOffer e a) = rpi s := by
  unfold handleOffer; frame_cases

@[simp] theorem rpi_foundStopAllFor (s : Stack) (a : Addr) : rpi (s.foundStopAllFor a) = rpi s := by
  unfold foundStopAllFor; simp only []
  rw [foldl_pres rpi _ (fun s e => by simp)]; rfl

@[simp] theorem rpi_foundStopAll (s : Stack) : rpi s.foundStopAll = rpi s := by
  unfold foundStopAll; simp only []
  show rpi (List.foldl (fun s p => s.foundStopAllFor p.1) s s.found) = rpi s
  rw [foldl_pres rpi _ (fun s e => by simp)]

@[simp] theorem rpi_expiredSvc (s : Stack) (a : Addr) (k : SvcKey) : rpi (s.expiredSvc a k) = rpi s := by
  unfold expiredSvc; frame_cases

@[simp] theorem rpi_rebootDetected (s : Stack) (a : Addr) : rpi (s.rebootDetected a) = rpi s := by
  simp [rebootDetected]


end Stack
end Someip
