/-
  C10, counting on whole runs - the pure part.  `oa i log` reads the ghost log of the service instances for instance i:
  does it run, has it offered since its last start, how often was it stopped (after having offered / at all), how many
  StopOffers did it hand to `queue_send`.  `LI` relates that to a *view* of the stack (log, cyclic period, the task
  reference of every instance, the offer tasks): the log says "running" exactly for the instances that hold a task; the
  task an instance holds is not cancelled and is past its first offer exactly when the log says "offered"; with a cyclic
  period every stop-after-offer is answered by exactly one StopOffer - already sent, or owed by a cancelled task still in
  its try block; without a cyclic period every stop sends its StopOffer at once; and no offer is ever logged for an
  instance the log says is stopped.  No Stack in this file.
-/
import SomeipModel.Lemmas.LogFrame
import SomeipModel.Lemmas.OffSteps
namespace Someip
open Stack
set_option linter.unusedSimpArgs false
set_option linter.unusedVariables false

abbrev OLog := List (Nat × OEv × Nat)

/-- what the log says about one instance -/
structure OA where
  running : Bool := false
  offered : Bool := false      -- a multicast offer since the last start
  stops : Nat := 0             -- stop() calls after having offered
  allStops : Nat := 0          -- stop() calls
  sos : Nat := 0               -- StopOffers handed to queue_send
deriving DecidableEq, Repr

def oaStep (a : OA) : OEv → OA
  | .start => { a with running := true, offered := false }
  | .stop => { a with running := false, stops := a.stops + (if a.offered then 1 else 0), allStops := a.allStops + 1 }
  | .offer r => if r then a else { a with offered := true }
  | .stopOffer => { a with sos := a.sos + 1 }

def oa (i : Nat) (log : OLog) : OA := log.foldl (fun a e => if e.1 = i then oaStep a e.2.1 else a) {}

theorem oa_append (i : Nat) (log : OLog) (e : Nat × OEv × Nat) :
    oa i (log ++ [e]) = if e.1 = i then oaStep (oa i log) e.2.1 else oa i log := by
  simp [oa, List.foldl_append]
theorem oa_append_self (i : Nat) (log : OLog) (ev : OEv) (τ : Nat) : oa i (log ++ [(i, ev, τ)]) = oaStep (oa i log) ev := by
  rw [oa_append]; simp
theorem oa_append_other (i j : Nat) (log : OLog) (ev : OEv) (τ : Nat) (h : j ≠ i) : oa i (log ++ [(j, ev, τ)]) = oa i log := by
  rw [oa_append]; simp [h]

def isOfferEv : OEv → Bool | .offer _ => true | _ => false

/-- NOTHING FOLLOWS A STOP, on the log: every offer was logged while the log said "running" -/
def Quiet (log : OLog) : Prop :=
  ∀ pre e post, log = pre ++ e :: post → isOfferEv e.2.1 = true → (oa e.1 pre).running = true

theorem quiet_nil : Quiet [] := by
  intro pre e post h; cases pre <;> simp at h

theorem quiet_append {log : OLog} (h : Quiet log) (e : Nat × OEv × Nat)
    (he : isOfferEv e.2.1 = true → (oa e.1 log).running = true) : Quiet (log ++ [e]) := by
  intro pre e' post hd hoff
  rcases List.eq_nil_or_concat post with rfl | ⟨post', x, rfl⟩
  · have h1 : log ++ [e] = pre ++ [e'] := hd
    have h2 := List.append_inj' h1 rfl
    obtain ⟨rfl, h3⟩ := h2
    simp at h3; subst h3
    exact he hoff
  · have h1 : log ++ [e] = (pre ++ e' :: post') ++ [x] := by rw [hd]; simp
    have h2 := List.append_inj' h1 rfl
    exact h pre e' post' h2.1 hoff

def isTryPc : Pc → Bool | .rep _ => true | .cyclic => true | _ => false
/-- a cancelled task inside its try block: its cancellation handler will send the StopOffer of a cyclic instance -/
def owedP (i : Nat) (p : Tid × TaskSt) : Bool := decide (p.1.1 = .offer i) && (p.2.cancelled && isTryPc p.2.pc)
def owed (l : List (Tid × TaskSt)) (i : Nat) : Nat := l.countP (owedP i)

/-! ### association lists with unique keys -/

theorem setT_of_not_mem (l : List (Tid × TaskSt)) (k : Tid) (t : TaskSt) (h : ∀ p ∈ l, p.1 ≠ k) : setT l k t = l := by
  unfold setT
  induction l with
  | nil => rfl
  | cons p r ih =>
    rw [List.map_cons, if_neg (h p List.mem_cons_self), ih (fun q hq => h q (List.mem_cons_of_mem _ hq))]

theorem map_fst_setT (l : List (Tid × TaskSt)) (k : Tid) (t : TaskSt) : (setT l k t).map (·.1) = l.map (·.1) := by
  unfold setT
  induction l with
  | nil => rfl
  | cons p r ih =>
    simp only [List.map_cons, ih]
    by_cases hp : p.1 = k
    · simp [hp]
    · simp [hp]

theorem countP_setT (q : Tid × TaskSt → Bool) (l : List (Tid × TaskSt)) (k : Tid) (t t'' : TaskSt)
    (hnd : (l.map (·.1)).Nodup) (ht : alookup l k = some t) :
    (setT l k t'').countP q + (if q (k, t) then 1 else 0) = l.countP q + (if q (k, t'') then 1 else 0) := by
  induction l with
  | nil => simp [alookup] at ht
  | cons p r ih =>
    simp only [List.map_cons, List.nodup_cons] at hnd
    by_cases hp : p.1 = k
    · have htp : t = p.2 := by
        unfold alookup at ht
        simp [List.find?_cons, hp] at ht
        exact ht.symm
      have hr : ∀ p' ∈ r, p'.1 ≠ k := by
        intro p' hp' e
        apply hnd.1
        rw [hp, ← e]
        exact List.mem_map_of_mem hp'
      have e1 : setT (p :: r) k t'' = (k, t'') :: r := by
        show (if p.1 = k then (k, t'') else p) :: setT r k t'' = _
        rw [if_pos hp, setT_of_not_mem r k t'' hr]
      have e2 : p = (k, t) := by rw [htp, ← hp]
      rw [e1, e2, List.countP_cons, List.countP_cons]
      omega
    · have ht' : alookup r k = some t := by
        unfold alookup at ht ⊢
        simpa [List.find?_cons, hp] using ht
      have e1 : setT (p :: r) k t'' = p :: setT r k t'' := by
        show (if p.1 = k then (k, t'') else p) :: setT r k t'' = _
        rw [if_neg hp]
      rw [e1, List.countP_cons, List.countP_cons]
      have := ih hnd.2 ht'
      omega

theorem alookup_append_new (l : List (Tid × TaskSt)) (k k' : Tid) (t : TaskSt) (hfresh : ∀ p ∈ l, p.1 ≠ k) :
    alookup (l ++ [(k, t)]) k' = if k' = k then some t else alookup l k' := by
  rw [alookup_append]
  by_cases hk : k' = k
  · subst hk
    rw [alookup_none hfresh, if_pos rfl]
    simp [alookup]
  · rw [if_neg hk]
    cases h : alookup l k'
    · simp only []
      exact alookup_none (fun p hp e => by simp at hp; subst hp; exact hk e.symm)
    · rfl

/-! ### the view and its invariant -/

structure LV where
  log : OLog
  cyc : Nat
  its : List (Option Nat)            -- the task reference of every instance
  tasks : List (Tid × TaskSt)        -- the offer tasks

structure LI (v : LV) : Prop where
  nodup : (v.tasks.map (·.1)).Nodup
  inst : ∀ p ∈ v.tasks, ∀ i, p.1.1 = .offer i → i < v.its.length
  run : ∀ i r, v.its[i]? = some r → (oa i v.log).running = r.isSome
  own : ∀ i n, v.its[i]? = some (some n) → ∃ t, alookup v.tasks (.offer i, n) = some t ∧ t.cancelled = false ∧
          (oa i v.log).offered = offeredPc t.pc ∧ (v.cyc ≠ 0 → t.pc ≠ .done)
  cnt : v.cyc ≠ 0 → ∀ i, (oa i v.log).sos + owed v.tasks i = (oa i v.log).stops
  cnt0 : v.cyc = 0 → ∀ i, (oa i v.log).sos = (oa i v.log).allStops
  quiet : Quiet v.log

theorem owedP_other {i j : Nat} (n : Nat) (t : TaskSt) (h : j ≠ i) : owedP j ((.offer i, n), t) = false := by
  simp [owedP, fun e => h (Eq.symm e)]
  intro e; exact absurd e.symm h

/-- a task update that does not concern the log -/
theorem LI.updTask {v : LV} (hi : LI v) (i n : Nat) (t t'' : TaskSt) (ht : alookup v.tasks (.offer i, n) = some t)
    (hown : v.its[i]? = some (some n) → t''.cancelled = false ∧ (oa i v.log).offered = offeredPc t''.pc ∧ (v.cyc ≠ 0 → t''.pc ≠ .done))
    (howed : (t''.cancelled && isTryPc t''.pc) = (t.cancelled && isTryPc t.pc)) :
    LI { v with tasks := setT v.tasks (.offer i, n) t'' } := by
  refine ⟨?_, ?_, hi.run, ?_, ?_, hi.cnt0, hi.quiet⟩
  · show ((setT v.tasks _ _).map (·.1)).Nodup
    rw [map_fst_setT]; exact hi.nodup
  · intro p hp j hj
    obtain ⟨q, hq, e⟩ := mem_setT hp
    exact hi.inst q hq j (by rw [e]; exact hj)
  · intro j m hjm
    show ∃ t, alookup (setT v.tasks _ _) _ = some t ∧ _
    rw [alookup_setT]
    by_cases hk : (TaskKind.offer j, m) = (TaskKind.offer i, n)
    · have hj : j = i := by simpa using (Prod.mk.inj hk).1
      have hm : m = n := (Prod.mk.inj hk).2
      subst hj; subst hm
      rw [if_pos rfl, ht]
      obtain ⟨h1, h2, h3⟩ := hown hjm
      exact ⟨t'', rfl, h1, h2, h3⟩
    · rw [if_neg hk]; exact hi.own j m hjm
  · intro hc j
    have := countP_setT (owedP j) v.tasks (.offer i, n) t t'' hi.nodup ht
    have e : owedP j ((TaskKind.offer i, n), t'') = owedP j ((TaskKind.offer i, n), t) := by
      simp only [owedP]; rw [howed]
    rw [e] at this
    have h2 : owed (setT v.tasks (.offer i, n) t'') j = owed v.tasks j := by unfold owed; omega
    show _ + owed (setT v.tasks _ _) j = _
    rw [h2]; exact hi.cnt hc j

theorem oaStep_offer_noop (a : OA) (r : Bool) (h : r = true ∨ a.offered = true) : oaStep a (.offer r) = a := by
  rcases h with rfl | h
  · rfl
  · cases r
    · simp only [oaStep, Bool.false_eq_true, if_false]; cases a; simp_all
    · rfl

/-- an offer that changes nothing in what the log says: a unicast answer, or a further multicast offer -/
theorem LI.logOffer {v : LV} (hi : LI v) (i n : Nat) (r : Bool) (τ : Nat) (hrun : v.its[i]? = some (some n))
    (hoff : r = true ∨ (oa i v.log).offered = true) :
    LI { v with log := v.log ++ [(i, .offer r, τ)] } := by
  have e : ∀ j, oa j (v.log ++ [(i, .offer r, τ)]) = oa j v.log := by
    intro j
    by_cases hj : i = j
    · subst hj; rw [oa_append_self, oaStep_offer_noop _ _ hoff]
    · rw [oa_append_other _ _ _ _ _ hj]
  refine ⟨hi.nodup, hi.inst, ?_, ?_, ?_, ?_, ?_⟩
  · intro j r' h; show (oa j (v.log ++ _)).running = _; rw [e]; exact hi.run j r' h
  · intro j m h; show ∃ t, _ ∧ _ ∧ (oa j (v.log ++ _)).offered = _ ∧ _; rw [e]; exact hi.own j m h
  · intro hc j; show (oa j (v.log ++ _)).sos + _ = (oa j (v.log ++ _)).stops; rw [e]; exact hi.cnt hc j
  · intro hc j; show (oa j (v.log ++ _)).sos = (oa j (v.log ++ _)).allStops; rw [e]; exact hi.cnt0 hc j
  · exact quiet_append hi.quiet _ (fun _ => by have := hi.run i _ hrun; simpa using this)

/-- the first offer of the task the instance holds -/
theorem LI.firstOffer {v : LV} (hi : LI v) (i n τ : Nat) (t t'' : TaskSt) (hrun : v.its[i]? = some (some n))
    (ht : alookup v.tasks (.offer i, n) = some t) (htc : t''.cancelled = false) (hoff : offeredPc t''.pc = true)
    (hdone : v.cyc ≠ 0 → t''.pc ≠ .done) :
    LI { v with log := v.log ++ [(i, .offer false, τ)], tasks := setT v.tasks (.offer i, n) t'' } := by
  obtain ⟨t0, h0, hc0, _, _⟩ := hi.own i n hrun
  rw [ht] at h0; cases h0
  have ei : oa i (v.log ++ [(i, .offer false, τ)]) = { oa i v.log with offered := true } := by rw [oa_append_self]; rfl
  have eo : ∀ j, j ≠ i → oa j (v.log ++ [(i, .offer false, τ)]) = oa j v.log := fun j hj => oa_append_other _ _ _ _ _ (fun e => hj e.symm)
  have hcount : ∀ j, owed (setT v.tasks (.offer i, n) t'') j = owed v.tasks j := by
    intro j
    have := countP_setT (owedP j) v.tasks (.offer i, n) t t'' hi.nodup ht
    have e1 : owedP j ((TaskKind.offer i, n), t'') = false := by simp [owedP, htc]
    have e2 : owedP j ((TaskKind.offer i, n), t) = false := by simp [owedP, hc0]
    rw [e1, e2] at this
    unfold owed; simpa using this
  refine ⟨?_, ?_, ?_, ?_, ?_, ?_, ?_⟩
  · show ((setT v.tasks _ _).map (·.1)).Nodup
    rw [map_fst_setT]; exact hi.nodup
  · intro p hp j hj
    obtain ⟨q, hq, e⟩ := mem_setT hp
    exact hi.inst q hq j (by rw [e]; exact hj)
  · intro j r h
    show (oa j (v.log ++ _)).running = _
    by_cases hj : j = i
    · subst hj; rw [ei]; exact hi.run j r h
    · rw [eo j hj]; exact hi.run j r h
  · intro j m hjm
    show ∃ t, alookup (setT v.tasks _ _) _ = some t ∧ _ ∧ (oa j (v.log ++ _)).offered = _ ∧ _
    rw [alookup_setT]
    by_cases hj : j = i
    · subst hj
      have hm : m = n := by rw [hrun] at hjm; exact (Option.some.inj (Option.some.inj hjm)).symm
      subst hm
      rw [if_pos rfl, ht, ei]
      exact ⟨t'', rfl, htc, hoff.symm, hdone⟩
    · have hk : (TaskKind.offer j, m) ≠ (TaskKind.offer i, n) := by
        intro e; apply hj; simpa using (Prod.mk.inj e).1
      rw [if_neg hk, eo j hj]; exact hi.own j m hjm
  · intro hc j
    show (oa j (v.log ++ _)).sos + owed (setT v.tasks _ _) j = (oa j (v.log ++ _)).stops
    rw [hcount]
    by_cases hj : j = i
    · subst hj; rw [ei]; exact hi.cnt hc j
    · rw [eo j hj]; exact hi.cnt hc j
  · intro hc j
    show (oa j (v.log ++ _)).sos = (oa j (v.log ++ _)).allStops
    by_cases hj : j = i
    · subst hj; rw [ei]; exact hi.cnt0 hc j
    · rw [eo j hj]; exact hi.cnt0 hc j
  · exact quiet_append hi.quiet _ (fun _ => by have := hi.run i _ hrun; simpa using this)

/-- the cancellation handler of a task that was cancelled inside its try block: the StopOffer of a cyclic instance, then the
task ends -/
theorem LI.cancelHandler {v : LV} (hi : LI v) (i n τ : Nat) (t t'' : TaskSt) (ht : alookup v.tasks (.offer i, n) = some t)
    (hc : t.cancelled = true) (htry : isTryPc t.pc = true) (hdone : t''.pc = .done) :
    LI { v with log := if v.cyc ≠ 0 then v.log ++ [(i, .stopOffer, τ)] else v.log, tasks := setT v.tasks (.offer i, n) t'' } := by
  have hnot : v.its[i]? ≠ some (some n) := by
    intro h
    obtain ⟨t0, h0, hc0, _, _⟩ := hi.own i n h
    rw [ht] at h0; cases h0; rw [hc] at hc0; cases hc0
  have hown' : ∀ j m, v.its[j]? = some (some m) → (TaskKind.offer j, m) ≠ (TaskKind.offer i, n) := by
    intro j m h e
    have hj : j = i := by simpa using (Prod.mk.inj e).1
    have hm : m = n := (Prod.mk.inj e).2
    subst hj; subst hm; exact hnot h
  have hcount : ∀ j, owed (setT v.tasks (.offer i, n) t'') j + (if j = i then 1 else 0) = owed v.tasks j := by
    intro j
    have := countP_setT (owedP j) v.tasks (.offer i, n) t t'' hi.nodup ht
    have e1 : owedP j ((TaskKind.offer i, n), t'') = false := by simp [owedP, hdone, isTryPc]
    have e2 : owedP j ((TaskKind.offer i, n), t) = decide (j = i) := by
      simp only [owedP, hc, htry, Bool.and_self, Bool.and_true]
      by_cases hj : j = i
      · subst hj; simp
      · simp [hj]; intro e; exact hj e.symm
    rw [e1, e2] at this
    unfold owed
    by_cases hj : j = i
    · simp [hj] at this ⊢; omega
    · simp [hj] at this ⊢; omega
  have hnd : ((setT v.tasks (.offer i, n) t'').map (·.1)).Nodup := by rw [map_fst_setT]; exact hi.nodup
  have hinst : ∀ p ∈ setT v.tasks (.offer i, n) t'', ∀ j, p.1.1 = .offer j → j < v.its.length := by
    intro p hp j hj
    obtain ⟨q, hq, e⟩ := mem_setT hp
    exact hi.inst q hq j (by rw [e]; exact hj)
  by_cases hcyc : v.cyc = 0
  · -- not cyclic: nothing is sent
    have : (if v.cyc ≠ 0 then v.log ++ [(i, OEv.stopOffer, τ)] else v.log) = v.log := by simp [hcyc]
    rw [this]
    refine ⟨hnd, hinst, hi.run, ?_, fun h => absurd hcyc h, hi.cnt0, hi.quiet⟩
    intro j m hjm
    show ∃ t, alookup (setT v.tasks _ _) _ = some t ∧ _
    rw [alookup_setT, if_neg (hown' j m hjm)]; exact hi.own j m hjm
  · have : (if v.cyc ≠ 0 then v.log ++ [(i, OEv.stopOffer, τ)] else v.log) = v.log ++ [(i, OEv.stopOffer, τ)] := by simp [hcyc]
    rw [this]
    have ei : oa i (v.log ++ [(i, .stopOffer, τ)]) = { oa i v.log with sos := (oa i v.log).sos + 1 } := by rw [oa_append_self]; rfl
    have eo : ∀ j, j ≠ i → oa j (v.log ++ [(i, .stopOffer, τ)]) = oa j v.log := fun j hj => oa_append_other _ _ _ _ _ (fun e => hj e.symm)
    refine ⟨hnd, hinst, ?_, ?_, ?_, fun h => absurd h hcyc, ?_⟩
    · intro j r h
      show (oa j (v.log ++ _)).running = _
      by_cases hj : j = i
      · subst hj; rw [ei]; exact hi.run j r h
      · rw [eo j hj]; exact hi.run j r h
    · intro j m hjm
      show ∃ t, alookup (setT v.tasks _ _) _ = some t ∧ _ ∧ (oa j (v.log ++ _)).offered = _ ∧ _
      rw [alookup_setT, if_neg (hown' j m hjm)]
      by_cases hj : j = i
      · subst hj; rw [ei]; exact hi.own j m hjm
      · rw [eo j hj]; exact hi.own j m hjm
    · intro hc' j
      show (oa j (v.log ++ _)).sos + owed (setT v.tasks _ _) j = (oa j (v.log ++ _)).stops
      have h1 := hcount j
      have h2 := hi.cnt hc' j
      by_cases hj : j = i
      · subst hj; rw [ei]; simp only [if_true] at h1; simp only []; omega
      · rw [eo j hj]; simp only [hj, if_false] at h1; omega
    · exact quiet_append hi.quiet _ (fun h => by cases h)

/-- `start()` of a stopped instance: a new task, held by the instance -/
theorem LI.start {v : LV} (hi : LI v) (i n τ : Nat) (hstopped : v.its[i]? = some none)
    (hfresh : ∀ p ∈ v.tasks, p.1 ≠ (.offer i, n)) :
    LI { v with log := v.log ++ [(i, .start, τ)], its := v.its.set i (some n),
                tasks := v.tasks ++ [((.offer i, n), ({} : TaskSt))] } := by
  have hlt : i < v.its.length := (List.getElem?_eq_some_iff.mp hstopped).1
  have ei : oa i (v.log ++ [(i, .start, τ)]) = { oa i v.log with running := true, offered := false } := by rw [oa_append_self]; rfl
  have eo : ∀ j, j ≠ i → oa j (v.log ++ [(i, .start, τ)]) = oa j v.log := fun j hj => oa_append_other _ _ _ _ _ (fun e => hj e.symm)
  have hcount : ∀ j, owed (v.tasks ++ [((.offer i, n), ({} : TaskSt))]) j = owed v.tasks j := by
    intro j; unfold owed; rw [List.countP_append]; simp [owedP]
  refine ⟨?_, ?_, ?_, ?_, ?_, ?_, ?_⟩
  · show ((v.tasks ++ [((TaskKind.offer i, n), ({} : TaskSt))]).map (fun p => p.1)).Nodup
    rw [List.map_append, List.nodup_append]
    refine ⟨hi.nodup, by simp, ?_⟩
    intro a ha b hb
    simp at hb; subst hb
    obtain ⟨p, hp, rfl⟩ := List.mem_map.mp ha
    exact hfresh p hp
  · intro p hp j hj
    show j < (v.its.set i (some n)).length
    rw [List.length_set]
    rcases List.mem_append.mp hp with hp | hp
    · exact hi.inst p hp j hj
    · simp at hp; subst hp
      have : j = i := by simpa using hj.symm
      rw [this]; exact hlt
  · intro j r h
    show (oa j (v.log ++ _)).running = _
    have h' : (v.its.set i (some n))[j]? = some r := h
    by_cases hj : j = i
    · subst hj
      rw [List.getElem?_set_self hlt] at h'
      cases h'; rw [ei]; rfl
    · rw [List.getElem?_set_ne (fun e => hj e.symm)] at h'
      rw [eo j hj]; exact hi.run j r h'
  · intro j m h
    have h' : (v.its.set i (some n))[j]? = some (some m) := h
    show ∃ t, alookup (v.tasks ++ [_]) _ = some t ∧ _ ∧ (oa j (v.log ++ _)).offered = _ ∧ _
    rw [alookup_append_new _ _ _ _ hfresh]
    by_cases hj : j = i
    · subst hj
      rw [List.getElem?_set_self hlt] at h'
      have hm : m = n := (Option.some.inj (Option.some.inj h')).symm
      subst hm
      rw [if_pos rfl, ei]
      exact ⟨{}, rfl, rfl, rfl, fun _ => by decide⟩
    · rw [List.getElem?_set_ne (fun e => hj e.symm)] at h'
      have hk : (TaskKind.offer j, m) ≠ (TaskKind.offer i, n) := by
        intro e; apply hj; simpa using (Prod.mk.inj e).1
      rw [if_neg hk, eo j hj]; exact hi.own j m h'
  · intro hc j
    show (oa j (v.log ++ _)).sos + owed (v.tasks ++ [_]) j = (oa j (v.log ++ _)).stops
    rw [hcount]
    by_cases hj : j = i
    · subst hj; rw [ei]; exact hi.cnt hc j
    · rw [eo j hj]; exact hi.cnt hc j
  · intro hc j
    show (oa j (v.log ++ _)).sos = (oa j (v.log ++ _)).allStops
    by_cases hj : j = i
    · subst hj; rw [ei]; exact hi.cnt0 hc j
    · rw [eo j hj]; exact hi.cnt0 hc j
  · exact quiet_append hi.quiet _ (fun h => by cases h)

/-- `stop()` of a running instance: its task is cancelled (unless it has finished) and let go; without a cyclic period the
StopOffer is sent at once -/
theorem LI.stop {v : LV} (hi : LI v) (i n τ : Nat) (t : TaskSt) (hrun : v.its[i]? = some (some n))
    (ht : alookup v.tasks (.offer i, n) = some t) (tasks' : List (Tid × TaskSt))
    (htasks : (t.pc = .done ∧ tasks' = v.tasks) ∨
              (t.pc ≠ .done ∧ ∃ t'', tasks' = setT v.tasks (.offer i, n) t'' ∧ t''.cancelled = true ∧ t''.pc = t.pc)) :
    LI { v with log := (v.log ++ [(i, .stop, τ)]) ++ (if v.cyc = 0 then [(i, .stopOffer, τ)] else []),
                its := v.its.set i none, tasks := tasks' } := by
  have hlt : i < v.its.length := (List.getElem?_eq_some_iff.mp hrun).1
  obtain ⟨t0, h0, hc0, hoff0, hdone0⟩ := hi.own i n hrun
  rw [ht] at h0; cases h0
  -- the tasks
  have hnd : (tasks'.map (·.1)).Nodup := by
    rcases htasks with ⟨_, rfl⟩ | ⟨_, t'', rfl, _, _⟩
    · exact hi.nodup
    · rw [map_fst_setT]; exact hi.nodup
  have hinst : ∀ p ∈ tasks', ∀ j, p.1.1 = .offer j → j < (v.its.set i none).length := by
    intro p hp j hj
    rw [List.length_set]
    rcases htasks with ⟨_, rfl⟩ | ⟨_, t'', rfl, _, _⟩
    · exact hi.inst p hp j hj
    · obtain ⟨q, hq, e⟩ := mem_setT hp
      exact hi.inst q hq j (by rw [e]; exact hj)
  have hlook : ∀ j m, (TaskKind.offer j, m) ≠ (TaskKind.offer i, n) → alookup tasks' (.offer j, m) = alookup v.tasks (.offer j, m) := by
    intro j m hk
    rcases htasks with ⟨_, rfl⟩ | ⟨_, t'', rfl, _, _⟩
    · rfl
    · rw [alookup_setT, if_neg hk]
  have hcount : ∀ j, owed tasks' j = owed v.tasks j + (if j = i ∧ isTryPc t.pc = true then 1 else 0) := by
    intro j
    rcases htasks with ⟨hd, rfl⟩ | ⟨_, t'', rfl, h1, h2⟩
    · have : isTryPc t.pc = false := by rw [hd]; rfl
      simp [this]
    · have := countP_setT (owedP j) v.tasks (.offer i, n) t t'' hi.nodup ht
      have e1 : owedP j ((TaskKind.offer i, n), t'') = (decide (j = i) && isTryPc t.pc) := by
        simp only [owedP, h1, h2, Bool.true_and]
        by_cases hj : j = i
        · subst hj; simp
        · simp [hj]; intro e; exact absurd e.symm hj
      have e2 : owedP j ((TaskKind.offer i, n), t) = false := by simp [owedP, hc0]
      rw [e1, e2] at this
      unfold owed
      by_cases hj : j = i
      · cases htp : isTryPc t.pc <;> simp [hj, htp] at this ⊢ <;> omega
      · simp [hj] at this ⊢; omega
  -- the log
  have ei1 : oa i (v.log ++ [(i, .stop, τ)]) =
      { oa i v.log with running := false, stops := (oa i v.log).stops + (if (oa i v.log).offered then 1 else 0),
                        allStops := (oa i v.log).allStops + 1 } := by rw [oa_append_self]; rfl
  have eo1 : ∀ j, j ≠ i → oa j (v.log ++ [(i, .stop, τ)]) = oa j v.log := fun j hj => oa_append_other _ _ _ _ _ (fun e => hj e.symm)
  have hq1 : Quiet (v.log ++ [(i, .stop, τ)]) := quiet_append hi.quiet _ (fun h => by cases h)
  have hits : ∀ j, j ≠ i → (v.its.set i none)[j]? = v.its[j]? := fun j hj => List.getElem?_set_ne (fun e => hj e.symm)
  have hitsi : (v.its.set i none)[i]? = some none := List.getElem?_set_self hlt
  have hown' : ∀ j m, (v.its.set i none)[j]? = some (some m) → j ≠ i := by
    intro j m h e; subst e; rw [hitsi] at h; cases h
  by_cases hcyc : v.cyc = 0
  · have : (if v.cyc = 0 then [(i, OEv.stopOffer, τ)] else []) = [(i, OEv.stopOffer, τ)] := by simp [hcyc]
    rw [this]
    have ei : oa i ((v.log ++ [(i, .stop, τ)]) ++ [(i, .stopOffer, τ)]) =
        { oa i v.log with running := false, stops := (oa i v.log).stops + (if (oa i v.log).offered then 1 else 0),
                          allStops := (oa i v.log).allStops + 1, sos := (oa i v.log).sos + 1 } := by
      rw [oa_append_self, ei1]; rfl
    have eo : ∀ j, j ≠ i → oa j ((v.log ++ [(i, .stop, τ)]) ++ [(i, .stopOffer, τ)]) = oa j v.log := by
      intro j hj; rw [oa_append_other _ _ _ _ _ (fun e => hj e.symm), eo1 j hj]
    refine ⟨hnd, hinst, ?_, ?_, fun h => absurd hcyc h, ?_, quiet_append hq1 _ (fun h => by cases h)⟩
    · intro j r h
      show (oa j ((v.log ++ _) ++ _)).running = _
      have h' : (v.its.set i none)[j]? = some r := h
      by_cases hj : j = i
      · subst hj; rw [hitsi] at h'; cases h'; rw [ei]; rfl
      · rw [hits j hj] at h'; rw [eo j hj]; exact hi.run j r h'
    · intro j m h
      have h' : (v.its.set i none)[j]? = some (some m) := h
      have hj := hown' j m h'
      rw [hits j hj] at h'
      show ∃ t, alookup tasks' _ = some t ∧ _ ∧ (oa j ((v.log ++ _) ++ _)).offered = _ ∧ _
      rw [hlook j m (fun e => hj (by simpa using (Prod.mk.inj e).1)), eo j hj]
      exact hi.own j m h'
    · intro _ j
      show (oa j ((v.log ++ _) ++ _)).sos = (oa j ((v.log ++ _) ++ _)).allStops
      have := hi.cnt0 hcyc j
      by_cases hj : j = i
      · subst hj; rw [ei]; simp only []; omega
      · rw [eo j hj]; exact this
  · have : (if v.cyc = 0 then [(i, OEv.stopOffer, τ)] else []) = [] := by simp [hcyc]
    rw [this, List.append_nil]
    refine ⟨hnd, hinst, ?_, ?_, ?_, fun h => absurd h hcyc, hq1⟩
    · intro j r h
      show (oa j (v.log ++ _)).running = _
      have h' : (v.its.set i none)[j]? = some r := h
      by_cases hj : j = i
      · subst hj; rw [hitsi] at h'; cases h'; rw [ei1]; rfl
      · rw [hits j hj] at h'; rw [eo1 j hj]; exact hi.run j r h'
    · intro j m h
      have h' : (v.its.set i none)[j]? = some (some m) := h
      have hj := hown' j m h'
      rw [hits j hj] at h'
      show ∃ t, alookup tasks' _ = some t ∧ _ ∧ (oa j (v.log ++ _)).offered = _ ∧ _
      rw [hlook j m (fun e => hj (by simpa using (Prod.mk.inj e).1)), eo1 j hj]
      exact hi.own j m h'
    · intro hc' j
      show (oa j (v.log ++ _)).sos + owed tasks' j = (oa j (v.log ++ _)).stops
      have h1 := hcount j
      have h2 := hi.cnt hc' j
      by_cases hj : j = i
      · subst hj
        rw [ei1, h1]
        simp only [true_and]
        -- offered ⇔ past the first offer ⇔ (not finished, with a cyclic period) inside the try block
        have hnd' := hdone0 hc'
        have : offeredPc t.pc = isTryPc t.pc := by
          cases hp : t.pc <;> simp [offeredPc, isTryPc, hp] at hnd' ⊢
        rw [hoff0, this]
        cases isTryPc t.pc <;> simp <;> omega
      · rw [eo1 j hj, h1]; simp only [hj, false_and, if_false]; omega

end Someip
