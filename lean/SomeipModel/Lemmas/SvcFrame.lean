/-
  Frame lemmas for the TTL handles of the discovery store: no operation outside ServiceDiscover's store functions
  changes the store of found services or the set of pending (scheduled or already fired) expiry handles of that store.
  Same proof scripts as DiscFrame.lean (other projection).
-/
import SomeipModel.Lemmas.DiscFrame
namespace Someip
namespace Stack
set_option linter.unusedSimpArgs false

/-- the discovery store together with its pending expiry handles: scheduled timers and fired-but-not-yet-run ones -/
def svcT (s : Stack) : TStore SvcKey × List (Timer Cb) × List (RItem Cb) × List (Addr × SvcKey × Nat × Nat) :=
  (s.found, s.loop.timers.filter (fun t => isSvcExpiry t.cb), s.loop.ready.filter (fun r => isSvcExpiry r.cb), s.refreshLog)

@[simp] theorem svcT_with_watched (s : Stack) (x : List (Service × List Listener)) : svcT { s with watched := x } = svcT s := rfl
@[simp] theorem svcT_with_watchAll (s : Stack) (x : List LId) : svcT { s with watchAll := x } = svcT s := rfl
@[simp] theorem svcT_with_alive (s : Stack) (x : Bool) : svcT { s with alive := x } = svcT s := rfl
@[simp] theorem svcT_with_subTask (s : Stack) (x : Option Nat) : svcT { s with subTask := x } = svcT s := rfl
@[simp] theorem svcT_with_findTask (s : Stack) (x : Option Nat) : svcT { s with findTask := x } = svcT s := rfl
@[simp] theorem svcT_with_subEntries (s : Stack) (x : List (Eventgroup × Addr)) : svcT { s with subEntries := x } = svcT s := rfl
@[simp] theorem svcT_with_started (s : Stack) (x : Bool) : svcT { s with started := x } = svcT s := rfl
@[simp] theorem svcT_with_announceOrder (s : Stack) (x : List Nat) : svcT { s with announceOrder := x } = svcT s := rfl
@[simp] theorem svcT_with_incoming (s : Stack) (x : Incoming) : svcT { s with incoming := x } = svcT s := rfl
@[simp] theorem svcT_with_draws (s : Stack) (x : List Nat) : svcT { s with draws := x } = svcT s := rfl
@[simp] theorem svcT_with_storeLog (s : Stack) (x : List (Bool × SvcKey × Addr)) : svcT { s with storeLog := x } = svcT s := rfl

@[simp] theorem svcT_with_tasks (s : Stack) (x : List (Tid × TaskSt)) : svcT { s with tasks := x } = svcT s := rfl
@[simp] theorem svcT_with_collectors (s : Stack) (x : List Collector) : svcT { s with collectors := x } = svcT s := rfl
@[simp] theorem svcT_with_nextCid (s : Stack) (x : Nat) : svcT { s with nextCid := x } = svcT s := rfl
@[simp] theorem svcT_with_outgoing (s : Stack) (x : Outgoing) : svcT { s with outgoing := x } = svcT s := rfl
@[simp] theorem svcT_with_instances (s : Stack) (x : List Instance) : svcT { s with instances := x } = svcT s := rfl
@[simp] theorem svcT_with_outs (s : Stack) (x : List (Nat × Out)) : svcT { s with outs := x } = svcT s := rfl
@[simp] theorem svcT_with_coll_nextCid (s : Stack) (x : List Collector) (y : Nat) : svcT { s with collectors := x, nextCid := y } = svcT s := rfl

@[simp] theorem svcT_emit (s : Stack) (o : Out) : svcT (s.emit o) = svcT s := rfl

/-- scheduling a callback that is not a discovery-store expiry leaves the handles alone -/
theorem svcT_callSoon (s : Stack) (cb : Cb) (h : isSvcExpiry cb = false) : svcT (s.callSoon cb) = svcT s := by
  simp [svcT, callSoon, Loop.callSoon, List.filter_append, h]
theorem svcT_callLater (s : Stack) (d : Nat) (cb : Cb) (h : isSvcExpiry cb = false) : svcT (s.callLater d cb).1 = svcT s := by
  simp [svcT, callLater, Loop.callLater, List.filter_append, h]

@[simp] theorem svcT_callSoon_connLost (s : Stack) (p : Part) : svcT (s.callSoon (.connLost p)) = svcT s := svcT_callSoon _ _ rfl
@[simp] theorem svcT_callLater_connLost (s : Stack) (d : Nat) (p : Part) : svcT (s.callLater d (.connLost p)).1 = svcT s := svcT_callLater _ _ _ rfl
@[simp] theorem svcT_callSoon_expiredSub (s : Stack) (i : Nat) (a : Addr) (k : SubKey) : svcT (s.callSoon (.expiredSub i a k)) = svcT s := svcT_callSoon _ _ rfl
@[simp] theorem svcT_callLater_expiredSub (s : Stack) (d : Nat) (i : Nat) (a : Addr) (k : SubKey) : svcT (s.callLater d (.expiredSub i a k)).1 = svcT s := svcT_callLater _ _ _ rfl
@[simp] theorem svcT_callSoon_sendStartSubscribe (s : Stack) (d' : Addr) (e : List Eventgroup) : svcT (s.callSoon (.sendStartSubscribe d' e)) = svcT s := svcT_callSoon _ _ rfl
@[simp] theorem svcT_callLater_sendStartSubscribe (s : Stack) (d : Nat) (d' : Addr) (e : List Eventgroup) : svcT (s.callLater d (.sendStartSubscribe d' e)).1 = svcT s := svcT_callLater _ _ _ rfl
@[simp] theorem svcT_callSoon_sendStopSubscribe (s : Stack) (d' : Addr) (e : List Eventgroup) : svcT (s.callSoon (.sendStopSubscribe d' e)) = svcT s := svcT_callSoon _ _ rfl
@[simp] theorem svcT_callLater_sendStopSubscribe (s : Stack) (d : Nat) (d' : Addr) (e : List Eventgroup) : svcT (s.callLater d (.sendStopSubscribe d' e)).1 = svcT s := svcT_callLater _ _ _ rfl
@[simp] theorem svcT_callSoon_sendOfferTo (s : Stack) (i : Nat) (a : Addr) : svcT (s.callSoon (.sendOfferTo i a)) = svcT s := svcT_callSoon _ _ rfl
@[simp] theorem svcT_callLater_sendOfferTo (s : Stack) (d : Nat) (i : Nat) (a : Addr) : svcT (s.callLater d (.sendOfferTo i a)).1 = svcT s := svcT_callLater _ _ _ rfl
@[simp] theorem svcT_callSoon_collectorTimeout (s : Stack) (c : Nat) : svcT (s.callSoon (.collectorTimeout c)) = svcT s := svcT_callSoon _ _ rfl
@[simp] theorem svcT_callLater_collectorTimeout (s : Stack) (d : Nat) (c : Nat) : svcT (s.callLater d (.collectorTimeout c)).1 = svcT s := svcT_callLater _ _ _ rfl
@[simp] theorem svcT_callSoon_taskStep (s : Stack) (t : Tid) : svcT (s.callSoon (.taskStep t)) = svcT s := svcT_callSoon _ _ rfl
@[simp] theorem svcT_callLater_taskStep (s : Stack) (d : Nat) (t : Tid) : svcT (s.callLater d (.taskStep t)).1 = svcT s := svcT_callLater _ _ _ rfl
@[simp] theorem svcT_callSoon_sleepDone (s : Stack) (t : Tid) : svcT (s.callSoon (.sleepDone t)) = svcT s := svcT_callSoon _ _ rfl
@[simp] theorem svcT_callLater_sleepDone (s : Stack) (d : Nat) (t : Tid) : svcT (s.callLater d (.sleepDone t)).1 = svcT s := svcT_callLater _ _ _ rfl

/-- cancelling a handle of another component (`own` never holds for a discovery-store expiry) -/
theorem svcT_cancelTimer_other (s : Stack) (own : Cb → Bool) (t : Option Nat) (h : ∀ cb, own cb = true → isSvcExpiry cb = false) :
    svcT (s.cancelTimer own t) = svcT s := by
  cases t with
  | none => rfl
  | some q =>
    simp only [svcT, cancelTimer, Loop.cancelOpt, Loop.cancel, List.filter_filter]
    refine Prod.ext rfl (Prod.ext ?_ (Prod.ext ?_ rfl))
    · apply List.filter_congr; intro x _
      cases h1 : isSvcExpiry x.cb
      · simp
      · have : own x.cb = false := by
          cases h2 : own x.cb
          · rfl
          · have := h _ h2; rw [h1] at this; cases this
        simp [this]
    · apply List.filter_congr; intro x _
      cases h1 : isSvcExpiry x.cb
      · simp
      · have : own x.cb = false := by
          cases h2 : own x.cb
          · rfl
          · have := h _ h2; rw [h1] at this; cases this
        simp [this]
@[simp] theorem svcT_cancelTimer_sub (s : Stack) (t : Option Nat) : svcT (s.cancelTimer isSubExpiry t) = svcT s :=
  svcT_cancelTimer_other s _ t (fun cb h => by cases cb <;> simp_all [isSubExpiry, isSvcExpiry])
@[simp] theorem svcT_cancelTimer_subFor (s : Stack) (i : Nat) (a : Addr) (k : SubKey) (t : Option Nat) : svcT (s.cancelTimer (isSubExpiryFor i a k) t) = svcT s :=
  svcT_cancelTimer_other s _ t (fun cb h => by cases cb <;> simp_all [isSubExpiryFor, isSvcExpiry])
@[simp] theorem svcT_cancelTimer_sleep (s : Stack) (tid : Tid) (t : Option Nat) : svcT (s.cancelTimer (isSleepFor tid) t) = svcT s :=
  svcT_cancelTimer_other s _ t (fun cb h => by cases cb <;> simp_all [isSleepFor, isSvcExpiry])

@[simp] theorem isSvc_connLost (p : Part) : isSvcExpiry (.connLost p) = false := rfl
@[simp] theorem isSvc_expiredSub (i : Nat) (a : Addr) (k : SubKey) : isSvcExpiry (.expiredSub i a k) = false := rfl
@[simp] theorem isSvc_sendStart (d : Addr) (e : List Eventgroup) : isSvcExpiry (.sendStartSubscribe d e) = false := rfl
@[simp] theorem isSvc_sendStop (d : Addr) (e : List Eventgroup) : isSvcExpiry (.sendStopSubscribe d e) = false := rfl
@[simp] theorem isSvc_sendOfferTo (i : Nat) (a : Addr) : isSvcExpiry (.sendOfferTo i a) = false := rfl
@[simp] theorem isSvc_collectorTimeout (c : Nat) : isSvcExpiry (.collectorTimeout c) = false := rfl
@[simp] theorem isSvc_taskStep (t : Tid) : isSvcExpiry (.taskStep t) = false := rfl
@[simp] theorem isSvc_sleepDone (t : Tid) : isSvcExpiry (.sleepDone t) = false := rfl

@[simp] theorem svcT_draw (s : Stack) (a b : Nat) : svcT (s.draw a b).1 = svcT s := by
  unfold draw; split <;> rfl
theorem svcT_armTtl (s : Stack) (ttl : Nat) (cb : Cb) (h : isSvcExpiry cb = false) : svcT (s.armTtl ttl cb).1 = svcT s := by
  unfold armTtl; split
  · exact svcT_callLater _ _ _ h
  · rfl
@[simp] theorem svcT_armTtl_sub (s : Stack) (ttl i : Nat) (a : Addr) (k : SubKey) : svcT (s.armTtl ttl (.expiredSub i a k)).1 = svcT s :=
  svcT_armTtl _ _ _ rfl
@[simp] theorem svcT_setInst (s : Stack) (i : Nat) (x : Instance) : svcT (s.setInst i x) = svcT s := rfl
@[simp] theorem svcT_setTask (s : Stack) (i : Tid) (x : TaskSt) : svcT (s.setTask i x) = svcT s := rfl

@[simp] theorem svcT_sendSd (s : Stack) (es : List SDEntry) (d : Dest) : svcT (s.sendSd es d) = svcT s := by
  unfold sendSd; split; rfl; simp only []; split; rfl; split <;> rfl

@[simp] theorem svcT_with_flushLog (s : Stack) (x : List (Dest × List SDEntry)) : svcT { s with flushLog := x } = svcT s := rfl
@[simp] theorem svcT_with_subLog (s : Stack) (x : List (Addr × Nat × List Eventgroup)) : svcT { s with subLog := x } = svcT s := rfl
@[simp] theorem svcT_with_findLog (s : Stack) (x : List (Nat × Nat)) : svcT { s with findLog := x } = svcT s := rfl
@[simp] theorem svcT_with_findMarks (s : Stack) (x : List (Nat × Nat)) : svcT { s with findMarks := x } = svcT s := rfl
@[simp] theorem svcT_with_ansLog (s : Stack) (x : List (Nat × Addr × Nat × Nat)) : svcT { s with ansLog := x } = svcT s := rfl
@[simp] theorem svcT_with_lisLog (s : Stack) (x : List (LId × Bool × SvcKey × Addr)) : svcT { s with lisLog := x } = svcT s := rfl
@[simp] theorem svcT_logLis (s : Stack) (id : LId) (o : Bool) (k : SvcKey) (a : Addr) : svcT (s.logLis id o k a) = svcT s := rfl
@[simp] theorem svcT_with_lisDup (s : Stack) (x : Bool) : svcT { s with lisDup := x } = svcT s := rfl
@[simp] theorem svcT_markDup (s : Stack) (d : Bool) : svcT (s.markDup d) = svcT s := rfl
@[simp] theorem svcT_logAnswer (s : Stack) (i : Nat) (a : Addr) (d : Nat) : svcT (s.logAnswer i a d) = svcT s := rfl
@[simp] theorem svcT_markFind (s : Stack) (n : Nat) : svcT (s.markFind n) = svcT s := rfl
@[simp] theorem svcT_with_offLog (s : Stack) (x : List (Nat × OEv × Nat)) : svcT { s with offLog := x } = svcT s := rfl
@[simp] theorem svcT_logOffer (s : Stack) (i : Nat) (e : OEv) : svcT (s.logOffer i e) = svcT s := rfl
@[simp] theorem svcT_with_subMarks (s : Stack) (x : List (Option Nat × Nat)) : svcT { s with subMarks := x } = svcT s := rfl
@[simp] theorem svcT_markRound (s : Stack) (n : Nat) : svcT (s.markRound n) = svcT s := rfl
@[simp] theorem svcT_with_subDup (s : Stack) (x : Bool) : svcT { s with subDup := x } = svcT s := rfl
@[simp] theorem svcT_with_subLost (s : Stack) (x : Bool) : svcT { s with subLost := x } = svcT s := rfl
@[simp] theorem svcT_with_alive_subLost (s : Stack) (x y : Bool) : svcT { s with alive := x, subLost := y } = svcT s := rfl
@[simp] theorem svcT_with_subDup_subEntries (s : Stack) (x : Bool) (y : List (Eventgroup × Addr)) : svcT { s with subDup := x, subEntries := y } = svcT s := rfl
@[simp] theorem svcT_flushTo (s : Stack) (es : List SDEntry) (d : Dest) : svcT (s.flushTo es d) = svcT s := by
  unfold flushTo; rw [svcT_sendSd]; rfl

@[simp] theorem svcT_newCollector (s : Stack) (d : Dest) : svcT (s.newCollector d).1 = svcT s := by
  unfold newCollector; simp only []
  exact (svcT_with_coll_nextCid _ _ _).trans (by simp)
@[simp] theorem svcT_appendCollector (s : Stack) (c : Nat) (e : SDEntry) : svcT (s.appendCollector c e) = svcT s := rfl

@[simp] theorem svcT_queueSend (s : Stack) (e : SDEntry) (d : Dest) : svcT (s.queueSend e d) = svcT s := by
  unfold queueSend; simp only []; split
  · simp
  · split
    · split <;> simp
    · simp

@[simp] theorem svcT_collectorTimeout (s : Stack) (c : Nat) : svcT (s.collectorTimeout c) = svcT s := by
  unfold collectorTimeout; split; rfl; simp only []; rw [svcT_flushTo]; rfl

@[simp] theorem svcT_createTask (s : Stack) (k : TaskKind) : svcT (s.createTask k).1 = svcT s := by
  unfold createTask; simp
@[simp] theorem svcT_cancelTask (s : Stack) (t : Tid) : svcT (s.cancelTask t) = svcT s := by
  unfold cancelTask; split; rfl; split; rfl; split <;> simp
@[simp] theorem svcT_sleepFor (s : Stack) (tid : Tid) (t : TaskSt) (d : Nat) (pc : Pc) : svcT (s.sleepFor tid t d pc) = svcT s := by
  unfold sleepFor; split <;> simp
@[simp] theorem svcT_finish (s : Stack) (tid : Tid) (t : TaskSt) : svcT (s.finish tid t) = svcT s := rfl
@[simp] theorem svcT_sleepDone (s : Stack) (tid : Tid) : svcT (s.sleepDone tid) = svcT s := by
  unfold sleepDone; split; rfl; split <;> simp

@[simp] theorem svcT_sendOffer (s : Stack) (i : Nat) (r : Dest) (b : Bool) : svcT (s.sendOffer i r b) = svcT s := by
  unfold sendOffer; split; rfl; split; rfl; simp

@[simp] theorem svcT_stepOffer (s : Stack) (tid : Tid) (t : TaskSt) (i : Nat) : svcT (s.stepOffer tid t i) = svcT s := by
  unfold stepOffer
  simp only []
  split
  · split <;> simp
  · split
    · simp
    · (repeat' split) <;> simp
  · split
    · (repeat' split) <;> simp
    · (repeat' split) <;> simp
  · split
    · (repeat' split) <;> simp
    · simp
  · rfl

@[simp] theorem svcT_instStart (s : Stack) (i : Nat) : svcT (s.instStart i) = svcT s := by
  unfold instStart; split; rfl; split; simp; simp only []; split <;> simp

@[simp] theorem svcT_subsStopAllFor (s : Stack) (i : Nat) (a : Addr) : svcT (s.subsStopAllFor i a) = svcT s := by
  unfold subsStopAllFor; split; rfl
  simp only []
  rw [foldl_pres svcT _ (fun s e => by simp)]; rfl

@[simp] theorem svcT_subsStopAll (s : Stack) (i : Nat) : svcT (s.subsStopAll i) = svcT s := by
  unfold subsStopAll; split; rfl
  simp only []
  split
  · simp only [svcT_setInst]; rw [foldl_pres svcT _ (fun s e => by simp)]
  · rw [foldl_pres svcT _ (fun s e => by simp)]

@[simp] theorem svcT_instStop (s : Stack) (i : Nat) : svcT (s.instStop i) = svcT s := by
  unfold instStop; split; rfl; split; simp; simp only []; split <;> simp

@[simp] theorem svcT_instHandleSubscribe (s : Stack) (i : Nat) (e : SDEntry) (a : Addr) :
    svcT (s.instHandleSubscribe i e a).1 = svcT s := by
  unfold instHandleSubscribe
  frame_cases

@[simp] theorem svcT_handleSubscribe (s : Stack) (e : SDEntry) (a : Addr) : svcT (s.handleSubscribe e a) = svcT s := by
  unfold handleSubscribe
  simp only []
  have key : ∀ (l : List Nat) (acc : Stack × Bool),
      svcT (l.foldl (fun (acc : Stack × Bool) i => ((acc.1.instHandleSubscribe i e a).1, acc.2 || (acc.1.instHandleSubscribe i e a).2)) acc).1 = svcT acc.1 := by
    intro l; induction l with
    | nil => intro acc; rfl
    | cons x t ih => intro acc; rw [List.foldl_cons, ih]; simp
  split
  · exact key _ _
  · rw [svcT_queueSend]; exact key _ _

@[simp] theorem svcT_handleFind (s : Stack) (e : SDEntry) (a : Addr) (mc : Bool) : svcT (s.handleFind e a mc) = svcT s := by
  unfold handleFind; simp only []
  split; rfl
  split
  · rw [foldl_pres svcT _ (fun s i => by simp)]; simp
  · rw [foldl_pres svcT _ (fun s i => by simp)]

@[simp] theorem svcT_expiredSub (s : Stack) (i : Nat) (a : Addr) (k : SubKey) : svcT (s.expiredSub i a k) = svcT s := by
  unfold expiredSub; split; rfl; simp only []; split <;> simp

@[simp] theorem svcT_announcerStart (s : Stack) : svcT s.announcerStart = svcT s := by
  unfold announcerStart; simp only []
  show svcT (List.foldl (fun s i => s.instStart i) s s.announceOrder) = svcT s
  rw [foldl_pres svcT _ (fun s i => by simp)]

@[simp] theorem svcT_announcerStop (s : Stack) : svcT s.announcerStop = svcT s := by
  unfold announcerStop; split; rfl
  show svcT (List.foldl (fun s i => s.instStop i) s s.announceOrder) = svcT s
  rw [foldl_pres svcT _ (fun s i => by simp)]

@[simp] theorem svcT_announcerReboot (s : Stack) (a : Addr) : svcT (s.announcerReboot a) = svcT s := by
  unfold announcerReboot; rw [foldl_pres svcT _ (fun s i => by simp)]

@[simp] theorem svcT_announceService (s : Stack) (i : Nat) : svcT (s.announceService i) = svcT s := by
  unfold announceService; simp only []; split
  · show svcT (s.instStart i) = svcT s; simp
  · rfl

@[simp] theorem svcT_stopAnnounceService (s : Stack) (i : Nat) (b : Bool) : svcT (s.stopAnnounceService i b) = svcT s := by
  unfold stopAnnounceService; split; simp; simp only []; split
  · rw [svcT_instStop]; rfl
  · rfl

@[simp] theorem svcT_sendSubscribe (s : Stack) (ttl : Nat) (d : Addr) (egs : List Eventgroup) :
    svcT (s.sendSubscribe ttl d egs) = svcT s := by simp [sendSubscribe]

@[simp] theorem svcT_subscribeEventgroup (s : Stack) (g : Eventgroup) (d : Addr) : svcT (s.subscribeEventgroup g d) = svcT s := by
  unfold subscribeEventgroup; simp only []; split <;> simp

@[simp] theorem svcT_stopSubscribeEventgroup (s : Stack) (g : Eventgroup) (d : Addr) (b : Bool) :
    svcT (s.stopSubscribeEventgroup g d b) = svcT s := by
  unfold stopSubscribeEventgroup; split
  · simp only []; split <;> simp
  · rfl

@[simp] theorem svcT_subscriberStart (s : Stack) : svcT s.subscriberStart = svcT s := by
  unfold subscriberStart; split
  · rfl
  · simp only []
    exact (svcT_with_subTask _ _).trans (by simp; rfl)

@[simp] theorem svcT_subscriberStop (s : Stack) (b : Bool) : svcT (s.subscriberStop b) = svcT s := by
  unfold subscriberStop; split; rfl
  simp only []
  have h1 : svcT (match ({ s with alive := false, subLost := !b } : Stack).subTask with
      | some tid => { ({ s with alive := false, subLost := !b } : Stack).cancelTask (.subscribe, tid) with subTask := none }
      | none => ({ s with alive := false, subLost := !b } : Stack)) = svcT s := by
    split
    · show svcT (({ s with alive := false, subLost := !b } : Stack).cancelTask _) = svcT s; rw [svcT_cancelTask]; rfl
    · rfl
  split
  · rw [foldl_pres svcT _ (fun s p => by simp)]; exact h1
  · exact h1

@[simp] theorem svcT_stepSubscribe (s : Stack) (tid : Tid) (t : TaskSt) : svcT (s.stepSubscribe tid t) = svcT s := by
  unfold stepSubscribe
  simp only []
  have key : ∀ st : Stack, svcT (List.foldl (fun s p => s.sendSubscribe s.tm.subscribeTtl p.1 p.2) st (groupEntries st.subEntries)) = svcT st :=
    fun st => foldl_pres svcT _ (fun s p => by simp) _ _
  split
  · split; simp; split <;> simp [key]
  · split; simp; split <;> simp [key]
  · rfl

@[simp] theorem svcT_listenerOffered (s : Stack) (l : Listener) (k : SvcKey) (a : Addr) : svcT (s.listenerOffered l k a) = svcT s := by
  unfold listenerOffered; frame_cases
@[simp] theorem svcT_listenerStopped (s : Stack) (l : Listener) (k : SvcKey) (a : Addr) : svcT (s.listenerStopped l k a) = svcT s := by
  unfold listenerStopped; frame_cases

@[simp] theorem svcT_replay (s : Stack) (b : Bool) (f : Option Service) (l : Listener) : svcT (s.replay b f l) = svcT s := by
  unfold replay
  rw [foldl_pres svcT _ (fun s p => by frame_cases)]

@[simp] theorem svcT_watchService (s : Stack) (f : Service) (l : Listener) : svcT (s.watchService f l) = svcT s := by
  unfold watchService; simp only []; rw [svcT_markDup, svcT_replay]; rfl
@[simp] theorem svcT_stopWatchService (s : Stack) (f : Service) (l : Listener) : svcT (s.stopWatchService f l) = svcT s := by
  unfold stopWatchService; simp only []; split
  · simp
  · rw [svcT_replay]; rfl
@[simp] theorem svcT_watchAllServices (s : Stack) (id : LId) : svcT (s.watchAllServices id) = svcT s := by
  unfold watchAllServices; rw [svcT_markDup, svcT_replay]; rfl
@[simp] theorem svcT_stopWatchAllServices (s : Stack) (id : LId) : svcT (s.stopWatchAllServices id) = svcT s := by
  unfold stopWatchAllServices; split
  · simp
  · rw [svcT_replay]; rfl

@[simp] theorem svcT_stepFind (s : Stack) (tid : Tid) (t : TaskSt) : svcT (s.stepFind tid t) = svcT s := by
  unfold stepFind; frame_cases

@[simp] theorem svcT_discoveryStart (s : Stack) : svcT s.discoveryStart = svcT s := by
  unfold discoveryStart; simp only []
  split
  · split <;> simp
  · simp
@[simp] theorem svcT_discoveryStop (s : Stack) : svcT s.discoveryStop = svcT s := by
  unfold discoveryStop; split
  · show svcT (s.cancelTask _) = svcT s; simp
  · rfl

@[simp] theorem svcT_start (s : Stack) : svcT s.start = svcT s := by simp [start]
@[simp] theorem svcT_stop (s : Stack) : svcT s.stop = svcT s := by simp [Stack.stop]
@[simp] theorem svcT_connectionLost (s : Stack) : svcT s.connectionLost = svcT s := by simp [connectionLost]

end Stack
end Someip
