/-
  The send-queue invariant of the announcer (C15, whole-run).  In every reachable state, for every destination d:

      entries queued for d so far  =  entries of the batches already handed to send_sd for d  ++  entries waiting in
                                      d's open collection window

  (as LISTS: nothing is lost, duplicated, reordered or sent to another destination), every open window is the latest
  collector of its destination and holds exactly one pending timeout handle, a closed one holds none, and with a
  collection timeout of zero there are no windows at all.
-/
import SomeipModel.Lemmas.QFrame
namespace Someip
namespace Stack
set_option linter.unusedSimpArgs false
set_option linter.unusedVariables false

def isCollFor (cid : Nat) : Cb → Bool | .collectorTimeout c => c == cid | _ => false

theorem collFor_iff {cid : Nat} {cb : Cb} : isCollFor cid cb = true ↔ cb = .collectorTimeout cid := by
  cases cb <;> simp [isCollFor]
theorem collFor_coll {cid : Nat} {cb : Cb} (h : isCollFor cid cb = true) : isCollTimeout cb = true := by
  rw [collFor_iff] at h; subst h; rfl

/-- entries queued for d (ghost outputs), in order -/
def queuedFor (d : Dest) (outs : List (Nat × Out)) : List SDEntry :=
  outs.filterMap (fun o => match o.2 with | .queued d' e => if d' = d then some e else none | _ => none)
/-- entries of the batches handed to send_sd for d, in order -/
def flushedFor (d : Dest) (fl : List (Dest × List SDEntry)) : List SDEntry :=
  (fl.filter (fun p => decide (p.1 = d))).flatMap (·.2)
/-- entries waiting in d's open window -/
def pendFor (cs : List Collector) (d : Dest) : List SDEntry :=
  match (cs.reverse.find? (fun c => decide (c.dest = d))) with
  | some c => if c.done then [] else c.data
  | none => []
/-- number of pending (scheduled or fired) timeout handles of collector `cid` -/
def nC (s : Stack) (cid : Nat) : Nat :=
  (s.loop.timers.filter (fun t => isCollFor cid t.cb)).length + (s.loop.ready.filter (fun r => isCollFor cid r.cb)).length

structure QInv (s : Stack) : Prop where
  zero : s.tm.sendCollectionTimeout = 0 → s.collectors = []
  cids : ∀ c ∈ s.collectors, c.cid < s.nextCid
  nodup : (s.collectors.map (·.cid)).Nodup
  handles : ∀ c ∈ s.collectors, nC s c.cid = if c.done then 0 else 1
  nohandle : ∀ cid, (∀ c ∈ s.collectors, c.cid ≠ cid) → nC s cid = 0
  latest : ∀ c ∈ s.collectors, c.done = false → s.latestCollector c.dest = some c
  cons : ∀ d, queuedFor d s.outs = flushedFor d s.flushLog ++ pendFor s.collectors d

/-! ### the invariant only reads the projection -/

theorem queuedFor_filter (d : Dest) (outs : List (Nat × Out)) :
    queuedFor d (outs.filter (fun o => isQueued o.2)) = queuedFor d outs := by
  induction outs with
  | nil => rfl
  | cons o t ih =>
    obtain ⟨tt, oo⟩ := o
    cases oo <;> simp [queuedFor, List.filter_cons, isQueued, List.filterMap_cons] at ih ⊢ <;> first | exact ih | (split <;> simp [ih])

theorem filter_collFor {α : Type} (cbOf : α → Cb) (l : List α) (cid : Nat) :
    (l.filter (fun x => isCollTimeout (cbOf x))).filter (fun x => isCollFor cid (cbOf x)) = l.filter (fun x => isCollFor cid (cbOf x)) := by
  rw [List.filter_filter]
  apply List.filter_congr
  intro x _
  cases h : isCollFor cid (cbOf x)
  · simp
  · simp [collFor_coll h]

theorem nC_of_qpi {s s' : Stack} (h : qpi s' = qpi s) (cid : Nat) : nC s' cid = nC s cid := by
  have h1 : s'.loop.timers.filter (fun t => isCollTimeout t.cb) = s.loop.timers.filter (fun t => isCollTimeout t.cb) :=
    congrArg (fun p => p.2.2.2.2.2.1) h
  have h2 : s'.loop.ready.filter (fun t => isCollTimeout t.cb) = s.loop.ready.filter (fun t => isCollTimeout t.cb) :=
    congrArg (fun p => p.2.2.2.2.2.2.1) h
  unfold nC
  rw [← filter_collFor (·.cb) s'.loop.timers, ← filter_collFor (·.cb) s.loop.timers, h1,
    ← filter_collFor (·.cb) s'.loop.ready, ← filter_collFor (·.cb) s.loop.ready, h2]

theorem qinv_of_qpi {s s' : Stack} (h : qpi s' = qpi s) (hi : QInv s) : QInv s' := by
  have e1 : s'.outs.filter (fun o => isQueued o.2) = s.outs.filter (fun o => isQueued o.2) := congrArg (fun p => p.1) h
  have e2 : s'.flushLog = s.flushLog := congrArg (fun p => p.2.1) h
  have e3 : s'.collectors = s.collectors := congrArg (fun p => p.2.2.1) h
  have e4 : s'.nextCid = s.nextCid := congrArg (fun p => p.2.2.2.1) h
  have e5 : s'.tm.sendCollectionTimeout = s.tm.sendCollectionTimeout := congrArg (fun p => p.2.2.2.2.1) h
  have e6 : ∀ d, s'.latestCollector d = s.latestCollector d := fun d => by unfold latestCollector; rw [e3]
  refine ⟨?_, ?_, ?_, ?_, ?_, ?_, ?_⟩
  · rw [e5, e3]; exact hi.zero
  · rw [e3, e4]; exact hi.cids
  · rw [e3]; exact hi.nodup
  · rw [e3]; intro c hc; rw [nC_of_qpi h]; exact hi.handles c hc
  · rw [e3]; intro cid hc; rw [nC_of_qpi h]; exact hi.nohandle cid hc
  · rw [e3]; intro c hc hd; rw [e6]; exact hi.latest c hc hd
  · intro d
    rw [← queuedFor_filter, e1, queuedFor_filter, e2, e3]; exact hi.cons d

/-! ### the latest collector of a destination -/

def latestOf (cs : List Collector) (d : Dest) : Option Collector := cs.reverse.find? (fun c => decide (c.dest = d))
theorem latestCollector_eq (s : Stack) (d : Dest) : s.latestCollector d = latestOf s.collectors d := rfl
theorem pendFor_eq (cs : List Collector) (d : Dest) :
    pendFor cs d = match latestOf cs d with | some c => if c.done then [] else c.data | none => [] := rfl

theorem latestOf_append_one (cs : List Collector) (c : Collector) (d : Dest) :
    latestOf (cs ++ [c]) d = if c.dest = d then some c else latestOf cs d := by
  unfold latestOf
  simp only [List.reverse_append, List.reverse_cons, List.reverse_nil, List.nil_append, List.cons_append, List.find?_cons]
  by_cases h : c.dest = d <;> simp [h]

theorem latestOf_map (cs : List Collector) (f : Collector → Collector) (hf : ∀ c, (f c).dest = c.dest) (d : Dest) :
    latestOf (cs.map f) d = (latestOf cs d).map f := by
  unfold latestOf
  rw [← List.map_reverse]
  generalize cs.reverse = l
  induction l with
  | nil => rfl
  | cons x t ih =>
    simp only [List.map_cons, List.find?_cons, hf]
    by_cases h : x.dest = d <;> simp [h, ih]

theorem latestOf_mem {cs : List Collector} {d : Dest} {c : Collector} (h : latestOf cs d = some c) : c ∈ cs ∧ c.dest = d := by
  unfold latestOf at h
  have h1 := List.mem_of_find?_eq_some h
  have h2 := List.find?_some h
  exact ⟨List.mem_reverse.mp h1, by simpa using h2⟩

/-! ### counting handles -/

theorem nC_callLater_coll (s : Stack) (d cid cid' : Nat) :
    nC (s.callLater d (.collectorTimeout cid)).1 cid' = nC s cid' + (if cid = cid' then 1 else 0) := by
  unfold nC
  simp only [callLater, Loop.callLater, List.filter_append, List.length_append, List.filter_cons, List.filter_nil]
  by_cases h : cid = cid'
  · subst h; simp [isCollFor]; omega
  · have : isCollFor cid' (Cb.collectorTimeout cid) = false := by simp [isCollFor, h]
    simp [this, h]

/-! ### `queue_send` -/

def upd (cid : Nat) (e : SDEntry) (c : Collector) : Collector := if c.cid = cid then { c with data := c.data ++ [e] } else c
theorem upd_cid (cid : Nat) (e : SDEntry) (c : Collector) : (upd cid e c).cid = c.cid := by unfold upd; split <;> rfl
theorem upd_dest (cid : Nat) (e : SDEntry) (c : Collector) : (upd cid e c).dest = c.dest := by unfold upd; split <;> rfl
theorem upd_done (cid : Nat) (e : SDEntry) (c : Collector) : (upd cid e c).done = c.done := by unfold upd; split <;> rfl
theorem upd_other {cid : Nat} {e : SDEntry} {c : Collector} (h : c.cid ≠ cid) : upd cid e c = c := by unfold upd; simp [h]
theorem appendCollector_eq (s : Stack) (cid : Nat) (e : SDEntry) :
    s.appendCollector cid e = { s with collectors := s.collectors.map (upd cid e) } := rfl

theorem map_upd_fresh (cs : List Collector) (cid : Nat) (e : SDEntry) (h : ∀ c ∈ cs, c.cid ≠ cid) : cs.map (upd cid e) = cs := by
  induction cs with
  | nil => rfl
  | cons x t ih =>
    simp only [List.map_cons, upd_other (h x (by simp)), ih (fun c hc => h c (by simp [hc]))]

theorem eq_of_cid {cs : List Collector} (hnd : (cs.map (·.cid)).Nodup) {a b : Collector} (ha : a ∈ cs) (hb : b ∈ cs)
    (h : a.cid = b.cid) : a = b := by
  induction cs with
  | nil => cases ha
  | cons x t ih =>
    simp only [List.map_cons, List.nodup_cons, List.mem_map, not_exists, not_and] at hnd
    rcases List.mem_cons.mp ha with e1 | e1 <;> rcases List.mem_cons.mp hb with e2 | e2
    · rw [e1, e2]
    · subst e1; exact absurd h.symm (hnd.1 b e2)
    · subst e2; exact absurd h (hnd.1 a e1)
    · exact ih hnd.2 e1 e2

theorem queuedFor_append_queued (d d' : Dest) (outs : List (Nat × Out)) (t : Nat) (e : SDEntry) :
    queuedFor d' (outs ++ [(t, .queued d e)]) = queuedFor d' outs ++ (if d = d' then [e] else []) := by
  unfold queuedFor
  rw [List.filterMap_append]
  by_cases h : d = d' <;> simp [h]

theorem flushedFor_append (d d' : Dest) (fl : List (Dest × List SDEntry)) (es : List SDEntry) :
    flushedFor d' (fl ++ [(d, es)]) = flushedFor d' fl ++ (if d = d' then es else []) := by
  unfold flushedFor
  rw [List.filter_append]
  by_cases h : d = d' <;> simp [h, List.filter_cons]

/-- the state after `emit (queued d e)`: only the outputs grew -/
theorem qinv_new_window (s : Stack) (e : SDEntry) (d : Dest) (hi : QInv s)
    (hc : s.tm.sendCollectionTimeout ≠ 0) (hp : pendFor s.collectors d = [])
    (hno : ∀ c ∈ s.collectors, c.done = false → c.dest ≠ d) :
    QInv (((s.emit (.queued d e)).newCollector d).1.appendCollector ((s.emit (.queued d e)).newCollector d).2 e) := by
  have hfresh : ∀ c ∈ s.collectors, c.cid ≠ s.nextCid := fun c hc' => Nat.ne_of_lt (hi.cids c hc')
  have hcs : (((s.emit (.queued d e)).newCollector d).1.appendCollector ((s.emit (.queued d e)).newCollector d).2 e).collectors =
      s.collectors ++ [{ cid := s.nextCid, dest := d, data := [e] }] := by
    simp only [appendCollector_eq, newCollector, callLater, emit, List.map_append, List.map_cons, List.map_nil,
      map_upd_fresh _ _ _ hfresh]
    simp [upd]
  have hn : ∀ cid, nC (((s.emit (.queued d e)).newCollector d).1.appendCollector ((s.emit (.queued d e)).newCollector d).2 e) cid =
      nC s cid + (if s.nextCid = cid then 1 else 0) := by
    intro cid
    have := nC_callLater_coll (s.emit (.queued d e)) s.tm.sendCollectionTimeout s.nextCid cid
    exact this
  refine ⟨fun h0 => absurd h0 hc, ?_, ?_, ?_, ?_, ?_, ?_⟩
  · rw [hcs]; intro c hc'
    simp only [List.mem_append, List.mem_singleton] at hc'
    show c.cid < s.nextCid + 1
    rcases hc' with h | h
    · exact Nat.lt_succ_of_lt (hi.cids c h)
    · subst h; exact Nat.lt_succ_self _
  · rw [hcs]
    simp only [List.map_append, List.map_cons, List.map_nil]
    refine List.nodup_append.mpr ⟨hi.nodup, by simp, ?_⟩
    intro a ha b hb
    simp only [List.mem_singleton] at hb
    obtain ⟨c, hc', rfl⟩ := List.mem_map.mp ha
    subst hb
    exact hfresh c hc'
  · rw [hcs]; intro c hc'
    simp only [List.mem_append, List.mem_singleton] at hc'
    rw [hn]
    rcases hc' with h | h
    · have : ¬ s.nextCid = c.cid := fun q => hfresh c h q.symm
      simp only [this, if_false, Nat.add_zero]; exact hi.handles c h
    · subst h
      simp only [if_true]
      rw [hi.nohandle _ hfresh]; rfl
  · rw [hcs]; intro cid hcid
    rw [hn]
    have h1 : ∀ c ∈ s.collectors, c.cid ≠ cid := fun c hc' => hcid c (by simp [hc'])
    have h2 : ¬ s.nextCid = cid := fun q => hcid { cid := s.nextCid, dest := d, data := [e] } (by simp) q
    simp only [h2, if_false, Nat.add_zero]; exact hi.nohandle cid h1
  · intro c hc' hd
    rw [latestCollector_eq, hcs, latestOf_append_one]
    rw [hcs] at hc'
    simp only [List.mem_append, List.mem_singleton] at hc'
    rcases hc' with h | h
    · have : ¬ d = c.dest := fun q => hno c h hd q.symm
      simp only [this, if_false]
      exact hi.latest c h hd
    · subst h; simp
  · intro d'
    show queuedFor d' (s.outs ++ [(s.loop.now, .queued d e)]) = flushedFor d' s.flushLog ++ _
    rw [hcs, queuedFor_append_queued, pendFor_eq, latestOf_append_one]
    by_cases h : d = d'
    · subst h
      simp only [if_true]
      have := hi.cons d
      rw [hp, List.append_nil] at this
      rw [this]; rfl
    · simp only [h, if_false, List.append_nil]
      exact hi.cons d'

theorem qinv_append_window (s : Stack) (e : SDEntry) (d : Dest) (c : Collector) (hi : QInv s)
    (hc : s.tm.sendCollectionTimeout ≠ 0) (hl : latestOf s.collectors d = some c) (hd : c.done = false) :
    QInv ((s.emit (.queued d e)).appendCollector c.cid e) := by
  obtain ⟨hcm, hcd⟩ := latestOf_mem hl
  have hcs : ((s.emit (.queued d e)).appendCollector c.cid e).collectors = s.collectors.map (upd c.cid e) := rfl
  have hn : ∀ cid, nC ((s.emit (.queued d e)).appendCollector c.cid e) cid = nC s cid := fun _ => rfl
  have hmapcid : (s.collectors.map (upd c.cid e)).map (·.cid) = s.collectors.map (·.cid) := by
    rw [List.map_map]; apply List.map_congr_left; intro x _; exact upd_cid _ _ _
  refine ⟨fun h0 => absurd h0 hc, ?_, ?_, ?_, ?_, ?_, ?_⟩
  · rw [hcs]; intro x hx
    obtain ⟨y, hy, rfl⟩ := List.mem_map.mp hx
    rw [upd_cid]; exact hi.cids y hy
  · rw [hcs, hmapcid]; exact hi.nodup
  · rw [hcs]; intro x hx
    obtain ⟨y, hy, rfl⟩ := List.mem_map.mp hx
    rw [hn, upd_cid, upd_done]; exact hi.handles y hy
  · rw [hcs]; intro cid hcid
    rw [hn]
    exact hi.nohandle cid (fun y hy => by have := hcid (upd c.cid e y) (List.mem_map.mpr ⟨y, hy, rfl⟩); rwa [upd_cid] at this)
  · intro x hx hxd
    rw [hcs] at hx
    obtain ⟨y, hy, rfl⟩ := List.mem_map.mp hx
    rw [upd_done] at hxd
    rw [latestCollector_eq, hcs, latestOf_map _ _ (upd_dest c.cid e), upd_dest]
    have := hi.latest y hy hxd
    rw [latestCollector_eq] at this
    rw [this]; rfl
  · intro d'
    show queuedFor d' (s.outs ++ [(s.loop.now, .queued d e)]) = flushedFor d' s.flushLog ++ _
    rw [hcs, queuedFor_append_queued, pendFor_eq, latestOf_map _ _ (upd_dest c.cid e)]
    have hcons := hi.cons d'
    rw [pendFor_eq] at hcons
    by_cases h : d = d'
    · subst h
      rw [hl] at hcons ⊢
      simp only [Option.map_some, upd_done, hd, Bool.false_eq_true, if_false, if_true] at hcons ⊢
      rw [hcons, List.append_assoc]
      simp [upd]
    · simp only [h, if_false, List.append_nil]
      rw [hcons]
      cases hl' : latestOf s.collectors d' with
      | none => rfl
      | some c' =>
        obtain ⟨hm', hd'⟩ := latestOf_mem hl'
        have hne : c'.cid ≠ c.cid := by
          intro q
          have := eq_of_cid hi.nodup hm' hcm q
          rw [this, hcd] at hd'
          exact h hd'
        simp only [Option.map_some, upd_other hne]

theorem qinv_zero_timeout (s : Stack) (e : SDEntry) (d : Dest) (hi : QInv s) (hc : s.tm.sendCollectionTimeout = 0) :
    QInv ((s.emit (.queued d e)).flushTo [e] d) := by
  unfold flushTo
  apply qinv_of_qpi (qpi_sendSd _ _ _)
  have hcs : s.collectors = [] := hi.zero hc
  refine ⟨fun _ => hcs, ?_, ?_, ?_, ?_, ?_, ?_⟩
  · intro c hc'; exact hi.cids c hc'
  · exact hi.nodup
  · intro c hc'; exact hi.handles c hc'
  · intro cid h; exact hi.nohandle cid h
  · intro c hc' hd; exact hi.latest c hc' hd
  · intro d'
    show queuedFor d' (s.outs ++ [(s.loop.now, .queued d e)]) = flushedFor d' (s.flushLog ++ [(d, [e])]) ++ pendFor s.collectors d'
    rw [queuedFor_append_queued, flushedFor_append]
    have := hi.cons d'
    rw [hcs] at this ⊢
    simp only [pendFor, List.reverse_nil, List.find?_nil, List.append_nil] at this ⊢
    rw [this]

theorem qinv_queueSend (s : Stack) (e : SDEntry) (d : Dest) (hi : QInv s) : QInv (s.queueSend e d) := by
  unfold queueSend
  simp only []
  by_cases hc : s.tm.sendCollectionTimeout = 0
  · have : (s.emit (Out.queued d e)).tm.sendCollectionTimeout = 0 := hc
    rw [if_pos this]
    exact qinv_zero_timeout s e d hi hc
  · have : ¬ (s.emit (Out.queued d e)).tm.sendCollectionTimeout = 0 := hc
    rw [if_neg this]
    have hlat : (s.emit (Out.queued d e)).latestCollector d = latestOf s.collectors d := rfl
    rw [hlat]
    cases hl : latestOf s.collectors d with
    | none =>
      simp only []
      refine qinv_new_window s e d hi hc (by rw [pendFor_eq, hl]) ?_
      intro c hcm hcd hdest
      have := hi.latest c hcm hcd
      rw [latestCollector_eq, hdest, hl] at this
      cases this
    | some c =>
      simp only []
      cases hd : c.done
      · simp only [Bool.false_eq_true, if_false]
        exact qinv_append_window s e d c hi hc hl hd
      · simp only [if_true]
        refine qinv_new_window s e d hi hc (by rw [pendFor_eq, hl]; simp [hd]) ?_
        intro c' hcm hcd hdest
        have := hi.latest c' hcm hcd
        rw [latestCollector_eq, hdest, hl] at this
        simp only [Option.some.injEq] at this
        rw [← this, hd] at hcd
        cases hcd

/-! ### a collection window closes -/

def mark (cid : Nat) (c : Collector) : Collector := if c.cid = cid then { c with done := true } else c
theorem mark_cid (cid : Nat) (c : Collector) : (mark cid c).cid = c.cid := by unfold mark; split <;> rfl
theorem mark_dest (cid : Nat) (c : Collector) : (mark cid c).dest = c.dest := by unfold mark; split <;> rfl
theorem mark_other {cid : Nat} {c : Collector} (h : c.cid ≠ cid) : mark cid c = c := by unfold mark; simp [h]
theorem mark_same {cid : Nat} {c : Collector} (h : c.cid = cid) : (mark cid c).done = true := by unfold mark; simp [h]

theorem nC_pop (s : Stack) (q : Option Nat) (cid cid' : Nat) (rest : List (RItem Cb))
    (hr : s.loop.ready = ⟨q, .collectorTimeout cid⟩ :: rest) :
    nC s cid' = nC ({ s with loop := { s.loop with ready := rest } } : Stack) cid' + (if cid = cid' then 1 else 0) := by
  unfold nC
  simp only [hr, List.filter_cons]
  by_cases h : cid = cid'
  · subst h; simp [isCollFor]; omega
  · have : isCollFor cid' (Cb.collectorTimeout cid) = false := by simp [isCollFor, h]
    simp [this, h]

/-- the timeout callback of a collector that is popped from the ready queue: the collector exists, is open, is the
latest of its destination; afterwards its entries are flushed and the invariant holds again -/
theorem qinv_run_collectorTimeout (s : Stack) (q : Option Nat) (cid : Nat) (rest : List (RItem Cb))
    (hr : s.loop.ready = ⟨q, .collectorTimeout cid⟩ :: rest) (hi : QInv s) :
    (∃ c ∈ s.collectors, c.cid = cid ∧ c.done = false) ∧
    QInv (({ s with loop := { s.loop with ready := rest } } : Stack).collectorTimeout cid) := by
  have hpop := nC_pop s q cid cid rest hr
  rw [if_pos rfl] at hpop
  -- the collector exists and is open
  have hex : ∃ c ∈ s.collectors, c.cid = cid := by
    apply Classical.byContradiction
    intro hne
    have := hi.nohandle cid (fun c hc he => hne ⟨c, hc, he⟩)
    omega
  obtain ⟨c, hcm, hcc⟩ := hex
  have hopen : c.done = false := by
    have := hi.handles c hcm
    rw [hcc] at this
    cases hd : c.done
    · rfl
    · rw [hd] at this; simp at this; omega
  have hone : nC s cid = 1 := by
    have := hi.handles c hcm
    rw [hcc, hopen] at this
    simpa using this
  have hzero : nC ({ s with loop := { s.loop with ready := rest } } : Stack) cid = 0 := by omega
  refine ⟨⟨c, hcm, hcc, hopen⟩, ?_⟩
  have hfind : s.collectors.find? (fun x => decide (x.cid = cid)) = some c := by
    cases hf : s.collectors.find? (fun x => decide (x.cid = cid)) with
    | none =>
      have := List.find?_eq_none.mp hf c hcm
      simp [hcc] at this
    | some c' =>
      have h1 := List.mem_of_find?_eq_some hf
      have h2 : c'.cid = cid := by simpa using List.find?_some hf
      rw [eq_of_cid hi.nodup h1 hcm (h2.trans hcc.symm)]
  unfold collectorTimeout
  have hfind' : ({ s with loop := { s.loop with ready := rest } } : Stack).collectors.find? (fun x => decide (x.cid = cid)) = some c := hfind
  rw [hfind']
  simp only []
  unfold flushTo
  apply qinv_of_qpi (qpi_sendSd _ _ _)
  have hn : ∀ cid', nC ({ s with loop := { s.loop with ready := rest } } : Stack) cid' = nC s cid' - (if cid = cid' then 1 else 0) := by
    intro cid'
    have := nC_pop s q cid cid' rest hr
    omega
  have hmapcid : (s.collectors.map (mark cid)).map (·.cid) = s.collectors.map (·.cid) := by
    rw [List.map_map]; apply List.map_congr_left; intro x _; exact mark_cid _ _
  have hmk : ∀ x : Collector, (if x.cid = cid then { x with done := true } else x) = mark cid x := fun _ => rfl
  refine ⟨?_, ?_, ?_, ?_, ?_, ?_, ?_⟩
  · intro h0
    have := hi.zero h0
    show s.collectors.map _ = []
    rw [this]; rfl
  · intro x hx
    have hx' : x ∈ s.collectors.map (mark cid) := hx
    obtain ⟨y, hy, rfl⟩ := List.mem_map.mp hx'
    show (mark cid y).cid < s.nextCid
    rw [mark_cid]; exact hi.cids y hy
  · show ((s.collectors.map (mark cid)).map (·.cid)).Nodup
    rw [hmapcid]; exact hi.nodup
  · intro x hx
    have hx' : x ∈ s.collectors.map (mark cid) := hx
    obtain ⟨y, hy, rfl⟩ := List.mem_map.mp hx'
    show nC ({ s with loop := { s.loop with ready := rest } } : Stack) (mark cid y).cid = if (mark cid y).done then 0 else 1
    rw [mark_cid]
    by_cases hyc : y.cid = cid
    · rw [mark_same hyc, hyc, hzero]; rfl
    · rw [mark_other hyc, hn]
      have : ¬ cid = y.cid := fun e => hyc e.symm
      simp only [this, if_false, Nat.sub_zero]
      exact hi.handles y hy
  · intro cid' hcid'
    show nC ({ s with loop := { s.loop with ready := rest } } : Stack) cid' = 0
    have h1 : ∀ y ∈ s.collectors, y.cid ≠ cid' := fun y hy => by
      have := hcid' (mark cid y) (List.mem_map.mpr ⟨y, hy, rfl⟩); rwa [mark_cid] at this
    rw [hn, hi.nohandle cid' h1]; simp
  · intro x hx hxd
    have hx' : x ∈ s.collectors.map (mark cid) := hx
    obtain ⟨y, hy, rfl⟩ := List.mem_map.mp hx'
    have hyc : y.cid ≠ cid := fun e => by rw [mark_same e] at hxd; cases hxd
    rw [mark_other hyc] at hxd ⊢
    show latestOf (s.collectors.map (mark cid)) y.dest = some y
    rw [latestOf_map _ _ (mark_dest cid)]
    have := hi.latest y hy hxd
    rw [latestCollector_eq] at this
    rw [this]; simp [mark_other hyc]
  · intro d'
    show queuedFor d' s.outs = flushedFor d' (s.flushLog ++ [(c.dest, c.data)]) ++ pendFor (s.collectors.map (mark cid)) d'
    rw [flushedFor_append, pendFor_eq, latestOf_map _ _ (mark_dest cid)]
    have hcons := hi.cons d'
    rw [pendFor_eq] at hcons
    have hlc := hi.latest c hcm hopen
    rw [latestCollector_eq] at hlc
    by_cases h : c.dest = d'
    · subst h
      rw [hlc] at hcons ⊢
      simp only [hopen, Bool.false_eq_true, if_false, if_true, Option.map_some, mark_same hcc, List.append_nil] at hcons ⊢
      exact hcons
    · simp only [h, if_false, List.append_nil]
      rw [hcons]
      cases hl' : latestOf s.collectors d' with
      | none => rfl
      | some c' =>
        obtain ⟨hm', hd'⟩ := latestOf_mem hl'
        have hne : c'.cid ≠ cid := by
          intro e
          have := eq_of_cid hi.nodup hm' hcm (e.trans hcc.symm)
          rw [this] at hd'
          exact h hd'
        simp only [Option.map_some, mark_other hne]

end Stack
end Someip
