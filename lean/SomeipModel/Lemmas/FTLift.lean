/-
  C13, the timing of the find rounds: the invariant `FT`, together with `FInv`, the loop discipline `LD` and `NT`, through
  inputs, callbacks and loop steps.
-/
import SomeipModel.Lemmas.FTSteps
namespace Someip
namespace Stack
set_option linter.unusedSimpArgs false
set_option linter.unusedVariables false

@[simp] theorem fci_sdMessageReceived (s : Stack) (m : SDHeader) (a : Addr) (mc : Bool) :
    fci (s.sdMessageReceived m a mc) = fci s := by
  unfold sdMessageReceived; split; rfl
  rw [foldl_pres fci _ (fun s e => by frame_cases)]

@[simp] theorem fci_messageReceived (s : Stack) (h : Header) (a : Addr) (mc : Bool) : fci (s.messageReceived h a mc) = fci s := by
  unfold messageReceived
  split; rfl
  split; rfl
  simp only []
  split
  · split <;> simp <;> rfl
  · split <;> simp <;> rfl

@[simp] theorem fci_datagramReceived (s : Stack) (b : Bytes) (a : Addr) (mc : Bool) : fci (s.datagramReceived b a mc) = fci s := by
  unfold datagramReceived; rw [foldl_pres fci _ (fun s h => by simp)]

def FT2 (s : Stack) : Prop := FInv s ∧ FT s

theorem ft2_frame {s s' : Stack} (h1 : fpi s' = fpi s) (h2 : base s' = base s) (h3 : fmi s' = fmi s) (h4 : fci s' = fci s)
    (hi : FT2 s) : FT2 s' := ⟨finv_frame h1 hi.1, ft_frame h1 h2 h3 h4 hi.2⟩

theorem ft2_applyInput (s : Stack) (x : Input) (hi : FT2 s) : FT2 (s.applyInput x) := by
  cases x with
  | dgram a mc b => exact ft2_frame (fpi_datagramReceived s b a mc) (base_datagramReceived s b a mc) (fmi_datagramReceived s b a mc) (fci_datagramReceived s b a mc) hi
  | start =>
    show FT2 (((s.subscriberStart).announcerStart).discoveryStart)
    have h1 : FT2 ((s.subscriberStart).announcerStart) :=
      ft2_frame ((fpi_announcerStart _).trans (fpi_subscriberStart _)) ((base_announcerStart _).trans (base_subscriberStart _))
        ((fmi_announcerStart _).trans (fmi_subscriberStart _)) ((fci_announcerStart _).trans (fci_subscriberStart _)) hi
    exact ⟨finv_discoveryStart _ h1.1, ft_discoveryStart _ h1.2 h1.1⟩
  | stop =>
    show FT2 (((s.discoveryStop).announcerStop).subscriberStop true)
    have h1 : FT2 s.discoveryStop := ⟨finv_discoveryStop s hi.1, ft_discoveryStop s hi.2 hi.1⟩
    exact ft2_frame ((fpi_subscriberStop _ _).trans (fpi_announcerStop _)) ((base_subscriberStop _ _).trans (base_announcerStop _))
      ((fmi_subscriberStop _ _).trans (fmi_announcerStop _)) ((fci_subscriberStop _ _).trans (fci_announcerStop _)) h1
  | connLost => exact ft2_frame (fpi_connectionLost s) (base_connectionLost s) (fmi_connectionLost s) (fci_connectionLost s) hi
  | watch f l => exact ft2_frame (fpi_watchService s f l) (base_watchService s f l) (fmi_watchService s f l) (fci_watchService s f l) hi
  | unwatch f l => exact ft2_frame (fpi_stopWatchService s f l) (base_stopWatchService s f l) (fmi_stopWatchService s f l) (fci_stopWatchService s f l) hi
  | watchAll id => exact ft2_frame (fpi_watchAllServices s id) (base_watchAllServices s id) (fmi_watchAllServices s id) (fci_watchAllServices s id) hi
  | unwatchAll id => exact ft2_frame (fpi_stopWatchAllServices s id) (base_stopWatchAllServices s id) (fmi_stopWatchAllServices s id) (fci_stopWatchAllServices s id) hi
  | subscribe g d => exact ft2_frame (fpi_subscribeEventgroup s g d) (base_subscribeEventgroup s g d) (fmi_subscribeEventgroup s g d) (fci_subscribeEventgroup s g d) hi
  | stopSubscribe g d => exact ft2_frame (fpi_stopSubscribeEventgroup s g d true) (base_stopSubscribeEventgroup s g d true) (fmi_stopSubscribeEventgroup s g d true) (fci_stopSubscribeEventgroup s g d true) hi
  | announce i => exact ft2_frame (fpi_announceService s i) (base_announceService s i) (fmi_announceService s i) (fci_announceService s i) hi
  | stopAnnounce i b => exact ft2_frame (fpi_stopAnnounceService s i b) (base_stopAnnounceService s i b) (fmi_stopAnnounceService s i b) (fci_stopAnnounceService s i b) hi
  | setNak i egs =>
    simp only [applyInput]
    split
    · exact ft2_frame (fpi_setInst s i _) (base_setInst _ _ _) (fmi_setInst _ _ _) (fci_setInst _ _ _) hi
    · exact hi
  | draws ds => exact ft2_frame (s := s) (s' := { s with draws := s.draws ++ ds }) rfl rfl rfl rfl hi
  | announcerStop => exact ft2_frame (fpi_announcerStop s) (base_announcerStop s) (fmi_announcerStop s) (fci_announcerStop s) hi
  | announcerStart => exact ft2_frame (fpi_announcerStart s) (base_announcerStart s) (fmi_announcerStart s) (fci_announcerStart s) hi

theorem fci_pop_other (s : Stack) (q : Option Nat) (cb : Cb) (rest : List (RItem Cb)) (hr : s.loop.ready = ⟨q, cb⟩ :: rest)
    (hcb : isFCb cb = false) : fci ({ s with loop := { s.loop with ready := rest } } : Stack) = fci s := by
  simp [fci, hr, List.filter_cons, hcb]

theorem ft2_run (s : Stack) (q : Option Nat) (cb : Cb) (rest : List (RItem Cb)) (hr : s.loop.ready = ⟨q, cb⟩ :: rest) (hi : FT2 s) :
    FT2 (({ s with loop := { s.loop with ready := rest } } : Stack).runCb cb) := by
  refine ⟨finv_runCb _ cb (finv_frame (s := s) rfl hi.1), ?_⟩
  have hother : isFCb cb = false → FT ({ s with loop := { s.loop with ready := rest } } : Stack) :=
    fun hcb => ft_frame (s := s) rfl rfl rfl (fci_pop_other s q cb rest hr hcb) hi.2
  cases cb with
  | connLost p =>
    cases p with
    | subscriber => exact ft_frame (fpi_subscriberStop _ false) (base_subscriberStop _ false) (fmi_subscriberStop _ false) (fci_subscriberStop _ false) (hother rfl)
    | discovery => exact ft_frame (fpi_foundStopAll _) (base_foundStopAll _) (fmi_foundStopAll _) (fci_foundStopAll _) (hother rfl)
    | announcer => exact ft_frame (fpi_announcerStop _) (base_announcerStop _) (fmi_announcerStop _) (fci_announcerStop _) (hother rfl)
  | expiredSvc a k => exact ft_frame (fpi_expiredSvc _ a k) (base_expiredSvc _ a k) (fmi_expiredSvc _ a k) (fci_expiredSvc _ a k) (hother rfl)
  | expiredSub i a k => exact ft_frame (fpi_expiredSub _ i a k) (base_expiredSub _ i a k) (fmi_expiredSub _ i a k) (fci_expiredSub _ i a k) (hother rfl)
  | sendStartSubscribe d egs => exact ft_frame (fpi_sendSubscribe _ _ d egs) (base_sendSubscribe _ _ d egs) (fmi_sendSubscribe _ _ d egs) (fci_sendSubscribe _ _ d egs) (hother rfl)
  | sendStopSubscribe d egs => exact ft_frame (fpi_sendSubscribe _ _ d egs) (base_sendSubscribe _ _ d egs) (fmi_sendSubscribe _ _ d egs) (fci_sendSubscribe _ _ d egs) (hother rfl)
  | sendOfferTo i a => exact ft_frame (fpi_sendOffer _ i _ _) (base_sendOffer _ i _ _) (fmi_sendOffer _ i _ _) (fci_sendOffer _ i _ _) (hother rfl)
  | collectorTimeout cid => exact ft_frame (fpi_collectorTimeout _ cid) (base_collectorTimeout _ cid) (fmi_collectorTimeout _ cid) (fci_collectorTimeout _ cid) (hother rfl)
  | sleepDone tid =>
    obtain ⟨k, m⟩ := tid
    cases k with
    | find => exact ft_pop_sleepDone s q m rest hr hi.2
    | offer i => exact ft_frame (fpi_sleepDone _ _ (by simp)) (base_sleepDone _ _) (fmi_sleepDone _ _) (fci_sleepDone _ _ (by simp)) (hother rfl)
    | subscribe => exact ft_frame (fpi_sleepDone _ _ (by simp)) (base_sleepDone _ _) (fmi_sleepDone _ _) (fci_sleepDone _ _ (by simp)) (hother rfl)
  | taskStep tid =>
    obtain ⟨k, m⟩ := tid
    cases k with
    | find => exact ft_pop_step s q m rest hr hi.2 hi.1
    | offer i =>
      have h0 := hother rfl
      simp only [runCb]
      split
      · exact h0
      · split
        · exact h0
        · exact ft_frame ((fpi_stepOffer _ _ _ _ (by simp)).trans (fpi_cancelTimer _ _ _)) ((base_stepOffer _ _ _ _).trans (base_cancelTimer _ _ _))
            ((fmi_stepOffer _ _ _ _).trans (fmi_cancelTimer _ _ _)) ((fci_stepOffer _ _ _ _ (by simp)).trans (fci_cancelTimer_sleep _ _ _ (by simp))) h0
    | subscribe =>
      have h0 := hother rfl
      simp only [runCb]
      split
      · exact h0
      · split
        · exact h0
        · exact ft_frame ((fpi_stepSubscribe _ _ _ (by simp)).trans (fpi_cancelTimer _ _ _)) ((base_stepSubscribe _ _ _).trans (base_cancelTimer _ _ _))
            ((fmi_stepSubscribe _ _ _).trans (fmi_cancelTimer _ _ _)) ((fci_stepSubscribe _ _ _ (by simp)).trans (fci_cancelTimer_sleep _ _ _ (by simp))) h0

theorem isFStepOf_of_not_step {m : Nat} {cb : Cb} (h : isTaskStep cb = false) : isFStepOf m cb = false := by
  cases cb <;> simp_all [isTaskStep, isFStepOf]

/-- a due handle fires: the loop discipline makes the clock read exactly its deadline -/
theorem ft_fire (s : Stack) (qn : Nat) (x : Timer Cb) (hfind : s.loop.timers.find? (fun t => decide (t.seq = qn)) = some x)
    (hdue : x.deadline ≤ s.loop.now) (hi : FT s) (hld : LD s) (hnt : NT s) : FT (firedStack s qn x) := by
  have hxm : x ∈ s.loop.timers := List.mem_of_find?_eq_some hfind
  have hnow : s.loop.now = x.deadline := Nat.le_antisymm (hld x hxm) hdue
  have hxs : isTaskStep x.cb = false := hnt x hxm
  generalize hR : firedStack s qn x = R
  have hnS : ∀ m, nSF R m = nSF s m := by
    intro m; rw [← hR]
    simp only [firedStack, nSF, List.filter_append, List.length_append, List.filter_cons, List.filter_nil]
    rw [isFStepOf_of_not_step hxs]; simp
  have hnWR : ∀ m, nWRF R m = nWRF s m + (if isSleepFor (.find, m) x.cb then 1 else 0) := by
    intro m; rw [← hR]
    simp only [firedStack, nWRF, List.filter_append, List.length_append, List.filter_cons, List.filter_nil]
    split <;> simp
  have hwT0 : ∀ m, isSleepFor (.find, m) x.cb = false → wTF R m = wTF s m := by
    intro m h; rw [← hR]
    exact filter_eraseP_of_false _ _ _ x hfind h
  have hwT1 : ∀ m, isSleepFor (.find, m) x.cb = true →
      (wTF R m).length + 1 = (wTF s m).length ∧ (∀ y ∈ wTF R m, y ∈ wTF s m) ∧ x ∈ wTF s m := by
    intro m h; rw [← hR]
    obtain ⟨h1, h2⟩ := filter_eraseP_of_true (fun t => decide (t.seq = qn)) (fun t => isSleepFor (.find, m) t.cb) _ x hfind h
    exact ⟨h1, h2, List.mem_filter.mpr ⟨hxm, h⟩⟩
  have hft : R.findTask = s.findTask := by rw [← hR]; rfl
  have hfts : ftasks R = ftasks s := by rw [← hR]; rfl
  have hmk : R.findMarks = s.findMarks := by rw [← hR]; rfl
  have htm : R.tm = s.tm := by rw [← hR]; rfl
  have hnowR : R.loop.now = s.loop.now := by rw [← hR]; rfl
  refine ⟨?_, ?_⟩
  · intro n hn
    rw [hft] at hn
    obtain ⟨t, ht, hc, hcy, hrest⟩ := hi.own n hn
    refine ⟨t, by unfold ftask; rw [hfts]; exact ht, hc, hcy, ?_⟩
    intro hpc
    obtain ⟨A, B, hA, hS, hP⟩ := hrest hpc
    refine ⟨A, B, by rw [hmk]; exact hA, by rw [htm]; exact hS, ?_⟩
    unfold PendF at hP ⊢
    rw [hnS, hnWR, hnowR]
    cases hx : isSleepFor (.find, n) x.cb
    · rw [hwT0 n hx]; simpa using hP
    · obtain ⟨w1, w2, w3⟩ := hwT1 n hx
      cases hw : t.waiting
      · rw [hw] at hP; simp only [Bool.false_eq_true, if_false] at hP
        have : wTF s n = [] := List.length_eq_zero_iff.mp hP.2.1
        rw [this] at w3; cases w3
      · rw [hw] at hP; simp only [if_true] at hP ⊢
        obtain ⟨p1, p2, p3, p4⟩ := hP
        refine ⟨p1, by omega, fun y hy => p3 y (w2 y hy), ?_⟩
        intro _
        rw [hnow]; exact p3 x w3
  · intro m hm
    rw [hfts] at hm
    obtain ⟨f1, f2, f3⟩ := hi.fresh m hm
    have hx : isSleepFor (.find, m) x.cb = false := by
      cases h : isSleepFor (.find, m) x.cb
      · rfl
      · have := (hwT1 m h).2.2
        rw [f3] at this; cases this
    rw [hnS, hnWR, hx, hwT0 m hx]
    exact ⟨f1, by simpa using f2, f3⟩

theorem ft_adv (s : Stack) (t' : Nat) (hempty : s.loop.ready = []) (hi : FT s) :
    FT ({ s with loop := { s.loop with now := t' } } : Stack) := by
  have h0 : ∀ m, nSF s m = 0 ∧ nWRF s m = 0 := by
    intro m; simp [nSF, nWRF, hempty]
  refine ⟨?_, ?_⟩
  · intro n hn
    obtain ⟨t, ht, hc, hcy, hrest⟩ := hi.own n hn
    refine ⟨t, ht, hc, hcy, ?_⟩
    intro hpc
    obtain ⟨A, B, hA, hS, hP⟩ := hrest hpc
    refine ⟨A, B, hA, hS, ?_⟩
    unfold PendF at hP ⊢
    have c1 : nSF ({ s with loop := { s.loop with now := t' } } : Stack) n = nSF s n := rfl
    have c2 : nWRF ({ s with loop := { s.loop with now := t' } } : Stack) n = nWRF s n := rfl
    have c3 : wTF ({ s with loop := { s.loop with now := t' } } : Stack) n = wTF s n := rfl
    rw [c1, c2, c3]
    cases hw : t.waiting
    · rw [hw] at hP; simp only [Bool.false_eq_true, if_false] at hP
      have := (h0 n).1; omega
    · rw [hw] at hP; simp only [if_true] at hP ⊢
      obtain ⟨p1, p2, p3, _⟩ := hP
      exact ⟨p1, p2, p3, fun h => absurd (h0 n).2 h⟩
  · intro m hm
    exact hi.fresh m hm

def FTP (s : Stack) : Prop := FT2 s ∧ LD s ∧ NT s

theorem ftp_step (s s' : Stack) (e : Event) (h : s.step e = some s') (hi : FTP s) : FTP s' := by
  refine ⟨⟨finv_step s s' e h hi.1.1, ?_⟩, ld_step s s' e h hi.2.1, nt_step s s' e h hi.2.2⟩
  cases e with
  | input x => simp only [step, Option.some.injEq] at h; subst h; exact (ft2_applyInput s x hi.1).2
  | run =>
    simp only [step, Loop.pop] at h
    cases hr : s.loop.ready with
    | nil => rw [hr] at h; cases h
    | cons r0 rest =>
      rw [hr] at h
      simp only [Option.some.injEq] at h
      subst h
      obtain ⟨q, cb⟩ := r0
      exact (ft2_run s q cb rest hr hi.1).2
  | fire q =>
    simp only [step] at h
    cases hf : s.loop.fire q with
    | none => rw [hf] at h; cases h
    | some l =>
      rw [hf] at h; simp at h; subst h
      unfold Loop.fire at hf
      split at hf
      · cases hf
      · rename_i x hfind
        split at hf
        · rename_i hdue
          simp only [Option.some.injEq] at hf; subst hf
          exact ft_fire s q x hfind hdue hi.1.2 hi.2.1 hi.2.2
        · cases hf
  | adv t =>
    simp only [step] at h
    cases hf : s.loop.adv t with
    | none => rw [hf] at h; cases h
    | some l =>
      rw [hf] at h; simp at h; subst h
      unfold Loop.adv at hf
      split at hf
      · rename_i hg
        simp only [Option.some.injEq] at hf; subst hf
        exact ft_adv s t (by simpa using hg.1) hi.1.2
      · cases hf

end Stack
end Someip
