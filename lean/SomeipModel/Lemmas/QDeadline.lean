/-
  C15, timing: a collection window never stays open longer than SEND_COLLECTION_TIMEOUT.  Invariant `QD`: every scheduled
  collection-timeout handle has its deadline within `now + timeout`.  With the loop discipline (`now ≤ deadline`, LoopInv)
  the handle of an open window fires at a time in [now, now + timeout]: an entry queued now leaves within the timeout.
  Lifting scripts as in LoopInv.lean (no side conditions: only `newCollector` arms such a handle, with exactly that delay).
-/
import SomeipModel.Lemmas.LoopInv
import SomeipModel.Lemmas.QSteps
namespace Someip
namespace Stack
set_option linter.unusedSimpArgs false
set_option linter.unusedVariables false

def QD (s : Stack) : Prop :=
  ∀ t ∈ s.loop.timers, isCollTimeout t.cb = true → t.deadline ≤ s.loop.now + s.tm.sendCollectionTimeout

theorem qd_same {s s' : Stack} (h1 : s'.loop = s.loop) (h2 : s'.tm = s.tm) (hi : QD s) : QD s' := by
  unfold QD; rw [h1, h2]; exact hi

theorem qd_callLater (s : Stack) (d : Nat) (cb : Cb) (hcb : isCollTimeout cb = false) (hi : QD s) : QD (s.callLater d cb).1 := by
  intro t ht hc
  simp only [callLater, Loop.callLater, List.mem_append, List.mem_cons, List.not_mem_nil, or_false] at ht
  rcases ht with ht | rfl
  · exact hi t ht hc
  · simp only [] at hc; rw [hc] at hcb; cases hcb
theorem qd_cancelTimer (s : Stack) (own : Cb → Bool) (q : Option Nat) (hi : QD s) : QD (s.cancelTimer own q) := by
  cases q with
  | none => exact hi
  | some n =>
    intro t ht
    simp only [cancelTimer, Loop.cancelOpt, Loop.cancel, List.mem_filter] at ht
    exact hi t ht.1
theorem qd_armTtl (s : Stack) (ttl : Nat) (cb : Cb) (hcb : isCollTimeout cb = false) (hi : QD s) : QD (s.armTtl ttl cb).1 := by
  unfold armTtl; simp only []; split
  · exact qd_callLater ({ s with armLog := s.armLog ++ [(cb, s.loop.now, ttl)] } : Stack) _ _ hcb hi
  · exact hi
/-- the one place where a collection-timeout handle is armed: deadline = now + timeout -/
theorem qd_newCollector (s : Stack) (d : Dest) (hi : QD s) : QD (s.newCollector d).1 := by
  intro t ht hc
  simp only [newCollector, callLater, Loop.callLater, List.mem_append, List.mem_cons, List.not_mem_nil, or_false] at ht
  rcases ht with ht | rfl
  · exact hi t ht hc
  · exact Nat.le_refl _

theorem qd_callSoon (s : Stack) (cb : Cb) (hi : QD s) : QD (s.callSoon cb) := hi
theorem qd_emit (s : Stack) (o : Out) (hi : QD s) : QD (s.emit o) := hi
theorem qd_setInst (s : Stack) (i : Nat) (x : Instance) (hi : QD s) : QD (s.setInst i x) := hi
theorem qd_setTask (s : Stack) (tid : Tid) (t : TaskSt) (hi : QD s) : QD (s.setTask tid t) := hi

theorem qd_foldl {α : Type} (f : Stack → α → Stack) (h : ∀ s a, QD s → QD (f s a)) (l : List α) (s : Stack) (hi : QD s) :
    QD (l.foldl f s) := by
  induction l generalizing s with
  | nil => exact hi
  | cons a t ih => rw [List.foldl_cons]; exact ih _ (h s a hi)

theorem qd_draw (s : Stack) (a b : Nat) (hi : QD s) : QD (s.draw a b).1 := by unfold draw; split <;> exact hi

theorem qd_sendSd (s : Stack) (es : List SDEntry) (d : Dest) (hi : QD s) : QD (s.sendSd es d) := by
  unfold sendSd; split; exact hi; simp only []; split; exact hi; split <;> exact hi
theorem qd_flushTo (s : Stack) (es : List SDEntry) (d : Dest) (hi : QD s) : QD (s.flushTo es d) := by
  unfold flushTo; exact qd_sendSd _ _ _ hi

theorem qd_appendCollector (s : Stack) (c : Nat) (e : SDEntry) (hi : QD s) : QD (s.appendCollector c e) := hi
theorem qd_createTask (s : Stack) (k : TaskKind) (hi : QD s) : QD (s.createTask k).1 := hi
theorem qd_cancelTask (s : Stack) (t : Tid) (hi : QD s) : QD (s.cancelTask t) := by
  unfold cancelTask; split; exact hi; split; exact hi; split <;> exact hi
theorem qd_sleepFor (s : Stack) (tid : Tid) (t : TaskSt) (d : Nat) (pc : Pc) (hi : QD s) : QD (s.sleepFor tid t d pc) := by
  unfold sleepFor; split
  · exact hi
  · exact qd_callLater s _ _ rfl hi
theorem qd_finish (s : Stack) (tid : Tid) (t : TaskSt) (hi : QD s) : QD (s.finish tid t) := hi
theorem qd_sleepDone (s : Stack) (tid : Tid) (hi : QD s) : QD (s.sleepDone tid) := by
  unfold sleepDone; split; exact hi; split <;> exact hi

/-- split conditionals, apply the lemmas of the functions below -/
macro "qdt" : tactic => `(tactic| repeat' (first
  | assumption
  | with_reducible apply qd_cancelTimer
  | with_reducible apply qd_callSoon
  | with_reducible apply qd_emit
  | with_reducible apply qd_setInst
  | with_reducible apply qd_setTask
  | with_reducible apply qd_draw
  | with_reducible apply qd_armTtl
  | with_reducible apply qd_sendSd
  | with_reducible apply qd_flushTo
  | with_reducible apply qd_newCollector
  | with_reducible apply qd_appendCollector
  | with_reducible apply qd_createTask
  | with_reducible apply qd_cancelTask
  | with_reducible apply qd_sleepFor
  | with_reducible apply qd_finish
  | with_reducible apply qd_sleepDone
  | split))

theorem qd_queueSend (s : Stack) (e : SDEntry) (d : Dest) (hi : QD s) : QD (s.queueSend e d) := by
  unfold queueSend; simp only []; qdt
theorem qd_collectorTimeout (s : Stack) (c : Nat) (hi : QD s) : QD (s.collectorTimeout c) := by
  unfold collectorTimeout; split
  · exact hi
  · exact qd_flushTo _ _ _ hi
theorem qd_sendOffer (s : Stack) (i : Nat) (r : Dest) (b : Bool) (hi : QD s) : QD (s.sendOffer i r b) := by
  unfold sendOffer; split; exact hi; split; exact hi; exact qd_queueSend _ _ _ hi

theorem qd_stepOffer (s : Stack) (tid : Tid) (t : TaskSt) (i : Nat) (hi : QD s) : QD (s.stepOffer tid t i) := by
  have hso : ∀ (X : Stack) (r : Dest) (b : Bool), QD X → QD (X.sendOffer i r b) := fun X r b h => qd_sendOffer X i r b h
  have hmatch : ∀ (X : Stack) (c : Bool), QD X → QD (match X.getInst i with | some x => X.setInst i { x with canAnswer := c } | none => X) := by
    intro X c h; split <;> exact h
  unfold stepOffer
  simp only []
  have hcancel : ∀ X : Stack, QD X → QD ((if (match X.getInst i with | some x => X.setInst i { x with canAnswer := false } | none => X).tm.cyclicOfferDelay ≠ 0
      then (match X.getInst i with | some x => X.setInst i { x with canAnswer := false } | none => X).sendOffer i none true
      else (match X.getInst i with | some x => X.setInst i { x with canAnswer := false } | none => X)).finish tid t) := by
    intro X hX
    apply qd_finish
    have hm := hmatch X false hX
    generalize (match X.getInst i with | some x => X.setInst i { x with canAnswer := false } | none => X) = Y at hm ⊢
    split
    · exact hso _ _ _ hm
    · exact hm
  have hafter : ∀ (X : Stack) (k : Nat), QD X → QD (if k < X.tm.repetitionsMax then X.sleepFor tid t (pow2 k * X.tm.repetitionsBaseDelay) (.rep k)
      else if X.tm.cyclicOfferDelay = 0 then X.finish tid t else X.sleepFor tid t X.tm.cyclicOfferDelay .cyclic) := by
    intro X k hX; qdt
  split
  · split
    · exact qd_finish _ _ _ hi
    · exact qd_sleepFor _ _ _ _ _ (qd_draw _ _ _ hi)
  · split
    · exact qd_finish _ _ _ hi
    · exact hafter _ _ (hmatch _ true (hso _ _ _ hi))
  · split
    · exact hcancel _ hi
    · exact hafter _ _ (hso _ _ _ hi)
  · split
    · exact hcancel _ hi
    · exact qd_sleepFor _ _ _ _ _ (hso _ _ _ hi)
  · exact hi

theorem qd_instStart (s : Stack) (i : Nat) (hi : QD s) : QD (s.instStart i) := by
  unfold instStart; split; exact hi; split; exact hi; simp only []; split <;> exact hi

theorem qd_subsStopAllFor (s : Stack) (i : Nat) (a : Addr) (hi : QD s) : QD (s.subsStopAllFor i a) := by
  unfold subsStopAllFor; split; exact hi
  simp only []
  exact qd_foldl _ (fun X e hX => qd_emit _ _ (qd_cancelTimer _ _ _ hX)) _ _ hi

theorem qd_subsStopAll (s : Stack) (i : Nat) (hi : QD s) : QD (s.subsStopAll i) := by
  unfold subsStopAll; split; exact hi
  simp only []
  have h1 := qd_foldl (fun (X : Stack) (p : Addr × List (TSEntry SubKey)) => X.subsStopAllFor i p.1) (fun X p hX => qd_subsStopAllFor X i p.1 hX)
  split
  · exact h1 _ _ hi
  · exact h1 _ _ hi

theorem qd_instStop (s : Stack) (i : Nat) (hi : QD s) : QD (s.instStop i) := by
  unfold instStop; split; exact hi; split; exact hi
  simp only []
  apply qd_subsStopAll
  split
  · exact qd_sendOffer _ _ _ _ (qd_cancelTask _ _ hi)
  · exact qd_cancelTask _ _ hi

theorem qd_instHandleSubscribe (s : Stack) (i : Nat) (e : SDEntry) (a : Addr) (hi : QD s) : QD (s.instHandleSubscribe i e a).1 := by
  unfold instHandleSubscribe
  split
  · exact hi
  · split
    · exact hi
    · split
      · split
        · simp only []
          split
          · exact hi
          · exact qd_cancelTimer _ _ _ hi
        · simp only []
          split
          · exact qd_queueSend _ _ _ (qd_armTtl _ _ _ rfl (qd_cancelTimer _ _ _ hi))
          · split
            · exact qd_queueSend _ _ _ hi
            · exact qd_queueSend _ _ _ (qd_armTtl _ _ _ rfl hi)
      · exact hi

theorem qd_handleSubscribe (s : Stack) (e : SDEntry) (a : Addr) (hi : QD s) : QD (s.handleSubscribe e a) := by
  unfold handleSubscribe
  simp only []
  have key : ∀ (l : List Nat) (acc : Stack × Bool), QD acc.1 →
      QD (l.foldl (fun (acc : Stack × Bool) i => ((acc.1.instHandleSubscribe i e a).1, acc.2 || (acc.1.instHandleSubscribe i e a).2)) acc).1 := by
    intro l; induction l with
    | nil => intro acc h; exact h
    | cons x t ih => intro acc h; rw [List.foldl_cons]; exact ih _ (qd_instHandleSubscribe _ _ _ _ h)
  split
  · exact key _ _ hi
  · exact qd_queueSend _ _ _ (key _ _ hi)

theorem qd_handleFind (s : Stack) (e : SDEntry) (a : Addr) (mc : Bool) (hi : QD s) : QD (s.handleFind e a mc) := by
  unfold handleFind; simp only []
  split; exact hi
  split
  · exact qd_foldl _ (fun X i hX => qd_callLater (X.logAnswer _ _ _) _ _ rfl hX) _ _ (qd_draw _ _ _ hi)
  · exact qd_foldl _ (fun X i hX => qd_callSoon X _ hX) _ _ hi

theorem qd_expiredSub (s : Stack) (i : Nat) (a : Addr) (k : SubKey) (hi : QD s) : QD (s.expiredSub i a k) := by
  unfold expiredSub; split; exact hi; simp only []; split <;> exact hi

theorem qd_announcerStart (s : Stack) (hi : QD s) : QD s.announcerStart := by
  unfold announcerStart; simp only []
  exact qd_foldl (fun (X : Stack) (i : Nat) => X.instStart i) (fun X i hX => qd_instStart X i hX) _ _ hi
theorem qd_announcerStop (s : Stack) (hi : QD s) : QD s.announcerStop := by
  unfold announcerStop; split; exact hi
  show QD (List.foldl (fun s i => s.instStop i) s s.announceOrder)
  exact qd_foldl _ (fun X i hX => qd_instStop X i hX) _ _ hi
theorem qd_announcerReboot (s : Stack) (a : Addr) (hi : QD s) : QD (s.announcerReboot a) := by
  unfold announcerReboot; exact qd_foldl _ (fun X i hX => qd_subsStopAllFor X i a hX) _ _ hi
theorem qd_announceService (s : Stack) (i : Nat) (hi : QD s) : QD (s.announceService i) := by
  unfold announceService; simp only []
  show QD (if s.started = true then s.instStart i else s)
  split
  · exact qd_instStart _ _ hi
  · exact hi
theorem qd_stopAnnounceService (s : Stack) (i : Nat) (b : Bool) (hi : QD s) : QD (s.stopAnnounceService i b) := by
  unfold stopAnnounceService; split; exact hi
  simp only []
  split
  · exact qd_instStop _ _ hi
  · exact hi

theorem qd_sendSubscribe (s : Stack) (ttl : Nat) (d : Addr) (egs : List Eventgroup) (hi : QD s) : QD (s.sendSubscribe ttl d egs) := by
  unfold sendSubscribe; exact qd_sendSd _ _ _ hi
theorem qd_subscribeEventgroup (s : Stack) (g : Eventgroup) (d : Addr) (hi : QD s) : QD (s.subscribeEventgroup g d) := by
  unfold subscribeEventgroup; simp only []; split <;> exact hi
theorem qd_stopSubscribeEventgroup (s : Stack) (g : Eventgroup) (d : Addr) (b : Bool) (hi : QD s) : QD (s.stopSubscribeEventgroup g d b) := by
  unfold stopSubscribeEventgroup; split
  · simp only []; split <;> exact hi
  · exact hi
theorem qd_subscriberStart (s : Stack) (hi : QD s) : QD s.subscriberStart := by
  unfold subscriberStart; split <;> exact hi
theorem qd_subscriberStop (s : Stack) (b : Bool) (hi : QD s) : QD (s.subscriberStop b) := by
  unfold subscriberStop; split; exact hi
  simp only []
  have h1 : QD (match ({ s with alive := false, subLost := !b } : Stack).subTask with
      | some tid => ({ ({ s with alive := false, subLost := !b } : Stack).cancelTask (.subscribe, tid) with subTask := none } : Stack)
      | none => ({ s with alive := false, subLost := !b } : Stack)) := by
    split
    · exact qd_cancelTask ({ s with alive := false, subLost := !b } : Stack) _ hi
    · exact hi
  split
  · exact qd_foldl _ (fun X p hX => qd_callSoon X _ hX) _ _ h1
  · exact h1
theorem qd_stepSubscribe (s : Stack) (tid : Tid) (t : TaskSt) (hi : QD s) : QD (s.stepSubscribe tid t) := by
  unfold stepSubscribe
  simp only []
  have key : ∀ st : Stack, QD st → QD (List.foldl (fun s p => s.sendSubscribe s.tm.subscribeTtl p.1 p.2) st (groupEntries st.subEntries)) :=
    fun st h => qd_foldl _ (fun X p hX => qd_sendSubscribe _ _ _ _ hX) _ _ h
  split
  · split
    · exact hi
    · split
      · exact key _ hi
      · exact qd_sleepFor _ _ _ _ _ (key _ hi)
  · split
    · exact hi
    · split
      · exact key _ hi
      · exact qd_sleepFor _ _ _ _ _ (key _ hi)
  · exact hi

theorem qd_listenerOffered (s : Stack) (l : Listener) (k : SvcKey) (a : Addr) (hi : QD s) : QD (s.listenerOffered l k a) := by
  unfold listenerOffered; split; exact hi; split; exact hi; exact qd_subscribeEventgroup _ _ _ hi
theorem qd_listenerStopped (s : Stack) (l : Listener) (k : SvcKey) (a : Addr) (hi : QD s) : QD (s.listenerStopped l k a) := by
  unfold listenerStopped; split; exact hi; split; exact hi; exact qd_stopSubscribeEventgroup _ _ _ _ hi
theorem qd_notifyService (s : Stack) (b : Bool) (k : SvcKey) (a : Addr) (hi : QD s) : QD (s.notifyService b k a) := by
  unfold notifyService
  simp only []
  have hf : ∀ (X : Stack) (l : Listener), QD X → QD (if b = true then X.listenerOffered l k a else X.listenerStopped l k a) := by
    intro X l hX; split
    · exact qd_listenerOffered _ _ _ _ hX
    · exact qd_listenerStopped _ _ _ _ hX
  apply qd_foldl _ (fun X id hX => hf X (.ext id) hX)
  apply qd_foldl
  · intro X p hX
    split
    · exact qd_foldl _ (fun Y l hY => hf Y l hY) _ _ hX
    · exact hX
  · exact hi
theorem qd_foundStop (s : Stack) (a : Addr) (k : SvcKey) (hi : QD s) : QD (s.foundStop a k) := by
  unfold foundStop; simp only []; split
  · exact hi
  · exact qd_notifyService _ _ _ _ (qd_cancelTimer _ _ _ hi)
theorem qd_foundRefresh (s : Stack) (ttl : Nat) (a : Addr) (k : SvcKey) (hi : QD s) : QD (s.foundRefresh ttl a k) := by
  unfold foundRefresh; simp only []
  apply qd_same (s := (_ : Stack)) rfl rfl
  apply qd_armTtl _ _ _ rfl
  split
  · exact qd_cancelTimer _ _ _ hi
  · exact qd_notifyService _ _ _ _ hi
theorem qd_handleOffer (s : Stack) (e : SDEntry) (a : Addr) (hi : QD s) : QD (s.handleOffer e a) := by
  unfold handleOffer; simp only []
  split
  · split
    · exact qd_foundStop _ _ _ hi
    · exact hi
  · split
    · exact qd_foundStop _ _ _ hi
    · exact qd_foundRefresh _ _ _ _ hi
theorem qd_foundStopAllFor (s : Stack) (a : Addr) (hi : QD s) : QD (s.foundStopAllFor a) := by
  unfold foundStopAllFor; simp only []
  exact qd_foldl _ (fun X e hX => qd_notifyService _ _ _ _ (qd_cancelTimer _ _ _ hX)) _ _ hi
theorem qd_foundStopAll (s : Stack) (hi : QD s) : QD s.foundStopAll := by
  unfold foundStopAll; simp only []
  exact qd_same (s := (_ : Stack)) rfl rfl (qd_foldl _ (fun X p hX => qd_foundStopAllFor X p.1 hX) _ _ hi)
theorem qd_expiredSvc (s : Stack) (a : Addr) (k : SvcKey) (hi : QD s) : QD (s.expiredSvc a k) := by
  unfold expiredSvc; simp only []; split
  · exact hi
  · exact qd_notifyService _ _ _ _ hi
theorem qd_replay (s : Stack) (b : Bool) (f : Option Service) (l : Listener) (hi : QD s) : QD (s.replay b f l) := by
  unfold replay
  apply qd_foldl _ _ _ _ hi
  intro X p hX
  simp only []
  repeat' split
  all_goals first | exact hX | exact qd_listenerOffered _ _ _ _ hX | exact qd_listenerStopped _ _ _ _ hX
theorem qd_watchService (s : Stack) (f : Service) (l : Listener) (hi : QD s) : QD (s.watchService f l) := by
  unfold watchService; simp only []; exact qd_replay _ _ _ _ hi
theorem qd_stopWatchService (s : Stack) (f : Service) (l : Listener) (hi : QD s) : QD (s.stopWatchService f l) := by
  unfold stopWatchService; simp only []; split
  · exact hi
  · exact qd_replay _ _ _ _ hi
theorem qd_watchAllServices (s : Stack) (id : LId) (hi : QD s) : QD (s.watchAllServices id) := by
  unfold watchAllServices; exact qd_replay _ _ _ _ hi
theorem qd_stopWatchAllServices (s : Stack) (id : LId) (hi : QD s) : QD (s.stopWatchAllServices id) := by
  unfold stopWatchAllServices; split
  · exact hi
  · exact qd_replay _ _ _ _ hi
theorem qd_stepFind (s : Stack) (tid : Tid) (t : TaskSt) (hi : QD s) : QD (s.stepFind tid t) := by
  unfold stepFind; simp only []
  have hafter : ∀ (X : Stack) (k : Nat), QD X → QD (if k < X.tm.repetitionsMax then X.sleepFor tid t (pow2 k * X.tm.repetitionsBaseDelay) (.rep k) else X.finish tid t) := by
    intro X k hX; split
    · exact qd_sleepFor _ _ _ _ _ hX
    · exact hX
  have hround : ∀ (X : Stack) (k : Nat), QD X → QD (if X.findEntries.isEmpty = true then X.finish tid t
      else (if k < (({ X with findLog := X.findLog ++ [(tid.2, k)] } : Stack).sendSd X.findEntries none).tm.repetitionsMax
        then (({ X with findLog := X.findLog ++ [(tid.2, k)] } : Stack).sendSd X.findEntries none).sleepFor tid t
          (pow2 k * (({ X with findLog := X.findLog ++ [(tid.2, k)] } : Stack).sendSd X.findEntries none).tm.repetitionsBaseDelay) (.rep k)
        else (({ X with findLog := X.findLog ++ [(tid.2, k)] } : Stack).sendSd X.findEntries none).finish tid t)) := by
    intro X k hX
    split
    · exact hX
    · exact hafter _ _ (qd_sendSd ({ X with findLog := X.findLog ++ [(tid.2, k)] } : Stack) _ _ hX)
  split
  · split
    · exact hi
    · split
      · exact hi
      · exact qd_sleepFor _ _ _ _ _ (qd_draw _ _ _ hi)
  · split
    · exact hi
    · exact hround _ _ hi
  · split
    · exact hi
    · exact hround _ _ hi
  · exact hi
theorem qd_discoveryStart (s : Stack) (hi : QD s) : QD s.discoveryStart := by
  rcases discoveryStart_cases s with h | ⟨_, h⟩
  · rw [h]; exact hi
  · rw [h]; exact hi
theorem qd_discoveryStop (s : Stack) (hi : QD s) : QD s.discoveryStop := by
  unfold discoveryStop; split
  · exact qd_cancelTask _ _ hi
  · exact hi
theorem qd_rebootDetected (s : Stack) (a : Addr) (hi : QD s) : QD (s.rebootDetected a) := by
  unfold rebootDetected; exact qd_announcerReboot _ _ (qd_foundStopAllFor _ _ hi)

theorem qd_sdMessageReceived (s : Stack) (m : SDHeader) (a : Addr) (mc : Bool) (hi : QD s) : QD (s.sdMessageReceived m a mc) := by
  unfold sdMessageReceived
  split
  · exact hi
  · refine qd_foldl _ (fun X e h => ?_) _ _ hi
    split
    · exact qd_handleOffer _ _ _ h
    · exact h
    · exact qd_handleFind _ _ _ _ h
    · split
      · exact h
      · exact qd_handleSubscribe _ _ _ h
theorem qd_messageReceived (s : Stack) (h : Header) (a : Addr) (mc : Bool) (hi : QD s) : QD (s.messageReceived h a mc) := by
  unfold messageReceived
  split
  · exact hi
  · split
    · exact hi
    · rename_i m r hpar
      simp only []
      have h1 : QD (if (checkReceived s.incoming a mc m.flagReboot h.sess).1 = true
          then ({ s with incoming := (checkReceived s.incoming a mc m.flagReboot h.sess).2 } : Stack).rebootDetected a
          else ({ s with incoming := (checkReceived s.incoming a mc m.flagReboot h.sess).2 } : Stack)) := by
        split
        · exact qd_rebootDetected ({ s with incoming := (checkReceived s.incoming a mc m.flagReboot h.sess).2 } : Stack) _ hi
        · exact hi
      split
      · exact h1
      · exact qd_sdMessageReceived _ _ _ _ h1
theorem qd_datagramReceived (s : Stack) (b : Bytes) (a : Addr) (mc : Bool) (hi : QD s) : QD (s.datagramReceived b a mc) := by
  unfold datagramReceived
  exact qd_foldl _ (fun X h hh => qd_messageReceived X h a mc hh) _ _ hi

theorem qd_applyInput (s : Stack) (x : Input) (hi : QD s) : QD (s.applyInput x) := by
  cases x with
  | dgram a mc b => exact qd_datagramReceived s b a mc hi
  | start =>
    show QD (((s.subscriberStart).announcerStart).discoveryStart)
    exact qd_discoveryStart _ (qd_announcerStart _ (qd_subscriberStart _ hi))
  | stop =>
    show QD (((s.discoveryStop).announcerStop).subscriberStop true)
    exact qd_subscriberStop _ _ (qd_announcerStop _ (qd_discoveryStop _ hi))
  | connLost => exact hi
  | watch f l => exact qd_watchService s f l hi
  | unwatch f l => exact qd_stopWatchService s f l hi
  | watchAll id => exact qd_watchAllServices s id hi
  | unwatchAll id => exact qd_stopWatchAllServices s id hi
  | subscribe g d => exact qd_subscribeEventgroup s g d hi
  | stopSubscribe g d => exact qd_stopSubscribeEventgroup s g d true hi
  | announce i => exact qd_announceService s i hi
  | stopAnnounce i b => exact qd_stopAnnounceService s i b hi
  | setNak i egs =>
    simp only [applyInput]
    split <;> exact hi
  | draws ds => exact hi
  | announcerStop => exact qd_announcerStop s hi
  | announcerStart => exact qd_announcerStart s hi

theorem qd_runCb (s : Stack) (cb : Cb) (hi : QD s) : QD (s.runCb cb) := by
  cases cb with
  | connLost p =>
    cases p with
    | subscriber => exact qd_subscriberStop s false hi
    | discovery => exact qd_foundStopAll s hi
    | announcer => exact qd_announcerStop s hi
  | expiredSvc a k => exact qd_expiredSvc s a k hi
  | expiredSub i a k => exact qd_expiredSub s i a k hi
  | sendStartSubscribe d egs => exact qd_sendSubscribe s _ d egs hi
  | sendStopSubscribe d egs => exact qd_sendSubscribe s _ d egs hi
  | sendOfferTo i a => exact qd_sendOffer s i _ _ hi
  | collectorTimeout cid => exact qd_collectorTimeout s cid hi
  | sleepDone tid => exact qd_sleepDone s tid hi
  | taskStep tid =>
    simp only [runCb]
    split
    · exact hi
    · split
      · exact hi
      · split
        · exact qd_stepOffer _ _ _ _ (qd_cancelTimer _ _ _ hi)
        · exact qd_stepFind _ _ _ (qd_cancelTimer _ _ _ hi)
        · exact qd_stepSubscribe _ _ _ (qd_cancelTimer _ _ _ hi)


/-- ONE EVENT keeps every collection window within its timeout -/
theorem qd_step (s s' : Stack) (e : Event) (h : s.step e = some s') (hi : QD s) : QD s' := by
  cases e with
  | input x => simp only [step, Option.some.injEq] at h; subst h; exact qd_applyInput s x hi
  | run =>
    simp only [step, Loop.pop] at h
    cases hr : s.loop.ready with
    | nil => rw [hr] at h; cases h
    | cons r rest =>
      rw [hr] at h
      simp only [Option.some.injEq] at h
      subst h
      exact qd_runCb _ _ hi
  | fire q =>
    simp only [step] at h
    cases hf : s.loop.fire q with
    | none => rw [hf] at h; cases h
    | some l =>
      rw [hf] at h; simp at h; subst h
      unfold Loop.fire at hf
      split at hf
      · cases hf
      · split at hf
        · simp only [Option.some.injEq] at hf; subst hf
          intro t ht
          exact hi t (List.mem_of_mem_eraseP ht)
        · cases hf
  | adv t =>
    simp only [step] at h
    cases hf : s.loop.adv t with
    | none => rw [hf] at h; cases h
    | some l =>
      rw [hf] at h; simp at h; subst h
      unfold Loop.adv at hf
      split at hf
      · rename_i hg
        simp only [Option.some.injEq] at hf; subst hf
        intro x hx hc
        have := hi x hx hc
        have hlt : s.loop.now < t := hg.2.1
        show x.deadline ≤ t + s.tm.sendCollectionTimeout
        omega
      · cases hf


end Stack
end Someip
