/-
  SD messages at byte level: entries, the entry / option arrays and the SD header.
  `SDHeader.WFwire` = exactly the unresolved messages the wire format can carry; `parse (build m ++ r) = (m, r)` for
  every such message, and `parse` only returns such messages.
-/
import SomeipModel.Lemmas.OptionRT
namespace Someip
set_option linter.unusedSimpArgs false
set_option linter.unusedVariables false

/-! ### one entry -/

/-- an unresolved entry the wire format can carry, decoded against / referring into an option array of length `n` -/
def EntryWF (n : Nat) (e : SDEntry) : Prop :=
  ∃ i, e.idx = some i ∧ e.opts1 = [] ∧ e.opts2 = [] ∧ i.no1 < 16 ∧ i.no2 < 16 ∧ i.oi1 < 256 ∧ i.oi2 < 256 ∧
    e.sid < 65536 ∧ e.iid < 65536 ∧ e.maj < 256 ∧ e.ttl < 16777216 ∧ e.val < 4294967296 ∧
    i.oi1 + i.no1 ≤ n ∧ i.oi2 + i.no2 ≤ n ∧ ¬ (e.ty.isEventgroup = true ∧ e.val / 1048576 % 4096 ≠ 0)

theorem EntryType.ofNat_toNat' (m : EntryType) : EntryType.ofNat? m.toNat = some m := by cases m <;> rfl
theorem EntryType.ofNat_some' {n : Nat} {m : EntryType} (h : EntryType.ofNat? n = some m) : m.toNat = n := by
  have := List.find?_some h; simpa using this

theorem SDEntry.parse_build (n : Nat) (e : SDEntry) (h : EntryWF n e) :
    ∃ b, e.build = .ok b ∧ b.length = 16 ∧ ∀ r, SDEntry.parse n (b ++ r) = .ok (e, r) := by
  obtain ⟨i, hi, ho1, ho2, h1, h2, h3, h4, h5, h6, h7, h8, h9, h10, h11, h12⟩ := h
  refine ⟨[e.ty.toNat, i.oi1, i.oi2, i.no1 * 16 + i.no2] ++ be16 e.sid ++ be16 e.iid ++ [e.maj] ++ be24 e.ttl ++
    be32 e.val, ?_, by simp [be16, be24, be32], fun r => ?_⟩
  · simp only [SDEntry.build, hi]
    rw [if_pos ⟨h1, h2, h3, h4, h5, h6, h7, h8, h9⟩]
  · simp only [be16, be24, be32, List.cons_append, List.nil_append, SDEntry.parse, EntryType.ofNat_toNat']
    have g1 : ¬ (i.oi1 + (i.no1 * 16 + i.no2) / 16 > n) := by omega
    have g2 : ¬ (i.oi2 + (i.no1 * 16 + i.no2) % 16 > n) := by omega
    have q1 : (i.no1 * 16 + i.no2) / 16 = i.no1 := by omega
    have q2 : (i.no1 * 16 + i.no2) % 16 = i.no2 := by omega
    have g1' : ¬ (i.oi1 + i.no1 > n) := by omega
    have g2' : ¬ (i.oi2 + i.no2 > n) := by omega
    simp only [g1, g2, g1', g2', if_false, u32_be32 h9, h12, u16_be16 h5, u16_be16 h6, u24_be24 h8, q1, q2]
    obtain ⟨ty, sid, iid, maj, ttl, val, o1, o2, idx⟩ := e
    simp only at hi ho1 ho2
    subst hi ho1 ho2
    obtain ⟨x1, x2, x3, x4⟩ := i
    rfl

theorem SDEntry.parse_sound {n : Nat} {b : Bytes} {e : SDEntry} {r : Bytes} (hb : AllBytes b)
    (hp : SDEntry.parse n b = .ok (e, r)) : EntryWF n e ∧ ∃ p, b = p ++ r ∧ p.length = 16 := by
  unfold SDEntry.parse at hp
  split at hp
  · rename_i tyb oi1 oi2 numopt s1 s0 i1 i0 maj t2 t1 t0 v3 v2 v1 v0 rest
    simp only [allBytes_cons] at hb
    obtain ⟨a1, a2, a3, a4, a5, a6, a7, a8, a9, a10, a11, a12, a13, a14, a15, a16, _⟩ := hb
    cases hty : EntryType.ofNat? tyb with
    | none => simp [hty] at hp
    | some ty =>
      simp only [hty] at hp
      by_cases h1 : oi1 + numopt / 16 > n
      · simp [h1] at hp
      · by_cases h2 : oi2 + numopt % 16 > n
        · simp [h1, h2] at hp
        · by_cases h3 : ty.isEventgroup = true ∧ u32 v3 v2 v1 v0 / 1048576 % 4096 ≠ 0
          · simp [h1, h2, h3] at hp
          · simp only [h1, h2, h3, if_false, Except.ok.injEq, Prod.mk.injEq] at hp
            obtain ⟨he, hr⟩ := hp
            subst he hr
            refine ⟨⟨⟨oi1, oi2, numopt / 16, numopt % 16⟩, rfl, rfl, rfl, by simp only; omega, by simp only; omega, a2, a3,
              u16_lt a5 a6, u16_lt a7 a8, a9, u24_lt a10 a11 a12, u32_lt a13 a14 a15 a16, by simp only; omega,
              by simp only; omega, h3⟩,
              [tyb, oi1, oi2, numopt, s1, s0, i1, i0, maj, t2, t1, t0, v3, v2, v1, v0], by simp, by simp⟩
  · cases hp

/-! ### the two arrays -/

theorem buildEntries_parse (n : Nat) (es : List SDEntry) (h : ∀ e ∈ es, EntryWF n e) :
    ∃ eb, buildEntries es = .ok eb ∧ eb.length = 16 * es.length ∧ ∀ fuel, es.length ≤ fuel → parseEntries n fuel eb = .ok es := by
  induction es with
  | nil => exact ⟨[], rfl, rfl, fun fuel _ => by cases fuel <;> simp [parseEntries]⟩
  | cons e t ih =>
    obtain ⟨tb, htb, htl, htp⟩ := ih (fun x hx => h x (by simp [hx]))
    obtain ⟨b, hb, hl, hp⟩ := SDEntry.parse_build n e (h e (by simp))
    refine ⟨b ++ tb, by simp [buildEntries, hb, htb, bind, Except.bind, pure, Except.pure], by simp [hl, htl]; omega, ?_⟩
    intro fuel hf
    cases fuel with
    | zero => simp at hf
    | succ f =>
      have hne : (b ++ tb).isEmpty = false := by
        cases b with
        | nil => simp at hl
        | cons x r => rfl
      simp only [parseEntries, hne, Bool.false_eq_true, if_false, hp tb]
      rw [htp f (by simp at hf; omega)]
      rfl

theorem buildOptions_parse (os : List SDOption) (h : ∀ o ∈ os, o.WF) :
    ∃ ob, buildOptions os = .ok ob ∧ ob.length = (os.map SDOption.wireLen).sum ∧
      ∀ fuel, os.length ≤ fuel → parseOptions fuel ob = .ok os := by
  induction os with
  | nil => exact ⟨[], rfl, rfl, fun fuel _ => by cases fuel <;> simp [parseOptions]⟩
  | cons o t ih =>
    obtain ⟨tb, htb, htl, htp⟩ := ih (fun x hx => h x (by simp [hx]))
    obtain ⟨b, hb, hl, hp⟩ := SDOption.parse_build o (h o (by simp))
    refine ⟨b ++ tb, by simp [buildOptions, hb, htb, bind, Except.bind, pure, Except.pure], by simp [hl, htl], ?_⟩
    intro fuel hf
    cases fuel with
    | zero => simp at hf
    | succ f =>
      have h3 := o.wireLen_ge
      have hne : (b ++ tb).isEmpty = false := by
        cases b with
        | nil => simp at hl; omega
        | cons x r => rfl
      simp only [parseOptions, hne, Bool.false_eq_true, if_false, hp tb]
      rw [htp f (by simp at hf; omega)]
      rfl

theorem parseEntries_sound {n : Nat} : ∀ (fuel : Nat) (b : Bytes) (es : List SDEntry), AllBytes b →
    parseEntries n fuel b = .ok es → (∀ e ∈ es, EntryWF n e) ∧ 16 * es.length ≤ b.length
  | 0, b, es, _, h => by simp only [parseEntries, Except.ok.injEq] at h; subst h; simp
  | fuel + 1, b, es, hb, h => by
    unfold parseEntries at h
    split at h
    · simp only [Except.ok.injEq] at h; subst h; simp
    · cases hp : SDEntry.parse n b with
      | error e => simp [hp] at h
      | ok xr =>
        obtain ⟨x, r⟩ := xr
        simp only [hp, bind, Except.bind] at h
        cases ht : parseEntries n fuel r with
        | error e => simp [ht] at h
        | ok t =>
          simp only [ht, pure, Except.pure, Except.ok.injEq] at h
          subst h
          obtain ⟨hw, p, hbp, hpl⟩ := SDEntry.parse_sound hb hp
          have hr : AllBytes r := by rw [hbp] at hb; exact ((allBytes_append _ _).mp hb).2
          obtain ⟨ih1, ih2⟩ := parseEntries_sound fuel r t hr ht
          refine ⟨?_, ?_⟩
          · intro e he
            simp only [List.mem_cons] at he
            rcases he with q | q
            · subst q; exact hw
            · exact ih1 e q
          · rw [hbp]; simp; omega

theorem parseOptions_sound : ∀ (fuel : Nat) (b : Bytes) (os : List SDOption), AllBytes b →
    parseOptions fuel b = .ok os → (∀ o ∈ os, o.WF) ∧ (os.map SDOption.wireLen).sum ≤ b.length
  | 0, b, os, _, h => by simp only [parseOptions, Except.ok.injEq] at h; subst h; simp
  | fuel + 1, b, os, hb, h => by
    unfold parseOptions at h
    split at h
    · simp only [Except.ok.injEq] at h; subst h; simp
    · cases hp : SDOption.parse b with
      | error e => simp [hp] at h
      | ok xr =>
        obtain ⟨x, r⟩ := xr
        simp only [hp, bind, Except.bind] at h
        cases ht : parseOptions fuel r with
        | error e => simp [ht] at h
        | ok t =>
          simp only [ht, pure, Except.pure, Except.ok.injEq] at h
          subst h
          obtain ⟨hw, p, hbp, hpl⟩ := SDOption.parse_sound hb hp
          have hr : AllBytes r := by rw [hbp] at hb; exact ((allBytes_append _ _).mp hb).2
          obtain ⟨ih1, ih2⟩ := parseOptions_sound fuel r t hr ht
          refine ⟨?_, ?_⟩
          · intro e he
            simp only [List.mem_cons] at he
            rcases he with q | q
            · subst q; exact hw
            · exact ih1 e q
          · rw [hbp]; simp; omega

/-! ### the SD header -/

/-- an (unresolved) SD message the wire format can carry -/
def SDHeader.WFwire (m : SDHeader) : Prop :=
  m.flagsUnknown < 64 ∧ (∀ o ∈ m.options, o.WF) ∧ (∀ e ∈ m.entries, EntryWF m.options.length e) ∧
  16 * m.entries.length < 4294967296 ∧ (m.options.map SDOption.wireLen).sum < 4294967296

theorem flagsByte_spec : ∀ fu, fu < 64 → ∀ r u : Bool,
    ((fu ||| (if r then 0x80 else 0)) ||| (if u then 0x40 else 0)) = fu + (if r then 128 else 0) + (if u then 64 else 0) := by
  decide +kernel

theorem SDHeader.flagsByte_eq (m : SDHeader) (h : m.flagsUnknown < 64) :
    m.flagsByte = m.flagsUnknown + (if m.flagReboot then 128 else 0) + (if m.flagUnicast then 64 else 0) := by
  unfold SDHeader.flagsByte
  exact flagsByte_spec _ h _ _

/-- ENCODE → DECODE for whole SD messages (byte level) -/
theorem SDHeader.parse_build (m : SDHeader) (h : m.WFwire) :
    ∃ b, m.build = .ok b ∧ ∀ r, SDHeader.parse (b ++ r) = .ok (m, r) := by
  obtain ⟨hfu, hos, hes, hel, hol⟩ := h
  obtain ⟨eb, heb, hebl, hep⟩ := buildEntries_parse m.options.length m.entries hes
  obtain ⟨ob, hob, hobl, hop⟩ := buildOptions_parse m.options hos
  have hfb := m.flagsByte_eq hfu
  have hfl : m.flagsByte < 256 := by
    rw [hfb]; cases m.flagReboot <;> cases m.flagUnicast <;> simp <;> omega
  have hlen : eb.length < 4294967296 ∧ ob.length < 4294967296 := ⟨by omega, by omega⟩
  refine ⟨[m.flagsByte, 0, 0, 0] ++ be32 eb.length ++ eb ++ be32 ob.length ++ ob, ?_, fun r => ?_⟩
  · simp only [SDHeader.build, hfl, not_true_eq_false, if_false, heb, hob, hlen, and_self, bind, Except.bind, pure,
      Except.pure]
  · have hol3 : m.options.length ≤ ob.length := by
      rw [hobl]
      clear hos hes hol hop hob hobl
      induction m.options with
      | nil => simp
      | cons o t ih => have := o.wireLen_ge; simp; omega
    simp only [be32, List.cons_append, List.nil_append, SDHeader.parse, List.append_assoc]
    have g1 : ¬ (List.length (m.flagsByte :: 0 :: 0 :: 0 :: (eb.length / 16777216 % 256) :: (eb.length / 65536 % 256) ::
        (eb.length / 256 % 256) :: (eb.length % 256) :: (eb ++ ((ob.length / 16777216 % 256) :: (ob.length / 65536 % 256) ::
        (ob.length / 256 % 256) :: (ob.length % 256) :: (ob ++ r)))) < 12) := by simp; omega
    rw [if_neg g1]
    simp only [u32_be32 hlen.1]
    have g2 : ¬ ((eb ++ ((ob.length / 16777216 % 256) :: (ob.length / 65536 % 256) ::
        (ob.length / 256 % 256) :: (ob.length % 256) :: (ob ++ r))).length < eb.length + 4) := by simp
    rw [if_neg g2]
    simp only [List.take_left, List.drop_left, u32_be32 hlen.2]
    have g3 : ¬ ((ob ++ r).length < ob.length) := by simp
    rw [if_neg g3]
    rw [hop ob.length hol3]
    simp only []
    rw [hep eb.length (by omega)]
    simp only [Except.ok.injEq, Prod.mk.injEq, and_true]
    obtain ⟨es, os, fr, fuc, fu⟩ := m
    simp only at hfb hfu ⊢
    rw [hfb]
    cases fr <;> cases fuc <;> simp <;> omega

/-- DECODER SOUNDNESS for whole SD messages -/
theorem SDHeader.parse_sound {b : Bytes} {m : SDHeader} {r : Bytes} (hb : AllBytes b)
    (hp : SDHeader.parse b = .ok (m, r)) : m.WFwire := by
  unfold SDHeader.parse at hp
  split at hp
  · rename_i flags x1 x2 x3 e3 e2 e1 e0 rest
    simp only [allBytes_cons] at hb
    obtain ⟨hf, _, _, _, b3, b2, b1, b0, hrest⟩ := hb
    split at hp
    · cases hp
    · dsimp only at hp
      split at hp
      · cases hp
      · rename_i hl1
        split at hp
        · rename_i o3 o2 o1 o0 rest2 hd
          have hd' : AllBytes (o3 :: o2 :: o1 :: o0 :: rest2) := by rw [← hd]; exact allBytes_drop _ hrest
          simp only [allBytes_cons] at hd'
          obtain ⟨c3, c2, c1, c0, hrest2⟩ := hd'
          split at hp
          · cases hp
          · rename_i hl2
            cases hop : parseOptions (rest2.take (u32 o3 o2 o1 o0)).length (rest2.take (u32 o3 o2 o1 o0)) with
            | error e => rw [hop] at hp; cases hp
            | ok options =>
              rw [hop] at hp
              dsimp only at hp
              cases hep : parseEntries options.length (rest.take (u32 e3 e2 e1 e0)).length (rest.take (u32 e3 e2 e1 e0)) with
              | error e => rw [hep] at hp; cases hp
              | ok entries =>
                rw [hep] at hp
                simp only [Except.ok.injEq, Prod.mk.injEq] at hp
                obtain ⟨hm, _⟩ := hp
                subst hm
                obtain ⟨ho1, ho2⟩ := parseOptions_sound _ _ _ (allBytes_take _ hrest2) hop
                obtain ⟨he1, he2⟩ := parseEntries_sound _ _ _ (allBytes_take _ hrest) hep
                have := u32_lt b3 b2 b1 b0
                have := u32_lt c3 c2 c1 c0
                refine ⟨by simp only; omega, ho1, he1, ?_, ?_⟩
                · simp only; simp at he2; omega
                · simp only; simp at ho2; omega
        · cases hp
  · cases hp

end Someip
