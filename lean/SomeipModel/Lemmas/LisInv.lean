/-
  C05, per listener: the notifications handed to ONE application listener.  `lisLog` (ghost) records every offered / stopped
  notification handed to an application listener.  `NoteRel s s'`: the registered listeners are the same and every line the
  store-level log gained was handed to exactly the listeners watching that service at the time - once per registration.
  All store operations of ServiceDiscover satisfy `NoteRel`.
-/
import SomeipModel.Lemmas.LisFrame
import SomeipModel.Lemmas.StoreOps
namespace Someip
namespace Stack
set_option linter.unusedSimpArgs false
set_option linter.unusedVariables false

def extIds (ls : List Listener) : List LId := ls.filterMap (fun x => match x with | .ext id => some id | _ => none)
/-- the application listeners (with multiplicity) that are told about service key k -/
def watchersOf (s : Stack) (k : SvcKey) : List LId :=
  (s.watched.filter (fun p => p.1.matchesService k.toService)).flatMap (fun p => extIds p.2) ++ s.watchAll
/-- all registrations of application listeners -/
def allWatchers (s : Stack) : List LId := s.watched.flatMap (fun p => extIds p.2) ++ s.watchAll

abbrev LLine := LId × Bool × SvcKey × Addr
/-- the lines handed to the listeners for one store-level notification -/
def linesOf (s : Stack) (x : Bool × SvcKey × Addr) : List LLine := (watchersOf s x.2.1).map (fun id => (id, x.1, x.2.1, x.2.2))

theorem watchersOf_congr {s s' : Stack} (h1 : s'.watched = s.watched) (h2 : s'.watchAll = s.watchAll) (k : SvcKey) :
    watchersOf s' k = watchersOf s k := by unfold watchersOf; rw [h1, h2]
theorem linesOf_congr {s s' : Stack} (h1 : s'.watched = s.watched) (h2 : s'.watchAll = s.watchAll) :
    linesOf s' = linesOf s := by funext x; unfold linesOf; rw [watchersOf_congr h1 h2]

/-- registrations unchanged; the store log grew by `ext`, the listener log by the lines of `ext` -/
def NoteRel (s s' : Stack) : Prop :=
  s'.watched = s.watched ∧ s'.watchAll = s.watchAll ∧ s'.lisDup = s.lisDup ∧
    ∃ ext, s'.storeLog = s.storeLog ++ ext ∧ s'.lisLog = s.lisLog ++ ext.flatMap (linesOf s)

theorem NoteRel.refl (s : Stack) : NoteRel s s := ⟨rfl, rfl, rfl, [], by simp, by simp⟩
theorem NoteRel.trans {s s' s'' : Stack} (h1 : NoteRel s s') (h2 : NoteRel s' s'') : NoteRel s s'' := by
  obtain ⟨a1, a2, a3, e1, a4, a5⟩ := h1
  obtain ⟨b1, b2, b3, e2, b4, b5⟩ := h2
  refine ⟨b1.trans a1, b2.trans a2, b3.trans a3, e1 ++ e2, by rw [b4, a4, List.append_assoc], ?_⟩
  rw [b5, a5, linesOf_congr a1 a2, List.flatMap_append, List.append_assoc]
theorem noteRel_of_lsp {s s' : Stack} (h : lsp s' = lsp s) : NoteRel s s' := by
  have e2 : s'.storeLog = s.storeLog := congrArg (fun p => p.2.1) h
  have e3 : s'.watched = s.watched := congrArg (fun p => p.2.2.1) h
  have e4 : s'.watchAll = s.watchAll := congrArg (fun p => p.2.2.2.1) h
  have e5 : s'.lisLog = s.lisLog := congrArg (fun p => p.2.2.2.2.1) h
  have e6 : s'.lisDup = s.lisDup := congrArg (fun p => p.2.2.2.2.2) h
  exact ⟨e3, e4, e6, [], by simp [e2], by simp [e5]⟩
/-- a change of the store alone -/
theorem noteRel_with_found (s : Stack) (x : TStore SvcKey) : NoteRel s { s with found := x } := ⟨rfl, rfl, rfl, [], by simp, by simp⟩

theorem noteRel_foldl {α : Type} (f : Stack → α → Stack) (h : ∀ s x, NoteRel s (f s x)) (l : List α) (s : Stack) :
    NoteRel s (l.foldl f s) := by
  induction l generalizing s with
  | nil => exact NoteRel.refl _
  | cons a t ih => rw [List.foldl_cons]; exact NoteRel.trans (h s a) (ih _)

/-! ### one notification round -/

/-- what is the same before and after, and the listener log -/
def lrest (s : Stack) : TStore SvcKey × List (Bool × SvcKey × Addr) × List (Service × List Listener) × List LId × Bool :=
  (s.found, s.storeLog, s.watched, s.watchAll, s.lisDup)

theorem lrest_of_lsp {s s' : Stack} (h : lsp s' = lsp s) : lrest s' = lrest s ∧ s'.lisLog = s.lisLog := by
  refine ⟨?_, congrArg (fun p => p.2.2.2.2.1) h⟩
  unfold lrest
  rw [show s'.found = s.found from congrArg (fun p => p.1) h, show s'.storeLog = s.storeLog from congrArg (fun p => p.2.1) h,
      show s'.watched = s.watched from congrArg (fun p => p.2.2.1) h, show s'.watchAll = s.watchAll from congrArg (fun p => p.2.2.2.1) h,
      show s'.lisDup = s.lisDup from congrArg (fun p => p.2.2.2.2.2) h]

/-- the callback of one listener -/
theorem lis_callback (X : Stack) (b : Bool) (k : SvcKey) (a : Addr) (l : Listener) :
    lrest (if b = true then X.listenerOffered l k a else X.listenerStopped l k a) = lrest X ∧
    (if b = true then X.listenerOffered l k a else X.listenerStopped l k a).lisLog =
      X.lisLog ++ (extIds [l]).map (fun id => (id, b, k, a)) := by
  cases l with
  | ext id =>
    cases b
    · simp only [Bool.false_eq_true, if_false]; exact ⟨rfl, by simp [listenerStopped, logLis, emit, extIds]⟩
    · simp only [if_true]; exact ⟨rfl, by simp [listenerOffered, logLis, emit, extIds]⟩
  | auto g =>
    have hnil : (extIds [Listener.auto g]).map (fun id => ((id, b, k, a) : LLine)) = [] := by simp [extIds]
    rw [hnil, List.append_nil]
    cases b
    · simp only [Bool.false_eq_true, if_false]
      unfold listenerStopped; simp only []
      split
      · exact ⟨rfl, rfl⟩
      · exact lrest_of_lsp (lsp_stopSubscribeEventgroup _ _ _ _)
    · simp only [if_true]
      unfold listenerOffered; simp only []
      split
      · exact ⟨rfl, rfl⟩
      · exact lrest_of_lsp (lsp_subscribeEventgroup _ _ _)

theorem extIds_cons (l : Listener) (ls : List Listener) : extIds (l :: ls) = extIds [l] ++ extIds ls := by
  cases l <;> simp [extIds]

theorem lis_callbacks (ls : List Listener) (X : Stack) (b : Bool) (k : SvcKey) (a : Addr) :
    lrest (ls.foldl (fun s l => if b = true then s.listenerOffered l k a else s.listenerStopped l k a) X) = lrest X ∧
    (ls.foldl (fun s l => if b = true then s.listenerOffered l k a else s.listenerStopped l k a) X).lisLog =
      X.lisLog ++ (extIds ls).map (fun id => (id, b, k, a)) := by
  induction ls generalizing X with
  | nil => exact ⟨rfl, by simp [extIds]⟩
  | cons l t ih =>
    rw [List.foldl_cons]
    obtain ⟨h1, h2⟩ := lis_callback X b k a l
    obtain ⟨h3, h4⟩ := ih (if b = true then X.listenerOffered l k a else X.listenerStopped l k a)
    refine ⟨h3.trans h1, ?_⟩
    rw [h4, h2, extIds_cons l t]
    simp [List.map_append, List.append_assoc]

/-- `_notify_service_offered / stopped`: one line in the store log, one line per registration watching the service -/
theorem noteRel_notifyService (s : Stack) (b : Bool) (k : SvcKey) (a : Addr) : NoteRel s (s.notifyService b k a) ∧
    (s.notifyService b k a).found = s.found := by
  unfold notifyService
  simp only []
  generalize hs1 : ({ s with storeLog := s.storeLog ++ [(b, k, a)] } : Stack) = s1
  have hw1 : s1.watched = s.watched := by rw [← hs1]
  have hwa1 : s1.watchAll = s.watchAll := by rw [← hs1]
  -- the watched filters
  have key : ∀ (ws : List (Service × List Listener)) (X : Stack),
      lrest (ws.foldl (fun s p => if p.1.matchesService k.toService = true
          then p.2.foldl (fun s l => if b = true then s.listenerOffered l k a else s.listenerStopped l k a) s else s) X) = lrest X ∧
      (ws.foldl (fun s p => if p.1.matchesService k.toService = true
          then p.2.foldl (fun s l => if b = true then s.listenerOffered l k a else s.listenerStopped l k a) s else s) X).lisLog =
        X.lisLog ++ ((ws.filter (fun p => p.1.matchesService k.toService)).flatMap (fun p => extIds p.2)).map (fun id => (id, b, k, a)) := by
    intro ws
    induction ws with
    | nil => intro X; exact ⟨rfl, by simp⟩
    | cons p t ih =>
      intro X
      rw [List.foldl_cons]
      by_cases hm : p.1.matchesService k.toService = true
      · rw [if_pos hm]
        obtain ⟨h1, h2⟩ := lis_callbacks p.2 X b k a
        obtain ⟨h3, h4⟩ := ih (p.2.foldl (fun s l => if b = true then s.listenerOffered l k a else s.listenerStopped l k a) X)
        refine ⟨h3.trans h1, ?_⟩
        rw [h4, h2, List.filter_cons, if_pos hm, List.flatMap_cons, List.map_append, List.append_assoc]
      · rw [if_neg hm]
        obtain ⟨h3, h4⟩ := ih X
        refine ⟨h3, ?_⟩
        rw [h4, List.filter_cons, if_neg hm]
  obtain ⟨h1, h2⟩ := key s.watched s1
  generalize hs2 : (s.watched.foldl (fun s p => if p.1.matchesService k.toService = true
          then p.2.foldl (fun s l => if b = true then s.listenerOffered l k a else s.listenerStopped l k a) s else s) s1) = s2 at h1 h2 ⊢
  -- the watch-all listeners
  have key2 : ∀ (ids : List LId) (X : Stack),
      lrest (ids.foldl (fun s id => if b = true then s.listenerOffered (.ext id) k a else s.listenerStopped (.ext id) k a) X) = lrest X ∧
      (ids.foldl (fun s id => if b = true then s.listenerOffered (.ext id) k a else s.listenerStopped (.ext id) k a) X).lisLog =
        X.lisLog ++ ids.map (fun id => (id, b, k, a)) := by
    intro ids
    induction ids with
    | nil => intro X; exact ⟨rfl, by simp⟩
    | cons id t ih =>
      intro X
      rw [List.foldl_cons]
      obtain ⟨c1, c2⟩ := lis_callback X b k a (.ext id)
      obtain ⟨c3, c4⟩ := ih (if b = true then X.listenerOffered (.ext id) k a else X.listenerStopped (.ext id) k a)
      refine ⟨c3.trans c1, ?_⟩
      rw [c4, c2]; simp [extIds]
  have hwa2 : s2.watchAll = s.watchAll := by
    have := congrArg (fun p => p.2.2.2.1) h1; exact this.trans hwa1
  obtain ⟨h3, h4⟩ := key2 s2.watchAll s2
  have hall := h3.trans h1
  have e1 : lrest s1 = (s.found, s.storeLog ++ [(b, k, a)], s.watched, s.watchAll, s.lisDup) := by rw [← hs1]; rfl
  rw [e1] at hall
  refine ⟨⟨congrArg (fun p => p.2.2.1) hall, congrArg (fun p => p.2.2.2.1) hall, congrArg (fun p => p.2.2.2.2) hall, [(b, k, a)],
    congrArg (fun p => p.2.1) hall, ?_⟩, congrArg (fun p => p.1) hall⟩
  rw [h4, h2, hwa2]
  have : s1.lisLog = s.lisLog := by rw [← hs1]
  rw [this]
  simp [linesOf, watchersOf, List.map_append, List.append_assoc]

/-! ### the store operations -/

theorem noteRel_cancelTimer (s : Stack) (own : Cb → Bool) (t : Option Nat) : NoteRel s (s.cancelTimer own t) :=
  noteRel_of_lsp (lsp_cancelTimer _ _ _)

theorem noteRel_foundStop (s : Stack) (a : Addr) (k : SvcKey) : NoteRel s (s.foundStop a k) := by
  unfold foundStop
  simp only []
  split
  · exact noteRel_with_found _ _
  · exact NoteRel.trans (NoteRel.trans (noteRel_with_found s _) (noteRel_cancelTimer _ _ _)) (noteRel_notifyService _ _ _ _).1

theorem noteRel_expiredSvc (s : Stack) (a : Addr) (k : SvcKey) : NoteRel s (s.expiredSvc a k) := by
  unfold expiredSvc
  simp only []
  split
  · exact noteRel_with_found _ _
  · exact NoteRel.trans (noteRel_with_found s _) (noteRel_notifyService _ _ _ _).1

theorem noteRel_foundRefresh (s : Stack) (ttl : Nat) (a : Addr) (k : SvcKey) : NoteRel s (s.foundRefresh ttl a k) := by
  unfold foundRefresh
  simp only []
  have harm : ∀ (X : Stack) (cb : Cb), NoteRel X (X.armTtl ttl cb).1 := fun X cb => noteRel_of_lsp (lsp_armTtl _ _ _)
  have hfin : ∀ (X : Stack) (f : TStore SvcKey) (r : List (Addr × SvcKey × Nat × Nat)), NoteRel X { X with found := f, refreshLog := r } :=
    fun X f r => ⟨rfl, rfl, rfl, [], by simp, by simp⟩
  split
  · exact NoteRel.trans (NoteRel.trans (NoteRel.trans (noteRel_with_found s _) (noteRel_cancelTimer _ _ _)) (harm _ _)) (hfin _ _ _)
  · exact NoteRel.trans (NoteRel.trans (NoteRel.trans (noteRel_with_found s _) (noteRel_notifyService _ _ _ _).1) (harm _ _)) (hfin _ _ _)

theorem noteRel_handleOffer (s : Stack) (e : SDEntry) (a : Addr) : NoteRel s (s.handleOffer e a) := by
  unfold handleOffer
  simp only []
  split
  · split
    · exact noteRel_foundStop _ _ _
    · exact NoteRel.refl _
  · split
    · exact noteRel_foundStop _ _ _
    · exact noteRel_foundRefresh _ _ _ _

theorem noteRel_foundStopAllFor (s : Stack) (a : Addr) : NoteRel s (s.foundStopAllFor a) := by
  unfold foundStopAllFor
  simp only []
  exact NoteRel.trans (noteRel_with_found s _)
    (noteRel_foldl _ (fun X e => NoteRel.trans (noteRel_cancelTimer _ _ _) (noteRel_notifyService _ _ _ _).1) _ _)

theorem noteRel_foundStopAll (s : Stack) : NoteRel s s.foundStopAll := by
  unfold foundStopAll
  simp only []
  show NoteRel s ({ (List.foldl (fun s p => s.foundStopAllFor p.1) s s.found) with found := [] } : Stack)
  exact NoteRel.trans (noteRel_foldl (fun (X : Stack) (p : Addr × List (TSEntry SvcKey)) => X.foundStopAllFor p.1)
    (fun X p => noteRel_foundStopAllFor X p.1) s.found s) (noteRel_with_found _ [])

theorem noteRel_rebootDetected (s : Stack) (a : Addr) : NoteRel s (s.rebootDetected a) := by
  unfold rebootDetected
  exact NoteRel.trans (noteRel_foundStopAllFor s a) (noteRel_of_lsp (lsp_announcerReboot _ _))

theorem noteRel_sdMessageReceived (s : Stack) (m : SDHeader) (a : Addr) (mc : Bool) : NoteRel s (s.sdMessageReceived m a mc) := by
  unfold sdMessageReceived
  split
  · exact NoteRel.refl _
  · apply noteRel_foldl
    intro X e
    split
    · exact noteRel_handleOffer _ _ _
    · exact NoteRel.refl _
    · exact noteRel_of_lsp (lsp_handleFind _ _ _ _)
    · split
      · exact NoteRel.refl _
      · exact noteRel_of_lsp (lsp_handleSubscribe _ _ _)

theorem noteRel_messageReceived (s : Stack) (h : Header) (a : Addr) (mc : Bool) : NoteRel s (s.messageReceived h a mc) := by
  unfold messageReceived
  split
  · exact NoteRel.refl _
  · split
    · exact NoteRel.refl _
    · rename_i m r hpar
      simp only []
      have h1 : NoteRel s (if (checkReceived s.incoming a mc m.flagReboot h.sess).1 = true
          then ({ s with incoming := (checkReceived s.incoming a mc m.flagReboot h.sess).2 } : Stack).rebootDetected a
          else ({ s with incoming := (checkReceived s.incoming a mc m.flagReboot h.sess).2 } : Stack)) := by
        split
        · exact NoteRel.trans (noteRel_of_lsp (s := s) (s' := { s with incoming := _ }) rfl) (noteRel_rebootDetected _ _)
        · exact noteRel_of_lsp (s := s) (s' := { s with incoming := _ }) rfl
      split
      · exact NoteRel.trans h1 (noteRel_of_lsp (lsp_emit _ _))
      · exact NoteRel.trans h1 (noteRel_sdMessageReceived _ _ _ _)

theorem noteRel_datagramReceived (s : Stack) (b : Bytes) (a : Addr) (mc : Bool) : NoteRel s (s.datagramReceived b a mc) := by
  unfold datagramReceived
  exact noteRel_foldl _ (fun X h => noteRel_messageReceived X h a mc) _ _

/-! ### the per-listener invariant -/

/-- the notifications handed to application listener l, in order -/
def llog (s : Stack) (l : LId) : SLog := (s.lisLog.filter (fun x => decide (x.1 = l))).map (·.2)
/-- registrations of l that watch service key k / registrations of l at all -/
def regsK (s : Stack) (l : LId) (k : SvcKey) : Nat := (watchersOf s k).count l
def nreg (s : Stack) (l : LId) : Nat := (allWatchers s).count l
/-- the addresses of the store are pairwise distinct -/
def AN (s : Stack) : Prop := (s.found.map (·.1)).Nodup

/-- the watched-services dict has one entry per service filter -/
def WK (s : Stack) : Prop := (s.watched.map (·.1.key)).Nodup

structure LInv (s : Stack) : Prop where
  an : AN s
  wk : WK s
  told : s.lisDup = false → (∀ l, nreg s l ≤ 1) ∧
    ∀ l k a, trackS k a (some false) (llog s l) = some (decide (k ∈ keysAt s a) && decide (regsK s l k = 1))

theorem lines_filter (ws : List LId) (l : LId) (y : Bool × SvcKey × Addr) :
    ((ws.map (fun id => ((id, y) : LLine))).filter (fun x => decide (x.1 = l))).map (·.2) = List.replicate (ws.count l) y := by
  induction ws with
  | nil => rfl
  | cons w t ih =>
    by_cases hw : w = l
    · subst hw; simp [List.filter_cons, List.replicate_succ, ih]
    · have : ¬ (l = w) := fun e => hw e.symm
      simp [List.filter_cons, hw, List.count_cons, ih, this]

theorem llog_of_noteRel {s s' : Stack} (h : NoteRel s s') (l : LId) :
    ∃ ext, s'.storeLog = s.storeLog ++ ext ∧ llog s' l = llog s l ++ ext.flatMap (fun x => List.replicate (regsK s l x.2.1) x) := by
  obtain ⟨_, _, _, ext, h1, h2⟩ := h
  refine ⟨ext, h1, ?_⟩
  unfold llog
  rw [h2, List.filter_append, List.map_append]
  congr 1
  have key : ∀ (e : SLog), ((e.flatMap (linesOf s)).filter (fun x => decide (x.1 = l))).map (·.2) =
      e.flatMap (fun x => List.replicate (regsK s l x.2.1) x) := by
    intro e
    induction e with
    | nil => rfl
    | cons x t ih =>
      simp only [List.flatMap_cons, List.filter_append, List.map_append, ih]
      congr 1
      obtain ⟨b, k, a⟩ := x
      exact lines_filter (watchersOf s k) l (b, k, a)
  exact key ext

theorem trackS_skip (k : SvcKey) (a : Addr) (b : Bool) (ls rest : SLog) (h : ∀ x ∈ ls, ¬ (x.2.1 = k ∧ x.2.2 = a)) :
    trackS k a (some b) (ls ++ rest) = trackS k a (some b) rest := by
  induction ls with
  | nil => rfl
  | cons x t ih =>
    obtain ⟨o, k', a'⟩ := x
    have hx := h (o, k', a') List.mem_cons_self
    simp only [List.cons_append, trackS]
    rw [if_neg hx]
    exact ih (fun y hy => h y (List.mem_cons_of_mem _ hy))

/-- the lines of the services the listener watches are all there, once; other lines do not matter -/
theorem trackS_watched (k : SvcKey) (a : Addr) (r : SvcKey → Nat) (hr : r k = 1) (st : Option Bool) (ext : SLog) :
    trackS k a st (ext.flatMap (fun x => List.replicate (r x.2.1) x)) = trackS k a st ext := by
  induction ext generalizing st with
  | nil => rfl
  | cons x t ih =>
    cases st with
    | none => simp
    | some b =>
      obtain ⟨o, k', a'⟩ := x
      simp only [List.flatMap_cons]
      by_cases hk : k' = k
      · subst hk
        rw [hr]
        simp only [List.replicate_one, List.singleton_append, trackS]
        split
        · split
          · split
            · rfl
            · exact ih _
          · split
            · exact ih _
            · rfl
        · exact ih _
      · rw [trackS_skip k a b _ _ (fun y hy => by
          have := List.eq_of_mem_replicate hy
          rw [this]; exact fun e => hk e.1)]
        simp only [trackS]
        rw [if_neg (fun e => hk e.1)]
        exact ih _

/-- the lines of a service the listener does not watch never reach it -/
theorem trackS_unwatched (k : SvcKey) (a : Addr) (r : SvcKey → Nat) (hr : r k = 0) (b : Bool) (ext : SLog) :
    trackS k a (some b) (ext.flatMap (fun x => List.replicate (r x.2.1) x)) = some b := by
  have h : ∀ y ∈ ext.flatMap (fun x => List.replicate (r x.2.1) x), ¬ (y.2.1 = k ∧ y.2.2 = a) := by
    intro y hy
    obtain ⟨x, _, hx2⟩ := List.mem_flatMap.mp hy
    have hy' := List.eq_of_mem_replicate hx2
    intro e
    rw [hy'] at e
    have hne : r x.2.1 ≠ 0 := by
      intro h0; rw [h0] at hx2; simp at hx2
    rw [e.1, hr] at hne; exact hne rfl
  have := trackS_skip k a b _ [] h
  rw [List.append_nil] at this
  rw [this]; rfl

theorem count_flatMap_filter_le {α β : Type} [BEq β] (ws : List α) (p : α → Bool) (f : α → List β) (l : β) :
    ((ws.filter p).flatMap f).count l ≤ (ws.flatMap f).count l := by
  induction ws with
  | nil => simp
  | cons w t ih =>
    simp only [List.filter_cons, List.flatMap_cons, List.count_append]
    split
    · simp only [List.flatMap_cons, List.count_append]; omega
    · omega

/-- a store operation: the listener's view follows the store for what it watches, and stays silent otherwise -/
theorem told_of_noteRel {s s' : Stack} (hS : StoreInv s) (hS' : StoreInv s') (hR : NoteRel s s')
    (hi : s.lisDup = false → (∀ l, nreg s l ≤ 1) ∧
      ∀ l k a, trackS k a (some false) (llog s l) = some (decide (k ∈ keysAt s a) && decide (regsK s l k = 1))) :
    s'.lisDup = false → (∀ l, nreg s' l ≤ 1) ∧
      ∀ l k a, trackS k a (some false) (llog s' l) = some (decide (k ∈ keysAt s' a) && decide (regsK s' l k = 1)) := by
  intro hd
  obtain ⟨hw, hwa, hdup, _⟩ := hR
  obtain ⟨hn, ht⟩ := hi (by rw [← hdup]; exact hd)
  have hnreg : ∀ l, nreg s' l = nreg s l := fun l => by unfold nreg allWatchers; rw [hw, hwa]
  have hregs : ∀ l k, regsK s' l k = regsK s l k := fun l k => by unfold regsK; rw [watchersOf_congr hw hwa]
  refine ⟨fun l => by rw [hnreg]; exact hn l, ?_⟩
  intro l k a
  obtain ⟨ext, h1, h2⟩ := llog_of_noteRel ⟨hw, hwa, hdup, ‹_›⟩ l
  rw [h2, trackS_append, ht l k a, hregs]
  -- what the store-level log says about (k, a)
  have hstore : trackS k a (some (decide (k ∈ keysAt s a))) ext = some (decide (k ∈ keysAt s' a)) := by
    have := hS'.2 k a
    rw [h1, trackS_append, hS.2 k a] at this
    exact this
  have hle : regsK s l k ≤ 1 := by
    have h1 : regsK s l k ≤ nreg s l := by
      unfold regsK nreg watchersOf allWatchers
      simp only [List.count_append]
      apply Nat.add_le_add_right
      exact count_flatMap_filter_le _ _ _ _
    exact Nat.le_trans h1 (hn l)
  by_cases hreg : regsK s l k = 1
  · simp only [hreg, decide_true, Bool.and_true]
    rw [trackS_watched k a (regsK s l) hreg]
    exact hstore
  · have h0 : regsK s l k = 0 := by omega
    simp only [h0]
    simp only [show decide ((0 : Nat) = 1) = false from rfl, Bool.and_false]
    exact trackS_unwatched k a (regsK s l) h0 false ext

/-! ### the addresses of the store stay pairwise distinct -/

theorem tstore_touch_nodup {K : Type} (st : TStore K) (a : Addr) (h : (st.map (·.1)).Nodup) : ((st.touch a).map (·.1)).Nodup := by
  unfold TStore.touch
  split
  · exact h
  · rename_i hany
    rw [List.map_append, List.nodup_append]
    refine ⟨h, by simp, ?_⟩
    intro x hx y hy
    simp at hy; subst hy
    obtain ⟨p, hp, rfl⟩ := List.mem_map.mp hx
    intro e
    apply hany
    simp only [List.any_eq_true, decide_eq_true_eq]
    exact ⟨p, hp, e⟩
theorem tstore_set_keys {K : Type} (st : TStore K) (a : Addr) (es : List (TSEntry K)) : (st.set a es).map (·.1) = (st.touch a).map (·.1) := by
  unfold TStore.set
  rw [List.map_map]
  apply List.map_congr_left
  intro p _
  simp only [Function.comp]
  split
  · rename_i h; exact h.symm
  · rfl
theorem tstore_set_nodup {K : Type} (st : TStore K) (a : Addr) (es : List (TSEntry K)) (h : (st.map (·.1)).Nodup) :
    ((st.set a es).map (·.1)).Nodup := by rw [tstore_set_keys]; exact tstore_touch_nodup st a h

theorem an_of_found {s s' : Stack} (h : s'.found = s.found) (hi : AN s) : AN s' := by unfold AN; rw [h]; exact hi
theorem an_of_lsp {s s' : Stack} (h : lsp s' = lsp s) (hi : AN s) : AN s' := an_of_found (congrArg (fun p => p.1) h) hi

theorem an_foundStop (s : Stack) (a : Addr) (k : SvcKey) (hi : AN s) : AN (s.foundStop a k) := by
  unfold foundStop
  simp only []
  split
  · exact tstore_touch_nodup _ _ hi
  · apply an_of_found ((noteRel_notifyService _ _ _ _).2.trans (congrArg (fun p => p.1) (lsp_cancelTimer _ _ _)))
    exact tstore_set_nodup _ _ _ (tstore_touch_nodup _ _ hi)

theorem an_expiredSvc (s : Stack) (a : Addr) (k : SvcKey) (hi : AN s) : AN (s.expiredSvc a k) := by
  unfold expiredSvc
  simp only []
  split
  · exact tstore_touch_nodup _ _ hi
  · apply an_of_found (noteRel_notifyService _ _ _ _).2
    exact tstore_set_nodup _ _ _ (tstore_touch_nodup _ _ hi)

theorem an_foundRefresh (s : Stack) (ttl : Nat) (a : Addr) (k : SvcKey) (hi : AN s) : AN (s.foundRefresh ttl a k) := by
  unfold foundRefresh
  simp only []
  have h0 : AN ({ s with found := s.found.touch a } : Stack) := tstore_touch_nodup _ _ hi
  have hfinal : ∀ (X : Stack) (es : List (TSEntry SvcKey)) (rl : List (Addr × SvcKey × Nat × Nat)), AN X →
      AN ({ X with found := (X.found.touch a).set a es, refreshLog := rl } : Stack) :=
    fun X es rl h => tstore_set_nodup _ _ _ (tstore_touch_nodup _ _ h)
  apply hfinal
  apply an_of_lsp (lsp_armTtl _ _ _)
  split
  · exact an_of_lsp (lsp_cancelTimer _ _ _) h0
  · exact an_of_found (noteRel_notifyService _ _ _ _).2 h0

theorem an_handleOffer (s : Stack) (e : SDEntry) (a : Addr) (hi : AN s) : AN (s.handleOffer e a) := by
  unfold handleOffer
  simp only []
  split
  · split
    · exact an_foundStop _ _ _ hi
    · exact hi
  · split
    · exact an_foundStop _ _ _ hi
    · exact an_foundRefresh _ _ _ _ hi

theorem an_foldl {α : Type} (f : Stack → α → Stack) (h : ∀ s x, AN s → AN (f s x)) (l : List α) (s : Stack) (hi : AN s) : AN (l.foldl f s) := by
  induction l generalizing s with
  | nil => exact hi
  | cons a t ih => rw [List.foldl_cons]; exact ih _ (h s a hi)

theorem an_foundStopAllFor (s : Stack) (a : Addr) (hi : AN s) : AN (s.foundStopAllFor a) := by
  unfold foundStopAllFor
  simp only []
  apply an_foldl
  · intro X e hX
    exact an_of_found (noteRel_notifyService _ _ _ _).2 (an_of_lsp (lsp_cancelTimer X (isSvcExpiryFor a e.key) e.timer) hX)
  · exact tstore_set_nodup _ _ _ (tstore_touch_nodup _ _ hi)

theorem an_rebootDetected (s : Stack) (a : Addr) (hi : AN s) : AN (s.rebootDetected a) := by
  unfold rebootDetected
  exact an_of_lsp (lsp_announcerReboot _ _) (an_foundStopAllFor s a hi)

theorem an_sdMessageReceived (s : Stack) (m : SDHeader) (a : Addr) (mc : Bool) (hi : AN s) : AN (s.sdMessageReceived m a mc) := by
  unfold sdMessageReceived
  split
  · exact hi
  · apply an_foldl _ _ _ _ hi
    intro X e hX
    split
    · exact an_handleOffer _ _ _ hX
    · exact hX
    · exact an_of_lsp (lsp_handleFind _ _ _ _) hX
    · split
      · exact hX
      · exact an_of_lsp (lsp_handleSubscribe _ _ _) hX

theorem an_messageReceived (s : Stack) (h : Header) (a : Addr) (mc : Bool) (hi : AN s) : AN (s.messageReceived h a mc) := by
  unfold messageReceived
  split
  · exact hi
  · split
    · exact hi
    · rename_i m r hpar
      simp only []
      have h1 : AN (if (checkReceived s.incoming a mc m.flagReboot h.sess).1 = true
          then ({ s with incoming := (checkReceived s.incoming a mc m.flagReboot h.sess).2 } : Stack).rebootDetected a
          else ({ s with incoming := (checkReceived s.incoming a mc m.flagReboot h.sess).2 } : Stack)) := by
        split
        · exact an_rebootDetected _ _ hi
        · exact hi
      split
      · exact h1
      · exact an_sdMessageReceived _ _ _ _ h1

theorem an_datagramReceived (s : Stack) (b : Bytes) (a : Addr) (mc : Bool) (hi : AN s) : AN (s.datagramReceived b a mc) := by
  unfold datagramReceived
  exact an_foldl _ (fun X h hX => an_messageReceived X h a mc hX) _ _ hi

theorem an_foundStopAll (s : Stack) (hi : AN s) : AN s.foundStopAll := by
  unfold foundStopAll AN; simp

/-! ### replay to one listener (watch / unwatch) -/

def matchF (filter : Option Service) (p : Addr × SvcKey) : Bool :=
  match filter with | none => true | some f => f.matchesService p.2.toService

theorem replay_spec (s : Stack) (b : Bool) (filter : Option Service) (l : Listener) :
    lrest (s.replay b filter l) = lrest s ∧
    (s.replay b filter l).lisLog =
      s.lisLog ++ (s.found.allKeys.filter (matchF filter)).flatMap (fun p => (extIds [l]).map (fun id => ((id, b, p.2, p.1) : LLine))) := by
  have key : ∀ (ks : List (Addr × SvcKey)) (X : Stack),
      lrest (ks.foldl (fun s p =>
        if matchF filter p = true
        then (if b = true then s.listenerOffered l p.2 p.1 else s.listenerStopped l p.2 p.1) else s) X) = lrest X ∧
      (ks.foldl (fun s p =>
        if matchF filter p = true
        then (if b = true then s.listenerOffered l p.2 p.1 else s.listenerStopped l p.2 p.1) else s) X).lisLog =
        X.lisLog ++ (ks.filter (matchF filter)).flatMap (fun p => (extIds [l]).map (fun id => ((id, b, p.2, p.1) : LLine))) := by
    intro ks
    induction ks with
    | nil => intro X; exact ⟨rfl, by simp⟩
    | cons p t ih =>
      intro X
      rw [List.foldl_cons]
      by_cases hp : matchF filter p = true
      · rw [if_pos hp]
        obtain ⟨c1, c2⟩ := lis_callback X b p.2 p.1 l
        obtain ⟨c3, c4⟩ := ih (if b = true then X.listenerOffered l p.2 p.1 else X.listenerStopped l p.2 p.1)
        refine ⟨c3.trans c1, ?_⟩
        rw [c4, c2, List.filter_cons, if_pos hp, List.flatMap_cons, List.append_assoc]
      · rw [if_neg hp]
        obtain ⟨c3, c4⟩ := ih X
        refine ⟨c3, ?_⟩
        rw [c4, List.filter_cons, if_neg hp]
  exact key s.found.allKeys s

/-- a run of notifications for pairwise distinct (address, service) pairs -/
theorem trackS_pairs (k : SvcKey) (a : Addr) (L : List (Addr × SvcKey)) (hnd : L.Nodup) (o b : Bool) :
    trackS k a (some b) (L.map (fun p => (o, p.2, p.1))) =
      if (a, k) ∈ L then (if o then (if b then none else some true) else (if b then some false else none)) else some b := by
  induction L generalizing b with
  | nil => simp [trackS]
  | cons p ps ih =>
    obtain ⟨hp, hps⟩ := List.nodup_cons.mp hnd
    simp only [List.map_cons, trackS]
    by_cases h : p.2 = k ∧ p.1 = a
    · obtain ⟨h1, h2⟩ := h
      have hpe : p = (a, k) := by cases p; simp_all
      subst hpe
      simp only [true_and, and_self, if_true, List.mem_cons, true_or]
      have hnot : (a, k) ∉ ps := hp
      cases o <;> cases b <;> simp [ih hps, hnot]
    · rw [if_neg h, ih hps]
      have : ((a, k) ∈ p :: ps) ↔ (a, k) ∈ ps := by
        simp only [List.mem_cons]
        constructor
        · rintro (e | e)
          · exact absurd ⟨by rw [← e], by rw [← e]⟩ h
          · exact e
        · exact Or.inr
      simp only [this]

theorem tget_cons {K : Type} (p : Addr × List (TSEntry K)) (t : TStore K) (a : Addr) :
    TStore.get (p :: t) a = if p.1 = a then p.2 else TStore.get t a := by
  unfold TStore.get
  by_cases hp : p.1 = a <;> simp [List.find?_cons, hp]

theorem allKeys_cons_mem (p : Addr × List (TSEntry SvcKey)) (t : TStore SvcKey) (a : Addr) (k : SvcKey) :
    (a, k) ∈ TStore.allKeys (p :: t) ↔ (p.1 = a ∧ k ∈ p.2.map (·.key)) ∨ (a, k) ∈ TStore.allKeys t := by
  unfold TStore.allKeys
  rw [List.flatMap_cons, List.mem_append]
  constructor
  · rintro (h | h)
    · obtain ⟨e, he, heq⟩ := List.mem_map.mp h
      exact Or.inl ⟨(Prod.mk.inj heq).1, List.mem_map.mpr ⟨e, he, (Prod.mk.inj heq).2⟩⟩
    · exact Or.inr h
  · rintro (⟨h1, h2⟩ | h)
    · obtain ⟨e, he, heq⟩ := List.mem_map.mp h2
      exact Or.inl (List.mem_map.mpr ⟨e, he, by rw [h1, heq]⟩)
    · exact Or.inr h

theorem allKeys_addr_mem {t : TStore SvcKey} {a : Addr} {k : SvcKey} (h : (a, k) ∈ TStore.allKeys t) : a ∈ t.map (·.1) := by
  unfold TStore.allKeys at h
  obtain ⟨q, hq, hmem⟩ := List.mem_flatMap.mp h
  obtain ⟨e, _, heq⟩ := List.mem_map.mp hmem
  rw [← (Prod.mk.inj heq).1]; exact List.mem_map_of_mem hq

theorem allKeys_mem {st : TStore SvcKey} (hn : (st.map (·.1)).Nodup) (a : Addr) (k : SvcKey) :
    (a, k) ∈ st.allKeys ↔ k ∈ (st.get a).map (·.key) := by
  induction st with
  | nil => simp [TStore.allKeys, TStore.get]
  | cons p t ih =>
    simp only [List.map_cons, List.nodup_cons] at hn
    rw [allKeys_cons_mem, tget_cons]
    by_cases hp : p.1 = a
    · rw [if_pos hp]
      constructor
      · rintro (⟨_, h⟩ | h)
        · exact h
        · exact absurd (by rw [hp]; exact allKeys_addr_mem h) hn.1
      · exact fun h => Or.inl ⟨hp, h⟩
    · rw [if_neg hp, ← ih hn.2]
      constructor
      · rintro (⟨h, _⟩ | h)
        · exact absurd h hp
        · exact h
      · exact Or.inr

theorem allKeys_nodup {st : TStore SvcKey} (hn : (st.map (·.1)).Nodup) (hk : ∀ a, ((st.get a).map (·.key)).Nodup) : st.allKeys.Nodup := by
  induction st with
  | nil => simp [TStore.allKeys]
  | cons p t ih =>
    simp only [List.map_cons, List.nodup_cons] at hn
    have hkp : (p.2.map (·.key)).Nodup := by
      have := hk p.1
      rw [tget_cons, if_pos rfl] at this; exact this
    have hkt : ∀ a, ((TStore.get t a).map (·.key)).Nodup := by
      intro a
      have := hk a
      rw [tget_cons] at this
      by_cases hp : p.1 = a
      · have hnone : TStore.get t a = [] := by
          unfold TStore.get
          have : t.find? (fun q => decide (q.1 = a)) = none := by
            rw [List.find?_eq_none]
            intro q hq e
            simp at e
            apply hn.1; rw [hp, ← e]; exact List.mem_map_of_mem hq
          rw [this]; rfl
        rw [hnone]; simp
      · rw [if_neg hp] at this; exact this
    show (List.flatMap (fun p => p.2.map (fun e => (p.1, e.key))) (p :: t)).Nodup
    rw [List.flatMap_cons, List.nodup_append]
    refine ⟨?_, ih hn.2 hkt, ?_⟩
    · rw [List.Nodup, List.pairwise_map] at hkp ⊢
      exact hkp.imp (fun hne e => hne (Prod.mk.inj e).2)
    · intro x hx y hy e
      subst e
      obtain ⟨e1, _, rfl⟩ := List.mem_map.mp hx
      have : (p.1, e1.key) ∈ TStore.allKeys t := hy
      exact hn.1 (allKeys_addr_mem this)

/-! ### registrations: `watch_service`, `stop_watch_service`, `watch_all_services`, `stop_watch_all_services` -/

theorem regsK_le_nreg (s : Stack) (l : LId) (k : SvcKey) : regsK s l k ≤ nreg s l := by
  unfold regsK nreg watchersOf allWatchers
  simp only [List.count_append]
  apply Nat.add_le_add_right
  exact count_flatMap_filter_le _ _ _ _

theorem mem_extIds (ls : List Listener) (id : LId) : id ∈ extIds ls ↔ Listener.ext id ∈ ls := by
  unfold extIds
  rw [List.mem_filterMap]
  constructor
  · rintro ⟨x, hx, h⟩
    cases x with
    | ext j => simp at h; subst h; exact hx
    | auto g => simp at h
  · intro h; exact ⟨_, h, rfl⟩

/-- the dict update `d[key] = g(d[key])` -/
def updW (W : List (Service × List Listener)) (f : Service) (g : List Listener → List Listener) : List (Service × List Listener) :=
  W.map (fun p => if watchKey f p then (p.1, g p.2) else p)

theorem updW_keys (W : List (Service × List Listener)) (f : Service) (g : List Listener → List Listener) :
    (updW W f g).map (·.1.key) = W.map (·.1.key) := by
  unfold updW
  rw [List.map_map]
  apply List.map_congr_left
  intro p _
  simp only [Function.comp]
  split <;> rfl

theorem updW_none (W : List (Service × List Listener)) (f : Service) (g : List Listener → List Listener)
    (h : ∀ q ∈ W, watchKey f q = false) : updW W f g = W := by
  unfold updW
  conv => rhs; rw [← List.map_id W]
  apply List.map_congr_left
  intro p hp
  rw [h p hp]; rfl

theorem updW_split (W : List (Service × List Listener)) (f : Service) (g : List Listener → List Listener)
    (hn : (W.map (·.1.key)).Nodup) (ha : W.any (watchKey f) = true) :
    ∃ pre p0 post, W = pre ++ p0 :: post ∧ watchKey f p0 = true ∧ W.find? (watchKey f) = some p0 ∧
      updW W f g = pre ++ (p0.1, g p0.2) :: post := by
  induction W with
  | nil => simp at ha
  | cons p t ih =>
    simp only [List.map_cons, List.nodup_cons] at hn
    by_cases hp : watchKey f p = true
    · refine ⟨[], p, t, rfl, hp, by simp [List.find?_cons, hp], ?_⟩
      have hnone : ∀ q ∈ t, watchKey f q = false := by
        intro q hq
        cases hq' : watchKey f q with
        | false => rfl
        | true =>
          exfalso
          apply hn.1
          unfold watchKey at hp hq'
          simp only [decide_eq_true_eq] at hp hq'
          rw [hp, ← hq']
          exact List.mem_map_of_mem (f := fun x : Service × List Listener => x.1.key) hq
      show updW (p :: t) f g = (p.1, g p.2) :: t
      have := updW_none t f g hnone
      unfold updW at this ⊢
      rw [List.map_cons, this, if_pos hp]
    · have hp' : watchKey f p = false := by cases h : watchKey f p <;> simp_all
      have hat : t.any (watchKey f) = true := by
        simp only [List.any_cons, hp', Bool.false_or] at ha; exact ha
      obtain ⟨pre, p0, post, h1, h2, h3, h4⟩ := ih hn.2 hat
      refine ⟨p :: pre, p0, post, by rw [h1]; rfl, h2, by simp [List.find?_cons, hp', h3], ?_⟩
      unfold updW at h4 ⊢
      rw [List.map_cons, h4, if_neg hp]; rfl

theorem matches_of_key {p f : Service} (h : p.key = f.key) (o : Service) : p.matchesService o = f.matchesService o := by
  unfold Service.key at h
  simp only [Prod.mk.injEq] at h
  unfold Service.matchesService
  rw [h.1, h.2.1, h.2.2.1, h.2.2.2.1]

/-- what one entry of the dict contributes -/
theorem count_entry (pre post : List (Service × List Listener)) (x : Service) (ls : List Listener) (A : List LId) (k : SvcKey) (l : LId) :
    (((pre ++ (x, ls) :: post).filter (fun p => p.1.matchesService k.toService)).flatMap (fun p => extIds p.2) ++ A).count l =
      (((pre ++ post).filter (fun p => p.1.matchesService k.toService)).flatMap (fun p => extIds p.2) ++ A).count l +
        (if x.matchesService k.toService = true then (extIds ls).count l else 0) := by
  simp only [List.filter_append, List.filter_cons, List.flatMap_append, List.count_append]
  split
  · simp only [List.flatMap_cons, List.count_append]; omega
  · omega
theorem count_entry_all (pre post : List (Service × List Listener)) (x : Service) (ls : List Listener) (A : List LId) (l : LId) :
    ((pre ++ (x, ls) :: post).flatMap (fun p => extIds p.2) ++ A).count l =
      ((pre ++ post).flatMap (fun p => extIds p.2) ++ A).count l + (extIds ls).count l := by
  simp only [List.flatMap_append, List.flatMap_cons, List.count_append]; omega

theorem count_extIds (ls : List Listener) (l : LId) : (extIds ls).count l = ls.count (Listener.ext l) := by
  induction ls with
  | nil => rfl
  | cons x t ih =>
    rw [extIds_cons, List.count_append, ih, List.count_cons]
    cases x with
    | ext j =>
      have : extIds [Listener.ext j] = [j] := rfl
      rw [this]
      by_cases hj : j = l
      · subst hj; simp; omega
      · have h2 : ¬ (Listener.ext j = Listener.ext l) := fun e => hj (Listener.ext.inj e)
        simp [hj, h2]
    | auto g =>
      have : extIds [Listener.auto g] = [] := rfl
      rw [this]; simp

theorem count_filter_if {α : Type} [DecidableEq α] (p : α → Bool) (ls : List α) (a : α) :
    (ls.filter p).count a = if p a = true then ls.count a else 0 := by
  split
  · rename_i h; exact List.count_filter h
  · rename_i h
    apply List.count_eq_zero_of_not_mem
    intro hm
    exact h (List.mem_filter.mp hm).2

theorem extIds_insert_auto (ls : List Listener) (g : Eventgroup) : extIds (insertListener ls (.auto g)) = extIds ls := by
  unfold insertListener
  split
  · rfl
  · simp only []
    unfold extIds
    rw [List.filterMap_append]; simp

theorem extIds_insert_ext (ls : List Listener) (id l : LId) (h : Listener.ext id ∉ ls) :
    (extIds (insertListener ls (.ext id))).count l = (extIds ls).count l + (if l = id then 1 else 0) := by
  rw [count_extIds, count_extIds]
  unfold insertListener
  rw [if_neg h]
  simp only [List.count_append, count_filter_if, List.count_cons, List.count_nil]
  simp only [decide_eq_true_eq]
  by_cases hl : l = id
  · subst hl
    have h0 : ls.count (Listener.ext l) = 0 := List.count_eq_zero_of_not_mem h
    simp [h0]
  · have hne : ¬ (Listener.ext id = Listener.ext l) := fun e => hl (Listener.ext.inj e).symm
    rcases Nat.lt_or_gt_of_ne hl with h1 | h1
    · have h2 : ¬ id < l := Nat.lt_asymm h1
      simp [h1, h2, hl, hne]
    · have h2 : ¬ l < id := Nat.lt_asymm h1
      simp [h1, h2, hl, hne]

theorem extIds_erase_auto (ls : List Listener) (g : Eventgroup) (l : LId) : (extIds (ls.erase (.auto g))).count l = (extIds ls).count l := by
  rw [count_extIds, count_extIds, List.count_erase_of_ne]
  intro e; cases e

theorem extIds_erase_ext (ls : List Listener) (id l : LId) (h : Listener.ext id ∈ ls) :
    (extIds (ls.erase (.ext id))).count l + (if l = id then 1 else 0) = (extIds ls).count l := by
  rw [count_extIds, count_extIds]
  by_cases hl : l = id
  · subst hl
    rw [List.count_erase_self, if_pos rfl]
    have : 0 < ls.count (Listener.ext l) := List.count_pos_iff.mpr h
    omega
  · rw [if_neg hl, List.count_erase_of_ne]
    · omega
    · intro e; exact hl (Listener.ext.inj e)

theorem count_insertSorted (A : List LId) (id l : LId) (h : id ∉ A) :
    (insertSorted A id).count l = A.count l + (if l = id then 1 else 0) := by
  unfold insertSorted
  rw [if_neg h]
  simp only [List.count_append, count_filter_if, List.count_cons, List.count_nil, decide_eq_true_eq]
  by_cases hl : l = id
  · subst hl
    have h0 : A.count l = 0 := List.count_eq_zero_of_not_mem h
    simp [h0]
  · have hne : ¬ (id = l) := fun e => hl e.symm
    rcases Nat.lt_or_gt_of_ne hl with h1 | h1
    · have h2 : ¬ id < l := Nat.lt_asymm h1
      simp [h1, h2, hl, hne]
    · have h2 : ¬ l < id := Nat.lt_asymm h1
      simp [h1, h2, hl, hne]

/-- a registration step: listener `i` is told about (o = true) or un-told (o = false) every stored service selected by `m` -/
theorem told_reg {s s' : Stack} (hS : StoreInv s) (han : AN s) (i : LId) (o : Bool) (m : SvcKey → Bool)
    (hf : s'.found = s.found)
    (hlog : s'.lisLog = s.lisLog ++ (s.found.allKeys.filter (fun p => m p.2)).map (fun p => ((i, o, p.2, p.1) : LLine)))
    (hother : ∀ l, l ≠ i → nreg s' l = nreg s l ∧ ∀ k, regsK s' l k = regsK s l k)
    (hn : nreg s' i ≤ 1)
    (hb : ∀ k, decide (regsK s i k = 1) = (!o && m k))
    (ha : ∀ k, decide (regsK s' i k = 1) = (o && m k))
    (ht : (∀ l, nreg s l ≤ 1) ∧
      ∀ l k a, trackS k a (some false) (llog s l) = some (decide (k ∈ keysAt s a) && decide (regsK s l k = 1))) :
    (∀ l, nreg s' l ≤ 1) ∧
      ∀ l k a, trackS k a (some false) (llog s' l) = some (decide (k ∈ keysAt s' a) && decide (regsK s' l k = 1)) := by
  have hkeys : ∀ a, keysAt s' a = keysAt s a := fun a => by unfold keysAt; rw [hf]
  refine ⟨fun l => ?_, fun l k a => ?_⟩
  · by_cases hl : l = i
    · rw [hl]; exact hn
    · rw [(hother l hl).1]; exact ht.1 l
  · rw [hkeys]
    by_cases hl : l = i
    · subst hl
      have hll : llog s' l = llog s l ++ (s.found.allKeys.filter (fun p => m p.2)).map (fun p => (o, p.2, p.1)) := by
        unfold llog
        rw [hlog, List.filter_append, List.map_append]
        congr 1
        rw [List.filter_eq_self.mpr (by intro x hx; obtain ⟨p, _, rfl⟩ := List.mem_map.mp hx; simp), List.map_map]
        rfl
      have hnd : (s.found.allKeys.filter (fun p => m p.2)).Nodup :=
        List.Pairwise.filter _ (allKeys_nodup han hS.1)
      have hmem : ((a, k) ∈ s.found.allKeys.filter (fun p => m p.2)) ↔ (k ∈ keysAt s a ∧ m k = true) := by
        rw [List.mem_filter, allKeys_mem han]; rfl
      rw [hll, trackS_append, ht.2 l k a, trackS_pairs k a _ hnd, hb, ha]
      by_cases hk : k ∈ keysAt s a <;> cases hm : m k <;> cases o <;> simp [hmem, hk, hm]
    · have hll : llog s' l = llog s l := by
        unfold llog
        rw [hlog, List.filter_append, List.map_append]
        have : ((s.found.allKeys.filter (fun p => m p.2)).map (fun p => ((i, o, p.2, p.1) : LLine))).filter (fun x => decide (x.1 = l)) = [] := by
          rw [List.filter_eq_nil_iff]
          intro x hx
          obtain ⟨p, _, rfl⟩ := List.mem_map.mp hx
          simp only [decide_eq_true_eq]
          exact fun e => hl e.symm
        rw [this]; simp
      rw [hll, ht.2 l k a, (hother l hl).2 k]

/-- nothing changed for the application listeners -/
theorem told_same {s s' : Stack} (hf : s'.found = s.found) (hlog : s'.lisLog = s.lisLog)
    (hr : ∀ l, nreg s' l = nreg s l ∧ ∀ k, regsK s' l k = regsK s l k)
    (ht : (∀ l, nreg s l ≤ 1) ∧
      ∀ l k a, trackS k a (some false) (llog s l) = some (decide (k ∈ keysAt s a) && decide (regsK s l k = 1))) :
    (∀ l, nreg s' l ≤ 1) ∧
      ∀ l k a, trackS k a (some false) (llog s' l) = some (decide (k ∈ keysAt s' a) && decide (regsK s' l k = 1)) := by
  refine ⟨fun l => by rw [(hr l).1]; exact ht.1 l, fun l k a => ?_⟩
  have : keysAt s' a = keysAt s a := by unfold keysAt; rw [hf]
  unfold llog
  rw [this, hlog, (hr l).2 k]
  exact ht.2 l k a

/-! #### the dict with the key created (a defaultdict lookup) -/

def W0 (W : List (Service × List Listener)) (f : Service) : List (Service × List Listener) :=
  if W.any (watchKey f) then W else W ++ [(f, [])]

theorem watchKey_self (f : Service) (ls : List Listener) : watchKey f (f, ls) = true := by simp [watchKey]

theorem w0_any (W : List (Service × List Listener)) (f : Service) : (W0 W f).any (watchKey f) = true := by
  unfold W0
  split
  · assumption
  · rw [List.any_append]; simp [watchKey_self]

theorem w0_nodup (W : List (Service × List Listener)) (f : Service) (h : (W.map (·.1.key)).Nodup) : ((W0 W f).map (·.1.key)).Nodup := by
  unfold W0
  split
  · exact h
  · rename_i hany
    rw [List.map_append, List.nodup_append]
    refine ⟨h, by simp, ?_⟩
    intro x hx y hy
    simp at hy; subst hy
    obtain ⟨p, hp, rfl⟩ := List.mem_map.mp hx
    intro e
    apply hany
    rw [List.any_eq_true]
    exact ⟨p, hp, by simp [watchKey, e]⟩

theorem insertListener_nil (l : Listener) : insertListener [] l = [l] := by
  cases l <;> simp [insertListener]

theorem watch_watched_eq (W : List (Service × List Listener)) (f : Service) (l : Listener) :
    (if W.any (watchKey f) = true then W.map (fun p => if watchKey f p then (p.1, insertListener p.2 l) else p) else W ++ [(f, [l])]) =
      updW (W0 W f) f (fun ls => insertListener ls l) := by
  unfold W0
  split
  · rfl
  · rename_i hany
    unfold updW
    rw [List.map_append]
    have h1 := updW_none W f (fun ls => insertListener ls l) (by
      intro q hq
      cases hq' : watchKey f q with
      | false => rfl
      | true => exact absurd (List.any_eq_true.mpr ⟨q, hq, hq'⟩) hany)
    unfold updW at h1
    rw [h1]
    simp [watchKey_self, insertListener_nil]

def cntK (W : List (Service × List Listener)) (A : List LId) (k : SvcKey) (l : LId) : Nat :=
  ((W.filter (fun p => p.1.matchesService k.toService)).flatMap (fun p => extIds p.2) ++ A).count l
def cntA (W : List (Service × List Listener)) (A : List LId) (l : LId) : Nat :=
  (W.flatMap (fun p => extIds p.2) ++ A).count l

theorem regsK_eq (s : Stack) (l : LId) (k : SvcKey) : regsK s l k = cntK s.watched s.watchAll k l := rfl
theorem nreg_eq (s : Stack) (l : LId) : nreg s l = cntA s.watched s.watchAll l := rfl

theorem w0_cntK (W : List (Service × List Listener)) (f : Service) (A : List LId) (k : SvcKey) (l : LId) :
    cntK (W0 W f) A k l = cntK W A k l := by
  unfold W0
  split
  · rfl
  · unfold cntK
    have := count_entry W [] f [] A k l
    simp only [List.append_nil] at this
    rw [this]
    have : (extIds ([] : List Listener)).count l = 0 := rfl
    rw [this]; simp
theorem w0_cntA (W : List (Service × List Listener)) (f : Service) (A : List LId) (l : LId) :
    cntA (W0 W f) A l = cntA W A l := by
  unfold W0
  split
  · rfl
  · unfold cntA
    have := count_entry_all W [] f [] A l
    simp only [List.append_nil] at this
    rw [this]; rfl

/-- the registrations after `d[f] = g(d[f])` -/
theorem updW_counts (W : List (Service × List Listener)) (f : Service) (g : List Listener → List Listener) (A : List LId)
    (hn : (W.map (·.1.key)).Nodup) (ha : W.any (watchKey f) = true) :
    ∃ p0, W.find? (watchKey f) = some p0 ∧
      (∀ k l, cntK (updW W f g) A k l + (if f.matchesService k.toService = true then (extIds p0.2).count l else 0) =
        cntK W A k l + (if f.matchesService k.toService = true then (extIds (g p0.2)).count l else 0)) ∧
      (∀ l, cntA (updW W f g) A l + (extIds p0.2).count l = cntA W A l + (extIds (g p0.2)).count l) := by
  obtain ⟨pre, p0, post, h1, h2, h3, h4⟩ := updW_split W f g hn ha
  refine ⟨p0, h3, ?_, ?_⟩
  · intro k l
    have hm : p0.1.matchesService k.toService = f.matchesService k.toService := by
      apply matches_of_key
      unfold watchKey at h2; simpa using h2
    unfold cntK
    rw [h4, h1]
    have e1 := count_entry pre post p0.1 (g p0.2) A k l
    have e2 := count_entry pre post p0.1 p0.2 A k l
    rw [e1, e2, hm]
    omega
  · intro l
    unfold cntA
    rw [h4, h1]
    have e1 := count_entry_all pre post p0.1 (g p0.2) A l
    have e2 := count_entry_all pre post p0.1 p0.2 A l
    rw [e1, e2]
    omega

theorem flatMap_singleton_map {α β γ : Type} (L : List α) (f : α → γ → β) (c : γ) :
    L.flatMap (fun p => [c].map (f p)) = L.map (fun p => f p c) := by
  induction L with
  | nil => rfl
  | cons x t ih => rw [List.flatMap_cons, ih]; rfl
theorem flatMap_nil_map {α β γ : Type} (L : List α) (f : α → γ → β) :
    L.flatMap (fun p => ([] : List γ).map (f p)) = [] := by
  induction L with
  | nil => rfl
  | cons x t ih => simp [List.flatMap_cons, ih]

theorem nreg_zero_of_not_registered (s : Stack) (id : LId) (h : s.isRegistered id = false) : nreg s id = 0 := by
  unfold isRegistered at h
  simp only [Bool.or_eq_false_iff, decide_eq_false_iff_not] at h
  unfold nreg allWatchers
  apply List.count_eq_zero_of_not_mem
  intro hm
  rcases List.mem_append.mp hm with hm | hm
  · obtain ⟨p, hp, hid⟩ := List.mem_flatMap.mp hm
    have : s.watched.any (fun p => decide (Listener.ext id ∈ p.2)) = true :=
      List.any_eq_true.mpr ⟨p, hp, by simpa using (mem_extIds p.2 id).mp hid⟩
    rw [h.2] at this; cases this
  · exact h.1 hm

theorem lrest_parts {s s' : Stack} (h : lrest s' = lrest s) :
    s'.found = s.found ∧ s'.storeLog = s.storeLog ∧ s'.watched = s.watched ∧ s'.watchAll = s.watchAll ∧ s'.lisDup = s.lisDup :=
  ⟨congrArg (fun p => p.1) h, congrArg (fun p => p.2.1) h, congrArg (fun p => p.2.2.1) h, congrArg (fun p => p.2.2.2.1) h,
   congrArg (fun p => p.2.2.2.2) h⟩

theorem watchService_eq (s : Stack) (f : Service) (l : Listener) :
    s.watchService f l = (({ s with watched := updW (W0 s.watched f) f (fun ls => insertListener ls l) } : Stack).replay true (some f) l).markDup
      (match l with | .ext id => s.isRegistered id | _ => false) := by
  unfold watchService
  simp only []
  rw [watch_watched_eq]
  rfl

theorem linv_watchService (s : Stack) (f : Service) (l : Listener) (hS : StoreInv s) (hi : LInv s) : LInv (s.watchService f l) := by
  rw [watchService_eq]
  generalize hs1 : ({ s with watched := updW (W0 s.watched f) f (fun ls => insertListener ls l) } : Stack) = s1
  have hw1 : s1.watched = updW (W0 s.watched f) f (fun ls => insertListener ls l) := by rw [← hs1]
  have hwa1 : s1.watchAll = s.watchAll := by rw [← hs1]
  have hf1 : s1.found = s.found := by rw [← hs1]
  have hl1 : s1.lisLog = s.lisLog := by rw [← hs1]
  have hd1 : s1.lisDup = s.lisDup := by rw [← hs1]
  obtain ⟨r1, r2⟩ := replay_spec s1 true (some f) l
  obtain ⟨q1, _, q3, q4, q5⟩ := lrest_parts r1
  generalize hs2 : s1.replay true (some f) l = s2 at r2 q1 q3 q4 q5
  generalize hd : (match l with | .ext id => s.isRegistered id | _ => false) = d
  have hfound : (s2.markDup d).found = s.found := q1.trans hf1
  have hwatched : (s2.markDup d).watched = updW (W0 s.watched f) f (fun ls => insertListener ls l) := q3.trans hw1
  have hwatchAll : (s2.markDup d).watchAll = s.watchAll := q4.trans hwa1
  have hlis : (s2.markDup d).lisLog = s2.lisLog := rfl
  obtain ⟨p0, hfind, hcK, hcA⟩ := updW_counts (W0 s.watched f) f (fun ls => insertListener ls l) s.watchAll (w0_nodup _ _ hi.wk) (w0_any _ _)
  simp only [w0_cntK, w0_cntA] at hcK hcA
  have hrK : ∀ l' k, regsK (s2.markDup d) l' k = cntK (updW (W0 s.watched f) f (fun ls => insertListener ls l)) s.watchAll k l' := by
    intro l' k; rw [regsK_eq, hwatched, hwatchAll]
  have hrA : ∀ l', nreg (s2.markDup d) l' = cntA (updW (W0 s.watched f) f (fun ls => insertListener ls l)) s.watchAll l' := by
    intro l'; rw [nreg_eq, hwatched, hwatchAll]
  refine ⟨?_, ?_, ?_⟩
  · unfold AN; rw [hfound]; exact hi.an
  · unfold WK; rw [hwatched, updW_keys]; exact w0_nodup _ _ hi.wk
  · intro hdup
    have hdup' : (s.lisDup || d) = false := by
      have : (s2.markDup d).lisDup = (s2.lisDup || d) := rfl
      rw [this, q5, hd1] at hdup; exact hdup
    simp only [Bool.or_eq_false_iff] at hdup'
    obtain ⟨hsd, hdf⟩ := hdup'
    have ht := hi.told hsd
    cases l with
    | ext id =>
      simp only [] at hd
      have hnr : nreg s id = 0 := nreg_zero_of_not_registered s id (by rw [hd]; exact hdf)
      have hc0 : (extIds p0.2).count id = 0 := by
        apply List.count_eq_zero_of_not_mem
        intro hmem
        have hp0 : p0 ∈ W0 s.watched f := List.mem_of_find?_eq_some hfind
        have h5 : cntA (W0 s.watched f) s.watchAll id = 0 := by rw [w0_cntA]; exact hnr
        have : 0 < cntA (W0 s.watched f) s.watchAll id := by
          unfold cntA
          apply List.count_pos_iff.mpr
          exact List.mem_append_left _ (List.mem_flatMap.mpr ⟨p0, hp0, hmem⟩)
        omega
      have hnot : Listener.ext id ∉ p0.2 := fun h => by
        have := List.count_pos_iff.mpr ((mem_extIds _ _).mpr h); omega
      have hins : ∀ l', (extIds (insertListener p0.2 (.ext id))).count l' = (extIds p0.2).count l' + (if l' = id then 1 else 0) :=
        fun l' => extIds_insert_ext p0.2 id l' hnot
      apply told_reg hS hi.an id true (fun k => f.matchesService k.toService) hfound ?_ ?_ ?_ ?_ ?_ ht
      · rw [hlis, r2, hl1, hf1]
        congr 1
        have : extIds [Listener.ext id] = [id] := rfl
        rw [this]
        exact flatMap_singleton_map _ (fun (p : Addr × SvcKey) (i : LId) => ((i, true, p.2, p.1) : LLine)) id
      · intro l' hl'
        refine ⟨?_, fun k => ?_⟩
        · rw [hrA, nreg_eq]
          have := hcA l'
          rw [hins l', if_neg hl'] at this
          omega
        · rw [hrK, regsK_eq]
          have := hcK k l'
          rw [hins l', if_neg hl'] at this
          by_cases hm : f.matchesService k.toService = true
          · rw [if_pos hm, if_pos hm] at this; omega
          · rw [if_neg hm, if_neg hm] at this; omega
      · rw [hrA]
        have := hcA id
        rw [hins id, if_pos rfl] at this
        have h2 : cntA s.watched s.watchAll id = 0 := hnr
        omega
      · intro k
        have : regsK s id k = 0 := by have := regsK_le_nreg s id k; omega
        rw [this]; simp
      · intro k
        rw [hrK]
        have := hcK k id
        rw [hins id, if_pos rfl, hc0] at this
        have h2 : cntK s.watched s.watchAll k id = 0 := by
          have := regsK_le_nreg s id k; rw [regsK_eq] at this; omega
        by_cases hm : f.matchesService k.toService = true
        · rw [if_pos hm, if_pos hm] at this
          have : cntK (updW (W0 s.watched f) f (fun ls => insertListener ls (.ext id))) s.watchAll k id = 1 := by omega
          rw [this, hm]; rfl
        · rw [if_neg hm, if_neg hm] at this
          have : cntK (updW (W0 s.watched f) f (fun ls => insertListener ls (.ext id))) s.watchAll k id = 0 := by omega
          rw [this]; simp [hm]
    | auto g =>
      apply told_same hfound ?_ ?_ ht
      · rw [hlis, r2, hl1]
        have : extIds [Listener.auto g] = [] := rfl
        rw [this, flatMap_nil_map, List.append_nil]
      · intro l'
        refine ⟨?_, fun k => ?_⟩
        · rw [hrA, nreg_eq]
          have := hcA l'
          rw [extIds_insert_auto] at this
          omega
        · rw [hrK, regsK_eq]
          have := hcK k l'
          rw [extIds_insert_auto] at this
          by_cases hm : f.matchesService k.toService = true
          · rw [if_pos hm] at this; omega
          · rw [if_neg hm] at this; omega

theorem w0_of_mem (W : List (Service × List Listener)) (f : Service) (l : Listener)
    (h : l ∈ ((W.find? (watchKey f)).map (·.2)).getD []) : W0 W f = W := by
  unfold W0
  split
  · rfl
  · rename_i hany
    have : W.find? (watchKey f) = none := by
      rw [List.find?_eq_none]
      intro q hq hq'
      exact hany (List.any_eq_true.mpr ⟨q, hq, hq'⟩)
    rw [this] at h
    simp at h

theorem linv_of_parts {s s' : Stack} (hi : LInv s) (hf : s'.found = s.found) (hl : s'.lisLog = s.lisLog) (hd : s'.lisDup = s.lisDup)
    (hwk : WK s') (hr : ∀ l, nreg s' l = nreg s l ∧ ∀ k, regsK s' l k = regsK s l k) : LInv s' := by
  refine ⟨by unfold AN; rw [hf]; exact hi.an, hwk, fun hdup => ?_⟩
  exact told_same hf hl hr (hi.told (by rw [← hd]; exact hdup))

theorem linv_stopWatchService (s : Stack) (f : Service) (l : Listener) (hS : StoreInv s) (hi : LInv s) : LInv (s.stopWatchService f l) := by
  unfold stopWatchService
  simp only []
  have hW0 : (if s.watched.any (watchKey f) = true then s.watched else s.watched ++ [(f, [])]) = W0 s.watched f := rfl
  rw [hW0]
  split
  · -- KeyError
    obtain ⟨e1, e2⟩ := lrest_of_lsp (lsp_emit ({ s with watched := W0 s.watched f } : Stack) (.raised .key))
    obtain ⟨q1, _, q3, q4, q5⟩ := lrest_parts e1
    apply linv_of_parts hi q1 e2 q5
    · unfold WK; rw [q3]; exact w0_nodup _ _ hi.wk
    · intro l'
      refine ⟨?_, fun k => ?_⟩
      · rw [nreg_eq, nreg_eq, q3, q4]; exact w0_cntA _ _ _ _
      · rw [regsK_eq, regsK_eq, q3, q4]; exact w0_cntK _ _ _ _ _
  · rename_i hmem
    have hmem' : l ∈ ((s.watched.find? (watchKey f)).map (·.2)).getD [] := Classical.not_not.mp hmem
    have hw0 := w0_of_mem s.watched f l hmem'
    have hupd : (W0 s.watched f).map (fun p => if watchKey f p then (p.1, p.2.erase l) else p) = updW (W0 s.watched f) f (fun ls => ls.erase l) := rfl
    rw [hupd]
    generalize hs1 : ({ s with watched := updW (W0 s.watched f) f (fun ls => ls.erase l) } : Stack) = s1
    have hw1 : s1.watched = updW (W0 s.watched f) f (fun ls => ls.erase l) := by rw [← hs1]
    have hwa1 : s1.watchAll = s.watchAll := by rw [← hs1]
    have hf1 : s1.found = s.found := by rw [← hs1]
    have hl1 : s1.lisLog = s.lisLog := by rw [← hs1]
    have hd1 : s1.lisDup = s.lisDup := by rw [← hs1]
    obtain ⟨r1, r2⟩ := replay_spec s1 false (some f) l
    obtain ⟨q1, _, q3, q4, q5⟩ := lrest_parts r1
    generalize hs2 : s1.replay false (some f) l = s2 at r2 q1 q3 q4 q5
    have hfound : s2.found = s.found := q1.trans hf1
    have hwatched : s2.watched = updW (W0 s.watched f) f (fun ls => ls.erase l) := q3.trans hw1
    have hwatchAll : s2.watchAll = s.watchAll := q4.trans hwa1
    obtain ⟨p0, hfind, hcK, hcA⟩ := updW_counts (W0 s.watched f) f (fun ls => ls.erase l) s.watchAll (w0_nodup _ _ hi.wk) (w0_any _ _)
    simp only [w0_cntK, w0_cntA] at hcK hcA
    have hrK : ∀ l' k, regsK s2 l' k = cntK (updW (W0 s.watched f) f (fun ls => ls.erase l)) s.watchAll k l' := by
      intro l' k; rw [regsK_eq, hwatched, hwatchAll]
    have hrA : ∀ l', nreg s2 l' = cntA (updW (W0 s.watched f) f (fun ls => ls.erase l)) s.watchAll l' := by
      intro l'; rw [nreg_eq, hwatched, hwatchAll]
    have hl0 : l ∈ p0.2 := by
      rw [hw0] at hfind
      rw [hfind] at hmem'
      exact hmem'
    refine ⟨?_, ?_, ?_⟩
    · unfold AN; rw [hfound]; exact hi.an
    · unfold WK; rw [hwatched, updW_keys]; exact w0_nodup _ _ hi.wk
    · intro hdup
      have hsd : s.lisDup = false := by rw [← hd1, ← q5]; exact hdup
      have ht := hi.told hsd
      cases l with
      | ext id =>
        have hers : ∀ l', (extIds (p0.2.erase (.ext id))).count l' + (if l' = id then 1 else 0) = (extIds p0.2).count l' :=
          fun l' => extIds_erase_ext p0.2 id l' hl0
        have hn1 := ht.1 id
        rw [nreg_eq] at hn1
        have hA := hcA id
        have hE := hers id
        rw [if_pos rfl] at hE
        have hn0 : cntA (updW (W0 s.watched f) f (fun ls => ls.erase (.ext id))) s.watchAll id = 0 := by omega
        apply told_reg hS hi.an id false (fun k => f.matchesService k.toService) hfound ?_ ?_ ?_ ?_ ?_ ht
        · rw [r2, hl1, hf1]
          congr 1
          have : extIds [Listener.ext id] = [id] := rfl
          rw [this]
          exact flatMap_singleton_map _ (fun (p : Addr × SvcKey) (i : LId) => ((i, false, p.2, p.1) : LLine)) id
        · intro l' hl'
          refine ⟨?_, fun k => ?_⟩
          · rw [hrA, nreg_eq]
            have := hcA l'
            have h2 := hers l'
            rw [if_neg hl'] at h2
            omega
          · rw [hrK, regsK_eq]
            have := hcK k l'
            have h2 := hers l'
            rw [if_neg hl'] at h2
            by_cases hm : f.matchesService k.toService = true
            · rw [if_pos hm, if_pos hm] at this; omega
            · rw [if_neg hm, if_neg hm] at this; omega
        · rw [hrA, hn0]; omega
        · intro k
          have hle := regsK_le_nreg s2 id k
          rw [hrK, hrA, hn0] at hle
          have := hcK k id
          rw [regsK_eq]
          by_cases hm : f.matchesService k.toService = true
          · rw [if_pos hm, if_pos hm] at this
            have : cntK s.watched s.watchAll k id = 1 := by omega
            rw [this, hm]; rfl
          · rw [if_neg hm, if_neg hm] at this
            have : cntK s.watched s.watchAll k id = 0 := by omega
            rw [this]; simp [hm]
        · intro k
          have hle := regsK_le_nreg s2 id k
          rw [hrA, hn0] at hle
          have : regsK s2 id k = 0 := by omega
          rw [this]; simp
      | auto g =>
        apply told_same hfound ?_ ?_ ht
        · rw [r2, hl1]
          have : extIds [Listener.auto g] = [] := rfl
          rw [this, flatMap_nil_map, List.append_nil]
        · intro l'
          refine ⟨?_, fun k => ?_⟩
          · rw [hrA, nreg_eq]
            have := hcA l'
            rw [extIds_erase_auto] at this
            omega
          · rw [hrK, regsK_eq]
            have := hcK k l'
            rw [extIds_erase_auto] at this
            by_cases hm : f.matchesService k.toService = true
            · rw [if_pos hm] at this; omega
            · rw [if_neg hm] at this; omega

theorem cntK_all (W : List (Service × List Listener)) (A : List LId) (k : SvcKey) (l : LId) :
    cntK W A k l = cntK W [] k l + A.count l := by unfold cntK; simp [List.count_append]
theorem cntA_all (W : List (Service × List Listener)) (A : List LId) (l : LId) :
    cntA W A l = cntA W [] l + A.count l := by unfold cntA; simp [List.count_append]

theorem linv_watchAllServices (s : Stack) (id : LId) (hS : StoreInv s) (hi : LInv s) : LInv (s.watchAllServices id) := by
  unfold watchAllServices
  generalize hs1 : ({ s with watchAll := insertSorted s.watchAll id } : Stack) = s1
  have hw1 : s1.watched = s.watched := by rw [← hs1]
  have hwa1 : s1.watchAll = insertSorted s.watchAll id := by rw [← hs1]
  have hf1 : s1.found = s.found := by rw [← hs1]
  have hl1 : s1.lisLog = s.lisLog := by rw [← hs1]
  have hd1 : s1.lisDup = s.lisDup := by rw [← hs1]
  obtain ⟨r1, r2⟩ := replay_spec s1 true none (.ext id)
  obtain ⟨q1, _, q3, q4, q5⟩ := lrest_parts r1
  generalize hs2 : s1.replay true none (.ext id) = s2 at r2 q1 q3 q4 q5
  generalize hd : s.isRegistered id = d
  have hfound : (s2.markDup d).found = s.found := q1.trans hf1
  have hwatched : (s2.markDup d).watched = s.watched := q3.trans hw1
  have hwatchAll : (s2.markDup d).watchAll = insertSorted s.watchAll id := q4.trans hwa1
  have hlis : (s2.markDup d).lisLog = s2.lisLog := rfl
  refine ⟨?_, ?_, ?_⟩
  · unfold AN; rw [hfound]; exact hi.an
  · unfold WK; rw [hwatched]; exact hi.wk
  · intro hdup
    have hdup' : (s.lisDup || d) = false := by
      have : (s2.markDup d).lisDup = (s2.lisDup || d) := rfl
      rw [this, q5, hd1] at hdup; exact hdup
    simp only [Bool.or_eq_false_iff] at hdup'
    obtain ⟨hsd, hdf⟩ := hdup'
    have ht := hi.told hsd
    have hnr : nreg s id = 0 := nreg_zero_of_not_registered s id (by rw [hd]; exact hdf)
    have hnot : id ∉ s.watchAll := by
      intro hm
      have : 0 < nreg s id := by
        unfold nreg allWatchers
        exact List.count_pos_iff.mpr (List.mem_append_right _ hm)
      omega
    have hins := fun l' => count_insertSorted s.watchAll id l' hnot
    have hrK : ∀ l' k, regsK (s2.markDup d) l' k = regsK s l' k + (if l' = id then 1 else 0) := by
      intro l' k
      rw [regsK_eq, regsK_eq, hwatched, hwatchAll, cntK_all, cntK_all s.watched s.watchAll, hins]; omega
    have hrA : ∀ l', nreg (s2.markDup d) l' = nreg s l' + (if l' = id then 1 else 0) := by
      intro l'
      rw [nreg_eq, nreg_eq, hwatched, hwatchAll, cntA_all, cntA_all s.watched s.watchAll, hins]; omega
    apply told_reg hS hi.an id true (fun _ => true) hfound ?_ ?_ ?_ ?_ ?_ ht
    · rw [hlis, r2, hl1, hf1]
      congr 1
      have : extIds [Listener.ext id] = [id] := rfl
      rw [this]
      exact flatMap_singleton_map _ (fun (p : Addr × SvcKey) (i : LId) => ((i, true, p.2, p.1) : LLine)) id
    · intro l' hl'
      refine ⟨by rw [hrA, if_neg hl']; rfl, fun k => by rw [hrK, if_neg hl']; rfl⟩
    · rw [hrA, if_pos rfl, hnr]; exact Nat.le_refl _
    · intro k
      have : regsK s id k = 0 := by have := regsK_le_nreg s id k; omega
      rw [this]; rfl
    · intro k
      have : regsK s id k = 0 := by have := regsK_le_nreg s id k; omega
      rw [hrK, if_pos rfl, this]; rfl

theorem linv_stopWatchAllServices (s : Stack) (id : LId) (hS : StoreInv s) (hi : LInv s) : LInv (s.stopWatchAllServices id) := by
  unfold stopWatchAllServices
  split
  · obtain ⟨e1, e2⟩ := lrest_of_lsp (lsp_emit s (.raised .key))
    obtain ⟨q1, _, q3, q4, q5⟩ := lrest_parts e1
    apply linv_of_parts hi q1 e2 q5
    · unfold WK; rw [q3]; exact hi.wk
    · intro l'
      refine ⟨by rw [nreg_eq, nreg_eq, q3, q4], fun k => by rw [regsK_eq, regsK_eq, q3, q4]⟩
  · rename_i hmem
    have hmem' : id ∈ s.watchAll := Classical.not_not.mp hmem
    generalize hs1 : ({ s with watchAll := s.watchAll.erase id } : Stack) = s1
    have hw1 : s1.watched = s.watched := by rw [← hs1]
    have hwa1 : s1.watchAll = s.watchAll.erase id := by rw [← hs1]
    have hf1 : s1.found = s.found := by rw [← hs1]
    have hl1 : s1.lisLog = s.lisLog := by rw [← hs1]
    have hd1 : s1.lisDup = s.lisDup := by rw [← hs1]
    obtain ⟨r1, r2⟩ := replay_spec s1 false none (.ext id)
    obtain ⟨q1, _, q3, q4, q5⟩ := lrest_parts r1
    generalize hs2 : s1.replay false none (.ext id) = s2 at r2 q1 q3 q4 q5
    have hfound : s2.found = s.found := q1.trans hf1
    have hwatched : s2.watched = s.watched := q3.trans hw1
    have hwatchAll : s2.watchAll = s.watchAll.erase id := q4.trans hwa1
    refine ⟨?_, ?_, ?_⟩
    · unfold AN; rw [hfound]; exact hi.an
    · unfold WK; rw [hwatched]; exact hi.wk
    · intro hdup
      have hsd : s.lisDup = false := by rw [← hd1, ← q5]; exact hdup
      have ht := hi.told hsd
      have hers : ∀ l', (s.watchAll.erase id).count l' + (if l' = id then 1 else 0) = s.watchAll.count l' := by
        intro l'
        by_cases hl : l' = id
        · subst hl
          rw [List.count_erase_self, if_pos rfl]
          have : 0 < s.watchAll.count l' := List.count_pos_iff.mpr hmem'
          omega
        · rw [if_neg hl, List.count_erase_of_ne hl]; rfl
      have hrK : ∀ l' k, regsK s2 l' k + (if l' = id then 1 else 0) = regsK s l' k := by
        intro l' k
        rw [regsK_eq, regsK_eq, hwatched, hwatchAll, cntK_all, cntK_all s.watched s.watchAll, ← hers l']; omega
      have hrA : ∀ l', nreg s2 l' + (if l' = id then 1 else 0) = nreg s l' := by
        intro l'
        rw [nreg_eq, nreg_eq, hwatched, hwatchAll, cntA_all, cntA_all s.watched s.watchAll, ← hers l']; omega
      have hn1 := ht.1 id
      have hA := hrA id
      rw [if_pos rfl] at hA
      have hn0 : nreg s2 id = 0 := by omega
      apply told_reg hS hi.an id false (fun _ => true) hfound ?_ ?_ ?_ ?_ ?_ ht
      · rw [r2, hl1, hf1]
        congr 1
        have : extIds [Listener.ext id] = [id] := rfl
        rw [this]
        exact flatMap_singleton_map _ (fun (p : Addr × SvcKey) (i : LId) => ((i, false, p.2, p.1) : LLine)) id
      · intro l' hl'
        refine ⟨?_, fun k => ?_⟩
        · have := hrA l'; rw [if_neg hl'] at this; omega
        · have := hrK l' k; rw [if_neg hl'] at this; omega
      · omega
      · intro k
        have hle := regsK_le_nreg s2 id k
        have := hrK id k
        rw [if_pos rfl] at this
        have : regsK s id k = 1 := by omega
        rw [this]; rfl
      · intro k
        have hle := regsK_le_nreg s2 id k
        have : regsK s2 id k = 0 := by omega
        rw [this]; rfl

end Stack
end Someip
